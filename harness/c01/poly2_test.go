package c01

import (
	"fmt"
	"math"

	"github.com/unixpickle/model3d/model2d"
	"pgregory.net/rapid"
	"verifharness/gen"
	"verifharness/kit"
	"verifharness/m3"
)

// 2D convex polytopes (model2d is a separate copy of the polytope code): a rotated rectangle cut by random lines,
// with redundant lines TOUCHING a corner (three or more constraint lines through one vertex) and constraints
// rescaled (normal and bound together).  The outline must be one closed, consistently oriented loop around the
// interior point, and every vertex must satisfy every constraint.

type poly2Case struct {
	Angle  float64      `json:"angle"`
	Half   kit.V2       `json:"half"`
	Cuts   [][3]float64 `json:"cuts"`   // angle of the normal (in the rectangle's frame), distance from the centre as a fraction, unused
	Tang   [][2]float64 `json:"tang"`   // tangent lines: corner index (0-3), direction of the normal as a fraction of the corner's normal cone
	Scales []float64    `json:"scales"` // per constraint exponent (10^e), 0 = none
	Centre kit.V2       `json:"centre"`
	Dups   [][2]int     `json:"dups,omitempty"` // constraints that appear a second time: index, power of ten of the copy's scale
}

func genPoly2(t *rapid.T) poly2Case {
	c := poly2Case{Angle: gen.F(t, -3.2, 3.2, "angle"), Half: kit.V2{gen.LogF(t, 0.2, 2, "hx"), gen.LogF(t, 0.2, 2, "hy")}, Centre: gen.Vec2(t, 2, "centre")}
	if rapid.IntRange(0, 3).Draw(t, "aligned") == 0 {
		c.Angle = 0
	}
	for i, n := 0, rapid.IntRange(0, 4).Draw(t, "ncuts"); i < n; i++ {
		c.Cuts = append(c.Cuts, [3]float64{gen.F(t, 0, 2*math.Pi, "ca"), gen.F(t, 0.3, 1.3, "cd"), 0})
	}
	for i, n := 0, rapid.IntRange(0, 3).Draw(t, "ntang"); i < n; i++ {
		c.Tang = append(c.Tang, [2]float64{float64(rapid.IntRange(0, 3).Draw(t, "corner")), gen.F(t, 0.1, 0.9, "tf")})
	}
	if rapid.IntRange(0, 3).Draw(t, "dups") == 0 {
		if kit.Excluded("polytope-duplicate-constraint") {
			kit.CountExcluded("polytope-duplicate-constraint")
		} else {
			for i, k := 0, rapid.IntRange(1, 2).Draw(t, "ndups"); i < k; i++ {
				c.Dups = append(c.Dups, [2]int{rapid.IntRange(0, 30).Draw(t, "dupidx"), rapid.SampledFrom([]int{0, 0, 1, -3, 6}).Draw(t, "dupexp")})
			}
		}
	}
	if rapid.Bool().Draw(t, "rescale") {
		for i := 0; i < 4+len(c.Cuts)+len(c.Tang); i++ {
			e := 0.0
			if rapid.Bool().Draw(t, "rs") {
				e = float64(rapid.IntRange(-6, 8).Draw(t, "exp"))
			}
			c.Scales = append(c.Scales, e)
		}
	}
	return c
}

func checkPoly2(c poly2Case, o *kit.Obs) error {
	cs, sn := math.Cos(c.Angle), math.Sin(c.Angle)
	rot := func(v kit.V2) kit.V2 { return kit.V2{cs*v[0] - sn*v[1], sn*v[0] + cs*v[1]} }
	type con struct {
		n kit.V2
		m float64
	}
	var cons []con
	add := func(nLocal kit.V2, dLocal float64) { // half-plane nLocal.(p - centre) <= dLocal in the rectangle's frame
		n := rot(nLocal)
		cons = append(cons, con{n, dLocal + n.Dot(c.Centre)})
	}
	add(kit.V2{1, 0}, c.Half[0])
	add(kit.V2{-1, 0}, c.Half[0])
	add(kit.V2{0, 1}, c.Half[1])
	add(kit.V2{0, -1}, c.Half[1])
	r := math.Min(c.Half[0], c.Half[1])
	for _, k := range c.Cuts {
		add(kit.V2{math.Cos(k[0]), math.Sin(k[0])}, k[1]*r) // keeps the disc of radius 0.3 r around the centre
	}
	corners := []kit.V2{{1, 1}, {-1, 1}, {-1, -1}, {1, -1}}
	for _, tg := range c.Tang {
		k := corners[int(tg[0])%4]
		// a normal strictly between the normals of the two sides meeting in the corner: the line touches the
		// rectangle in that corner only (a redundant constraint through a vertex)
		n := kit.V2{k[0] * tg[1], k[1] * (1 - tg[1])}.Unit()
		corner := kit.V2{k[0] * c.Half[0], k[1] * c.Half[1]}
		add(n, n.Dot(corner))
		o.Label("tangent-constraint-through-a-corner")
	}
	var p model2d.ConvexPolytope
	for i, k := range cons {
		f := 1.0
		if i < len(c.Scales) && c.Scales[i] != 0 {
			f = math.Pow(10, c.Scales[i])
			o.Label("rescaled-constraint")
		}
		p = append(p, &model2d.LinearConstraint{Normal: m3.C2(k.n.Scale(f)), Max: k.m * f})
	}
	for _, d := range c.Dups {
		l := p[d[0]%len(p)]
		f := math.Pow(10, float64(d[1]))
		p = append(p, &model2d.LinearConstraint{Normal: l.Normal.Scale(f), Max: l.Max * f})
		o.Label("duplicated-constraint")
	}
	segs := m3.Segs(p.Mesh())
	o.NonTrivial()
	o.Labelf("constraints:%d", len(cons))
	far := c.Centre.Add(kit.V2{10 * (c.Half[0] + c.Half[1]), 0.3})
	if err := checkClosed2(segs, []kit.V2{c.Centre}, []kit.V2{far}); err != nil {
		return fmt.Errorf("2D ConvexPolytope.Mesh with %d constraints: %w", len(cons), err)
	}
	size := c.Half.Norm()
	for _, s := range segs {
		for _, v := range s {
			for _, k := range cons {
				if d := (v.Dot(k.n) - k.m) / k.n.Norm(); d > 1e-6*size {
					return fmt.Errorf("2D ConvexPolytope.Mesh: vertex %v violates a constraint by %g", v, d)
				}
			}
		}
		if s[0].Dist(s[1]) == 0 {
			return fmt.Errorf("2D ConvexPolytope.Mesh: zero-length segment at %v", s[0])
		}
	}
	return nil
}
