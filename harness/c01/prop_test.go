package c01

import (
	"fmt"
	"math"
	"runtime"
	"sort"
	"testing"

	"github.com/unixpickle/model3d/model2d"
	"github.com/unixpickle/model3d/model3d"
	"github.com/unixpickle/model3d/toolbox3d"
	"pgregory.net/rapid"
	"verifharness/gen"
	"verifharness/kit"
	"verifharness/m3"
)

const rule = "marching inputs: lattice-defined solids (exhaustive over 2x2x2, 3x2x2 and 3x3x2 blocks in the three orientations, 3x3 / 4x4 blocks in 2D, 4x4 bitmaps) and random lattices / CSG trees / spacings through every API variant; other generators: random valid parameters. Non-trivial: non-empty output and, for lattice inputs, an ambiguous face (diagonal corners) or a 6/7-corner cell; for parametric generators any non-empty output. Distinct: hash of the JSON case."

// ---------------------------------------------------------------------------
// oracle helpers

func checkClosed3(tris []kit.Tri, inside, outside []kit.V3) error {
	if _, err := kit.ClosedOrientedManifold(tris); err != nil {
		return err
	}
	for _, p := range inside {
		if w := kit.Winding3(tris, p); math.Abs(w-1) > 0.01 {
			return fmt.Errorf("point %v is contained in the solid but has winding number %.4f (want 1: inside, normals outward)", p, w)
		}
	}
	for _, p := range outside {
		if w := kit.Winding3(tris, p); math.Abs(w) > 0.01 {
			return fmt.Errorf("point %v is excluded by the solid but has winding number %.4f (want 0)", p, w)
		}
	}
	return nil
}

func checkClosed2(segs []kit.Seg, inside, outside []kit.V2) error {
	if _, err := kit.ClosedOrientedManifold2(segs); err != nil {
		return err
	}
	for _, p := range inside {
		if w := kit.Winding2(segs, p); math.Abs(w-1) > 0.01 {
			return fmt.Errorf("point %v is contained but has winding number %.4f (want 1)", p, w)
		}
	}
	for _, p := range outside {
		if w := kit.Winding2(segs, p); math.Abs(w) > 0.01 {
			return fmt.Errorf("point %v is excluded but has winding number %.4f (want 0)", p, w)
		}
	}
	return nil
}

func latticePoints3(l gen.Lattice3) (in, out []kit.V3) {
	for z := -1; z <= l.N[2]; z++ {
		for y := -1; y <= l.N[1]; y++ {
			for x := -1; x <= l.N[0]; x++ {
				p := kit.V3{float64(x), float64(y), float64(z)}
				if l.At(x, y, z) {
					in = append(in, p)
				} else {
					out = append(out, p)
				}
			}
		}
	}
	return
}

func latticePoints2(l gen.Lattice2) (in, out []kit.V2) {
	for y := -1; y <= l.N[1]; y++ {
		for x := -1; x <= l.N[0]; x++ {
			p := kit.V2{float64(x), float64(y)}
			if l.At(x, y) {
				in = append(in, p)
			} else {
				out = append(out, p)
			}
		}
	}
	return
}

func alwaysTrue3(*model3d.Rect) bool { return true }
func alwaysTrue2(*model2d.Rect) bool { return true }

// ---------------------------------------------------------------------------
// marching cubes on lattice solids

type latCase struct {
	L     gen.Lattice3 `json:"lattice"`
	API   string       `json:"api"`
	Iters int          `json:"iters,omitempty"`
}

func runMC(s model3d.Solid, api string, delta float64, iters int) *model3d.Mesh {
	switch api {
	case "mc":
		return model3d.MarchingCubes(s, delta)
	case "search":
		return model3d.MarchingCubesSearch(s, delta, iters)
	case "interior":
		m, _ := model3d.MarchingCubesInterior(s, delta, iters)
		return m
	case "filter":
		return model3d.MarchingCubesFilter(s, alwaysTrue3, delta)
	case "searchfilter":
		return model3d.MarchingCubesSearchFilter(s, alwaysTrue3, delta, iters)
	}
	panic("unknown api " + api)
}

func checkLat3(c latCase, o *kit.Obs) error {
	m := runMC(c.L.Solid(), c.API, 1, c.Iters)
	tris := m3.Tris(m)
	if len(tris) > 0 && c.L.HasAmbiguity() {
		o.NonTrivial()
	}
	o.Label("api:" + c.API)
	in, out := latticePoints3(c.L)
	if len(in) > 0 && len(tris) == 0 {
		return fmt.Errorf("solid has %d contained lattice points but the mesh is empty", len(in))
	}
	if err := checkClosed3(tris, in, out); err != nil {
		return fmt.Errorf("%s on lattice %v %q: %w", c.API, c.L.N, c.L.Bits, err)
	}
	if v := kit.SignedVolume(tris); len(tris) > 0 && !(v > 0) {
		return fmt.Errorf("signed volume %g is not positive", v)
	}
	return nil
}

func orientedBlock(i int, a, b, c int, bits uint) latCase {
	dims := [3][3]int{{a, b, c}, {a, c, b}, {c, a, b}}
	per := 1 << bits
	or := i / per
	v := uint64(i % per)
	d := dims[or]
	api := "mc"
	if (i/7)%8 == 3 {
		api = "filter"
	}
	return latCase{L: gen.LatticeFromUint(d[0], d[1], d[2], v), API: api}
}

// ---------------------------------------------------------------------------
// marching cubes on CSG trees with arbitrary spacing

type csgCase struct {
	Tree  *gen.Node    `json:"tree"`
	Delta float64      `json:"delta"`
	API   string       `json:"api"`
	Iters int          `json:"iters"`
	Big   float64      `json:"big,omitempty"`
	Conj  []gen.Xform3 `json:"conj,omitempty"`
}

func genCSG(t *rapid.T) csgCase {
	c := csgCase{Tree: gen.NodeGen(t, 3, 8, false, "tree")}
	c.Delta = gen.LogF(t, 0.07, 0.45, "delta")
	c.API = rapid.SampledFrom([]string{"mc", "search", "interior", "filter", "searchfilter", "c2f", "conj"}).Draw(t, "api")
	if c.API != "mc" && c.API != "filter" {
		c.Iters = genIters(t)
	}
	if c.API == "c2f" {
		// coarse-to-fine requires that the coarse pass sees every feature: unions of balls of radius >= 2.5 coarse spacings
		c.Big = c.Delta * gen.F(t, 1, 3, "bigfactor")
		n := rapid.IntRange(1, 3).Draw(t, "nballs")
		c.Tree = &gen.Node{Op: "join"}
		for i := 0; i < n; i++ {
			c.Tree.Kids = append(c.Tree.Kids, &gen.Node{Op: "prim", Shape: &gen.Shape3{Kind: "sphere", A: gen.Vec3(t, 1, "c"), R: c.Big * gen.F(t, 2.5, 5, "r")}})
		}
	}
	if c.API == "conj" {
		n := rapid.IntRange(1, 3).Draw(t, "nconj")
		for i := 0; i < n; i++ {
			c.Conj = append(c.Conj, gen.Xform3Gen(t, false, "conj"))
		}
	}
	return c
}

func checkCSG(c csgCase, o *kit.Obs) error {
	solid := c.Tree.Build()
	o.Label("api:" + c.API)
	// the lattice is observed, not re-derived: every point the plain mesher queries
	var tris []kit.Tri
	switch c.API {
	case "c2f":
		tris = m3.Tris(model3d.MarchingCubesC2F(solid, c.Big, c.Delta, 0, c.Iters))
		// inputs are unions of balls with radius >= 2.5 coarse spacings (the documented precondition that
		// the coarse pass sees every feature); sidedness against the lattice is C02/C12 territory
		if _, err := kit.ClosedOrientedManifold(tris); err != nil {
			return fmt.Errorf("c2f: %w", err)
		}
		if len(tris) > 0 {
			o.NonTrivial()
			if v := kit.SignedVolume(tris); !(v > 0) {
				return fmt.Errorf("c2f: signed volume %g not positive", v)
			}
		}
		return nil
	case "conj":
		var xs []model3d.Transform
		// the lattice lives in the transformed space: several enlarging maps at a small spacing ask for
		// billions of cells, which is a cost of the case, not a defect
		if cells := gen.LatticeCells(gen.Xform3{Kind: "joined", Parts: c.Conj}, m3.V3(solid.Min()), m3.V3(solid.Max()), c.Delta); cells > 4e6 {
			o.Skip("lattice too large")
			return nil
		}
		if (gen.Xform3{Kind: "joined", Parts: c.Conj}).Det() < 0 {
			if kit.Excluded("conj-reflection") {
				kit.CountExcluded("conj-reflection")
				return nil
			}
			o.Label("conj:reflecting")
		}
		for _, x := range c.Conj {
			xs = append(xs, x.Build())
		}
		tris = m3.Tris(model3d.MarchingCubesConj(solid, c.Delta, c.Iters, xs...))
		if _, err := kit.ClosedOrientedManifold(tris); err != nil {
			return fmt.Errorf("conj: %w", err)
		}
		if len(tris) > 0 {
			o.NonTrivial()
			// orientation must be outward in the original space whatever the determinant of the transform
			if v := kit.SignedVolume(tris); !(v > 0) {
				j := gen.Xform3{Kind: "joined", Parts: c.Conj}
				return fmt.Errorf("conj: signed volume %g not positive (transform determinant %g)", v, j.Det())
			}
		}
		return nil
	}
	rec := gen.NewRecorder3(solid)
	model3d.MarchingCubes(rec, c.Delta)
	tris = m3.Tris(runMC(solid, c.API, c.Delta, c.Iters))
	var in, out []kit.V3
	for p, b := range rec.Points {
		if b {
			in = append(in, p)
		} else {
			out = append(out, p)
		}
	}
	if len(in) > 0 {
		o.NonTrivial()
		if len(tris) == 0 {
			return fmt.Errorf("%d lattice points are contained but the mesh is empty", len(in))
		}
	}
	// winding sums are O(points x triangles): subsample the lattice deterministically
	in, out = thin(in, 400), thin(out, 400)
	return checkClosed3(tris, in, out)
}

func thin(p []kit.V3, n int) []kit.V3 {
	// map iteration order is random: sort first so the probe set is a function of the case
	sort.Slice(p, func(i, j int) bool {
		for k := 0; k < 3; k++ {
			if p[i][k] != p[j][k] {
				return p[i][k] < p[j][k]
			}
		}
		return false
	})
	if len(p) <= n {
		return p
	}
	out := make([]kit.V3, 0, n)
	for i := 0; i < n; i++ {
		out = append(out, p[i*len(p)/n])
	}
	return out
}

// ---------------------------------------------------------------------------
// marching squares

type lat2Case struct {
	L     gen.Lattice2 `json:"lattice"`
	API   string       `json:"api"`
	Iters int          `json:"iters,omitempty"`
}

func runMS(s model2d.Solid, api string, delta float64, iters int) *model2d.Mesh {
	switch api {
	case "ms":
		return model2d.MarchingSquares(s, delta)
	case "search":
		return model2d.MarchingSquaresSearch(s, delta, iters)
	case "filter":
		return model2d.MarchingSquaresFilter(s, alwaysTrue2, delta)
	case "searchfilter":
		return model2d.MarchingSquaresSearchFilter(s, alwaysTrue2, delta, iters)
	}
	panic("unknown api " + api)
}

func checkLat2(c lat2Case, o *kit.Obs) error {
	segs := m3.Segs(runMS(c.L.Solid(), c.API, 1, c.Iters))
	if len(segs) > 0 && c.L.HasDiagonal() {
		o.NonTrivial()
	}
	o.Label("api:" + c.API)
	in, out := latticePoints2(c.L)
	if len(in) > 0 && len(segs) == 0 {
		return fmt.Errorf("solid has contained lattice points but the mesh is empty")
	}
	if err := checkClosed2(segs, in, out); err != nil {
		return fmt.Errorf("%s on lattice %v %q: %w", c.API, c.L.N, c.L.Bits, err)
	}
	if a := kit.SignedArea2(segs); len(segs) > 0 && !(a > 0) {
		return fmt.Errorf("signed area %g is not positive", a)
	}
	return nil
}

type csg2Case struct {
	Tree  *gen.Node2 `json:"tree"`
	Delta float64    `json:"delta"`
	API   string     `json:"api"`
	Iters int        `json:"iters"`
	Big   float64    `json:"big,omitempty"`
	Angle float64    `json:"angle,omitempty"`
	Flip  bool       `json:"flip,omitempty"` // conj: include a reflection (negative determinant)
}

func checkCSG2(c csg2Case, o *kit.Obs) error {
	solid := c.Tree.Build()
	o.Label("api:" + c.API)
	switch c.API {
	case "c2f", "conj":
		var m *model2d.Mesh
		if c.API == "c2f" {
			m = model2d.MarchingSquaresC2F(solid, c.Big, c.Delta, 0, c.Iters)
		} else {
			sx := 1.5
			if c.Flip {
				if kit.Excluded("conj-reflection") {
					kit.CountExcluded("conj-reflection")
					return nil
				}
				o.Label("conj:reflecting")
				sx = -1.5
			}
			m = model2d.MarchingSquaresConj(solid, c.Delta, c.Iters, model2d.Rotation(c.Angle), &model2d.VecScale{Scale: model2d.XY(sx, 0.7)})
		}
		segs := m3.Segs(m)
		if _, err := kit.ClosedOrientedManifold2(segs); err != nil {
			return fmt.Errorf("%s: %w", c.API, err)
		}
		if len(segs) > 0 {
			o.NonTrivial()
			if a := kit.SignedArea2(segs); !(a > 0) {
				return fmt.Errorf("%s: signed area %g not positive", c.API, a)
			}
		}
		return nil
	}
	rec := gen.NewRecorder2(solid)
	model2d.MarchingSquares(rec, c.Delta)
	segs := m3.Segs(runMS(solid, c.API, c.Delta, c.Iters))
	var in, out []kit.V2
	for p, b := range rec.Points {
		if b {
			in = append(in, p)
		} else {
			out = append(out, p)
		}
	}
	if len(in) > 0 {
		o.NonTrivial()
		if len(segs) == 0 {
			return fmt.Errorf("%d lattice points are contained but the mesh is empty", len(in))
		}
	}
	return checkClosed2(segs, in, out)
}

// ---------------------------------------------------------------------------
// bitmaps

func checkBitmap(l gen.Lattice2, o *kit.Obs) error {
	b := model2d.NewBitmap(l.N[0], l.N[1])
	for y := 0; y < l.N[1]; y++ {
		for x := 0; x < l.N[0]; x++ {
			b.Set(x, y, l.At(x, y))
		}
	}
	segs := m3.Segs(b.Mesh())
	if len(segs) > 0 && l.HasDiagonal() {
		o.NonTrivial()
	}
	var in, out []kit.V2
	for y := -1; y <= l.N[1]; y++ {
		for x := -1; x <= l.N[0]; x++ {
			p := kit.V2{float64(x) + 0.5, float64(y) + 0.5}
			if l.At(x, y) {
				in = append(in, p)
			} else {
				out = append(out, p)
			}
		}
	}
	if err := checkClosed2(segs, in, out); err != nil {
		return fmt.Errorf("bitmap %v %q: %w", l.N, l.Bits, err)
	}
	// area: every true pixel contributes 1 minus 1/8 per pulled-in corner; bound it
	a := kit.SignedArea2(segs)
	if n := float64(len(in)); a > n+1e-9 || a < n/2-1e-9 {
		return fmt.Errorf("outline area %g is not within [n/2, n] for n=%g true pixels", a, n)
	}
	return nil
}

// ---------------------------------------------------------------------------
// parametric generators

type paramCase struct {
	Kind  string      `json:"kind"`
	P     []float64   `json:"p"`
	N     []int       `json:"n"`
	Shape *gen.Shape3 `json:"shape,omitempty"`
}

func genParam(t *rapid.T) paramCase {
	kind := rapid.SampledFrom([]string{"polar", "polar2d", "icosphere", "rect", "rect2d", "cylinder", "cone", "torus", "icosahedron"}).Draw(t, "kind")
	c := paramCase{Kind: kind}
	switch kind {
	case "polar", "polar2d":
		// radius = base + sum of a few harmonics, kept positive
		c.P = []float64{gen.F(t, 0.5, 3, "base"), gen.F(t, 0, 0.4, "amp1"), gen.F(t, 0, 0.4, "amp2"), gen.F(t, 0, 6.3, "phase")}
		c.N = []int{rapid.IntRange(3, 40).Draw(t, "stops"), rapid.IntRange(1, 5).Draw(t, "k1"), rapid.IntRange(1, 7).Draw(t, "k2")}
	case "icosphere":
		c.P = []float64{gen.F(t, -3, 3, "cx"), gen.F(t, -3, 3, "cy"), gen.F(t, -3, 3, "cz"), gen.LogF(t, 0.01, 100, "radius")}
		c.N = []int{rapid.IntRange(1, 9).Draw(t, "n")}
	case "rect", "rect2d":
		c.P = []float64{gen.F(t, -3, 3, "x0"), gen.F(t, -3, 3, "y0"), gen.F(t, -3, 3, "z0"), gen.LogF(t, 1e-3, 10, "dx"), gen.LogF(t, 1e-3, 10, "dy"), gen.LogF(t, 1e-3, 10, "dz")}
	case "cylinder", "cone":
		s := gen.Shape3Gen(t, []string{kind}, 1, 100, "shape")
		c.Shape = &s
		c.N = []int{rapid.IntRange(3, 60).Draw(t, "stops")}
	case "torus":
		s := gen.Shape3Gen(t, []string{kind}, 1, 100, "shape")
		c.Shape = &s
		c.N = []int{rapid.IntRange(3, 40).Draw(t, "innerStops"), rapid.IntRange(3, 40).Draw(t, "outerStops")}
	}
	return c
}

func checkParam(c paramCase, o *kit.Obs) error {
	o.Label("kind:" + c.Kind)
	o.NonTrivial()
	switch c.Kind {
	case "polar":
		f := func(g model3d.GeoCoord) float64 {
			return c.P[0] * (1 + c.P[1]*math.Sin(float64(c.N[1])*g.Lon+c.P[3])*math.Cos(g.Lat) + c.P[2]*math.Cos(float64(c.N[2])*g.Lat)*math.Cos(g.Lat))
		}
		if c.N[1] == 1 {
			// documented default: "If radius is nil, a radius of 1 is used."
			o.Label("polar:nil-radius")
			return checkClosed3(m3.Tris(model3d.NewMeshPolar(nil, c.N[0])), []kit.V3{{0, 0, 0}, {0.01, 0.02, -0.01}}, []kit.V3{{10, 0, 0}, {0, -10, 1}})
		}
		tris := m3.Tris(model3d.NewMeshPolar(f, c.N[0]))
		return checkClosed3(tris, []kit.V3{{0, 0, 0}, {0.01, 0.02, -0.01}}, []kit.V3{{10, 0, 0}, {0, -10, 1}})
	case "polar2d":
		calls := 0
		f := func(th float64) float64 {
			calls++
			r := c.P[0] * (1 + c.P[1]*math.Sin(float64(c.N[1])*th+c.P[3]) + c.P[2]*math.Cos(float64(c.N[2])*th))
			if c.N[2] == 1 {
				// a radius with a state of its own (roughness from a generator, a running filter): every vertex is
				// still one point, shared by the two segments that meet there
				r *= 1 + 0.01*float64(calls%7)
			}
			return r
		}
		segs := m3.Segs(model2d.NewMeshPolar(f, c.N[0]))
		return checkClosed2(segs, []kit.V2{{0, 0}, {0.01, -0.02}}, []kit.V2{{10, 0}, {0, -10}})
	case "icosphere":
		// a mesh a constructor hands out is the caller's: taking faces out of one icosahedron does not show in the next
		spoil := model3d.NewMeshIcosahedron()
		for i, t := range spoil.TriangleSlice() {
			if i%3 == 0 {
				spoil.Remove(t)
			}
		}
		ctr := kit.V3{c.P[0], c.P[1], c.P[2]}
		tris := m3.Tris(model3d.NewMeshIcosphere(m3.C3(ctr), c.P[3], c.N[0]))
		if len(tris) != 20*c.N[0]*c.N[0] {
			return fmt.Errorf("icosphere n=%d has %d triangles, documented 20*n^2", c.N[0], len(tris))
		}
		return checkClosed3(tris, []kit.V3{ctr, ctr.Add(kit.V3{c.P[3] * 0.5, 0, 0})}, []kit.V3{ctr.Add(kit.V3{c.P[3] * 1.01, 0, 0}), ctr.Add(kit.V3{0, -c.P[3] * 3, 0})})
	case "icosahedron":
		return checkClosed3(m3.Tris(model3d.NewMeshIcosahedron()), []kit.V3{{0, 0, 0}}, []kit.V3{{0, 1.01, 0}})
	case "rect":
		min := kit.V3{c.P[0], c.P[1], c.P[2]}
		max := min.Add(kit.V3{c.P[3], c.P[4], c.P[5]})
		tris := m3.Tris(model3d.NewMeshRect(m3.C3(min), m3.C3(max)))
		if err := checkClosed3(tris, []kit.V3{min.Mid(max)}, []kit.V3{max.Add(max.Sub(min).Scale(0.1))}); err != nil {
			return err
		}
		if v, w := kit.SignedVolume(tris), c.P[3]*c.P[4]*c.P[5]; math.Abs(v-w) > 1e-9*math.Abs(w)+1e-9*math.Pow(min.MaxAbs()+max.MaxAbs(), 3)*1e-3 {
			return fmt.Errorf("box volume %g, want %g", v, w)
		}
		return nil
	case "rect2d":
		min := kit.V2{c.P[0], c.P[1]}
		max := min.Add(kit.V2{c.P[3], c.P[4]})
		segs := m3.Segs(model2d.NewMeshRect(m3.C2(min), m3.C2(max)))
		return checkClosed2(segs, []kit.V2{min.Mid(max)}, []kit.V2{max.Add(max.Sub(min).Scale(0.1))})
	case "cylinder":
		s := *c.Shape
		tris := m3.Tris(model3d.NewMeshCylinder(m3.C3(s.A), m3.C3(s.B), s.R, c.N[0]))
		return checkClosed3(tris, []kit.V3{s.A.Mid(s.B)}, []kit.V3{s.A.Add(s.A.Sub(s.B)), s.B.Add(s.B.Sub(s.A).Scale(0.01))})
	case "cone":
		s := *c.Shape
		tris := m3.Tris(model3d.NewMeshCone(m3.C3(s.A), m3.C3(s.B), s.R, c.N[0]))
		// a point one third of the way up the axis is inside
		return checkClosed3(tris, []kit.V3{s.B.Lerp(s.A, 1.0/3)}, []kit.V3{s.A.Add(s.A.Sub(s.B).Scale(0.01)), s.B.Add(s.B.Sub(s.A).Scale(0.01))})
	case "torus":
		s := *c.Shape
		u := s.B.Unit()
		e := kit.V3{1, 0, 0}
		if math.Abs(u[0]) > 0.7 {
			e = kit.V3{0, 1, 0}
		}
		e = e.Sub(u.Scale(e.Dot(u))).Unit()
		tris := m3.Tris(model3d.NewMeshTorus(m3.C3(s.A), m3.C3(s.B), s.R2, s.R, c.N[0], c.N[1]))
		// points on the core circle are inside unless the polygonal approximations are very coarse;
		// use the axis centre (outside) and the far field (outside) and the volume sign for orientation
		if err := checkClosed3(tris, nil, []kit.V3{s.A.Add(u.Scale(s.R2 * 1.5)), s.A.Add(e.Scale(3 * (s.R + s.R2)))}); err != nil {
			return err
		}
		if v := kit.SignedVolume(tris); !(v > 0) {
			return fmt.Errorf("torus mesh has signed volume %g", v)
		}
		rep, _ := kit.ClosedOrientedManifold(tris)
		if rep.Euler != 0 {
			return fmt.Errorf("torus mesh has Euler characteristic %d", rep.Euler)
		}
		return nil
	}
	return fmt.Errorf("unknown kind %s", c.Kind)
}

// ---- polytope: box plus random cuts in general position

type polyCase struct {
	Cuts [][4]float64 `json:"cuts"` // normal xyz, max
	// Apex > 0: instead of the box, a cone of Apex >= 4 planes through the common vertex (0,0,1) closed by the
	// plane z >= -1 (a pyramid: more than three planes meet at one vertex), plus the cuts.
	Apex int `json:"apex,omitempty"`
	// Scales rescale constraint i (normal and bound together) by 10^Scales[i]: the same half-space, so the
	// same polytope; the library documents its tolerance as scaling with the normals.
	Scales []float64 `json:"scales,omitempty"`
	// Dups lists constraints that appear a second time (index, and the power of ten by which the copy's normal and
	// bound are scaled): the same half-space twice, as when the constraints of two polytopes are put together.
	Dups [][2]int `json:"dups,omitempty"`
}

func checkPolytope(c polyCase, o *kit.Obs) error {
	var p model3d.ConvexPolytope
	if c.Apex > 0 {
		o.Labelf("apex-planes:%d", c.Apex)
		for i := 0; i < c.Apex; i++ {
			a := 2 * math.Pi * float64(i) / float64(c.Apex)
			n := model3d.XYZ(math.Cos(a), math.Sin(a), 0.5) // plane through (0,0,1): n.p <= 0.5
			p = append(p, &model3d.LinearConstraint{Normal: n, Max: 0.5})
		}
		p = append(p, &model3d.LinearConstraint{Normal: model3d.XYZ(0, 0, -1), Max: 1})
	} else {
		p = model3d.NewConvexPolytopeRect(model3d.XYZ(-1, -1, -1), model3d.XYZ(1, 1, 1))
	}
	for _, k := range c.Cuts {
		p = append(p, &model3d.LinearConstraint{Normal: model3d.XYZ(k[0], k[1], k[2]), Max: k[3]})
	}
	for i, e := range c.Scales {
		if i < len(p) && e != 0 {
			f := math.Pow(10, e)
			p[i] = &model3d.LinearConstraint{Normal: p[i].Normal.Scale(f), Max: p[i].Max * f}
			o.Label("rescaled-constraint")
		}
	}
	for _, d := range c.Dups {
		l := p[d[0]%len(p)]
		f := math.Pow(10, float64(d[1]))
		// anywhere in the list, not only at its end (lists of two polytopes appended, a constraint restated later)
		dup := &model3d.LinearConstraint{Normal: l.Normal.Scale(f), Max: l.Max * f}
		at := (d[0]*7 + 3) % (len(p) + 1)
		p = append(p, nil)
		copy(p[at+1:], p[at:])
		p[at] = dup
		o.Label("duplicated-constraint")
	}
	tris := m3.Tris(p.Mesh())
	o.NonTrivial()
	o.Labelf("cuts:%d", len(c.Cuts))
	// the origin is strictly inside by construction (every cut has Max > 0.2|n|)
	if err := checkClosed3(tris, []kit.V3{{0, 0, 0}}, []kit.V3{{3, 0.1, 0.2}}); err != nil {
		return err
	}
	// every vertex satisfies every constraint up to a small tolerance
	for _, t := range tris {
		for _, v := range t {
			for _, l := range p {
				if d := (m3.C3(v).Dot(l.Normal) - l.Max) / l.Normal.Norm(); d > 1e-6 {
					return fmt.Errorf("vertex %v violates a constraint by %g", v, d)
				}
			}
		}
	}
	return nil
}

func genPolytope(t *rapid.T) polyCase {
	n := rapid.IntRange(0, 6).Draw(t, "ncuts")
	var c polyCase
	if rapid.IntRange(0, 2).Draw(t, "pyramid") == 0 {
		c.Apex = rapid.IntRange(4, 8).Draw(t, "apex")
		n = rapid.IntRange(0, 2).Draw(t, "ncuts2")
	}
	if rapid.IntRange(0, 3).Draw(t, "dups") == 0 {
		if kit.Excluded("polytope-duplicate-constraint") {
			kit.CountExcluded("polytope-duplicate-constraint")
		} else {
			for i, k := 0, rapid.IntRange(1, 2).Draw(t, "ndups"); i < k; i++ {
				c.Dups = append(c.Dups, [2]int{rapid.IntRange(0, 30).Draw(t, "dupidx"), rapid.SampledFrom([]int{0, 0, 1, -3, 6}).Draw(t, "dupexp")})
			}
		}
	}
	if rapid.Bool().Draw(t, "rescale") {
		for i := 0; i < 6+c.Apex+n; i++ {
			e := 0.0
			if rapid.Bool().Draw(t, "rs") {
				e = float64(rapid.IntRange(-6, 12).Draw(t, "exp"))
			}
			c.Scales = append(c.Scales, e)
		}
	}
	for i := 0; i < n; i++ {
		d := gen.Dir3(t, "n")
		// avoid normals (anti)parallel to the box axes duplicating box faces exactly: jitter them generically
		d = d.Add(kit.V3{0.0137, -0.0071, 0.0043}).Unit().Scale(gen.LogF(t, 0.3, 3, "scale"))
		cut := [4]float64{d[0], d[1], d[2], d.Norm() * gen.F(t, 0.25, 1.6, "max")}
		// general position: drop a cut whose plane nearly coincides with an earlier one or a box face
		ok := true
		planes := [][4]float64{{1, 0, 0, 1}, {-1, 0, 0, 1}, {0, 1, 0, 1}, {0, -1, 0, 1}, {0, 0, 1, 1}, {0, 0, -1, 1}}
		for _, q := range append(planes, c.Cuts...) {
			nq := kit.V3{q[0], q[1], q[2]}
			if d.Unit().Dot(nq.Unit()) > 0.995 && math.Abs(cut[3]/d.Norm()-q[3]/nq.Norm()) < 0.1 {
				ok = false
			}
		}
		if ok {
			c.Cuts = append(c.Cuts, cut)
		}
	}
	return c
}

// ---- RectSet: integer boxes that touch along faces, edges and corners

type rectSetCase struct {
	Ops [][7]int `json:"ops"` // add(1)/remove(0)/AddRectSet(2)/RemoveRectSet(3), min xyz, size xyz; set ops use a two-box set
	// placement: the integer lattice is scaled by 2^UnitLog2 and moved by Off lattice steps (all coordinates stay
	// exactly representable); zero values = the lattice as it is
	UnitLog2 int    `json:"unit_log2,omitempty"`
	Off      [3]int `json:"off,omitempty"`
}

func genRectSet(t *rapid.T) rectSetCase {
	n := rapid.IntRange(1, 7).Draw(t, "n")
	var c rectSetCase
	for i := 0; i < n; i++ {
		add := 1
		if i > 0 && rapid.IntRange(0, 3).Draw(t, "remove") == 0 {
			add = 0
		}
		if i > 0 && rapid.IntRange(0, 2).Draw(t, "setop") == 0 {
			add += 2 // the same change through AddRectSet / RemoveRectSet with a set of two boxes
		}
		c.Ops = append(c.Ops, [7]int{add,
			rapid.IntRange(0, 3).Draw(t, "x"), rapid.IntRange(0, 3).Draw(t, "y"), rapid.IntRange(0, 3).Draw(t, "z"),
			rapid.IntRange(1, 2).Draw(t, "dx"), rapid.IntRange(1, 2).Draw(t, "dy"), rapid.IntRange(1, 2).Draw(t, "dz")})
	}
	if rapid.Bool().Draw(t, "placed") {
		c.UnitLog2 = rapid.IntRange(-30, 30).Draw(t, "unit_log2")
		far := rapid.SampledFrom([]int{0, 100, 1 << 20, 1 << 24, 1 << 26}).Draw(t, "far")
		for a := range c.Off {
			c.Off[a] = rapid.IntRange(-far, far).Draw(t, "off")
		}
	}
	return c
}

func checkRectSet(c rectSetCase, o *kit.Obs) error {
	rs := toolbox3d.NewRectSet()
	var grid [6][6][6]bool
	unit := math.Ldexp(1, c.UnitLog2)
	place := func(x, y, z int) model3d.Coord3D {
		return model3d.XYZ(float64(x+c.Off[0])*unit, float64(y+c.Off[1])*unit, float64(z+c.Off[2])*unit)
	}
	if c.UnitLog2 != 0 || c.Off != [3]int{} {
		o.Label("placed")
		if c.Off[0] > 1<<16 || c.Off[0] < -(1<<16) {
			o.Label("placed:far")
		}
	}
	for _, op := range c.Ops {
		r := &model3d.Rect{MinVal: place(op[1], op[2], op[3]), MaxVal: place(op[1]+op[4], op[2]+op[5], op[3]+op[6])}
		fill := func(ox, oy, oz int, v bool) {
			for x := ox; x < ox+op[4]; x++ {
				for y := oy; y < oy+op[5]; y++ {
					for z := oz; z < oz+op[6]; z++ {
						grid[x][y][z] = v
					}
				}
			}
		}
		switch op[0] {
		case 1:
			rs.Add(r)
		case 0:
			rs.Remove(r)
		default:
			// a set of two boxes: r and r shifted by (1,1,0) (they overlap or touch along an edge)
			other := toolbox3d.NewRectSet()
			other.Add(r)
			other.Add(&model3d.Rect{MinVal: place(op[1]+1, op[2]+1, op[3]), MaxVal: place(op[1]+op[4]+1, op[2]+op[5]+1, op[3]+op[6])})
			if op[0] == 2 {
				rs.AddRectSet(other)
			} else {
				rs.RemoveRectSet(other)
			}
			fill(op[1]+1, op[2]+1, op[3], op[0] == 2)
			o.Label("set-operation")
			o.NonTrivial()
		}
		fill(op[1], op[2], op[3], op[0] == 1 || op[0] == 2)
	}
	tris := m3.Tris(rs.Mesh())
	// back to the lattice's own frame: differences of nearby numbers and divisions by a power of two are exact
	for i := range tris {
		for j := range tris[i] {
			for a := 0; a < 3; a++ {
				tris[i][j][a] = (tris[i][j][a] - float64(c.Off[a])*unit) / unit
			}
		}
	}
	var in, out []kit.V3
	touch := false
	for x := 0; x < 6; x++ {
		for y := 0; y < 6; y++ {
			for z := 0; z < 6; z++ {
				p := kit.V3{float64(x) + 0.5, float64(y) + 0.5, float64(z) + 0.5}
				if grid[x][y][z] {
					in = append(in, p)
				} else {
					out = append(out, p)
				}
				// edge/corner contact: diagonal neighbours set with the connecting cells clear
				if x < 5 && y < 5 && grid[x][y][z] && grid[x+1][y+1][z] && !grid[x+1][y][z] && !grid[x][y+1][z] {
					touch = true
				}
				if x < 5 && y < 5 && z < 5 && grid[x][y][z] && grid[x+1][y+1][z+1] && !grid[x+1][y][z] && !grid[x][y+1][z] && !grid[x][y][z+1] {
					touch = true
				}
			}
		}
	}
	if touch {
		o.NonTrivial()
		o.Label("edge-or-corner-contact")
	}
	if len(in) > 0 && len(tris) == 0 {
		return fmt.Errorf("box set is non-empty but its mesh is empty")
	}
	return checkClosed3(tris, in, out)
}

// ---- height maps

type hmCase struct {
	Rows, Cols int
	Data       []float64 `json:"data"` // squared heights, many zeros
	Bidir      bool      `json:"bidir"`
}

func genHM(t *rapid.T) hmCase {
	c := hmCase{Rows: rapid.IntRange(2, 7).Draw(t, "rows"), Cols: rapid.IntRange(2, 7).Draw(t, "cols"), Bidir: rapid.Bool().Draw(t, "bidir")}
	dens := rapid.IntRange(1, 9).Draw(t, "density")
	for i := 0; i < c.Rows*c.Cols; i++ {
		v := 0.0
		if rapid.IntRange(0, 9).Draw(t, "nz") < dens {
			v = gen.LogF(t, 1e-3, 4, "h2")
		}
		c.Data = append(c.Data, v)
	}
	return c
}

func checkHM(c hmCase, o *kit.Obs) error {
	n := c.Rows
	if c.Cols > n {
		n = c.Cols
	}
	hm := toolbox3d.NewHeightMap(model2d.XY(0, 0), model2d.XY(float64(c.Cols-1), float64(c.Rows-1)), n)
	if hm.Rows != c.Rows || hm.Cols != c.Cols {
		return fmt.Errorf("%w: height map grid %dx%d differs from the requested %dx%d", kit.ErrInfra, hm.Rows, hm.Cols, c.Rows, c.Cols)
	}
	copy(hm.Data, c.Data)
	var m *model3d.Mesh
	if c.Bidir {
		m = hm.MeshBidir()
	} else {
		m = hm.Mesh()
	}
	tris := m3.Tris(m)
	nz := 0
	var in, out []kit.V3
	for r := 0; r < c.Rows; r++ {
		for cc := 0; cc < c.Cols; cc++ {
			h2 := c.Data[r*c.Cols+cc]
			x, y := float64(cc), float64(r)
			if h2 > 0 {
				nz++
				h := math.Sqrt(h2)
				in = append(in, kit.V3{x, y, h * 0.5})
				if c.Bidir {
					in = append(in, kit.V3{x, y, -h * 0.5})
				}
				out = append(out, kit.V3{x, y, h * 1.5})
			}
		}
	}
	out = append(out, kit.V3{-3, -3, 0.5})
	if nz > 0 {
		o.NonTrivial()
		if len(tris) == 0 {
			return fmt.Errorf("height map has %d non-zero samples but an empty mesh", nz)
		}
	}
	return checkClosed3(tris, in, out)
}

// ---------------------------------------------------------------------------

func TestProp(t *testing.T) {
	runtime.GOMAXPROCS(2)
	apis := []string{"mc", "search", "interior", "filter", "searchfilter"}
	kit.Run(t, "C01", rule,
		kit.Enum[latCase]{Name: "C01/mc/enum-cell", N: 256 * 2, At: func(i int) latCase {
			return latCase{L: gen.LatticeFromUint(2, 2, 2, uint64(i%256)), API: []string{"mc", "filter"}[i/256]}
		}, Check: checkLat3, Fresh: true},
		kit.Enum[latCase]{Name: "C01/mc/enum-pair", N: 3 << 12, At: func(i int) latCase { return orientedBlock(i, 3, 2, 2, 12) }, Check: checkLat3, Fresh: true},
		kit.Enum[latCase]{Name: "C01/mc/enum-block332", N: 3 << 18, QuickStride: 13, At: func(i int) latCase { return orientedBlock(i, 3, 3, 2, 18) }, Check: checkLat3, Fresh: true},
		kit.Clause[latCase]{Name: "C01/mc/random-lattice", Quick: 1500, Thorough: 40000, Gen: func(t *rapid.T) latCase {
			c := latCase{L: gen.Lattice3Gen(t, 6, "lattice"), API: rapid.SampledFrom(apis).Draw(t, "api")}
			if c.API != "mc" && c.API != "filter" {
				c.Iters = genIters(t)
			}
			return c
		}, Check: checkLat3, Fresh: true},
		kit.Clause[csgCase]{Name: "C01/mc/random-csg", Quick: 500, Thorough: 12000, Gen: genCSG, Check: checkCSG, Fresh: true},
		kit.Enum[lat2Case]{Name: "C01/ms/enum-3x3", N: 512 * 2, At: func(i int) lat2Case {
			return lat2Case{L: gen.Lattice2FromUint(3, 3, uint64(i%512)), API: []string{"ms", "filter"}[i/512]}
		}, Check: checkLat2, Fresh: true},
		kit.Enum[lat2Case]{Name: "C01/ms/enum-4x4", N: 65536, QuickStride: 4, At: func(i int) lat2Case {
			return lat2Case{L: gen.Lattice2FromUint(4, 4, uint64(i)), API: []string{"ms", "ms", "ms", "filter"}[(i/5)%4]}
		}, Check: checkLat2, Fresh: true},
		kit.Clause[lat2Case]{Name: "C01/ms/random-lattice", Quick: 2000, Thorough: 50000, Gen: func(t *rapid.T) lat2Case {
			c := lat2Case{L: gen.Lattice2Gen(t, 9, "lattice"), API: rapid.SampledFrom([]string{"ms", "search", "filter", "searchfilter"}).Draw(t, "api")}
			if c.API != "ms" && c.API != "filter" {
				c.Iters = genIters(t)
			}
			return c
		}, Check: checkLat2, Fresh: true},
		kit.Clause[csg2Case]{Name: "C01/ms/random-csg", Quick: 1000, Thorough: 30000, Gen: func(t *rapid.T) csg2Case {
			c := csg2Case{Tree: gen.Node2Gen(t, 3, 8, "tree"), Delta: gen.LogF(t, 0.03, 0.4, "delta")}
			c.API = rapid.SampledFrom([]string{"ms", "search", "filter", "searchfilter", "c2f", "conj"}).Draw(t, "api")
			if c.API != "ms" && c.API != "filter" {
				c.Iters = genIters(t)
			}
			c.Big = c.Delta * gen.F(t, 1, 3, "bigfactor")
			c.Angle = gen.F(t, -4, 4, "angle")
			c.Flip = c.API == "conj" && rapid.Bool().Draw(t, "flip")
			if c.API == "c2f" {
				n := rapid.IntRange(1, 3).Draw(t, "nballs")
				c.Tree = &gen.Node2{Op: "join"}
				for i := 0; i < n; i++ {
					c.Tree.Kids = append(c.Tree.Kids, &gen.Node2{Op: "prim", Shape: &gen.Shape2{Kind: "circle", A: gen.Vec2(t, 1, "c"), R: c.Big * gen.F(t, 2.5, 5, "r")}})
				}
				if rapid.IntRange(0, 2).Draw(t, "c2fbox") == 0 {
					// a box (sharp corners, which a coarse outline cuts off) meshed with a fine spacing many times
					// smaller than the coarse one: the fine pass has to search well beyond the coarse outline
					c.Big = c.Delta * gen.LogF(t, 8, 64, "bigratio")
					ctr := gen.Vec2(t, 1, "bc")
					h := kit.V2{c.Big * gen.F(t, 2.6, 4, "bhx"), c.Big * gen.F(t, 2.6, 4, "bhy")}
					c.Tree = &gen.Node2{Op: "join", Kids: []*gen.Node2{{Op: "prim", Shape: &gen.Shape2{Kind: "rect", A: ctr.Sub(h), B: ctr.Add(h)}}}}
				}
			}
			return c
		}, Check: checkCSG2, Fresh: true},
		kit.Enum[gen.Lattice2]{Name: "C01/bitmap/enum-4x4", N: 65536, QuickStride: 2, At: func(i int) gen.Lattice2 { return gen.Lattice2FromUint(4, 4, uint64(i)) }, Check: checkBitmap},
		kit.Clause[gen.Lattice2]{Name: "C01/bitmap/random", Quick: 1500, Thorough: 40000, Gen: func(t *rapid.T) gen.Lattice2 { return gen.Lattice2Gen(t, 9, "bitmap") }, Check: checkBitmap},
		kit.Clause[paramCase]{Name: "C01/gen/parametric", Quick: 3000, Thorough: 30000, Gen: genParam, Check: checkParam},
		kit.Clause[polyCase]{Name: "C01/gen/polytope", Quick: 3000, Thorough: 60000, Gen: genPolytope, Check: checkPolytope},
		kit.Clause[poly2Case]{Name: "C01/gen/polytope2d", Quick: 3000, Thorough: 60000, Gen: genPoly2, Check: checkPoly2},
		kit.Clause[rectSetCase]{Name: "C01/gen/rectset", Quick: 6000, Thorough: 120000, Gen: genRectSet, Check: checkRectSet},
		kit.Clause[hmCase]{Name: "C01/gen/heightmap", Quick: 600, Thorough: 15000, Gen: genHM, Check: checkHM},
	)
}

// genIters: the number of bisection steps; mostly small, sometimes the values applications use (8, 16) and beyond.
func genIters(t *rapid.T) int {
	if rapid.IntRange(0, 5).Draw(t, "iters-large") == 0 {
		return rapid.SampledFrom([]int{8, 12, 16, 24, 32}).Draw(t, "iters")
	}
	return rapid.IntRange(0, 6).Draw(t, "iters")
}
