package c02

import (
	"fmt"
	"math"
	"runtime"
	"sort"
	"testing"

	"github.com/unixpickle/model3d/model2d"
	"github.com/unixpickle/model3d/model3d"
	"pgregory.net/rapid"
	"verifharness/gen"
	"verifharness/kit"
	"verifharness/m3"
)

const rule = "random solids (CSG trees of primitives with thin features, trilinear random fields of arbitrary topology, lattice-defined solids) x spacing x search iterations x dual-contouring options. The marching lattice is observed (every point the plain mesher queries), the dual-contouring lattice comes from the verif hook. Non-trivial: at least one sign-changing lattice edge (and >= 1 search iteration for the search clauses). Distinct: hash of the JSON case."

// ---------------------------------------------------------------------------
// solid sources

type source struct {
	Kind  string        `json:"kind"` // csg field lattice
	Tree  *gen.Node     `json:"tree,omitempty"`
	Field *gen.Field3   `json:"field,omitempty"`
	Lat   *gen.Lattice3 `json:"lattice,omitempty"`
}

func (s source) Solid() model3d.Solid {
	switch s.Kind {
	case "csg":
		return s.Tree.Build()
	case "field":
		return s.Field.Solid()
	default:
		return s.Lat.Solid()
	}
}

func genSource(t *rapid.T) source {
	switch rapid.SampledFrom([]string{"csg", "csg", "field", "field", "lattice"}).Draw(t, "source") {
	case "csg":
		return source{Kind: "csg", Tree: gen.NodeGen(t, 3, 30, false, "tree")}
	case "field":
		f := gen.Field3Gen(t, 5, "field")
		return source{Kind: "field", Field: &f}
	default:
		l := gen.Lattice3Gen(t, 4, "lattice")
		return source{Kind: "lattice", Lat: &l}
	}
}

func (s source) size() float64 {
	b := s.Solid()
	return b.Max().Sub(b.Min()).MaxCoord()
}

// validDelta rejects spacings that are not positive (empty intersections have a degenerate box).
func validDelta(d float64) bool { return d > 1e-6 && !math.IsInf(d, 0) && !math.IsNaN(d) }

// ---------------------------------------------------------------------------
// marching cubes

type mcCase struct {
	Src   source  `json:"src"`
	Cells float64 `json:"cells"` // spacing = size / cells
	API   string  `json:"api"`   // search interior searchfilter
	Iters int     `json:"iters"`
	// UnitLog2: solid and spacing in units of 2^UnitLog2 (ScaleSolid; an exact rescaling of every lattice point)
	UnitLog2 int `json:"unit_log2,omitempty"`
}

func genMC(t *rapid.T) mcCase {
	c := mcCase{Src: genSource(t), Cells: gen.F(t, 2.5, 11, "cells"),
		API: rapid.SampledFrom([]string{"search", "interior", "searchfilter"}).Draw(t, "api"), Iters: rapid.IntRange(0, 8).Draw(t, "iters")}
	if rapid.IntRange(0, 3).Draw(t, "rescaled") == 0 {
		c.UnitLog2 = rapid.SampledFrom([]int{-40, -30, -20, 20}).Draw(t, "unit_log2")
		c.Iters = rapid.IntRange(4, 14).Draw(t, "iters2")
	}
	return c
}

func (c mcCase) delta() float64 {
	if c.Src.Kind == "lattice" {
		return 1
	}
	return c.Src.size() / c.Cells
}

type axisGrid struct{ vals [3][]float64 }

func gridFromPoints(pts map[kit.V3]bool) axisGrid {
	var g axisGrid
	for a := 0; a < 3; a++ {
		seen := map[float64]bool{}
		for p := range pts {
			if !seen[p[a]] {
				seen[p[a]] = true
				g.vals[a] = append(g.vals[a], p[a])
			}
		}
		sort.Float64s(g.vals[a])
	}
	return g
}

// locate returns (index, exact): exact if x equals vals[index]; otherwise vals[index] < x < vals[index+1]; index -1 if outside.
func locate(vals []float64, x float64) (int, bool) {
	i := sort.SearchFloat64s(vals, x)
	if i < len(vals) && vals[i] == x {
		return i, true
	}
	if i == 0 || i == len(vals) {
		return -1, false
	}
	return i - 1, false
}

func checkMC(c mcCase, o *kit.Obs) error {
	solid := c.Src.Solid()
	delta := c.delta()
	if !validDelta(delta) {
		o.Skip("empty-bounds")
		return nil
	}
	o.Label("src:" + c.Src.Kind)
	o.Label("api:" + c.API)
	if c.UnitLog2 != 0 {
		k := math.Ldexp(1, c.UnitLog2)
		solid = model3d.ScaleSolid(solid, k)
		delta *= k
		o.Label("rescaled")
	}
	// 1. observe the lattice
	lat := gen.NewRecorder3(solid)
	model3d.MarchingCubes(lat, delta)
	grid := gridFromPoints(lat.Points)
	if len(lat.Points) != len(grid.vals[0])*len(grid.vals[1])*len(grid.vals[2]) {
		return fmt.Errorf("%w: observed lattice is not a product grid (%d points, axes %d x %d x %d)", kit.ErrInfra, len(lat.Points), len(grid.vals[0]), len(grid.vals[1]), len(grid.vals[2]))
	}
	// sign-changing lattice edges
	type edgeKey struct {
		axis    int
		i, j, k int
	}
	active := map[edgeKey]bool{}
	at := func(i, j, k int) kit.V3 { return kit.V3{grid.vals[0][i], grid.vals[1][j], grid.vals[2][k]} }
	for i := range grid.vals[0] {
		for j := range grid.vals[1] {
			for k := range grid.vals[2] {
				b := lat.Points[at(i, j, k)]
				if i+1 < len(grid.vals[0]) && lat.Points[at(i+1, j, k)] != b {
					active[edgeKey{0, i, j, k}] = true
				}
				if j+1 < len(grid.vals[1]) && lat.Points[at(i, j+1, k)] != b {
					active[edgeKey{1, i, j, k}] = true
				}
				if k+1 < len(grid.vals[2]) && lat.Points[at(i, j, k+1)] != b {
					active[edgeKey{2, i, j, k}] = true
				}
			}
		}
	}
	if len(active) > 0 && (c.Iters > 0) {
		o.NonTrivial()
	}
	// 2. run the search variant on a recording solid
	rec := gen.NewRecorder3(solid)
	var mesh *model3d.Mesh
	var interior *model3d.CoordMap[model3d.Coord3D]
	switch c.API {
	case "search":
		mesh = model3d.MarchingCubesSearch(rec, delta, c.Iters)
	case "interior":
		mesh, interior = model3d.MarchingCubesInterior(rec, delta, c.Iters)
	case "searchfilter":
		mesh = model3d.MarchingCubesSearchFilter(rec, func(*model3d.Rect) bool { return true }, delta, c.Iters)
	}
	tris := m3.Tris(mesh)
	// (a) sidedness at lattice points (subsampled deterministically: winding sums are O(points x triangles))
	var pts []kit.V3
	for p := range lat.Points {
		pts = append(pts, p)
	}
	sort.Slice(pts, func(i, j int) bool { return kit.V3Less(pts[i], pts[j]) })
	step := 1 + len(pts)*len(tris)/4000000
	for i := 0; i < len(pts); i += step {
		p := pts[i]
		w := kit.Winding3(tris, p)
		want := 0.0
		if lat.Points[p] {
			want = 1
		}
		if math.Abs(w-want) > 0.01 {
			return fmt.Errorf("lattice point %v: solid says contained=%v but the mesh has winding number %.4f there", p, lat.Points[p], w)
		}
	}
	// (b) vertices <-> sign-changing edges; (c) bracket; (d) interior points
	used := map[edgeKey]kit.V3{}
	verts := map[kit.V3]bool{}
	for _, t := range tris {
		for _, v := range t {
			verts[v] = true
		}
	}
	// index the recorded queries by line for the bracket clause
	type lineKey struct {
		axis int
		u, v float64
	}
	lines := map[lineKey][]float64{}
	for p := range rec.Points {
		for a := 0; a < 3; a++ {
			k := lineKey{a, p[(a+1)%3], p[(a+2)%3]}
			lines[k] = append(lines[k], p[a])
		}
	}
	for v := range verts {
		axis, idx := -1, [3]int{}
		for a := 0; a < 3; a++ {
			i, exact := locate(grid.vals[a], v[a])
			if i < 0 {
				return fmt.Errorf("vertex %v lies outside the sampling lattice on axis %d", v, a)
			}
			idx[a] = i
			if !exact {
				if axis >= 0 {
					return fmt.Errorf("vertex %v is off the lattice on two axes (%d and %d): it is not on a lattice edge", v, axis, a)
				}
				axis = a
			}
		}
		if axis < 0 {
			return fmt.Errorf("vertex %v coincides with a lattice point instead of lying strictly inside a lattice edge", v)
		}
		ek := edgeKey{axis, idx[0], idx[1], idx[2]}
		if !active[ek] {
			return fmt.Errorf("vertex %v lies on a lattice edge (axis %d, index %v) whose two ends are classified alike", v, axis, idx)
		}
		if prev, dup := used[ek]; dup {
			return fmt.Errorf("lattice edge (axis %d, index %v) carries two vertices %v and %v", axis, idx, prev, v)
		}
		used[ek] = v
		lo, hi := grid.vals[axis][idx[axis]], grid.vals[axis][idx[axis]+1]
		// (c) the nearest queried points on either side of the vertex, on its own edge, must be classified
		// differently and be no farther apart than spacing/2^iters
		xs := lines[lineKey{axis, v[(axis+1)%3], v[(axis+2)%3]}]
		l, r := lo, hi
		for _, x := range xs {
			if x < v[axis] && x > l {
				l = x
			}
			if x > v[axis] && x < r {
				r = x
			}
		}
		pl, pr := v, v
		pl[axis], pr[axis] = l, r
		cl, okl := rec.Points[pl]
		cr, okr := rec.Points[pr]
		if !okl || !okr {
			// bracket ends were never evaluated: evaluate them now (pure solid)
			cl, cr = solid.Contains(m3.C3(pl)), solid.Contains(m3.C3(pr))
		}
		if cl == cr {
			return fmt.Errorf("vertex %v (axis %d): the closest evaluated points on its edge, %v and %v, are both contained=%v: no inside/outside transition is bracketed", v, axis, l, r, cl)
		}
		// every midpoint is rounded to the coordinate's own precision: a few ulps of slack per step
		if w := (hi - lo) / math.Pow(2, float64(c.Iters)); r-l > w*(1+1e-9)+4e-16*math.Max(math.Abs(l), math.Abs(r))*float64(c.Iters+1) {
			return fmt.Errorf("vertex %v (axis %d): bracket [%v, %v] is wider than spacing/2^%d = %v", v, axis, l, r, c.Iters, w)
		}
		if interior != nil {
			ip, ok := interior.Load(m3.C3(v))
			if !ok {
				return fmt.Errorf("interior map has no entry for vertex %v", v)
			}
			if !solid.Contains(ip) {
				return fmt.Errorf("interior point %v of vertex %v is not contained in the solid", ip, v)
			}
			q := m3.V3(ip)
			if q[(axis+1)%3] != v[(axis+1)%3] || q[(axis+2)%3] != v[(axis+2)%3] || q[axis] < lo || q[axis] > hi {
				return fmt.Errorf("interior point %v of vertex %v is not on the vertex's lattice edge", ip, v)
			}
			if d := math.Abs(q[axis] - v[axis]); d > (hi-lo)/math.Pow(2, float64(c.Iters))*(1+1e-9)+4e-16*math.Abs(v[axis])*float64(c.Iters+1) {
				return fmt.Errorf("interior point %v is %v away from vertex %v, more than spacing/2^%d", ip, d, v, c.Iters)
			}
		}
	}
	if len(used) != len(active) {
		for ek := range active {
			if _, ok := used[ek]; !ok {
				return fmt.Errorf("sign-changing lattice edge (axis %d, index [%d %d %d]) carries no vertex (%d vertices for %d such edges)", ek.axis, ek.i, ek.j, ek.k, len(used), len(active))
			}
		}
	}
	if interior != nil && interior.Len() != len(verts) {
		return fmt.Errorf("interior map has %d entries for %d vertices", interior.Len(), len(verts))
	}
	return nil
}

// ---------------------------------------------------------------------------
// marching squares

type msCase struct {
	Kind     string        `json:"kind"` // csg field lattice
	Tree     *gen.Node2    `json:"tree,omitempty"`
	Field    *gen.Field2   `json:"field,omitempty"`
	Lat      *gen.Lattice2 `json:"lattice,omitempty"`
	Cells    float64       `json:"cells"`
	API      string        `json:"api"`
	Iters    int           `json:"iters"`
	UnitLog2 int           `json:"unit_log2,omitempty"`
}

func genMS(t *rapid.T) msCase {
	c := msCase{Kind: rapid.SampledFrom([]string{"csg", "field", "lattice"}).Draw(t, "kind"), Cells: gen.F(t, 2.5, 25, "cells"),
		API: rapid.SampledFrom([]string{"search", "searchfilter"}).Draw(t, "api"), Iters: rapid.IntRange(0, 8).Draw(t, "iters")}
	switch c.Kind {
	case "csg":
		c.Tree = gen.Node2Gen(t, 3, 30, "tree")
	case "field":
		f := gen.Field2Gen(t, 7, "field")
		c.Field = &f
	default:
		l := gen.Lattice2Gen(t, 7, "lattice")
		c.Lat = &l
	}
	if rapid.IntRange(0, 3).Draw(t, "rescaled") == 0 {
		c.UnitLog2 = rapid.SampledFrom([]int{-40, -30, -20, 20}).Draw(t, "unit_log2")
		c.Iters = rapid.IntRange(4, 14).Draw(t, "iters2")
	}
	return c
}

func checkMS(c msCase, o *kit.Obs) error {
	var solid model2d.Solid
	delta := 1.0
	switch c.Kind {
	case "csg":
		solid = c.Tree.Build()
	case "field":
		solid = c.Field.Solid()
	default:
		solid = c.Lat.Solid()
	}
	if c.Kind != "lattice" {
		delta = solid.Max().Sub(solid.Min()).MaxCoord() / c.Cells
	}
	if !validDelta(delta) {
		o.Skip("empty-bounds")
		return nil
	}
	o.Label("src:" + c.Kind)
	if c.UnitLog2 != 0 {
		k := math.Ldexp(1, c.UnitLog2)
		solid = model2d.ScaleSolid(solid, k)
		delta *= k
		o.Label("rescaled")
	}
	lat := gen.NewRecorder2(solid)
	model2d.MarchingSquares(lat, delta)
	var gv [2][]float64
	for a := 0; a < 2; a++ {
		seen := map[float64]bool{}
		for p := range lat.Points {
			if !seen[p[a]] {
				seen[p[a]] = true
				gv[a] = append(gv[a], p[a])
			}
		}
		sort.Float64s(gv[a])
	}
	type edgeKey struct{ axis, i, j int }
	active := map[edgeKey]bool{}
	for i := range gv[0] {
		for j := range gv[1] {
			b := lat.Points[kit.V2{gv[0][i], gv[1][j]}]
			if i+1 < len(gv[0]) && lat.Points[kit.V2{gv[0][i+1], gv[1][j]}] != b {
				active[edgeKey{0, i, j}] = true
			}
			if j+1 < len(gv[1]) && lat.Points[kit.V2{gv[0][i], gv[1][j+1]}] != b {
				active[edgeKey{1, i, j}] = true
			}
		}
	}
	if len(active) > 0 && c.Iters > 0 {
		o.NonTrivial()
	}
	rec := gen.NewRecorder2(solid)
	var mesh *model2d.Mesh
	if c.API == "search" {
		mesh = model2d.MarchingSquaresSearch(rec, delta, c.Iters)
	} else {
		mesh = model2d.MarchingSquaresSearchFilter(rec, func(*model2d.Rect) bool { return true }, delta, c.Iters)
	}
	segs := m3.Segs(mesh)
	for p, in := range lat.Points {
		w := kit.Winding2(segs, p)
		want := 0.0
		if in {
			want = 1
		}
		if math.Abs(w-want) > 0.01 {
			return fmt.Errorf("lattice point %v: solid says contained=%v but the outline has winding number %.4f there", p, in, w)
		}
	}
	verts := map[kit.V2]bool{}
	for _, s := range segs {
		verts[s[0]], verts[s[1]] = true, true
	}
	type lineKey struct {
		axis int
		u    float64
	}
	lines := map[lineKey][]float64{}
	for p := range rec.Points {
		lines[lineKey{0, p[1]}] = append(lines[lineKey{0, p[1]}], p[0])
		lines[lineKey{1, p[0]}] = append(lines[lineKey{1, p[0]}], p[1])
	}
	used := map[edgeKey]kit.V2{}
	for v := range verts {
		axis, idx := -1, [2]int{}
		for a := 0; a < 2; a++ {
			i, exact := locate(gv[a], v[a])
			if i < 0 {
				return fmt.Errorf("vertex %v lies outside the sampling lattice", v)
			}
			idx[a] = i
			if !exact {
				if axis >= 0 {
					return fmt.Errorf("vertex %v is off the lattice on both axes: not on a lattice edge", v)
				}
				axis = a
			}
		}
		if axis < 0 {
			return fmt.Errorf("vertex %v coincides with a lattice point", v)
		}
		ek := edgeKey{axis, idx[0], idx[1]}
		if !active[ek] {
			return fmt.Errorf("vertex %v lies on a lattice edge whose two ends are classified alike", v)
		}
		if prev, dup := used[ek]; dup {
			return fmt.Errorf("a lattice edge carries two vertices %v and %v", prev, v)
		}
		used[ek] = v
		lo, hi := gv[axis][idx[axis]], gv[axis][idx[axis]+1]
		l, r := lo, hi
		for _, x := range lines[lineKey{axis, v[1-axis]}] {
			if x < v[axis] && x > l {
				l = x
			}
			if x > v[axis] && x < r {
				r = x
			}
		}
		pl, pr := v, v
		pl[axis], pr[axis] = l, r
		cl, cr := solid.Contains(m3.C2(pl)), solid.Contains(m3.C2(pr))
		if cl == cr {
			return fmt.Errorf("vertex %v (axis %d): the closest evaluated points on its edge, %v and %v, are both contained=%v", v, axis, l, r, cl)
		}
		if w := (hi - lo) / math.Pow(2, float64(c.Iters)); r-l > w*(1+1e-9)+4e-16*math.Max(math.Abs(l), math.Abs(r))*float64(c.Iters+1) {
			return fmt.Errorf("vertex %v: bracket [%v, %v] is wider than spacing/2^%d = %v", v, l, r, c.Iters, w)
		}
	}
	if len(used) != len(active) {
		return fmt.Errorf("%d vertices for %d sign-changing lattice edges", len(used), len(active))
	}
	return nil
}

// ---------------------------------------------------------------------------
// dual contouring

type dcCase struct {
	Src      source  `json:"src"`
	Cells    float64 `json:"cells"`
	NoJitter bool    `json:"nojitter"`
	MaxGos   int     `json:"maxgos"`
	BufRows  int     `json:"bufrows"` // BufferSize = nx*ny*BufRows (0: default)
	Margin   float64 `json:"margin"`
	Mode     int     `json:"mode"`
	L2       float64 `json:"l2"`
	SVEps    float64 `json:"sveps"`
	Repair   bool    `json:"repair"`
	Interior bool    `json:"interior"`
	// Shortcut: go through the convenience functions DualContour / DualContourInterior(solid, delta, repair, clip)
	// (every other option at its default) instead of filling in the struct
	Shortcut bool `json:"shortcut,omitempty"`
	// RepairEps: DualContouring.RepairEpsilon (relative to Delta; 0 = default 0.01).  Larger values move the copies
	// of a singular vertex further, still inside their cube.
	RepairEps float64 `json:"repair_eps,omitempty"`
}

// touchingBoxes: two or three axis-aligned boxes that touch in a point or along an edge, at a random position
// relative to the lattice: the surface sheets of the two bodies share one dual-contouring vertex (a singular vertex
// or edge), which is what Repair exists for.
func touchingBoxes(t *rapid.T) source {
	p := gen.Vec3(t, 0.5, "touch.p")
	ext := func(l string) kit.V3 {
		return kit.V3{gen.F(t, 0.4, 1, l+".x"), gen.F(t, 0.4, 1, l+".y"), gen.F(t, 0.4, 1, l+".z")}
	}
	a, b := ext("touch.a"), ext("touch.b")
	box := func(lo, hi kit.V3) *gen.Node {
		return &gen.Node{Op: "prim", Shape: &gen.Shape3{Kind: "rect", A: lo, B: hi}}
	}
	tree := &gen.Node{Op: "join"}
	tree.Kids = append(tree.Kids, box(p.Sub(a), p))
	switch rapid.IntRange(0, 2).Draw(t, "touch.mode") {
	case 0: // in the point p
		tree.Kids = append(tree.Kids, box(p, p.Add(b)))
	case 1: // along the edge through p parallel to z
		tree.Kids = append(tree.Kids, box(kit.V3{p[0], p[1], p[2] - b[2]}, kit.V3{p[0] + b[0], p[1] + b[1], p[2]}))
	default: // three boxes around p
		tree.Kids = append(tree.Kids, box(p, p.Add(b)), box(kit.V3{p[0], p[1] - b[1], p[2] - b[2]}, kit.V3{p[0] + b[0], p[1], p[2]}))
	}
	return source{Kind: "csg", Tree: tree}
}

func genDC(t *rapid.T) dcCase {
	c := genDC0(t)
	if rapid.IntRange(0, 4).Draw(t, "touching") == 0 {
		c.Src = touchingBoxes(t)
		c.Repair = rapid.IntRange(0, 3).Draw(t, "touchrepair") != 0
	}
	return c
}

func genDC0(t *rapid.T) dcCase {
	return dcCase{Src: genSource(t), Cells: gen.F(t, 2.5, 9, "cells"), NoJitter: rapid.Bool().Draw(t, "nojitter"),
		MaxGos: rapid.SampledFrom([]int{0, 1, 2, 7}).Draw(t, "maxgos"), BufRows: rapid.SampledFrom([]int{0, 0, 4, 5, 7}).Draw(t, "bufrows"),
		Margin: rapid.SampledFrom([]float64{0, 0.01, 0.2}).Draw(t, "margin"), Mode: rapid.IntRange(0, 2).Draw(t, "mode"),
		L2: rapid.SampledFrom([]float64{0, 0.01, 1}).Draw(t, "l2"), SVEps: rapid.SampledFrom([]float64{0, 0.01, 0.5}).Draw(t, "sveps"),
		Repair: rapid.IntRange(0, 2).Draw(t, "repair") == 0, Interior: rapid.Bool().Draw(t, "interior"),
		Shortcut:  rapid.IntRange(0, 4).Draw(t, "shortcut") == 0,
		RepairEps: rapid.SampledFrom([]float64{0, 0, 0.05, 0.2, 0.4}).Draw(t, "repaireps")}
}

func checkDC(c dcCase, o *kit.Obs) error {
	solid := c.Src.Solid()
	delta := c.Src.size() / c.Cells
	if c.Src.Kind == "lattice" {
		delta = 1
	}
	if !validDelta(delta) {
		o.Skip("empty-bounds")
		return nil
	}
	o.Label("src:" + c.Src.Kind)
	if c.Shortcut {
		c.NoJitter, c.MaxGos, c.BufRows, c.Margin, c.Mode, c.L2, c.SVEps, c.RepairEps = false, 0, 0, 0, 0, 0, 0, 0
		o.Label("api:shortcut")
	}
	xs, ys, zs := model3d.VerifDCLattice(solid.Min(), solid.Max(), delta, c.NoJitter)
	g := [3][]float64{xs, ys, zs}
	dc := &model3d.DualContouring{S: model3d.SolidSurfaceEstimator{Solid: solid}, Delta: delta, NoJitter: c.NoJitter, MaxGos: c.MaxGos,
		Clip: true, Repair: c.Repair, RepairEpsilon: c.RepairEps, CubeMargin: c.Margin, TriangleMode: model3d.DualContouringTriangleMode(c.Mode), L2Penalty: c.L2, SingularValueEpsilon: c.SVEps}
	if c.BufRows > 0 {
		dc.BufferSize = len(xs) * len(ys) * c.BufRows
	}
	var mesh *model3d.Mesh
	var interior []model3d.Coord3D
	switch {
	case c.Shortcut && c.Interior:
		mesh, interior = model3d.DualContourInterior(solid, delta, c.Repair, true)
	case c.Shortcut:
		mesh = model3d.DualContour(solid, delta, c.Repair, true)
	case c.Interior:
		mesh, interior = dc.MeshInterior()
	default:
		mesh = dc.Mesh()
	}
	tris := m3.Tris(mesh)
	// classification of lattice points
	val := make([]bool, len(xs)*len(ys)*len(zs))
	at := func(i, j, k int) bool { return val[i+len(xs)*(j+len(ys)*k)] }
	for k := range zs {
		for j := range ys {
			for i := range xs {
				val[i+len(xs)*(j+len(ys)*k)] = solid.Contains(model3d.XYZ(xs[i], ys[j], zs[k]))
			}
		}
	}
	nActiveEdges := 0
	margin := c.Margin
	if margin == 0 {
		margin = 0.001
	}
	offs := [][2]float64{{1.2345e-7 * delta, -0.7071e-7 * delta}, {-0.5e-7 * delta, 1.9e-7 * delta}, {3.1e-7 * delta, 2.3e-7 * delta}}
	dims := [3]int{len(xs), len(ys), len(zs)}
	for k := 0; k < dims[2]; k++ {
		for j := 0; j < dims[1]; j++ {
			for i := 0; i < dims[0]; i++ {
				idx := [3]int{i, j, k}
				for a := 0; a < 3; a++ {
					if idx[a]+1 >= dims[a] {
						continue
					}
					jdx := idx
					jdx[a]++
					v0, v1 := at(idx[0], idx[1], idx[2]), at(jdx[0], jdx[1], jdx[2])
					if v0 != v1 {
						nActiveEdges++
					}
					if c.Repair {
						continue // repair is documented as best effort: the crossing clause is not asserted
					}
					p := kit.V3{xs[i], ys[j], zs[k]}
					length := g[a][idx[a]+1] - g[a][idx[a]]
					var n int
					var signs []int
					ok := false
					for _, off := range offs {
						n, signs, ok = kit.AxisCrossings(tris, p, a, length, off)
						if ok {
							break
						}
					}
					if !ok {
						o.Skip("degenerate-projection")
						continue
					}
					want := 0
					if v0 != v1 {
						want = 1
					}
					if n != want {
						return fmt.Errorf("lattice edge from %v along axis %d (ends contained=%v/%v) is crossed by the surface %d times, want %d", p, a, v0, v1, n, want)
					}
					if want == 1 {
						// normal must point from the contained end to the excluded end
						dir := 1
						if v1 {
							dir = -1
						}
						if signs[0] != dir {
							return fmt.Errorf("lattice edge from %v along axis %d (ends contained=%v/%v): crossed triangle's normal has sign %d along the axis, want %d", p, a, v0, v1, signs[0], dir)
						}
					}
				}
			}
		}
	}
	if nActiveEdges > 0 {
		o.NonTrivial()
	}
	if !c.Repair {
		// vertices: one per active cell, inside the cell by the margin
		verts := map[kit.V3]bool{}
		for _, t := range tris {
			for _, v := range t {
				verts[v] = true
			}
		}
		cells := map[[3]int]bool{}
		for v := range verts {
			var ci [3]int
			for a := 0; a < 3; a++ {
				i, exact := locate(g[a], v[a])
				if i < 0 || exact {
					return fmt.Errorf("vertex %v lies on or outside a lattice plane (axis %d)", v, a)
				}
				ci[a] = i
				lo, hi := g[a][i], g[a][i+1]
				if m := margin * delta * (1 - 1e-9); v[a]-lo < m || hi-v[a] < m {
					return fmt.Errorf("vertex %v is closer than CubeMargin*delta = %v to a lattice plane of its cell [%v, %v] on axis %d", v, margin*delta, lo, hi, a)
				}
			}
			if cells[ci] {
				return fmt.Errorf("cell %v contains two vertices", ci)
			}
			cells[ci] = true
			mixed := false
			first := at(ci[0], ci[1], ci[2])
			for d := 1; d < 8; d++ {
				if at(ci[0]+d&1, ci[1]+d>>1&1, ci[2]+d>>2&1) != first {
					mixed = true
				}
			}
			if !mixed {
				return fmt.Errorf("vertex %v lies in cell %v whose eight corners are classified alike", v, ci)
			}
		}
		nActiveCells := 0
		for k := 0; k+1 < dims[2]; k++ {
			for j := 0; j+1 < dims[1]; j++ {
				for i := 0; i+1 < dims[0]; i++ {
					first := at(i, j, k)
					for d := 1; d < 8; d++ {
						if at(i+d&1, j+d>>1&1, k+d>>2&1) != first {
							nActiveCells++
							break
						}
					}
				}
			}
		}
		if len(verts) != nActiveCells {
			return fmt.Errorf("%d distinct vertices for %d cells with a sign change", len(verts), nActiveCells)
		}
	}
	if c.Repair {
		// Repair is best effort as far as manifoldness goes, but it leaves every vertex where Clip put it up to a
		// fraction of the cube margin: copies of a singular vertex are moved inside their cube (after being pulled
		// away from its faces by that amount), and the vertex added on a singular edge sits next to the midpoint
		// of two vertices of cells around one sign-changing lattice edge or face.  So every vertex lies in the
		// CLOSED box of some cell that has a sign change (a vertex exactly on a lattice plane may use either side).
		o.Label("repair")
		active := func(ci [3]int) bool {
			for a := 0; a < 3; a++ {
				if ci[a] < 0 || ci[a]+1 >= dims[a] {
					return false
				}
			}
			first := at(ci[0], ci[1], ci[2])
			for d := 1; d < 8; d++ {
				if at(ci[0]+d&1, ci[1]+d>>1&1, ci[2]+d>>2&1) != first {
					return true
				}
			}
			return false
		}
		seen := map[kit.V3]bool{}
		for _, t := range tris {
			for _, v := range t {
				if seen[v] {
					continue
				}
				seen[v] = true
				var cand [3][]int
				for a := 0; a < 3; a++ {
					i, exact := locate(g[a], v[a])
					if i < 0 {
						return fmt.Errorf("with Repair and Clip: vertex %v lies outside the lattice (axis %d)", v, a)
					}
					cand[a] = []int{i}
					if exact {
						cand[a] = append(cand[a], i-1)
					}
				}
				ok := false
				for _, i := range cand[0] {
					for _, j := range cand[1] {
						for _, k := range cand[2] {
							ok = ok || active([3]int{i, j, k})
						}
					}
				}
				if !ok {
					return fmt.Errorf("with Repair and Clip: vertex %v lies in no cell with a sign change (cells %v x %v x %v): Clip keeps vertices in their cubes and repairs move them by less than the margin they were given", v, cand[0], cand[1], cand[2])
				}
			}
		}
	}
	if c.Interior {
		if len(interior) != nActiveEdges {
			return fmt.Errorf("%d interior points reported for %d sign-changing lattice edges", len(interior), nActiveEdges)
		}
		for _, p := range interior {
			if !solid.Contains(p) {
				return fmt.Errorf("reported interior point %v is not contained in the solid", p)
			}
		}
	}
	return nil
}

func TestProp(t *testing.T) {
	runtime.GOMAXPROCS(3)
	kit.Run(t, "C02", rule,
		kit.Clause[mcCase]{Name: "C02/mc/lattice-relation", Quick: 4000, Thorough: 30000, Gen: genMC, Check: checkMC, Fresh: true},
		kit.Clause[msCase]{Name: "C02/ms/lattice-relation", Quick: 12000, Thorough: 100000, Gen: genMS, Check: checkMS, Fresh: true},
		kit.Clause[dcCase]{Name: "C02/dc/crossings", Quick: 3200, Thorough: 25000, Gen: genDC, Check: checkDC, Fresh: true},
	)
}
