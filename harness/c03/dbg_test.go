package c03

import (
	"encoding/json"
	"fmt"
	"os"
	"testing"

	"github.com/unixpickle/model3d/model3d"
	"verifharness/kit"
	"verifharness/m3"
)

func TestDbg(t *testing.T) {
	f := os.Getenv("DBG_FILE")
	if f == "" {
		t.Skip()
	}
	raw, _ := os.ReadFile(f)
	var rec struct {
		Case treeCase `json:"case"`
	}
	if err := json.Unmarshal(raw, &rec); err != nil {
		t.Fatal(err)
	}
	b := buildNode(rec.Case.Root)
	var p kit.V3
	fmt.Sscanf(os.Getenv("DBG_P"), "%g %g %g", &p[0], &p[1], &p[2])
	k := b.kids[0]
	mn, mx := k.bounds()
	at := func(f kit.V3) kit.V3 {
		return kit.V3{mn[0] + f[0]*(mx[0]-mn[0]), mn[1] + f[1]*(mx[1]-mn[1]), mn[2] + f[2]*(mx[2]-mn[2])}
	}
	p1, p2 := at(b.n.P[0]), at(b.n.P[1])
	axis := p2.Sub(p1)
	v := p.Sub(p1)
	s := axis.Dot(v) / axis.Dot(axis)
	q := v.Sub(axis.Scale(s)).Scale(1 / s).Add(axis.Scale(s)).Add(p1)
	fmt.Println("s", s, "q mine", q, "kid(q)", k.contains(q), "under", b.under(p), "lib", b.contains(p))
	// library arithmetic
	la := m3.C3(p2).Sub(m3.C3(p1))
	lv := m3.C3(p).Sub(m3.C3(p1))
	sc := la.Dot(lv)
	n := la.Norm()
	sc /= n * n
	lq := lv.Sub(la.Scale(sc)).Scale(1 / sc).Add(la.Scale(sc)).Add(m3.C3(p1))
	fmt.Println("sc", sc, "q lib", lq, "kid(qlib)", k.s3.Contains(lq), "diff", m3.V3(lq).Sub(q))
	for _, sh := range k.n.S3 {
		pr := sh.Build()
		nn, d := pr.NormalSDF(lq)
		nn2, d2 := pr.NormalSDF(m3.C3(q))
		fmt.Println(sh.Kind, "lib:", nn, d, " mine:", nn2, d2)
	}
	_ = model3d.Origin
}
