package c03

import (
	"fmt"
	"math"

	"github.com/unixpickle/model3d/model2d"
	"github.com/unixpickle/model3d/model3d"
	"github.com/unixpickle/model3d/toolbox3d"
	"pgregory.net/rapid"
	"verifharness/gen"
	"verifharness/kit"
	"verifharness/m3"
)

// ---- reference affine arithmetic for xf2 (independent of the library) -------

func (x xf2) affine() (l [4]float64, o kit.V2) {
	switch x.Kind {
	case "translate":
		return [4]float64{1, 0, 0, 1}, x.V
	case "scale":
		return [4]float64{x.S, 0, 0, x.S}, kit.V2{}
	case "vecscale":
		return [4]float64{x.V[0], 0, 0, x.V[1]}, kit.V2{}
	case "matrix":
		return x.M, kit.V2{}
	case "rotation":
		c, s := math.Cos(x.S), math.Sin(x.S)
		return [4]float64{c, -s, s, c}, kit.V2{}
	}
	l = [4]float64{1, 0, 0, 1}
	for _, p := range x.Parts {
		pl, po := p.affine()
		l = [4]float64{pl[0]*l[0] + pl[1]*l[2], pl[0]*l[1] + pl[1]*l[3], pl[2]*l[0] + pl[3]*l[2], pl[2]*l[1] + pl[3]*l[3]}
		o = kit.V2{pl[0]*o[0] + pl[1]*o[1] + po[0], pl[2]*o[0] + pl[3]*o[1] + po[1]}
	}
	return
}

func (x xf2) refApply(p kit.V3) kit.V3 {
	l, o := x.affine()
	return kit.V3{l[0]*p[0] + l[1]*p[1] + o[0], l[2]*p[0] + l[3]*p[1] + o[1], 0}
}

func (x xf2) refInverse(p kit.V3) kit.V3 {
	l, o := x.affine()
	det := l[0]*l[3] - l[1]*l[2]
	a, b := p[0]-o[0], p[1]-o[1]
	return kit.V3{(l[3]*a - l[1]*b) / det, (-l[2]*a + l[0]*b) / det, 0}
}

// ---- 2D SDF / collider sources ----------------------------------------------

type src2 struct {
	sdf  model2d.SDF
	col  model2d.Collider
	ref  func(p kit.V3) float64
	wit  []kit.V3
	size float64
}

func polygonOf(s gen.Shape2, detail int) []kit.V2 {
	switch s.Kind {
	case "rect":
		return []kit.V2{{s.A[0], s.A[1]}, {s.B[0], s.A[1]}, {s.B[0], s.B[1]}, {s.A[0], s.B[1]}}
	case "triangle":
		return []kit.V2{s.A, s.B, s.C}
	}
	n := 5 + detail*2
	var out []kit.V2
	for i := 0; i < n; i++ {
		a := 2 * math.Pi * float64(i) / float64(n)
		out = append(out, s.A.Add(kit.V2{math.Cos(a), math.Sin(a)}.Scale(s.R)))
	}
	return out
}

func makeSrc2(s gen.Shape2, kind int, x *xf2, detail int) src2 {
	p := s.Build()
	switch kind {
	case 1:
		t := x.build().(model2d.DistTransform)
		f := x.distFactor()
		r := src2{sdf: model2d.TransformSDF(t, p), col: model2d.TransformCollider(t, p), size: s.Size() * f}
		r.ref = func(q kit.V3) float64 { return f * s.RefSDF(v2(x.refInverse(q))).SDF }
		for _, w := range witnesses2(s) {
			r.wit = append(r.wit, x.refApply(w))
		}
		return r
	case 2:
		poly := polygonOf(s, detail)
		var segs []kit.Seg
		var vs []kit.V3
		for i := range poly {
			segs = append(segs, kit.Seg{poly[i], poly[(i+1)%len(poly)]})
			vs = append(vs, v3(poly[i]))
		}
		mesh := m3.MeshFromSegs(segs)
		r := src2{sdf: model2d.MeshToSDF(mesh), col: model2d.MeshToCollider(mesh), size: s.Size()}
		r.ref = func(q kit.V3) float64 {
			d, _ := kit.MeshDist2(segs, v2(q))
			if math.Abs(kit.Winding2(segs, v2(q))) > 0.5 {
				return d
			}
			return -d
		}
		r.wit = extremeVerts(vs)
		return r
	}
	return src2{sdf: p, col: p, ref: func(q kit.V3) float64 { return s.RefSDF(v2(q)).SDF }, wit: witnesses2(s), size: s.Size()}
}

func genSrc2(g *G, n *node, lab string) {
	n.S2 = []gen.Shape2{gen.Shape2Gen(g.t, gen.AllKinds2, 0.8, math.Min(g.aspect, 30), lab+".prim")}
	kind := rapid.IntRange(0, 2).Draw(g.t, lab+".src")
	n.I = []int{kind, rapid.IntRange(0, 3).Draw(g.t, lab+".detail")}
	if kind == 1 {
		x := genXf2(g.t, true, 1, lab+".x")
		n.X2 = &x
	}
}

var axisDirs2 = []kit.V3{{1, 0, 0}, {-1, 0, 0}, {0, 1, 0}, {0, -1, 0}}

func init() {
	reg(&family{name: "prim2", dim: 2, group: "primitives", leaf: true,
		gen: func(g *G, depth int, lab string) *node {
			s := gen.Shape2Gen(g.t, gen.AllKinds2, 0.8, g.aspect, lab+".prim")
			if s.Kind == "triangle" && rapid.IntRange(0, 3).Draw(g.t, lab+".sliver") == 0 {
				// the extreme end of "extreme aspect ratios": a triangle whose third corner lies on the opposite side
				// (to within 0, 1e-15, 1e-13 or 1e-10 of its length), or repeats a corner.  Such a triangle still
				// reports a box, and nothing outside that box may be contained.
				u := gen.F(g.t, 0.05, 0.95, lab+".sliver.u")
				ab := s.B.Sub(s.A)
				nrm := kit.V2{-ab[1], ab[0]}
				eps := rapid.SampledFrom([]float64{0, 0, 1e-15, 1e-13, 1e-10}).Draw(g.t, lab+".sliver.eps")
				s.C = s.A.Add(ab.Scale(u)).Add(nrm.Scale(eps))
				if rapid.IntRange(0, 4).Draw(g.t, lab+".sliver.repeat") == 0 {
					s.C = s.A
				}
			}
			return &node{Op: "prim2", S2: []gen.Shape2{s}}
		},
		build: func(b *built) {
			s := b.n.S2[0]
			b.set2(s.Build())
			b.under = func(p kit.V3) bool { return s.RefSDF(v2(p)).SDF >= 0 }
			b.sure = func(p kit.V3, m float64) int { return sureFromDist(s.RefSDF(v2(p)).SDF, m) }
			b.addWit(witnesses2(s)...)
			b.pscale = s.Size()
			b.mrel = 1e-10
		}})

	for _, op := range []string{"join2", "intersect2", "subtract2", "joinopt2", "mux2"} {
		op := op
		reg(&family{name: op, dim: 2, group: "combinators",
			gen: func(g *G, depth int, lab string) *node {
				if op == "subtract2" {
					return &node{Op: op, Kids: g.kids(2, depth, 2, 2, lab)}
				}
				return &node{Op: op, Kids: g.kids(2, depth, 1, 3, lab)}
			},
			build: func(b *built) {
				var ss []model2d.Solid
				for _, k := range b.kids {
					ss = append(ss, k.s2)
				}
				ks := b.kids
				switch op {
				case "join2":
					b.set2(model2d.JoinedSolid(ss))
				case "joinopt2":
					b.set2(model2d.JoinedSolid(ss).Optimize())
				case "mux2":
					b.set2(model2d.NewSolidMux(ss))
				case "intersect2":
					b.set2(model2d.IntersectedSolid(ss))
				case "subtract2":
					b.set2(&model2d.SubtractedSolid{Positive: ss[0], Negative: ss[1]})
				}
				b.under = func(p kit.V3) bool {
					switch op {
					case "intersect2":
						for _, k := range ks {
							if !k.contains(p) {
								return false
							}
						}
						return true
					case "subtract2":
						return ks[0].contains(p) && !ks[1].contains(p)
					}
					for _, k := range ks {
						if k.contains(p) {
							return true
						}
					}
					return false
				}
				kidsWit(b)
			}})
	}

	reg(&family{name: "smooth2", dim: 2, group: "combinators", leaf: true,
		gen: func(g *G, depth int, lab string) *node {
			n := &node{Op: "smooth2", I: []int{rapid.IntRange(0, 1).Draw(g.t, lab+".v2")}}
			k := rapid.IntRange(1, 4).Draw(g.t, lab+".n")
			for i := 0; i < k; i++ {
				n.S2 = append(n.S2, gen.Shape2Gen(g.t, gen.AllKinds2, 0.8, math.Min(g.aspect, 30), fmt.Sprintf("%s.s%d", lab, i)))
			}
			r := 0.0
			if rapid.IntRange(0, 5).Draw(g.t, lab+".r0") != 0 {
				r = gen.LogF(g.t, 0.01, 0.6, lab+".r")
			}
			n.F = []float64{r}
			if k > 1 && rapid.Bool().Draw(g.t, lab+".align") {
				a := rapid.IntRange(0, 1).Draw(g.t, lab+".alignaxis")
				side := float64(2*rapid.IntRange(0, 1).Draw(g.t, lab+".alignside") - 1)
				var e kit.V2
				e[a] = side
				top := func(s gen.Shape2) float64 {
					m := math.Inf(-1)
					for _, p := range support2(s, e) {
						m = math.Max(m, side*p[a])
					}
					return m
				}
				for i := 1; i < k; i++ {
					d := n.S2[0].Centre().Sub(n.S2[i].Centre())
					d = d.Add(gen.Vec2(g.t, 0.6*(n.S2[0].Size()+n.S2[i].Size()), fmt.Sprintf("%s.lat%d", lab, i)))
					d[a] = side * (top(n.S2[0]) - top(n.S2[i]) + r*gen.F(g.t, -0.3, 0.1, fmt.Sprintf("%s.dh%d", lab, i)))
					n.S2[i].A = n.S2[i].A.Add(d)
					if n.S2[i].Kind != "circle" {
						n.S2[i].B = n.S2[i].B.Add(d)
					}
					if n.S2[i].Kind == "triangle" {
						n.S2[i].C = n.S2[i].C.Add(d)
					}
				}
			}
			return n
		},
		build: func(b *built) {
			radius := b.n.F[0]
			for i := range b.n.S2 {
				for j := i + 1; j < len(b.n.S2); j++ {
					for _, d := range axisDirs2 {
						for _, p := range support2(b.n.S2[i], v2(d)) {
							for _, q := range support2(b.n.S2[j], v2(d)) {
								for _, f := range []float64{0.03, 0.1, 0.2, 0.28} {
									b.addWit(v3(p.Mid(q)).Add(d.Scale(f * radius)))
								}
							}
						}
					}
				}
			}
			var sdfs []model2d.SDF
			var nsdfs []model2d.NormalSDF
			for _, s := range b.n.S2 {
				p := s.Build()
				sdfs = append(sdfs, p)
				nsdfs = append(nsdfs, p)
				b.addWit(witnesses2(s)...)
				b.pscale = math.Max(b.pscale, s.Size()+math.Max(math.Abs(s.Centre()[0]), math.Abs(s.Centre()[1])))
			}
			useV2 := b.n.I[0] == 1
			if useV2 {
				b.set2(model2d.SmoothJoinV2(radius, nsdfs...))
			} else {
				b.set2(model2d.SmoothJoin(radius, sdfs...))
			}
			b.under = func(p kit.V3) bool {
				best := [2]float64{math.Inf(-1), math.Inf(-1)}
				var bn [2]model2d.Coord
				for i := range sdfs {
					var d float64
					var nrm model2d.Coord
					if useV2 {
						nrm, d = nsdfs[i].NormalSDF(c2(p))
					} else {
						d = sdfs[i].SDF(c2(p))
					}
					if d > 0 {
						return true
					}
					if d >= best[0] {
						best[1], bn[1] = best[0], bn[0]
						best[0], bn[0] = d, nrm
					} else if d > best[1] {
						best[1], bn[1] = d, nrm
					}
				}
				r := radius
				if useV2 {
					c := math.Abs(bn[0].Dot(bn[1]))
					r = radius * math.Sqrt(1-c*c)
				}
				d1, d2 := math.Max(0, best[0]+r), math.Max(0, best[1]+r)
				return d1*d1+d2*d2 > r*r
			}
		}})

	reg(&family{name: "sdf2", dim: 2, group: "derived", leaf: true,
		gen: func(g *G, depth int, lab string) *node {
			n := &node{Op: "sdf2"}
			genSrc2(g, n, lab)
			mode := rapid.IntRange(0, 4).Draw(g.t, lab+".mode")
			switch {
			case mode == 0:
				n.I = append(n.I, 0)
				n.F = []float64{0}
			case mode <= 2:
				n.I = append(n.I, 1)
				n.F = []float64{gen.LogF(g.t, 1e-3, 0.7, lab+".outset")}
			default:
				n.I = append(n.I, 2)
				n.F = []float64{gen.F(g.t, 0.01, 0.9, lab+".inset")}
			}
			return n
		},
		build: func(b *built) {
			src := makeSrc2(b.n.S2[0], b.n.I[0], b.n.X2, b.n.I[1])
			outset := b.n.F[0]
			if b.n.I[2] == 2 {
				mn, mx := src.sdf.Min(), src.sdf.Max()
				outset = -b.n.F[0] * math.Min(mx.X-mn.X, mx.Y-mn.Y) / 2
			}
			b.set2(model2d.SDFToSolid(src.sdf, outset))
			b.under = func(p kit.V3) bool { return src.sdf.SDF(c2(p)) > -outset }
			b.addWit(src.wit...)
			for _, d := range axisDirs2 {
				for _, w := range src.wit {
					b.addWit(w.Add(d.Scale(outset)))
				}
			}
			b.pscale = src.size + math.Abs(outset)
		}})

	reg(&family{name: "xform2", dim: 2, group: "transformed",
		gen: func(g *G, depth int, lab string) *node {
			x := genXf2(g.t, false, 2, lab+".x")
			return &node{Op: "xform2", X2: &x, Kids: g.kids(2, depth, 1, 1, lab), I: []int{rapid.IntRange(0, 1).Draw(g.t, lab+".helper")}}
		},
		build: func(b *built) {
			x := *b.n.X2
			t := x.build()
			k := b.kids[0]
			helper := b.n.I[0] == 1
			switch {
			case helper && x.Kind == "translate":
				b.set2(model2d.TranslateSolid(k.s2, m3.C2(x.V)))
			case helper && x.Kind == "scale":
				b.set2(model2d.ScaleSolid(k.s2, x.S))
			case helper && x.Kind == "vecscale":
				b.set2(model2d.VecScaleSolid(k.s2, m3.C2(x.V)))
			case helper && x.Kind == "rotation":
				b.set2(model2d.RotateSolid(k.s2, x.S))
			default:
				mine := x.build()
				b.set2(model2d.TransformSolid(mine, k.s2))
				if tr, ok := mine.(*model2d.Translate); ok {
					tr.Offset = tr.Offset.Add(model2d.XY(7.5, -3.25))
				}
			}
			inv := t.Inverse()
			b.under = func(p kit.V3) bool { return k.contains(from2(inv.Apply(c2(p)))) }
			for _, w := range k.wit {
				b.addWit(from2(t.Apply(c2(w))))
			}
			mn, mx := k.bounds()
			for i := 0; i < 4; i++ {
				c := mn
				for a := 0; a < 2; a++ {
					if i>>uint(a)&1 == 1 {
						c[a] = mx[a]
					}
				}
				b.addWit(from2(t.Apply(c2(c))))
			}
		}})

	reg(&family{name: "collider2", dim: 2, group: "derived", leaf: true,
		gen: func(g *G, depth int, lab string) *node {
			n := &node{Op: "collider2"}
			genSrc2(g, n, lab)
			mode := rapid.IntRange(0, 2).Draw(g.t, lab+".mode")
			n.I = append(n.I, mode)
			v := gen.LogF(g.t, 1e-3, 0.5, lab+".v")
			if mode == 1 && rapid.Bool().Draw(g.t, lab+".outset") {
				v = -v
			}
			n.F = []float64{v}
			return n
		},
		build: func(b *built) {
			src := makeSrc2(b.n.S2[0], b.n.I[0], b.n.X2, b.n.I[1])
			v := b.n.F[0]
			switch b.n.I[2] {
			case 0:
				b.set2(model2d.NewColliderSolid(src.col))
				b.sure = func(p kit.V3, m float64) int { return sureFromDist(src.ref(p), m) }
			case 1:
				b.set2(model2d.NewColliderSolidInset(src.col, v))
				b.sure = func(p kit.V3, m float64) int { return sureFromDist(src.ref(p)-v, m) }
			default:
				b.set2(model2d.NewColliderSolidHollow(src.col, v))
				b.sure = func(p kit.V3, m float64) int { return sureFromDist(v-math.Abs(src.ref(p)), m) }
			}
			sure := b.sure
			b.under = func(p kit.V3) bool { return sure(p, 0) >= 0 }
			b.addWit(src.wit...)
			if b.n.I[2] != 0 {
				for _, d := range axisDirs2 {
					for _, w := range src.wit {
						b.addWit(w.Add(d.Scale(math.Abs(v))), w.Add(d.Scale(-math.Abs(v))))
					}
				}
			}
			b.pscale = src.size + math.Abs(v)
			b.mrel = 1e-8
		}})

	reg(&family{name: "metaball2", dim: 2, group: "derived", leaf: true,
		gen: func(g *G, depth int, lab string) *node {
			n := &node{Op: "metaball2", I: []int{rapid.IntRange(0, 3).Draw(g.t, lab+".falloff")},
				F: []float64{gen.LogF(g.t, 0.02, 1, lab+".thr"), gen.LogF(g.t, 1, 20, lab+".k")}}
			k := rapid.IntRange(1, 4).Draw(g.t, lab+".n")
			for i := 0; i < k; i++ {
				l := fmt.Sprintf("%s.b%d", lab, i)
				s := gen.Shape2Gen(g.t, gen.AllKinds2, 0.6, math.Min(g.aspect, 30), l+".prim")
				bl := ball{S2: &s, Wrap: rapid.IntRange(0, 3).Draw(g.t, l+".wrap")}
				switch bl.Wrap {
				case 1:
					x := genXf2(g.t, true, 1, l+".x")
					bl.X2 = &x
				case 2:
					bl.V = kit.V3{gen.LogF(g.t, 0.2, 5, l+".sx"), gen.LogF(g.t, 0.2, 5, l+".sy"), 1}
					for a := 0; a < 2; a++ {
						if rapid.IntRange(0, 3).Draw(g.t, l+".neg") == 0 {
							bl.V[a] = -bl.V[a]
						}
					}
				}
				n.Balls = append(n.Balls, bl)
			}
			return n
		},
		build: func(b *built) {
			f, fn := falloff(b.n.I[0], b.n.F[1])
			thr := b.n.F[0]
			var ms []model2d.Metaball
			for _, bl := range b.n.Balls {
				p := bl.S2.Build()
				m := p.(model2d.Metaball)
				wit := witnesses2(*bl.S2)
				switch bl.Wrap {
				case 1:
					m = model2d.TransformMetaball(bl.X2.build().(model2d.DistTransform), p.(model2d.Metaball))
					for i := range wit {
						wit[i] = bl.X2.refApply(wit[i])
					}
				case 2:
					m = model2d.VecScaleMetaball(p.(model2d.Metaball), model2d.XY(bl.V[0], bl.V[1]))
					for i := range wit {
						wit[i] = kit.V3{wit[i][0] * bl.V[0], wit[i][1] * bl.V[1], 0}
					}
				case 3:
					m = model2d.SDFToMetaball(p)
				}
				ms = append(ms, m)
				b.addWit(wit...)
				for _, w := range wit {
					b.pscale = math.Max(b.pscale, w.MaxAbs())
					for _, d := range axisDirs2 {
						b.addWit(w.Add(d.Scale(thr)), w.Add(d.Scale(thr*math.Sqrt(math.Sqrt(float64(len(b.n.Balls)))))))
					}
				}
			}
			if fn == nil {
				b.set2(model2d.MetaballSolid(nil, thr, ms...))
			} else {
				b.set2(model2d.MetaballSolid(fn, thr, ms...))
			}
			ft := f(thr)
			b.under = func(p kit.V3) bool {
				var sum float64
				for _, m := range ms {
					sum += f(m.MetaballField(c2(p)))
				}
				return sum > ft
			}
			b.pscale += thr
		}})

	reg(&family{name: "polytope2", dim: 2, group: "derived", leaf: true,
		gen: func(g *G, depth int, lab string) *node {
			n := &node{Op: "polytope2", I: []int{rapid.IntRange(0, 1).Draw(g.t, lab+".rectctor")}}
			c := gen.Vec2(g.t, 1.5, lab+".c")
			h := kit.V2{gen.LogF(g.t, 0.05, 1, lab+".hx"), gen.LogF(g.t, 0.05, 1, lab+".hy")}
			for a := 0; a < 2; a++ {
				for _, s := range []float64{1, -1} {
					var nrm kit.V3
					nrm[a] = s
					n.P = append(n.P, nrm)
					n.F = append(n.F, s*c[a]+h[a])
				}
			}
			k := rapid.IntRange(0, 5).Draw(g.t, lab+".extra")
			for i := 0; i < k; i++ {
				l := fmt.Sprintf("%s.c%d", lab, i)
				nrm := v3(gen.Dir2(g.t, l+".n").Scale(gen.LogF(g.t, 0.1, 10, l+".len")))
				d := gen.F(g.t, 0.05, 1, l+".d") * h.Norm()
				if rapid.IntRange(0, 2).Draw(g.t, l+".corner") == 0 {
					corner := v3(c)
					for a := 0; a < 2; a++ {
						corner[a] += h[a] * float64(2*rapid.IntRange(0, 1).Draw(g.t, l+".cs")-1)
					}
					if nrm.Dot(corner.Sub(v3(c))) < 0 {
						nrm = nrm.Scale(-1)
					}
					n.P = append(n.P, nrm)
					n.F = append(n.F, nrm.Dot(corner))
					continue
				}
				n.P = append(n.P, nrm)
				n.F = append(n.F, nrm.Dot(v3(c))+d*nrm.Norm())
			}
			// rescaled constraints, as in 3D
			if rapid.IntRange(0, 2).Draw(g.t, lab+".rescale") == 0 {
				common := rapid.Bool().Draw(g.t, lab+".rescale.common")
				e := rapid.IntRange(-6, 8).Draw(g.t, lab+".rescale.exp")
				for i := range n.P {
					if !common {
						e = rapid.IntRange(-6, 8).Draw(g.t, fmt.Sprintf("%s.rescale.e%d", lab, i))
					}
					n.I = append(n.I, e)
				}
			}
			return n
		},
		build: func(b *built) {
			var poly model2d.ConvexPolytope
			ns, fs := b.n.P, b.n.F
			mn := kit.V3{-fs[1], -fs[3], 0}
			mx := kit.V3{fs[0], fs[2], 0}
			start := 0
			if b.n.I[0] == 1 {
				poly = model2d.NewConvexPolytopeRect(c2(mn), c2(mx))
				start = 4
			}
			for i := start; i < len(ns); i++ {
				f := polyRescale(b.n, i)
				poly = append(poly, &model2d.LinearConstraint{Normal: c2(ns[i].Scale(f)), Max: fs[i] * f})
			}
			b.set2(poly.Solid())
			slack := func(p kit.V3) float64 {
				s := math.Inf(1)
				for i := range ns {
					s = math.Min(s, (fs[i]-ns[i][0]*p[0]-ns[i][1]*p[1])/ns[i].Norm())
				}
				return s
			}
			b.under = func(p kit.V3) bool { return slack(p) >= 0 }
			b.sure = func(p kit.V3, m float64) int { return sureFromDist(slack(p), m) }
			b.addWit(mn, mx, kit.V3{mn[0], mx[1], 0}, kit.V3{mx[0], mn[1], 0}, mn.Mid(mx))
			b.pscale = mx.Sub(mn).Norm() + mn.MaxAbs()
		}})

	reg(&family{name: "force2", dim: 2, group: "combinators",
		gen: func(g *G, depth int, lab string) *node {
			n := &node{Op: "force2", Kids: g.kids(2, depth, 1, 1, lab), I: []int{rapid.IntRange(0, 2).Draw(g.t, lab+".api")}}
			for a := 0; a < 2; a++ {
				lo := gen.F(g.t, -0.4, 0.9, fmt.Sprintf("%s.lo%d", lab, a))
				n.F = append(n.F, lo, lo+gen.F(g.t, 0, 1.2, fmt.Sprintf("%s.w%d", lab, a)))
			}
			return n
		},
		build: func(b *built) {
			k := b.kids[0]
			kmn, kmx := k.bounds()
			var mn, mx kit.V3
			for a := 0; a < 2; a++ {
				mn[a] = kmn[a] + b.n.F[2*a]*(kmx[a]-kmn[a])
				mx[a] = kmn[a] + b.n.F[2*a+1]*(kmx[a]-kmn[a])
				if !(mn[a] <= mx[a]) {
					mn[a], mx[a] = kmn[a], kmx[a]
				}
			}
			switch b.n.I[0] {
			case 0:
				b.set2(model2d.ForceSolidBounds(k.s2, c2(mn), c2(mx)))
			case 1:
				b.set2(model2d.CacheSolidBounds(k.s2))
				mn, mx = kmn, kmx
			default:
				b.set2(model2d.CheckedFuncSolid(c2(mn), c2(mx), k.s2.Contains))
			}
			b.under = func(p kit.V3) bool {
				for a := 0; a < 2; a++ {
					if p[a] < mn[a] || p[a] > mx[a] {
						return false
					}
				}
				return k.contains(p)
			}
			kidsWit(b)
		}})

	// ---- BitmapToSolid: I = width, height; Bits row-major ----------------------
	reg(&family{name: "bitmap2", dim: 2, group: "derived", leaf: true,
		gen: func(g *G, depth int, lab string) *node {
			w, h := rapid.IntRange(1, 6).Draw(g.t, lab+".w"), rapid.IntRange(1, 6).Draw(g.t, lab+".h")
			dens := rapid.IntRange(1, 9).Draw(g.t, lab+".density")
			bits := make([]byte, w*h)
			for i := range bits {
				bits[i] = '0'
				if rapid.IntRange(0, 9).Draw(g.t, "bit") < dens {
					bits[i] = '1'
				}
			}
			return &node{Op: "bitmap2", I: []int{w, h}, Bits: string(bits)}
		},
		build: func(b *built) {
			w, h := b.n.I[0], b.n.I[1]
			bmp := model2d.NewBitmap(w, h)
			for i := range bmp.Data {
				bmp.Data[i] = b.n.Bits[i] == '1'
			}
			b.set2(model2d.BitmapToSolid(bmp))
			bits := b.n.Bits
			// definition: pixel (i, j) covers [i, i+1) x [j, j+1)
			at := func(x, y float64) bool {
				i, j := int(math.Floor(x)), int(math.Floor(y))
				return i >= 0 && j >= 0 && i < w && j < h && bits[i+j*w] == '1'
			}
			b.under = func(p kit.V3) bool { return at(p[0], p[1]) }
			b.sure = func(p kit.V3, m float64) int {
				dx := math.Min(p[0]-math.Floor(p[0]), math.Ceil(p[0])-p[0])
				dy := math.Min(p[1]-math.Floor(p[1]), math.Ceil(p[1])-p[1])
				if dx <= m || dy <= m {
					return 0
				}
				return sgn(at(p[0], p[1]))
			}
			for i := 0; i <= w; i++ {
				for j := 0; j <= h; j++ {
					b.addWit(kit.V3{float64(i), float64(j), 0}, kit.V3{float64(i) + 0.5, float64(j) + 0.5, 0})
				}
			}
			b.pscale = float64(w + h)
		}})

	// ---- cross sections of 3D solids: kid (3D), I[0] axis, I[1] 0 = model3d.CrossSectionSolid,
	//      1 = toolbox3d.SliceSolid; F[0] position as a fraction of the kid's extent
	reg(&family{name: "cross2", dim: 2, group: "transformed",
		gen: func(g *G, depth int, lab string) *node {
			return &node{Op: "cross2", Kids: g.kids(3, depth, 1, 1, lab),
				I: []int{rapid.IntRange(0, 2).Draw(g.t, lab+".axis"), rapid.IntRange(0, 1).Draw(g.t, lab+".api")},
				F: []float64{gen.F(g.t, -0.2, 1.2, lab+".at")}}
		},
		build: func(b *built) {
			k := b.kids[0]
			ax := b.n.I[0]
			mn, mx := k.bounds()
			val := mn[ax] + b.n.F[0]*(mx[ax]-mn[ax])
			if b.n.I[1] == 0 {
				b.set2(model3d.CrossSectionSolid(k.s3, ax, val))
			} else {
				b.set2(toolbox3d.SliceSolid(k.s3, toolbox3d.Axis(ax), val))
			}
			xi, yi := 1, 2
			if ax == 1 {
				xi, yi = 0, 2
			} else if ax == 2 {
				xi, yi = 0, 1
			}
			// documented: true at (x', y') iff the 3D solid is true at the point of the plane
			b.under = func(p kit.V3) bool {
				var q kit.V3
				q[ax], q[xi], q[yi] = val, p[0], p[1]
				return k.contains(q)
			}
			for _, w := range k.wit {
				b.addWit(kit.V3{w[xi], w[yi], 0})
			}
		}})
}
