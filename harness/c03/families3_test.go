package c03

import (
	"fmt"
	"math"

	"github.com/unixpickle/model3d/model2d"
	"github.com/unixpickle/model3d/model3d"
	"github.com/unixpickle/model3d/toolbox3d"
	"pgregory.net/rapid"
	"verifharness/gen"
	"verifharness/kit"
	"verifharness/m3"
)

// G carries the rapid source and per-case generation parameters.
type G struct {
	t      *rapid.T
	aspect float64
}

type family struct {
	name  string
	dim   int
	group string // primitives, combinators, transformed, derived, toolbox
	leaf  bool
	gen   func(g *G, depth int, lab string) *node
	build func(b *built)
}

var families []*family
var famByName = map[string]*family{}

func reg(f *family) {
	families = append(families, f)
	famByName[f.name] = f
}

// node draws a random subtree of the requested dimension.
func (g *G) node(dim, depth int, lab string) *node {
	leafOnly := depth <= 1 || rapid.IntRange(0, 3).Draw(g.t, lab+".leaf") == 0
	var cands []*family
	for _, f := range families {
		if f.dim == dim && (!leafOnly || f.leaf) {
			cands = append(cands, f)
		}
	}
	f := cands[rapid.IntRange(0, len(cands)-1).Draw(g.t, lab+".fam")]
	return f.gen(g, depth, lab)
}

func (g *G) kids(dim, depth, lo, hi int, lab string) []*node {
	n := rapid.IntRange(lo, hi).Draw(g.t, lab+".n")
	var out []*node
	for i := 0; i < n; i++ {
		out = append(out, g.node(dim, depth-1, fmt.Sprintf("%s.k%d", lab, i)))
	}
	return out
}

func buildNode(n *node) *built {
	f := famByName[n.Op]
	if f == nil {
		panic("c03: unknown op " + n.Op)
	}
	b := &built{n: n, fam: f, dim: f.dim, mrel: 1e-9}
	for _, k := range n.Kids {
		b.kids = append(b.kids, buildNode(k))
	}
	f.build(b)
	b.pscale = math.Max(b.pscale, kidScale(b.kids))
	if b.pscale == 0 {
		b.pscale = 1
	}
	return b
}

// excludedInput is panicked by a builder that meets an input class switched off by a
// confirmed known finding; checkTree turns it into a counted skip.
type excludedInput struct{ tag string }

func avoid(tag string) {
	if kit.Excluded(tag) {
		kit.CountExcluded(tag)
		panic(excludedInput{tag})
	}
}

func kidsWit(b *built) {
	for _, k := range b.kids {
		b.addWit(k.wit...)
	}
}

// ---------------------------------------------------------------------------
// SDF / collider sources shared by SDFToSolid, SmoothJoin, the collider solids.

type src3 struct {
	sdf  model3d.SDF
	col  model3d.Collider
	ref  func(p kit.V3) float64 // independent signed distance, positive inside
	wit  []kit.V3
	size float64
}

func meshOf3(s gen.Shape3, detail int) *model3d.Mesh {
	switch s.Kind {
	case "sphere":
		return model3d.NewMeshIcosphere(m3.C3(s.A), s.R, 1+detail%2)
	case "rect":
		return model3d.NewMeshRect(m3.C3(s.A), m3.C3(s.B))
	case "cone":
		return model3d.NewMeshCone(m3.C3(s.A), m3.C3(s.B), s.R, 5+detail)
	case "torus":
		return model3d.NewMeshTorus(m3.C3(s.A), m3.C3(s.B), s.R2, s.R, 4+detail, 6+detail)
	}
	return model3d.NewMeshCylinder(m3.C3(s.A), m3.C3(s.B), s.R, 5+detail)
}

// makeSrc3: kind 0 the primitive itself, 1 the primitive under a distance
// transform (TransformSDF / TransformCollider), 2 a triangle mesh of the primitive
// (MeshToSDF / MeshToCollider; the reference is the mesh, by brute force).
func makeSrc3(s gen.Shape3, kind int, x *gen.Xform3, detail int) src3 {
	p := s.Build()
	switch kind {
	case 1:
		t := x.Build().(model3d.DistTransform)
		f := x.DistFactor()
		r := src3{sdf: model3d.TransformSDF(t, p), col: model3d.TransformCollider(t, p), size: s.Size() * f}
		r.ref = func(q kit.V3) float64 { return f * s.RefSDF(x.RefInverse(q)).SDF }
		for _, w := range witnesses3(s) {
			r.wit = append(r.wit, x.RefApply(w))
		}
		return r
	case 2:
		mesh := meshOf3(s, detail)
		tris := m3.Tris(mesh)
		r := src3{sdf: model3d.MeshToSDF(mesh), col: model3d.MeshToCollider(mesh), size: s.Size()}
		r.ref = func(q kit.V3) float64 {
			d, _ := kit.MeshDist(tris, q)
			if math.Abs(kit.Winding3(tris, q)) > 0.5 {
				return d
			}
			return -d
		}
		var vs []kit.V3
		for _, t := range tris {
			vs = append(vs, t[0], t[1], t[2])
		}
		r.wit = extremeVerts(vs)
		return r
	}
	return src3{sdf: p, col: p, ref: func(q kit.V3) float64 { return s.RefSDF(q).SDF }, wit: witnesses3(s), size: s.Size()}
}

func genSrc3(g *G, n *node, lab string) {
	// S3[0] primitive, I[0] source kind, I[1] mesh detail, X3 distance transform
	n.S3 = []gen.Shape3{gen.Shape3Gen(g.t, gen.AllKinds3, 0.8, math.Min(g.aspect, 30), lab+".prim")}
	kind := rapid.IntRange(0, 2).Draw(g.t, lab+".src")
	n.I = []int{kind, rapid.IntRange(0, 3).Draw(g.t, lab+".detail")}
	if kind == 1 {
		x := gen.Xform3Gen(g.t, true, lab+".x")
		n.X3 = &x
	}
}

func init() {
	// ---- primitives ------------------------------------------------------
	reg(&family{name: "prim3", dim: 3, group: "primitives", leaf: true,
		gen: func(g *G, depth int, lab string) *node {
			s := gen.Shape3Gen(g.t, gen.AllKinds3, 0.8, g.aspect, lab+".prim")
			if (s.Kind == "cylinder" || s.Kind == "cone") && rapid.IntRange(0, 3).Draw(g.t, lab+".nearlyaligned") == 0 {
				// an axis that is almost, but not exactly, parallel to a coordinate axis (a tiny levelling rotation):
				// the rim still rises by radius * tilt above the centre of the cap
				k := rapid.IntRange(0, 2).Draw(g.t, lab+".axis")
				tilt := gen.LogF(g.t, 1e-10, 1e-4, lab+".tilt")
				var d kit.V3
				d[k] = 1
				d[(k+1)%3] = tilt
				d[(k+2)%3] = -0.4 * tilt
				s.B = s.A.Add(d.Scale(s.A.Dist(s.B)))
				s.R *= gen.LogF(g.t, 1, 300, lab+".wide")
			}
			return &node{Op: "prim3", S3: []gen.Shape3{s}}
		},
		build: func(b *built) {
			s := b.n.S3[0]
			b.set3(s.Build())
			b.under = func(p kit.V3) bool { return s.RefSDF(p).SDF >= 0 }
			b.sure = func(p kit.V3, m float64) int { return sureFromDist(s.RefSDF(p).SDF, m) }
			b.addWit(witnesses3(s)...)
			b.pscale = s.Size()
			// the closed forms agree with the library to ~1e-15 of the coordinates, so the
			// margin can be tighter than for composite nodes: this is what resolves a box
			// that is too tight by 1e-8 of a radius
			b.mrel = 1e-10
		}})

	// ---- boolean combinators ---------------------------------------------
	for _, op := range []string{"join3", "intersect3", "subtract3", "joinopt3", "mux3"} {
		op := op
		reg(&family{name: op, dim: 3, group: "combinators",
			gen: func(g *G, depth int, lab string) *node {
				if op == "subtract3" {
					return &node{Op: op, Kids: g.kids(3, depth, 2, 2, lab)}
				}
				return &node{Op: op, Kids: g.kids(3, depth, 1, 3, lab)}
			},
			build: func(b *built) {
				var ss []model3d.Solid
				for _, k := range b.kids {
					ss = append(ss, k.s3)
				}
				ks := b.kids
				switch op {
				case "join3":
					b.set3(model3d.JoinedSolid(ss))
				case "joinopt3":
					b.set3(model3d.JoinedSolid(ss).Optimize())
				case "mux3":
					b.set3(model3d.NewSolidMux(ss))
				case "intersect3":
					b.set3(model3d.IntersectedSolid(ss))
				case "subtract3":
					b.set3(&model3d.SubtractedSolid{Positive: ss[0], Negative: ss[1]})
				}
				b.under = func(p kit.V3) bool {
					switch op {
					case "intersect3":
						for _, k := range ks {
							if !k.contains(p) {
								return false
							}
						}
						return true
					case "subtract3":
						return ks[0].contains(p) && !ks[1].contains(p)
					}
					for _, k := range ks {
						if k.contains(p) {
							return true
						}
					}
					return false
				}
				kidsWit(b)
			}})
	}

	// ---- stacking: I[0] 0 = StackSolids(), 1 = StackedSolid{} ---------------
	reg(&family{name: "stack3", dim: 3, group: "combinators",
		gen: func(g *G, depth int, lab string) *node {
			return &node{Op: "stack3", Kids: g.kids(3, depth, 1, 3, lab), I: []int{rapid.IntRange(0, 1).Draw(g.t, lab+".api")}}
		},
		build: func(b *built) {
			var ss []model3d.Solid
			for _, k := range b.kids {
				ss = append(ss, k.s3)
			}
			if b.n.I[0] == 0 {
				b.set3(model3d.StackSolids(ss...))
			} else {
				b.set3(model3d.StackedSolid(ss))
			}
			// documented: each solid after the first is moved so that the bottom of its box
			// meets the top of the previous (moved) solid's box
			offs := make([]float64, len(b.kids))
			_, mx0 := b.kids[0].bounds()
			top := mx0[2]
			for i := 1; i < len(b.kids); i++ {
				mn, mx := b.kids[i].bounds()
				offs[i] = top - mn[2]
				top = mx[2] + offs[i]
			}
			ks := b.kids
			b.under = func(p kit.V3) bool {
				for i, k := range ks {
					if k.contains(kit.V3{p[0], p[1], p[2] - offs[i]}) {
						return true
					}
				}
				return false
			}
			// "Inside by a margin" must hold for ONE operand: the star test on the union would accept a point
			// on the seam plane between two stacked operands (one arm of the star in the lower solid, the other
			// in the upper one, the point itself exactly on the upper solid's closed bottom face), which is
			// inside the union mathematically but within an ulp of both operands' boundaries — there the
			// translated box (min + delta <= p) and the translated point (min <= p - delta) may round
			// differently, which is below this check's stated resolution, not a cut.
			b.sure = func(p kit.V3, m float64) int {
				for i, k := range ks {
					q := kit.V3{p[0], p[1], p[2] - offs[i]}
					in := k.contains(q)
					for a := 0; a < 3 && in; a++ {
						for _, s := range []float64{-m, m} {
							r := q
							r[a] += s
							if !k.contains(r) {
								in = false
								break
							}
						}
					}
					if in {
						return 1
					}
				}
				return 0
			}
			for i, k := range b.kids {
				for _, w := range k.wit {
					b.addWit(kit.V3{w[0], w[1], w[2] + offs[i]})
				}
			}
		}})

	// ---- smooth joins: S3 operands, F[0] radius, I[0] 0 = SmoothJoin, 1 = V2 ----
	reg(&family{name: "smooth3", dim: 3, group: "combinators", leaf: true,
		gen: func(g *G, depth int, lab string) *node {
			n := &node{Op: "smooth3", I: []int{rapid.IntRange(0, 1).Draw(g.t, lab+".v2")}}
			k := rapid.IntRange(1, 4).Draw(g.t, lab+".n")
			for i := 0; i < k; i++ {
				n.S3 = append(n.S3, gen.Shape3Gen(g.t, gen.AllKinds3, 0.8, math.Min(g.aspect, 30), fmt.Sprintf("%s.s%d", lab, i)))
			}
			r := 0.0
			if rapid.IntRange(0, 5).Draw(g.t, lab+".r0") != 0 {
				r = gen.LogF(g.t, 0.01, 0.6, lab+".r")
			}
			n.F = []float64{r}
			if k > 1 && rapid.Bool().Draw(g.t, lab+".align") {
				// operands that end at (nearly) the same height next to each other: the only
				// configuration in which the smoothed seam sticks out of the union of the boxes
				a := rapid.IntRange(0, 2).Draw(g.t, lab+".alignaxis")
				side := float64(2*rapid.IntRange(0, 1).Draw(g.t, lab+".alignside") - 1)
				var e kit.V3
				e[a] = side
				top := func(s gen.Shape3) float64 {
					m := math.Inf(-1)
					for _, p := range support3(s, e) {
						m = math.Max(m, side*p[a])
					}
					return m
				}
				for i := 1; i < k; i++ {
					d := n.S3[0].Centre().Sub(n.S3[i].Centre())
					lat := gen.Vec3(g.t, 0.6*(n.S3[0].Size()+n.S3[i].Size()), fmt.Sprintf("%s.lat%d", lab, i))
					d = d.Add(lat)
					d[a] = side * (top(n.S3[0]) - top(n.S3[i]) + r*gen.F(g.t, -0.3, 0.1, fmt.Sprintf("%s.dh%d", lab, i)))
					n.S3[i].A = n.S3[i].A.Add(d)
					if n.S3[i].Kind != "torus" && n.S3[i].Kind != "sphere" {
						n.S3[i].B = n.S3[i].B.Add(d)
					}
				}
			}
			return n
		},
		build: func(b *built) {
			radius := b.n.F[0]
			for i := range b.n.S3 {
				for j := i + 1; j < len(b.n.S3); j++ {
					for _, d := range axisDirs3 {
						for _, p := range support3(b.n.S3[i], d) {
							for _, q := range support3(b.n.S3[j], d) {
								for _, f := range []float64{0.03, 0.1, 0.2, 0.28} {
									b.addWit(p.Mid(q).Add(d.Scale(f * radius)))
								}
							}
						}
					}
				}
			}
			var sdfs []model3d.SDF
			var nsdfs []model3d.NormalSDF
			for _, s := range b.n.S3 {
				p := s.Build()
				sdfs = append(sdfs, p)
				nsdfs = append(nsdfs, p)
				b.addWit(witnesses3(s)...)
				b.pscale = math.Max(b.pscale, s.Size()+s.Centre().MaxAbs())
			}
			v2 := b.n.I[0] == 1
			if v2 {
				b.set3(model3d.SmoothJoinV2(radius, nsdfs...))
			} else {
				b.set3(model3d.SmoothJoin(radius, sdfs...))
			}
			// definition (library doc + C04): union of the operands, plus the points whose two
			// largest signed distances d1 >= d2 satisfy max(0,d1+r)^2 + max(0,d2+r)^2 > r^2,
			// with r = radius (V1) or radius*sin(angle between the two normals) (V2)
			b.under = func(p kit.V3) bool {
				best := [2]float64{math.Inf(-1), math.Inf(-1)}
				var bn [2]model3d.Coord3D
				for i := range sdfs {
					var d float64
					var nrm model3d.Coord3D
					if v2 {
						nrm, d = nsdfs[i].NormalSDF(m3.C3(p))
					} else {
						d = sdfs[i].SDF(m3.C3(p))
					}
					if d > 0 {
						return true
					}
					if d >= best[0] {
						best[1], bn[1] = best[0], bn[0]
						best[0], bn[0] = d, nrm
					} else if d > best[1] {
						best[1], bn[1] = d, nrm
					}
				}
				r := radius
				if v2 {
					c := math.Abs(bn[0].Dot(bn[1]))
					r = radius * math.Sqrt(1-c*c)
				}
				d1, d2 := math.Max(0, best[0]+r), math.Max(0, best[1]+r)
				return d1*d1+d2*d2 > r*r
			}
		}})

	// ---- SDFToSolid: source (genSrc3), I[2] outset mode (0 zero, 1 positive, 2 negative), F[0] value / fraction
	reg(&family{name: "sdf3", dim: 3, group: "derived", leaf: true,
		gen: func(g *G, depth int, lab string) *node {
			n := &node{Op: "sdf3"}
			genSrc3(g, n, lab)
			mode := rapid.IntRange(0, 4).Draw(g.t, lab+".mode")
			switch {
			case mode == 0:
				n.I = append(n.I, 0)
				n.F = []float64{0}
			case mode <= 2:
				n.I = append(n.I, 1)
				n.F = []float64{gen.LogF(g.t, 1e-3, 0.7, lab+".outset")}
			default:
				n.I = append(n.I, 2)
				n.F = []float64{gen.F(g.t, 0.01, 0.9, lab+".inset")}
			}
			return n
		},
		build: func(b *built) {
			var x *gen.Xform3 = b.n.X3
			src := makeSrc3(b.n.S3[0], b.n.I[0], x, b.n.I[1])
			outset := b.n.F[0]
			if b.n.I[2] == 2 {
				// admissible negative outset: the reported box min-outset .. max+outset must stay
				// valid (FuncSolid panics otherwise, by its documented contract)
				mn, mx := m3.V3(src.sdf.Min()), m3.V3(src.sdf.Max())
				h := math.Inf(1)
				for a := 0; a < 3; a++ {
					h = math.Min(h, (mx[a]-mn[a])/2)
				}
				outset = -b.n.F[0] * h
			}
			b.set3(model3d.SDFToSolid(src.sdf, outset))
			b.under = func(p kit.V3) bool { return src.sdf.SDF(m3.C3(p)) > -outset }
			b.addWit(src.wit...)
			// points at the outset distance beyond the support points
			c := src.wit[0]
			for _, w := range src.wit[1:] {
				if d := w.Sub(c); d.Norm() > 0 {
					b.addWit(w.Add(d.Unit().Scale(outset)))
				}
			}
			for _, d := range axisDirs3 {
				for _, w := range src.wit {
					b.addWit(w.Add(d.Scale(outset)))
				}
			}
			b.pscale = src.size + math.Abs(outset)
		}})

	// ---- TransformSolid: X3, kid, I[0] 1 = use the named helper when there is one ----
	reg(&family{name: "xform3", dim: 3, group: "transformed",
		gen: func(g *G, depth int, lab string) *node {
			x := gen.Xform3Gen(g.t, false, lab+".x")
			return &node{Op: "xform3", X3: &x, Kids: g.kids(3, depth, 1, 1, lab), I: []int{rapid.IntRange(0, 1).Draw(g.t, lab+".helper")}}
		},
		build: func(b *built) {
			x := *b.n.X3
			t := x.Build()
			k := b.kids[0]
			helper := b.n.I[0] == 1
			switch {
			case helper && x.Kind == "translate":
				b.set3(model3d.TranslateSolid(k.s3, m3.C3(x.V)))
			case helper && x.Kind == "scale":
				b.set3(model3d.ScaleSolid(k.s3, x.S))
			case helper && x.Kind == "vecscale":
				b.set3(model3d.VecScaleSolid(k.s3, m3.C3(x.V)))
			case helper && x.Kind == "rotation":
				b.set3(model3d.RotateSolid(k.s3, m3.C3(x.V), x.S))
			default:
				// the caller's own transform object, reused afterwards for the next copy of a layout: the solid that
				// was built keeps the box AND the membership it was built with
				mine := x.Build()
				b.set3(model3d.TransformSolid(mine, k.s3))
				if tr, ok := mine.(*model3d.Translate); ok {
					tr.Offset = tr.Offset.Add(model3d.XYZ(7.5, -3.25, 5))
				}
			}
			// definition: p is inside iff the pre-image of p is inside the wrapped solid.  The
			// pre-image is taken with the library's own inverse transform object (a part,
			// verified by C05), so that the comparison isolates the box.
			inv := t.Inverse()
			b.under = func(p kit.V3) bool { return k.contains(m3.V3(inv.Apply(m3.C3(p)))) }
			for _, w := range k.wit {
				b.addWit(m3.V3(t.Apply(m3.C3(w))))
			}
			// images of the wrapped solid's box corners
			mn, mx := k.bounds()
			for i := 0; i < 8; i++ {
				c := mn
				for a := 0; a < 3; a++ {
					if i>>uint(a)&1 == 1 {
						c[a] = mx[a]
					}
				}
				b.addWit(m3.V3(t.Apply(m3.C3(c))))
			}
		}})

	// ---- ProfileSolid: 2D kid, F = minZ, maxZ ------------------------------
	reg(&family{name: "profile3", dim: 3, group: "transformed",
		gen: func(g *G, depth int, lab string) *node {
			z0 := gen.F(g.t, -2, 2, lab+".z0")
			z1 := z0 + gen.LogF(g.t, 1e-3, 3, lab+".dz")
			if rapid.IntRange(0, 9).Draw(g.t, lab+".flat") == 0 {
				z1 = z0
			}
			return &node{Op: "profile3", Kids: g.kids(2, depth, 1, 1, lab), F: []float64{z0, z1}}
		},
		build: func(b *built) {
			k := b.kids[0]
			z0, z1 := b.n.F[0], b.n.F[1]
			b.set3(model3d.ProfileSolid(k.s2, z0, z1))
			b.under = func(p kit.V3) bool { return p[2] >= z0 && p[2] <= z1 && k.contains(kit.V3{p[0], p[1], 0}) }
			for _, w := range k.wit {
				b.addWit(kit.V3{w[0], w[1], z0}, kit.V3{w[0], w[1], z1}, kit.V3{w[0], w[1], (z0 + z1) / 2})
			}
			b.pscale = math.Abs(z0) + math.Abs(z1)
		}})

	// ---- RevolveSolid: 2D kid (moved to one side of the axis, as documented), P[0] axis,
	//      I[0] 0 = positive side, 1 = negative side (documented: "empty on one side")
	reg(&family{name: "revolve3", dim: 3, group: "transformed",
		gen: func(g *G, depth int, lab string) *node {
			ax := gen.Dir3(g.t, lab+".axis").Scale(gen.LogF(g.t, 0.2, 5, lab+".axlen"))
			side := 0
			if rapid.IntRange(0, 5).Draw(g.t, lab+".neg") == 0 {
				side = 1
			}
			return &node{Op: "revolve3", Kids: g.kids(2, depth, 1, 1, lab), P: []kit.V3{ax}, I: []int{side},
				F: []float64{gen.LogF(g.t, 1e-3, 1, lab+".gap")}}
		},
		build: func(b *built) {
			k := b.kids[0]
			mn, mx := k.bounds()
			if mn[1] == mx[1] {
				// known finding revolve-flat-profile: RevolveSolid panics for a profile whose box has no height
				avoid("revolve-flat-profile")
			}
			// move the profile so that it lies on one side of the axis of revolution
			var shift float64
			if b.n.I[0] == 0 {
				if mn[0] < 0 {
					shift = -mn[0] + b.n.F[0]
				}
			} else {
				shift = -mx[0] - b.n.F[0]
			}
			prof := k.s2
			if shift != 0 {
				prof = model2d.TranslateSolid(k.s2, model2d.XY(shift, 0))
			}
			axis := b.n.P[0]
			b.set3(model3d.RevolveSolid(prof, m3.C3(axis)))
			u := axis.Unit()
			// definition: the profile evaluated at (distance from the axis, position along it),
			// computed with the library's vector operations (bit-identical to the wrapper, see ramp3)
			lu := m3.C3(axis).Normalize()
			b.under = func(p kit.V3) bool {
				c := m3.C3(p)
				return prof.Contains(model2d.XY(c.ProjectOut(lu).Norm(), lu.Dot(c)))
			}
			e1, e2 := orthoPair(u)
			for _, w := range k.wit {
				rho, t := w[0]+shift, w[1]
				base := u.Scale(t)
				b.addWit(base.Add(e1.Scale(rho)), base.Add(e2.Scale(rho)), base.Sub(e1.Scale(rho)))
				for _, d := range axisDirs3 {
					if e := unitOrZero(d.Sub(u.Scale(d.Dot(u)))); e.Norm() > 0 {
						b.addWit(base.Add(e.Scale(rho)))
					}
				}
			}
			b.pscale = math.Abs(shift)
		}})

	// ---- collider solids: source (genSrc3), I[2] mode (0 plain, 1 inset, 2 hollow), F[0] value
	reg(&family{name: "collider3", dim: 3, group: "derived", leaf: true,
		gen: func(g *G, depth int, lab string) *node {
			n := &node{Op: "collider3"}
			genSrc3(g, n, lab)
			mode := rapid.IntRange(0, 2).Draw(g.t, lab+".mode")
			n.I = append(n.I, mode)
			v := gen.LogF(g.t, 1e-3, 0.5, lab+".v")
			if mode == 1 && rapid.Bool().Draw(g.t, lab+".outset") {
				v = -v
			}
			n.F = []float64{v}
			return n
		},
		build: func(b *built) {
			src := makeSrc3(b.n.S3[0], b.n.I[0], b.n.X3, b.n.I[1])
			v := b.n.F[0]
			switch b.n.I[2] {
			case 0:
				b.set3(model3d.NewColliderSolid(src.col))
				b.sure = func(p kit.V3, m float64) int { return sureFromDist(src.ref(p), m) }
			case 1:
				b.set3(model3d.NewColliderSolidInset(src.col, v))
				// inside and farther than v from the surface (v < 0: or within |v| outside it)
				b.sure = func(p kit.V3, m float64) int { return sureFromDist(src.ref(p)-v, m) }
			default:
				b.set3(model3d.NewColliderSolidHollow(src.col, v))
				b.sure = func(p kit.V3, m float64) int { return sureFromDist(v-math.Abs(src.ref(p)), m) }
			}
			sure := b.sure
			b.under = func(p kit.V3) bool { return sure(p, 0) >= 0 }
			b.addWit(src.wit...)
			if b.n.I[2] != 0 {
				for _, d := range axisDirs3 {
					for _, w := range src.wit {
						b.addWit(w.Add(d.Scale(math.Abs(v))), w.Add(d.Scale(-math.Abs(v))))
					}
				}
			}
			b.pscale = src.size + math.Abs(v)
			// ray parity and sphere collision agree with the exact distance to ~1e-12 of the size
			b.mrel = 1e-8
		}})

	// ---- MetaballSolid: Balls, F[0] radius threshold, I[0] falloff, F[1] falloff parameter
	reg(&family{name: "metaball3", dim: 3, group: "derived", leaf: true,
		gen: func(g *G, depth int, lab string) *node {
			n := &node{Op: "metaball3", I: []int{rapid.IntRange(0, 3).Draw(g.t, lab+".falloff")},
				F: []float64{gen.LogF(g.t, 0.02, 1, lab+".thr"), gen.LogF(g.t, 1, 20, lab+".k")}}
			k := rapid.IntRange(1, 4).Draw(g.t, lab+".n")
			for i := 0; i < k; i++ {
				l := fmt.Sprintf("%s.b%d", lab, i)
				s := gen.Shape3Gen(g.t, gen.AllKinds3, 0.6, math.Min(g.aspect, 30), l+".prim")
				bl := ball{S3: &s, Wrap: rapid.IntRange(0, 3).Draw(g.t, l+".wrap")}
				switch bl.Wrap {
				case 1:
					x := gen.Xform3Gen(g.t, true, l+".x")
					bl.X3 = &x
				case 2:
					bl.V = kit.V3{gen.LogF(g.t, 0.2, 5, l+".sx"), gen.LogF(g.t, 0.2, 5, l+".sy"), gen.LogF(g.t, 0.2, 5, l+".sz")}
					for a := 0; a < 3; a++ {
						if rapid.IntRange(0, 3).Draw(g.t, l+".neg") == 0 {
							bl.V[a] = -bl.V[a]
						}
					}
				}
				n.Balls = append(n.Balls, bl)
			}
			return n
		},
		build: func(b *built) {
			f, fn := falloff(b.n.I[0], b.n.F[1])
			thr := b.n.F[0]
			var ms []model3d.Metaball
			for _, bl := range b.n.Balls {
				p := bl.S3.Build()
				var m model3d.Metaball = p.(model3d.Metaball)
				wit := witnesses3(*bl.S3)
				switch bl.Wrap {
				case 1:
					m = model3d.TransformMetaball(bl.X3.Build().(model3d.DistTransform), p.(model3d.Metaball))
					for i := range wit {
						wit[i] = bl.X3.RefApply(wit[i])
					}
				case 2:
					m = model3d.VecScaleMetaball(p.(model3d.Metaball), m3.C3(bl.V))
					for i := range wit {
						wit[i] = kit.V3{wit[i][0] * bl.V[0], wit[i][1] * bl.V[1], wit[i][2] * bl.V[2]}
					}
				case 3:
					m = model3d.SDFToMetaball(p)
				}
				ms = append(ms, m)
				b.addWit(wit...)
				for _, w := range wit {
					b.pscale = math.Max(b.pscale, w.MaxAbs())
					for _, d := range axisDirs3 {
						b.addWit(w.Add(d.Scale(thr)), w.Add(d.Scale(thr*math.Sqrt(math.Sqrt(float64(len(b.n.Balls)))))))
					}
				}
			}
			if fn == nil {
				b.set3(model3d.MetaballSolid(nil, thr, ms...))
			} else {
				b.set3(model3d.MetaballSolid(fn, thr, ms...))
			}
			// definition: sum_i f(field_i(p)) > f(threshold), fields taken from the metaball parts
			ft := f(thr)
			b.under = func(p kit.V3) bool {
				var sum float64
				for _, m := range ms {
					sum += f(m.MetaballField(m3.C3(p)))
				}
				return sum > ft
			}
			b.pscale += thr
		}})

	// ---- polytopes: P normals, F offsets (n.p <= F) --------------------------
	reg(&family{name: "polytope3", dim: 3, group: "derived", leaf: true,
		gen: func(g *G, depth int, lab string) *node {
			n := &node{Op: "polytope3", I: []int{rapid.IntRange(0, 1).Draw(g.t, lab+".rectctor")}}
			c := gen.Vec3(g.t, 1.5, lab+".c")
			h := kit.V3{gen.LogF(g.t, 0.05, 1, lab+".hx"), gen.LogF(g.t, 0.05, 1, lab+".hy"), gen.LogF(g.t, 0.05, 1, lab+".hz")}
			for a := 0; a < 3; a++ {
				for _, s := range []float64{1, -1} {
					var nrm kit.V3
					nrm[a] = s
					n.P = append(n.P, nrm)
					n.F = append(n.F, s*c[a]+h[a])
				}
			}
			k := rapid.IntRange(0, 5).Draw(g.t, lab+".extra")
			for i := 0; i < k; i++ {
				l := fmt.Sprintf("%s.c%d", lab, i)
				nrm := gen.Dir3(g.t, l+".n").Scale(gen.LogF(g.t, 0.1, 10, l+".len"))
				d := gen.F(g.t, 0.05, 1, l+".d") * h.Norm()
				if rapid.IntRange(0, 2).Draw(g.t, l+".corner") == 0 {
					// a plane through a corner of the box: four or more planes meet in one vertex
					// (pyramids, octahedra...), the case the library's vertex tolerance exists for
					var corner kit.V3
					for a := 0; a < 3; a++ {
						corner[a] = c[a] + h[a]*float64(2*rapid.IntRange(0, 1).Draw(g.t, l+".cs")-1)
					}
					if nrm.Dot(corner.Sub(c)) < 0 {
						nrm = nrm.Scale(-1)
					}
					n.P = append(n.P, nrm)
					n.F = append(n.F, nrm.Dot(corner))
					continue
				}
				n.P = append(n.P, nrm)
				n.F = append(n.F, nrm.Dot(c)+d*nrm.Norm())
			}
			// the same half-spaces written with normals of very different lengths (normal and bound scaled
			// together by 10^I[1+i] when the library object is built): the polytope is unchanged, and the
			// library's tolerances are documented to scale with the normals
			if rapid.IntRange(0, 2).Draw(g.t, lab+".rescale") == 0 {
				common := rapid.Bool().Draw(g.t, lab+".rescale.common")
				e := rapid.IntRange(-6, 8).Draw(g.t, lab+".rescale.exp")
				for i := range n.P {
					if !common {
						e = rapid.IntRange(-6, 8).Draw(g.t, fmt.Sprintf("%s.rescale.e%d", lab, i))
					}
					n.I = append(n.I, e)
				}
			}
			return n
		},
		build: func(b *built) {
			var poly model3d.ConvexPolytope
			if b.n.I[0] == 1 {
				mn := kit.V3{-b.n.F[1], -b.n.F[3], -b.n.F[5]}
				mx := kit.V3{b.n.F[0], b.n.F[2], b.n.F[4]}
				poly = model3d.NewConvexPolytopeRect(m3.C3(mn), m3.C3(mx))
				for i := 6; i < len(b.n.P); i++ {
					f := polyRescale(b.n, i)
					poly = append(poly, &model3d.LinearConstraint{Normal: m3.C3(b.n.P[i].Scale(f)), Max: b.n.F[i] * f})
				}
			} else {
				for i := range b.n.P {
					f := polyRescale(b.n, i)
					poly = append(poly, &model3d.LinearConstraint{Normal: m3.C3(b.n.P[i].Scale(f)), Max: b.n.F[i] * f})
				}
			}
			b.set3(poly.Solid())
			ns, fs := b.n.P, b.n.F
			slack := func(p kit.V3) float64 {
				s := math.Inf(1)
				for i := range ns {
					s = math.Min(s, (fs[i]-ns[i].Dot(p))/ns[i].Norm())
				}
				return s
			}
			b.under = func(p kit.V3) bool { return slack(p) >= 0 }
			b.sure = func(p kit.V3, m float64) int { return sureFromDist(slack(p), m) }
			mn := kit.V3{-fs[1], -fs[3], -fs[5]}
			mx := kit.V3{fs[0], fs[2], fs[4]}
			for i := 0; i < 8; i++ {
				c := mn
				for a := 0; a < 3; a++ {
					if i>>uint(a)&1 == 1 {
						c[a] = mx[a]
					}
				}
				b.addWit(c)
			}
			b.addWit(mn.Mid(mx))
			b.pscale = mx.Sub(mn).Norm() + mn.MaxAbs()
		}})

	// ---- explicit bounds wrappers: kid, I[0] 0 ForceSolidBounds, 1 CacheSolidBounds,
	//      2 CheckedFuncSolid; F = per-axis lo/hi fractions of the kid's box
	reg(&family{name: "force3", dim: 3, group: "combinators",
		gen: func(g *G, depth int, lab string) *node {
			n := &node{Op: "force3", Kids: g.kids(3, depth, 1, 1, lab), I: []int{rapid.IntRange(0, 2).Draw(g.t, lab+".api")}}
			for a := 0; a < 3; a++ {
				lo := gen.F(g.t, -0.4, 0.9, fmt.Sprintf("%s.lo%d", lab, a))
				n.F = append(n.F, lo, lo+gen.F(g.t, 0, 1.2, fmt.Sprintf("%s.w%d", lab, a)))
			}
			return n
		},
		build: func(b *built) {
			k := b.kids[0]
			kmn, kmx := k.bounds()
			var mn, mx kit.V3
			for a := 0; a < 3; a++ {
				mn[a] = kmn[a] + b.n.F[2*a]*(kmx[a]-kmn[a])
				mx[a] = kmn[a] + b.n.F[2*a+1]*(kmx[a]-kmn[a])
				if !(mn[a] <= mx[a]) {
					mn[a], mx[a] = kmn[a], kmx[a]
				}
			}
			switch b.n.I[0] {
			case 0:
				b.set3(model3d.ForceSolidBounds(k.s3, m3.C3(mn), m3.C3(mx)))
			case 1:
				b.set3(model3d.CacheSolidBounds(k.s3))
				mn, mx = kmn, kmx
			default:
				b.set3(model3d.CheckedFuncSolid(m3.C3(mn), m3.C3(mx), k.s3.Contains))
			}
			// documented: "points outside of these bounds will be removed, otherwise s is preserved"
			b.under = func(p kit.V3) bool {
				for a := 0; a < 3; a++ {
					if p[a] < mn[a] || p[a] > mx[a] {
						return false
					}
				}
				return k.contains(p)
			}
			kidsWit(b)
		}})

	// ---- Ramp: kid, P[0], P[1] positions of the tip and the base as fractions of the
	//      kid's box (every caller puts the axis inside the wrapped solid's box)
	reg(&family{name: "ramp3", dim: 3, group: "toolbox",
		gen: func(g *G, depth int, lab string) *node {
			n := &node{Op: "ramp3", Kids: g.kids(3, depth, 1, 1, lab)}
			for i := 0; i < 2; i++ {
				var f kit.V3
				for a := 0; a < 3; a++ {
					switch rapid.IntRange(0, 5).Draw(g.t, fmt.Sprintf("%s.snap%d%d", lab, i, a)) {
					case 0:
						f[a] = 0
					case 1:
						f[a] = 1
					case 2:
						f[a] = 0.5
					default:
						f[a] = gen.F(g.t, 0, 1, fmt.Sprintf("%s.f%d%d", lab, i, a))
					}
				}
				n.P = append(n.P, f)
			}
			if n.P[0] == n.P[1] {
				n.P[1] = kit.V3{1 - n.P[0][0], 0.25, 0.75}
			}
			return n
		},
		build: func(b *built) {
			k := b.kids[0]
			mn, mx := k.bounds()
			at := func(f kit.V3) kit.V3 {
				return kit.V3{mn[0] + f[0]*(mx[0]-mn[0]), mn[1] + f[1]*(mx[1]-mn[1]), mn[2] + f[2]*(mx[2]-mn[2])}
			}
			p1, p2 := at(b.n.P[0]), at(b.n.P[1])
			if p1 == p2 { // degenerate box: there is no axis inside it; use the plain clamp-free solid
				b.set3(model3d.CacheSolidBounds(k.s3))
				b.under = k.contains
				kidsWit(b)
				return
			}
			b.set3(&toolbox3d.Ramp{Solid: k.s3, P1: m3.C3(p1), P2: m3.C3(p2)})
			// documented: scale grows from 0 at P1 to 1 at P2 along the axis (and stays 1 beyond
			// P2, nothing beyond P1); the cross-section at scale s is the wrapped solid's
			// cross-section shrunk by s about the axis.  The point handed to the wrapped solid is
			// computed with the library's vector operations in the documented order, so that it is
			// bit-identical to the wrapper's: some wrapped solids (SmoothJoinV2 next to an edge
			// of an operand, where the reported normal is decided by rounding) change their
			// answer between points that are 1e-16 apart.
			lp1, lp2 := m3.C3(p1), m3.C3(p2)
			b.under = func(p kit.V3) bool {
				axis := lp2.Sub(lp1)
				v := m3.C3(p).Sub(lp1)
				s := axis.Dot(v)
				if s < 0 {
					return false
				}
				norm := axis.Norm()
				s /= norm * norm
				if s >= 1 {
					return k.contains(p)
				}
				q := m3.V3(v.Sub(axis.Scale(s)).Scale(1 / s).Add(axis.Scale(s)).Add(lp1))
				return q.Finite() && k.contains(q)
			}
			kidsWit(b)
			b.addWit(p1, p2, p1.Mid(p2))
			for _, w := range k.wit {
				b.addWit(w.Mid(p1.Mid(p2)))
			}
		}})

	// ---- ClampAxis*: kid, I[0] variant (0 ClampAxis, 1 ClampAxisMin, 2 ClampAxisMax,
	//      3 named helper Clamp{X,Y,Z}{Min,Max}), I[1] axis, I[2] side for the helper,
	//      F[0], F[1] limits as fractions of the kid's extent (may over-constrain)
	reg(&family{name: "clamp3", dim: 3, group: "toolbox",
		gen: func(g *G, depth int, lab string) *node {
			return &node{Op: "clamp3", Kids: g.kids(3, depth, 1, 1, lab),
				I: []int{rapid.IntRange(0, 3).Draw(g.t, lab+".api"), rapid.IntRange(0, 2).Draw(g.t, lab+".axis"), rapid.IntRange(0, 1).Draw(g.t, lab+".side"),
					// exact limits: 0 none, 1 lower limit = the kid's own upper bound, 2 upper limit = its lower bound,
					// 3 both limits equal (a slab of no thickness is still a closed range)
					rapid.SampledFrom([]int{0, 0, 0, 1, 2, 3}).Draw(g.t, lab+".exact")},
				F: []float64{gen.F(g.t, -0.3, 1.3, lab+".lo"), gen.F(g.t, -0.3, 1.3, lab+".hi")}}
		},
		build: func(b *built) {
			k := b.kids[0]
			mn, mx := k.bounds()
			ax := b.n.I[1]
			lo := mn[ax] + b.n.F[0]*(mx[ax]-mn[ax])
			hi := mn[ax] + b.n.F[1]*(mx[ax]-mn[ax])
			if len(b.n.I) > 3 {
				switch b.n.I[3] {
				case 1:
					lo, hi = mx[ax], math.Max(hi, mx[ax])
				case 2:
					lo, hi = math.Min(lo, mn[ax]), mn[ax]
				case 3:
					hi = lo
				}
			}
			switch b.n.I[0] {
			case 0:
				b.set3(toolbox3d.ClampAxis(k.s3, toolbox3d.Axis(ax), lo, hi))
			case 1:
				hi = math.Inf(1)
				b.set3(toolbox3d.ClampAxisMin(k.s3, toolbox3d.Axis(ax), lo))
			case 2:
				lo = math.Inf(-1)
				b.set3(toolbox3d.ClampAxisMax(k.s3, toolbox3d.Axis(ax), hi))
			default:
				if b.n.I[2] == 0 {
					hi = math.Inf(1)
					f := []func(model3d.Solid, float64) model3d.Solid{toolbox3d.ClampXMin, toolbox3d.ClampYMin, toolbox3d.ClampZMin}[ax]
					b.set3(f(k.s3, lo))
				} else {
					lo = math.Inf(-1)
					f := []func(model3d.Solid, float64) model3d.Solid{toolbox3d.ClampXMax, toolbox3d.ClampYMax, toolbox3d.ClampZMax}[ax]
					b.set3(f(k.s3, hi))
				}
			}
			b.under = func(p kit.V3) bool { return p[ax] >= lo && p[ax] <= hi && k.contains(p) }
			// the range is closed and the limits are the very numbers handed to the library: exact along the axis
			// (a slab of no thickness has points, too), with the usual margin only inside the kid
			b.sure = func(p kit.V3, m float64) int {
				if p[ax] >= lo && p[ax] <= hi && sureInside(k, p, m) {
					return 1
				}
				return 0
			}
			kidsWit(b)
			for _, w := range k.wit {
				for _, v := range []float64{lo, hi} {
					if !math.IsInf(v, 0) {
						q := w
						q[ax] = v
						b.addWit(q)
					}
				}
			}
		}})
}

func orthoPair(u kit.V3) (kit.V3, kit.V3) {
	a := kit.V3{1, 0, 0}
	if math.Abs(u[0]) > 0.7 {
		a = kit.V3{0, 1, 0}
	}
	a = a.Sub(u.Scale(a.Dot(u))).Unit()
	return a, u.Cross(a)
}

// falloff returns the harness's copy of the falloff function and the value to hand
// to the library (nil selects the library default, which is the quartic one).
func falloff(kind int, k float64) (func(float64) float64, func(float64) float64) {
	quartic := func(r float64) float64 {
		if r <= 0 {
			return math.Inf(1)
		}
		return 1 / (r * r * r * r)
	}
	switch kind {
	case 0:
		return quartic, nil
	case 1:
		return quartic, model3d.QuarticMetaballFalloffFunc
	case 2:
		f := func(r float64) float64 { return math.Exp(-k * r) }
		return f, f
	}
	f := func(r float64) float64 {
		if r <= 0 {
			return math.Inf(1)
		}
		return 1 / (r * r)
	}
	return f, f
}

// polyRescale: the factor by which constraint i of a polytope node is rescaled (normal and bound together).
func polyRescale(n *node, i int) float64 {
	if 1+i < len(n.I) && n.I[1+i] != 0 {
		return math.Pow(10, float64(n.I[1+i]))
	}
	return 1
}
