package c03

import (
	"fmt"
	"math"
	"math/rand"

	"verifharness/kit"
)

// Probing and the three oracle clauses, shared by every family and dimension.

type prober struct {
	rng    *rand.Rand
	o      *kit.Obs
	inside int // probes reported contained (for the non-triviality rule)
	sureIn int // probes that the underlying definition puts inside by a margin
	evals  int
}

// relative distances outside / inside a box face at which shells are probed
var shellScales = []float64{1e-12, 3e-12, 1e-11, 1e-10, 1e-9, 1e-8, 1e-7, 1e-6, 1e-5, 1e-4, 1e-3, 1e-2, 1e-1, 0.5}

const leakFloor = 1e-12 // a point counts as outside only if it is this far (times the scale) beyond a face

type nodeScale struct {
	mn, mx kit.V3
	diag   float64 // box diagonal
	mag    float64 // largest coordinate magnitude of box and parts
	L      float64 // length scale for shells (max of diag, mag)
	m      float64 // star radius / margin for "inside by a margin"
}

func boxError(b *built) error {
	mn, mx := b.bounds()
	for a := 0; a < b.dim; a++ {
		if math.IsNaN(mn[a]) || math.IsNaN(mx[a]) || math.IsInf(mn[a], 0) || math.IsInf(mx[a], 0) {
			return fmt.Errorf("bounds: non-finite bounds min=%v max=%v", mn, mx)
		}
		if mn[a] > mx[a] {
			return fmt.Errorf("bounds: min > max on axis %d: min=%v max=%v", a, mn, mx)
		}
	}
	return nil
}

func scaleOf(b *built) nodeScale {
	mn, mx := b.bounds()
	s := nodeScale{mn: mn, mx: mx, diag: mx.Sub(mn).Norm()}
	s.mag = math.Max(math.Max(mn.MaxAbs(), mx.MaxAbs()), b.pscale)
	s.L = math.Max(s.diag, s.mag)
	// margin: relative to the box size, but never below 1e-3 of the coordinate magnitude
	// (rounding in the library and in the reference scales with the coordinates)
	s.m = b.mrel * math.Max(s.diag, 1e-3*s.mag)
	return s
}

// outsideBy returns how far p is outside the box (largest per-axis excess; <= 0: inside).
func (s nodeScale) outsideBy(p kit.V3, dim int) float64 {
	e := math.Inf(-1)
	for a := 0; a < dim; a++ {
		e = math.Max(e, math.Max(s.mn[a]-p[a], p[a]-s.mx[a]))
	}
	return e
}

func (pr *prober) uniform(lo, hi float64) float64 { return lo + (hi-lo)*pr.rng.Float64() }

func (pr *prober) pick(xs []float64) float64 { return xs[pr.rng.Intn(len(xs))] }

// sureInside decides "the underlying definition puts p inside by the margin m".
func sureInside(b *built, p kit.V3, m float64) bool {
	if b.sure != nil {
		return b.sure(p, m) == 1
	}
	if !b.under(p) {
		return false
	}
	for a := 0; a < b.dim; a++ {
		for _, s := range []float64{-m, m} {
			q := p
			q[a] += s
			if !b.under(q) {
				return false
			}
		}
	}
	return true
}

// climb maximises sign*p[axis] over {pred} by pattern search from a point where pred
// holds; only pred is consulted.  The end point satisfies pred.
func (pr *prober) climb(pred func(kit.V3) bool, p kit.V3, dim, axis int, sign, step, minStep float64, maxEvals int) kit.V3 {
	evals := 0
	for step > minStep && evals < maxEvals {
		moved := false
		// straight, then diagonals
		cands := make([]kit.V3, 0, 5)
		q := p
		q[axis] += sign * step
		cands = append(cands, q)
		for b := 0; b < dim; b++ {
			if b == axis {
				continue
			}
			for _, t := range []float64{-1, 1} {
				r := p
				r[axis] += sign * step * 0.5
				r[b] += t * step
				cands = append(cands, r)
			}
		}
		for _, c := range cands {
			evals++
			if pred(c) {
				p, moved = c, true
				break
			}
		}
		if !moved {
			step /= 2
		}
	}
	pr.evals += evals
	return p
}

// probes assembles the query points for a node.
func (pr *prober) probes(b *built, s nodeScale, full bool) []kit.V3 {
	dim := b.dim
	var out []kit.V3
	add := func(p kit.V3) {
		if dim == 2 {
			p[2] = 0
		}
		if p.Finite() {
			out = append(out, p)
		}
	}
	ctr := s.mn.Mid(s.mx)
	half := s.mx.Sub(s.mn).Scale(0.5)
	inBoxPoint := func() kit.V3 {
		var p kit.V3
		for a := 0; a < dim; a++ {
			p[a] = pr.uniform(s.mn[a], s.mx[a])
		}
		return p
	}
	// witnesses (subsampled)
	wit := b.wit
	maxWit := 12
	if full {
		maxWit = 40
	}
	if len(wit) > maxWit {
		w2 := make([]kit.V3, 0, maxWit)
		for _, i := range pr.rng.Perm(len(wit))[:maxWit] {
			w2 = append(w2, wit[i])
		}
		wit = w2
	}
	lateral := func() kit.V3 {
		if len(wit) > 0 && pr.rng.Intn(2) == 0 {
			return wit[pr.rng.Intn(len(wit))]
		}
		return inBoxPoint()
	}
	// (a) shells just outside and just inside every face
	perFace := 3
	if full {
		perFace = 8
	}
	for a := 0; a < dim; a++ {
		for _, side := range []float64{-1, 1} {
			face := s.mx[a]
			if side < 0 {
				face = s.mn[a]
			}
			for i := 0; i < perFace; i++ {
				p := lateral()
				d := pr.pick(shellScales) * s.L
				if i%4 == 3 {
					d = -d // just inside
				}
				p[a] = face + side*d
				add(p)
			}
		}
	}
	// (b) corner and edge neighbourhoods
	nc := 4
	if full {
		nc = 16
	}
	for i := 0; i < nc; i++ {
		var p kit.V3
		for a := 0; a < dim; a++ {
			switch pr.rng.Intn(5) {
			case 0:
				p[a] = pr.uniform(s.mn[a], s.mx[a])
			case 1:
				p[a] = s.mn[a] - pr.pick(shellScales)*s.L
			case 2:
				p[a] = s.mx[a] + pr.pick(shellScales)*s.L
			case 3:
				p[a] = s.mn[a] + pr.pick(shellScales)*s.L
			default:
				p[a] = s.mx[a] - pr.pick(shellScales)*s.L
			}
		}
		add(p)
	}
	// (c) far points
	for i := 0; i < 4; i++ {
		var p kit.V3
		for a := 0; a < dim; a++ {
			p[a] = ctr[a] + pr.rng.NormFloat64()*s.L*math.Pow(10, pr.uniform(0, 3))
		}
		add(p)
	}
	// (d) uniform points in the box and in enlarged boxes
	nu := 20
	if full {
		nu = 80
	}
	for i := 0; i < nu; i++ {
		f := []float64{1, 1, 1.2, 2}[i%4]
		var p kit.V3
		for a := 0; a < dim; a++ {
			h := half[a]*f + (f-1)*0.1*s.L
			p[a] = ctr[a] + pr.uniform(-h, h)
		}
		add(p)
	}
	// (e) witnesses: themselves, pulled towards the centre, pushed along the axes
	for _, w := range wit {
		add(w)
		dir := ctr.Sub(w)
		if n := dir.Norm(); n > 0 {
			dir = dir.Scale(1 / n)
			for _, k := range []float64{2, 5, 30, 1e3, 1e6} {
				add(w.Add(dir.Scale(k * s.m)))
			}
		}
		for j := 0; j < 3; j++ {
			p := w
			a := pr.rng.Intn(dim)
			sg := float64(2*pr.rng.Intn(2) - 1)
			p[a] += sg * pr.pick(shellScales) * s.L
			add(p)
		}
		// the witness projected to just beyond each face it is close to
		for a := 0; a < dim; a++ {
			for _, side := range []float64{-1, 1} {
				face := s.mx[a]
				if side < 0 {
					face = s.mn[a]
				}
				if math.Abs(w[a]-face) < 0.05*s.L+1e-300 {
					p := w
					p[a] = face + side*pr.pick(shellScales)*s.L
					add(p)
				}
			}
		}
	}
	if !full {
		return out
	}
	// (f), (g) extreme-point searches along every axis on the reported membership
	// (finds leaks) and on the underlying definition (finds cuts)
	preds := []func(kit.V3) bool{b.contains}
	if b.under != nil {
		preds = append(preds, b.under)
	}
	base := len(out)
	for _, pred := range preds {
		var seeds []kit.V3
		for _, p := range out[:base] {
			if len(seeds) < 6 && pred(p) {
				seeds = append(seeds, p)
			}
		}
		pr.evals += base
		if len(seeds) == 0 {
			continue
		}
		for a := 0; a < dim; a++ {
			for _, side := range []float64{-1, 1} {
				start := seeds[pr.rng.Intn(len(seeds))]
				e := pr.climb(pred, start, dim, a, side, math.Max(s.diag, 1e-3*s.L)/4, 1e-13*s.L, 250)
				add(e)
				for _, k := range []float64{2, 30, 1e4} {
					p := e
					p[a] -= side * k * s.m
					add(p)
				}
				for j := 0; j < 2; j++ {
					p := e
					p[a] += side * pr.pick(shellScales) * s.L
					add(p)
				}
			}
		}
	}
	return out
}

// checkNode applies the three clauses to one node.
func (pr *prober) checkNode(b *built, path string, full bool) error {
	if err := boxError(b); err != nil {
		return fmt.Errorf("%s [%s] %v", path, b.n.Op, err)
	}
	s := scaleOf(b)
	floor := leakFloor * s.L
	for _, p := range pr.probes(b, s, full) {
		pr.evals++
		got := b.contains(p)
		out := s.outsideBy(p, b.dim)
		if got {
			pr.inside++
		}
		// clause 2: no point outside the reported box is contained
		if got && out > floor {
			return fmt.Errorf("%s [%s] leak: Contains(%v) = true but the point is %.3g outside the reported box [%v, %v]", path, b.n.Op, p, out, s.mn, s.mx)
		}
		// clause 3: the box does not cut the underlying definition
		if b.under != nil && sureInside(b, p, s.m) {
			pr.sureIn++
			if out > 0 {
				return fmt.Errorf("%s [%s] cut: the underlying definition puts %v inside (by a margin of %.3g) but it is %.3g outside the reported box [%v, %v]", path, b.n.Op, p, s.m, out, s.mn, s.mx)
			}
			if !got {
				return fmt.Errorf("%s [%s] not-contained: the underlying definition puts %v inside (by a margin of %.3g), it is inside the reported box [%v, %v], but Contains = false", path, b.n.Op, p, s.m, s.mn, s.mx)
			}
		}
	}
	return nil
}

// walk checks the root with the full probe set and every other node with the light one.
func (pr *prober) walk(b *built, path string, root bool) error {
	if err := pr.checkNode(b, path, root); err != nil {
		return err
	}
	for i, k := range b.kids {
		if err := pr.walk(k, fmt.Sprintf("%s.%d", path, i), false); err != nil {
			return err
		}
	}
	return nil
}
