package c03

import (
	"math/rand"
	"testing"

	"pgregory.net/rapid"
	"verifharness/kit"
)

const rule = "random expression trees (depth <= 4, 2D and 3D nodes mixed through ProfileSolid / RevolveSolid / CrossSectionSolid / SliceSolid) over every constructor and combinator family of the statement: primitives in arbitrary orientation with aspect ratios up to 1e3; Joined (+Optimize, SolidMux) / Intersected (incl. disjoint) / Subtracted / StackSolids / StackedSolid; SmoothJoin / V2; SDFToSolid with zero, positive and admissible negative outsets over primitive, transformed and mesh SDFs; TransformSolid and its named helpers with every transform kind (negative per-axis scales, reflections, compositions); ForceSolidBounds / CacheSolidBounds / CheckedFuncSolid; collider solids (plain, inset, outset, hollow) over primitive, transformed and mesh colliders; MetaballSolid over bare, transformed, per-axis-scaled and SDF metaballs with four falloffs; convex polytopes; bitmaps; toolbox parts (screw, teardrop 2D/3D, ramp, clamps, spur/helical gears and their profile, height maps, line joins, L1 joins, triangular polygon/line/ball, radial curves, box sets). The family of the ROOT is drawn per clause group; children are drawn from all families. Every node of the tree is checked (the root with extreme-point searches). Non-trivial: the root is a constructor applied to at least one part (i.e. anything but a bare primitive) or a rotated / anisotropic primitive, and at least one probe point is reported inside. Distinct: hash of the JSON case."

type treeCase struct {
	Root *node  `json:"root"`
	Seed uint64 `json:"seed"` // seeds the probe placement (math/rand) inside Check
}

func genGroup(group string, dims []int) func(t *rapid.T) treeCase {
	return func(t *rapid.T) treeCase {
		g := &G{t: t, aspect: rapid.SampledFrom([]float64{3, 30, 1000}).Draw(t, "aspect")}
		var cands []*family
		for _, f := range families {
			ok := false
			for _, d := range dims {
				ok = ok || f.dim == d
			}
			if f.group == group && ok {
				cands = append(cands, f)
			}
		}
		f := cands[rapid.IntRange(0, len(cands)-1).Draw(t, "rootfam")]
		depth := rapid.IntRange(2, 4).Draw(t, "depth")
		return treeCase{Root: f.gen(g, depth, "r"), Seed: rapid.Uint64().Draw(t, "seed")}
	}
}

func rootAnisotropic(n *node) bool {
	if len(n.S3) == 1 && n.Op == "prim3" {
		s := n.S3[0]
		switch s.Kind {
		case "sphere":
			return false
		case "rect":
			return true
		case "torus":
			return s.B[0]*s.B[1] != 0 || s.B[1]*s.B[2] != 0 || s.B[0]*s.B[2] != 0
		}
		d := s.B.Sub(s.A)
		return d[0]*d[1] != 0 || d[1]*d[2] != 0 || d[0]*d[2] != 0
	}
	if len(n.S2) == 1 && n.Op == "prim2" {
		return n.S2[0].Kind != "circle"
	}
	return false
}

func labelTree(n *node, o *kit.Obs, seen map[string]bool) {
	if !seen[n.Op] {
		seen[n.Op] = true
		o.Label("family:" + n.Op)
	}
	for _, k := range n.Kids {
		labelTree(k, o, seen)
	}
}

func checkTree(c treeCase, o *kit.Obs) (err error) {
	defer func() {
		if r := recover(); r != nil {
			if e, ok := r.(excludedInput); ok {
				o.Skip("known-finding:" + e.tag)
				err = nil
				return
			}
			panic(r)
		}
	}()
	o.Label("root:" + c.Root.Op)
	labelTree(c.Root, o, map[string]bool{})
	d := c.Root.depth()
	o.Labelf("depth:%d", d)
	b := buildNode(c.Root)
	pr := &prober{rng: rand.New(rand.NewSource(int64(c.Seed))), o: o}
	if err := pr.walk(b, "root", true); err != nil {
		return err
	}
	if pr.inside > 0 {
		o.Label("probe-inside")
		if (c.Root.Op != "prim3" && c.Root.Op != "prim2") || rootAnisotropic(c.Root) {
			o.NonTrivial()
		}
	} else {
		o.Label("no-probe-inside")
	}
	if pr.sureIn > 0 {
		o.Label("underlying-inside")
	}
	return nil
}

func TestProp(t *testing.T) {
	both := []int{2, 3}
	kit.Run(t, "C03", rule,
		kit.Clause[treeCase]{Name: "C03/primitives", Quick: 10000, Thorough: 250000, Gen: genGroup("primitives", both), Check: checkTree},
		kit.Clause[treeCase]{Name: "C03/combinators", Quick: 12000, Thorough: 250000, Gen: genGroup("combinators", both), Check: checkTree},
		kit.Clause[treeCase]{Name: "C03/transformed", Quick: 12000, Thorough: 250000, Gen: genGroup("transformed", both), Check: checkTree},
		kit.Clause[treeCase]{Name: "C03/derived", Quick: 12000, Thorough: 250000, Gen: genGroup("derived", both), Check: checkTree},
		kit.Clause[treeCase]{Name: "C03/toolbox", Quick: 18000, Thorough: 400000, Gen: genGroup("toolbox", both), Check: checkTree},
	)
}
