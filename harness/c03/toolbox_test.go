package c03

import (
	"fmt"
	"math"

	"github.com/unixpickle/model3d/model2d"
	"github.com/unixpickle/model3d/model3d"
	"github.com/unixpickle/model3d/toolbox3d"
	"pgregory.net/rapid"
	"verifharness/gen"
	"verifharness/kit"
	"verifharness/m3"
)

// l1SegDist: L1 distance from p to the segment a-b (the minimum of a convex
// piecewise-linear function of the segment parameter is at an end or a breakpoint).
func l1SegDist(p, a, b kit.V3) float64 {
	d := b.Sub(a)
	at := func(t float64) float64 {
		q := a.Add(d.Scale(t))
		return math.Abs(p[0]-q[0]) + math.Abs(p[1]-q[1]) + math.Abs(p[2]-q[2])
	}
	best := math.Min(at(0), at(1))
	for k := 0; k < 3; k++ {
		if d[k] != 0 {
			if t := (p[k] - a[k]) / d[k]; t > 0 && t < 1 {
				best = math.Min(best, at(t))
			}
		}
	}
	return best
}

func l1Ball(p, c kit.V3, r float64) bool {
	return math.Abs(p[0]-c[0])+math.Abs(p[1]-c[1])+math.Abs(p[2]-c[2]) < r
}

// documented TriangularLine: within L1 distance of the segment, nothing past the end points
func l1Line(p, p1, p2 kit.V3, r float64) bool {
	dir := p1.Sub(p2)
	l := dir.Norm()
	t := p.Sub(p2).Dot(dir.Scale(1 / l))
	return t >= 0 && t <= l && l1SegDist(p, p1, p2) < r
}

func teardrop2Ref(c2 kit.V2, r float64, dir kit.V2) bool {
	if c2.Norm() <= r {
		return true
	}
	if dir != (kit.V2{}) {
		ay := dir.Unit()
		ax := kit.V2{ay[1], -ay[0]}
		c2 = kit.V2{ax.Dot(c2), ay.Dot(c2)}
	}
	if c2[1] < r/math.Sqrt2 {
		return false
	}
	return (c2[0]+c2[1])/math.Sqrt2 <= r && (-c2[0]+c2[1])/math.Sqrt2 <= r
}

func genSegs(g *G, lab string, lo, hi int) []kit.V3 {
	n := rapid.IntRange(lo, hi).Draw(g.t, lab+".nseg")
	var out []kit.V3
	for i := 0; i < n; i++ {
		a := gen.Vec3(g.t, 1.5, fmt.Sprintf("%s.a%d", lab, i))
		var b kit.V3
		if rapid.IntRange(0, 3).Draw(g.t, fmt.Sprintf("%s.ax%d", lab, i)) == 0 {
			// axis-aligned segment
			b = a
			b[rapid.IntRange(0, 2).Draw(g.t, fmt.Sprintf("%s.axi%d", lab, i))] += gen.LogF(g.t, 0.01, 1.5, fmt.Sprintf("%s.len%d", lab, i))
		} else {
			b = a.Add(gen.Dir3(g.t, fmt.Sprintf("%s.d%d", lab, i)).Scale(gen.LogF(g.t, 0.01, 1.5, fmt.Sprintf("%s.len%d", lab, i))))
		}
		out = append(out, a, b)
	}
	return out
}

type gearParams struct {
	ctor                   int
	pressure, module, a, b float64
	teeth                  int
}

func genGear(g *G, lab string) gearParams {
	p := gearParams{ctor: rapid.IntRange(0, 1).Draw(g.t, lab+".ctor"), pressure: gen.F(g.t, 14, 28, lab+".pa") * math.Pi / 180,
		module: gen.LogF(g.t, 0.02, 0.3, lab+".module"), teeth: rapid.IntRange(6, 40).Draw(g.t, lab+".teeth")}
	if p.ctor == 0 {
		p.a = p.module * gen.F(g.t, 0.05, 0.5, lab+".clearance") // clearance
	} else {
		p.a = p.module * gen.F(g.t, 0.5, 1.2, lab+".addendum")
		p.b = p.module * gen.F(g.t, 0.5, 1.5, lab+".dedendum")
	}
	return p
}

func (p gearParams) build() toolbox3d.GearProfile {
	if p.ctor == 0 {
		return toolbox3d.InvoluteGearProfile(p.pressure, p.module, p.a, p.teeth)
	}
	return toolbox3d.InvoluteGearProfileSizes(p.pressure, p.module, p.a, p.b, p.teeth)
}

// radii of the profile from the documented construction
func (p gearParams) radii() (root, outer float64) {
	r := p.module * float64(p.teeth) / 2
	base := math.Cos(p.pressure) * r
	if p.ctor == 0 {
		return base - p.a, 2*r - base
	}
	return r - p.b, r + p.a
}

func gearFromNode(n *node) gearParams {
	return gearParams{ctor: n.I[0], teeth: n.I[1], pressure: n.F[0], module: n.F[1], a: n.F[2], b: n.F[3]}
}

func init() {
	// ---- ScrewSolid: P[0], P[1] ends, F = radius, groove size (<= radius), I[0] pointed ----
	reg(&family{name: "screw3", dim: 3, group: "toolbox", leaf: true,
		gen: func(g *G, depth int, lab string) *node {
			p1 := gen.Vec3(g.t, 1.5, lab+".p1")
			r := gen.LogF(g.t, 0.05, 0.8, lab+".r")
			p2 := p1.Add(gen.Dir3(g.t, lab+".dir").Unit().Scale(r * gen.LogF(g.t, 0.2, 20, lab+".len")))
			return &node{Op: "screw3", P: []kit.V3{p1, p2}, F: []float64{r, r * gen.LogF(g.t, 0.02, 1, lab+".groove")},
				I: []int{rapid.IntRange(0, 1).Draw(g.t, lab+".pointed")},
				// "derived": the screw is a modified copy of another screw whose bounds have been asked for already
				// (hole := *screw; hole.Radius += slack), or that other screw itself, modified in place
				Bits: rapid.SampledFrom([]string{"", "", "derived-copy", "derived-in-place"}).Draw(g.t, lab+".derived")}
		},
		build: func(b *built) {
			p1, p2, r, gr := b.n.P[0], b.n.P[1], b.n.F[0], b.n.F[1]
			pointed := b.n.I[0] == 1
			screw := &toolbox3d.ScrewSolid{P1: m3.C3(p1), P2: m3.C3(p2), Radius: r, GrooveSize: gr, Pointed: pointed}
			if b.n.Bits != "" {
				other := &toolbox3d.ScrewSolid{P1: m3.C3(p1), P2: m3.C3(p1.Mid(p2)), Radius: r * 0.4, GrooveSize: gr * 0.4, Pointed: !pointed}
				other.Min()
				other.Max()
				other.Contains(m3.C3(p1))
				if b.n.Bits == "derived-copy" {
					cp := *other
					screw = &cp
				} else {
					screw = other
				}
				screw.P2, screw.Radius, screw.GrooveSize, screw.Pointed = m3.C3(p2), r, gr, pointed
			}
			b.set3(screw)
			u := p2.Sub(p1).Unit()
			h := p1.Dist(p2)
			// documented: like a cylinder of the maximum radius with grooves of the given size
			// cut into it; so the core of radius r - groove (below the 45 degree tip cone if
			// pointed) is certainly part of the screw
			core := func(p kit.V3) float64 {
				t := p.Sub(p1).Dot(u)
				rho := p.Sub(p1).Sub(u.Scale(t)).Norm()
				d := math.Min(math.Min(t, h-t), r-gr-rho)
				if pointed {
					d = math.Min(d, (h-t-rho)/math.Sqrt2)
				}
				return d
			}
			b.under = func(p kit.V3) bool { return core(p) > 0 }
			b.sure = func(p kit.V3, m float64) int {
				if core(p) > m {
					return 1
				}
				return 0
			}
			cyl := gen.Shape3{Kind: "cylinder", A: p1, B: p2, R: r}
			b.addWit(witnesses3(cyl)...)
			e1, e2 := orthoPair(u)
			for i := 0; i < 12; i++ {
				a := float64(i) * math.Pi / 6
				b.addWit(p1.Add(u.Scale(h * float64(i) / 12)).Add(e1.Scale(r * math.Cos(a))).Add(e2.Scale(r * math.Sin(a))))
			}
			b.pscale = h + r + p1.MaxAbs()
		}})

	// ---- Teardrop2D: P[0] centre, P[1] direction (may be zero), F[0] radius -------
	reg(&family{name: "teardrop2", dim: 2, group: "toolbox", leaf: true,
		gen: func(g *G, depth int, lab string) *node {
			c := v3(gen.Vec2(g.t, 1.5, lab+".c"))
			var d kit.V3
			if rapid.IntRange(0, 3).Draw(g.t, lab+".zerodir") != 0 {
				d = v3(gen.Dir2(g.t, lab+".dir").Scale(gen.LogF(g.t, 0.1, 10, lab+".dlen")))
			}
			return &node{Op: "teardrop2", P: []kit.V3{c, d}, F: []float64{gen.LogF(g.t, 0.01, 1, lab+".r")}}
		},
		build: func(b *built) {
			c, d, r := b.n.P[0], b.n.P[1], b.n.F[0]
			b.set2(&toolbox3d.Teardrop2D{Center: c2(c), Radius: r, Direction: c2(d)})
			b.under = func(p kit.V3) bool { return teardrop2Ref(v2(p.Sub(c)), r, v2(d)) }
			dir := kit.V3{0, 1, 0}
			if d != (kit.V3{}) {
				dir = d.Unit()
			}
			b.addWit(c, c.Add(dir.Scale(r*math.Sqrt2)), c.Add(dir.Scale(-r)))
			for _, e := range axisDirs2 {
				b.addWit(c.Add(e.Scale(r)), c.Add(e.Scale(r*math.Sqrt2)))
			}
			b.pscale = r + c.MaxAbs()
			b.mrel = 1e-10
		}})

	// ---- Teardrop3D: P[0], P[1], F[0] radius --------------------------------------
	reg(&family{name: "teardrop3", dim: 3, group: "toolbox", leaf: true,
		gen: func(g *G, depth int, lab string) *node {
			p1 := gen.Vec3(g.t, 1.5, lab+".p1")
			var dir kit.V3
			switch rapid.IntRange(0, 5).Draw(g.t, lab+".dirkind") {
			case 0:
				dir = kit.V3{0, 0, 1}
			case 1:
				dir = kit.V3{0, 0, -1}
			default:
				// general position by construction: at least 0.05 rad away from the Z axis, where
				// the documented tip orientation switches
				for i := 0; ; i++ {
					dir = gen.Dir3(g.t, lab+".dir").Unit()
					if math.Hypot(dir[0], dir[1]) > 0.05 || i > 20 {
						if math.Hypot(dir[0], dir[1]) <= 0.05 {
							dir = kit.V3{0.6, 0, 0.8}
						}
						break
					}
				}
			}
			return &node{Op: "teardrop3", P: []kit.V3{p1, p1.Add(dir.Scale(gen.LogF(g.t, 0.02, 2, lab+".len")))}, F: []float64{gen.LogF(g.t, 0.01, 1, lab+".r")}}
		},
		build: func(b *built) {
			p1, p2, r := b.n.P[0], b.n.P[1], b.n.F[0]
			b.set3(toolbox3d.Teardrop3D(m3.C3(p1), m3.C3(p2), r))
			z := p2.Sub(p1).Unit()
			l := p1.Dist(p2)
			// documented: the Teardrop2D profile extended from p1 to p2, tip towards +Z when
			// possible (towards +Y when the axis is vertical)
			y := kit.V3{0, 0, 1}.Sub(z.Scale(z[2]))
			if y.Norm() < 1e-5 {
				y = kit.V3{0, 1, 0}.Sub(z.Scale(z[1]))
			}
			y = y.Unit()
			x := y.Cross(z)
			b.under = func(p kit.V3) bool {
				d := p.Sub(p1)
				t := d.Dot(z)
				return t >= 0 && t <= l && teardrop2Ref(kit.V2{d.Dot(x), d.Dot(y)}, r, kit.V2{})
			}
			for _, t := range []float64{0, l / 2, l} {
				c := p1.Add(z.Scale(t))
				b.addWit(c, c.Add(y.Scale(r*math.Sqrt2)), c.Add(y.Scale(-r)), c.Add(x.Scale(r)), c.Add(x.Scale(-r)))
				for _, e := range axisDirs3 {
					if q := unitOrZero(e.Sub(z.Scale(e.Dot(z)))); q.Norm() > 0 {
						b.addWit(c.Add(q.Scale(r)))
					}
				}
			}
			b.pscale = l + r + p1.MaxAbs()
		}})

	// ---- gears: I = profile constructor, teeth, helical; F = pressure angle, module, a, b,
	//      t1, t2 (positions of P1, P2 along the axis through the origin), helix angle; P[0] axis
	reg(&family{name: "gear3", dim: 3, group: "toolbox", leaf: true,
		gen: func(g *G, depth int, lab string) *node {
			gp := genGear(g, lab)
			t1 := 0.0
			if rapid.Bool().Draw(g.t, lab+".off") {
				t1 = gen.F(g.t, -1, 1, lab+".t1")
			}
			t2 := t1 + gen.LogF(g.t, 0.02, 2, lab+".h")
			if rapid.IntRange(0, 3).Draw(g.t, lab+".flip") == 0 {
				t1, t2 = t2, t1
			}
			return &node{Op: "gear3", I: []int{gp.ctor, gp.teeth, rapid.IntRange(0, 1).Draw(g.t, lab+".helical")},
				F: []float64{gp.pressure, gp.module, gp.a, gp.b, t1, t2, gen.F(g.t, -0.6, 0.6, lab+".helix")},
				P: []kit.V3{gen.Dir3(g.t, lab+".axis").Unit()}}
		},
		build: func(b *built) {
			gp := gearFromNode(b.n)
			prof := gp.build()
			u := b.n.P[0]
			p1, p2 := u.Scale(b.n.F[4]), u.Scale(b.n.F[5])
			helical := b.n.I[2] == 1
			angle := b.n.F[6]
			if helical {
				b.set3(&toolbox3d.HelicalGear{P1: m3.C3(p1), P2: m3.C3(p2), Profile: prof, Angle: angle})
			} else {
				b.set3(&toolbox3d.SpurGear{P1: m3.C3(p1), P2: m3.C3(p2), Profile: prof})
			}
			axis := p2.Sub(p1)
			h := axis.Norm()
			au := axis.Unit()
			// definition: the profile (a part) evaluated in the plane coordinates of the gear's
			// own basis between the two end planes, twisted linearly along the axis if helical
			l1, l2 := m3.C3(axis).OrthoBasis()
			e1, e2 := m3.V3(l1), m3.V3(l2)
			pitch := prof.PitchRadius()
			lau := m3.C3(axis).Normalize()
			lp1 := m3.C3(p1)
			b.under = func(p kit.V3) bool {
				t := p.Sub(p1).Dot(au)
				if t < 0 || t > h {
					return false
				}
				c := m3.C3(p)
				c2 := model2d.Coord{X: l1.Dot(c), Y: l2.Dot(c)}
				if helical {
					th := math.Tan(angle) * lau.Dot(c.Sub(lp1)) / pitch
					c2 = model2d.NewMatrix2Rotation(th).MulColumn(c2)
				}
				return prof.Contains(c2)
			}
			_, outer := gp.radii()
			for _, t := range []float64{0, h / 2, h} {
				c := p1.Add(au.Scale(t))
				b.addWit(c)
				for i := 0; i < 16; i++ {
					a := float64(i) * math.Pi / 8
					b.addWit(c.Add(e1.Scale(outer * math.Cos(a))).Add(e2.Scale(outer * math.Sin(a))))
				}
				for _, e := range axisDirs3 {
					if q := unitOrZero(e.Sub(au.Scale(e.Dot(au)))); q.Norm() > 0 {
						b.addWit(c.Add(q.Scale(outer)))
					}
				}
			}
			b.pscale = h + outer + p1.MaxAbs()
		}})

	reg(&family{name: "gearprofile2", dim: 2, group: "toolbox", leaf: true,
		gen: func(g *G, depth int, lab string) *node {
			gp := genGear(g, lab)
			return &node{Op: "gearprofile2", I: []int{gp.ctor, gp.teeth}, F: []float64{gp.pressure, gp.module, gp.a, gp.b}}
		},
		build: func(b *built) {
			gp := gearFromNode(b.n)
			b.set2(gp.build())
			root, outer := gp.radii()
			// documented construction: everything below the root circle belongs to the gear
			b.under = func(p kit.V3) bool { return math.Hypot(p[0], p[1]) < root }
			b.sure = func(p kit.V3, m float64) int {
				if root-math.Hypot(p[0], p[1]) > m {
					return 1
				}
				return 0
			}
			for i := 0; i < 4*gp.teeth; i++ {
				a := float64(i) * math.Pi / float64(2*gp.teeth)
				b.addWit(kit.V3{outer * math.Cos(a), outer * math.Sin(a), 0})
			}
			b.addWit(kit.V3{})
			b.pscale = outer
		}})

	// ---- height maps: P[0], P[1] 2D bounds, I = maxSize, bidir; F = spheres (cx, cy, r)* ----
	reg(&family{name: "heightmap3", dim: 3, group: "toolbox", leaf: true,
		gen: func(g *G, depth int, lab string) *node {
			mn := v3(gen.Vec2(g.t, 1.5, lab+".min"))
			mx := mn.Add(kit.V3{gen.LogF(g.t, 0.1, 2, lab+".w"), gen.LogF(g.t, 0.1, 2, lab+".h"), 0})
			n := &node{Op: "heightmap3", P: []kit.V3{mn, mx}, I: []int{rapid.IntRange(2, 14).Draw(g.t, lab+".size"), rapid.IntRange(0, 1).Draw(g.t, lab+".bidir")}}
			k := rapid.IntRange(0, 4).Draw(g.t, lab+".nsph")
			for i := 0; i < k; i++ {
				l := fmt.Sprintf("%s.s%d", lab, i)
				n.F = append(n.F, gen.F(g.t, mn[0]-0.2, mx[0]+0.2, l+".x"), gen.F(g.t, mn[1]-0.2, mx[1]+0.2, l+".y"), gen.LogF(g.t, 0.05, 1.5, l+".r"))
			}
			// cells written one by one afterwards, P[2:] = (x, y, height): with SetHeightSquaredAt, the last one
			// straight into the exported Data slice
			for i, k := 0, rapid.IntRange(0, 3).Draw(g.t, lab+".nset"); i < k; i++ {
				l := fmt.Sprintf("%s.set%d", lab, i)
				n.P = append(n.P, kit.V3{gen.F(g.t, mn[0], mx[0], l+".x"), gen.F(g.t, mn[1], mx[1], l+".y"), gen.LogF(g.t, 0.05, 3, l+".h")})
			}
			return n
		},
		build: func(b *built) {
			mn, mx := b.n.P[0], b.n.P[1]
			hm := toolbox3d.NewHeightMap(c2(mn), c2(mx), b.n.I[0])
			for i := 0; i+2 < len(b.n.F); i += 3 {
				hm.AddSphere(model2d.XY(b.n.F[i], b.n.F[i+1]), b.n.F[i+2])
				b.addWit(kit.V3{b.n.F[i], b.n.F[i+1], b.n.F[i+2]}, kit.V3{b.n.F[i], b.n.F[i+1], 0}, kit.V3{b.n.F[i], b.n.F[i+1], -b.n.F[i+2]})
			}
			for i, q := range b.n.P[2:] {
				if i == 2 {
					hm.Data[int(q[0]*1e6+q[1]*1e3+1e9)%len(hm.Data)] = q[2] * q[2]
				} else {
					hm.SetHeightSquaredAt(model2d.XY(q[0], q[1]), q[2]*q[2])
				}
				b.addWit(q, kit.V3{q[0], q[1], q[2] * 0.9})
			}
			bidir := b.n.I[1] == 1
			if bidir {
				b.set3(toolbox3d.HeightMapToSolidBidir(hm))
			} else {
				b.set3(toolbox3d.HeightMapToSolid(hm))
			}
			// documented: the volume under the height map (defined over its 2D bounds) and above
			// the Z plane (mirrored if bidirectional); the interpolated height comes from the part
			b.under = func(p kit.V3) bool {
				if p[0] < mn[0] || p[0] > mx[0] || p[1] < mn[1] || p[1] > mx[1] || (!bidir && p[2] < 0) {
					return false
				}
				return hm.HeightSquaredAt(c2(p)) > p[2]*p[2]
			}
			// grid nodes at their own height
			for r := 0; r < hm.Rows; r++ {
				for c := 0; c < hm.Cols; c++ {
					if h2 := hm.Data[r*hm.Cols+c]; h2 > 0 && len(b.wit) < 80 {
						b.addWit(kit.V3{mn[0] + float64(c)*hm.Delta, mn[1] + float64(r)*hm.Delta, math.Sqrt(h2)})
					}
				}
			}
			b.addWit(mn, mx, mn.Mid(mx))
			b.pscale = mx.Sub(mn).Norm() + mn.MaxAbs()
		}})

	// ---- line joins: F[0] radius, P = segment end points -----------------------------
	for _, op := range []string{"linejoin3", "l1linejoin3"} {
		op := op
		reg(&family{name: op, dim: 3, group: "toolbox", leaf: true,
			gen: func(g *G, depth int, lab string) *node {
				return &node{Op: op, F: []float64{gen.LogF(g.t, 0.005, 0.5, lab+".r")}, P: genSegs(g, lab, 1, 4)}
			},
			build: func(b *built) {
				r := b.n.F[0]
				ps := b.n.P
				var segs []model3d.Segment
				for i := 0; i+1 < len(ps); i += 2 {
					segs = append(segs, model3d.NewSegment(m3.C3(ps[i]), m3.C3(ps[i+1])))
				}
				if op == "linejoin3" {
					b.set3(toolbox3d.LineJoin(r, segs...))
					dist := func(p kit.V3) float64 {
						d := math.Inf(1)
						for i := 0; i+1 < len(ps); i += 2 {
							di, _ := kit.PointSegDist3(p, ps[i], ps[i+1])
							d = math.Min(d, di)
						}
						return d
					}
					b.under = func(p kit.V3) bool { return dist(p) <= r }
					b.sure = func(p kit.V3, m float64) int { return sureFromDist(r-dist(p), m) }
					b.mrel = 1e-8
				} else {
					b.set3(toolbox3d.L1LineJoin(r, segs...))
					b.under = func(p kit.V3) bool {
						for i := 0; i+1 < len(ps); i += 2 {
							if l1Line(p, ps[i], ps[i+1], r) || l1Ball(p, ps[i], r) || l1Ball(p, ps[i+1], r) {
								return true
							}
						}
						return false
					}
				}
				for _, p := range ps {
					b.addWit(p)
					b.pscale = math.Max(b.pscale, p.MaxAbs()+r)
					for _, d := range axisDirs3 {
						b.addWit(p.Add(d.Scale(r)))
					}
				}
			}})
	}

	// ---- TriangularPolygon: F[0] thickness, I[0] close, P points ------------------------
	reg(&family{name: "tripoly3", dim: 3, group: "toolbox", leaf: true,
		gen: func(g *G, depth int, lab string) *node {
			n := &node{Op: "tripoly3", F: []float64{gen.LogF(g.t, 0.005, 0.5, lab+".r")}, I: []int{rapid.IntRange(0, 1).Draw(g.t, lab+".close")}}
			k := rapid.IntRange(2, 5).Draw(g.t, lab+".npts")
			for i := 0; i < k; i++ {
				n.P = append(n.P, gen.Vec3(g.t, 1.5, fmt.Sprintf("%s.p%d", lab, i)))
			}
			return n
		},
		build: func(b *built) {
			r, ps, closed := b.n.F[0], b.n.P, b.n.I[0] == 1
			var cs []model3d.Coord3D
			for _, p := range ps {
				cs = append(cs, m3.C3(p))
			}
			b.set3(toolbox3d.TriangularPolygon(r, closed, cs...))
			// documented: lines between consecutive points with L1 balls at the connections only
			// (and at both ends of the closing line when closed)
			n := len(ps)
			b.under = func(p kit.V3) bool {
				for i := 0; i+1 < n; i++ {
					if l1Line(p, ps[i], ps[i+1], r) || (i != 0 && l1Ball(p, ps[i], r)) {
						return true
					}
				}
				return closed && (l1Line(p, ps[n-1], ps[0], r) || l1Ball(p, ps[n-1], r) || l1Ball(p, ps[0], r))
			}
			for _, p := range ps {
				b.addWit(p)
				b.pscale = math.Max(b.pscale, p.MaxAbs()+r)
				for _, d := range axisDirs3 {
					b.addWit(p.Add(d.Scale(r)))
				}
			}
		}})

	reg(&family{name: "triline3", dim: 3, group: "toolbox", leaf: true,
		gen: func(g *G, depth int, lab string) *node {
			return &node{Op: "triline3", F: []float64{gen.LogF(g.t, 0.005, 0.5, lab+".r")}, P: genSegs(g, lab, 1, 1)}
		},
		build: func(b *built) {
			r, p1, p2 := b.n.F[0], b.n.P[0], b.n.P[1]
			b.set3(toolbox3d.TriangularLine(r, m3.C3(p1), m3.C3(p2)))
			b.under = func(p kit.V3) bool { return l1Line(p, p1, p2, r) }
			for _, p := range []kit.V3{p1, p2, p1.Mid(p2)} {
				b.addWit(p)
				for _, d := range axisDirs3 {
					b.addWit(p.Add(d.Scale(r)))
				}
			}
			b.pscale = p1.MaxAbs() + p2.MaxAbs() + r
		}})

	reg(&family{name: "triball3", dim: 3, group: "toolbox", leaf: true,
		gen: func(g *G, depth int, lab string) *node {
			return &node{Op: "triball3", F: []float64{gen.LogF(g.t, 0.005, 1, lab+".r")}, P: []kit.V3{gen.Vec3(g.t, 1.5, lab+".c")}}
		},
		build: func(b *built) {
			r, c := b.n.F[0], b.n.P[0]
			b.set3(toolbox3d.TriangularBall(r, m3.C3(c)))
			b.under = func(p kit.V3) bool { return l1Ball(p, c, r) }
			b.sure = func(p kit.V3, m float64) int {
				// the L1 norm changes by at most sqrt(3) times the Euclidean displacement
				return sureFromDist((r-(math.Abs(p[0]-c[0])+math.Abs(p[1]-c[1])+math.Abs(p[2]-c[2])))/math.Sqrt(3), m)
			}
			b.addWit(c)
			for _, d := range axisDirs3 {
				b.addWit(c.Add(d.Scale(r)))
			}
			b.pscale = c.MaxAbs() + r
		}})

	// ---- RadialCurve: I = steps, closed; P control points, F radii (steps+1 each; the curve
	//      function looks its argument up in the table) ------------------------------------
	reg(&family{name: "radial3", dim: 3, group: "toolbox", leaf: true,
		gen: func(g *G, depth int, lab string) *node {
			steps := rapid.IntRange(1, 6).Draw(g.t, lab+".steps")
			closed := 0
			if steps >= 3 && rapid.Bool().Draw(g.t, lab+".closed") {
				closed = 1
			}
			n := &node{Op: "radial3", I: []int{steps, closed}}
			p := gen.Vec3(g.t, 1, lab+".p0")
			for i := 0; i <= steps; i++ {
				n.P = append(n.P, p)
				r := gen.LogF(g.t, 0.01, 0.5, fmt.Sprintf("%s.r%d", lab, i))
				if rapid.IntRange(0, 7).Draw(g.t, fmt.Sprintf("%s.r0%d", lab, i)) == 0 {
					r = 0
				}
				n.F = append(n.F, r)
				p = p.Add(gen.Dir3(g.t, fmt.Sprintf("%s.d%d", lab, i)).Scale(gen.LogF(g.t, 0.05, 1, fmt.Sprintf("%s.l%d", lab, i))))
			}
			if closed == 1 {
				n.P[steps], n.F[steps] = n.P[0], n.F[0]
			}
			return n
		},
		build: func(b *built) {
			steps, closed := b.n.I[0], b.n.I[1] == 1
			ps, rs := b.n.P, b.n.F
			b.set3(toolbox3d.RadialCurve(steps, closed, func(t float64) (model3d.Coord3D, float64) {
				i := int(math.Round(t * float64(steps)))
				if i < 0 {
					i = 0
				}
				if i > steps {
					i = steps
				}
				return m3.C3(ps[i]), rs[i]
			}))
			// documented: a solid around the (sampled) curve whose radius varies along it and
			// extends in every direction normal to the curve; consecutive samples are joined by
			// conic sections, and the wedge at each joint is the part of the ball that lies
			// behind both neighbouring end planes
			conic := func(p, p1, p2 kit.V3, r1, r2 float64) bool {
				v := p2.Sub(p1).Unit()
				size := p2.Dist(p1)
				d := p.Sub(p1)
				dot := v.Dot(d)
				f := dot / size
				if f < 0 || f > 1 {
					return false
				}
				return d.Sub(v.Scale(dot)).Norm() <= r2*f+r1*(1-f)
			}
			slice := func(p kit.V3, r float64, p1, p2, p3 kit.V3) bool {
				n1, n2 := p1.Sub(p2), p3.Sub(p2)
				return p.Dist(p2) <= r && n1.Dot(p) <= n1.Dot(p2) && n2.Dot(p) <= n2.Dot(p2)
			}
			b.under = func(p kit.V3) bool {
				for i := 0; i < steps; i++ {
					if conic(p, ps[i], ps[i+1], rs[i], rs[i+1]) {
						return true
					}
					if i > 0 && slice(p, rs[i], ps[i-1], ps[i], ps[i+1]) {
						return true
					}
				}
				return closed && slice(p, rs[0], ps[steps-1], ps[0], ps[1])
			}
			for i, p := range ps {
				b.addWit(p)
				b.pscale = math.Max(b.pscale, p.MaxAbs()+rs[i])
				for _, d := range axisDirs3 {
					b.addWit(p.Add(d.Scale(rs[i])))
				}
			}
		}})

	// ---- RectSet.Solid: I[k] 1 = Add, 0 = Remove; P[2k], P[2k+1] the box ------------------
	reg(&family{name: "rectset3", dim: 3, group: "toolbox", leaf: true,
		gen: func(g *G, depth int, lab string) *node {
			n := &node{Op: "rectset3"}
			k := rapid.IntRange(0, 5).Draw(g.t, lab+".nops")
			grid := rapid.Bool().Draw(g.t, lab+".grid")
			for i := 0; i < k; i++ {
				l := fmt.Sprintf("%s.o%d", lab, i)
				add := 1
				if i > 0 && rapid.IntRange(0, 2).Draw(g.t, l+".remove") == 0 {
					add = 0
				}
				var mn, sz kit.V3
				for a := 0; a < 3; a++ {
					if grid {
						mn[a] = float64(rapid.IntRange(-2, 2).Draw(g.t, fmt.Sprintf("%s.g%d", l, a))) * 0.5
						sz[a] = float64(rapid.IntRange(1, 3).Draw(g.t, fmt.Sprintf("%s.gs%d", l, a))) * 0.5
					} else {
						mn[a] = gen.F(g.t, -1.5, 1, fmt.Sprintf("%s.m%d", l, a))
						sz[a] = gen.LogF(g.t, 0.05, 1.5, fmt.Sprintf("%s.s%d", l, a))
					}
				}
				n.I = append(n.I, add)
				n.P = append(n.P, mn, mn.Add(sz))
			}
			// the set may have a sibling: it was poured into a fresh set (or received a fresh set's content) and the
			// sibling is then edited on its own; the set under test is the untouched one
			n.Bits = rapid.SampledFrom([]string{"", "", "sibling-of", "sibling-from"}).Draw(g.t, lab+".sibling")
			return n
		},
		build: func(b *built) {
			rs := toolbox3d.NewRectSet()
			ops, ps := b.n.I, b.n.P
			for i, add := range ops {
				r := &model3d.Rect{MinVal: m3.C3(ps[2*i]), MaxVal: m3.C3(ps[2*i+1])}
				if add == 1 {
					rs.Add(r)
				} else {
					rs.Remove(r)
				}
			}
			switch b.n.Bits {
			case "sibling-of", "sibling-from":
				sib := toolbox3d.NewRectSet()
				sib.AddRectSet(rs)
				if b.n.Bits == "sibling-from" {
					rs, sib = sib, rs
				}
				// edits with coordinates the other set has never seen, inside and beyond its extent
				for _, k := range []float64{0.37, -0.61, 2.3, -2.9} {
					sib.Add(&model3d.Rect{MinVal: model3d.XYZ(k, k, k), MaxVal: model3d.XYZ(k+0.21, k+0.33, k+0.47)})
					sib.Remove(&model3d.Rect{MinVal: model3d.XYZ(k-0.13, k-0.17, k-0.19), MaxVal: model3d.XYZ(k+0.05, k+0.07, k+0.11)})
				}
			}
			b.set3(rs.Solid())
			// definition: replay the history pointwise; decided only away from every box face
			eval := func(p kit.V3) (in bool, clearance float64) {
				clearance = math.Inf(1)
				for i, add := range ops {
					inside := true
					for a := 0; a < 3; a++ {
						lo, hi := ps[2*i][a], ps[2*i+1][a]
						clearance = math.Min(clearance, math.Min(math.Abs(p[a]-lo), math.Abs(p[a]-hi)))
						if p[a] < lo || p[a] > hi {
							inside = false
						}
					}
					if inside {
						in = add == 1
					}
				}
				return
			}
			b.under = func(p kit.V3) bool { in, _ := eval(p); return in }
			b.sure = func(p kit.V3, m float64) int {
				in, cl := eval(p)
				if cl <= m {
					return 0
				}
				return sgn(in)
			}
			for _, p := range ps {
				b.addWit(p)
				b.pscale = math.Max(b.pscale, p.MaxAbs())
			}
			for i := range ops {
				b.addWit(ps[2*i].Mid(ps[2*i+1]))
			}
			b.pscale = math.Max(b.pscale, 1)
		}})
}
