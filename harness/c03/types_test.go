package c03

import (
	"math"
	"sort"

	"github.com/unixpickle/model3d/model2d"
	"github.com/unixpickle/model3d/model3d"
	"pgregory.net/rapid"
	"verifharness/gen"
	"verifharness/kit"
	"verifharness/m3"
)

// ---------------------------------------------------------------------------
// Case description (data only).
//
// A node is one constructor / combinator application.  Points are kit.V3 in both
// dimensions (2D nodes use x, y and keep z = 0), so that the probing machinery is
// shared.  The meaning of S3/S2/X3/X2/F/I/P/Bits/Balls depends on Op and is
// documented next to each family's generator.

type ball struct {
	S3   *gen.Shape3 `json:"s3,omitempty"`
	S2   *gen.Shape2 `json:"s2,omitempty"`
	Wrap int         `json:"wrap"` // 0 bare primitive, 1 TransformMetaball, 2 VecScaleMetaball, 3 SDFToMetaball
	X3   *gen.Xform3 `json:"x3,omitempty"`
	X2   *xf2        `json:"x2,omitempty"`
	V    kit.V3      `json:"v"`
}

type node struct {
	Op    string       `json:"op"`
	Kids  []*node      `json:"kids,omitempty"`
	S3    []gen.Shape3 `json:"s3,omitempty"`
	S2    []gen.Shape2 `json:"s2,omitempty"`
	X3    *gen.Xform3  `json:"x3,omitempty"`
	X2    *xf2         `json:"x2,omitempty"`
	F     []float64    `json:"f,omitempty"`
	I     []int        `json:"i,omitempty"`
	P     []kit.V3     `json:"p,omitempty"`
	Bits  string       `json:"bits,omitempty"`
	Balls []ball       `json:"balls,omitempty"`
}

func (n *node) depth() int {
	d := 0
	for _, k := range n.Kids {
		if kd := k.depth(); kd > d {
			d = kd
		}
	}
	return d + 1
}

// built is a constructed node: the library solid, its parts, and the harness's view
// of the underlying definition.
type built struct {
	n    *node
	fam  *family
	dim  int
	s3   model3d.Solid
	s2   model2d.Solid
	kids []*built

	// under evaluates the underlying definition (what the solid is documented to
	// contain, ignoring the box the library object reports) from the PARTS: the
	// children's library solids, the wrapped SDF / metaball / transform objects, or a
	// closed form written here.  It never calls the object under test.  nil: the
	// family has no definition separate from its Contains (clauses 1 and 2 only).
	under func(p kit.V3) bool
	// sure, when set, is an analytic three-state form of under: +1 the closed ball of
	// radius m around p is inside the definition, -1 it is outside, 0 not decided.
	// When nil, "inside by margin m" is decided by evaluating under at p and at
	// p +- m along every axis (star test).
	sure func(p kit.V3, m float64) int
	// interesting points in the solid's own space (support points of primitives and
	// their images), used to aim probes
	wit []kit.V3
	// pscale: magnitude of the parts (never 0), mrel: relative star radius
	pscale float64
	mrel   float64
}

func (b *built) contains(p kit.V3) bool {
	if b.dim == 3 {
		return b.s3.Contains(m3.C3(p))
	}
	return b.s2.Contains(model2d.XY(p[0], p[1]))
}

func (b *built) bounds() (kit.V3, kit.V3) {
	if b.dim == 3 {
		return m3.V3(b.s3.Min()), m3.V3(b.s3.Max())
	}
	mn, mx := b.s2.Min(), b.s2.Max()
	return kit.V3{mn.X, mn.Y, 0}, kit.V3{mx.X, mx.Y, 0}
}

func (b *built) set3(s model3d.Solid) { b.dim, b.s3 = 3, s }
func (b *built) set2(s model2d.Solid) { b.dim, b.s2 = 2, s }

func (b *built) addWit(ps ...kit.V3) {
	for _, p := range ps {
		if p.Finite() {
			b.wit = append(b.wit, p)
		}
	}
}

// kidScale is the largest part scale among the children.
func kidScale(kids []*built) float64 {
	s := 0.0
	for _, k := range kids {
		mn, mx := k.bounds()
		if mn.Finite() && mx.Finite() {
			s = math.Max(s, math.Max(mx.Sub(mn).Norm(), math.Max(mn.MaxAbs(), mx.MaxAbs())))
		}
		s = math.Max(s, k.pscale)
	}
	return s
}

func c2(p kit.V3) model2d.Coord    { return model2d.XY(p[0], p[1]) }
func c3(p kit.V3) model3d.Coord3D  { return m3.C3(p) }
func v2(p kit.V3) kit.V2           { return kit.V2{p[0], p[1]} }
func v3(p kit.V2) kit.V3           { return kit.V3{p[0], p[1], 0} }
func from2(c model2d.Coord) kit.V3 { return kit.V3{c.X, c.Y, 0} }

func sgn(in bool) int {
	if in {
		return 1
	}
	return -1
}

// sureFromDist turns a signed "how far inside" value into the three-state answer.
func sureFromDist(d, m float64) int {
	if d > m {
		return 1
	}
	if d < -m {
		return -1
	}
	return 0
}

// ---------------------------------------------------------------------------
// 2D transforms (the 3D ones come from gen.Xform3).

type xf2 struct {
	Kind  string     `json:"kind"`
	V     kit.V2     `json:"v,omitempty"`
	S     float64    `json:"s,omitempty"`
	M     [4]float64 `json:"m,omitempty"` // row-major
	Parts []xf2      `json:"parts,omitempty"`
}

func (x xf2) build() model2d.Transform {
	switch x.Kind {
	case "translate":
		return &model2d.Translate{Offset: m3.C2(x.V)}
	case "scale":
		return &model2d.Scale{Scale: x.S}
	case "vecscale":
		return &model2d.VecScale{Scale: m3.C2(x.V)}
	case "matrix":
		return &model2d.Matrix2Transform{Matrix: &model2d.Matrix2{x.M[0], x.M[1], x.M[2], x.M[3]}}
	case "rotation":
		return model2d.Rotation(x.S)
	}
	var j model2d.JoinedTransform
	for _, p := range x.Parts {
		j = append(j, p.build())
	}
	return j
}

func (x xf2) isDist() bool {
	switch x.Kind {
	case "translate", "scale", "rotation":
		return true
	case "joined":
		for _, p := range x.Parts {
			if !p.isDist() {
				return false
			}
		}
		return true
	}
	return false
}

func (x xf2) distFactor() float64 {
	switch x.Kind {
	case "scale":
		return x.S
	case "joined":
		f := 1.0
		for _, p := range x.Parts {
			f *= p.distFactor()
		}
		return f
	}
	return 1
}

func (x xf2) kinds(m map[string]bool) {
	if x.Kind == "joined" {
		for _, p := range x.Parts {
			p.kinds(m)
		}
		return
	}
	m[x.Kind] = true
}

func genXf2(t *rapid.T, distOnly bool, depth int, label string) xf2 {
	kinds := []string{"translate", "scale", "rotation", "vecscale", "matrix", "joined"}
	if distOnly {
		kinds = []string{"translate", "scale", "rotation", "joined"}
	}
	if depth == 0 {
		kinds = kinds[:len(kinds)-1]
	}
	switch k := rapid.SampledFrom(kinds).Draw(t, label+".kind"); k {
	case "translate":
		return xf2{Kind: k, V: gen.Vec2(t, 2, label+".off")}
	case "scale":
		return xf2{Kind: k, S: gen.LogF(t, 0.2, 5, label+".s")}
	case "vecscale":
		v := kit.V2{gen.LogF(t, 0.2, 5, label+".sx"), gen.LogF(t, 0.2, 5, label+".sy")}
		if rapid.IntRange(0, 2).Draw(t, label+".negx") == 0 {
			v[0] = -v[0]
		}
		if rapid.IntRange(0, 2).Draw(t, label+".negy") == 0 {
			v[1] = -v[1]
		}
		return xf2{Kind: k, V: v}
	case "matrix":
		a1, a2 := gen.F(t, -3.2, 3.2, label+".a1"), gen.F(t, -3.2, 3.2, label+".a2")
		d0, d1 := gen.LogF(t, 0.3, 3, label+".d0"), gen.LogF(t, 0.3, 3, label+".d1")
		if rapid.Bool().Draw(t, label+".reflect") {
			d0 = -d0
		}
		c1, s1, c2, s2 := math.Cos(a1), math.Sin(a1), math.Cos(a2), math.Sin(a2)
		m := [4]float64{d0 * c1, -d0 * s1, d1 * s1, d1 * c1}
		return xf2{Kind: k, M: [4]float64{c2*m[0] - s2*m[2], c2*m[1] - s2*m[3], s2*m[0] + c2*m[2], s2*m[1] + c2*m[3]}}
	case "rotation":
		return xf2{Kind: k, S: gen.F(t, -7, 7, label+".angle")}
	}
	x := xf2{Kind: "joined"}
	n := rapid.IntRange(1, 3).Draw(t, label+".n")
	for i := 0; i < n; i++ {
		x.Parts = append(x.Parts, genXf2(t, distOnly, depth-1, label+".part"))
	}
	return x
}

// ---------------------------------------------------------------------------
// Support points of the primitives (closed forms): the point of the shape that
// is farthest in direction d.  These are where an over-tight box shows first.

func unitOrZero(v kit.V3) kit.V3 {
	n := v.Norm()
	if n < 1e-300 {
		return kit.V3{}
	}
	return v.Scale(1 / n)
}

func support3(s gen.Shape3, d kit.V3) []kit.V3 {
	d = d.Unit()
	projOut := func(u kit.V3) kit.V3 { return unitOrZero(d.Sub(u.Scale(d.Dot(u)))) }
	switch s.Kind {
	case "sphere":
		return []kit.V3{s.A.Add(d.Scale(s.R))}
	case "rect":
		var c kit.V3
		for i := 0; i < 3; i++ {
			if d[i] >= 0 {
				c[i] = s.B[i]
			} else {
				c[i] = s.A[i]
			}
		}
		return []kit.V3{c}
	case "capsule":
		return []kit.V3{s.A.Add(d.Scale(s.R)), s.B.Add(d.Scale(s.R))}
	case "cylinder":
		e := projOut(s.B.Sub(s.A).Unit())
		return []kit.V3{s.A.Add(e.Scale(s.R)), s.B.Add(e.Scale(s.R))}
	case "cone":
		e := projOut(s.A.Sub(s.B).Unit())
		return []kit.V3{s.A, s.B.Add(e.Scale(s.R))}
	case "torus":
		e := projOut(s.B.Unit())
		return []kit.V3{s.A.Add(e.Scale(s.R)).Add(d.Scale(s.R2))}
	}
	return nil
}

func support2(s gen.Shape2, d kit.V2) []kit.V2 {
	d = d.Unit()
	switch s.Kind {
	case "circle":
		return []kit.V2{s.A.Add(d.Scale(s.R))}
	case "rect":
		var c kit.V2
		for i := 0; i < 2; i++ {
			if d[i] >= 0 {
				c[i] = s.B[i]
			} else {
				c[i] = s.A[i]
			}
		}
		return []kit.V2{c}
	case "capsule":
		return []kit.V2{s.A.Add(d.Scale(s.R)), s.B.Add(d.Scale(s.R))}
	case "triangle":
		return []kit.V2{s.A, s.B, s.C}
	}
	return nil
}

var axisDirs3 = []kit.V3{{1, 0, 0}, {-1, 0, 0}, {0, 1, 0}, {0, -1, 0}, {0, 0, 1}, {0, 0, -1}}

func witnesses3(s gen.Shape3) []kit.V3 {
	out := []kit.V3{s.Centre()}
	for _, d := range axisDirs3 {
		out = append(out, support3(s, d)...)
	}
	return out
}

func witnesses2(s gen.Shape2) []kit.V3 {
	out := []kit.V3{v3(s.Centre())}
	for _, d := range []kit.V2{{1, 0}, {-1, 0}, {0, 1}, {0, -1}} {
		for _, p := range support2(s, d) {
			out = append(out, v3(p))
		}
	}
	return out
}

// extremeVerts returns, deterministically, the vertices of a point set that are
// extreme along each axis (plus the centroid).
func extremeVerts(ps []kit.V3) []kit.V3 {
	if len(ps) == 0 {
		return nil
	}
	sort.Slice(ps, func(i, j int) bool { return kit.V3Less(ps[i], ps[j]) })
	var out []kit.V3
	var c kit.V3
	for _, p := range ps {
		c = c.Add(p)
	}
	out = append(out, c.Scale(1/float64(len(ps))))
	for a := 0; a < 3; a++ {
		lo, hi := ps[0], ps[0]
		for _, p := range ps {
			if p[a] < lo[a] {
				lo = p
			}
			if p[a] > hi[a] {
				hi = p
			}
		}
		out = append(out, lo, hi)
	}
	return out
}
