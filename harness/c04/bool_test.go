package c04

import (
	"encoding/json"
	"fmt"
	"math"
	"reflect"
	"sort"

	"github.com/unixpickle/model3d/model2d"
	"github.com/unixpickle/model3d/model3d"
	"pgregory.net/rapid"
	"verifharness/gen"
	"verifharness/kit"
	"verifharness/m3"
)

// ---------------------------------------------------------------------------
// Joined / Intersected / Subtracted / Optimize / SolidMux: the oracle is the pointwise boolean formula over the
// operands' own Contains at the *same* point, so every comparison is exact and nothing is skipped.

type boolCase struct {
	Ops   []*gen.Node `json:"ops"`
	Perm  []int       `json:"perm"`
	Split int         `json:"split"` // subtraction: join(ops[:split]) minus join(ops[split:])
	Pts   []rawPt     `json:"pts"`
}

type bool2Case struct {
	Ops   []*gen.Node2 `json:"ops"`
	Perm  []int        `json:"perm"`
	Split int          `json:"split"`
	Pts   []rawPt      `json:"pts"`
}

func genPerm(t *rapid.T, n int) []int {
	id := make([]int, n)
	for i := range id {
		id[i] = i
	}
	return rapid.Permutation(id).Draw(t, "perm")
}

func mustJSON(v any) []byte {
	b, err := json.Marshal(v)
	if err != nil {
		panic(err)
	}
	return b
}

func validPerm(p []int, n int) bool {
	if len(p) != n {
		return false
	}
	q := append([]int(nil), p...)
	sort.Ints(q)
	for i, v := range q {
		if v != i {
			return false
		}
	}
	return true
}

// operand kinds: 0 primitive, 1 nested tree, 2 duplicate of an earlier operand
func genOps3(t *rapid.T, max int) []*gen.Node {
	n := rapid.IntRange(1, max).Draw(t, "nops")
	size := gen.LogF(t, 0.15, 1, "opsize")
	ops := make([]*gen.Node, 0, n)
	for i := 0; i < n; i++ {
		k := rapid.IntRange(0, 7).Draw(t, "opkind")
		switch {
		case k == 0 && i > 0:
			ops = append(ops, ops[rapid.IntRange(0, i-1).Draw(t, "dup")])
		case k <= 2:
			ops = append(ops, gen.NodeGen(t, rapid.IntRange(2, 3).Draw(t, "depth"), 8, false, "op"))
		default:
			s := gen.Shape3Gen(t, gen.AllKinds3, size, 8, "op.prim")
			ops = append(ops, &gen.Node{Op: "prim", Shape: &s})
		}
	}
	return ops
}

func genOps2(t *rapid.T, max int) []*gen.Node2 {
	n := rapid.IntRange(1, max).Draw(t, "nops")
	size := gen.LogF(t, 0.15, 1, "opsize")
	ops := make([]*gen.Node2, 0, n)
	for i := 0; i < n; i++ {
		k := rapid.IntRange(0, 7).Draw(t, "opkind")
		switch {
		case k == 0 && i > 0:
			ops = append(ops, ops[rapid.IntRange(0, i-1).Draw(t, "dup")])
		case k <= 2:
			ops = append(ops, gen.Node2Gen(t, rapid.IntRange(2, 3).Draw(t, "depth"), 8, "op"))
		default:
			s := gen.Shape2Gen(t, gen.AllKinds2, size, 8, "op.prim")
			ops = append(ops, &gen.Node2{Op: "prim", Shape: &s})
		}
	}
	return ops
}

func genBool3(t *rapid.T) boolCase {
	c := boolCase{Ops: genOps3(t, 6)}
	c.Perm = genPerm(t, len(c.Ops))
	if len(c.Ops) > 1 {
		c.Split = rapid.IntRange(1, len(c.Ops)-1).Draw(t, "split")
	}
	c.Pts = genRaw(t, 36, false)
	return c
}

func genBool2(t *rapid.T) bool2Case {
	c := bool2Case{Ops: genOps2(t, 6)}
	c.Perm = genPerm(t, len(c.Ops))
	if len(c.Ops) > 1 {
		c.Split = rapid.IntRange(1, len(c.Ops)-1).Draw(t, "split")
	}
	c.Pts = genRaw(t, 36, false)
	return c
}

// boolSuite abstracts over the dimension: everything is expressed as func(point) bool.
type boolSuite struct {
	n        int
	operand  []func(kit.V3) bool
	joined   func(kit.V3) bool // plain JoinedSolid
	joinedP  func(kit.V3) bool // permuted
	inter    func(kit.V3) bool
	interP   func(kit.V3) bool
	aliased  error             // set by a wrapper that found an earlier answer changed
	opt      func(kit.V3) bool // JoinedSolid.Optimize()
	optP     func(kit.V3) bool // permuted list optimised
	sub      func(kit.V3) bool // nil when n < 2
	subSplit int
	sub01    func(kit.V3) bool // operands[0] minus operands[1]; nil when n < 2
	muxHas   func(kit.V3) bool
	muxAll   func(kit.V3) []bool
	muxIter  func(kit.V3, func(int)) int
	muxP     func(kit.V3) []bool // AllContains of a mux built from the permuted list
	perm     []int
	// inBox[i] reports whether the point is inside operand i's own Min()/Max() box (closed)
	inBox []func(kit.V3) bool
	// statistics
	contractSkips int
}

func boolStr(b []bool) string {
	s := make([]byte, len(b))
	for i, v := range b {
		s[i] = '0'
		if v {
			s[i] = '1'
		}
	}
	return string(s)
}

// checkPoint evaluates every clause at one point.  It returns whether the operands disagree there.
func (s *boolSuite) checkPoint(p kit.V3) (mixed bool, err error) {
	b := make([]bool, s.n)
	or, and := false, true
	cnt := 0
	for i, f := range s.operand {
		b[i] = f(p)
		or = or || b[i]
		and = and && b[i]
		if b[i] {
			cnt++
		}
	}
	ctx := func() string { return fmt.Sprintf("at %v (operand Contains = %s)", p, boolStr(b)) }
	if got := s.joined(p); got != or {
		return false, fmt.Errorf("JoinedSolid.Contains = %v, OR of the operands = %v %s", got, or, ctx())
	}
	if got := s.joinedP(p); got != or {
		return false, fmt.Errorf("JoinedSolid of the permuted operands %v answers %v, original order %v %s", s.perm, got, or, ctx())
	}
	if got := s.inter(p); got != and {
		return false, fmt.Errorf("IntersectedSolid.Contains = %v, AND of the operands = %v %s", got, and, ctx())
	}
	if got := s.interP(p); got != and {
		return false, fmt.Errorf("IntersectedSolid of the permuted operands %v answers %v, original order %v %s", s.perm, got, and, ctx())
	}
	if s.sub != nil {
		pos, neg := false, false
		for i := range b {
			if i < s.subSplit {
				pos = pos || b[i]
			} else {
				neg = neg || b[i]
			}
		}
		if got := s.sub(p); got != (pos && !neg) {
			return false, fmt.Errorf("SubtractedSolid{join(ops[:%d]), join(ops[%d:])}.Contains = %v, want positive(%v) && !negative(%v) %s", s.subSplit, s.subSplit, got, pos, neg, ctx())
		}
		if got := s.sub01(p); got != (b[0] && !b[1]) {
			return false, fmt.Errorf("SubtractedSolid{ops[0], ops[1]}.Contains = %v, want %v %s", got, b[0] && !b[1], ctx())
		}
	}
	// The accelerated forms test bounding boxes before asking an operand, which is licensed by the documented
	// Solid contract ("Contains must always return false outside of the boundaries of the solid").  Where an
	// operand itself breaks that contract (primitives do so by a rounding error: a point one ulp beyond a
	// sphere's extreme point is still "within the radius"), the plain and the accelerated answers may
	// legitimately differ; that is property C03's business, the point is skipped here and counted.
	for i := range b {
		if b[i] && !s.inBox[i](p) {
			s.contractSkips++
			return or && !and, nil
		}
	}
	if got := s.opt(p); got != or {
		return false, fmt.Errorf("JoinedSolid.Optimize().Contains = %v, plain join = %v %s", got, or, ctx())
	}
	if got := s.optP(p); got != or {
		return false, fmt.Errorf("Optimize() of the permuted join %v answers %v, plain join = %v %s", s.perm, got, or, ctx())
	}
	if got := s.muxHas(p); got != or {
		return false, fmt.Errorf("SolidMux.Contains = %v, plain join = %v %s", got, or, ctx())
	}
	all := s.muxAll(p)
	if len(all) != s.n {
		return false, fmt.Errorf("SolidMux.AllContains returned %d flags for %d solids", len(all), s.n)
	}
	for i := range all {
		if all[i] != b[i] {
			return false, fmt.Errorf("SolidMux.AllContains = %s differs from the operands at index %d %s", boolStr(all), i, ctx())
		}
	}
	seen := make([]int, s.n)
	var bad error
	got := s.muxIter(p, func(i int) {
		if i < 0 || i >= s.n {
			bad = fmt.Errorf("SolidMux.IterContains called back with index %d of %d %s", i, s.n, ctx())
			return
		}
		seen[i]++
	})
	if bad != nil {
		return false, bad
	}
	if got != cnt {
		return false, fmt.Errorf("SolidMux.IterContains returned %d, %d operands contain the point %s", got, cnt, ctx())
	}
	for i := range seen {
		want := 0
		if b[i] {
			want = 1
		}
		if seen[i] != want {
			return false, fmt.Errorf("SolidMux.IterContains called back %d times for operand %d (want %d) %s", seen[i], i, want, ctx())
		}
	}
	if got := s.muxIter(p, nil); got != cnt {
		return false, fmt.Errorf("SolidMux.IterContains(nil callback) returned %d, want %d %s", got, cnt, ctx())
	}
	allP := s.muxP(p)
	if len(allP) != s.n {
		return false, fmt.Errorf("SolidMux (permuted).AllContains returned %d flags for %d solids", len(allP), s.n)
	}
	for k, idx := range s.perm {
		if allP[k] != b[idx] {
			return false, fmt.Errorf("SolidMux of the permuted list %v: AllContains[%d] = %v but that operand (original index %d) answers %v %s", s.perm, k, allP[k], idx, b[idx], ctx())
		}
	}
	return or && !and, nil
}

func (s *boolSuite) run(pts []kit.V3, o *kit.Obs, dup, nested bool) error {
	nMixed, nIn, nOut := 0, 0, 0
	for _, p := range pts {
		mixed, err := s.checkPoint(p)
		if err == nil {
			err = s.aliased
		}
		if err != nil {
			return err
		}
		if mixed {
			nMixed++
		} else if s.operand[0](p) {
			nIn++
		} else {
			nOut++
		}
	}
	o.Labelf("n:%d", s.n)
	if dup {
		o.Label("has-duplicate")
	}
	if nested {
		o.Label("has-nested")
	}
	if nMixed > 0 {
		o.Label("pts:operands-disagree")
	}
	if nIn > 0 {
		o.Label("pts:in-all")
	}
	if nOut > 0 {
		o.Label("pts:in-none")
	}
	if s.contractSkips > 0 {
		// a few points of the case, never the whole case
		o.Label("partial-skip:operand-contains-outside-own-box")
	}
	// non-trivial: at least two operands and a point on which they disagree (the join, the intersection
	// and the subtraction are then all decided by more than one operand)
	if s.n >= 2 && nMixed > 0 {
		o.NonTrivial()
	}
	return nil
}

func checkBool3(c boolCase, o *kit.Obs) error {
	n := len(c.Ops)
	if n == 0 || !validPerm(c.Perm, n) || (n > 1 && (c.Split < 1 || c.Split >= n)) {
		return fmt.Errorf("%w: malformed case", kit.ErrInfra)
	}
	solids := make([]model3d.Solid, n)
	built := map[string]model3d.Solid{} // keyed by the JSON of the operand: a function of the case, not of pointers
	var leaves []leaf
	dup, nested := false, false
	for i, op := range c.Ops {
		key := string(mustJSON(op))
		if s, ok := built[key]; ok {
			solids[i] = s // a true duplicate: the very same object twice
			dup = true
		} else {
			solids[i] = op.Build()
			built[key] = solids[i]
		}
		if op.Op != "prim" {
			nested = true
		}
		leaves = leaves3(op, kit.V3{}, leaves)
	}
	permuted := make([]model3d.Solid, n)
	for k, idx := range c.Perm {
		permuted[k] = solids[idx]
	}
	w := func(s model3d.Solid) func(kit.V3) bool {
		return func(p kit.V3) bool { return s.Contains(m3.C3(p)) }
	}
	s := &boolSuite{n: n, perm: c.Perm, subSplit: c.Split}
	for _, sd := range solids {
		s.operand = append(s.operand, w(sd))
		mn, mx := sd.Min(), sd.Max()
		s.inBox = append(s.inBox, func(p kit.V3) bool {
			return p[0] >= mn.X && p[1] >= mn.Y && p[2] >= mn.Z && p[0] <= mx.X && p[1] <= mx.Y && p[2] <= mx.Z
		})
	}
	// every combinator gets its own copy of the slice (SolidMux keeps the slice it is given)
	cp := func(x []model3d.Solid) []model3d.Solid { return append([]model3d.Solid(nil), x...) }
	// ... except for one slice that the caller keeps using, as in parts := ...; JoinedSolid(parts).Optimize():
	// the combinators may read it but it stays the caller's list of operands, in the caller's order
	mine, mineP := cp(solids), cp(permuted)
	s.joined = w(model3d.JoinedSolid(mine))
	s.joinedP = w(model3d.JoinedSolid(mineP))
	s.inter = w(model3d.IntersectedSolid(mine))
	s.interP = w(model3d.IntersectedSolid(mineP))
	s.opt = w(model3d.JoinedSolid(mine).Optimize())
	s.optP = w(model3d.JoinedSolid(mineP).Optimize())
	for k := range mine {
		if !sameOperand(mine[k], solids[k]) || !sameOperand(mineP[k], permuted[k]) {
			return fmt.Errorf("JoinedSolid.Optimize() rearranged the caller's slice of operands: position %d holds another solid now", k)
		}
	}
	if n >= 2 {
		s.sub = w(&model3d.SubtractedSolid{Positive: model3d.JoinedSolid(cp(solids[:c.Split])), Negative: model3d.JoinedSolid(cp(solids[c.Split:]))})
		s.sub01 = w(&model3d.SubtractedSolid{Positive: solids[0], Negative: solids[1]})
	}
	mux := model3d.NewSolidMux(cp(solids))
	muxP := model3d.NewSolidMux(cp(permuted))
	s.muxHas = w(mux)
	// an answer belongs to the caller: the previous one must read the same after the next query
	var prevAns, prevCopy []bool
	s.muxAll = func(p kit.V3) []bool {
		ans := mux.AllContains(m3.C3(p))
		for i := range prevAns {
			if prevAns[i] != prevCopy[i] {
				s.aliased = fmt.Errorf("SolidMux.AllContains: the answer for an earlier point changed (entry %d) when another point was asked", i)
			}
		}
		prevAns, prevCopy = ans, append([]bool(nil), ans...)
		return ans
	}
	s.muxIter = func(p kit.V3, f func(int)) int { return mux.IterContains(m3.C3(p), f) }
	s.muxP = func(p kit.V3) []bool { return muxP.AllContains(m3.C3(p)) }
	if got := mux.Solids(); len(got) != n {
		return fmt.Errorf("SolidMux.Solids() has %d entries for %d solids", len(got), n)
	}
	return s.run(derive(leaves, c.Pts, 0, 3), o, dup, nested)
}

func checkBool2(c bool2Case, o *kit.Obs) error {
	n := len(c.Ops)
	if n == 0 || !validPerm(c.Perm, n) || (n > 1 && (c.Split < 1 || c.Split >= n)) {
		return fmt.Errorf("%w: malformed case", kit.ErrInfra)
	}
	solids := make([]model2d.Solid, n)
	built := map[string]model2d.Solid{}
	var leaves []leaf
	dup, nested := false, false
	for i, op := range c.Ops {
		key := string(mustJSON(op))
		if s, ok := built[key]; ok {
			solids[i] = s
			dup = true
		} else {
			solids[i] = op.Build()
			built[key] = solids[i]
		}
		if op.Op != "prim" {
			nested = true
		}
		leaves = leaves2(op, leaves)
	}
	permuted := make([]model2d.Solid, n)
	for k, idx := range c.Perm {
		permuted[k] = solids[idx]
	}
	w := func(s model2d.Solid) func(kit.V3) bool {
		return func(p kit.V3) bool { return s.Contains(model2d.XY(p[0], p[1])) }
	}
	s := &boolSuite{n: n, perm: c.Perm, subSplit: c.Split}
	for _, sd := range solids {
		s.operand = append(s.operand, w(sd))
		mn, mx := sd.Min(), sd.Max()
		s.inBox = append(s.inBox, func(p kit.V3) bool {
			return p[0] >= mn.X && p[1] >= mn.Y && p[0] <= mx.X && p[1] <= mx.Y
		})
	}
	cp := func(x []model2d.Solid) []model2d.Solid { return append([]model2d.Solid(nil), x...) }
	// ... except for one slice that the caller keeps using, as in parts := ...; JoinedSolid(parts).Optimize():
	// the combinators may read it but it stays the caller's list of operands, in the caller's order
	mine, mineP := cp(solids), cp(permuted)
	s.joined = w(model2d.JoinedSolid(mine))
	s.joinedP = w(model2d.JoinedSolid(mineP))
	s.inter = w(model2d.IntersectedSolid(mine))
	s.interP = w(model2d.IntersectedSolid(mineP))
	s.opt = w(model2d.JoinedSolid(mine).Optimize())
	s.optP = w(model2d.JoinedSolid(mineP).Optimize())
	for k := range mine {
		if !sameOperand(mine[k], solids[k]) || !sameOperand(mineP[k], permuted[k]) {
			return fmt.Errorf("JoinedSolid.Optimize() rearranged the caller's slice of operands: position %d holds another solid now", k)
		}
	}
	if n >= 2 {
		s.sub = w(&model2d.SubtractedSolid{Positive: model2d.JoinedSolid(cp(solids[:c.Split])), Negative: model2d.JoinedSolid(cp(solids[c.Split:]))})
		s.sub01 = w(&model2d.SubtractedSolid{Positive: solids[0], Negative: solids[1]})
	}
	mux := model2d.NewSolidMux(cp(solids))
	muxP := model2d.NewSolidMux(cp(permuted))
	s.muxHas = w(mux)
	// an answer belongs to the caller: the previous one must read the same after the next query
	var prevAns, prevCopy []bool
	s.muxAll = func(p kit.V3) []bool {
		ans := mux.AllContains(model2d.XY(p[0], p[1]))
		for i := range prevAns {
			if prevAns[i] != prevCopy[i] {
				s.aliased = fmt.Errorf("SolidMux.AllContains: the answer for an earlier point changed (entry %d) when another point was asked", i)
			}
		}
		prevAns, prevCopy = ans, append([]bool(nil), ans...)
		return ans
	}
	s.muxIter = func(p kit.V3, f func(int)) int { return mux.IterContains(model2d.XY(p[0], p[1]), f) }
	s.muxP = func(p kit.V3) []bool { return muxP.AllContains(model2d.XY(p[0], p[1])) }
	if got := mux.Solids(); len(got) != n {
		return fmt.Errorf("SolidMux.Solids() has %d entries for %d solids", len(got), n)
	}
	return s.run(derive(leaves, c.Pts, 0, 2), o, dup, nested)
}

// ---------------------------------------------------------------------------
// StackSolids / StackedSolid: OR of the operands translated along z so that each one's box sits on top of
// the previous one's.  The harness accumulates the offsets its own way (first floor plus the sum of the box
// heights), so its evaluation point can differ from the library's by a few ulps: points within
// margin = 1e-9 * scale of a primitive boundary of an operand (analytic reference) are not decided by that
// operand; if no other operand decides the point it is skipped (and counted).

type stackCase struct {
	Ops []*gen.Node `json:"ops"`
	Pts []rawPt     `json:"pts"`
}

func genStack(t *rapid.T) stackCase {
	c := stackCase{Ops: genOps3(t, 5), Pts: genRaw(t, 30, false)}
	if rapid.IntRange(0, 3).Draw(t, "prealigned") == 0 {
		// parts that are (partly) modelled in place: boxes on a quarter grid, some of which already sit exactly on
		// the top of the part below them (the move is by exactly zero), others modelled at z = 0
		c.Ops = nil
		n := rapid.IntRange(3, 5).Draw(t, "nparts")
		top := float64(rapid.IntRange(-4, 4).Draw(t, "floor")) / 4
		for i := 0; i < n; i++ {
			h := float64(rapid.IntRange(1, 6).Draw(t, "h")) / 4
			z0 := 0.0
			if i == 0 || rapid.IntRange(0, 2).Draw(t, "inplace") != 0 {
				z0 = top
			}
			x0, y0 := float64(rapid.IntRange(-4, 2).Draw(t, "x0"))/4, float64(rapid.IntRange(-4, 2).Draw(t, "y0"))/4
			w, d := float64(rapid.IntRange(1, 6).Draw(t, "w"))/4, float64(rapid.IntRange(1, 6).Draw(t, "d"))/4
			sh := gen.Shape3{Kind: "rect", A: kit.V3{x0, y0, z0}, B: kit.V3{x0 + w, y0 + d, z0 + h}}
			c.Ops = append(c.Ops, &gen.Node{Op: "prim", Shape: &sh})
			top += h
		}
	}
	return c
}

func checkStack(c stackCase, o *kit.Obs) error {
	n := len(c.Ops)
	if n == 0 {
		return fmt.Errorf("%w: malformed case", kit.ErrInfra)
	}
	solids := make([]model3d.Solid, n)
	for i, op := range c.Ops {
		solids[i] = op.Build()
	}
	// independently accumulated offsets: operand i's floor is floor0 + sum of the heights below it
	delta := make([]float64, n)
	floor := solids[0].Min().Z
	scale := 1.0
	for i, s := range solids {
		mn, mx := s.Min(), s.Max()
		if !(mx.Z >= mn.Z) {
			return fmt.Errorf("%w: operand %d has an inverted box", kit.ErrInfra, i)
		}
		delta[i] = floor - mn.Z
		floor += mx.Z - mn.Z
		scale = math.Max(scale, math.Max(m3.V3(mn).MaxAbs(), m3.V3(mx).MaxAbs()))
	}
	scale = math.Max(scale, math.Abs(floor))
	margin := 1e-9 * scale

	var leaves []leaf
	for i, op := range c.Ops {
		leaves = leaves3(op, kit.V3{0, 0, delta[i]}, leaves) // where the operand ends up
	}
	for _, op := range c.Ops[1:] {
		leaves = leaves3(op, kit.V3{}, leaves) // where it would be if the translation were forgotten
	}
	stackFn := model3d.StackSolids(solids...)
	stacked := model3d.StackedSolid(append([]model3d.Solid(nil), solids...))
	o.Labelf("n:%d", n)
	upper, decided, skipped := false, 0, 0
	for _, p := range derive(leaves, c.Pts, 0, 3) {
		want, sure := false, true
		hit := -1
		for i := range solids {
			q := p.Sub(kit.V3{0, 0, delta[i]})
			_, s := c.Ops[i].RefContains(q, margin)
			if !s {
				sure = false
				continue
			}
			if solids[i].Contains(m3.C3(q)) {
				want = true
				if hit < 0 {
					hit = i
				}
			}
		}
		if !want && !sure {
			skipped++
			continue
		}
		decided++
		if want && hit >= 2 {
			only := true
			for i := 0; i < hit; i++ {
				if solids[i].Contains(m3.C3(p.Sub(kit.V3{0, 0, delta[i]}))) {
					only = false
				}
			}
			if only {
				upper = true
			}
		}
		if got := stackFn.Contains(m3.C3(p)); got != want {
			return fmt.Errorf("StackSolids(...).Contains(%v) = %v, want %v: offsets %v, first deciding operand %d", p, got, want, delta, hit)
		}
		if got := stacked.Contains(m3.C3(p)); got != want {
			return fmt.Errorf("StackedSolid.Contains(%v) = %v, want %v: offsets %v, first deciding operand %d", p, got, want, delta, hit)
		}
	}
	if decided == 0 {
		o.Skip("every-point-near-an-operand-boundary")
	} else if skipped > 0 {
		o.Label("partial-skip:near-operand-boundary")
	}
	o.Labelf("decided-fraction:%d0%%", decided*10/(decided+skipped+1))
	// non-trivial: three or more operands and a point held only by the third or a later one (its offset is the
	// sum of at least two heights)
	if n >= 3 && upper {
		o.NonTrivial()
		o.Label("pts:only-in-upper-operand")
	}
	return nil
}

// sameOperand tells whether two interface values are the same operand object, as far as that can be told
// without calling it: same dynamic type and, where the type allows it, equal value (pointers: same pointer).
func sameOperand(a, b interface{}) (same bool) {
	va, vb := reflect.ValueOf(a), reflect.ValueOf(b)
	if va.IsValid() != vb.IsValid() || (va.IsValid() && va.Type() != vb.Type()) {
		return false
	}
	if !va.IsValid() {
		return true
	}
	switch va.Kind() {
	case reflect.Slice:
		return va.Len() == vb.Len() && (va.Len() == 0 || va.Pointer() == vb.Pointer())
	case reflect.Func, reflect.Map:
		return va.Pointer() == vb.Pointer()
	}
	if !va.Type().Comparable() {
		return true
	}
	defer func() {
		if recover() != nil {
			same = true // an interface field holds something that cannot be compared
		}
	}()
	return a == b
}
