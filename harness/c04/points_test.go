package c04

import (
	"math"

	"pgregory.net/rapid"
	"verifharness/gen"
	"verifharness/kit"
)

// Query points are stored in the case as small "recipes" (data only); the
// concrete coordinates are derived deterministically inside Check from the
// recipe and the operands' analytic references.  2D points live in the z = 0
// plane of kit.V3.

// rawPt is a recipe for a handful of query points.
//
//	mode 0: one point of the (10 % enlarged) bounding region, V in [-1,1]^3 as box coordinates
//	mode 1: one point around the centre of leaf I (V scaled by half its size): mostly inside
//	mode 2: the boundary point of leaf I nearest to a random point, and that point moved along the
//	        normal by +-T*size and (smooth joins) by fractions of the smoothing radius
//	mode 3: a seam point of leaves I and J (alternating projections onto the two boundaries) and
//	        points moved from it along the bisector of the two normals by T*size and by fractions
//	        of the smoothing radius
//	mode 4: a point of the {min, mid, max}^3 lattice of leaf I's bounding box (exactly on a box
//	        face, edge or corner: the closed-box conventions of the accelerated forms)
//	mode 9: V itself (hand-written replays)
type rawPt struct {
	Mode int     `json:"m"`
	I    int     `json:"i,omitempty"`
	J    int     `json:"j,omitempty"`
	V    kit.V3  `json:"v"`
	T    float64 `json:"t,omitempty"`
}

// leaf is an analytic primitive placed in the scene.
type leaf interface {
	centre() kit.V3
	size() float64
	// ref returns the signed distance (positive inside), a nearest boundary point and an outward
	// direction there (unit; zero if unknown)
	ref(p kit.V3) (sdf float64, nearest, normal kit.V3)
	bounds() (lo, hi kit.V3)
}

type leaf3 struct {
	s     gen.Shape3
	shift kit.V3
}

func (l leaf3) centre() kit.V3 { return l.s.Centre().Add(l.shift) }
func (l leaf3) size() float64  { return l.s.Size() }
func (l leaf3) ref(p kit.V3) (float64, kit.V3, kit.V3) {
	r := l.s.RefSDF(p.Sub(l.shift))
	n := r.Normal
	if !r.Smooth || !(math.Abs(n.Norm()-1) < 1e-6) {
		// fall back to the direction from the nearest point to the query (outside) or its reverse (inside)
		d := p.Sub(l.shift).Sub(r.Nearest)
		if r.SDF > 0 {
			d = d.Scale(-1)
		}
		if l := d.Norm(); l > 0 {
			n = d.Scale(1 / l)
		} else {
			n = kit.V3{}
		}
	}
	return r.SDF, r.Nearest.Add(l.shift), n
}
func (l leaf3) bounds() (kit.V3, kit.V3) {
	b := l.s.Build()
	mn, mx := b.Min(), b.Max()
	return kit.V3{mn.X, mn.Y, mn.Z}.Add(l.shift), kit.V3{mx.X, mx.Y, mx.Z}.Add(l.shift)
}

type leaf2 struct{ s gen.Shape2 }

func up(v kit.V2) kit.V3   { return kit.V3{v[0], v[1], 0} }
func down(v kit.V3) kit.V2 { return kit.V2{v[0], v[1]} }

func (l leaf2) centre() kit.V3 { return up(l.s.Centre()) }
func (l leaf2) size() float64  { return l.s.Size() }
func (l leaf2) ref(p kit.V3) (float64, kit.V3, kit.V3) {
	r := l.s.RefSDF(down(p))
	n := r.Normal
	if !r.Smooth || !(math.Abs(n.Norm()-1) < 1e-6) {
		d := down(p).Sub(r.Nearest)
		if r.SDF > 0 {
			d = d.Scale(-1)
		}
		if l := d.Norm(); l > 0 {
			n = d.Scale(1 / l)
		} else {
			n = kit.V2{}
		}
	}
	return r.SDF, up(r.Nearest), up(n)
}
func (l leaf2) bounds() (kit.V3, kit.V3) {
	b := l.s.Build()
	mn, mx := b.Min(), b.Max()
	return kit.V3{mn.X, mn.Y, 0}, kit.V3{mx.X, mx.Y, 0}
}

func finite3(p kit.V3) bool { return p.Finite() }

// derive expands the recipes.  radius > 0 adds offsets at fractions of the smoothing radius.
// dim 2 forces z = 0.
func derive(leaves []leaf, raws []rawPt, radius float64, dim int) []kit.V3 {
	if len(leaves) == 0 {
		return nil
	}
	lo, hi := leaves[0].bounds()
	for _, l := range leaves[1:] {
		a, b := l.bounds()
		for k := 0; k < 3; k++ {
			lo[k] = math.Min(lo[k], a[k])
			hi[k] = math.Max(hi[k], b[k])
		}
	}
	ext := hi.Sub(lo).Scale(0.1).Add(kit.V3{radius, radius, radius})
	lo, hi = lo.Sub(ext), hi.Add(ext)
	var out []kit.V3
	add := func(p kit.V3) {
		if dim == 2 {
			p[2] = 0
		}
		if finite3(p) {
			out = append(out, p)
		}
	}
	radFracs := []float64{0.05, 0.29, 0.3, 0.41, 0.42, 0.7, 0.999, 1.001}
	for _, r := range raws {
		v := r.V
		if dim == 2 {
			v[2] = 0
		}
		i := ((r.I % len(leaves)) + len(leaves)) % len(leaves)
		j := ((r.J % len(leaves)) + len(leaves)) % len(leaves)
		li, lj := leaves[i], leaves[j]
		switch r.Mode {
		case 0:
			var p kit.V3
			for k := 0; k < 3; k++ {
				p[k] = lo[k] + (v[k]+1)/2*(hi[k]-lo[k])
			}
			add(p)
		case 1:
			add(li.centre().Add(v.Scale(li.size() * 0.5)))
		case 2:
			q := li.centre().Add(v.Scale(li.size()))
			_, s, n := li.ref(q)
			add(s)
			t := r.T * li.size()
			add(s.Add(n.Scale(t)))
			add(s.Sub(n.Scale(t)))
			if radius > 0 {
				add(s.Add(n.Scale(radius * 0.5)))
				add(s.Add(n.Scale(radius * 0.999)))
				add(s.Add(n.Scale(radius * 1.001)))
			}
		case 3:
			q := li.centre().Add(v.Scale(li.size()))
			var ni, nj kit.V3
			for it := 0; it < 8; it++ {
				_, q, ni = li.ref(q)
				_, q, nj = lj.ref(q)
			}
			_, _, ni = li.ref(q)
			add(q)
			b := ni.Add(nj)
			if l := b.Norm(); l > 1e-6 {
				b = b.Scale(1 / l)
			} else {
				b = ni
			}
			t := r.T * math.Min(li.size(), lj.size())
			add(q.Add(b.Scale(t)))
			add(q.Sub(b.Scale(t)))
			if radius > 0 {
				for _, f := range radFracs {
					add(q.Add(b.Scale(radius * f)))
				}
				// off the bisector as well
				add(q.Add(ni.Scale(radius * 0.2)).Add(nj.Scale(radius * 0.05)))
				add(q.Add(ni.Scale(radius * 0.05)).Add(nj.Scale(radius * 0.25)))
			}
		case 4:
			a, b := li.bounds()
			var p kit.V3
			for k := 0; k < 3; k++ {
				switch {
				case v[k] < -1.0/3:
					p[k] = a[k]
				case v[k] > 1.0/3:
					p[k] = b[k]
				default:
					p[k] = a[k] + (b[k]-a[k])/2
				}
			}
			add(p)
		case 9:
			add(r.V)
		}
	}
	return out
}

// genRaw draws recipes: a fixed mix of the modes.
func genRaw(t *rapid.T, n int, smooth bool) []rawPt {
	out := make([]rawPt, 0, n)
	for k := 0; k < n; k++ {
		// weights: box 3, inside 3, surface 4, seam 5, bounds-lattice 2
		w := rapid.IntRange(0, 16).Draw(t, "pt.mode")
		m := 0
		switch {
		case w < 3:
			m = 0
		case w < 6:
			m = 1
		case w < 10:
			m = 2
		case w < 15:
			m = 3
		default:
			m = 4
		}
		r := rawPt{Mode: m, V: gen.Vec3(t, 1, "pt.v")}
		if m != 0 {
			r.I = rapid.IntRange(0, 23).Draw(t, "pt.i")
		}
		if m == 3 {
			r.J = rapid.IntRange(0, 23).Draw(t, "pt.j")
		}
		if m == 2 || m == 3 {
			r.T = gen.LogF(t, 1e-12, 0.3, "pt.t")
		}
		out = append(out, r)
	}
	return out
}

func leaves3(n *gen.Node, shift kit.V3, out []leaf) []leaf {
	if n.Op == "prim" {
		return append(out, leaf3{*n.Shape, shift})
	}
	for _, k := range n.Kids {
		out = leaves3(k, shift, out)
	}
	return out
}

func leaves2(n *gen.Node2, out []leaf) []leaf {
	if n.Op == "prim" {
		return append(out, leaf2{*n.Shape})
	}
	for _, k := range n.Kids {
		out = leaves2(k, out)
	}
	return out
}
