package c04

import (
	"testing"

	"verifharness/kit"
)

const rule = "operand lists: 1-6 operands (analytic primitives, nested join/intersect/subtract trees, exact duplicates; sizes 0.05-1 in a 2-unit region so that lists range from disjoint to heavily overlapping) with a random permutation; ~100-300 query points per list derived from recipes (bounding region, operand interiors, operand boundaries +-1e-12..0.3 sizes, seams of operand pairs found by alternating projection, faces/edges/corners of operand boxes, multiples of the smoothing radius). Box sets: histories of 1-9 Add/Remove/AddRectSet/RemoveRectSet steps on a 3-5 cell grid with integer or random coordinates, compared after every step on the full half lattice. Non-trivial: boolean clauses: >= 2 operands and a point on which they disagree; stack: >= 3 operands and a point held only by the third or a later operand; smooth joins: >= 3 operands and a point outside all of them within the radius of >= 2; box sets: a removal that cuts through an earlier added box. Distinct: hash of the JSON case."

func TestProp(t *testing.T) {
	kit.Run(t, "C04", rule,
		kit.Clause[boolCase]{Name: "C04/bool3", Quick: 6000, Thorough: 200000, Gen: genBool3, Check: checkBool3, Fresh: true},
		kit.Clause[bool2Case]{Name: "C04/bool2", Quick: 5000, Thorough: 150000, Gen: genBool2, Check: checkBool2, Fresh: true},
		kit.Clause[stackCase]{Name: "C04/stack3", Quick: 3000, Thorough: 100000, Gen: genStack, Check: checkStack},
		kit.Clause[smoothCase]{Name: "C04/smooth3", Quick: 5000, Thorough: 150000, Gen: genSmooth3, Check: checkSmooth3},
		kit.Clause[smooth2Case]{Name: "C04/smooth2", Quick: 4000, Thorough: 120000, Gen: genSmooth2, Check: checkSmooth2},
		kit.Clause[rsCase]{Name: "C04/rectset", Quick: 6000, Thorough: 200000, Gen: genRS, Check: checkRS, Fresh: true},
		kit.Clause[rsCase]{Name: "C04/rectset-empty", Quick: 200, Thorough: 5000, Gen: genRSEmpty, Check: checkRSEmpty},
	)
}
