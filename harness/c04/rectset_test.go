package c04

import (
	"fmt"
	"math"

	"github.com/unixpickle/model3d/model3d"
	"github.com/unixpickle/model3d/toolbox3d"
	"pgregory.net/rapid"
	"verifharness/gen"
	"verifharness/kit"
)

// toolbox3d.RectSet as a state machine against an occupancy grid.
//
// Boxes have their corners on a per-axis table of strictly increasing coordinates (plain integers or random
// gaps); the library only copies and compares these numbers, so every comparison below is exact.  Cell k of an
// axis is (coords[k], coords[k+1]); the outermost cell layer is never touched by a box, so the probe lattice
// also covers the outside of the set.
//
// Probe lattice: per axis every table value and every midpoint of neighbouring values ("half lattice"), i.e.
// cell centres, face centres, edge midpoints and corners.  A probe touches 1, 2, 4 or 8 cells.
//
// Expected answer and the closed/open convention.  A RectSet is documented as "the set of all points contained
// in a union of rectangular volumes", and a rectangular volume (model3d.Rect) contains its boundary.  So:
//   * all touched cells occupied  -> contained under every reading;
//   * no touched cell occupied    -> not contained (the point is not in the closure of what is left);
//   * mixed                       -> contained (it lies on the closed box of an occupied cell), EXCEPT when the
//     point lies on the boundary of a volume that was removed after the point was last covered by an added
//     volume: "set minus a closed box" would delete such a point while "union of the remaining boxes" keeps
//     it, the documentation does not say which, and the probe is skipped.  This is tracked per probe as a
//     taint bit: Add(A) clears it on the closed box A, Remove(B) clears it in the open interior of B and sets
//     it on B's boundary; AddRectSet/RemoveRectSet propagate the other set's state (see applySet).

type rsOp struct {
	Kind string `json:"kind"`          // add, remove, addset, removeset
	Box  [6]int `json:"box,omitempty"` // cell index range [min, max) per axis: minX, minY, minZ, maxX, maxY, maxZ
	Sub  []rsOp `json:"sub,omitempty"` // addset/removeset: the history (add/remove) that builds the other set
}

type rsCase struct {
	Coords [3][]float64 `json:"coords"`
	Ops    []rsOp       `json:"ops"`
	// UnitLog2: the coordinate table is in units of 2^UnitLog2 (an exact rescaling; 2^-40 is about 1e-12)
	UnitLog2 int `json:"unit_log2,omitempty"`
}

func (c *rsCase) rescale(o *kit.Obs) {
	if c.UnitLog2 == 0 {
		return
	}
	for a := range c.Coords {
		t := make([]float64, len(c.Coords[a]))
		for i, x := range c.Coords[a] {
			t[i] = math.Ldexp(x, c.UnitLog2)
		}
		c.Coords[a] = t
	}
	o.Label("rescaled")
}

const (
	rsMinCells = 3
	rsMaxCells = 5
)

func genBox(t *rapid.T, n [3]int) [6]int {
	var b [6]int
	for a := 0; a < 3; a++ {
		lo := rapid.IntRange(1, n[a]).Draw(t, "box.min")
		hi := rapid.IntRange(lo+1, n[a]+1).Draw(t, "box.max")
		b[a], b[a+3] = lo, hi
	}
	return b
}

func genRS(t *rapid.T) rsCase {
	var c rsCase
	var n [3]int
	integer := rapid.Bool().Draw(t, "integer-coords")
	for a := 0; a < 3; a++ {
		n[a] = rapid.IntRange(rsMinCells, rsMaxCells).Draw(t, "cells")
		// n[a] usable cells plus one empty layer on each side: n+3 table entries
		x := float64(rapid.IntRange(-4, 1).Draw(t, "base"))
		if !integer {
			x = gen.F(t, -3, 1, "base.f")
		}
		for k := 0; k < n[a]+3; k++ {
			c.Coords[a] = append(c.Coords[a], x)
			if integer {
				x += 1
			} else {
				x += gen.LogF(t, 0.01, 3, "gap") // strictly positive by construction
			}
		}
	}
	nops := rapid.IntRange(1, 9).Draw(t, "nops")
	for i := 0; i < nops; i++ {
		w := rapid.IntRange(0, 9).Draw(t, "op.kind")
		switch {
		case w < 4 || i == 0:
			c.Ops = append(c.Ops, rsOp{Kind: "add", Box: genBox(t, n)})
		case w < 8:
			c.Ops = append(c.Ops, rsOp{Kind: "remove", Box: genBox(t, n)})
		default:
			op := rsOp{Kind: "addset"}
			if w == 9 {
				op.Kind = "removeset"
			}
			m := rapid.IntRange(0, 3).Draw(t, "sub.n")
			for j := 0; j < m; j++ {
				k := "add"
				if j > 0 && rapid.IntRange(0, 2).Draw(t, "sub.remove") == 0 {
					k = "remove"
				}
				op.Sub = append(op.Sub, rsOp{Kind: k, Box: genBox(t, n)})
			}
			c.Ops = append(c.Ops, op)
		}
	}
	if rapid.IntRange(0, 2).Draw(t, "rescaled") == 0 {
		c.UnitLog2 = rapid.SampledFrom([]int{-45, -40, -33, -30, -20, 10, 30}).Draw(t, "unit_log2")
	}
	return c
}

// rsModel is the occupancy grid plus the taint bits of the half lattice.
type rsModel struct {
	n     [3]int // cells per axis (including the two empty border layers)
	occ   []bool
	taint []bool
	adds  [][6]int // boxes added so far (for the non-trivial rule)
	split bool     // a removal cut through an earlier added box
}

func newModel(n [3]int) *rsModel {
	return &rsModel{n: n, occ: make([]bool, n[0]*n[1]*n[2]), taint: make([]bool, (2*n[0]+1)*(2*n[1]+1)*(2*n[2]+1))}
}

func (m *rsModel) cell(x, y, z int) bool {
	if x < 0 || y < 0 || z < 0 || x >= m.n[0] || y >= m.n[1] || z >= m.n[2] {
		return false
	}
	return m.occ[x+m.n[0]*(y+m.n[1]*z)]
}

func (m *rsModel) hidx(h [3]int) int {
	return h[0] + (2*m.n[0]+1)*(h[1]+(2*m.n[1]+1)*h[2])
}

func (m *rsModel) empty() bool {
	for _, b := range m.occ {
		if b {
			return false
		}
	}
	return true
}

// touched returns how many of the cells touching half-lattice point h are occupied and how many there are.
func (m *rsModel) touched(h [3]int) (occ, total int) {
	var rng [3][]int
	for a := 0; a < 3; a++ {
		if h[a]%2 == 1 {
			rng[a] = []int{h[a] / 2}
		} else {
			rng[a] = []int{h[a]/2 - 1, h[a] / 2}
		}
	}
	for _, x := range rng[0] {
		for _, y := range rng[1] {
			for _, z := range rng[2] {
				total++
				if m.cell(x, y, z) {
					occ++
				}
			}
		}
	}
	return
}

func (m *rsModel) forLattice(f func(h [3]int)) {
	for z := 0; z <= 2*m.n[2]; z++ {
		for y := 0; y <= 2*m.n[1]; y++ {
			for x := 0; x <= 2*m.n[0]; x++ {
				f([3]int{x, y, z})
			}
		}
	}
}

// position of half-lattice point h relative to the box: 2 strictly inside, 1 on the boundary, 0 outside the closed box
func relBox(h [3]int, b [6]int) int {
	res := 2
	for a := 0; a < 3; a++ {
		lo, hi := 2*b[a], 2*b[a+3]
		switch {
		case h[a] < lo || h[a] > hi:
			return 0
		case h[a] == lo || h[a] == hi:
			res = 1
		}
	}
	return res
}

func (m *rsModel) setBox(b [6]int, v bool) {
	for z := b[2]; z < b[5]; z++ {
		for y := b[1]; y < b[4]; y++ {
			for x := b[0]; x < b[3]; x++ {
				m.occ[x+m.n[0]*(y+m.n[1]*z)] = v
			}
		}
	}
}

func (m *rsModel) add(b [6]int) {
	m.setBox(b, true)
	m.forLattice(func(h [3]int) {
		if relBox(h, b) > 0 {
			m.taint[m.hidx(h)] = false
		}
	})
	m.adds = append(m.adds, b)
}

func (m *rsModel) remove(b [6]int) {
	for _, a := range m.adds {
		overlap, inside := true, true
		for k := 0; k < 3; k++ {
			if a[k] >= b[k+3] || b[k] >= a[k+3] {
				overlap = false
			}
			if a[k] < b[k] || a[k+3] > b[k+3] {
				inside = false
			}
		}
		if overlap && !inside {
			m.split = true
		}
	}
	m.setBox(b, false)
	m.forLattice(func(h [3]int) {
		switch relBox(h, b) {
		case 2:
			m.taint[m.hidx(h)] = false
		case 1:
			m.taint[m.hidx(h)] = true
		}
	})
}

// applySet merges another set's model.  At a probe p of the other set:
//
//	all touched cells occupied: p is interior to the other volume -> surely added / surely removed;
//	none occupied:              the other set does not reach p    -> nothing changes at p;
//	mixed:                      p is on the other set's boundary  -> adding it surely covers p if the other set
//	                            surely contains p (not tainted there), anything else is convention dependent.
func (m *rsModel) applySet(o *rsModel, add bool) {
	m.forLattice(func(h [3]int) {
		occ, total := o.touched(h)
		i := m.hidx(h)
		switch {
		case occ == total:
			m.taint[i] = false
		case occ == 0:
		default:
			if add && !o.taint[i] {
				m.taint[i] = false
			} else {
				m.taint[i] = true
			}
		}
	})
	for i, v := range o.occ {
		if v {
			m.occ[i] = add
		}
	}
	if add {
		m.adds = append(m.adds, o.adds...)
	} else {
		// removing the other volume cuts an earlier box if some added box is partly covered by it
		for _, a := range m.adds {
			in, out := 0, 0
			for z := a[2]; z < a[5]; z++ {
				for y := a[1]; y < a[4]; y++ {
					for x := a[0]; x < a[3]; x++ {
						if o.cell(x, y, z) {
							in++
						} else {
							out++
						}
					}
				}
			}
			if in > 0 && out > 0 {
				m.split = true
			}
		}
	}
}

func rsRect(c *rsCase, b [6]int) *model3d.Rect {
	return &model3d.Rect{
		MinVal: model3d.XYZ(c.Coords[0][b[0]], c.Coords[1][b[1]], c.Coords[2][b[2]]),
		MaxVal: model3d.XYZ(c.Coords[0][b[3]], c.Coords[1][b[4]], c.Coords[2][b[5]]),
	}
}

func (c *rsCase) coord(a, h int) float64 {
	if h%2 == 0 {
		return c.Coords[a][h/2]
	}
	lo, hi := c.Coords[a][h/2], c.Coords[a][h/2+1]
	return lo + (hi-lo)/2
}

func validBox(b [6]int, n [3]int) bool {
	for a := 0; a < 3; a++ {
		if b[a] < 1 || b[a+3] <= b[a] || b[a+3] > n[a]-1 {
			return false
		}
	}
	return true
}

type rsStats struct {
	mixedIn, skipped, emptySteps int
}

// compare checks Min/Max and Solid() of rs against the model on the whole probe lattice.
func rsCompare(c *rsCase, rs *toolbox3d.RectSet, m *rsModel, st *rsStats, step string) error {
	solid := rs.Solid()
	if m.empty() {
		st.emptySteps++
		// an empty set contains nothing; its box is not specified
		var bad error
		m.forLattice(func(h [3]int) {
			p := model3d.XYZ(c.coord(0, h[0]), c.coord(1, h[1]), c.coord(2, h[2]))
			if bad == nil && solid.Contains(p) {
				bad = fmt.Errorf("%s: the set is empty but Solid().Contains(%v) = true", step, p)
			}
		})
		if bad != nil {
			return bad
		}
		// the library represents the empty solid by a zero box at the origin: the one point worth an extra probe
		if solid.Contains(model3d.Coord3D{}) {
			return fmt.Errorf("%s: the set is empty but Solid().Contains((0,0,0)) = true", step)
		}
		return nil
	}
	// bounding box of the occupied cells
	lo, hi := [3]int{1 << 30, 1 << 30, 1 << 30}, [3]int{-1, -1, -1}
	for z := 0; z < m.n[2]; z++ {
		for y := 0; y < m.n[1]; y++ {
			for x := 0; x < m.n[0]; x++ {
				if m.cell(x, y, z) {
					for a, v := range [3]int{x, y, z} {
						if v < lo[a] {
							lo[a] = v
						}
						if v+1 > hi[a] {
							hi[a] = v + 1
						}
					}
				}
			}
		}
	}
	wantMin := model3d.XYZ(c.Coords[0][lo[0]], c.Coords[1][lo[1]], c.Coords[2][lo[2]])
	wantMax := model3d.XYZ(c.Coords[0][hi[0]], c.Coords[1][hi[1]], c.Coords[2][hi[2]])
	if rs.Min() != wantMin || rs.Max() != wantMax {
		return fmt.Errorf("%s: RectSet box is %v..%v, the occupied cells span %v..%v", step, rs.Min(), rs.Max(), wantMin, wantMax)
	}
	if solid.Min() != wantMin || solid.Max() != wantMax {
		return fmt.Errorf("%s: RectSet.Solid() box is %v..%v, the occupied cells span %v..%v", step, solid.Min(), solid.Max(), wantMin, wantMax)
	}
	var bad error
	m.forLattice(func(h [3]int) {
		if bad != nil {
			return
		}
		occ, total := m.touched(h)
		var want bool
		switch {
		case occ == total:
			want = true
		case occ == 0:
			want = false
		case m.taint[m.hidx(h)]:
			st.skipped++
			return
		default:
			want = true
			st.mixedIn++
		}
		p := model3d.XYZ(c.coord(0, h[0]), c.coord(1, h[1]), c.coord(2, h[2]))
		if got := solid.Contains(p); got != want {
			bad = fmt.Errorf("%s: Solid().Contains(%v) = %v, want %v: the point touches %d cells of which %d are occupied (half-lattice index %v)", step, p, got, want, total, occ, h)
		}
	})
	return bad
}

// rsBuild replays a history on a fresh RectSet and model, comparing after every step of the top-level history.
func rsBuild(c *rsCase, n [3]int, ops []rsOp, top bool, st *rsStats, kinds map[string]bool) (*toolbox3d.RectSet, *rsModel, error) {
	rs := toolbox3d.NewRectSet()
	m := newModel(n)
	// argument sets of earlier AddRectSet/RemoveRectSet calls stay alive: two box sets never share state, so each
	// must keep answering as its own model whatever is done to the other one afterwards
	type keptSet struct {
		rs *toolbox3d.RectSet
		m  *rsModel
	}
	var kept []keptSet
	if top {
		if err := rsCompare(c, rs, m, st, "new set"); err != nil {
			return nil, nil, err
		}
	}
	for i, op := range ops {
		kinds[op.Kind] = true
		step := fmt.Sprintf("after step %d (%s)", i, op.Kind)
		switch op.Kind {
		case "add", "remove":
			if !validBox(op.Box, n) {
				return nil, nil, fmt.Errorf("%w: box %v outside the grid", kit.ErrInfra, op.Box)
			}
			if op.Kind == "add" {
				rs.Add(rsRect(c, op.Box))
				m.add(op.Box)
			} else {
				rs.Remove(rsRect(c, op.Box))
				m.remove(op.Box)
			}
		case "addset", "removeset":
			if !top {
				return nil, nil, fmt.Errorf("%w: nested set operation", kit.ErrInfra)
			}
			other, om, err := rsBuild(c, n, op.Sub, false, st, kinds)
			if err != nil {
				return nil, nil, err
			}
			if op.Kind == "addset" {
				rs.AddRectSet(other)
			} else {
				rs.RemoveRectSet(other)
			}
			m.applySet(om, op.Kind == "addset")
			// the argument must be left as it was
			if err := rsCompare(c, other, om, &rsStats{}, step+": the argument set"); err != nil {
				return nil, nil, err
			}
			kept = append(kept, keptSet{other, om})
		default:
			return nil, nil, fmt.Errorf("%w: unknown op %q", kit.ErrInfra, op.Kind)
		}
		if top {
			if err := rsCompare(c, rs, m, st, step); err != nil {
				return nil, nil, err
			}
			for k, ks := range kept {
				if err := rsCompare(c, ks.rs, ks.m, &rsStats{}, fmt.Sprintf("%s: argument set #%d of an earlier set operation (not touched since)", step, k)); err != nil {
					return nil, nil, err
				}
			}
		}
	}
	if top {
		// ... and the other way round: editing an earlier argument set must not change the receiver
		for k, ks := range kept {
			var box [6]int
			for a := 0; a < 3; a++ {
				box[a], box[3+a] = 1+(k+a)%n[a], 2+(k+a)%n[a]
			}
			if !validBox(box, n) {
				continue
			}
			ks.rs.Add(rsRect(c, box))
			ks.m.add(box)
			ks.rs.Remove(rsRect(c, [6]int{1, 1, 1, 2, 2, 2}))
			ks.m.remove([6]int{1, 1, 1, 2, 2, 2})
			if err := rsCompare(c, ks.rs, ks.m, &rsStats{}, fmt.Sprintf("argument set #%d after being edited on its own", k)); err != nil {
				return nil, nil, err
			}
			if err := rsCompare(c, rs, m, &rsStats{}, fmt.Sprintf("the receiving set after argument set #%d of an earlier set operation was edited", k)); err != nil {
				return nil, nil, err
			}
		}
	}
	return rs, m, nil
}

func checkRS(c rsCase, o *kit.Obs) error {
	c.rescale(o)
	var n [3]int
	for a := 0; a < 3; a++ {
		n[a] = len(c.Coords[a]) - 1
		if n[a] < 3 {
			return fmt.Errorf("%w: coordinate table too short", kit.ErrInfra)
		}
		for k := 1; k < len(c.Coords[a]); k++ {
			if !(c.Coords[a][k] > c.Coords[a][k-1]) {
				return fmt.Errorf("%w: coordinate table not increasing", kit.ErrInfra)
			}
		}
	}
	st := &rsStats{}
	kinds := map[string]bool{}
	_, m, err := rsBuild(&c, n, c.Ops, true, st, kinds)
	if err != nil {
		return err
	}
	for _, k := range []string{"add", "remove", "addset", "removeset"} {
		if kinds[k] {
			o.Label("op:" + k)
		}
	}
	if st.mixedIn > 0 {
		o.Label("pts:boundary-asserted")
	}
	if st.skipped > 0 {
		// some boundary probes of some steps; interiors, exteriors and the other boundary probes are asserted
		o.Label("partial-skip:removed-volume-boundary")
	}
	if st.emptySteps > 1 {
		o.Label("empty-after-some-step")
	}
	// non-trivial: a removal cut through a box that had been added before
	if m.split {
		o.NonTrivial()
		o.Label("removal-splits-a-box")
	}
	return nil
}

// ---------------------------------------------------------------------------
// the empty set: histories that remove everything (or do nothing) must leave a solid that contains nothing,
// in particular not the origin (the library represents "empty" by a zero box; fixed defect 61acc3a).  A small
// targeted clause next to the state machine, which also probes the origin whenever its model is empty.

func genRSEmpty(t *rapid.T) rsCase {
	c := genRS(t)
	var n [3]int
	for a := 0; a < 3; a++ {
		n[a] = len(c.Coords[a]) - 3
	}
	keep := rapid.IntRange(0, len(c.Ops)).Draw(t, "keep")
	c.Ops = c.Ops[:keep]
	if keep > 0 {
		c.Ops = append(c.Ops, rsOp{Kind: "remove", Box: [6]int{1, 1, 1, n[0] + 1, n[1] + 1, n[2] + 1}})
	}
	return c
}

func checkRSEmpty(c rsCase, o *kit.Obs) error {
	c.rescale(o)
	var n [3]int
	for a := 0; a < 3; a++ {
		n[a] = len(c.Coords[a]) - 1
		if n[a] < 3 {
			return fmt.Errorf("%w: coordinate table too short", kit.ErrInfra)
		}
	}
	rs, m, err := rsBuild(&c, n, c.Ops, true, &rsStats{}, map[string]bool{})
	if err != nil {
		return err
	}
	if !m.empty() {
		return fmt.Errorf("%w: the history does not end with an empty set", kit.ErrInfra)
	}
	if len(c.Ops) > 0 {
		o.NonTrivial()
		o.Label("emptied-by-removal")
	} else {
		o.Label("never-filled")
	}
	solid := rs.Solid()
	for _, p := range []model3d.Coord3D{{}, model3d.XYZ(c.Coords[0][1], c.Coords[1][1], c.Coords[2][1]), model3d.XYZ(1e-3, 0, 0)} {
		if solid.Contains(p) {
			return fmt.Errorf("the set is empty (after %d steps) but Solid().Contains(%v) = true", len(c.Ops), p)
		}
	}
	return nil
}
