package c04

import (
	"fmt"

	"github.com/unixpickle/model3d/model2d"
	"github.com/unixpickle/model3d/model3d"
	"pgregory.net/rapid"
	"verifharness/gen"
	"verifharness/kit"
	"verifharness/m3"
)

// SmoothJoin / SmoothJoinV2.  The operands are the library's own SDF objects (they are the *input* of the
// combinator); every clause is a statement about the combinator's answer in terms of the operands' distances
// at the same point, so all comparisons are exact:
//
//	superset     some operand distance > 0                        => contained
//	radius0      radius 0                                         => contained <=> some operand distance > 0
//	single       one operand                                      => contained <=> its distance > 0
//	near-two     contained although no operand distance > 0       => at least two operands have distance > -radius
//	permutation  the answer for the permuted operand list is the same
//
// near-two is exact in floating point: the decision is d1^2+d2^2 > r^2 with d1 = max(0, a+r) <= r for a <= 0, so
// both d1 and d2 must be positive, i.e. both of the two largest distances exceed -r (V2: r = radius*sin <= radius).
// V2's permutation clause is skipped at points where two operands with different normals have exactly the same
// distance (the "two closest operands" are then not a function of the operand set).

type smoothCase struct {
	Shapes []gen.Shape3 `json:"shapes"`
	Radius float64      `json:"radius"`
	Perm   []int        `json:"perm"`
	Pts    []rawPt      `json:"pts"`
}

type smooth2Case struct {
	Shapes []gen.Shape2 `json:"shapes"`
	Radius float64      `json:"radius"`
	Perm   []int        `json:"perm"`
	Pts    []rawPt      `json:"pts"`
}

func genRadius(t *rapid.T, size float64) float64 {
	if rapid.IntRange(0, 9).Draw(t, "radius.zero") == 0 {
		return 0
	}
	return size * gen.LogF(t, 1e-3, 1.5, "radius")
}

func genSmooth3(t *rapid.T) smoothCase {
	n := rapid.IntRange(1, 6).Draw(t, "nops")
	size := gen.LogF(t, 0.2, 1, "opsize")
	var c smoothCase
	for i := 0; i < n; i++ {
		if i > 0 && rapid.IntRange(0, 7).Draw(t, "dupq") == 0 {
			c.Shapes = append(c.Shapes, c.Shapes[rapid.IntRange(0, i-1).Draw(t, "dup")])
			continue
		}
		c.Shapes = append(c.Shapes, gen.Shape3Gen(t, gen.AllKinds3, size, 6, "op"))
	}
	c.Radius = genRadius(t, size)
	c.Perm = genPerm(t, n)
	c.Pts = genRaw(t, 30, true)
	return c
}

func genSmooth2(t *rapid.T) smooth2Case {
	n := rapid.IntRange(1, 6).Draw(t, "nops")
	size := gen.LogF(t, 0.2, 1, "opsize")
	var c smooth2Case
	for i := 0; i < n; i++ {
		if i > 0 && rapid.IntRange(0, 7).Draw(t, "dupq") == 0 {
			c.Shapes = append(c.Shapes, c.Shapes[rapid.IntRange(0, i-1).Draw(t, "dup")])
			continue
		}
		c.Shapes = append(c.Shapes, gen.Shape2Gen(t, gen.AllKinds2, size, 6, "op"))
	}
	c.Radius = genRadius(t, size)
	c.Perm = genPerm(t, n)
	c.Pts = genRaw(t, 30, true)
	return c
}

type smoothSuite struct {
	n      int
	radius float64
	perm   []int
	sdf    []func(kit.V3) float64           // operand SDF
	nsdf   []func(kit.V3) (kit.V3, float64) // operand NormalSDF
	// index 0: SmoothJoin, 1: SmoothJoinV2
	join    [2]func(kit.V3) bool
	joinP   [2]func(kit.V3) bool
	join0   [2]func(kit.V3) bool   // radius 0
	single  [2][]func(kit.V3) bool // one operand each, same radius
	version [2]string
	// inBox[i]: the point lies in operand i's own Min()/Max() box (closed)
	inBox []func(kit.V3) bool
}

func (s *smoothSuite) run(pts []kit.V3, o *kit.Obs) error {
	added, near2, tie, contract := [2]int{}, 0, 0, 0
	for _, p := range pts {
		for v := 0; v < 2; v++ {
			d := make([]float64, s.n)
			nrm := make([]kit.V3, s.n)
			union := false
			for i := 0; i < s.n; i++ {
				if v == 0 {
					d[i] = s.sdf[i](p)
				} else {
					nrm[i], d[i] = s.nsdf[i](p)
				}
				if d[i] > 0 {
					union = true
				}
			}
			// Precondition (documented contract of the operands, cf. the boolean clauses): an operand must not
			// claim a point outside its own box.  Primitives break this by one rounding error (SDF = +5e-17 one ulp
			// outside the box); the smooth joins clip to the operands' boxes enlarged by the radius, so such a
			// point is not decided here (property C03 owns it).
			broken := false
			for i := range d {
				if d[i] > 0 && !s.inBox[i](p) {
					broken = true
				}
			}
			if broken {
				contract++
				continue
			}
			within := 0
			for i := range d {
				if d[i] > -s.radius {
					within++
				}
			}
			ctx := func() string {
				return fmt.Sprintf("at %v, radius %g, operand distances %v", p, s.radius, d)
			}
			name := s.version[v]
			got := s.join[v](p)
			if union && !got {
				return fmt.Errorf("%s does not contain a point of the plain union %s", name, ctx())
			}
			if got && !union {
				added[v]++
				if within < 2 {
					return fmt.Errorf("%s adds a point that is within the radius of only %d operand(s) %s", name, within, ctx())
				}
			}
			if got0 := s.join0[v](p); got0 != union {
				return fmt.Errorf("%s with radius 0 answers %v, the plain union %v %s", name, got0, union, ctx())
			}
			for i := 0; i < s.n; i++ {
				if g := s.single[v][i](p); g != (d[i] > 0) {
					return fmt.Errorf("%s of the single operand %d answers %v although its distance is %g %s", name, i, g, d[i], ctx())
				}
			}
			if v == 0 && !union && within >= 2 && s.n >= 3 {
				near2++
			}
			// permutation invariance
			if v == 1 {
				tied := false
				for i := 0; i < s.n && !tied; i++ {
					for j := i + 1; j < s.n; j++ {
						if d[i] == d[j] && nrm[i] != nrm[j] {
							tied = true
							break
						}
					}
				}
				if tied {
					tie++
					continue
				}
			}
			if gp := s.joinP[v](p); gp != got {
				return fmt.Errorf("%s answers %v, but %v for the operands in order %v %s", name, got, gp, s.perm, ctx())
			}
		}
	}
	o.Labelf("n:%d", s.n)
	if s.radius == 0 {
		o.Label("radius:0")
	}
	if added[0] > 0 {
		o.Label("pts:v1-adds-beyond-union")
	}
	if added[1] > 0 {
		o.Label("pts:v2-adds-beyond-union")
	}
	if contract > 0 {
		o.Label("partial-skip:operand-sdf-positive-outside-own-box")
	}
	if tie > 0 {
		if tie == len(pts) {
			o.Skip("v2-distance-tie-at-every-point")
		} else {
			o.Label("partial-skip:v2-distance-tie")
		}
	}
	// non-trivial: >= 3 operands and a point outside all of them within the radius of >= 2 (the only region in
	// which the order of the operands can matter)
	if near2 > 0 {
		o.NonTrivial()
		o.Label("pts:outside-all-near-two-of-3+")
	}
	return nil
}

func checkSmooth3(c smoothCase, o *kit.Obs) error {
	n := len(c.Shapes)
	if n == 0 || !validPerm(c.Perm, n) || !(c.Radius >= 0) {
		return fmt.Errorf("%w: malformed case", kit.ErrInfra)
	}
	prims := make([]gen.Primitive3, n)
	var leaves []leaf
	for i, sh := range c.Shapes {
		prims[i] = sh.Build()
		leaves = append(leaves, leaf3{sh, kit.V3{}})
	}
	s := &smoothSuite{n: n, radius: c.Radius, perm: c.Perm, version: [2]string{"SmoothJoin", "SmoothJoinV2"}}
	var sdfs, sdfsP []model3d.SDF
	var nsdfs, nsdfsP []model3d.NormalSDF
	for _, pr := range prims {
		pr := pr
		sdfs = append(sdfs, pr)
		nsdfs = append(nsdfs, pr)
		mn, mx := pr.Min(), pr.Max()
		s.inBox = append(s.inBox, func(p kit.V3) bool {
			return p[0] >= mn.X && p[1] >= mn.Y && p[2] >= mn.Z && p[0] <= mx.X && p[1] <= mx.Y && p[2] <= mx.Z
		})
		s.sdf = append(s.sdf, func(p kit.V3) float64 { return pr.SDF(m3.C3(p)) })
		s.nsdf = append(s.nsdf, func(p kit.V3) (kit.V3, float64) {
			nn, d := pr.NormalSDF(m3.C3(p))
			return m3.V3(nn), d
		})
	}
	for _, idx := range c.Perm {
		sdfsP = append(sdfsP, prims[idx])
		nsdfsP = append(nsdfsP, prims[idx])
	}
	w := func(sd model3d.Solid) func(kit.V3) bool {
		return func(p kit.V3) bool { return sd.Contains(m3.C3(p)) }
	}
	s.join = [2]func(kit.V3) bool{w(model3d.SmoothJoin(c.Radius, sdfs...)), w(model3d.SmoothJoinV2(c.Radius, nsdfs...))}
	s.joinP = [2]func(kit.V3) bool{w(model3d.SmoothJoin(c.Radius, sdfsP...)), w(model3d.SmoothJoinV2(c.Radius, nsdfsP...))}
	s.join0 = [2]func(kit.V3) bool{w(model3d.SmoothJoin(0, sdfs...)), w(model3d.SmoothJoinV2(0, nsdfs...))}
	for _, pr := range prims {
		s.single[0] = append(s.single[0], w(model3d.SmoothJoin(c.Radius, pr)))
		s.single[1] = append(s.single[1], w(model3d.SmoothJoinV2(c.Radius, pr)))
	}
	return s.run(derive(leaves, c.Pts, c.Radius, 3), o)
}

func checkSmooth2(c smooth2Case, o *kit.Obs) error {
	n := len(c.Shapes)
	if n == 0 || !validPerm(c.Perm, n) || !(c.Radius >= 0) {
		return fmt.Errorf("%w: malformed case", kit.ErrInfra)
	}
	prims := make([]gen.Primitive2, n)
	var leaves []leaf
	for i, sh := range c.Shapes {
		prims[i] = sh.Build()
		leaves = append(leaves, leaf2{sh})
	}
	s := &smoothSuite{n: n, radius: c.Radius, perm: c.Perm, version: [2]string{"model2d.SmoothJoin", "model2d.SmoothJoinV2"}}
	var sdfs, sdfsP []model2d.SDF
	var nsdfs, nsdfsP []model2d.NormalSDF
	c2 := func(p kit.V3) model2d.Coord { return model2d.XY(p[0], p[1]) }
	for _, pr := range prims {
		pr := pr
		sdfs = append(sdfs, pr)
		nsdfs = append(nsdfs, pr)
		mn, mx := pr.Min(), pr.Max()
		s.inBox = append(s.inBox, func(p kit.V3) bool {
			return p[0] >= mn.X && p[1] >= mn.Y && p[0] <= mx.X && p[1] <= mx.Y
		})
		s.sdf = append(s.sdf, func(p kit.V3) float64 { return pr.SDF(c2(p)) })
		s.nsdf = append(s.nsdf, func(p kit.V3) (kit.V3, float64) {
			nn, d := pr.NormalSDF(c2(p))
			return kit.V3{nn.X, nn.Y, 0}, d
		})
	}
	for _, idx := range c.Perm {
		sdfsP = append(sdfsP, prims[idx])
		nsdfsP = append(nsdfsP, prims[idx])
	}
	w := func(sd model2d.Solid) func(kit.V3) bool {
		return func(p kit.V3) bool { return sd.Contains(c2(p)) }
	}
	s.join = [2]func(kit.V3) bool{w(model2d.SmoothJoin(c.Radius, sdfs...)), w(model2d.SmoothJoinV2(c.Radius, nsdfs...))}
	s.joinP = [2]func(kit.V3) bool{w(model2d.SmoothJoin(c.Radius, sdfsP...)), w(model2d.SmoothJoinV2(c.Radius, nsdfsP...))}
	s.join0 = [2]func(kit.V3) bool{w(model2d.SmoothJoin(0, sdfs...)), w(model2d.SmoothJoinV2(0, nsdfs...))}
	for _, pr := range prims {
		s.single[0] = append(s.single[0], w(model2d.SmoothJoin(c.Radius, pr)))
		s.single[1] = append(s.single[1], w(model2d.SmoothJoinV2(c.Radius, pr)))
	}
	return s.run(derive(leaves, c.Pts, c.Radius, 2), o)
}
