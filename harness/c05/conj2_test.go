package c05

import (
	"fmt"
	"math"
	"sort"

	"github.com/unixpickle/model3d/model2d"
	"pgregory.net/rapid"
	"verifharness/gen"
	"verifharness/kit"
	"verifharness/m3"
)

// 2D twin of the transformed-collider conjugacy clause.  model2d/transform.go is generated from the same template
// as the 3D file but is a separate copy: a defect confined to one twin (or to one query variant, such as the
// count-only path with a nil callback) is invisible to the 3D clause.

type conj2Case struct {
	Shape gen.Shape2  `json:"shape"`
	X     xform2      `json:"x"` // distance-preserving up to a factor: translate, scale, rotation, compositions
	Pts   []kit.V2    `json:"pts"`
	Rays  [][2]kit.V2 `json:"rays"`
}

func genX2Dist(t *rapid.T, depth int, label string) xform2 {
	kinds := []string{"translate", "scale", "rotation", "joined"}
	if depth == 0 {
		kinds = kinds[:3]
	}
	switch k := rapid.SampledFrom(kinds).Draw(t, label+".kind"); k {
	case "translate":
		return xform2{Kind: k, V: gen.Vec2(t, 2, label+".off")}
	case "scale":
		return xform2{Kind: k, S: gen.LogF(t, 0.2, 5, label+".s")}
	case "rotation":
		return xform2{Kind: k, S: gen.F(t, -7, 7, label+".angle")}
	}
	x := xform2{Kind: "joined"}
	n := rapid.IntRange(1, 4).Draw(t, label+".n")
	for i := 0; i < n; i++ {
		x.Parts = append(x.Parts, genX2Dist(t, depth-1, label+".part"))
	}
	return x
}

func genConj2(t *rapid.T) conj2Case {
	s := gen.Shape2Gen(t, gen.AllKinds2, gen.LogF(t, 0.3, 3, "size"), 10, "shape")
	c := conj2Case{Shape: s, X: genX2Dist(t, 2, "x")}
	for i := 0; i < 10; i++ {
		c.Pts = append(c.Pts, s.Centre().Add(gen.Vec2(t, 1.5*s.Size(), "p")))
	}
	for i := 0; i < 8; i++ {
		o := s.Centre().Add(gen.Vec2(t, 2*s.Size(), "o"))
		d := s.Centre().Add(gen.Vec2(t, 0.7*s.Size(), "target")).Sub(o)
		if d.Norm() < 1e-3*s.Size() {
			d = kit.V2{0.3, 0.5}
		}
		c.Rays = append(c.Rays, [2]kit.V2{o, d.Unit().Scale(gen.LogF(t, 1e-2, 1e2, "ds"))})
	}
	return c
}

func nearTangent2(s gen.Shape2, r [2]kit.V2) bool {
	dl := r[1].Norm()
	reach := r[0].Dist(s.Centre()) + 2*s.Size()
	n := 600
	h := reach / dl / float64(n)
	prev2, prev := math.NaN(), s.RefSDF(r[0]).SDF
	for i := 1; i <= n; i++ {
		cur := s.RefSDF(r[0].Add(r[1].Scale(float64(i) * h))).SDF
		if !math.IsNaN(prev2) && (prev2 > 0) == (prev > 0) && (prev > 0) == (cur > 0) &&
			math.Abs(prev) <= math.Abs(prev2) && math.Abs(prev) <= math.Abs(cur) && math.Abs(prev) < 3*h*dl {
			return true
		}
		prev2, prev = prev, cur
	}
	return false
}

func checkConjCollider2(c conj2Case, o *kit.Obs) error {
	s, x := c.Shape, c.X
	if !x.isDist() {
		return fmt.Errorf("%w: transform is not distance-preserving", kit.ErrInfra)
	}
	l, off := x.affine()
	apply := func(p kit.V2) kit.V2 { return kit.V2{l[0]*p[0] + l[1]*p[1] + off[0], l[2]*p[0] + l[3]*p[1] + off[1]} }
	applyDir := func(d kit.V2) kit.V2 { return kit.V2{l[0]*d[0] + l[1]*d[1], l[2]*d[0] + l[3]*d[1]} }
	// a similarity: |L v| = f |v|
	f := math.Sqrt(math.Abs(l[0]*l[3] - l[1]*l[2]))
	orig := s.Build()
	tc := model2d.TransformCollider(x.build().(model2d.DistTransform), orig)
	if len(x.Parts) >= 2 && len(c.Pts) > 0 && math.Float64bits(c.Pts[0][1])%2 == 0 {
		tc = orig
		for _, part := range x.Parts {
			tc = model2d.TransformCollider(part.build().(model2d.DistTransform), tc)
		}
		o.Label("nested-wrappers")
	}
	what := fmt.Sprintf("2D TransformCollider(%+v, %s %+v)", x, s.Kind, s)
	if f != 1 {
		o.Label("scaled")
	}
	for ri, r := range c.Rays {
		inner := &model2d.Ray{Origin: m3.C2(r[0]), Direction: m3.C2(r[1])}
		outer := &model2d.Ray{Origin: m3.C2(apply(r[0])), Direction: m3.C2(applyDir(r[1]))}
		type hit struct {
			s float64
			n kit.V2
		}
		var hi, ho []hit
		ni := orig.RayCollisions(inner, func(rc model2d.RayCollision) { hi = append(hi, hit{rc.Scale, kit.V2{rc.Normal.X, rc.Normal.Y}}) })
		no := tc.RayCollisions(outer, func(rc model2d.RayCollision) { ho = append(ho, hit{rc.Scale, kit.V2{rc.Normal.X, rc.Normal.Y}}) })
		generic := math.Abs(s.RefSDF(r[0]).SDF) >= 1e-6*s.Size() && !nearTangent2(s, r)
		for _, h := range hi {
			if h.s*r[1].Norm() < 1e-6*s.Size() {
				generic = false
			}
		}
		if !generic {
			o.Skip("ray-not-generic")
			continue
		}
		if ni != no || len(ho) != no {
			return fmt.Errorf("%s: original ray %v hits %d times, the mapped ray hits the transformed collider %d times (callbacks %d)", what, r, ni, no, len(ho))
		}
		if n2 := tc.RayCollisions(outer, nil); n2 != no {
			return fmt.Errorf("%s: ray %v: %d collisions with a callback, %d with a nil callback", what, r, no, n2)
		}
		sort.Slice(hi, func(a, b int) bool { return hi[a].s < hi[b].s })
		sort.Slice(ho, func(a, b int) bool { return ho[a].s < ho[b].s })
		if no > 0 {
			o.NonTrivial()
		}
		for k := range hi {
			if math.Abs(hi[k].s-ho[k].s) > 1e-9*(1+hi[k].s)*(1+f) {
				return fmt.Errorf("%s: ray %v: collision %d has parameter %.17g on the original and %.17g on the transformed collider (same parameter expected)", what, r, k, hi[k].s, ho[k].s)
			}
			if ln := ho[k].n.Norm(); math.Abs(ln-1) > 1e-9 {
				return fmt.Errorf("%s: ray %v: transformed collision normal %v has length %g", what, r, ho[k].n, ln)
			}
			// for a similarity the normal maps with the linear part (orientation-preserving: no reflections here)
			want := applyDir(hi[k].n).Unit()
			if ho[k].n.Dist(want) > 1e-6 {
				return fmt.Errorf("%s: ray %v: transformed collision normal %v, expected the mapped original normal %v", what, r, ho[k].n, want)
			}
		}
		first, ok := tc.FirstRayCollision(outer)
		if ok != (no > 0) || (ok && math.Abs(first.Scale-ho[0].s) > 1e-9*(1+ho[0].s)) {
			return fmt.Errorf("%s: ray %v: FirstRayCollision (%v, %v) disagrees with the smallest of %d collisions", what, r, first.Scale, ok, no)
		}
		if ok && (no == 1 || ho[1].s-ho[0].s > 1e-6*(1+ho[0].s)) {
			fn := kit.V2{first.Normal.X, first.Normal.Y}
			if fn.Dist(ho[0].n) > 1e-6 {
				return fmt.Errorf("%s: ray %v: FirstRayCollision reports normal %v, the same collision enumerated by RayCollisions has normal %v", what, r, fn, ho[0].n)
			}
		}
		// queries are pure: a callback may cast further rays at the same collider (shadow rays do) and the
		// enumeration in progress still reports the collisions of its own ray; the ray argument is only read
		if no > 0 {
			r2 := c.Rays[(ri+1)%len(c.Rays)]
			other := &model2d.Ray{Origin: outer.Origin.Add(outer.Direction.Scale(0.37)), Direction: outer.Direction.Scale(-1.7)}
			if len(c.Rays) > 1 {
				other = &model2d.Ray{Origin: m3.C2(apply(r2[0])), Direction: m3.C2(applyDir(r2[1]))}
			}
			before := *outer
			var hr []hit
			nr := tc.RayCollisions(outer, func(rc model2d.RayCollision) {
				hr = append(hr, hit{rc.Scale, kit.V2{rc.Normal.X, rc.Normal.Y}})
				tc.FirstRayCollision(other)
				tc.RayCollisions(other, nil)
			})
			if *outer != before {
				return fmt.Errorf("%s: RayCollisions changed the ray it was given from %v to %v", what, before, *outer)
			}
			sort.Slice(hr, func(a, b int) bool { return hr[a].s < hr[b].s })
			same := nr == no && len(hr) == len(ho)
			for k := 0; same && k < len(hr); k++ {
				same = hr[k] == ho[k]
			}
			if !same {
				return fmt.Errorf("%s: ray %v: %d collisions %v when enumerated alone, %d collisions %v when the callback casts another ray at the same collider", what, r, no, ho, nr, hr)
			}
		}
	}
	for _, p := range c.Pts {
		ref := s.RefSDF(p)
		if math.Abs(ref.SDF) < 1e-7*s.Size() {
			continue
		}
		for _, k := range []float64{0.5, 2} {
			rad := math.Abs(ref.SDF) * k
			if got := tc.CircleCollision(m3.C2(apply(p)), f*rad); got != (k > 1) {
				return fmt.Errorf("%s: CircleCollision(image of %v, %g x %g) = %v but the original outline is %g away", what, p, f, rad, got, math.Abs(ref.SDF))
			}
		}
		// even-odd membership through the count-only ray query that ColliderContains uses
		if math.Abs(ref.SDF) > 1e-3*s.Size() {
			// ColliderContains casts the fixed direction (0.5224892708603626, 0.10494477243214506) from the image
			// of p; in the original space that is this direction pulled back through the linear part
			det := l[0]*l[3] - l[1]*l[2]
			d := kit.V2{0.5224892708603626, 0.10494477243214506}
			back := kit.V2{(l[3]*d[0] - l[1]*d[1]) / det, (-l[2]*d[0] + l[0]*d[1]) / det}
			if nearTangent2(s, [2]kit.V2{p, back}) {
				continue
			}
			if got := model2d.ColliderContains(tc, m3.C2(apply(p)), 0); got != (ref.SDF > 0) {
				return fmt.Errorf("%s: ColliderContains(image of %v, 0) = %v but the point's signed distance to the original is %g", what, p, got, ref.SDF)
			}
		}
	}
	return nil
}
