package c05

// The 2D twin of the conjugated mesher: MarchingSquaresConj meshes the solid in the space of the composed
// transforms and maps the outline back, so the result is an outline of the ORIGINAL solid.

import (
	"fmt"
	"math"

	"github.com/unixpickle/model3d/model2d"
	"pgregory.net/rapid"
	"verifharness/gen"
	"verifharness/kit"
	"verifharness/m3"
)

type msConjCase struct {
	Tree  *gen.Node2  `json:"tree"`
	Delta float64     `json:"delta"`
	Iters int         `json:"iters"`
	Xs    [][]float64 `json:"xs"` // (kind, a, b): 0 rotation by a, 1 per-axis scale (a, b), 2 translation (a, b), 3 uniform scale a
}

func genMSConj(t *rapid.T) msConjCase {
	c := msConjCase{Tree: gen.Node2Gen(t, 2, 3, "tree"), Delta: gen.LogF(t, 0.03, 0.15, "delta"), Iters: rapid.IntRange(0, 5).Draw(t, "iters")}
	for i, n := 0, rapid.IntRange(1, 3).Draw(t, "n"); i < n; i++ {
		switch k := rapid.IntRange(0, 3).Draw(t, "kind"); k {
		case 0:
			c.Xs = append(c.Xs, []float64{0, gen.F(t, -3, 3, "angle"), 0})
		case 1:
			c.Xs = append(c.Xs, []float64{1, gen.LogF(t, 0.4, 2.5, "sx"), gen.LogF(t, 0.4, 2.5, "sy")})
		case 2:
			c.Xs = append(c.Xs, []float64{2, gen.F(t, -2, 2, "tx"), gen.F(t, -2, 2, "ty")})
		default:
			c.Xs = append(c.Xs, []float64{3, gen.LogF(t, 0.4, 2.5, "s"), 0})
		}
	}
	return c
}

func checkMSConj(c msConjCase, o *kit.Obs) error {
	solid := c.Tree.Build()
	var xs []model2d.Transform
	stretch, shrink := 1.0, 1.0
	for _, x := range c.Xs {
		switch int(x[0]) {
		case 0:
			xs = append(xs, model2d.Rotation(x[1]))
		case 1:
			xs = append(xs, &model2d.VecScale{Scale: model2d.XY(x[1], x[2])})
			stretch *= math.Max(x[1], x[2])
			shrink *= math.Min(x[1], x[2])
		case 2:
			xs = append(xs, &model2d.Translate{Offset: model2d.XY(x[1], x[2])})
		default:
			xs = append(xs, &model2d.Scale{Scale: x[1]})
			stretch *= x[1]
			shrink *= x[1]
		}
	}
	o.Labelf("transforms:%d", len(xs))
	segs := m3.Segs(model2d.MarchingSquaresConj(solid, c.Delta, c.Iters, xs...))
	if len(segs) == 0 {
		return nil
	}
	if len(xs) >= 2 {
		o.NonTrivial()
	}
	// a lattice step of delta in the transformed space is at most delta/shrink in the original one
	margin := 3 * c.Delta / shrink
	min, max := m3.V2(solid.Min()), m3.V2(solid.Max())
	n := 0
	for i := 0; i < 80; i++ {
		u := kit.V2{math.Mod(0.137*float64(i)+0.05, 1), math.Mod(0.618*float64(i)+0.7, 1)}
		p := kit.V2{min[0] + (u[0]*1.4-0.2)*(max[0]-min[0]), min[1] + (u[1]*1.4-0.2)*(max[1]-min[1])}
		in, sure := c.Tree.RefContains(p, margin)
		if !sure {
			continue
		}
		n++
		want := 0.0
		if in {
			want = 1
		}
		if w := math.Abs(kit.Winding2(segs, p)); math.Abs(w-want) > 0.05 {
			return fmt.Errorf("MarchingSquaresConj(delta %g, iters %d, transforms %v): point %v is %v the solid by more than %g but the outline has winding number %.3f there", c.Delta, c.Iters, c.Xs, p, map[bool]string{true: "inside", false: "outside"}[in], margin, w)
		}
	}
	o.Labelf("probes:%d", n/10*10)
	_ = stretch
	return nil
}
