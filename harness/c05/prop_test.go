package c05

import (
	"fmt"
	"math"
	"sort"
	"testing"

	"github.com/unixpickle/model3d/model2d"
	"github.com/unixpickle/model3d/model3d"
	"github.com/unixpickle/model3d/toolbox3d"
	"pgregory.net/rapid"
	"verifharness/gen"
	"verifharness/kit"
	"verifharness/m3"
)

const rule = "random transforms (translate, uniform scale, per-axis scale with any signs, well-conditioned general matrices incl. reflections, rotations, compositions of 1-4; 2D analogues; axis squeeze / pinch / smart squeeze) x points, boxes, point pairs, rays with non-unit directions, wrapped primitives (solid, SDF, collider, metaball) and conjugated meshing. Oracles: inverse round trip within the propagated rounding of the intermediate point, ApplyBounds encloses images of box points, ApplyDistance equals the measured change of distance, conjugacy with the original object through the harness's own affine arithmetic. Non-trivial: a composition of >= 2 kinds, or a ray that hits. Distinct: hash of the JSON case."

// ---------------------------------------------------------------------------
// 3D transform laws

type lawCase struct {
	X   gen.Xform3 `json:"x"`
	Box [2]kit.V3  `json:"box"`
	Pts []kit.V3   `json:"pts"` // unit-cube coordinates inside the box (may exceed)
}

func genLaw(t *rapid.T) lawCase {
	c := lawCase{X: gen.Xform3Gen(t, false, "x")}
	lo := gen.Vec3(t, 3, "lo")
	c.Box = [2]kit.V3{lo, lo.Add(kit.V3{gen.LogF(t, 1e-3, 5, "dx"), gen.LogF(t, 1e-3, 5, "dy"), gen.LogF(t, 1e-3, 5, "dz")})}
	for i := 0; i < 10; i++ {
		p := kit.V3{gen.F(t, 0, 1, "u"), gen.F(t, 0, 1, "v"), gen.F(t, 0, 1, "w")}
		// corners, edges and faces of the box are the interesting places for ApplyBounds
		for a := 0; a < 3; a++ {
			switch rapid.IntRange(0, 3).Draw(t, "snap") {
			case 0:
				p[a] = 0
			case 1:
				p[a] = 1
			}
		}
		c.Pts = append(c.Pts, p)
	}
	return c
}

func inBox(p, lo, hi kit.V3, slack float64) bool {
	for a := 0; a < 3; a++ {
		if p[a] < lo[a]-slack || p[a] > hi[a]+slack {
			return false
		}
	}
	return true
}

func checkLaw(c lawCase, o *kit.Obs) error {
	x := c.X
	tr := x.Build()
	inv := tr.Inverse()
	kinds := x.Kinds()
	if len(kinds) >= 2 {
		o.NonTrivial()
	}
	for k := range kinds {
		o.Label("kind:" + k)
	}
	stretchInv := x.MaxStretch()
	// forward stretch: Frobenius norm of the linear part, from images of the unit vectors
	var stretch float64
	for a := 0; a < 3; a++ {
		e := kit.V3{}
		e[a] = 1
		stretch += x.RefApplyDir(e).Dot(x.RefApplyDir(e))
	}
	stretch = math.Sqrt(stretch)
	bmin, bmax := tr.ApplyBounds(m3.C3(c.Box[0]), m3.C3(c.Box[1]))
	if bmin.X > bmax.X || bmin.Y > bmax.Y || bmin.Z > bmax.Z {
		return fmt.Errorf("%+v: ApplyBounds(%v) returned min %v > max %v", x, c.Box, bmin, bmax)
	}
	var imgs []kit.V3
	for _, u := range c.Pts {
		p := kit.V3{c.Box[0][0] + u[0]*(c.Box[1][0]-c.Box[0][0]), c.Box[0][1] + u[1]*(c.Box[1][1]-c.Box[0][1]), c.Box[0][2] + u[2]*(c.Box[1][2]-c.Box[0][2])}
		q := m3.V3(tr.Apply(m3.C3(p)))
		ref := x.RefApply(p)
		scale := p.Norm() + ref.Norm() + 1
		if q.Dist(ref) > 1e-11*scale*(1+stretch) {
			return fmt.Errorf("%+v: Apply(%v) = %v, reference affine map gives %v", x, p, q, ref)
		}
		back := m3.V3(inv.Apply(m3.C3(q)))
		// rounding of q (a few ulps of its magnitude) is amplified by at most the inverse's stretch
		if d := back.Dist(p); d > 1e-12*(p.Norm()+1)+16*2.3e-16*(q.Norm()+1)*stretchInv*(1+stretch) {
			return fmt.Errorf("%+v: Inverse().Apply(Apply(%v)) = %v, off by %g", x, p, back, d)
		}
		q2 := m3.V3(inv.Apply(m3.C3(p)))
		fwd := m3.V3(tr.Apply(m3.C3(q2)))
		if d := fwd.Dist(p); d > 1e-12*(p.Norm()+1)+16*2.3e-16*(q2.Norm()+1)*stretch*(1+stretchInv) {
			return fmt.Errorf("%+v: Apply(Inverse().Apply(%v)) = %v, off by %g", x, p, fwd, d)
		}
		if !inBox(q, m3.V3(bmin), m3.V3(bmax), 1e-9*scale) {
			return fmt.Errorf("%+v: ApplyBounds(%v) = [%v, %v] does not contain the image %v of box point %v", x, c.Box, bmin, bmax, q, p)
		}
		imgs = append(imgs, q)
	}
	if dt, ok := tr.(model3d.DistTransform); ok && x.IsDist() {
		f := x.DistFactor()
		for i := 0; i+1 < len(c.Pts); i += 2 {
			a := kit.V3{c.Box[0][0] + c.Pts[i][0], c.Box[0][1] + c.Pts[i][1], c.Box[0][2] + c.Pts[i][2]}
			b := kit.V3{c.Box[0][0] + c.Pts[i+1][0], c.Box[0][1] + c.Pts[i+1][1], c.Box[0][2] + c.Pts[i+1][2]}
			d := a.Dist(b)
			got := dt.ApplyDistance(d)
			ta, tb := m3.V3(tr.Apply(m3.C3(a))), m3.V3(tr.Apply(m3.C3(b)))
			if !(got >= 0) || math.Abs(got-ta.Dist(tb)) > 1e-9*(ta.Norm()+tb.Norm()+1) || math.Abs(got-f*d) > 1e-9*(f*d+1) {
				return fmt.Errorf("%+v: ApplyDistance(%g) = %g but the images of %v and %v are %g apart (factor %g)", x, d, got, a, b, ta.Dist(tb), f)
			}
		}
		if idt, ok := inv.(model3d.DistTransform); !ok {
			return fmt.Errorf("%+v: the inverse of a DistTransform is not a DistTransform", x)
		} else if g := idt.ApplyDistance(dt.ApplyDistance(1.5)); math.Abs(g-1.5) > 1e-9 {
			return fmt.Errorf("%+v: inverse.ApplyDistance(ApplyDistance(1.5)) = %g", x, g)
		}
	}
	return nil
}

// ---------------------------------------------------------------------------
// 2D transform laws

type xform2 struct {
	Kind  string     `json:"kind"`
	V     kit.V2     `json:"v,omitempty"`
	S     float64    `json:"s,omitempty"`
	M     [4]float64 `json:"m,omitempty"` // row-major
	Parts []xform2   `json:"parts,omitempty"`
}

func (x xform2) build() model2d.Transform {
	switch x.Kind {
	case "translate":
		return &model2d.Translate{Offset: m3.C2(x.V)}
	case "scale":
		return &model2d.Scale{Scale: x.S}
	case "vecscale":
		return &model2d.VecScale{Scale: m3.C2(x.V)}
	case "matrix":
		return &model2d.Matrix2Transform{Matrix: &model2d.Matrix2{x.M[0], x.M[1], x.M[2], x.M[3]}} // the library stores rows
	case "rotation":
		return model2d.Rotation(x.S)
	}
	var j model2d.JoinedTransform
	for _, p := range x.Parts {
		j = append(j, p.build())
	}
	return j
}

func (x xform2) affine() (l [4]float64, o kit.V2) {
	switch x.Kind {
	case "translate":
		return [4]float64{1, 0, 0, 1}, x.V
	case "scale":
		return [4]float64{x.S, 0, 0, x.S}, kit.V2{}
	case "vecscale":
		return [4]float64{x.V[0], 0, 0, x.V[1]}, kit.V2{}
	case "matrix":
		return x.M, kit.V2{}
	case "rotation":
		c, s := math.Cos(x.S), math.Sin(x.S)
		return [4]float64{c, -s, s, c}, kit.V2{}
	}
	l = [4]float64{1, 0, 0, 1}
	for _, p := range x.Parts {
		pl, po := p.affine()
		l = [4]float64{pl[0]*l[0] + pl[1]*l[2], pl[0]*l[1] + pl[1]*l[3], pl[2]*l[0] + pl[3]*l[2], pl[2]*l[1] + pl[3]*l[3]}
		o = kit.V2{pl[0]*o[0] + pl[1]*o[1] + po[0], pl[2]*o[0] + pl[3]*o[1] + po[1]}
	}
	return
}

func (x xform2) isDist() bool {
	switch x.Kind {
	case "translate", "scale", "rotation":
		return true
	case "joined":
		for _, p := range x.Parts {
			if !p.isDist() {
				return false
			}
		}
		return true
	}
	return false
}

func genX2(t *rapid.T, depth int, label string) xform2 {
	kinds := []string{"translate", "scale", "vecscale", "matrix", "rotation", "joined"}
	if depth == 0 {
		kinds = kinds[:5]
	}
	switch k := rapid.SampledFrom(kinds).Draw(t, label+".kind"); k {
	case "translate":
		return xform2{Kind: k, V: gen.Vec2(t, 2, label+".off")}
	case "scale":
		return xform2{Kind: k, S: gen.LogF(t, 0.2, 5, label+".s")}
	case "vecscale":
		v := kit.V2{gen.LogF(t, 0.2, 5, label+".sx"), gen.LogF(t, 0.2, 5, label+".sy")}
		if rapid.Bool().Draw(t, label+".negx") {
			v[0] = -v[0]
		}
		if rapid.IntRange(0, 3).Draw(t, label+".negy") == 0 {
			v[1] = -v[1]
		}
		return xform2{Kind: k, V: v}
	case "matrix":
		a1, a2 := gen.F(t, -3.2, 3.2, label+".a1"), gen.F(t, -3.2, 3.2, label+".a2")
		d0, d1 := gen.LogF(t, 0.3, 3, label+".d0"), gen.LogF(t, 0.3, 3, label+".d1")
		if rapid.Bool().Draw(t, label+".reflect") {
			d0 = -d0
		}
		c1, s1, c2, s2 := math.Cos(a1), math.Sin(a1), math.Cos(a2), math.Sin(a2)
		// R2 * D * R1
		m := [4]float64{d0 * c1, -d0 * s1, d1 * s1, d1 * c1}
		return xform2{Kind: k, M: [4]float64{c2*m[0] - s2*m[2], c2*m[1] - s2*m[3], s2*m[0] + c2*m[2], s2*m[1] + c2*m[3]}}
	case "rotation":
		return xform2{Kind: k, S: gen.F(t, -7, 7, label+".angle")}
	}
	x := xform2{Kind: "joined"}
	n := rapid.IntRange(1, 4).Draw(t, label+".n")
	for i := 0; i < n; i++ {
		x.Parts = append(x.Parts, genX2(t, depth-1, label+".part"))
	}
	return x
}

type law2Case struct {
	X   xform2    `json:"x"`
	Box [2]kit.V2 `json:"box"`
	Pts []kit.V2  `json:"pts"`
}

func checkLaw2(c law2Case, o *kit.Obs) error {
	tr := c.X.build()
	inv := tr.Inverse()
	l, off := c.X.affine()
	det := l[0]*l[3] - l[1]*l[2]
	li := [4]float64{l[3] / det, -l[1] / det, -l[2] / det, l[0] / det}
	norm := func(m [4]float64) float64 { return math.Sqrt(m[0]*m[0] + m[1]*m[1] + m[2]*m[2] + m[3]*m[3]) }
	st, sti := norm(l), norm(li)
	if c.X.Kind == "joined" && len(c.X.Parts) >= 2 {
		o.NonTrivial()
	}
	o.Label("kind:" + c.X.Kind)
	bmin, bmax := tr.ApplyBounds(m3.C2(c.Box[0]), m3.C2(c.Box[1]))
	if bmin.X > bmax.X || bmin.Y > bmax.Y {
		return fmt.Errorf("2D %+v: ApplyBounds returned min %v > max %v", c.X, bmin, bmax)
	}
	for _, u := range c.Pts {
		p := kit.V2{c.Box[0][0] + u[0]*(c.Box[1][0]-c.Box[0][0]), c.Box[0][1] + u[1]*(c.Box[1][1]-c.Box[0][1])}
		q := m3.V2(tr.Apply(m3.C2(p)))
		ref := kit.V2{l[0]*p[0] + l[1]*p[1] + off[0], l[2]*p[0] + l[3]*p[1] + off[1]}
		scale := p.Norm() + ref.Norm() + 1
		if q.Dist(ref) > 1e-11*scale*(1+st) {
			return fmt.Errorf("2D %+v: Apply(%v) = %v, reference %v", c.X, p, q, ref)
		}
		if d := m3.V2(inv.Apply(m3.C2(q))).Dist(p); d > 1e-12*(p.Norm()+1)+16*2.3e-16*(q.Norm()+1)*sti*(1+st) {
			return fmt.Errorf("2D %+v: Inverse().Apply(Apply(%v)) is off by %g", c.X, p, d)
		}
		q2 := m3.V2(inv.Apply(m3.C2(p)))
		if d := m3.V2(tr.Apply(m3.C2(q2))).Dist(p); d > 1e-12*(p.Norm()+1)+16*2.3e-16*(q2.Norm()+1)*st*(1+sti) {
			return fmt.Errorf("2D %+v: Apply(Inverse().Apply(%v)) is off by %g", c.X, p, d)
		}
		if q[0] < bmin.X-1e-9*scale || q[0] > bmax.X+1e-9*scale || q[1] < bmin.Y-1e-9*scale || q[1] > bmax.Y+1e-9*scale {
			return fmt.Errorf("2D %+v: ApplyBounds(%v) = [%v, %v] does not contain the image %v of box point %v", c.X, c.Box, bmin, bmax, q, p)
		}
	}
	if dt, ok := tr.(model2d.DistTransform); ok && c.X.isDist() {
		a, b := c.Box[0], c.Box[1]
		ta, tb := m3.V2(tr.Apply(m3.C2(a))), m3.V2(tr.Apply(m3.C2(b)))
		if got := dt.ApplyDistance(a.Dist(b)); !(got >= 0) || math.Abs(got-ta.Dist(tb)) > 1e-9*(ta.Norm()+tb.Norm()+1) {
			return fmt.Errorf("2D %+v: ApplyDistance(%g) = %g but the images are %g apart", c.X, a.Dist(b), got, ta.Dist(tb))
		}
	}
	return nil
}

// ---------------------------------------------------------------------------
// axis squeeze / pinch / smart squeeze

type squeezeCase struct {
	Kind  string       `json:"kind"` // squeeze pinch smart
	Axis  int          `json:"axis"`
	Min   float64      `json:"min"`
	Max   float64      `json:"max"`
	Param float64      `json:"param"` // ratio or power
	Unsq  [][2]float64 `json:"unsq,omitempty"`
	Pinch []float64    `json:"pinch,omitempty"`
	PR    float64      `json:"pr,omitempty"`
	Pts   []kit.V3     `json:"pts"`
}

func genSqueeze(t *rapid.T) squeezeCase {
	c := squeezeCase{Kind: rapid.SampledFrom([]string{"squeeze", "pinch", "smart"}).Draw(t, "kind"), Axis: rapid.IntRange(0, 2).Draw(t, "axis")}
	c.Min = gen.F(t, -2, 1, "min")
	c.Max = c.Min + gen.LogF(t, 0.05, 3, "len")
	switch c.Kind {
	case "squeeze":
		c.Param = gen.LogF(t, 0.02, 1, "ratio")
	case "pinch":
		c.Param = gen.LogF(t, 0.2, 5, "power")
	default:
		c.Param = gen.LogF(t, 0.02, 1, "ratio")
		// disjoint unsqueezable ranges and pinches inside [min, max]
		n := rapid.IntRange(0, 2).Draw(t, "nunsq")
		cur := c.Min
		for i := 0; i < n; i++ {
			a := cur + gen.F(t, 0.02, 0.3, "gap")*(c.Max-c.Min)
			b := a + gen.F(t, 0.02, 0.2, "ulen")*(c.Max-c.Min)
			if b >= c.Max {
				break
			}
			c.Unsq = append(c.Unsq, [2]float64{a, b})
			cur = b
		}
		if rapid.Bool().Draw(t, "withpinch") {
			c.PR = gen.LogF(t, 0.005, 0.05, "pr") * (c.Max - c.Min)
			c.Pinch = []float64{c.Min, c.Max}
		}
	}
	for i := 0; i < 12; i++ {
		p := gen.Vec3(t, 3, "p")
		p[c.Axis] = c.Min + gen.F(t, -0.5, 1.5, "along")*(c.Max-c.Min)
		c.Pts = append(c.Pts, p)
	}
	return c
}

type boxBounder struct{ min, max model3d.Coord3D }

func (b boxBounder) Min() model3d.Coord3D { return b.min }
func (b boxBounder) Max() model3d.Coord3D { return b.max }

func checkSqueeze(c squeezeCase, o *kit.Obs) error {
	var tr model3d.Transform
	switch c.Kind {
	case "squeeze":
		tr = &toolbox3d.AxisSqueeze{Axis: toolbox3d.Axis(c.Axis), Min: c.Min, Max: c.Max, Ratio: c.Param}
	case "pinch":
		tr = &toolbox3d.AxisPinch{Axis: toolbox3d.Axis(c.Axis), Min: c.Min, Max: c.Max, Power: c.Param}
	default:
		ss := toolbox3d.NewSmartSqueeze(toolbox3d.Axis(c.Axis), c.Param, c.PR, 0)
		for _, u := range c.Unsq {
			ss.AddUnsqueezable(u[0], u[1])
		}
		for _, p := range c.Pinch {
			ss.AddPinch(p)
		}
		lo, hi := model3d.XYZ(-3, -3, -3), model3d.XYZ(3, 3, 3)
		la, ha := lo.Array(), hi.Array()
		la[c.Axis], ha[c.Axis] = c.Min, c.Max
		tr = ss.Transform(boxBounder{model3d.NewCoord3DArray(la), model3d.NewCoord3DArray(ha)})
	}
	inv := tr.Inverse()
	o.Label("kind:" + c.Kind)
	o.NonTrivial()
	size := c.Max - c.Min
	roundTrip := func(first, second model3d.Transform, p kit.V3, what string) error {
		q := first.Apply(m3.C3(p))
		back := m3.V3(second.Apply(q))
		// propagated rounding: how far the second map moves a +-8 ulp interval around the intermediate value
		qa := q.Array()
		eps := 8 * 2.3e-16 * (math.Abs(qa[c.Axis]) + size)
		lo, hi := qa, qa
		lo[c.Axis] -= eps
		hi[c.Axis] += eps
		span := second.Apply(model3d.NewCoord3DArray(hi)).Dist(second.Apply(model3d.NewCoord3DArray(lo)))
		if d := back.Dist(p); d > 1e-9*size+4*span {
			return fmt.Errorf("%s %+v: %s of %v returns %v, off by %g (propagated rounding allows %g)", c.Kind, c, what, p, back, d, 1e-9*size+4*span)
		}
		return nil
	}
	for _, p := range c.Pts {
		if err := roundTrip(tr, inv, p, "Inverse().Apply(Apply(p))"); err != nil {
			return err
		}
		if err := roundTrip(inv, tr, p, "Apply(Inverse().Apply(p))"); err != nil {
			return err
		}
	}
	// bounds: images of box points stay inside ApplyBounds of the box; the maps are monotone along the axis
	lo, hi := c.Pts[0], c.Pts[0]
	for _, p := range c.Pts {
		for a := 0; a < 3; a++ {
			lo[a], hi[a] = math.Min(lo[a], p[a]), math.Max(hi[a], p[a])
		}
	}
	bmin, bmax := tr.ApplyBounds(m3.C3(lo), m3.C3(hi))
	for _, p := range c.Pts {
		q := m3.V3(tr.Apply(m3.C3(p)))
		if !inBox(q, m3.V3(bmin), m3.V3(bmax), 1e-9*(size+q.Norm())) {
			return fmt.Errorf("%s %+v: ApplyBounds([%v, %v]) = [%v, %v] does not contain the image %v of %v", c.Kind, c, lo, hi, bmin, bmax, q, p)
		}
	}
	sort.Slice(c.Pts, func(i, j int) bool { return c.Pts[i][c.Axis] < c.Pts[j][c.Axis] })
	for i := 1; i < len(c.Pts); i++ {
		a, b := tr.Apply(m3.C3(c.Pts[i-1])).Array()[c.Axis], tr.Apply(m3.C3(c.Pts[i])).Array()[c.Axis]
		if a > b+1e-12*size {
			return fmt.Errorf("%s %+v: the map is not monotone along its axis: %v -> %g but %v -> %g", c.Kind, c, c.Pts[i-1], a, c.Pts[i], b)
		}
	}
	return nil
}

// ---------------------------------------------------------------------------
// conjugacy of wrapped objects

type conjCase struct {
	Shape gen.Shape3  `json:"shape"`
	X     gen.Xform3  `json:"x"`
	Pts   []kit.V3    `json:"pts"`  // original-space points
	Rays  [][2]kit.V3 `json:"rays"` // original-space rays (origin, direction)
}

func genConj(t *rapid.T, distOnly bool) conjCase {
	s := gen.Shape3Gen(t, gen.AllKinds3, gen.LogF(t, 0.3, 3, "size"), 10, "shape")
	c := conjCase{Shape: s, X: gen.Xform3Gen(t, distOnly, "x")}
	for i := 0; i < 12; i++ {
		c.Pts = append(c.Pts, s.Centre().Add(gen.Vec3(t, 1.5*s.Size(), "p")))
	}
	for i := 0; i < 8; i++ {
		o := s.Centre().Add(gen.Vec3(t, 2*s.Size(), "o"))
		d := s.Centre().Add(gen.Vec3(t, 0.7*s.Size(), "target")).Sub(o)
		if d.Norm() < 1e-3*s.Size() {
			d = kit.V3{0.3, 0.5, -0.4}
		}
		c.Rays = append(c.Rays, [2]kit.V3{o, d.Unit().Scale(gen.LogF(t, 1e-2, 1e2, "ds"))})
	}
	return c
}

func checkConjSolid(c conjCase, o *kit.Obs) error {
	s, x := c.Shape, c.X
	ts := model3d.TransformSolid(x.Build(), s.Build())
	if len(x.Kinds()) >= 2 {
		o.NonTrivial()
	}
	min, max := m3.V3(ts.Min()), m3.V3(ts.Max())
	for _, p := range c.Pts {
		ref := s.RefSDF(p)
		if math.Abs(ref.SDF) < 1e-7*(s.Size()+p.Norm()) {
			continue
		}
		q := x.RefApply(p)
		if got := ts.Contains(m3.C3(q)); got != (ref.SDF > 0) {
			return fmt.Errorf("TransformSolid(%+v, %s %+v): Contains(image of %v) = %v but the original contains=%v (sdf %g)", x, s.Kind, s, p, got, ref.SDF > 0, ref.SDF)
		}
		if ref.SDF > 0 && !inBox(q, min, max, 1e-9*(q.Norm()+1)) {
			return fmt.Errorf("TransformSolid(%+v, %s): the image %v of an interior point lies outside the reported bounds [%v, %v]", x, s.Kind, q, min, max)
		}
	}
	// exactly representable boxes under exactly representable maps (quarter-integer corners and offsets, scales by
	// powers of two): the image of a closed box is the closed image box, faces, edges and corners included
	if len(c.Pts) > 0 {
		bits := math.Float64bits(c.Pts[0][0])
		q4 := func(sh uint) float64 { return float64(int((bits>>sh)%33)-16) / 4 }
		lo := model3d.XYZ(q4(0), q4(6), q4(12))
		hi := lo.Add(model3d.XYZ(float64(1+(bits>>18)%8)/4, float64(1+(bits>>21)%8)/4, float64(1+(bits>>24)%8)/4))
		off := model3d.XYZ(q4(27), q4(33), q4(39))
		k := []float64{1, 2, 0.5, 4}[(bits>>45)%4]
		box := &model3d.Rect{MinVal: lo, MaxVal: hi}
		tr := model3d.JoinedTransform{&model3d.Scale{Scale: k}, &model3d.Translate{Offset: off}}
		for name, solid := range map[string]model3d.Solid{"TransformSolid": model3d.TransformSolid(tr, box), "TranslateSolid(ScaleSolid)": model3d.TranslateSolid(model3d.ScaleSolid(box, k), off)} {
			for i := 0; i < 27; i++ {
				var p [3]float64
				for a, v := range [3][2]float64{{lo.X, hi.X}, {lo.Y, hi.Y}, {lo.Z, hi.Z}} {
					p[a] = []float64{v[0], (v[0] + v[1]) / 2, v[1]}[(i/[]int{1, 3, 9}[a])%3]
				}
				img := model3d.NewCoord3DArray(p).Scale(k).Add(off)
				if !solid.Contains(img) {
					return fmt.Errorf("%s of the closed box [%v, %v] scaled by %g and moved by %v does not contain the image %v of its point %v (corner, edge, face or centre: all numbers are exact)", name, lo, hi, k, off, img, p)
				}
			}
		}
	}
	return nil
}

func checkConjCollider(c conjCase, o *kit.Obs) error {
	s, x := c.Shape, c.X
	orig := s.Build()
	tc := model3d.TransformCollider(x.Build().(model3d.DistTransform), orig)
	if x.Kind == "joined" && len(x.Parts) >= 2 && len(c.Pts) > 0 && math.Float64bits(c.Pts[0][1])%2 == 0 {
		// the same map as a wrapper of a wrapper: one TransformCollider per part, the first part innermost
		tc = orig
		for _, part := range x.Parts {
			tc = model3d.TransformCollider(part.Build().(model3d.DistTransform), tc)
		}
		o.Label("nested-wrappers")
	}
	f := x.DistFactor()
	what := fmt.Sprintf("TransformCollider(%+v, %s %+v)", x, s.Kind, s)
	for ri, r := range c.Rays {
		inner := &model3d.Ray{Origin: m3.C3(r[0]), Direction: m3.C3(r[1])}
		outer := &model3d.Ray{Origin: m3.C3(x.RefApply(r[0])), Direction: m3.C3(x.RefApplyDir(r[1]))}
		type hit struct {
			s float64
			n kit.V3
		}
		var hi, ho []hit
		ni := orig.RayCollisions(inner, func(rc model3d.RayCollision) { hi = append(hi, hit{rc.Scale, m3.V3(rc.Normal)}) })
		no := tc.RayCollisions(outer, func(rc model3d.RayCollision) { ho = append(ho, hit{rc.Scale, m3.V3(rc.Normal)}) })
		// skip rays whose hit count is not robust under the rounding of the mapped ray
		gen := true
		for _, h := range hi {
			p := r[0].Add(r[1].Scale(h.s))
			if h.s*r[1].Norm() < 1e-6*s.Size() || !s.RefSDF(p).Smooth && false {
				gen = false
			}
		}
		d0 := math.Abs(s.RefSDF(r[0]).SDF)
		if d0 < 1e-6*s.Size() || !gen || nearTangent(s, r) {
			o.Skip("ray-not-generic")
			continue
		}
		if ni != no || len(ho) != no {
			return fmt.Errorf("%s: original ray %v hits %d times, the mapped ray hits the transformed collider %d times (callbacks %d)", what, r, ni, no, len(ho))
		}
		if n2 := tc.RayCollisions(outer, nil); n2 != no {
			return fmt.Errorf("%s: %d collisions with a callback, %d with a nil callback", what, no, n2)
		}
		sort.Slice(hi, func(a, b int) bool { return hi[a].s < hi[b].s })
		sort.Slice(ho, func(a, b int) bool { return ho[a].s < ho[b].s })
		if no > 0 {
			o.NonTrivial()
		}
		for k := range hi {
			if math.Abs(hi[k].s-ho[k].s) > 1e-9*(1+hi[k].s)*(1+x.MaxStretch()*f) {
				return fmt.Errorf("%s: ray %v: collision %d has parameter %.17g on the original and %.17g on the transformed collider (same parameter expected)", what, r, k, hi[k].s, ho[k].s)
			}
			if l := ho[k].n.Norm(); math.Abs(l-1) > 1e-9 {
				return fmt.Errorf("%s: ray %v: transformed collision normal %v has length %g", what, r, ho[k].n, l)
			}
			want := x.RefNormal(hi[k].n)
			if ho[k].n.Dist(want) > 1e-6 {
				return fmt.Errorf("%s: ray %v: transformed collision normal %v, expected the mapped original normal %v", what, r, ho[k].n, want)
			}
		}
		first, ok := tc.FirstRayCollision(outer)
		if ok != (no > 0) || (ok && math.Abs(first.Scale-ho[0].s) > 1e-9*(1+ho[0].s)) {
			return fmt.Errorf("%s: ray %v: FirstRayCollision (%v, %v) disagrees with the smallest of %d collisions", what, r, first.Scale, ok, no)
		}
		if ok && (no == 1 || ho[1].s-ho[0].s > 1e-6*(1+ho[0].s)) {
			fn := m3.V3(first.Normal)
			if fn.Dist(ho[0].n) > 1e-6 {
				return fmt.Errorf("%s: ray %v: FirstRayCollision reports normal %v, the same collision enumerated by RayCollisions has normal %v", what, r, fn, ho[0].n)
			}
		}
		// queries are pure: a callback may cast further rays at the same collider (shadow rays do) and the
		// enumeration in progress still reports the collisions of its own ray; the ray argument is only read
		if no > 0 {
			r2 := c.Rays[(ri+1)%len(c.Rays)]
			other := &model3d.Ray{Origin: outer.Origin.Add(outer.Direction.Scale(0.37)), Direction: outer.Direction.Scale(-1.7)}
			if len(c.Rays) > 1 {
				other = &model3d.Ray{Origin: m3.C3(x.RefApply(r2[0])), Direction: m3.C3(x.RefApplyDir(r2[1]))}
			}
			before := *outer
			var hr []hit
			nr := tc.RayCollisions(outer, func(rc model3d.RayCollision) {
				hr = append(hr, hit{rc.Scale, m3.V3(rc.Normal)})
				tc.FirstRayCollision(other)
				tc.RayCollisions(other, nil)
			})
			if *outer != before {
				return fmt.Errorf("%s: RayCollisions changed the ray it was given from %v to %v", what, before, *outer)
			}
			sort.Slice(hr, func(a, b int) bool { return hr[a].s < hr[b].s })
			same := nr == no && len(hr) == len(ho)
			for k := 0; same && k < len(hr); k++ {
				same = hr[k] == ho[k]
			}
			if !same {
				return fmt.Errorf("%s: ray %v: %d collisions %v when enumerated alone, %d collisions %v when the callback casts another ray at the same collider", what, r, no, ho, nr, hr)
			}
		}
	}
	for _, p := range c.Pts {
		ref := s.RefSDF(p)
		for _, k := range []float64{0.5, 2} {
			rad := math.Abs(ref.SDF) * k
			if math.Abs(ref.SDF) < 1e-7*s.Size() {
				continue
			}
			if s.Kind == "cone" {
				if rho, span, _ := s.AxisDistance(p); rho > 0 && rho < 1e-4*(span+s.R) {
					continue // known finding cone-near-axis (C06/C07)
				}
			}
			if got := tc.SphereCollision(m3.C3(x.RefApply(p)), f*rad); got != (k > 1) {
				return fmt.Errorf("%s: SphereCollision(image of %v, %g x %g) = %v but the original surface is %g away", what, p, f, rad, got, math.Abs(ref.SDF))
			}
		}
	}
	return nil
}

// nearTangent measures general position with the reference distance along the ray (coarse version of C07's rule).
func nearTangent(s gen.Shape3, r [2]kit.V3) bool {
	dl := r[1].Norm()
	reach := r[0].Dist(s.Centre()) + 2*s.Size()
	n := 600
	h := reach / dl / float64(n)
	prev2, prev := math.NaN(), s.RefSDF(r[0]).SDF
	for i := 1; i <= n; i++ {
		cur := s.RefSDF(r[0].Add(r[1].Scale(float64(i) * h))).SDF
		if !math.IsNaN(prev2) && (prev2 > 0) == (prev > 0) && (prev > 0) == (cur > 0) &&
			math.Abs(prev) <= math.Abs(prev2) && math.Abs(prev) <= math.Abs(cur) && math.Abs(prev) < 3*h*dl {
			return true
		}
		prev2, prev = prev, cur
	}
	return false
}

func checkConjMetaball(c conjCase, o *kit.Obs) error {
	s, x := c.Shape, c.X
	var mb model3d.Metaball
	prim := s.Build().(model3d.Metaball)
	vec := x.Kind == "vecscale"
	if vec {
		mb = model3d.VecScaleMetaball(prim, m3.C3(x.V))
	} else if x.IsDist() {
		mb = model3d.TransformMetaball(x.Build().(model3d.DistTransform), prim)
	} else {
		return nil
	}
	o.Label("kind:" + x.Kind)
	o.NonTrivial()
	f := x.DistFactor()
	for _, p := range c.Pts {
		q := x.RefApply(p)
		want := prim.MetaballField(m3.C3(p))
		got := mb.MetaballField(m3.C3(q))
		if math.Abs(got-want) > 1e-9*(math.Abs(want)+s.Size()+p.Norm()) {
			return fmt.Errorf("transformed metaball (%+v, %s): field at the image of %v is %g, the original field there is %g", x, s.Kind, p, got, want)
		}
		ref := s.RefSDF(p)
		if ref.SDF >= 0 {
			continue
		}
		d := -ref.SDF // original distance outside the surface
		if vec {
			// true distance to the scaled surface is at least minScale*d; the bound is non-decreasing
			minS := math.Min(math.Abs(x.V[0]), math.Min(math.Abs(x.V[1]), math.Abs(x.V[2])))
			if b := mb.MetaballDistBound(minS * d); b > got*(1+1e-9)+1e-12 {
				return fmt.Errorf("VecScaleMetaball(%v, %s): MetaballDistBound(%g) = %g exceeds the field %g at a point at least that far from the surface", x.V, s.Kind, minS*d, b, got)
			}
		} else if b := mb.MetaballDistBound(f * d); b > got*(1+1e-9)+1e-12 {
			return fmt.Errorf("TransformMetaball(%+v, %s): MetaballDistBound(%g) = %g exceeds the field %g at a point exactly that far from the surface", x, s.Kind, f*d, b, got)
		}
	}
	// bounds of the region where the field may be <= 0
	min, max := m3.V3(mb.Min()), m3.V3(mb.Max())
	for _, p := range c.Pts {
		if s.RefSDF(p).SDF > 1e-9*s.Size() {
			if q := x.RefApply(p); !inBox(q, min, max, 1e-9*(q.Norm()+1)) {
				return fmt.Errorf("transformed metaball (%+v, %s): interior image %v outside the reported bounds [%v, %v]", x, s.Kind, q, min, max)
			}
		}
	}
	if vec && s.Kind == "sphere" {
		// along the axis of the largest scale the nearest point of the ellipsoid is its vertex, so the true
		// distance is exactly maxScale * d and the bound must not exceed the field there
		a, best := 0, 0.0
		for i := 0; i < 3; i++ {
			if v := math.Abs(x.V[i]); v > best {
				a, best = i, v
			}
		}
		for _, k := range []float64{1.3, 2, 7} {
			p := s.A
			p[a] += s.R * k
			q := x.RefApply(p)
			d := s.R * (k - 1)
			field := mb.MetaballField(m3.C3(q))
			if b := mb.MetaballDistBound(best * d); b > field*(1+1e-9) {
				return fmt.Errorf("VecScaleMetaball(%v, sphere r=%g): at distance %g along the longest axis the field is %g but MetaballDistBound claims at least %g", x.V, s.R, best*d, field, b)
			}
		}
	}
	return nil
}

// ---------------------------------------------------------------------------
// meshing in transformed space

type mcConjCase struct {
	Tree  *gen.Node    `json:"tree"`
	Delta float64      `json:"delta"`
	Iters int          `json:"iters"`
	Xs    []gen.Xform3 `json:"xs"`
	Sq    bool         `json:"squeeze"`
}

func checkMCConj(c mcConjCase, o *kit.Obs) error {
	solid := c.Tree.Build()
	var xs []model3d.Transform
	joined := gen.Xform3{Kind: "joined", Parts: c.Xs}
	for _, x := range c.Xs {
		xs = append(xs, x.Build())
	}
	if joined.Det() < 0 {
		if kit.Excluded("conj-reflection") {
			kit.CountExcluded("conj-reflection")
			return nil
		}
	}
	if !c.Sq {
		// the lattice lives in the transformed space: a composition of several enlarging maps at a small
		// spacing asks for billions of cells, which is a cost of the case, not a defect
		if cells := gen.LatticeCells(joined, m3.V3(solid.Min()), m3.V3(solid.Max()), c.Delta); cells > 4e6 {
			o.Skip("lattice too large")
			return nil
		}
	}
	var mesh *model3d.Mesh
	if c.Sq {
		ss := toolbox3d.NewSmartSqueeze(toolbox3d.AxisZ, 0.3, 0.02, 0)
		ss.AddPinch(solid.Min().Z)
		ss.AddPinch(solid.Max().Z)
		mesh = ss.MarchingCubesSearch(solid, c.Delta, c.Iters)
	} else {
		mesh = model3d.MarchingCubesConj(solid, c.Delta, c.Iters, xs...)
	}
	tris := m3.Tris(mesh)
	if len(tris) == 0 {
		return nil
	}
	if _, err := kit.ClosedOrientedManifold(append([]kit.Tri(nil), tris...)); err != nil {
		return fmt.Errorf("conjugated marching cubes: %w", err)
	}
	o.NonTrivial()
	// the mesh lives in the original space: points well inside / outside the original solid (by a few
	// spacings mapped back through the transform) must have winding number 1 / 0
	stretch := 1.0
	if !c.Sq {
		stretch = joined.MaxStretch()
	} else {
		stretch = 1 / 0.3
	}
	margin := 3 * c.Delta * stretch
	min, max := m3.V3(solid.Min()), m3.V3(solid.Max())
	n := 0
	for i := 0; i < 60; i++ {
		u := kit.V3{math.Mod(0.137*float64(i)+0.05, 1), math.Mod(0.291*float64(i)+0.3, 1), math.Mod(0.618*float64(i)+0.7, 1)}
		p := kit.V3{min[0] + (u[0]*1.4-0.2)*(max[0]-min[0]), min[1] + (u[1]*1.4-0.2)*(max[1]-min[1]), min[2] + (u[2]*1.4-0.2)*(max[2]-min[2])}
		in, sure := c.Tree.RefContains(p, margin)
		if !sure {
			continue
		}
		n++
		w := kit.Winding3(tris, p)
		want := 0.0
		if in {
			want = 1
		}
		if math.Abs(w-want) > 0.05 {
			return fmt.Errorf("conjugated marching cubes (%+v, squeeze=%v): point %v is %v the solid by more than %g but the mesh has winding number %.3f there", c.Xs, c.Sq, p, map[bool]string{true: "inside", false: "outside"}[in], margin, w)
		}
	}
	o.Labelf("probes:%d", n/10*10)
	return nil
}

func TestProp(t *testing.T) {
	kit.Run(t, "C05", rule,
		kit.Clause[lawCase]{Name: "C05/xform3/laws", Quick: 30000, Thorough: 800000, Gen: genLaw, Check: checkLaw},
		kit.Clause[law2Case]{Name: "C05/xform2/laws", Quick: 30000, Thorough: 800000, Gen: func(t *rapid.T) law2Case {
			c := law2Case{X: genX2(t, 2, "x")}
			lo := gen.Vec2(t, 3, "lo")
			c.Box = [2]kit.V2{lo, lo.Add(kit.V2{gen.LogF(t, 1e-3, 5, "dx"), gen.LogF(t, 1e-3, 5, "dy")})}
			for i := 0; i < 8; i++ {
				p := kit.V2{gen.F(t, 0, 1, "u"), gen.F(t, 0, 1, "v")}
				for a := 0; a < 2; a++ {
					switch rapid.IntRange(0, 3).Draw(t, "snap") {
					case 0:
						p[a] = 0
					case 1:
						p[a] = 1
					}
				}
				c.Pts = append(c.Pts, p)
			}
			return c
		}, Check: checkLaw2},
		kit.Clause[squeezeCase]{Name: "C05/squeeze/laws", Quick: 20000, Thorough: 500000, Gen: genSqueeze, Check: checkSqueeze},
		kit.Clause[conjCase]{Name: "C05/conj/solid", Quick: 10000, Thorough: 250000, Gen: func(t *rapid.T) conjCase { return genConj(t, false) }, Check: checkConjSolid},
		kit.Clause[conjCase]{Name: "C05/conj/collider", Quick: 4000, Thorough: 100000, Gen: func(t *rapid.T) conjCase { return genConj(t, true) }, Check: checkConjCollider},
		kit.Clause[conj2Case]{Name: "C05/conj/collider2d", Quick: 4000, Thorough: 100000, Gen: genConj2, Check: checkConjCollider2},
		kit.Clause[conjCase]{Name: "C05/conj/metaball", Quick: 10000, Thorough: 250000, Gen: func(t *rapid.T) conjCase {
			c := genConj(t, rapid.Bool().Draw(t, "dist"))
			if !c.X.IsDist() {
				v := kit.V3{gen.LogF(t, 0.2, 5, "sx"), gen.LogF(t, 0.2, 5, "sy"), gen.LogF(t, 0.2, 5, "sz")}
				if rapid.Bool().Draw(t, "neg") {
					v[1] = -v[1]
				}
				c.X = gen.Xform3{Kind: "vecscale", V: v}
			}
			return c
		}, Check: checkConjMetaball},
		kit.Clause[msConjCase]{Name: "C05/conj/marching-squares", Quick: 1500, Thorough: 40000, Fresh: true, Gen: genMSConj, Check: checkMSConj},
		kit.Clause[mcConjCase]{Name: "C05/conj/marching-cubes", Quick: 300, Thorough: 8000, Fresh: true, Gen: func(t *rapid.T) mcConjCase {
			c := mcConjCase{Tree: gen.NodeGen(t, 2, 3, false, "tree"), Delta: gen.LogF(t, 0.1, 0.3, "delta"), Iters: rapid.IntRange(0, 5).Draw(t, "iters"), Sq: rapid.IntRange(0, 3).Draw(t, "sq") == 0}
			n := rapid.IntRange(1, 3).Draw(t, "n")
			for i := 0; i < n; i++ {
				c.Xs = append(c.Xs, gen.Xform3Gen(t, false, "x"))
			}
			return c
		}, Check: checkMCConj},
	)
}
