package c06

import (
	"fmt"
	"math"
	"testing"

	"github.com/unixpickle/model3d/model2d"
	"github.com/unixpickle/model3d/model3d"
	"pgregory.net/rapid"
	"verifharness/gen"
	"verifharness/kit"
	"verifharness/m3"
)

const rule = "shapes (3D sphere/rect/capsule/cylinder/cone/torus, 2D circle/rect/capsule/triangle, arbitrary axes, aspect ratios to 1e3; closed meshes from marching cubes/squares and constructors; extruded profiles; collider- and transform-derived fields) x query points (inside, outside, near the surface at 1e-6..1e-1 of the size, on axes of symmetry, at centres, close pairs). Reference: closed-form distances by profile reduction / per-axis clamping, brute force over faces for meshes. Non-trivial: a query off the axis of symmetry whose nearest point lies on a curved or slanted piece (primitives), or any query with a unique nearest face (meshes). Distinct: hash of the JSON case."

// ---------------------------------------------------------------------------
// 3D primitives

type prim3Case struct {
	Shape gen.Shape3 `json:"shape"`
	Pts   []kit.V3   `json:"pts"`
}

func genPoints3(t *rapid.T, s gen.Shape3, n int) []kit.V3 {
	size, ctr := s.Size(), s.Centre()
	var pts []kit.V3
	for i := 0; i < n; i++ {
		var p kit.V3
		switch rapid.IntRange(0, 5).Draw(t, "ptkind") {
		case 0, 1: // anywhere around the shape
			p = ctr.Add(gen.Vec3(t, 1.6*size, "p"))
		case 2, 3: // near the surface: a reference nearest point pushed along the reference normal
			q := ctr.Add(gen.Vec3(t, 1.3*size, "q"))
			r := s.RefSDF(q)
			off := gen.LogF(t, 1e-6, 1e-1, "off") * size
			if rapid.Bool().Draw(t, "inward") {
				off = -off
			}
			if r.Normal.Norm() > 0.5 {
				p = r.Nearest.Add(r.Normal.Scale(off))
			} else {
				p = q
			}
		case 4: // on the axis of symmetry / line through the centre
			axis := kit.V3{0, 0, 1}
			if s.Kind == "capsule" || s.Kind == "cylinder" || s.Kind == "cone" {
				axis = s.A.Sub(s.B).Unit()
			} else if s.Kind == "torus" {
				axis = s.B.Unit()
			}
			p = ctr.Add(axis.Scale(gen.F(t, -1.5, 1.5, "along") * size))
		default: // the centre and the defining points themselves
			p = rapid.SampledFrom([]kit.V3{ctr, s.A, s.B}).Draw(t, "special")
			if s.Kind == "torus" && p == s.B {
				p = ctr
			}
		}
		pts = append(pts, p)
		// a close companion for the Lipschitz clause
		if rapid.IntRange(0, 3).Draw(t, "pair") == 0 {
			pts = append(pts, p.Add(gen.Dir3(t, "pd").Unit().Scale(gen.LogF(t, 1e-9, 1, "pl")*size)))
		}
	}
	return pts
}

func genPrim3(t *rapid.T) prim3Case {
	s := gen.Shape3Gen(t, gen.AllKinds3, gen.LogF(t, 0.05, 20, "size"), 1000, "shape").Scaled(gen.UnitGen(t, "unit"))
	return prim3Case{Shape: s, Pts: genPoints3(t, s, 12)}
}

// coneNearAxis recognises the input class of known finding C06-cone-near-axis: a cone query whose radial
// offset from the axis is non-zero but below 1e-4 of its distance from the base centre (the library then
// replaces the radial direction by a fixed fallback and measures the distance to the wrong generator line).
func coneNearAxis(s gen.Shape3, p kit.V3) bool {
	if s.Kind != "cone" || !kit.Excluded("cone-near-axis") {
		return false
	}
	rho, span, _ := s.AxisDistance(p)
	if rho > 0 && rho < 1e-4*(span+s.R) {
		kit.CountExcluded("cone-near-axis")
		return true
	}
	return false
}

func checkPrim3(c prim3Case, o *kit.Obs) error {
	s := c.Shape
	prim := s.Build()
	size := s.Size()
	o.Label("kind:" + s.Kind)
	sdfs := make([]float64, len(c.Pts))
	for i, p := range c.Pts {
		ref := s.RefSDF(p)
		scale := size + p.Dist(s.Centre())
		tol := 1e-9 * scale
		pc := m3.C3(p)
		sdf := prim.SDF(pc)
		sdfs[i] = sdf
		if coneNearAxis(s, p) {
			sdfs[i] = math.NaN()
			continue
		}
		if math.IsNaN(sdf) || math.Abs(sdf-ref.SDF) > tol {
			return fmt.Errorf("%s %+v: SDF(%v) = %.17g, reference distance %.17g (tolerance %.3g)", s.Kind, s, p, sdf, ref.SDF, tol)
		}
		if math.Abs(ref.SDF) > tol {
			if prim.Contains(pc) != (sdf > 0) {
				return fmt.Errorf("%s %+v: Contains(%v) = %v but SDF = %g", s.Kind, s, p, prim.Contains(pc), sdf)
			}
		}
		pt, d2 := prim.PointSDF(pc)
		if math.Abs(d2-sdf) > tol {
			return fmt.Errorf("%s: PointSDF distance %g differs from SDF %g at %v", s.Kind, d2, sdf, p)
		}
		if r2 := s.RefSDF(m3.V3(pt)); math.Abs(r2.SDF) > 10*tol {
			return fmt.Errorf("%s %+v: PointSDF(%v) returned %v which is %g away from the boundary", s.Kind, s, p, pt, r2.SDF)
		}
		if d := m3.V3(pt).Dist(p); math.Abs(d-math.Abs(sdf)) > 10*tol {
			return fmt.Errorf("%s %+v: PointSDF(%v) returned a point at distance %g but |SDF| = %g", s.Kind, s, p, d, math.Abs(sdf))
		}
		n, d3 := prim.NormalSDF(pc)
		if math.Abs(d3-sdf) > tol {
			return fmt.Errorf("%s: NormalSDF distance %g differs from SDF %g at %v", s.Kind, d3, sdf, p)
		}
		if nn := n.Norm(); math.IsNaN(nn) || math.Abs(nn-1) > 1e-9 {
			return fmt.Errorf("%s %+v: NormalSDF(%v) returned %v of length %g, not a unit vector", s.Kind, s, p, n, nn)
		}
		if ref.Smooth && ref.Margin > 1e-4*size {
			if s.Kind != "sphere" && s.Kind != "rect" {
				o.NonTrivial()
			}
			if d := m3.V3(n).Dist(ref.Normal); d > 1e-6 {
				return fmt.Errorf("%s %+v: NormalSDF(%v) = %v, reference outward normal at the nearest point is %v (difference %g)", s.Kind, s, p, n, ref.Normal, d)
			}
			if ref.Margin > 1e-2*size {
				// the field decreases fastest along the outward normal: -grad SDF = normal
				h := 1e-6 * size
				var g kit.V3
				for a := 0; a < 3; a++ {
					e := kit.V3{}
					e[a] = h
					g[a] = (prim.SDF(m3.C3(p.Add(e))) - prim.SDF(m3.C3(p.Sub(e)))) / (2 * h)
				}
				if gn := g.Norm(); math.Abs(gn-1) > 1e-3 {
					return fmt.Errorf("%s %+v: |grad SDF| at %v is %g, a distance field has unit gradient where smooth", s.Kind, s, p, gn)
				}
				if d := g.Scale(-1).Unit().Dist(m3.V3(n)); d > 1e-3 {
					return fmt.Errorf("%s %+v: NormalSDF(%v) = %v but -grad SDF = %v", s.Kind, s, p, n, g.Scale(-1).Unit())
				}
			}
		}
	}
	for i := range c.Pts {
		for j := i + 1; j < len(c.Pts); j++ {
			d := c.Pts[i].Dist(c.Pts[j])
			if math.IsNaN(sdfs[i]) || math.IsNaN(sdfs[j]) {
				continue
			}
			if math.Abs(sdfs[i]-sdfs[j]) > d*(1+1e-9)+1e-12*size {
				return fmt.Errorf("%s %+v: SDF changes by %g between %v and %v, which are only %g apart", s.Kind, s, math.Abs(sdfs[i]-sdfs[j]), c.Pts[i], c.Pts[j], d)
			}
		}
	}
	return nil
}

// ---------------------------------------------------------------------------
// 2D primitives

type prim2Case struct {
	Shape gen.Shape2 `json:"shape"`
	Pts   []kit.V2   `json:"pts"`
}

func genPrim2(t *rapid.T) prim2Case {
	s := gen.Shape2Gen(t, gen.AllKinds2, gen.LogF(t, 0.05, 20, "size"), 1000, "shape").Scaled(gen.UnitGen(t, "unit"))
	size, ctr := s.Size(), s.Centre()
	c := prim2Case{Shape: s}
	for i := 0; i < 12; i++ {
		var p kit.V2
		switch rapid.IntRange(0, 4).Draw(t, "ptkind") {
		case 0, 1:
			p = ctr.Add(gen.Vec2(t, 1.6*size, "p"))
		case 2, 3:
			q := ctr.Add(gen.Vec2(t, 1.3*size, "q"))
			r := s.RefSDF(q)
			off := gen.LogF(t, 1e-6, 1e-1, "off") * size
			if rapid.Bool().Draw(t, "inward") {
				off = -off
			}
			if r.Normal.Norm() > 0.5 {
				p = r.Nearest.Add(r.Normal.Scale(off))
			} else {
				p = q
			}
		default:
			p = rapid.SampledFrom([]kit.V2{ctr, s.A, s.B}).Draw(t, "special")
			if s.Kind == "circle" {
				p = ctr
			}
		}
		c.Pts = append(c.Pts, p)
		if rapid.IntRange(0, 3).Draw(t, "pair") == 0 {
			c.Pts = append(c.Pts, p.Add(gen.Dir2(t, "pd").Scale(gen.LogF(t, 1e-9, 1, "pl")*size)))
		}
	}
	return c
}

func checkPrim2(c prim2Case, o *kit.Obs) error {
	s := c.Shape
	prim := s.Build()
	size := s.Size()
	o.Label("kind:" + s.Kind)
	sdfs := make([]float64, len(c.Pts))
	for i, p := range c.Pts {
		ref := s.RefSDF(p)
		scale := size + p.Dist(s.Centre())
		tol := 1e-9 * scale
		pc := m3.C2(p)
		sdf := prim.SDF(pc)
		sdfs[i] = sdf
		if math.IsNaN(sdf) || math.Abs(sdf-ref.SDF) > tol {
			return fmt.Errorf("%s %+v: SDF(%v) = %.17g, reference distance %.17g (tolerance %.3g)", s.Kind, s, p, sdf, ref.SDF, tol)
		}
		if math.Abs(ref.SDF) > tol && prim.Contains(pc) != (sdf > 0) {
			return fmt.Errorf("%s %+v: Contains(%v) = %v but SDF = %g", s.Kind, s, p, prim.Contains(pc), sdf)
		}
		pt, d2 := prim.PointSDF(pc)
		if math.Abs(d2-sdf) > tol {
			return fmt.Errorf("%s: PointSDF distance %g differs from SDF %g at %v", s.Kind, d2, sdf, p)
		}
		if r2 := s.RefSDF(m3.V2(pt)); math.Abs(r2.SDF) > 10*tol {
			return fmt.Errorf("%s %+v: PointSDF(%v) returned %v which is %g away from the boundary", s.Kind, s, p, pt, r2.SDF)
		}
		if d := m3.V2(pt).Dist(p); math.Abs(d-math.Abs(sdf)) > 10*tol {
			return fmt.Errorf("%s %+v: PointSDF(%v) returned a point at distance %g but |SDF| = %g", s.Kind, s, p, d, math.Abs(sdf))
		}
		n, d3 := prim.NormalSDF(pc)
		if math.Abs(d3-sdf) > tol {
			return fmt.Errorf("%s: NormalSDF distance %g differs from SDF %g at %v", s.Kind, d3, sdf, p)
		}
		if nn := n.Norm(); math.IsNaN(nn) || math.Abs(nn-1) > 1e-9 {
			return fmt.Errorf("%s %+v: NormalSDF(%v) returned %v of length %g, not a unit vector", s.Kind, s, p, n, nn)
		}
		if ref.Smooth && ref.Margin > 1e-4*size {
			if s.Kind != "rect" {
				o.NonTrivial()
			}
			if d := m3.V2(n).Dist(ref.Normal); d > 1e-6 {
				return fmt.Errorf("%s %+v: NormalSDF(%v) = %v, reference outward normal is %v", s.Kind, s, p, n, ref.Normal)
			}
		}
		if tr, ok := prim.(*model2d.Triangle); ok {
			bary, d4 := tr.BarycentricSDF(pc)
			if math.Abs(d4-sdf) > tol {
				return fmt.Errorf("triangle: BarycentricSDF distance %g differs from SDF %g", d4, sdf)
			}
			rec := tr.AtBarycentric(bary)
			if d := rec.Dist(pt); d > 10*tol {
				return fmt.Errorf("triangle %+v: BarycentricSDF(%v) = %v reconstructs %v but the nearest point is %v", s, p, bary, rec, pt)
			}
		}
	}
	for i := range c.Pts {
		for j := i + 1; j < len(c.Pts); j++ {
			d := c.Pts[i].Dist(c.Pts[j])
			if math.Abs(sdfs[i]-sdfs[j]) > d*(1+1e-9)+1e-12*size {
				return fmt.Errorf("%s %+v: SDF changes by %g between %v and %v, which are only %g apart", s.Kind, s, math.Abs(sdfs[i]-sdfs[j]), c.Pts[i], c.Pts[j], d)
			}
		}
	}
	return nil
}

// ---------------------------------------------------------------------------
// mesh distance fields (3D)

type mesh3Case struct {
	Src   string      `json:"src"` // mc icosphere torus rect cylinder
	Tree  *gen.Node   `json:"tree,omitempty"`
	Shape *gen.Shape3 `json:"shape,omitempty"`
	N     int         `json:"n"`
	Delta float64     `json:"delta"`
	Pts   []kit.V3    `json:"pts"`  // in units of the mesh's bounding box: 0..1 maps to min..max, may exceed
	Near  []float64   `json:"near"` // for each point: 0, or a signed offset (fraction of size) from a surface sample
}

func genMesh3(t *rapid.T) mesh3Case {
	c := mesh3Case{Src: rapid.SampledFrom([]string{"mc", "mc", "icosphere", "torus", "rect", "cylinder"}).Draw(t, "src")}
	switch c.Src {
	case "mc":
		c.Tree = gen.NodeGen(t, 2, 3, false, "tree")
		c.Delta = gen.LogF(t, 0.15, 0.45, "delta")
	case "icosphere":
		c.N = rapid.IntRange(1, 4).Draw(t, "n")
	default:
		s := gen.Shape3Gen(t, []string{c.Src}, 1, 10, "shape")
		c.Shape = &s
		c.N = rapid.IntRange(3, 12).Draw(t, "stops")
	}
	for i := 0; i < 16; i++ {
		c.Pts = append(c.Pts, kit.V3{gen.F(t, -0.4, 1.4, "x"), gen.F(t, -0.4, 1.4, "y"), gen.F(t, -0.4, 1.4, "z")})
		near := 0.0
		if rapid.Bool().Draw(t, "near") {
			near = gen.LogF(t, 1e-6, 1e-1, "off")
			if rapid.Bool().Draw(t, "neg") {
				near = -near
			}
		}
		c.Near = append(c.Near, near)
	}
	return c
}

func buildMesh3(c mesh3Case) *model3d.Mesh {
	switch c.Src {
	case "mc":
		return model3d.MarchingCubesSearch(c.Tree.Build(), c.Delta, 4)
	case "icosphere":
		return model3d.NewMeshIcosphere(model3d.XYZ(0.3, -0.2, 0.1), 1.3, c.N)
	case "torus":
		return model3d.NewMeshTorus(m3.C3(c.Shape.A), m3.C3(c.Shape.B), c.Shape.R2, c.Shape.R, c.N, c.N+2)
	case "rect":
		return model3d.NewMeshRect(m3.C3(c.Shape.A), m3.C3(c.Shape.B))
	default:
		return model3d.NewMeshCylinder(m3.C3(c.Shape.A), m3.C3(c.Shape.B), c.Shape.R, c.N)
	}
}

func checkMesh3(c mesh3Case, o *kit.Obs) error {
	mesh := buildMesh3(c)
	tris := m3.Tris(mesh)
	o.Label("src:" + c.Src)
	if len(tris) == 0 {
		return nil
	}
	if len(tris) > 1500 {
		o.Skip("mesh too large")
		return nil
	}
	if _, err := kit.ClosedOrientedManifold(append([]kit.Tri(nil), tris...)); err != nil {
		o.Skip("input mesh is not a closed manifold")
		return nil
	}
	sdf := model3d.MeshToSDF(mesh)
	min, max := m3.V3(mesh.Min()), m3.V3(mesh.Max())
	size := max.Sub(min).Norm()
	ptrs := mesh.TriangleSlice()
	inMesh := map[*model3d.Triangle]bool{}
	for _, f := range ptrs {
		inMesh[f] = true
	}
	for i, u := range c.Pts {
		p := kit.V3{min[0] + u[0]*(max[0]-min[0]), min[1] + u[1]*(max[1]-min[1]), min[2] + u[2]*(max[2]-min[2])}
		if c.Near[i] != 0 {
			// move to a surface point (nearest point of p) and step off along that face's normal
			_, fi := kit.MeshDist(tris, p)
			_, q := kit.PointTriDist(p, tris[fi])
			p = q.Add(tris[fi].Normal().Unit().Scale(c.Near[i] * size))
		}
		tol := 1e-9 * (size + p.Dist(min))
		best, bi := kit.MeshDist(tris, p)
		second := math.Inf(1)
		for j, t := range tris {
			if j == bi {
				continue
			}
			if d, _ := kit.PointTriDist(p, t); d < second {
				second = d
			}
		}
		got := sdf.SDF(m3.C3(p))
		if math.Abs(math.Abs(got)-best) > tol {
			return fmt.Errorf("MeshToSDF(%s).SDF(%v) = %.17g, exhaustive minimum over %d faces is %.17g", c.Src, p, got, len(tris), best)
		}
		if best > 1e-7*size {
			w := kit.Winding3(tris, p)
			if math.Abs(w-math.Round(w)) < 0.01 {
				inside := math.Round(w) == 1
				if (got > 0) != inside {
					return fmt.Errorf("MeshToSDF(%s).SDF(%v) = %g but the winding number there is %.3f", c.Src, p, got, w)
				}
			}
		}
		face, pt, d2 := sdf.FaceSDF(m3.C3(p))
		if d2 != got {
			return fmt.Errorf("FaceSDF distance %g differs from SDF %g at %v", d2, got, p)
		}
		if !inMesh[face] {
			return fmt.Errorf("FaceSDF(%v) returned a face that is not in the mesh", p)
		}
		if d, _ := kit.PointTriDist(m3.V3(pt), m3.Tri(face)); d > 10*tol {
			return fmt.Errorf("FaceSDF(%v): returned point %v is %g away from the returned face", p, pt, d)
		}
		if d := m3.V3(pt).Dist(p); math.Abs(d-best) > 10*tol {
			return fmt.Errorf("FaceSDF(%v): returned point is %g away but the distance is %g", p, d, best)
		}
		pt2, d3 := sdf.PointSDF(m3.C3(p))
		if d3 != got || m3.V3(pt2).Dist(p) > best+10*tol {
			return fmt.Errorf("PointSDF(%v) = (%v, %g) inconsistent with SDF %g", p, pt2, d3, got)
		}
		n, d4 := sdf.NormalSDF(m3.C3(p))
		if d4 != got || math.Abs(n.Norm()-1) > 1e-9 {
			return fmt.Errorf("NormalSDF(%v) = (%v, %g): not unit or distance differs from %g", p, n, d4, got)
		}
		if second-best > 1e-6*size {
			o.NonTrivial()
			want := tris[bi].Normal().Unit()
			if m3.V3(n).Dist(want) > 1e-9 {
				return fmt.Errorf("NormalSDF(%v) = %v but the unique nearest face has normal %v", p, n, want)
			}
			if m3.Tri(face) != tris[bi] {
				return fmt.Errorf("FaceSDF(%v) returned face %v but the unique nearest face is %v", p, *face, tris[bi])
			}
		}
	}
	return nil
}

// ---------------------------------------------------------------------------
// mesh distance fields (2D)

type mesh2Case struct {
	Tree  *gen.Node2 `json:"tree"`
	Delta float64    `json:"delta"`
	Pts   []kit.V2   `json:"pts"`
}

func genMesh2(t *rapid.T) mesh2Case {
	c := mesh2Case{Tree: gen.Node2Gen(t, 2, 3, "tree"), Delta: gen.LogF(t, 0.05, 0.4, "delta")}
	for i := 0; i < 20; i++ {
		c.Pts = append(c.Pts, kit.V2{gen.F(t, -0.4, 1.4, "x"), gen.F(t, -0.4, 1.4, "y")})
	}
	return c
}

func checkMesh2(c mesh2Case, o *kit.Obs) error {
	mesh := model2d.MarchingSquaresSearch(c.Tree.Build(), c.Delta, 4)
	segs := m3.Segs(mesh)
	if len(segs) == 0 {
		return nil
	}
	if _, err := kit.ClosedOrientedManifold2(segs); err != nil {
		o.Skip("input outline is not a closed manifold")
		return nil
	}
	sdf := model2d.MeshToSDF(mesh)
	min, max := m3.V2(mesh.Min()), m3.V2(mesh.Max())
	size := max.Sub(min).Norm()
	for _, u := range c.Pts {
		p := kit.V2{min[0] + u[0]*(max[0]-min[0]), min[1] + u[1]*(max[1]-min[1])}
		tol := 1e-9 * (size + p.Dist(min))
		best, bi := kit.MeshDist2(segs, p)
		second := math.Inf(1)
		for j, s := range segs {
			if j != bi {
				if d, _ := kit.PointSegDist2(p, s[0], s[1]); d < second {
					second = d
				}
			}
		}
		got := sdf.SDF(m3.C2(p))
		if math.Abs(math.Abs(got)-best) > tol {
			return fmt.Errorf("2D MeshToSDF.SDF(%v) = %.17g, exhaustive minimum over %d segments is %.17g", p, got, len(segs), best)
		}
		if best > 1e-7*size {
			w := kit.Winding2(segs, p)
			if math.Abs(w-math.Round(w)) < 0.01 && (got > 0) != (math.Round(w) == 1) {
				return fmt.Errorf("2D MeshToSDF.SDF(%v) = %g but the winding number there is %.3f", p, got, w)
			}
		}
		face, pt, d2 := sdf.FaceSDF(m3.C2(p))
		if d2 != got {
			return fmt.Errorf("2D FaceSDF distance %g differs from SDF %g", d2, got)
		}
		if d, _ := kit.PointSegDist2(m3.V2(pt), m3.V2(face[0]), m3.V2(face[1])); d > 10*tol {
			return fmt.Errorf("2D FaceSDF(%v): returned point %v is %g away from the returned segment", p, pt, d)
		}
		if d := m3.V2(pt).Dist(p); math.Abs(d-best) > 10*tol {
			return fmt.Errorf("2D FaceSDF(%v): returned point is %g away but the distance is %g", p, d, best)
		}
		n, _ := sdf.NormalSDF(m3.C2(p))
		if math.Abs(n.Norm()-1) > 1e-9 {
			return fmt.Errorf("2D NormalSDF(%v) = %v is not a unit vector", p, n)
		}
		if second-best > 1e-6*size {
			o.NonTrivial()
			d := segs[bi][1].Sub(segs[bi][0]).Unit()
			want := kit.V2{-d[1], d[0]}
			if m3.V2(n).Dist(want) > 1e-9 {
				return fmt.Errorf("2D NormalSDF(%v) = %v but the unique nearest segment has normal %v", p, n, want)
			}
		}
	}
	return nil
}

// ---------------------------------------------------------------------------
// extruded profiles, collider-derived and transformed fields

type derivedCase struct {
	Kind string      `json:"kind"` // profile collider transform
	S2   *gen.Shape2 `json:"s2,omitempty"`
	S3   *gen.Shape3 `json:"s3,omitempty"`
	Z    [2]float64  `json:"z"`
	X    *gen.Xform3 `json:"x,omitempty"`
	Pts  []kit.V3    `json:"pts"`
	// 2D similarity for the 2D twins: rotate by T2[0], scale by T2[1], then move by (T2[2], T2[3])
	T2 [4]float64 `json:"t2,omitempty"`
}

func genDerived(t *rapid.T) derivedCase {
	c := derivedCase{Kind: rapid.SampledFrom([]string{"profile", "profile", "collider", "transform", "xcollider", "collider2", "transform2", "xcollider2", "tridist"}).Draw(t, "kind")}
	switch c.Kind {
	case "tridist":
		// Pts[0..2]: a triangle, possibly of zero area (a segment spelled {a, b, b}, three colinear points);
		// Pts[3:]: query points
		a, b := gen.Vec3(t, 3, "a"), gen.Vec3(t, 3, "b")
		d := gen.Vec3(t, 3, "c")
		switch rapid.IntRange(0, 5).Draw(t, "degenerate") {
		case 0:
			d = b
		case 1:
			d = a
		case 2:
			b = a
		case 3:
			d = a.Add(b.Sub(a).Scale(float64(rapid.IntRange(-2, 3).Draw(t, "along"))))
		}
		c.Pts = []kit.V3{a, b, d}
		for i := 0; i < 8; i++ {
			c.Pts = append(c.Pts, a.Mid(b).Add(gen.Vec3(t, 4, "q")))
		}
		c.Pts = append(c.Pts, a, b.Mid(d))
	case "collider2", "transform2", "xcollider2":
		s := gen.Shape2Gen(t, gen.AllKinds2, 1, 5, "s2")
		c.S2 = &s
		c.T2 = [4]float64{gen.F(t, -4, 4, "angle"), gen.LogF(t, 0.2, 5, "scale"), gen.F(t, -3, 3, "tx"), gen.F(t, -3, 3, "ty")}
		for i := 0; i < 8; i++ {
			q := s.Centre().Add(gen.Vec2(t, 1.6*s.Size(), "p"))
			c.Pts = append(c.Pts, kit.V3{q[0], q[1], 0})
		}
	case "xcollider":
		s := gen.Shape3Gen(t, gen.AllKinds3, 1, 5, "s3")
		c.S3 = &s
		x := gen.Xform3Gen(t, true, "x")
		c.X = &x
		c.Pts = genPoints3(t, s, 6)
	case "profile":
		s := gen.Shape2Gen(t, gen.AllKinds2, 1, 20, "s2")
		c.S2 = &s
		z0 := gen.F(t, -2, 2, "z0")
		c.Z = [2]float64{z0, z0 + gen.LogF(t, 0.01, 3, "h")}
		for i := 0; i < 16; i++ {
			q := s.Centre().Add(gen.Vec2(t, 1.6*s.Size(), "p"))
			c.Pts = append(c.Pts, kit.V3{q[0], q[1], c.Z[0] + gen.F(t, -1, 2, "zf")*(c.Z[1]-c.Z[0])})
		}
	case "collider":
		s := gen.Shape3Gen(t, gen.AllKinds3, 1, 5, "s3")
		c.S3 = &s
		c.Pts = genPoints3(t, s, 6)
	default:
		s := gen.Shape3Gen(t, gen.AllKinds3, 1, 20, "s3")
		c.S3 = &s
		x := gen.Xform3Gen(t, true, "x")
		c.X = &x
		c.Pts = genPoints3(t, s, 10)
	}
	return c
}

func checkDerived(c derivedCase, o *kit.Obs) error {
	o.Label("kind:" + c.Kind)
	switch c.Kind {
	case "profile":
		s2 := *c.S2
		prim := s2.Build()
		sdf := model3d.ProfileSDF(prim, c.Z[0], c.Z[1])
		psdf := model3d.ProfilePointSDF(prim, c.Z[0], c.Z[1])
		size := s2.Size() + (c.Z[1] - c.Z[0])
		for _, p := range c.Pts {
			r := s2.RefSDF(kit.V2{p[0], p[1]})
			dz := math.Max(c.Z[0]-p[2], p[2]-c.Z[1]) // > 0 outside the slab
			var want float64
			switch {
			case dz <= 0 && r.SDF >= 0:
				want = math.Min(r.SDF, -dz)
			case dz <= 0:
				want = r.SDF
			case r.SDF >= 0:
				want = -dz
			default:
				want = -math.Hypot(dz, r.SDF)
			}
			tol := 1e-9 * (size + p.Sub(kit.V3{s2.Centre()[0], s2.Centre()[1], c.Z[0]}).Norm())
			got := sdf.SDF(m3.C3(p))
			if math.Abs(got-want) > tol {
				return fmt.Errorf("ProfileSDF(%+v, z=%v).SDF(%v) = %.17g, reference %.17g", s2, c.Z, p, got, want)
			}
			o.NonTrivial()
			pt, d2 := psdf.PointSDF(m3.C3(p))
			if math.Abs(d2-want) > tol {
				return fmt.Errorf("ProfilePointSDF.PointSDF(%v) distance %g, reference %g", p, d2, want)
			}
			if d := m3.V3(pt).Dist(p); math.Abs(d-math.Abs(want)) > 10*tol {
				// ties between the cap and the side are legitimate alternatives: both at the same distance, so this still must hold
				return fmt.Errorf("ProfilePointSDF(%+v, z=%v).PointSDF(%v) returned %v at distance %g but |SDF| = %g", s2, c.Z, p, pt, d, math.Abs(want))
			}
			// the returned point lies on the boundary of the extrusion
			rb := s2.RefSDF(kit.V2{pt.X, pt.Y})
			onCap := (math.Abs(pt.Z-c.Z[0]) <= 10*tol || math.Abs(pt.Z-c.Z[1]) <= 10*tol) && rb.SDF >= -10*tol
			onSide := math.Abs(rb.SDF) <= 10*tol && pt.Z >= c.Z[0]-10*tol && pt.Z <= c.Z[1]+10*tol
			if !onCap && !onSide {
				return fmt.Errorf("ProfilePointSDF(%+v, z=%v).PointSDF(%v) returned %v which is not on the boundary", s2, c.Z, p, pt)
			}
		}
	case "tridist":
		a, b, d := c.Pts[0], c.Pts[1], c.Pts[2]
		if a == b && b == d {
			o.Skip("a point")
			return nil
		}
		tri := &model3d.Triangle{m3.C3(a), m3.C3(b), m3.C3(d)}
		flat := b.Sub(a).Cross(d.Sub(a)).Norm() == 0
		if flat {
			o.Label("triangle:zero-area")
		}
		segDist := func(p, u, v kit.V3) float64 {
			e := v.Sub(u)
			if e.Dot(e) == 0 {
				return p.Dist(u)
			}
			tt := math.Max(0, math.Min(1, p.Sub(u).Dot(e)/e.Dot(e)))
			return p.Dist(u.Add(e.Scale(tt)))
		}
		for _, p := range c.Pts[3:] {
			want := math.Min(segDist(p, a, b), math.Min(segDist(p, b, d), segDist(p, d, a)))
			if !flat {
				if dd, _ := kit.PointTriDist(p, kit.Tri{a, b, d}); dd < want {
					want = dd
				}
			}
			got := tri.Dist(m3.C3(p))
			if !(math.Abs(got-want) <= 1e-9*(1+want+a.MaxAbs()+b.MaxAbs()+d.MaxAbs())) {
				return fmt.Errorf("Triangle{%v, %v, %v}.Dist(%v) = %v, the nearest point of the triangle (its edges%s) is %v away", a, b, d, p, got, map[bool]string{true: " only: it has no area", false: " and interior"}[flat], want)
			}
			o.NonTrivial()
		}
	case "collider2", "transform2", "xcollider2":
		s := *c.S2
		k := c.T2[1]
		tr := model2d.JoinedTransform{model2d.Rotation(c.T2[0]), &model2d.Scale{Scale: k}, &model2d.Translate{Offset: model2d.XY(c.T2[2], c.T2[3])}}
		cs, sn := math.Cos(c.T2[0]), math.Sin(c.T2[0])
		image := func(p kit.V3) model2d.Coord {
			return model2d.XY(k*(cs*p[0]-sn*p[1])+c.T2[2], k*(sn*p[0]+cs*p[1])+c.T2[3])
		}
		var sdf model2d.SDF
		rel := 1e-6
		switch c.Kind {
		case "collider2":
			sdf, k = model2d.ColliderToSDF(s.Build(), 0), 1
			image = func(p kit.V3) model2d.Coord { return model2d.XY(p[0], p[1]) }
		case "transform2":
			sdf, rel = model2d.TransformSDF(tr, s.Build()), 1e-9
		default:
			sdf = model2d.ColliderToSDF(model2d.TransformCollider(tr, s.Build()), 0)
		}
		for _, p := range c.Pts {
			ref := s.RefSDF(kit.V2{p[0], p[1]})
			if a := math.Abs(ref.SDF); rel > 1e-8 && (a < 1e-5 || a > 1e5) {
				continue
			}
			q := image(p)
			got := sdf.SDF(q)
			tol := rel*k*math.Abs(ref.SDF) + 1e-9*k*(s.Size()+p.Norm()+q.Norm()/k)
			if math.Abs(got-k*ref.SDF) > tol {
				return fmt.Errorf("2D %s over %s %+v with rotation %g, scale %g, offset (%g, %g): SDF(image of %v) = %.12g, want %g x reference %.12g", c.Kind, s.Kind, s, c.T2[0], c.T2[1], c.T2[2], c.T2[3], p, got, k, ref.SDF)
			}
			o.NonTrivial()
		}
	case "xcollider":
		s, x := *c.S3, *c.X
		tr := x.Build().(model3d.DistTransform)
		sdf := model3d.ColliderToSDF(model3d.TransformCollider(tr, s.Build()), 0)
		f := x.DistFactor()
		for _, p := range c.Pts {
			ref := s.RefSDF(p)
			if a := math.Abs(ref.SDF); a < 1e-5 || a > 1e5 || coneNearAxis(s, p) {
				continue
			}
			q := x.RefApply(p)
			got := sdf.SDF(m3.C3(q))
			if math.Abs(got-f*ref.SDF) > 1e-6*f*math.Abs(ref.SDF)+1e-9*f*(s.Size()+p.Dist(s.Centre())+q.Norm()/f+p.Norm()) {
				return fmt.Errorf("ColliderToSDF(TransformCollider(%+v, %s %+v)).SDF(image of %v) = %.12g, want factor %g x %.12g", x, s.Kind, s, p, got, f, ref.SDF)
			}
			o.NonTrivial()
		}
	case "collider":
		s := *c.S3
		sdf := model3d.ColliderToSDF(s.Build(), 0)
		for _, p := range c.Pts {
			ref := s.RefSDF(p)
			if a := math.Abs(ref.SDF); a < 1e-5 || a > 1e5 {
				continue
			}
			if coneNearAxis(s, p) {
				continue
			}
			got := sdf.SDF(m3.C3(p))
			// bisection on ball collisions: 32 halvings of a bracket [2^k, 2^(k+1)]
			if math.Abs(got-ref.SDF) > 1e-6*math.Abs(ref.SDF)+1e-9 {
				return fmt.Errorf("ColliderToSDF(%s %+v).SDF(%v) = %.12g, reference %.12g", s.Kind, s, p, got, ref.SDF)
			}
			o.NonTrivial()
		}
	default:
		s, x := *c.S3, *c.X
		tr := x.Build().(model3d.DistTransform)
		sdf := model3d.TransformSDF(tr, s.Build())
		f := x.DistFactor()
		for _, p := range c.Pts {
			if coneNearAxis(s, p) {
				continue
			}
			q := x.RefApply(p)
			ref := s.RefSDF(p)
			got := sdf.SDF(m3.C3(q))
			tol := 1e-9 * f * (s.Size() + p.Dist(s.Centre()) + q.Norm()/f + p.Norm())
			if math.Abs(got-f*ref.SDF) > tol {
				return fmt.Errorf("TransformSDF(%+v, %s).SDF(image of %v) = %.17g, want factor %g x %.17g", x, s.Kind, p, got, f, ref.SDF)
			}
			o.NonTrivial()
		}
	}
	return nil
}

func TestProp(t *testing.T) {
	kit.Run(t, "C06", rule,
		kit.Clause[prim3Case]{Name: "C06/prim3/sdf", Quick: 80000, Thorough: 1500000, Gen: genPrim3, Check: checkPrim3},
		kit.Clause[prim2Case]{Name: "C06/prim2/sdf", Quick: 80000, Thorough: 1500000, Gen: genPrim2, Check: checkPrim2},
		kit.Clause[mesh3Case]{Name: "C06/mesh3/sdf", Quick: 2400, Thorough: 40000, Gen: genMesh3, Check: checkMesh3},
		kit.Clause[mesh2Case]{Name: "C06/mesh2/sdf", Quick: 8000, Thorough: 150000, Gen: genMesh2, Check: checkMesh2},
		kit.Clause[derivedCase]{Name: "C06/derived/sdf", Quick: 24000, Thorough: 500000, Gen: genDerived, Check: checkDerived},
	)
}
