package c07

import (
	"fmt"
	"math"
	"sort"
	"strings"
	"testing"

	"github.com/unixpickle/model3d/model2d"
	"github.com/unixpickle/model3d/model3d"
	"pgregory.net/rapid"
	"verifharness/gen"
	"verifharness/kit"
	"verifharness/m3"
)

const rule = "colliders (3D/2D primitives, triangles and segments, mesh colliders, joined, profile, transformed and solid-sampling colliders) x rays with origins inside/outside/far, directions scaled 1e-3..1e3 (axis-parallel and generic) x balls of all radii. General position is measured, not assumed: a ray is skipped (and counted) when the reference distance along it has a near-tangency (two consecutive same-sign samples that could hide a double root), two roots closer than 3 sample steps, or an origin within 1e-3 of the size from the surface. Non-trivial: at least one hit, or an origin inside, or a non-unit direction. Distinct: hash of the JSON case."

// ---------------------------------------------------------------------------
// reference roots of t -> f(o + t d) for a 1-Lipschitz f (a signed distance)

type rootResult struct {
	roots   []float64
	generic bool
}

// refRoots samples f along the ray up to parameter tmax with n steps, finds sign changes and refines them by
// bisection.  dlen = |d| converts parameter steps to distances.  The ray is declared non-generic when
//   - the origin is within 2 steps of the surface,
//   - two roots are closer than 3 steps, or
//   - f has a local extremum of the same sign on both sides whose magnitude is below 2 steps (a near-tangency:
//     a 1-Lipschitz f can only hide a double root between two samples if both are within one step of zero,
//     which shows up as such an extremum of the sampled sequence).
func refRoots(f func(t float64) float64, tmax float64, n int, dlen float64) rootResult {
	h := tmax / float64(n)
	hd := h * dlen // distance moved per step
	res := rootResult{generic: true}
	vals := make([]float64, n+1)
	for i := range vals {
		vals[i] = f(float64(i) * h)
	}
	if math.Abs(vals[0]) < 2*hd {
		res.generic = false
	}
	lastRoot := math.Inf(-1)
	for i := 1; i <= n; i++ {
		prev, cur := vals[i-1], vals[i]
		if (prev > 0) != (cur > 0) {
			lo, hi := float64(i-1)*h, float64(i)*h
			flo := prev
			for k := 0; k < 60; k++ {
				mid := (lo + hi) / 2
				fm := f(mid)
				if (fm > 0) == (flo > 0) {
					lo, flo = mid, fm
				} else {
					hi = mid
				}
			}
			r := (lo + hi) / 2
			if r-lastRoot < 3*h {
				res.generic = false
			}
			lastRoot = r
			res.roots = append(res.roots, r)
			continue
		}
		if i < n {
			next := vals[i+1]
			if (next > 0) == (cur > 0) && math.Abs(cur) <= math.Abs(prev) && math.Abs(cur) <= math.Abs(next) && math.Abs(cur) < 2*hd {
				res.generic = false
			}
		}
	}
	return res
}

// ---------------------------------------------------------------------------
// 3D primitives

type ray3 struct {
	O kit.V3 `json:"o"`
	D kit.V3 `json:"d"`
}

type prim3Case struct {
	Shape gen.Shape3 `json:"shape"`
	Rays  []ray3     `json:"rays"`
	Balls []ray3     `json:"balls"` // O = centre, D[0] = radius factor (multiplied by reference distance or size)
}

func genRays3(t *rapid.T, ctr kit.V3, size float64, n int) []ray3 {
	var rays []ray3
	for i := 0; i < n; i++ {
		o := ctr.Add(gen.Vec3(t, 2*size, "o"))
		var d kit.V3
		if rapid.Bool().Draw(t, "aim") {
			// aim at a point near the shape so that most rays hit
			d = ctr.Add(gen.Vec3(t, 0.8*size, "target")).Sub(o)
			if d.Norm() < 1e-3*size {
				d = kit.V3{1, 0.3, -0.2}
			}
			d = d.Unit()
		} else {
			d = gen.Dir3(t, "d").Unit()
		}
		rays = append(rays, ray3{O: o, D: d.Scale(gen.LogF(t, 1e-3, 1e3, "dscale"))})
	}
	return rays
}

func genPrim3(t *rapid.T) prim3Case {
	s := gen.Shape3Gen(t, gen.AllKinds3, gen.LogF(t, 0.1, 10, "size"), 30, "shape").Scaled(gen.UnitGen(t, "unit"))
	c := prim3Case{Shape: s, Rays: genRays3(t, s.Centre(), s.Size(), 8)}
	for i := 0; i < 6; i++ {
		c.Balls = append(c.Balls, ray3{O: s.Centre().Add(gen.Vec3(t, 2*s.Size(), "bc")), D: kit.V3{gen.LogF(t, 0.01, 100, "rf"), 0, 0}})
	}
	return c
}

type hit3 struct {
	scale  float64
	normal kit.V3
}

// rayContract checks the wrapper-independent part of the contract and returns the hits sorted by scale.
func rayContract(c model3d.Collider, r ray3, what string) ([]hit3, error) {
	ray := &model3d.Ray{Origin: m3.C3(r.O), Direction: m3.C3(r.D)}
	var hits []hit3
	n := c.RayCollisions(ray, func(rc model3d.RayCollision) { hits = append(hits, hit3{rc.Scale, m3.V3(rc.Normal)}) })
	if n != len(hits) {
		return nil, fmt.Errorf("%s: RayCollisions returned %d but invoked the callback %d times (ray %+v)", what, n, len(hits), r)
	}
	if n2 := c.RayCollisions(ray, nil); n2 != n {
		return nil, fmt.Errorf("%s: RayCollisions counts %d collisions with a callback and %d without (ray %+v)", what, n, n2, r)
	}
	for _, h := range hits {
		if !(h.scale >= 0) {
			return nil, fmt.Errorf("%s: collision with negative or NaN ray parameter %g (ray %+v)", what, h.scale, r)
		}
		if l := h.normal.Norm(); math.IsNaN(l) || math.Abs(l-1) > 1e-9 {
			return nil, fmt.Errorf("%s: collision normal %v has length %g, not 1 (ray %+v)", what, h.normal, l, r)
		}
	}
	// queries are pure: a callback may cast another ray at the same collider (a shadow or secondary ray) and the
	// enumeration in progress still reports the collisions of its own ray
	if n > 0 {
		other := &model3d.Ray{Origin: ray.Origin.Add(ray.Direction.Scale(0.31)).Add(model3d.XYZ(0.013, -0.007, 0.011).Scale(ray.Direction.Norm())), Direction: model3d.XYZ(ray.Direction.Z, -ray.Direction.X, ray.Direction.Y).Scale(-1.3)}
		var again []hit3
		n3 := c.RayCollisions(ray, func(rc model3d.RayCollision) {
			again = append(again, hit3{rc.Scale, m3.V3(rc.Normal)})
			c.RayCollisions(other, func(model3d.RayCollision) {})
			c.FirstRayCollision(other)
		})
		same := n3 == n && len(again) == len(hits)
		if same && !strings.HasPrefix(what, "SolidCollider") {
			a, b := append([]hit3(nil), again...), append([]hit3(nil), hits...)
			sort.Slice(a, func(i, j int) bool { return a[i].scale < a[j].scale })
			sort.Slice(b, func(i, j int) bool { return b[i].scale < b[j].scale })
			for i := range a {
				same = same && a[i].scale == b[i].scale
			}
		}
		if !same {
			return nil, fmt.Errorf("%s: %d collisions %v when enumerated alone, %d collisions %v when the callback casts another ray at the same collider (ray %+v)", what, n, hits, n3, again, r)
		}
	}
	sort.Slice(hits, func(i, j int) bool { return hits[i].scale < hits[j].scale })
	first, ok := c.FirstRayCollision(ray)
	if ok != (n > 0) {
		return nil, fmt.Errorf("%s: FirstRayCollision reports collides=%v but RayCollisions counts %d (ray %+v)", what, ok, n, r)
	}
	if ok {
		if math.Abs(first.Scale-hits[0].scale) > 1e-9*(1+math.Abs(hits[0].scale)) {
			return nil, fmt.Errorf("%s: FirstRayCollision has parameter %.17g but the smallest reported collision is %.17g (ray %+v)", what, first.Scale, hits[0].scale, r)
		}
		if l := first.Normal.Norm(); math.Abs(l-1) > 1e-9 {
			return nil, fmt.Errorf("%s: FirstRayCollision normal %v is not unit (ray %+v)", what, first.Normal, r)
		}
		// the first collision is one of the enumerated ones: where it is the only one at its parameter it has that normal
		// (not for the solid-sampling collider: its normals are estimates from random probes, drawn anew per call)
		if !strings.HasPrefix(what, "SolidCollider") && (n == 1 || hits[1].scale-hits[0].scale > 1e-6*(1+hits[0].scale)) {
			if d := m3.V3(first.Normal).Dist(hits[0].normal); d > 1e-6 {
				return nil, fmt.Errorf("%s: FirstRayCollision reports normal %v, RayCollisions reports the same collision (parameter %.17g) with normal %v (ray %+v)", what, first.Normal, hits[0].scale, hits[0].normal, r)
			}
		}
	}
	return hits, nil
}

// coneNearAxis recognises the input class of known finding cone-near-axis (see C06): a cone query whose radial
// offset from the axis is non-zero but below 1e-4 of its distance from the base centre.  Cone.SphereCollision
// is |SDF| <= r, so it inherits the SDF's error there.
func coneNearAxis(s gen.Shape3, p kit.V3) bool {
	if s.Kind != "cone" || !kit.Excluded("cone-near-axis") {
		return false
	}
	rho, span, _ := s.AxisDistance(p)
	if rho > 0 && rho < 1e-4*(span+s.R) {
		kit.CountExcluded("cone-near-axis")
		return true
	}
	return false
}

func checkPrim3(c prim3Case, o *kit.Obs) error {
	s := c.Shape
	prim := s.Build()
	size := s.Size()
	o.Label("kind:" + s.Kind)
	what := fmt.Sprintf("%s %+v", s.Kind, s)
	for _, r := range c.Rays {
		hits, err := rayContract(prim, r, what)
		if err != nil {
			return err
		}
		dl := r.D.Norm()
		reach := r.O.Dist(s.Centre()) + 2*size
		f := func(t float64) float64 { return s.RefSDF(r.O.Add(r.D.Scale(t))).SDF }
		// step = 1e-3 of the size in distance terms
		n := int(reach/(1e-3*size)) + 1
		rr := refRoots(f, reach/dl, n, dl)
		if !rr.generic || math.Abs(f(0)) < 1e-3*size {
			o.Skip("ray-not-generic")
			continue
		}
		if len(hits) > 0 || f(0) > 0 || math.Abs(dl-1) > 1e-6 {
			o.NonTrivial()
		}
		if len(hits) != len(rr.roots) {
			return fmt.Errorf("%s: ray %+v: %d collisions reported at %v, but the reference distance changes sign %d times along the ray at %v", what, r, len(hits), scales(hits), len(rr.roots), rr.roots)
		}
		if (len(hits)%2 == 1) != (f(0) > 0) {
			return fmt.Errorf("%s: ray %+v: %d collisions but origin inside=%v (closed surface: odd iff inside)", what, r, len(hits), f(0) > 0)
		}
		for i, h := range hits {
			p := r.O.Add(r.D.Scale(h.scale))
			ref := s.RefSDF(p)
			tol := 1e-7 * (size + p.Dist(s.Centre()))
			if math.Abs(ref.SDF) > tol {
				return fmt.Errorf("%s: ray %+v: collision at parameter %.17g is %g away from the surface", what, r, h.scale, ref.SDF)
			}
			if math.Abs(h.scale-rr.roots[i])*dl > 10*tol {
				return fmt.Errorf("%s: ray %+v: collision %d at parameter %.17g, reference root %.17g", what, r, i, h.scale, rr.roots[i])
			}
			if ref.Smooth && ref.Margin > 1e-3*size {
				if d := h.normal.Dist(ref.Normal); d > 1e-5 {
					return fmt.Errorf("%s: ray %+v: collision normal %v, reference outward normal %v (difference %g)", what, r, h.normal, ref.Normal, d)
				}
			}
		}
	}
	for _, b := range c.Balls {
		if coneNearAxis(s, b.O) {
			continue
		}
		ref := s.RefSDF(b.O)
		for _, rad := range []float64{math.Abs(ref.SDF) * b.D[0], size * b.D[0] * 0.1} {
			if math.Abs(rad-math.Abs(ref.SDF)) <= 1e-9*(size+b.O.Dist(s.Centre())) {
				continue
			}
			got := prim.SphereCollision(m3.C3(b.O), rad)
			if want := math.Abs(ref.SDF) <= rad; got != want {
				return fmt.Errorf("%s: SphereCollision(%v, %g) = %v but the surface is %g away", what, b.O, rad, got, math.Abs(ref.SDF))
			}
		}
		// ColliderContains with margins of either sign; its fixed internal ray must be generic for the parity
		// to be meaningful
		if math.Abs(ref.SDF) < 1e-6*size {
			continue
		}
		fixed := ray3{O: b.O, D: kit.V3{0.5224892708603626, 0.10494477243214506, 0.43558938446126527}}
		reach := b.O.Dist(s.Centre()) + 2*size
		dl := fixed.D.Norm()
		n := int(reach/(1e-3*size)) + 1
		if rr := refRoots(func(t float64) float64 { return s.RefSDF(fixed.O.Add(fixed.D.Scale(t))).SDF }, reach/dl, n, dl); !rr.generic {
			o.Skip("contains-ray-not-generic")
			continue
		}
		for _, m := range []float64{0, 0.3 * math.Abs(ref.SDF), -0.3 * math.Abs(ref.SDF), 2 * math.Abs(ref.SDF), -2 * math.Abs(ref.SDF)} {
			if math.Abs(math.Abs(m)-math.Abs(ref.SDF)) < 1e-9*size {
				continue
			}
			want := ref.SDF >= m
			if got := model3d.ColliderContains(prim, m3.C3(b.O), m); got != want {
				return fmt.Errorf("%s: ColliderContains(%v, margin %g) = %v but the signed distance is %g", what, b.O, m, got, ref.SDF)
			}
		}
	}
	return nil
}

func scales(h []hit3) []float64 {
	var s []float64
	for _, x := range h {
		s = append(s, x.scale)
	}
	return s
}

// ---------------------------------------------------------------------------
// 2D primitives

type ray2 struct {
	O kit.V2 `json:"o"`
	D kit.V2 `json:"d"`
}

type prim2Case struct {
	Shape gen.Shape2 `json:"shape"`
	Rays  []ray2     `json:"rays"`
	Balls []ray2     `json:"balls"`
}

func genPrim2(t *rapid.T) prim2Case {
	s := gen.Shape2Gen(t, gen.AllKinds2, gen.LogF(t, 0.1, 10, "size"), 30, "shape").Scaled(gen.UnitGen(t, "unit"))
	c := prim2Case{Shape: s}
	for i := 0; i < 8; i++ {
		o := s.Centre().Add(gen.Vec2(t, 2*s.Size(), "o"))
		var d kit.V2
		if rapid.Bool().Draw(t, "aim") {
			d = s.Centre().Add(gen.Vec2(t, 0.8*s.Size(), "target")).Sub(o)
			if d.Norm() < 1e-3*s.Size() {
				d = kit.V2{1, 0.3}
			}
			d = d.Unit()
		} else {
			d = gen.Dir2(t, "d")
		}
		c.Rays = append(c.Rays, ray2{O: o, D: d.Scale(gen.LogF(t, 1e-3, 1e3, "dscale"))})
	}
	for i := 0; i < 6; i++ {
		c.Balls = append(c.Balls, ray2{O: s.Centre().Add(gen.Vec2(t, 2*s.Size(), "bc")), D: kit.V2{gen.LogF(t, 0.01, 100, "rf"), 0}})
	}
	return c
}

func checkPrim2(c prim2Case, o *kit.Obs) error {
	s := c.Shape
	prim := s.Build()
	size := s.Size()
	o.Label("kind:" + s.Kind)
	what := fmt.Sprintf("2D %s %+v", s.Kind, s)
	for _, r := range c.Rays {
		ray := &model2d.Ray{Origin: m3.C2(r.O), Direction: m3.C2(r.D)}
		type hit struct {
			scale  float64
			normal kit.V2
		}
		var hits []hit
		n := prim.RayCollisions(ray, func(rc model2d.RayCollision) { hits = append(hits, hit{rc.Scale, m3.V2(rc.Normal)}) })
		if n != len(hits) {
			return fmt.Errorf("%s: RayCollisions returned %d but invoked the callback %d times (ray %+v)", what, n, len(hits), r)
		}
		if n2 := prim.RayCollisions(ray, nil); n2 != n {
			return fmt.Errorf("%s: RayCollisions counts %d with a callback and %d without (ray %+v)", what, n, n2, r)
		}
		sort.Slice(hits, func(i, j int) bool { return hits[i].scale < hits[j].scale })
		first, ok := prim.FirstRayCollision(ray)
		if ok != (n > 0) {
			return fmt.Errorf("%s: FirstRayCollision collides=%v but %d collisions counted (ray %+v)", what, ok, n, r)
		}
		if ok && math.Abs(first.Scale-hits[0].scale) > 1e-9*(1+hits[0].scale) {
			return fmt.Errorf("%s: FirstRayCollision parameter %.17g, smallest reported %.17g (ray %+v)", what, first.Scale, hits[0].scale, r)
		}
		dl := r.D.Norm()
		reach := r.O.Dist(s.Centre()) + 2*size
		f := func(t float64) float64 { return s.RefSDF(r.O.Add(r.D.Scale(t))).SDF }
		ns := int(reach/(1e-3*size)) + 1
		rr := refRoots(f, reach/dl, ns, dl)
		if !rr.generic || math.Abs(f(0)) < 1e-3*size {
			o.Skip("ray-not-generic")
			continue
		}
		if len(hits) > 0 || f(0) > 0 || math.Abs(dl-1) > 1e-6 {
			o.NonTrivial()
		}
		if len(hits) != len(rr.roots) {
			return fmt.Errorf("%s: ray %+v: %d collisions reported but the reference distance changes sign %d times at %v", what, r, len(hits), len(rr.roots), rr.roots)
		}
		for i, h := range hits {
			if !(h.scale >= 0) {
				return fmt.Errorf("%s: negative ray parameter %g (ray %+v)", what, h.scale, r)
			}
			if l := h.normal.Norm(); math.Abs(l-1) > 1e-9 {
				return fmt.Errorf("%s: collision normal %v is not unit (ray %+v)", what, h.normal, r)
			}
			p := r.O.Add(r.D.Scale(h.scale))
			ref := s.RefSDF(p)
			tol := 1e-7 * (size + p.Dist(s.Centre()))
			if math.Abs(ref.SDF) > tol || math.Abs(h.scale-rr.roots[i])*dl > 10*tol {
				return fmt.Errorf("%s: ray %+v: collision %d at parameter %.17g (reference root %.17g) is %g from the surface", what, r, i, h.scale, rr.roots[i], ref.SDF)
			}
			if ref.Smooth && ref.Margin > 1e-3*size {
				if d := h.normal.Dist(ref.Normal); d > 1e-5 {
					return fmt.Errorf("%s: ray %+v: collision normal %v, reference outward normal %v", what, r, h.normal, ref.Normal)
				}
			}
		}
	}
	for _, b := range c.Balls {
		ref := s.RefSDF(b.O)
		for _, rad := range []float64{math.Abs(ref.SDF) * b.D[0], size * b.D[0] * 0.1} {
			if math.Abs(rad-math.Abs(ref.SDF)) <= 1e-9*(size+b.O.Dist(s.Centre())) {
				continue
			}
			got := prim.CircleCollision(m3.C2(b.O), rad)
			if want := math.Abs(ref.SDF) <= rad; got != want {
				return fmt.Errorf("%s: CircleCollision(%v, %g) = %v but the boundary is %g away", what, b.O, rad, got, math.Abs(ref.SDF))
			}
		}
	}
	return nil
}

// ---------------------------------------------------------------------------
// single triangles / segments: the per-face primitives every mesh collider is built from

type triCase struct {
	T    kit.Tri `json:"t"`
	Rays []ray3  `json:"rays"`
	Segs []ray3  `json:"segs"` // segment from O to O+D
	Ball []ray3  `json:"ball"`
}

func genTri(t *rapid.T) triCase {
	var c triCase
	for {
		c.T = kit.Tri{gen.Vec3(t, 1, "a"), gen.Vec3(t, 1, "b"), gen.Vec3(t, 1, "c")}
		if c.T.Area() > 0.02 {
			break
		}
		c.T = kit.Tri{{0, 0, 0}, {1, 0, 0.1}, {0.2, 1, -0.3}}
		break
	}
	for i := 0; i < 8; i++ {
		o := gen.Vec3(t, 2, "o")
		// aim at a barycentric point that may lie inside or outside the triangle
		u, v := gen.F(t, -0.4, 1.4, "u"), gen.F(t, -0.4, 1.4, "v")
		target := c.T[0].Add(c.T[1].Sub(c.T[0]).Scale(u)).Add(c.T[2].Sub(c.T[0]).Scale(v))
		d := target.Sub(o)
		if d.Norm() < 1e-3 {
			d = kit.V3{0.3, 0.4, 0.5}
		}
		k := gen.LogF(t, 0.3, 3, "k")
		c.Rays = append(c.Rays, ray3{O: o, D: d.Unit().Scale(dirScale(t))})
		c.Segs = append(c.Segs, ray3{O: o, D: d.Scale(k)})
		c.Ball = append(c.Ball, ray3{O: o, D: kit.V3{gen.LogF(t, 0.05, 20, "rf"), 0, 0}})
	}
	return c
}

// rayTri is an independent ray/triangle intersection with a measure of how close the configuration is to
// degenerate (ray nearly parallel, hit near an edge).
func rayTri(o, d kit.V3, t kit.Tri) (hit bool, scale float64, clearance float64) {
	n := t.Normal()
	den := n.Dot(d)
	nn, dn := n.Norm(), d.Norm()
	if math.Abs(den) < 1e-6*nn*dn {
		return false, 0, 0 // nearly parallel: undecided
	}
	s := n.Dot(t[0].Sub(o)) / den
	p := o.Add(d.Scale(s))
	// barycentric coordinates via sub-areas
	area2 := nn
	var b [3]float64
	for i := 0; i < 3; i++ {
		b[i] = t[(i+1)%3].Sub(p).Cross(t[(i+2)%3].Sub(p)).Dot(n) / (area2 * area2)
	}
	clearance = math.Min(b[0], math.Min(b[1], b[2]))
	inside := clearance > 0
	c := math.Abs(clearance)
	return inside, s, c
}

func checkTri(c triCase, o *kit.Obs) error {
	tri := &model3d.Triangle{m3.C3(c.T[0]), m3.C3(c.T[1]), m3.C3(c.T[2])}
	what := fmt.Sprintf("triangle %v", c.T)
	nrm := c.T.Normal().Unit()
	for _, r := range c.Rays {
		hits, err := rayContract(tri, r, what)
		if err != nil {
			return err
		}
		hit, s, clear := rayTri(r.O, r.D, c.T)
		if clear < 1e-6 || math.Abs(s)*r.D.Norm() < 1e-6 {
			o.Skip("ray-near-edge-or-parallel")
			continue
		}
		want := 0
		if hit && s > 0 {
			want = 1
		}
		o.NonTrivial()
		if len(hits) != want {
			return fmt.Errorf("%s: ray %+v: %d collisions reported, reference intersection says %d (parameter %g, barycentric clearance %g)", what, r, len(hits), want, s, clear)
		}
		if want == 1 {
			if math.Abs(hits[0].scale-s) > 1e-9*(1+math.Abs(s)) {
				return fmt.Errorf("%s: ray %+v: collision parameter %.17g, reference %.17g", what, r, hits[0].scale, s)
			}
			// a single triangle has no inside: the normal is the face normal up to sign
			if d := math.Min(hits[0].normal.Dist(nrm), hits[0].normal.Dist(nrm.Scale(-1))); d > 1e-9 {
				return fmt.Errorf("%s: ray %+v: collision normal %v is not the face normal +-%v", what, r, hits[0].normal, nrm)
			}
		}
	}
	for _, sg := range c.Segs {
		hit, s, clear := rayTri(sg.O, sg.D, c.T)
		if clear < 1e-6 || math.Abs(s) < 1e-6 || math.Abs(s-1) < 1e-6 {
			o.Skip("segment-near-edge")
			continue
		}
		want := hit && s > 0 && s < 1
		seg := model3d.NewSegment(m3.C3(sg.O), m3.C3(sg.O.Add(sg.D)))
		if got := tri.SegmentCollision(seg); got != want {
			return fmt.Errorf("%s: SegmentCollision(%v -> %v) = %v, reference %v (parameter %g, clearance %g)", what, sg.O, sg.O.Add(sg.D), got, want, s, clear)
		}
	}
	for _, b := range c.Ball {
		d, _ := kit.PointTriDist(b.O, c.T)
		rad := d * b.D[0]
		if math.Abs(rad-d) < 1e-9*(1+d) {
			continue
		}
		if got := tri.SphereCollision(m3.C3(b.O), rad); got != (d <= rad) {
			return fmt.Errorf("%s: SphereCollision(%v, %g) = %v but the triangle is %g away", what, b.O, rad, got, d)
		}
	}
	return nil
}

type segCase struct {
	S    kit.Seg `json:"s"`
	Rays []ray2  `json:"rays"`
	Ball []ray2  `json:"ball"`
}

func genSeg(t *rapid.T) segCase {
	c := segCase{S: kit.Seg{gen.Vec2(t, 1, "a"), gen.Vec2(t, 1, "b")}}
	if c.S[0].Dist(c.S[1]) < 0.05 {
		c.S = kit.Seg{{0, 0}, {1, 0.3}}
	}
	for i := 0; i < 8; i++ {
		o := gen.Vec2(t, 2, "o")
		u := gen.F(t, -0.4, 1.4, "u")
		d := c.S[0].Add(c.S[1].Sub(c.S[0]).Scale(u)).Sub(o)
		if d.Norm() < 1e-3 {
			d = kit.V2{0.3, 0.4}
		}
		c.Rays = append(c.Rays, ray2{O: o, D: d.Unit().Scale(dirScale(t))})
		c.Ball = append(c.Ball, ray2{O: o, D: kit.V2{gen.LogF(t, 0.05, 20, "rf"), 0}})
	}
	return c
}

func checkSeg(c segCase, o *kit.Obs) error {
	seg := &model2d.Segment{m3.C2(c.S[0]), m3.C2(c.S[1])}
	what := fmt.Sprintf("segment %v", c.S)
	e := c.S[1].Sub(c.S[0])
	for _, r := range c.Rays {
		ray := &model2d.Ray{Origin: m3.C2(r.O), Direction: m3.C2(r.D)}
		var scalesGot []float64
		var normals []kit.V2
		n := seg.RayCollisions(ray, func(rc model2d.RayCollision) {
			scalesGot = append(scalesGot, rc.Scale)
			normals = append(normals, m3.V2(rc.Normal))
		})
		if n != len(scalesGot) || seg.RayCollisions(ray, nil) != n {
			return fmt.Errorf("%s: inconsistent collision counts for ray %+v", what, r)
		}
		_, ok := seg.FirstRayCollision(ray)
		if ok != (n > 0) {
			return fmt.Errorf("%s: FirstRayCollision collides=%v but count %d (ray %+v)", what, ok, n, r)
		}
		den := r.D.Cross(e)
		if math.Abs(den) < 1e-6*r.D.Norm()*e.Norm() {
			o.Skip("parallel")
			continue
		}
		s := c.S[0].Sub(r.O).Cross(e) / den   // ray parameter
		u := c.S[0].Sub(r.O).Cross(r.D) / den // position along the segment
		if math.Min(math.Abs(u), math.Abs(u-1)) < 1e-6 || math.Abs(s)*r.D.Norm() < 1e-6 {
			o.Skip("near-endpoint")
			continue
		}
		want := 0
		if u > 0 && u < 1 && s > 0 {
			want = 1
		}
		o.NonTrivial()
		if n != want {
			return fmt.Errorf("%s: ray %+v: %d collisions, reference %d (parameter %g, position %g)", what, r, n, want, s, u)
		}
		if want == 1 {
			if math.Abs(scalesGot[0]-s) > 1e-9*(1+math.Abs(s)) {
				return fmt.Errorf("%s: ray %+v: parameter %.17g, reference %.17g", what, r, scalesGot[0], s)
			}
			nn := kit.V2{-e[1], e[0]}.Unit()
			if d := math.Min(normals[0].Dist(nn), normals[0].Dist(nn.Scale(-1))); d > 1e-9 {
				return fmt.Errorf("%s: ray %+v: normal %v is not +-%v", what, r, normals[0], nn)
			}
		}
	}
	for _, b := range c.Ball {
		d, _ := kit.PointSegDist2(b.O, c.S[0], c.S[1])
		rad := d * b.D[0]
		if math.Abs(rad-d) < 1e-9*(1+d) {
			continue
		}
		if got := seg.CircleCollision(m3.C2(b.O), rad); got != (d <= rad) {
			return fmt.Errorf("%s: CircleCollision(%v, %g) = %v but the segment is %g away", what, b.O, rad, got, d)
		}
	}
	return nil
}

// ---------------------------------------------------------------------------
// mesh colliders and wrappers over a closed mesh

type meshCase struct {
	Build  string       `json:"build"` // mesh bvh grouped interp joined profile solid
	Tree   *gen.Node    `json:"tree,omitempty"`
	Shapes []gen.Shape3 `json:"shapes,omitempty"`
	S2     *gen.Shape2  `json:"s2,omitempty"`
	Z      [2]float64   `json:"z"`
	Delta  float64      `json:"delta"`
	Rays   []ray3       `json:"rays"`
	Balls  []ray3       `json:"balls"`
	// Shapes of the segment / box / triangle queries against mesh colliders: each entry gives three points
	// relative to the mesh (unit = mesh size); segment = first two, box = bounding box of the first two,
	// triangle = all three.  Axis-aligned variants (flat query boxes) are derived by copying coordinates.
	Qs []query3 `json:"qs,omitempty"`
}

type query3 struct {
	Kind string    `json:"kind"` // segment rect tri
	P    [3]kit.V3 `json:"p"`
	Flat int       `json:"flat"` // 0: generic; 1..3: all points share this coordinate (axis-aligned planar query)
}

func genMeshCase(t *rapid.T) meshCase {
	c := meshCase{Build: rapid.SampledFrom([]string{"mesh", "bvh", "bvhwide", "grouped", "interp", "joined", "profile", "solid"}).Draw(t, "build")}
	ctr, size := kit.V3{}, 1.6
	switch c.Build {
	case "joined":
		n := rapid.IntRange(1, 4).Draw(t, "n")
		for i := 0; i < n; i++ {
			c.Shapes = append(c.Shapes, gen.Shape3Gen(t, gen.AllKinds3, 0.7, 5, "shape"))
		}
	case "profile":
		s := gen.Shape2Gen(t, gen.AllKinds2, 0.8, 5, "s2")
		c.S2 = &s
		c.Z = [2]float64{gen.F(t, -1, 0, "z0"), gen.F(t, 0.2, 1.5, "z1")}
		ctr = kit.V3{s.Centre()[0], s.Centre()[1], (c.Z[0] + c.Z[1]) / 2}
	case "solid":
		s := gen.Shape3Gen(t, []string{"sphere", "rect", "capsule"}, 0.8, 2, "shape")
		c.Shapes = []gen.Shape3{s}
		ctr, size = s.Centre(), s.Size()
	default:
		c.Tree = gen.NodeGen(t, 2, 3, false, "tree")
		c.Delta = gen.LogF(t, 0.15, 0.4, "delta")
	}
	c.Rays = genRays3(t, ctr, size, 8)
	for i := 0; i < 5; i++ {
		c.Balls = append(c.Balls, ray3{O: ctr.Add(gen.Vec3(t, 1.5*size, "bc")), D: kit.V3{gen.LogF(t, 0.05, 20, "rf"), 0, 0}})
	}
	if c.Tree != nil {
		for i := 0; i < 6; i++ {
			q := query3{Kind: rapid.SampledFrom([]string{"segment", "rect", "tri", "tri"}).Draw(t, "qkind")}
			reach := gen.LogF(t, 0.05, 1.2, "qreach")
			q.P[0] = gen.Vec3(t, 0.7, "q0")
			q.P[1] = q.P[0].Add(gen.Vec3(t, reach, "q1"))
			q.P[2] = q.P[0].Add(gen.Vec3(t, reach, "q2"))
			if q.Kind == "tri" && rapid.IntRange(0, 2).Draw(t, "qflat") == 0 {
				q.Flat = rapid.IntRange(1, 3).Draw(t, "qaxis")
			}
			c.Qs = append(c.Qs, q)
		}
	}
	return c
}

// pierce: does the segment a-b cross the interior of triangle t?  clear: how far the decision is from changing, as
// a length (distance of the nearer end point from the face's plane when both ends are on one side; otherwise the
// smaller of the end points' distances from the plane and the crossing point's distance from the face's edges).
func pierce(a, b kit.V3, t kit.Tri) (hit bool, clear float64) {
	n := t.Normal()
	nn := n.Norm()
	if nn == 0 {
		return false, 0
	}
	n = n.Scale(1 / nn)
	da, db := n.Dot(a.Sub(t[0])), n.Dot(b.Sub(t[0]))
	if (da > 0) == (db > 0) {
		return false, math.Min(math.Abs(da), math.Abs(db))
	}
	p := a.Lerp(b, da/(da-db))
	// distance of p (in the plane) from the three edge lines, positive inside
	in := math.Inf(1)
	for i := 0; i < 3; i++ {
		e := t[(i+1)%3].Sub(t[i])
		in = math.Min(in, n.Cross(e).Unit().Dot(p.Sub(t[i])))
	}
	clear = math.Min(math.Abs(in), math.Min(math.Abs(da), math.Abs(db)))
	return in > 0, clear
}

// meshQueryRef decides whether the query shape meets the surface (some face), in general position: two triangles
// (or a face and a box face) intersect iff an edge of one pierces the other; a segment meets a face iff it pierces it.
func meshQueryRef(q query3, pts [3]kit.V3, tris []kit.Tri, size float64) (touch bool, generic bool) {
	tol := 1e-7 * size
	generic = true
	seg := func(a, b kit.V3) {
		for _, t := range tris {
			h, cl := pierce(a, b, t)
			if cl < tol {
				generic = false
			}
			if h {
				touch = true
			}
		}
	}
	face := func(f kit.Tri) {
		for _, t := range tris {
			for k := 0; k < 3; k++ {
				h, cl := pierce(t[k], t[(k+1)%3], f)
				if cl < tol {
					generic = false
				}
				if h {
					touch = true
				}
			}
		}
	}
	switch q.Kind {
	case "segment":
		seg(pts[0], pts[1])
	case "tri":
		f := kit.Tri{pts[0], pts[1], pts[2]}
		for k := 0; k < 3; k++ {
			seg(f[k], f[(k+1)%3])
		}
		face(f)
	case "rect":
		var lo, hi kit.V3
		for a := 0; a < 3; a++ {
			lo[a], hi[a] = math.Min(pts[0][a], pts[1][a]), math.Max(pts[0][a], pts[1][a])
		}
		c := func(i int) kit.V3 {
			p := lo
			for a := 0; a < 3; a++ {
				if i>>uint(a)&1 == 1 {
					p[a] = hi[a]
				}
			}
			return p
		}
		// twelve box edges against the faces, the faces' edges against the six box faces (two triangles each);
		// a face entirely inside the box: one of its vertices is inside
		for i := 0; i < 8; i++ {
			for a := 0; a < 3; a++ {
				if i>>uint(a)&1 == 0 {
					seg(c(i), c(i|1<<uint(a)))
				}
			}
		}
		quads := [][4]int{{0, 1, 3, 2}, {4, 5, 7, 6}, {0, 1, 5, 4}, {2, 3, 7, 6}, {0, 2, 6, 4}, {1, 3, 7, 5}}
		for _, qd := range quads {
			face(kit.Tri{c(qd[0]), c(qd[1]), c(qd[2])})
			face(kit.Tri{c(qd[0]), c(qd[2]), c(qd[3])})
		}
		for _, t := range tris {
			for _, v := range t {
				in, near := true, false
				for a := 0; a < 3; a++ {
					if v[a] < lo[a] || v[a] > hi[a] {
						in = false
					}
					if math.Abs(v[a]-lo[a]) < tol || math.Abs(v[a]-hi[a]) < tol {
						near = true
					}
				}
				if near {
					generic = false
				}
				if in {
					touch = true
				}
			}
		}
	}
	return
}

func checkMeshCase(c meshCase, o *kit.Obs) error {
	o.Label("build:" + c.Build)
	switch c.Build {
	case "joined":
		var cs []model3d.Collider
		for _, s := range c.Shapes {
			cs = append(cs, s.Build())
		}
		j := model3d.NewJoinedCollider(cs)
		for _, r := range c.Rays {
			hits, err := rayContract(j, r, "JoinedCollider of primitives")
			if err != nil {
				return err
			}
			// the join reports exactly the union of its parts' collisions
			var want []float64
			for _, p := range cs {
				p.RayCollisions(&model3d.Ray{Origin: m3.C3(r.O), Direction: m3.C3(r.D)}, func(rc model3d.RayCollision) { want = append(want, rc.Scale) })
			}
			sort.Float64s(want)
			if len(want) != len(hits) {
				return fmt.Errorf("JoinedCollider %+v: ray %+v: %d collisions but its parts report %d", c.Shapes, r, len(hits), len(want))
			}
			for i := range want {
				if hits[i].scale != want[i] {
					return fmt.Errorf("JoinedCollider: ray %+v: collision %d at %.17g, parts say %.17g", r, i, hits[i].scale, want[i])
				}
			}
			if len(hits) > 0 {
				o.NonTrivial()
			}
		}
		for _, b := range c.Balls {
			best := math.Inf(1)
			skip := false
			for _, s := range c.Shapes {
				best = math.Min(best, math.Abs(s.RefSDF(b.O).SDF))
				skip = skip || coneNearAxis(s, b.O)
			}
			if skip {
				continue
			}
			rad := best * b.D[0]
			if math.Abs(rad-best) < 1e-9*(1+best) {
				continue
			}
			if got := j.SphereCollision(m3.C3(b.O), rad); got != (best <= rad) {
				return fmt.Errorf("JoinedCollider %+v: SphereCollision(%v, %g) = %v but the nearest part is %g away", c.Shapes, b.O, rad, got, best)
			}
		}
		// an assembly is a part of larger ones, more than once: each larger join reports the assembly's collisions
		// plus those of its own further part, whatever was built from the same assembly afterwards
		count := func(col model3d.Collider, r ray3) int {
			return col.RayCollisions(&model3d.Ray{Origin: m3.C3(r.O), Direction: m3.C3(r.D)}, nil)
		}
		for _, inner := range []model3d.Collider{j, model3d.NewJoinedCollider(append(append([]model3d.Collider{}, cs...), cs[0]))} {
			first, last := cs[0], cs[len(cs)-1]
			p1 := model3d.NewJoinedCollider([]model3d.Collider{inner, first})
			p2 := model3d.NewJoinedCollider([]model3d.Collider{inner, last})
			p3 := model3d.NewJoinedCollider([]model3d.Collider{inner, first, last})
			for _, r := range c.Rays {
				ni, nf, nl := count(inner, r), count(first, r), count(last, r)
				if g1, g2, g3 := count(p1, r), count(p2, r), count(p3, r); g1 != ni+nf || g2 != ni+nl || g3 != ni+nf+nl {
					return fmt.Errorf("JoinedCollider %+v: ray %+v: an assembly with %d collisions joined with part 0 (%d collisions), with the last part (%d) and with both gives %d, %d and %d collisions", c.Shapes, r, ni, nf, nl, g1, g2, g3)
				}
			}
		}
		return nil
	case "profile":
		s2 := *c.S2
		pc := model3d.ProfileCollider(s2.Build(), c.Z[0], c.Z[1])
		size := s2.Size() + c.Z[1] - c.Z[0]
		ref := func(p kit.V3) float64 { // signed distance of the extrusion (positive inside)
			r := s2.RefSDF(kit.V2{p[0], p[1]}).SDF
			dz := math.Max(c.Z[0]-p[2], p[2]-c.Z[1])
			switch {
			case dz <= 0 && r >= 0:
				return math.Min(r, -dz)
			case dz <= 0:
				return r
			case r >= 0:
				return -dz
			}
			return -math.Hypot(dz, r)
		}
		ctr := kit.V3{s2.Centre()[0], s2.Centre()[1], (c.Z[0] + c.Z[1]) / 2}
		for _, r := range c.Rays {
			hits, err := rayContract(pc, r, fmt.Sprintf("ProfileCollider(%+v, %v)", s2, c.Z))
			if err != nil {
				return err
			}
			dl := r.D.Norm()
			reach := r.O.Dist(ctr) + 2*size
			f := func(t float64) float64 { return ref(r.O.Add(r.D.Scale(t))) }
			n := int(reach/(1e-3*size)) + 1
			rr := refRoots(f, reach/dl, n, dl)
			if !rr.generic || math.Abs(f(0)) < 1e-3*size {
				o.Skip("ray-not-generic")
				continue
			}
			o.NonTrivial()
			if len(hits) != len(rr.roots) {
				return fmt.Errorf("ProfileCollider(%+v, z=%v): ray %+v: %d collisions at %v, reference sign changes at %v", s2, c.Z, r, len(hits), scales(hits), rr.roots)
			}
			for i, h := range hits {
				if math.Abs(h.scale-rr.roots[i])*dl > 1e-6*(size+reach) {
					return fmt.Errorf("ProfileCollider(%+v, z=%v): ray %+v: collision %d at %.17g, reference %.17g", s2, c.Z, r, i, h.scale, rr.roots[i])
				}
			}
		}
		for _, b := range c.Balls {
			d := math.Abs(ref(b.O))
			rad := d * b.D[0]
			if math.Abs(rad-d) < 1e-9*(1+d) {
				continue
			}
			if got := pc.SphereCollision(m3.C3(b.O), rad); got != (d <= rad) {
				return fmt.Errorf("ProfileCollider(%+v, z=%v): SphereCollision(%v, %g) = %v but the surface is %g away", s2, c.Z, b.O, rad, got, d)
			}
		}
		return nil
	case "solid":
		s := c.Shapes[0]
		eps := 0.02 * s.Size()
		sc := &model3d.SolidCollider{Solid: s.Build(), Epsilon: eps}
		// the documented options, left at zero or set, in the combinations the first ray's bits select
		opt := 0
		if len(c.Rays) > 0 {
			opt = int(math.Float64bits(c.Rays[0].O[0]) % 8)
		}
		if opt&1 != 0 {
			sc.NormalBisectEpsilon = eps / 10
		}
		if opt&2 != 0 {
			sc.NormalSamples = 24
		}
		if opt&4 != 0 {
			sc.BisectCount = 40
		}
		o.Labelf("solid-collider-options:%d", opt)
		// the probes are random, single estimates scatter (some tens of degrees now and then): the MEDIAN of the
		// case's estimates is judged, and only with six or more of them
		var angles []float64
		defer func() {
			if len(angles) >= 6 {
				sort.Float64s(angles)
				o.Labelf("solid-collider-normal-median:%s", map[bool]string{true: "<=3deg", false: ">3deg"}[angles[len(angles)/2] <= 3])
			}
		}()
		for _, r := range c.Rays {
			hits, err := rayContract(sc, r, "SolidCollider("+s.Kind+")")
			if err != nil {
				return err
			}
			// with the bisection method the normal is accurate where the surface is smooth around the hit
			// (measured on the unchanged tree: below 3 degrees; 15 are allowed)
			if sc.NormalBisectEpsilon != 0 {
				for _, h := range hits {
					p := r.O.Add(r.D.Scale(h.scale))
					ref := s.RefSDF(p)
					smooth := ref.Smooth
					for _, dv := range []kit.V3{{1, 0, 0}, {0, 1, 0}, {0, 0, 1}, {-1, 0, 0}, {0, -1, 0}, {0, 0, -1}} {
						if rr := s.RefSDF(p.Add(dv.Scale(3 * eps))); !rr.Smooth || rr.Normal.Dot(ref.Normal) < 0.9 {
							smooth = false
						}
					}
					if smooth {
						angles = append(angles, math.Acos(math.Max(-1, math.Min(1, h.normal.Dot(ref.Normal))))*180/math.Pi)
					}
				}
			}
			// approximate collider: every reported collision lies within Epsilon of the surface
			for _, h := range hits {
				p := r.O.Add(r.D.Scale(h.scale))
				if d := math.Abs(s.RefSDF(p).SDF); d > eps*r.D.Norm()+eps {
					return fmt.Errorf("SolidCollider(%s %+v, eps %g): ray %+v: collision at parameter %g is %g away from the surface", s.Kind, s, eps, r, h.scale, d)
				}
				o.NonTrivial()
			}
		}
		if len(angles) >= 6 {
			sorted := append([]float64(nil), angles...)
			sort.Float64s(sorted)
			if med := sorted[len(sorted)/2]; med > 15 {
				return fmt.Errorf("SolidCollider(%s %+v, eps %g, NormalBisectEpsilon %g, NormalSamples %d): the median of %d normal estimates on smooth parts of the surface is %.1f degrees away from the outward normal (angles %.1f)", s.Kind, s, eps, sc.NormalBisectEpsilon, sc.NormalSamples, len(sorted), med, sorted)
			}
		}
		return nil
	}
	mesh := model3d.MarchingCubesSearch(c.Tree.Build(), c.Delta, 3)
	tris := m3.Tris(mesh)
	if len(tris) == 0 || len(tris) > 1500 {
		o.Skip("mesh empty or too large")
		return nil
	}
	if _, err := kit.ClosedOrientedManifold(append([]kit.Tri(nil), tris...)); err != nil {
		o.Skip("mesh not a closed manifold")
		return nil
	}
	var coll model3d.Collider
	switch c.Build {
	case "mesh":
		coll = model3d.MeshToCollider(mesh)
	case "bvh":
		ts := mesh.TriangleSlice()
		coll = model3d.BVHToCollider(model3d.NewBVHAreaDensity(ts))
	case "bvhwide":
		// "a branch with two or more children": every other level of the binary hierarchy is dissolved into its parent
		coll = model3d.BVHToCollider(widenBVH(model3d.NewBVHAreaDensity(mesh.TriangleSlice()), 0))
	case "grouped":
		ts := mesh.TriangleSlice()
		model3d.GroupTriangles(ts)
		coll = model3d.GroupedTrianglesToCollider(ts)
	case "interp":
		coll = model3d.MeshToInterpNormalCollider(mesh)
	}
	size := m3.V3(mesh.Max()).Dist(m3.V3(mesh.Min()))
	for _, r := range c.Rays {
		hits, err := rayContract(coll, r, c.Build+" collider")
		if err != nil {
			return err
		}
		// reference: brute force over faces with the independent ray/triangle test
		var want []float64
		generic := true
		for _, t := range tris {
			hit, s, clear := rayTri(r.O, r.D, t)
			if clear < 1e-6 || (hit && math.Abs(s)*r.D.Norm() < 1e-6*size) {
				// near an edge of this face or nearly parallel to its plane, and close enough to matter
				if clear < 1e-6 && math.IsInf(s, 0) == false {
					generic = false
				}
				continue
			}
			if hit && s > 0 {
				want = append(want, s)
			}
		}
		if !generic {
			o.Skip("ray-near-mesh-edge")
			continue
		}
		sort.Float64s(want)
		if len(want) != len(hits) {
			return fmt.Errorf("%s collider over %d faces: ray %+v: %d collisions reported, brute force over the faces finds %d", c.Build, len(tris), r, len(hits), len(want))
		}
		inside := math.Round(kit.Winding3(tris, r.O)) == 1
		if d, _ := kit.MeshDist(tris, r.O); d > 1e-6*size && (len(hits)%2 == 1) != inside {
			return fmt.Errorf("%s collider: ray %+v: %d collisions but origin inside=%v", c.Build, r, len(hits), inside)
		}
		for i, h := range hits {
			if math.Abs(h.scale-want[i]) > 1e-9*(1+want[i]) {
				return fmt.Errorf("%s collider: ray %+v: collision %d at %.17g, brute force %.17g", c.Build, r, i, h.scale, want[i])
			}
			o.NonTrivial()
			if c.Build != "interp" {
				// flat shading: the normal is the outward normal of a face through the hit point
				p := r.O.Add(r.D.Scale(h.scale))
				okN := false
				for _, t := range tris {
					if d, _ := kit.PointTriDist(p, t); d < 1e-7*size && h.normal.Dist(t.Normal().Unit()) < 1e-9 {
						okN = true
						break
					}
				}
				if !okN {
					return fmt.Errorf("%s collider: ray %+v: collision normal %v is not the outward normal of a face through the hit point", c.Build, r, h.normal)
				}
			}
		}
	}
	for _, b := range c.Balls {
		d, _ := kit.MeshDist(tris, b.O)
		rad := d * b.D[0]
		if math.Abs(rad-d) < 1e-9*(1+d) {
			continue
		}
		if got := coll.SphereCollision(m3.C3(b.O), rad); got != (d <= rad) {
			return fmt.Errorf("%s collider: SphereCollision(%v, %g) = %v but the surface is %g away", c.Build, b.O, rad, got, d)
		}
	}
	// segment, box and triangle queries: 'touching' exactly when the query shape meets some face
	mid := m3.V3(mesh.Min()).Mid(m3.V3(mesh.Max()))
	for _, q := range c.Qs {
		var pts [3]kit.V3
		for i := range pts {
			pts[i] = mid.Add(q.P[i].Scale(size))
			if q.Flat > 0 {
				pts[i][q.Flat-1] = mid[q.Flat-1] + q.P[0][q.Flat-1]*size
			}
		}
		if q.Kind == "tri" && (kit.Tri{pts[0], pts[1], pts[2]}).Area() < 1e-4*size*size {
			continue
		}
		want, generic := meshQueryRef(q, pts, tris, size)
		if !generic {
			o.Skip("query-not-in-general-position")
			continue
		}
		o.Label("query:" + q.Kind)
		if q.Flat > 0 {
			o.Label("query:axis-aligned-planar-triangle")
		}
		if want {
			o.NonTrivial()
		}
		switch q.Kind {
		case "segment":
			sc, ok := coll.(model3d.SegmentCollider)
			if !ok {
				continue
			}
			if got := sc.SegmentCollision(model3d.NewSegment(m3.C3(pts[0]), m3.C3(pts[1]))); got != want {
				return fmt.Errorf("%s collider over %d faces: SegmentCollision(%v - %v) = %v, but brute force over the faces says %v", c.Build, len(tris), pts[0], pts[1], got, want)
			}
		case "rect":
			rc, ok := coll.(model3d.RectCollider)
			if !ok {
				continue
			}
			r := model3d.NewRect(m3.C3(pts[0]).Min(m3.C3(pts[1])), m3.C3(pts[0]).Max(m3.C3(pts[1])))
			if got := rc.RectCollision(r); got != want {
				return fmt.Errorf("%s collider over %d faces: RectCollision(%v, %v) = %v, but brute force over the faces says %v", c.Build, len(tris), r.MinVal, r.MaxVal, got, want)
			}
		case "tri":
			tc, ok := coll.(model3d.TriangleCollider)
			if !ok {
				continue
			}
			segs := tc.TriangleCollisions(&model3d.Triangle{m3.C3(pts[0]), m3.C3(pts[1]), m3.C3(pts[2])})
			if (len(segs) > 0) != want {
				return fmt.Errorf("%s collider over %d faces: TriangleCollisions(%v) reports %d intersection segments, but brute force over the faces says touching = %v", c.Build, len(tris), pts, len(segs), want)
			}
		}
	}
	return nil
}

// ---------------------------------------------------------------------------
// transformed colliders (wrapper contract; conjugacy is C05)

type xformCase struct {
	Shape gen.Shape3 `json:"shape"`
	X     gen.Xform3 `json:"x"`
	Rays  []ray3     `json:"rays"`
	Balls []ray3     `json:"balls,omitempty"` // O = centre in the transformed space, D[0] = radius factor
}

func genXform(t *rapid.T) xformCase {
	s := gen.Shape3Gen(t, gen.AllKinds3, 1, 5, "shape")
	x := gen.Xform3Gen(t, true, "x")
	img := x.RefApply(s.Centre())
	c := xformCase{Shape: s, X: x, Rays: genRays3(t, img, s.Size()*x.DistFactor(), 8)}
	for i := 0; i < 5; i++ {
		c.Balls = append(c.Balls, ray3{O: img.Add(gen.Vec3(t, 2*s.Size()*x.DistFactor(), "bc")), D: kit.V3{gen.LogF(t, 0.01, 100, "rf"), 0, 0}})
	}
	return c
}

func checkXform(c xformCase, o *kit.Obs) error {
	tc := model3d.TransformCollider(c.X.Build().(model3d.DistTransform), c.Shape.Build())
	what := fmt.Sprintf("TransformCollider(%+v, %s)", c.X, c.Shape.Kind)
	if c.X.Kind == "joined" && len(c.X.Parts) >= 2 {
		// the same map as a wrapper of a wrapper: one TransformCollider per part, the first part innermost
		tc = c.Shape.Build()
		for _, part := range c.X.Parts {
			tc = model3d.TransformCollider(part.Build().(model3d.DistTransform), tc)
		}
		what = "nested " + what
		o.Label("nested-wrappers")
	}
	f := c.X.DistFactor()
	for _, r := range c.Rays {
		hits, err := rayContract(tc, r, what)
		if err != nil {
			return err
		}
		for _, h := range hits {
			p := r.O.Add(r.D.Scale(h.scale))
			q := c.X.RefInverse(p)
			tol := 1e-7 * (c.Shape.Size() + q.Dist(c.Shape.Centre()) + p.Norm()/f)
			if d := math.Abs(c.Shape.RefSDF(q).SDF); d > tol {
				return fmt.Errorf("%s: ray %+v: the collision at parameter %.17g maps back to %v, which is %g away from the original surface", what, r, h.scale, q, d)
			}
			o.NonTrivial()
		}
	}
	// ball queries: a ball of radius r around p touches the image of the surface exactly when the ball of
	// radius r/f around the pre-image of p touches the original (f = the transform's distance factor)
	for _, b := range c.Balls {
		q := c.X.RefInverse(b.O)
		if coneNearAxis(c.Shape, q) {
			continue
		}
		ref := c.Shape.RefSDF(q)
		dist := math.Abs(ref.SDF) * f // distance from b.O to the transformed surface
		scale := f * (c.Shape.Size() + q.Dist(c.Shape.Centre()))
		for _, rad := range []float64{dist * b.D[0], f * c.Shape.Size() * b.D[0] * 0.1} {
			if math.Abs(rad-dist) <= 1e-9*scale {
				continue
			}
			if f != 1 {
				o.Label("ball-query-under-scale")
			}
			if got, want := tc.SphereCollision(m3.C3(b.O), rad), dist <= rad; got != want {
				return fmt.Errorf("%s: SphereCollision(%v, %g) = %v but the transformed surface is %g away (distance factor %g)", what, b.O, rad, got, dist, f)
			}
		}
	}
	return nil
}

func TestProp(t *testing.T) {
	kit.Run(t, "C07", rule,
		kit.Clause[prim3Case]{Name: "C07/prim3/rays-balls", Quick: 2500, Thorough: 50000, Gen: genPrim3, Check: checkPrim3},
		kit.Clause[prim2Case]{Name: "C07/prim2/rays-circles", Quick: 4000, Thorough: 100000, Gen: genPrim2, Check: checkPrim2},
		kit.Clause[triCase]{Name: "C07/triangle/ray-segment-ball", Quick: 20000, Thorough: 500000, Gen: genTri, Check: checkTri},
		kit.Clause[segCase]{Name: "C07/segment2d/ray-circle", Quick: 20000, Thorough: 500000, Gen: genSeg, Check: checkSeg},
		kit.Clause[meshCase]{Name: "C07/mesh-and-wrappers", Quick: 1500, Thorough: 40000, Gen: genMeshCase, Check: checkMeshCase},
		kit.Clause[xformCase]{Name: "C07/transformed/contract", Quick: 5000, Thorough: 120000, Gen: genXform, Check: checkXform},
	)
}

// dirScale: the length of a ray direction.  Mostly moderate, sometimes extreme: a collision test must not depend
// on the length of the direction (the parameter scales inversely), so guards against parallel rays have to be
// relative to it.
func dirScale(t *rapid.T) float64 {
	if rapid.IntRange(0, 3).Draw(t, "ds.extreme") == 0 {
		return gen.LogF(t, 1e-12, 1e12, "ds.wide")
	}
	return gen.LogF(t, 1e-3, 1e3, "ds")
}

func widenBVH(b *model3d.BVH[*model3d.Triangle], level int) *model3d.BVH[*model3d.Triangle] {
	if b.Leaf != nil {
		return b
	}
	var kids []*model3d.BVH[*model3d.Triangle]
	for _, k := range b.Branch {
		if k.Leaf == nil && level%2 == 0 {
			for _, g := range k.Branch {
				kids = append(kids, widenBVH(g, level+1))
			}
		} else {
			kids = append(kids, widenBVH(k, level+1))
		}
	}
	return &model3d.BVH[*model3d.Triangle]{Branch: kids}
}
