package c08

import (
	"fmt"
	"math"

	"github.com/unixpickle/model3d/model2d"
	"pgregory.net/rapid"
	"verifharness/kit"
)

// 2D mirror of coll3_test.go: segments instead of triangles, circles instead of balls.

type query2 struct {
	Kind string     `json:"kind"` // ray | circle | segment | rect
	A    [2]float64 `json:"a"`
	B    [2]float64 `json:"b"`
	R    float64    `json:"r"`
}

type coll2Case struct {
	Segs    [][4]float64 `json:"segs"`
	Ptr     []int        `json:"ptr"`
	Build   string       `json:"build"`
	Shape   []int        `json:"shape,omitempty"`
	Queries []query2     `json:"queries"`
}

func seg2(v [4]float64) *model2d.Segment {
	return &model2d.Segment{model2d.XY(v[0], v[1]), model2d.XY(v[2], v[3])}
}
func xy(v [2]float64) model2d.Coord  { return model2d.XY(v[0], v[1]) }
func arr2(c model2d.Coord) []float64 { return []float64{c.X, c.Y} }

func segBox(v [4]float64) (mn, mx []float64) {
	return []float64{math.Min(v[0], v[2]), math.Min(v[1], v[3])}, []float64{math.Max(v[0], v[2]), math.Max(v[1], v[3])}
}

func degenerate2(v [4]float64, grid bool) bool {
	l := math.Hypot(v[2]-v[0], v[3]-v[1])
	if grid {
		return l == 0
	}
	return l < 0.05
}

func fixSeg2(v [4]float64, grid bool) [4]float64 {
	if !degenerate2(v, grid) {
		return v
	}
	return [4]float64{v[0], v[1], v[0] + 1, v[1]}
}

func genSeg2(t *rapid.T, p *pool, prev [][4]float64, label string) [4]float64 {
	var s [4]float64
	mode := rapid.IntRange(0, 9).Draw(t, label+".mode")
	fresh := func() { copy(s[:], p.vec(t, 4, label)) }
	pick := func() [4]float64 { return prev[rapid.IntRange(0, len(prev)-1).Draw(t, label+".src")] }
	switch {
	case mode == 0 && len(prev) > 0: // value duplicate, possibly reversed
		s = pick()
		if rapid.Bool().Draw(t, label+".rev") {
			s = [4]float64{s[2], s[3], s[0], s[1]}
		}
	case mode == 1 && len(prev) > 0: // the other diagonal of the same bounding box
		src := pick()
		s = [4]float64{src[0], src[3], src[2], src[1]}
	case mode == 2 || mode == 3: // axis-aligned: flat bounding box
		fresh()
		ax := rapid.IntRange(0, 1).Draw(t, label+".axis")
		s[2+ax] = s[ax]
	case (mode == 4 || mode == 5) && len(prev) > 0: // chained: starts where an earlier segment ends (polygon-like)
		src := pick()
		fresh()
		s[0], s[1] = src[2], src[3]
	case mode == 6: // large
		fresh()
		for i := range s {
			if rapid.IntRange(0, 2).Draw(t, fmt.Sprintf("%s.ext%d", label, i)) > 0 {
				s[i] = []float64{-4, 4}[rapid.IntRange(0, 1).Draw(t, fmt.Sprintf("%s.sgn%d", label, i))]
			}
		}
	default:
		fresh()
	}
	return fixSeg2(s, p.grid)
}

func genSegs2(t *rapid.T, p *pool, minN, maxN int) [][4]float64 {
	n := drawN(t, minN, maxN, "nsegs")
	var out [][4]float64
	for i := 0; i < n; i++ {
		out = append(out, genSeg2(t, p, out, fmt.Sprintf("seg%d", i)))
	}
	return out
}

func target2(t *rapid.T, segs [][4]float64, label string) [2]float64 {
	s := segs[rapid.IntRange(0, len(segs)-1).Draw(t, label+".tseg")]
	switch rapid.IntRange(0, 3).Draw(t, label+".tkind") {
	case 0:
		return [2]float64{s[0], s[1]}
	case 1:
		return [2]float64{s[2], s[3]}
	case 2:
		return [2]float64{(s[0] + s[2]) / 2, (s[1] + s[3]) / 2}
	default:
		return [2]float64{(3*s[0] + s[2]) / 4, (3*s[1] + s[3]) / 4}
	}
}

func point2(t *rapid.T, p *pool, segs [][4]float64, label string) [2]float64 {
	var o [2]float64
	copy(o[:], p.vec(t, 2, label))
	if len(segs) == 0 {
		return o
	}
	switch rapid.IntRange(0, 4).Draw(t, label+".mode") {
	case 0:
		s := segs[rapid.IntRange(0, len(segs)-1).Draw(t, label+".seg")]
		mn, mx := segBox(s)
		ax := rapid.IntRange(0, 1).Draw(t, label+".axis")
		if rapid.Bool().Draw(t, label+".max") {
			o[ax] = mx[ax]
		} else {
			o[ax] = mn[ax]
		}
	case 1:
		o = target2(t, segs, label)
	}
	return o
}

func genQuery2(t *rapid.T, p *pool, segs [][4]float64, kinds []string, label string) query2 {
	q := query2{Kind: rapid.SampledFrom(kinds).Draw(t, label+".kind")}
	switch q.Kind {
	case "ray", "segment":
		q.A = point2(t, p, segs, label+".o")
		if len(segs) > 0 && rapid.IntRange(0, 2).Draw(t, label+".aim") == 0 {
			tg := target2(t, segs, label+".tg")
			s := []float64{1, 1, 0.5, 2, -1}[rapid.IntRange(0, 4).Draw(t, label+".ascale")]
			q.B = [2]float64{(tg[0] - q.A[0]) * s, (tg[1] - q.A[1]) * s}
			if q.B == [2]float64{} {
				q.B = [2]float64{1, 0}
			}
		} else {
			copy(q.B[:], p.dir(t, 2, label+".d"))
		}
		if q.Kind == "segment" {
			q.B = [2]float64{q.A[0] + q.B[0], q.A[1] + q.B[1]}
		}
	case "circle":
		q.A = point2(t, p, segs, label+".c")
		mode := rapid.IntRange(0, 5).Draw(t, label+".rmode")
		switch {
		case mode == 0 && len(segs) > 0:
			tg := target2(t, segs, label+".rt")
			q.R = kit.V2(q.A).Dist(kit.V2(tg))
		case mode == 1 && len(segs) > 0:
			s := segs[rapid.IntRange(0, len(segs)-1).Draw(t, label+".rseg")]
			q.R, _ = kit.PointSegDist2(kit.V2(q.A), kit.V2{s[0], s[1]}, kit.V2{s[2], s[3]})
		case mode == 2 && len(segs) > 0:
			s := segs[rapid.IntRange(0, len(segs)-1).Draw(t, label+".rbox")]
			mn, mx := segBox(s)
			q.R = math.Sqrt(boxDist2(q.A[:], mn, mx))
		case mode == 3:
			q.R = float64(rapid.IntRange(0, 24).Draw(t, label+".rq")) * gridQ
		default:
			if p.grid {
				q.R = float64(rapid.IntRange(0, 48).Draw(t, label+".rq")) * gridQ / 2
			} else {
				q.R = math.Exp(rapid.Float64Range(math.Log(0.01), math.Log(8)).Draw(t, label+".r"))
			}
		}
	case "rect":
		a, b := point2(t, p, segs, label+".p"), point2(t, p, segs, label+".q")
		for k := 0; k < 2; k++ {
			q.A[k], q.B[k] = math.Min(a[k], b[k]), math.Max(a[k], b[k])
			if rapid.IntRange(0, 5).Draw(t, fmt.Sprintf("%s.flat%d", label, k)) == 0 {
				q.B[k] = q.A[k]
			}
		}
	}
	return q
}

var builds2 = []string{"mesh", "grouped", "ungrouped", "bvh", "handbvh", "joined"}

func genColl2(t *rapid.T) coll2Case {
	p := &pool{grid: rapid.IntRange(0, 2).Draw(t, "grid") > 0}
	var c coll2Case
	c.Segs = genSegs2(t, p, 0, 28)
	c.Ptr = genPtr(t, len(c.Segs))
	c.Build = rapid.SampledFrom(builds2).Draw(t, "build")
	if c.Build == "handbvh" || c.Build == "joined" {
		c.Shape = rapid.SliceOfN(rapid.IntRange(0, 11), 0, 12).Draw(t, "shape")
	}
	nq := rapid.IntRange(1, 10).Draw(t, "nq")
	kinds := []string{"ray", "ray", "ray", "circle", "circle", "segment", "rect"}
	for i := 0; i < nq; i++ {
		c.Queries = append(c.Queries, genQuery2(t, p, c.Segs, kinds, fmt.Sprintf("q%d", i)))
	}
	return c
}

// counting wrapper

type cnt2 struct {
	s   *model2d.Segment
	n   *int
	own int
}

func (c *cnt2) Min() model2d.Coord { return c.s.Min() }
func (c *cnt2) Max() model2d.Coord { return c.s.Max() }
func (c *cnt2) RayCollisions(r *model2d.Ray, f func(model2d.RayCollision)) int {
	*c.n++
	c.own++
	return c.s.RayCollisions(r, f)
}
func (c *cnt2) FirstRayCollision(r *model2d.Ray) (model2d.RayCollision, bool) {
	*c.n++
	c.own++
	return c.s.FirstRayCollision(r)
}
func (c *cnt2) CircleCollision(p model2d.Coord, r float64) bool {
	*c.n++
	c.own++
	return c.s.CircleCollision(p, r)
}

type index2 struct {
	coll    model2d.Collider
	multi   model2d.MultiCollider
	counter *int
	objs    []int
	leaves  []*cnt2
	tree    *hnode
}

func bvhFromShape2[B model2d.Bounder](objs []B, nd *hnode) *model2d.BVH[B] {
	if nd.leaf >= 0 {
		return &model2d.BVH[B]{Leaf: objs[nd.leaf]}
	}
	b := &model2d.BVH[B]{}
	for _, k := range nd.kids {
		b.Branch = append(b.Branch, bvhFromShape2(objs, k))
	}
	return b
}

func joinedFromShape2(objs []model2d.Collider, nd *hnode) model2d.Collider {
	if nd.leaf >= 0 {
		return objs[nd.leaf]
	}
	var kids []model2d.Collider
	for _, k := range nd.kids {
		kids = append(kids, joinedFromShape2(objs, k))
	}
	return model2d.NewJoinedCollider(kids)
}

func buildIndex2(c coll2Case, segs []*model2d.Segment) (*index2, error) {
	ix := &index2{}
	for _, i := range c.Ptr {
		if i < 0 || i >= len(segs) {
			return nil, fmt.Errorf("%w: object index %d out of range", kit.ErrInfra, i)
		}
		ix.objs = append(ix.objs, i)
	}
	list := func() []*model2d.Segment {
		out := make([]*model2d.Segment, len(ix.objs))
		for k, i := range ix.objs {
			out[k] = segs[i]
		}
		return out
	}
	build := c.Build
	if len(ix.objs) == 0 && (build == "bvh" || build == "handbvh") {
		build = "ungrouped"
	}
	switch build {
	case "mesh":
		seen := map[int]bool{}
		var uniq []int
		m := model2d.NewMesh()
		for _, i := range ix.objs {
			if !seen[i] {
				seen[i] = true
				uniq = append(uniq, i)
			}
			m.Add(segs[i])
		}
		ix.objs = uniq
		ix.multi = model2d.MeshToCollider(m)
	case "grouped":
		l := list()
		model2d.GroupSegments(l)
		ix.multi = model2d.GroupedSegmentsToCollider(l)
	case "ungrouped":
		ix.multi = model2d.GroupedSegmentsToCollider(list())
	case "bvh":
		ix.multi = model2d.BVHToCollider(model2d.NewBVHAreaDensity(list()))
	case "handbvh":
		pos := 0
		ix.multi = model2d.BVHToCollider(bvhFromShape2(list(), shapeTree(0, len(ix.objs), c.Shape, &pos)))
	case "joined":
		// model2d.NewJoinedCollider documents "zero or more other colliders"
		ix.counter = new(int)
		ws := make([]model2d.Collider, len(ix.objs))
		for k, i := range ix.objs {
			w := &cnt2{s: segs[i], n: ix.counter}
			ws[k] = w
			ix.leaves = append(ix.leaves, w)
		}
		if len(ws) == 0 {
			ix.coll = model2d.NewJoinedCollider(nil)
		} else {
			pos := 0
			ix.tree = shapeTree(0, len(ws), c.Shape, &pos)
			ix.coll = joinedFromShape2(ws, ix.tree)
		}
	default:
		return nil, fmt.Errorf("%w: unknown build %q", kit.ErrInfra, c.Build)
	}
	if ix.multi != nil {
		ix.coll = ix.multi
	}
	return ix, nil
}

func checkColl2(c coll2Case, o *kit.Obs) error {
	segs := make([]*model2d.Segment, len(c.Segs))
	ptrIdx := map[*model2d.Segment]int{}
	boxMin, boxMax := make([][]float64, len(c.Segs)), make([][]float64, len(c.Segs))
	gridObjs := true
	for i, v := range c.Segs {
		if !finite(v[:]...) {
			return fmt.Errorf("%w: non-finite coordinate", kit.ErrInfra)
		}
		if degenerate2(v, true) {
			return fmt.Errorf("%w: zero-length segment in the case", kit.ErrInfra)
		}
		segs[i] = seg2(v)
		ptrIdx[segs[i]] = i
		boxMin[i], boxMax[i] = segBox(v)
		gridObjs = gridObjs && allOnGrid(v[:])
	}
	ix, err := buildIndex2(c, segs)
	if err != nil {
		return err
	}
	n := len(ix.objs)
	o.Label("build:" + c.Build)
	o.Label(nclass(n))
	if gridObjs {
		o.Label("objects:grid")
	} else {
		o.Label("objects:generic")
	}
	coincident, flat := false, false
	for a := 0; a < n; a++ {
		i := ix.objs[a]
		for k := 0; k < 2; k++ {
			if boxMin[i][k] == boxMax[i][k] {
				flat = true
			}
		}
		for b := a + 1; b < n; b++ {
			j := ix.objs[b]
			if bits(boxMin[i]...) == bits(boxMin[j]...) && bits(boxMax[i]...) == bits(boxMax[j]...) {
				coincident = true
			}
		}
	}
	if coincident {
		o.Label("objects:coincident-bounds")
	}
	if flat {
		o.Label("objects:flat-box")
	}
	if n > 0 {
		mn, mx := append([]float64(nil), boxMin[ix.objs[0]]...), append([]float64(nil), boxMax[ix.objs[0]]...)
		for _, i := range ix.objs {
			for k := 0; k < 2; k++ {
				mn[k], mx[k] = math.Min(mn[k], boxMin[i][k]), math.Max(mx[k], boxMax[i][k])
			}
		}
		if bits(arr2(ix.coll.Min())...) != bits(mn...) || bits(arr2(ix.coll.Max())...) != bits(mx...) {
			return fmt.Errorf("bounds of the index %v..%v differ from the union of the objects' bounds %v..%v", ix.coll.Min(), ix.coll.Max(), mn, mx)
		}
	}

	for qi, q := range c.Queries {
		if !finite(q.A[:]...) || !finite(q.B[:]...) || !finite(q.R) {
			return fmt.Errorf("%w: non-finite query", kit.ErrInfra)
		}
		strict := gridObjs && allOnGrid(q.A[:], q.B[:])
		if ix.counter != nil {
			*ix.counter = 0
		}
		var hits, borderline, prunable int
		var err error
		droppedBorderline = 0
		switch q.Kind {
		case "ray":
			hits, borderline, prunable, err = rayQuery2(ix, segs, ptrIdx, boxMin, boxMax, q, strict)
		case "circle":
			hits, borderline, prunable, err = circleQuery2(ix, segs, boxMin, boxMax, q, strict)
		case "segment", "rect":
			if ix.multi == nil {
				o.Label(q.Kind + ":not-offered-by-variant")
				continue
			}
			hits, borderline, prunable, err = multiQuery2(ix, segs, boxMin, boxMax, q, strict)
		default:
			return fmt.Errorf("%w: unknown query kind %q", kit.ErrInfra, q.Kind)
		}
		if err == nil && ix.tree != nil && (q.Kind == "ray" || q.Kind == "circle") {
			for _, w := range ix.leaves {
				w.own = 0
			}
			box := func(pos int) ([]float64, []float64) { return boxMin[ix.objs[pos]], boxMax[ix.objs[pos]] }
			var misses func(mn, mx []float64) bool
			if q.Kind == "ray" {
				ix.coll.RayCollisions(&model2d.Ray{Origin: xy(q.A), Direction: xy(q.B)}, nil)
				misses = func(mn, mx []float64) bool { return !slabMay(q.A[:], q.B[:], mn, mx, math.Inf(1), strict) }
			} else {
				ix.coll.CircleCollision(xy(q.A), q.R)
				misses = func(mn, mx []float64) bool { return !ballMay(q.A[:], q.R, mn, mx, strict) }
			}
			counts := make([]int, len(ix.leaves))
			for k, w := range ix.leaves {
				counts[k] = w.own
			}
			if e := ix.tree.passedOn(counts, box, misses, false); e != nil {
				err = fmt.Errorf("JoinedCollider passes along queries that do not enter its bounding box: %w", e)
			}
		}
		if err != nil {
			return fmt.Errorf("query %d (%s, build %s, %d objects, strict=%v): %w", qi, q.Kind, c.Build, n, strict, err)
		}
		reg := "generic"
		if strict {
			reg = "strict"
		}
		o.Label(q.Kind + ":" + reg)
		if hits > 0 {
			o.Label(q.Kind + ":hit")
			o.NonTrivial()
		} else {
			o.Label(q.Kind + ":miss")
		}
		if hits > 1 {
			o.Label(q.Kind + ":multi-hit")
		}
		if borderline > 0 {
			o.Label(q.Kind + ":borderline-leaf:" + reg)
		}
		if droppedBorderline > 0 {
			o.Label(q.Kind + ":borderline-hit-skipped-by-index")
		}
		if q.Kind == "ray" || q.Kind == "segment" {
			zero, face := false, false
			for k := 0; k < 2; k++ {
				dk := q.B[k]
				if q.Kind == "segment" {
					dk = q.B[k] - q.A[k]
				}
				if dk == 0 {
					zero = true
				}
				for _, i := range ix.objs {
					if q.A[k] == boxMin[i][k] || q.A[k] == boxMax[i][k] {
						face = true
					}
				}
			}
			if zero {
				o.Label(q.Kind + ":zero-direction-component")
			}
			if face {
				o.Label(q.Kind + ":origin-on-box-face-plane")
			}
		}
		if q.Kind == "sphere" || q.Kind == "circle" {
			for _, i := range ix.objs {
				if boxDist2(q.A[:], boxMin[i], boxMax[i]) == q.R*q.R {
					o.Label(q.Kind + ":radius-equals-box-distance")
					break
				}
			}
		}
		if ix.counter != nil {
			per := n
			if q.Kind == "ray" {
				per = 3 * n
			}
			if *ix.counter < per && n > 0 {
				o.Label(q.Kind + ":pruned(measured)")
				o.NonTrivial()
			}
		} else if prunable > 0 && n >= 2 {
			o.Label(q.Kind + ":prunable")
			o.NonTrivial()
		}
	}
	return nil
}

type hit2 struct {
	scale float64
	obj   int
	must  bool
}

func rayQuery2(ix *index2, segs []*model2d.Segment, ptrIdx map[*model2d.Segment]int, boxMin, boxMax [][]float64, q query2, strict bool) (nhits, borderline, prunable int, err error) {
	ray := &model2d.Ray{Origin: xy(q.A), Direction: xy(q.B)}
	var scan []hit2
	must, all := bag{}, bag{}
	for _, i := range ix.objs {
		pass := slabMust(q.A[:], q.B[:], boxMin[i], boxMax[i], math.Inf(1), strict)
		if !pass {
			prunable++
		}
		segs[i].RayCollisions(ray, func(rc model2d.RayCollision) {
			scan = append(scan, hit2{scale: rc.Scale, obj: i, must: pass})
			key := fmt.Sprintf("hit(segment #%d, scale %v)", i, rc.Scale)
			all.add(key)
			if pass {
				must.add(key)
			} else {
				borderline++
			}
		})
	}
	nhits = len(scan)
	got := bag{}
	var cbErr error
	calls := 0
	count := ix.coll.RayCollisions(ray, func(rc model2d.RayCollision) {
		calls++
		sp, ok := rc.Extra.(*model2d.Segment)
		if !ok || sp == nil {
			cbErr = fmt.Errorf("collision without *Segment extra: %#v", rc.Extra)
			return
		}
		i, ok := ptrIdx[sp]
		if !ok {
			cbErr = fmt.Errorf("collision reports a segment %v that is not one of the objects", *sp)
			return
		}
		if nrm := segs[i].Normal(); bits(arr2(rc.Normal)...) != bits(arr2(nrm)...) {
			cbErr = fmt.Errorf("collision normal %v is not the normal %v of the reported segment #%d", rc.Normal, nrm, i)
		}
		got.add(fmt.Sprintf("hit(segment #%d, scale %v)", i, rc.Scale))
	})
	if cbErr != nil {
		return 0, 0, 0, cbErr
	}
	if count != calls {
		return 0, 0, 0, fmt.Errorf("RayCollisions returned %d but called back %d times", count, calls)
	}
	if e := between(must, got, all); e != nil {
		return 0, 0, 0, fmt.Errorf("RayCollisions(origin %v, direction %v): %w", q.A, q.B, e)
	}
	if cn := ix.coll.RayCollisions(ray, nil); cn != count {
		return 0, 0, 0, fmt.Errorf("RayCollisions with a nil callback counts %d, with a callback %d", cn, count)
	}
	minAll, minMust := math.Inf(1), math.Inf(1)
	for _, h := range scan {
		minAll = math.Min(minAll, h.scale)
		if h.must {
			minMust = math.Min(minMust, h.scale)
		}
	}
	rc, found := ix.coll.FirstRayCollision(ray)
	if !found {
		if !math.IsInf(minMust, 1) {
			return 0, 0, 0, fmt.Errorf("FirstRayCollision(origin %v, direction %v) finds nothing; the scan hits at scale %v", q.A, q.B, minMust)
		}
	} else {
		if rc.Scale < minAll || rc.Scale > minMust {
			return 0, 0, 0, fmt.Errorf("FirstRayCollision(origin %v, direction %v) has scale %v; the scan's first hit is at %v (%d hits)", q.A, q.B, rc.Scale, minMust, len(scan))
		}
		sp, ok := rc.Extra.(*model2d.Segment)
		if !ok || sp == nil {
			return 0, 0, 0, fmt.Errorf("first collision without *Segment extra")
		}
		i, ok := ptrIdx[sp]
		okHit := false
		for _, h := range scan {
			if ok && h.obj == i && h.scale == rc.Scale {
				okHit = true
			}
		}
		if !okHit {
			return 0, 0, 0, fmt.Errorf("FirstRayCollision reports scale %v on a segment (#%d, known=%v) that the scan does not hit at that scale", rc.Scale, i, ok)
		}
		if nrm := segs[i].Normal(); bits(arr2(rc.Normal)...) != bits(arr2(nrm)...) {
			return 0, 0, 0, fmt.Errorf("first collision normal %v is not the normal %v of segment #%d", rc.Normal, nrm, i)
		}
	}
	return
}

func circleQuery2(ix *index2, segs []*model2d.Segment, boxMin, boxMax [][]float64, q query2, strict bool) (nhits, borderline, prunable int, err error) {
	c := xy(q.A)
	anyMust, anyAll := false, false
	for _, i := range ix.objs {
		pass := ballMust(q.A[:], q.R, boxMin[i], boxMax[i], strict)
		if !pass {
			prunable++
		}
		if segs[i].CircleCollision(c, q.R) {
			nhits++
			anyAll = true
			if pass {
				anyMust = true
			} else {
				borderline++
			}
		}
	}
	got := ix.coll.CircleCollision(c, q.R)
	if got && !anyAll {
		return 0, 0, 0, fmt.Errorf("CircleCollision(%v, %v) is true but no segment touches the disc", q.A, q.R)
	}
	if anyAll && !got {
		droppedBorderline++
	}
	if !got && anyMust {
		return 0, 0, 0, fmt.Errorf("CircleCollision(%v, %v) is false but %d segment(s) touch the disc", q.A, q.R, nhits)
	}
	return
}

func multiQuery2(ix *index2, segs []*model2d.Segment, boxMin, boxMax [][]float64, q query2, strict bool) (nhits, borderline, prunable int, err error) {
	switch q.Kind {
	case "segment":
		seg := &model2d.Segment{xy(q.A), xy(q.B)}
		d := arr2(seg[1].Sub(seg[0]))
		strictSeg := strict && allOnGrid(d)
		anyMust, anyAll := false, false
		for _, i := range ix.objs {
			pass := slabMust(q.A[:], d, boxMin[i], boxMax[i], 1, strictSeg)
			if !pass {
				prunable++
			}
			if segs[i].SegmentCollision(seg) {
				nhits++
				anyAll = true
				if pass {
					anyMust = true
				} else {
					borderline++
				}
			}
		}
		got := ix.multi.SegmentCollision(seg)
		if got && !anyAll {
			return 0, 0, 0, fmt.Errorf("SegmentCollision(%v - %v) is true but no segment of the set meets it", q.A, q.B)
		}
		if anyAll && !got {
			droppedBorderline++
		}
		if !got && anyMust {
			return 0, 0, 0, fmt.Errorf("SegmentCollision(%v - %v) is false but %d segment(s) meet it", q.A, q.B, nhits)
		}
	case "rect":
		rect := &model2d.Rect{MinVal: xy(q.A), MaxVal: xy(q.B)}
		anyMust, anyAll := false, false
		for _, i := range ix.objs {
			pass := boxesOverlap(q.A[:], q.B[:], boxMin[i], boxMax[i])
			if !pass {
				prunable++
			}
			if segs[i].RectCollision(rect) {
				nhits++
				anyAll = true
				if pass {
					anyMust = true
				} else {
					borderline++
				}
			}
		}
		got := ix.multi.RectCollision(rect)
		if got && !anyAll {
			return 0, 0, 0, fmt.Errorf("RectCollision(%v .. %v) is true but no segment meets the box", q.A, q.B)
		}
		if anyAll && !got {
			droppedBorderline++
		}
		if !got && anyMust {
			return 0, 0, 0, fmt.Errorf("RectCollision(%v .. %v) is false but %d segment(s) meet the box", q.A, q.B, nhits)
		}
	}
	return
}
