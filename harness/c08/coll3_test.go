package c08

import (
	"fmt"
	"math"

	"github.com/unixpickle/model3d/model3d"
	"pgregory.net/rapid"
	"verifharness/kit"
)

// ---------------------------------------------------------------------------
// case description

type query3 struct {
	Kind string     `json:"kind"` // ray | sphere | segment | rect | tri
	A    [3]float64 `json:"a"`    // ray origin, sphere centre, segment start, rect min, tri vertex
	B    [3]float64 `json:"b"`    // ray direction, segment end, rect max, tri vertex
	C    [3]float64 `json:"c"`    // tri vertex
	R    float64    `json:"r"`    // sphere radius
}

type coll3Case struct {
	Tris    [][9]float64 `json:"tris"`
	Ptr     []int        `json:"ptr"` // the object list given to the builder: indices into Tris (a repeated index is the same pointer twice)
	Build   string       `json:"build"`
	Shape   []int        `json:"shape,omitempty"`
	Queries []query3     `json:"queries"`
}

func tri3(v [9]float64) *model3d.Triangle {
	return &model3d.Triangle{model3d.XYZ(v[0], v[1], v[2]), model3d.XYZ(v[3], v[4], v[5]), model3d.XYZ(v[6], v[7], v[8])}
}

func xyz(v [3]float64) model3d.Coord3D { return model3d.XYZ(v[0], v[1], v[2]) }
func arr3(c model3d.Coord3D) []float64 { return []float64{c.X, c.Y, c.Z} }

func triBox(v [9]float64) (mn, mx []float64) {
	mn, mx = make([]float64, 3), make([]float64, 3)
	for k := 0; k < 3; k++ {
		mn[k] = math.Min(v[k], math.Min(v[3+k], v[6+k]))
		mx[k] = math.Max(v[k], math.Max(v[3+k], v[6+k]))
	}
	return
}

// degenerate3 reports whether the triangle is unusable: zero area on the grid, a
// sliver (sine of an angle < 0.05, edge < 0.05) otherwise.  Zero-area faces have a
// NaN normal in the library and are outside the domain of its colliders/SDFs.
func degenerate3(v [9]float64, grid bool) bool {
	a, b, c := kit.V3{v[0], v[1], v[2]}, kit.V3{v[3], v[4], v[5]}, kit.V3{v[6], v[7], v[8]}
	e1, e2, e3 := b.Sub(a), c.Sub(a), c.Sub(b)
	n := e1.Cross(e2).Norm()
	if grid {
		return n == 0
	}
	l1, l2, l3 := e1.Norm(), e2.Norm(), e3.Norm()
	if l1 < 0.05 || l2 < 0.05 || l3 < 0.05 {
		return true
	}
	return n < 0.05*l1*l2 || n < 0.05*l1*l3 || n < 0.05*l2*l3
}

func fixTri3(v [9]float64, grid bool) [9]float64 {
	if !degenerate3(v, grid) {
		return v
	}
	// axis-aligned right triangle at the first vertex (flat bounding box in z)
	return [9]float64{v[0], v[1], v[2], v[0] + 1, v[1], v[2], v[0], v[1] + 1, v[2]}
}

// ---------------------------------------------------------------------------
// generators

func genTri3(t *rapid.T, p *pool, prev [][9]float64, label string) [9]float64 {
	var tr [9]float64
	mode := rapid.IntRange(0, 9).Draw(t, label+".mode")
	fresh := func() {
		copy(tr[:], p.vec(t, 9, label))
	}
	pick := func() [9]float64 {
		return prev[rapid.IntRange(0, len(prev)-1).Draw(t, label+".src")]
	}
	switch {
	case mode == 0 && len(prev) > 0: // value duplicate, vertex order rotated
		src := pick()
		rot := rapid.IntRange(0, 2).Draw(t, label+".rot")
		for i := 0; i < 9; i++ {
			tr[i] = src[(i+3*rot)%9]
		}
	case mode == 1 && len(prev) > 0: // different triangle, identical bounding box: rotate one axis' coordinates among the vertices
		src := pick()
		tr = src
		ax := rapid.IntRange(0, 2).Draw(t, label+".axis")
		tr[ax], tr[3+ax], tr[6+ax] = src[3+ax], src[6+ax], src[ax]
	case mode == 2 || mode == 3: // axis-aligned: flat bounding box
		fresh()
		ax := rapid.IntRange(0, 2).Draw(t, label+".axis")
		tr[3+ax], tr[6+ax] = tr[ax], tr[ax]
	case mode == 4 && len(prev) > 0: // shares a vertex or an edge with an earlier triangle
		src := pick()
		fresh()
		copy(tr[0:3], src[0:3])
		if rapid.Bool().Draw(t, label+".edge") {
			copy(tr[3:6], src[6:9])
		}
	case mode == 5: // large: coordinates at the extremes, so nested nodes get the bounds of their parent
		fresh()
		for i := range tr {
			if rapid.IntRange(0, 2).Draw(t, fmt.Sprintf("%s.ext%d", label, i)) > 0 {
				tr[i] = []float64{-4, 4}[rapid.IntRange(0, 1).Draw(t, fmt.Sprintf("%s.sgn%d", label, i))]
			}
		}
	default:
		fresh()
	}
	return fixTri3(tr, p.grid)
}

func genTris3(t *rapid.T, p *pool, minN, maxN int) [][9]float64 {
	n := drawN(t, minN, maxN, "ntris")
	var out [][9]float64
	for i := 0; i < n; i++ {
		out = append(out, genTri3(t, p, out, fmt.Sprintf("tri%d", i)))
	}
	return out
}

// genPtr draws the object list: every triangle once, in a drawn order, plus (rarely) repeated pointers.
func genPtr(t *rapid.T, n int) []int {
	ptr := make([]int, 0, n+2)
	for i := 0; i < n; i++ {
		ptr = append(ptr, i)
	}
	if n > 1 && rapid.IntRange(0, 3).Draw(t, "shuffle") > 0 {
		ptr = rapid.Permutation(ptr).Draw(t, "order")
	}
	if n > 0 && rapid.IntRange(0, 5).Draw(t, "ptrdup") == 0 {
		k := rapid.IntRange(1, 2).Draw(t, "ndup")
		for i := 0; i < k; i++ {
			ptr = append(ptr, rapid.IntRange(0, n-1).Draw(t, "dup"))
		}
	}
	return ptr
}

// point3 draws a query point: free, on a face plane of some triangle's bounding box, or a special point of a triangle.
func point3(t *rapid.T, p *pool, tris [][9]float64, label string) [3]float64 {
	var o [3]float64
	copy(o[:], p.vec(t, 3, label))
	if len(tris) == 0 {
		return o
	}
	switch rapid.IntRange(0, 4).Draw(t, label+".mode") {
	case 0: // on a box face
		tr := tris[rapid.IntRange(0, len(tris)-1).Draw(t, label+".tri")]
		mn, mx := triBox(tr)
		ax := rapid.IntRange(0, 2).Draw(t, label+".axis")
		if rapid.Bool().Draw(t, label+".max") {
			o[ax] = mx[ax]
		} else {
			o[ax] = mn[ax]
		}
	case 1: // a vertex / edge midpoint / interior point of a triangle
		o = target3(t, p, tris, label)
	}
	return o
}

// target3 is a point of some triangle: vertex, edge midpoint or the interior point (2a+b+c)/4 (all exact on the grid).
func target3(t *rapid.T, p *pool, tris [][9]float64, label string) [3]float64 {
	tr := tris[rapid.IntRange(0, len(tris)-1).Draw(t, label+".ttri")]
	i := rapid.IntRange(0, 2).Draw(t, label+".tv")
	j, k := (i+1)%3, (i+2)%3
	var out [3]float64
	switch rapid.IntRange(0, 3).Draw(t, label+".tkind") {
	case 0:
		copy(out[:], tr[3*i:3*i+3])
	case 1:
		for a := 0; a < 3; a++ {
			out[a] = (tr[3*i+a] + tr[3*j+a]) / 2
		}
	default:
		for a := 0; a < 3; a++ {
			out[a] = (2*tr[3*i+a] + tr[3*j+a] + tr[3*k+a]) / 4
		}
	}
	return out
}

func genQuery3(t *rapid.T, p *pool, tris [][9]float64, kinds []string, label string) query3 {
	q := query3{Kind: rapid.SampledFrom(kinds).Draw(t, label+".kind")}
	switch q.Kind {
	case "ray", "segment":
		q.A = point3(t, p, tris, label+".o")
		aimed := len(tris) > 0 && rapid.IntRange(0, 2).Draw(t, label+".aim") == 0
		if aimed {
			tg := target3(t, p, tris, label+".tg")
			for a := 0; a < 3; a++ {
				q.B[a] = tg[a] - q.A[a]
			}
			// the hit is at scale 1, 2 or 1/2 — or behind the origin
			s := []float64{1, 1, 0.5, 2, -1}[rapid.IntRange(0, 4).Draw(t, label+".ascale")]
			for a := 0; a < 3; a++ {
				q.B[a] *= s
			}
			if q.B == [3]float64{} {
				q.B = [3]float64{1, 0, 0}
			}
		} else {
			copy(q.B[:], p.dir(t, 3, label+".d"))
		}
		if q.Kind == "segment" {
			for a := 0; a < 3; a++ {
				q.B[a] = q.A[a] + q.B[a] // end point (exact on the grid)
			}
		}
	case "sphere":
		q.A = point3(t, p, tris, label+".c")
		mode := rapid.IntRange(0, 5).Draw(t, label+".rmode")
		switch {
		case mode == 0 && len(tris) > 0: // exact distance to a vertex
			tg := target3(t, p, tris, label+".rt")
			q.R = kit.V3(q.A).Dist(kit.V3(tg))
		case mode == 1 && len(tris) > 0: // reference distance to a triangle
			tr := tris[rapid.IntRange(0, len(tris)-1).Draw(t, label+".rtri")]
			q.R, _ = kit.PointTriDist(kit.V3(q.A), kit.Tri{{tr[0], tr[1], tr[2]}, {tr[3], tr[4], tr[5]}, {tr[6], tr[7], tr[8]}})
		case mode == 2 && len(tris) > 0: // exact distance to a bounding box
			tr := tris[rapid.IntRange(0, len(tris)-1).Draw(t, label+".rbox")]
			mn, mx := triBox(tr)
			q.R = math.Sqrt(boxDist2(q.A[:], mn, mx))
		case mode == 3:
			q.R = float64(rapid.IntRange(0, 24).Draw(t, label+".rq")) * gridQ
		default:
			if p.grid {
				q.R = float64(rapid.IntRange(0, 48).Draw(t, label+".rq")) * gridQ / 2
			} else {
				q.R = math.Exp(rapid.Float64Range(math.Log(0.01), math.Log(8)).Draw(t, label+".r"))
			}
		}
	case "rect":
		a, b := point3(t, p, tris, label+".p"), point3(t, p, tris, label+".q")
		for k := 0; k < 3; k++ {
			q.A[k], q.B[k] = math.Min(a[k], b[k]), math.Max(a[k], b[k])
			if rapid.IntRange(0, 5).Draw(t, fmt.Sprintf("%s.flat%d", label, k)) == 0 {
				q.B[k] = q.A[k]
			}
		}
	case "tri":
		tr := genTri3(t, p, tris, label+".t")
		copy(q.A[:], tr[0:3])
		copy(q.B[:], tr[3:6])
		copy(q.C[:], tr[6:9])
	}
	return q
}

var builds3 = []string{"mesh", "grouped", "ungrouped", "bvh", "handbvh", "colliders", "joined", "joinedshared"}

func genColl3(t *rapid.T) coll3Case {
	p := &pool{grid: rapid.IntRange(0, 2).Draw(t, "grid") > 0}
	var c coll3Case
	// sizes: empty and single sets now and then, mostly small, sometimes a few dozen
	c.Tris = genTris3(t, p, 0, 28)
	c.Ptr = genPtr(t, len(c.Tris))
	c.Build = rapid.SampledFrom(builds3).Draw(t, "build")
	if c.Build == "handbvh" || c.Build == "joined" || c.Build == "joinedshared" {
		c.Shape = rapid.SliceOfN(rapid.IntRange(0, 11), 0, 12).Draw(t, "shape")
	}
	nq := rapid.IntRange(1, 10).Draw(t, "nq")
	kinds := []string{"ray", "ray", "ray", "sphere", "sphere", "segment", "rect", "tri"}
	for i := 0; i < nq; i++ {
		c.Queries = append(c.Queries, genQuery3(t, p, c.Tris, kinds, fmt.Sprintf("q%d", i)))
	}
	return c
}

// ---------------------------------------------------------------------------
// counting wrapper around a leaf triangle (measures pruning)

type cnt3 struct {
	t   *model3d.Triangle
	n   *int
	own int
}

func (c *cnt3) Min() model3d.Coord3D { return c.t.Min() }
func (c *cnt3) Max() model3d.Coord3D { return c.t.Max() }
func (c *cnt3) RayCollisions(r *model3d.Ray, f func(model3d.RayCollision)) int {
	*c.n++
	c.own++
	return c.t.RayCollisions(r, f)
}
func (c *cnt3) FirstRayCollision(r *model3d.Ray) (model3d.RayCollision, bool) {
	*c.n++
	c.own++
	return c.t.FirstRayCollision(r)
}
func (c *cnt3) SphereCollision(p model3d.Coord3D, r float64) bool {
	*c.n++
	c.own++
	return c.t.SphereCollision(p, r)
}
func (c *cnt3) TriangleCollisions(t *model3d.Triangle) []model3d.Segment {
	*c.n++
	c.own++
	return c.t.TriangleCollisions(t)
}
func (c *cnt3) SegmentCollision(s model3d.Segment) bool {
	*c.n++
	c.own++
	return c.t.SegmentCollision(s)
}
func (c *cnt3) RectCollision(r *model3d.Rect) bool {
	*c.n++
	c.own++
	return c.t.RectCollision(r)
}

// ---------------------------------------------------------------------------
// building the index

type index3 struct {
	coll    model3d.Collider
	multi   model3d.MultiCollider // nil when the variant only offers the Collider interface
	counter *int                  // non-nil when leaves are counting wrappers
	leaves  []*cnt3               // "joined": the wrappers by list position
	tree    *hnode                // "joined": the explicit tree of NewJoinedCollider nodes
	objs    []int                 // the objects the index must represent (indices into Tris, with multiplicity)
}

func bvhFromShape3[B model3d.Bounder](objs []B, nd *hnode) *model3d.BVH[B] {
	if nd.leaf >= 0 {
		return &model3d.BVH[B]{Leaf: objs[nd.leaf]}
	}
	b := &model3d.BVH[B]{}
	for _, k := range nd.kids {
		b.Branch = append(b.Branch, bvhFromShape3(objs, k))
	}
	return b
}

func joinedFromShape3(objs []model3d.Collider, nd *hnode) model3d.Collider {
	if nd.leaf >= 0 {
		return objs[nd.leaf]
	}
	var kids []model3d.Collider
	for _, k := range nd.kids {
		kids = append(kids, joinedFromShape3(objs, k))
	}
	return model3d.NewJoinedCollider(kids)
}

func buildIndex3(c coll3Case, tris []*model3d.Triangle) (*index3, error) {
	ix := &index3{}
	for _, i := range c.Ptr {
		if i < 0 || i >= len(tris) {
			return nil, fmt.Errorf("%w: object index %d out of range", kit.ErrInfra, i)
		}
		ix.objs = append(ix.objs, i)
	}
	list := func() []*model3d.Triangle {
		out := make([]*model3d.Triangle, len(ix.objs))
		for k, i := range ix.objs {
			out[k] = tris[i]
		}
		return out
	}
	build := c.Build
	if len(ix.objs) == 0 && (build == "bvh" || build == "handbvh" || build == "joined" || build == "joinedshared") {
		build = "ungrouped" // hierarchies need at least one leaf (a BVH node is a leaf or a branch)
	}
	switch build {
	case "mesh":
		// a mesh is a set of face pointers: repeated pointers collapse
		seen := map[int]bool{}
		var uniq []int
		m := model3d.NewMesh()
		for _, i := range ix.objs {
			if !seen[i] {
				seen[i] = true
				uniq = append(uniq, i)
			}
			m.Add(tris[i])
		}
		ix.objs = uniq
		ix.multi = model3d.MeshToCollider(m)
	case "grouped":
		l := list()
		model3d.GroupTriangles(l)
		ix.multi = model3d.GroupedTrianglesToCollider(l)
	case "ungrouped":
		ix.multi = model3d.GroupedTrianglesToCollider(list())
	case "bvh":
		ix.multi = model3d.BVHToCollider(model3d.NewBVHAreaDensity(list()))
	case "handbvh":
		pos := 0
		ix.multi = model3d.BVHToCollider(bvhFromShape3(list(), shapeTree(0, len(ix.objs), c.Shape, &pos)))
	case "colliders", "joined", "joinedshared":
		ix.counter = new(int)
		ws := make([]model3d.Collider, len(ix.objs))
		for k, i := range ix.objs {
			w := &cnt3{t: tris[i], n: ix.counter}
			ws[k] = w
			ix.leaves = append(ix.leaves, w)
		}
		if build == "colliders" {
			model3d.GroupBounders(ws)
			coll := model3d.GroupedCollidersToCollider(ws)
			mc, ok := coll.(model3d.MultiCollider)
			if !ok {
				return nil, fmt.Errorf("GroupedCollidersToCollider over MultiCollider leaves returned a %T, which is not a MultiCollider", coll)
			}
			ix.multi = mc
		} else if build == "joinedshared" && len(ws) >= 2 {
			// A construction HISTORY: a sub-assembly (a joined collider over all leaves but the last) is combined
			// with the last leaf into the collider under test, and afterwards the same sub-assembly is combined
			// twice more with other leaves.  Building the later assemblies must not change the earlier one
			// (colliders are immutable after construction): it is queried after them.
			pos := 0
			m := len(ws) - 1
			base := joinedFromShape3(ws[:m], shapeTree(0, m, c.Shape, &pos))
			ix.coll = model3d.NewJoinedCollider([]model3d.Collider{base, ws[m]})
			decoys := new(int)
			for r := 0; r < 2; r++ {
				d := &cnt3{t: tris[ix.objs[(r*(m/2))%m]], n: decoys}
				_ = model3d.NewJoinedCollider([]model3d.Collider{base, d})
				_ = model3d.NewJoinedCollider([]model3d.Collider{d, base})
			}
		} else {
			pos := 0
			ix.tree = shapeTree(0, len(ws), c.Shape, &pos)
			ix.coll = joinedFromShape3(ws, ix.tree)
		}
	default:
		return nil, fmt.Errorf("%w: unknown build %q", kit.ErrInfra, c.Build)
	}
	if ix.multi != nil {
		ix.coll = ix.multi
	}
	return ix, nil
}

// ---------------------------------------------------------------------------
// the check

type hit3 struct {
	scale float64
	obj   int
	must  bool
}

func checkColl3(c coll3Case, o *kit.Obs) error {
	tris := make([]*model3d.Triangle, len(c.Tris))
	ptrIdx := map[*model3d.Triangle]int{}
	boxMin, boxMax := make([][]float64, len(c.Tris)), make([][]float64, len(c.Tris))
	gridObjs := true
	for i, v := range c.Tris {
		if !finite(v[:]...) {
			return fmt.Errorf("%w: non-finite coordinate", kit.ErrInfra)
		}
		if degenerate3(v, true) {
			return fmt.Errorf("%w: zero-area triangle in the case", kit.ErrInfra)
		}
		tris[i] = tri3(v)
		ptrIdx[tris[i]] = i
		boxMin[i], boxMax[i] = triBox(v)
		gridObjs = gridObjs && allOnGrid(v[:])
	}
	ix, err := buildIndex3(c, tris)
	if err != nil {
		return err
	}
	n := len(ix.objs)
	o.Label("build:" + c.Build)
	o.Label(nclass(n))
	if gridObjs {
		o.Label("objects:grid")
	} else {
		o.Label("objects:generic")
	}
	// coincident bounds among the objects (the classes the quantifier names)
	coincident, flat := false, false
	for a := 0; a < n; a++ {
		i := ix.objs[a]
		for k := 0; k < 3; k++ {
			if boxMin[i][k] == boxMax[i][k] {
				flat = true
			}
		}
		for b := a + 1; b < n; b++ {
			j := ix.objs[b]
			if bits(boxMin[i]...) == bits(boxMin[j]...) && bits(boxMax[i]...) == bits(boxMax[j]...) {
				coincident = true
			}
		}
	}
	if coincident {
		o.Label("objects:coincident-bounds")
	}
	if flat {
		o.Label("objects:flat-box")
	}

	// the bounds of the index are the union of the leaves' bounds (exact: min/max only)
	if n > 0 {
		mn, mx := append([]float64(nil), boxMin[ix.objs[0]]...), append([]float64(nil), boxMax[ix.objs[0]]...)
		for _, i := range ix.objs {
			for k := 0; k < 3; k++ {
				mn[k], mx[k] = math.Min(mn[k], boxMin[i][k]), math.Max(mx[k], boxMax[i][k])
			}
		}
		if bits(arr3(ix.coll.Min())...) != bits(mn...) || bits(arr3(ix.coll.Max())...) != bits(mx...) {
			return fmt.Errorf("bounds of the index %v..%v differ from the union of the objects' bounds %v..%v", ix.coll.Min(), ix.coll.Max(), mn, mx)
		}
	}

	for qi, q := range c.Queries {
		if !finite(q.A[:]...) || !finite(q.B[:]...) || !finite(q.C[:]...) || !finite(q.R) {
			return fmt.Errorf("%w: non-finite query", kit.ErrInfra)
		}
		strict := gridObjs && allOnGrid(q.A[:], q.B[:], q.C[:])
		if ix.counter != nil {
			*ix.counter = 0
		}
		var hits, borderline, prunable int
		var err error
		droppedBorderline = 0
		switch q.Kind {
		case "ray":
			hits, borderline, prunable, err = rayQuery3(ix, tris, ptrIdx, boxMin, boxMax, q, strict)
		case "sphere":
			hits, borderline, prunable, err = sphereQuery3(ix, tris, boxMin, boxMax, q, strict)
		case "segment", "rect", "tri":
			if ix.multi == nil {
				o.Label(q.Kind + ":not-offered-by-variant")
				continue
			}
			hits, borderline, prunable, err = multiQuery3(ix, tris, boxMin, boxMax, q, strict)
		default:
			return fmt.Errorf("%w: unknown query kind %q", kit.ErrInfra, q.Kind)
		}
		if err == nil && ix.tree != nil && (q.Kind == "ray" || q.Kind == "sphere") {
			// documented filter of every JoinedCollider node of the explicit tree
			for _, w := range ix.leaves {
				w.own = 0
			}
			box := func(pos int) ([]float64, []float64) { return boxMin[ix.objs[pos]], boxMax[ix.objs[pos]] }
			var misses func(mn, mx []float64) bool
			if q.Kind == "ray" {
				ix.coll.RayCollisions(&model3d.Ray{Origin: xyz(q.A), Direction: xyz(q.B)}, nil)
				misses = func(mn, mx []float64) bool { return !slabMay(q.A[:], q.B[:], mn, mx, math.Inf(1), strict) }
			} else {
				ix.coll.SphereCollision(xyz(q.A), q.R)
				misses = func(mn, mx []float64) bool { return !ballMay(q.A[:], q.R, mn, mx, strict) }
			}
			counts := make([]int, len(ix.leaves))
			for k, w := range ix.leaves {
				counts[k] = w.own
			}
			if e := ix.tree.passedOn(counts, box, misses, false); e != nil {
				err = fmt.Errorf("JoinedCollider passes along queries that do not enter its bounding box: %w", e)
			}
		}
		if err != nil {
			return fmt.Errorf("query %d (%s, build %s, %d objects, strict=%v): %w", qi, q.Kind, c.Build, n, strict, err)
		}
		reg := "generic"
		if strict {
			reg = "strict"
		}
		o.Label(q.Kind + ":" + reg)
		if hits > 0 {
			o.Label(q.Kind + ":hit")
			o.NonTrivial()
		} else {
			o.Label(q.Kind + ":miss")
		}
		if hits > 1 {
			o.Label(q.Kind + ":multi-hit")
		}
		if borderline > 0 {
			o.Label(q.Kind + ":borderline-leaf:" + reg)
		}
		if droppedBorderline > 0 {
			o.Label(q.Kind + ":borderline-hit-skipped-by-index")
		}
		if q.Kind == "ray" || q.Kind == "segment" {
			zero, face := false, false
			for k := 0; k < 3; k++ {
				dk := q.B[k]
				if q.Kind == "segment" {
					dk = q.B[k] - q.A[k]
				}
				if dk == 0 {
					zero = true
				}
				for _, i := range ix.objs {
					if q.A[k] == boxMin[i][k] || q.A[k] == boxMax[i][k] {
						face = true
					}
				}
			}
			if zero {
				o.Label(q.Kind + ":zero-direction-component")
			}
			if face {
				o.Label(q.Kind + ":origin-on-box-face-plane")
			}
		}
		if q.Kind == "sphere" || q.Kind == "circle" {
			for _, i := range ix.objs {
				if boxDist2(q.A[:], boxMin[i], boxMax[i]) == q.R*q.R {
					o.Label(q.Kind + ":radius-equals-box-distance")
					break
				}
			}
		}
		if ix.counter != nil {
			// measured: the hierarchy evaluated fewer leaf primitives than a scan would
			evals := *ix.counter
			per := n
			if q.Kind == "ray" {
				per = 3 * n // three entry points are exercised per ray query
			}
			if evals < per && n > 0 {
				o.Label(q.Kind + ":pruned(measured)")
				o.NonTrivial()
			}
		} else if prunable > 0 && n >= 2 {
			o.Label(q.Kind + ":prunable")
			o.NonTrivial()
		}
	}
	return nil
}

func rayQuery3(ix *index3, tris []*model3d.Triangle, ptrIdx map[*model3d.Triangle]int, boxMin, boxMax [][]float64, q query3, strict bool) (nhits, borderline, prunable int, err error) {
	ray := &model3d.Ray{Origin: xyz(q.A), Direction: xyz(q.B)}
	// linear scan with the library's own per-triangle primitive
	var scan []hit3
	must, all := bag{}, bag{}
	for _, i := range ix.objs {
		pass := slabMust(q.A[:], q.B[:], boxMin[i], boxMax[i], math.Inf(1), strict)
		if !pass {
			prunable++
		}
		cnt := tris[i].RayCollisions(ray, func(rc model3d.RayCollision) {
			h := hit3{scale: rc.Scale, obj: i, must: pass}
			scan = append(scan, h)
			key := fmt.Sprintf("hit(triangle #%d, scale %v)", i, rc.Scale)
			all.add(key)
			if pass {
				must.add(key)
			} else {
				borderline++
			}
		})
		_ = cnt
	}
	nhits = len(scan)

	// index: all collisions
	got := bag{}
	var cbErr error
	calls := 0
	count := ix.coll.RayCollisions(ray, func(rc model3d.RayCollision) {
		calls++
		tc, ok := rc.Extra.(*model3d.TriangleCollision)
		if !ok || tc == nil {
			cbErr = fmt.Errorf("collision without *TriangleCollision extra: %#v", rc.Extra)
			return
		}
		i, ok := ptrIdx[tc.Triangle]
		if !ok {
			cbErr = fmt.Errorf("collision reports a triangle %v that is not one of the objects", *tc.Triangle)
			return
		}
		if nrm := tris[i].Normal(); bits(arr3(rc.Normal)...) != bits(arr3(nrm)...) {
			cbErr = fmt.Errorf("collision normal %v is not the normal %v of the reported triangle #%d", rc.Normal, nrm, i)
		}
		got.add(fmt.Sprintf("hit(triangle #%d, scale %v)", i, rc.Scale))
	})
	if cbErr != nil {
		return 0, 0, 0, cbErr
	}
	if count != calls {
		return 0, 0, 0, fmt.Errorf("RayCollisions returned %d but called back %d times", count, calls)
	}
	if e := between(must, got, all); e != nil {
		return 0, 0, 0, fmt.Errorf("RayCollisions(origin %v, direction %v): %w", q.A, q.B, e)
	}
	if cn := ix.coll.RayCollisions(ray, nil); cn != count {
		return 0, 0, 0, fmt.Errorf("RayCollisions with a nil callback counts %d, with a callback %d", cn, count)
	}

	// index: first collision = minimum over the scan (ties: any object at that scale)
	minAll, minMust := math.Inf(1), math.Inf(1)
	for _, h := range scan {
		minAll = math.Min(minAll, h.scale)
		if h.must {
			minMust = math.Min(minMust, h.scale)
		}
	}
	rc, found := ix.coll.FirstRayCollision(ray)
	if !found {
		if !math.IsInf(minMust, 1) {
			return 0, 0, 0, fmt.Errorf("FirstRayCollision(origin %v, direction %v) finds nothing; the scan hits at scale %v", q.A, q.B, minMust)
		}
	} else {
		if rc.Scale < minAll || rc.Scale > minMust {
			return 0, 0, 0, fmt.Errorf("FirstRayCollision(origin %v, direction %v) has scale %v; the scan's first hit is at %v (%d hits)", q.A, q.B, rc.Scale, minMust, len(scan))
		}
		tc, ok := rc.Extra.(*model3d.TriangleCollision)
		if !ok || tc == nil {
			return 0, 0, 0, fmt.Errorf("first collision without *TriangleCollision extra")
		}
		i, ok := ptrIdx[tc.Triangle]
		okHit := false
		for _, h := range scan {
			if ok && h.obj == i && h.scale == rc.Scale {
				okHit = true
			}
		}
		if !okHit {
			return 0, 0, 0, fmt.Errorf("FirstRayCollision reports scale %v on a triangle (#%d, known=%v) that the scan does not hit at that scale", rc.Scale, i, ok)
		}
		if nrm := tris[i].Normal(); bits(arr3(rc.Normal)...) != bits(arr3(nrm)...) {
			return 0, 0, 0, fmt.Errorf("first collision normal %v is not the normal %v of triangle #%d", rc.Normal, nrm, i)
		}
	}
	return
}

func sphereQuery3(ix *index3, tris []*model3d.Triangle, boxMin, boxMax [][]float64, q query3, strict bool) (nhits, borderline, prunable int, err error) {
	c := xyz(q.A)
	// (strict: the radius may be any float, r*r is a single rounding in every implementation)
	anyMust, anyAll := false, false
	for _, i := range ix.objs {
		pass := ballMust(q.A[:], q.R, boxMin[i], boxMax[i], strict)
		if !pass {
			prunable++
		}
		if tris[i].SphereCollision(c, q.R) {
			nhits++
			anyAll = true
			if pass {
				anyMust = true
			} else {
				borderline++
			}
		}
	}
	got := ix.coll.SphereCollision(c, q.R)
	if got && !anyAll {
		return 0, 0, 0, fmt.Errorf("SphereCollision(%v, %v) is true but no triangle touches the ball", q.A, q.R)
	}
	if anyAll && !got {
		droppedBorderline++
	}
	if !got && anyMust {
		return 0, 0, 0, fmt.Errorf("SphereCollision(%v, %v) is false but %d triangle(s) touch the ball", q.A, q.R, nhits)
	}
	return
}

func segKey(s model3d.Segment) string {
	return "segment(" + bits(arr3(s[0])...) + bits(arr3(s[1])...) + fmt.Sprintf(" %v-%v)", s[0], s[1])
}

func multiQuery3(ix *index3, tris []*model3d.Triangle, boxMin, boxMax [][]float64, q query3, strict bool) (nhits, borderline, prunable int, err error) {
	switch q.Kind {
	case "segment":
		seg := model3d.Segment{xyz(q.A), xyz(q.B)} // as given (SegmentCollision takes the value; no canonical reordering is required)
		d := arr3(seg[1].Sub(seg[0]))
		strictSeg := strict && allOnGrid(d)
		anyMust, anyAll := false, false
		for _, i := range ix.objs {
			pass := slabMust(q.A[:], d, boxMin[i], boxMax[i], 1, strictSeg)
			if !pass {
				prunable++
			}
			if tris[i].SegmentCollision(seg) {
				nhits++
				anyAll = true
				if pass {
					anyMust = true
				} else {
					borderline++
				}
			}
		}
		got := ix.multi.SegmentCollision(seg)
		if got && !anyAll {
			return 0, 0, 0, fmt.Errorf("SegmentCollision(%v - %v) is true but no triangle meets the segment", q.A, q.B)
		}
		if anyAll && !got {
			droppedBorderline++
		}
		if !got && anyMust {
			return 0, 0, 0, fmt.Errorf("SegmentCollision(%v - %v) is false but %d triangle(s) meet the segment", q.A, q.B, nhits)
		}
	case "rect":
		rect := &model3d.Rect{MinVal: xyz(q.A), MaxVal: xyz(q.B)}
		anyMust, anyAll := false, false
		for _, i := range ix.objs {
			pass := boxesOverlap(q.A[:], q.B[:], boxMin[i], boxMax[i])
			if !pass {
				prunable++
			}
			if tris[i].RectCollision(rect) {
				nhits++
				anyAll = true
				if pass {
					anyMust = true
				} else {
					borderline++
				}
			}
		}
		got := ix.multi.RectCollision(rect)
		if got && !anyAll {
			return 0, 0, 0, fmt.Errorf("RectCollision(%v .. %v) is true but no triangle meets the box", q.A, q.B)
		}
		if anyAll && !got {
			droppedBorderline++
		}
		if !got && anyMust {
			return 0, 0, 0, fmt.Errorf("RectCollision(%v .. %v) is false but %d triangle(s) meet the box", q.A, q.B, nhits)
		}
	case "tri":
		v := [9]float64{q.A[0], q.A[1], q.A[2], q.B[0], q.B[1], q.B[2], q.C[0], q.C[1], q.C[2]}
		if degenerate3(v, true) {
			return 0, 0, 0, fmt.Errorf("%w: zero-area query triangle", kit.ErrInfra)
		}
		qt := tri3(v)
		qmn, qmx := triBox(v)
		must, all := bag{}, bag{}
		for _, i := range ix.objs {
			pass := boxesOverlap(qmn, qmx, boxMin[i], boxMax[i])
			if !pass {
				prunable++
			}
			for _, s := range tris[i].TriangleCollisions(qt) {
				nhits++
				all.add(segKey(s))
				if pass {
					must.add(segKey(s))
				} else {
					borderline++
				}
			}
		}
		got := bag{}
		for _, s := range ix.multi.TriangleCollisions(qt) {
			got.add(segKey(s))
		}
		if e := between(must, got, all); e != nil {
			return 0, 0, 0, fmt.Errorf("TriangleCollisions(%v): %w", v, e)
		}
	}
	return
}
