package c08

// Mesh colliders over meshes that contain zero-area triangles {a, b, b}: the library's own encoding of a line segment
// (toolbox3d.LineJoin builds such meshes and queries them with balls).  Such a triangle has no normal, so rays are
// not asked; ball and box queries and the bounds are well defined and must agree with a scan over the triangles
// using the library's own per-triangle primitive.

import (
	"fmt"

	"github.com/unixpickle/model3d/model3d"
	"pgregory.net/rapid"
	"verifharness/kit"
)

type degenCase struct {
	Tris  [][9]float64 `json:"tris"`
	Build string       `json:"build"` // mesh | interp | grouped
	Balls [][4]float64 `json:"balls"`
	Boxes [][6]float64 `json:"boxes"`
}

func genDegen(t *rapid.T) degenCase {
	c := degenCase{Build: rapid.SampledFrom([]string{"mesh", "interp", "grouped"}).Draw(t, "build")}
	coord := func(l string) float64 { return float64(rapid.IntRange(-8, 8).Draw(t, l)) / 2 }
	pt := func(l string) [3]float64 { return [3]float64{coord(l + ".x"), coord(l + ".y"), coord(l + ".z")} }
	n := rapid.IntRange(1, 12).Draw(t, "n")
	for i := 0; i < n; i++ {
		a, b, d := pt("a"), pt("b"), pt("c")
		switch rapid.IntRange(0, 4).Draw(t, "shape") {
		case 0, 1: // a segment in one of its three spellings
			d = [][3]float64{b, a, a}[rapid.IntRange(0, 2).Draw(t, "spelling")]
			if d == a && rapid.Bool().Draw(t, "aab") {
				b, d = a, b
			}
		case 2: // three colinear points
			d = [3]float64{2*b[0] - a[0], 2*b[1] - a[1], 2*b[2] - a[2]}
		}
		c.Tris = append(c.Tris, [9]float64{a[0], a[1], a[2], b[0], b[1], b[2], d[0], d[1], d[2]})
	}
	for i, k := 0, rapid.IntRange(1, 8).Draw(t, "nballs"); i < k; i++ {
		p := pt("ball")
		c.Balls = append(c.Balls, [4]float64{p[0], p[1], p[2], float64(rapid.IntRange(0, 12).Draw(t, "r")) / 4})
	}
	for i, k := 0, rapid.IntRange(1, 8).Draw(t, "nboxes"); i < k; i++ {
		p, q := pt("box"), pt("boxsize")
		c.Boxes = append(c.Boxes, [6]float64{p[0], p[1], p[2], p[0] + (q[0]+4)/4, p[1] + (q[1]+4)/4, p[2] + (q[2]+4)/4})
	}
	return c
}

func checkDegen(c degenCase, o *kit.Obs) error {
	o.Label("build:" + c.Build)
	var tris []*model3d.Triangle
	nDegenerate := 0
	mesh := model3d.NewMesh()
	mn, mx := model3d.XYZ(1e9, 1e9, 1e9), model3d.XYZ(-1e9, -1e9, -1e9)
	for _, v := range c.Tris {
		t := &model3d.Triangle{model3d.XYZ(v[0], v[1], v[2]), model3d.XYZ(v[3], v[4], v[5]), model3d.XYZ(v[6], v[7], v[8])}
		if t[0] == t[1] && t[1] == t[2] {
			continue // a point: nothing is documented about it
		}
		if t.Area() == 0 {
			nDegenerate++
		}
		tris = append(tris, t)
		mesh.Add(t)
		for _, p := range t {
			mn, mx = mn.Min(p), mx.Max(p)
		}
	}
	if len(tris) == 0 {
		o.Skip("no triangles")
		return nil
	}
	if nDegenerate > 0 {
		o.NonTrivial()
		o.Label("has-zero-area-triangles")
	}
	var coll model3d.MultiCollider
	switch c.Build {
	case "mesh":
		coll = model3d.MeshToCollider(mesh)
	case "interp":
		coll = model3d.MeshToInterpNormalCollider(mesh)
	default:
		l := append([]*model3d.Triangle{}, tris...)
		model3d.GroupTriangles(l)
		coll = model3d.GroupedTrianglesToCollider(l)
	}
	if coll.Min() != mn || coll.Max() != mx {
		return fmt.Errorf("%s collider over %d triangles (%d of zero area) has bounds %v..%v, the vertices span %v..%v", c.Build, len(tris), nDegenerate, coll.Min(), coll.Max(), mn, mx)
	}
	for _, b := range c.Balls {
		ctr := model3d.XYZ(b[0], b[1], b[2])
		want := false
		for _, t := range tris {
			want = want || t.SphereCollision(ctr, b[3])
		}
		if got := coll.SphereCollision(ctr, b[3]); got != want {
			return fmt.Errorf("%s collider over %d triangles (%d of zero area): SphereCollision(%v, %v) = %v, a scan over the triangles says %v", c.Build, len(tris), nDegenerate, ctr, b[3], got, want)
		}
	}
	for _, b := range c.Boxes {
		r := &model3d.Rect{MinVal: model3d.XYZ(b[0], b[1], b[2]), MaxVal: model3d.XYZ(b[3], b[4], b[5])}
		want := false
		for _, t := range tris {
			want = want || t.RectCollision(r)
		}
		if got := coll.RectCollision(r); got != want {
			return fmt.Errorf("%s collider over %d triangles (%d of zero area): RectCollision(%v) = %v, a scan over the triangles says %v", c.Build, len(tris), nDegenerate, *r, got, want)
		}
	}
	return nil
}
