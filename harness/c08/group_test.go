package c08

import (
	"fmt"

	"github.com/unixpickle/model3d/model2d"
	"github.com/unixpickle/model3d/model3d"
	"pgregory.net/rapid"
	"verifharness/kit"
)

// Grouping and hierarchy construction only reorder their input: pointer multisets.

type groupCase struct {
	Dim   int          `json:"dim"`
	Kind  string       `json:"kind"`  // face (triangles / segments) | rect (boxes, possibly flat or single points)
	Boxes [][6]float64 `json:"boxes"` // rect: min xyz, max xyz (2D: z ignored)
	Tris  [][9]float64 `json:"tris,omitempty"`
	Segs  [][4]float64 `json:"segs,omitempty"`
	Ptr   []int        `json:"ptr"`
	Op    string       `json:"op"` // group | bvh
}

func genGroup(t *rapid.T) groupCase {
	c := groupCase{Dim: rapid.IntRange(2, 3).Draw(t, "dim")}
	p := &pool{grid: rapid.IntRange(0, 2).Draw(t, "grid") > 0}
	c.Kind = rapid.SampledFrom([]string{"face", "rect"}).Draw(t, "kind")
	c.Op = rapid.SampledFrom([]string{"group", "bvh"}).Draw(t, "op")
	maxN := 40
	n := 0
	switch {
	case c.Kind == "face" && c.Dim == 3:
		c.Tris = genTris3(t, p, 0, maxN)
		n = len(c.Tris)
	case c.Kind == "face":
		c.Segs = genSegs2(t, p, 0, maxN)
		n = len(c.Segs)
	default:
		n = drawN(t, 0, maxN, "nboxes")
		for i := 0; i < n; i++ {
			l := fmt.Sprintf("box%d", i)
			var b [6]float64
			if i > 0 && rapid.IntRange(0, 4).Draw(t, l+".dup") == 0 { // coincident bounds
				b = c.Boxes[rapid.IntRange(0, i-1).Draw(t, l+".src")]
			} else {
				for k := 0; k < 3; k++ {
					u, v := p.val(t, fmt.Sprintf("%s.a%d", l, k)), p.val(t, fmt.Sprintf("%s.b%d", l, k))
					if u > v {
						u, v = v, u
					}
					if rapid.IntRange(0, 3).Draw(t, fmt.Sprintf("%s.flat%d", l, k)) == 0 {
						v = u // flat along this axis (all three: a single point)
					}
					b[k], b[3+k] = u, v
				}
			}
			c.Boxes = append(c.Boxes, b)
		}
	}
	c.Ptr = genPtr(t, n)
	return c
}

// countLeaves walks a BVH, checking the documented node shape ("a leaf (a single Bounder), or a
// branch with two or more children") and collecting the leaves.
func walkBVH3[B model3d.Bounder](b *model3d.BVH[B], isNil func(B) bool, visit func(B), depth int) error {
	if b == nil {
		return fmt.Errorf("nil node in the hierarchy")
	}
	if depth > 10000 {
		return fmt.Errorf("hierarchy deeper than 10000 levels")
	}
	if !isNil(b.Leaf) {
		if len(b.Branch) != 0 {
			return fmt.Errorf("node is both a leaf and a branch")
		}
		visit(b.Leaf)
		return nil
	}
	if len(b.Branch) < 2 {
		return fmt.Errorf("branch node with %d children (documented: two or more)", len(b.Branch))
	}
	for _, k := range b.Branch {
		if err := walkBVH3(k, isNil, visit, depth+1); err != nil {
			return err
		}
	}
	return nil
}

func walkBVH2[B model2d.Bounder](b *model2d.BVH[B], isNil func(B) bool, visit func(B), depth int) error {
	if b == nil {
		return fmt.Errorf("nil node in the hierarchy")
	}
	if depth > 10000 {
		return fmt.Errorf("hierarchy deeper than 10000 levels")
	}
	if !isNil(b.Leaf) {
		if len(b.Branch) != 0 {
			return fmt.Errorf("node is both a leaf and a branch")
		}
		visit(b.Leaf)
		return nil
	}
	if len(b.Branch) < 2 {
		return fmt.Errorf("branch node with %d children (documented: two or more)", len(b.Branch))
	}
	for _, k := range b.Branch {
		if err := walkBVH2(k, isNil, visit, depth+1); err != nil {
			return err
		}
	}
	return nil
}

// permCheck runs the operation on a list of n pointer-like objects (identified by index through idOf)
// and compares pointer multisets.
func permReport(op string, want, got map[int]int, n int) error {
	for i := 0; i < n; i++ {
		if want[i] != got[i] {
			return fmt.Errorf("%s: object #%d occurs %d time(s) in the input and %d time(s) in the output", op, i, want[i], got[i])
		}
	}
	if got[-1] > 0 {
		return fmt.Errorf("%s: the output contains %d object(s) that are not in the input", op, got[-1])
	}
	return nil
}

func checkGroup(c groupCase, o *kit.Obs) error {
	o.Labelf("dim:%d", c.Dim)
	o.Label("kind:" + c.Kind)
	o.Label("op:" + c.Op)
	o.Label(nclass(len(c.Ptr)))
	want := map[int]int{}
	for _, i := range c.Ptr {
		want[i]++
	}
	if len(c.Ptr) >= 3 {
		o.NonTrivial()
	}
	op := c.Op
	if op == "bvh" && len(c.Ptr) == 0 {
		op = "group" // a BVH node is a leaf or a branch: there is no empty hierarchy
	}
	got := map[int]int{}
	switch {
	case c.Dim == 3 && c.Kind == "face":
		objs := make([]*model3d.Triangle, len(c.Tris))
		id := map[*model3d.Triangle]int{}
		for i, v := range c.Tris {
			if !finite(v[:]...) {
				return fmt.Errorf("%w: non-finite", kit.ErrInfra)
			}
			objs[i] = tri3(v)
			id[objs[i]] = i
		}
		list := make([]*model3d.Triangle, len(c.Ptr))
		for k, i := range c.Ptr {
			if i < 0 || i >= len(objs) {
				return fmt.Errorf("%w: index", kit.ErrInfra)
			}
			list[k] = objs[i]
		}
		look := func(t *model3d.Triangle) {
			if i, ok := id[t]; ok {
				got[i]++
			} else {
				got[-1]++
			}
		}
		if op == "group" {
			model3d.GroupTriangles(list)
			for _, t := range list {
				look(t)
			}
			// the values must be untouched as well
			for i, v := range c.Tris {
				if *objs[i] != *tri3(v) {
					return fmt.Errorf("GroupTriangles modified triangle #%d", i)
				}
			}
			return permReport("GroupTriangles", want, got, len(objs))
		}
		b := model3d.NewBVHAreaDensity(list)
		if err := walkBVH3(b, func(t *model3d.Triangle) bool { return t == nil }, look, 0); err != nil {
			return fmt.Errorf("NewBVHAreaDensity over %d triangles: %w", len(list), err)
		}
		return permReport("NewBVHAreaDensity", want, got, len(objs))
	case c.Dim == 2 && c.Kind == "face":
		objs := make([]*model2d.Segment, len(c.Segs))
		id := map[*model2d.Segment]int{}
		for i, v := range c.Segs {
			if !finite(v[:]...) {
				return fmt.Errorf("%w: non-finite", kit.ErrInfra)
			}
			objs[i] = seg2(v)
			id[objs[i]] = i
		}
		list := make([]*model2d.Segment, len(c.Ptr))
		for k, i := range c.Ptr {
			if i < 0 || i >= len(objs) {
				return fmt.Errorf("%w: index", kit.ErrInfra)
			}
			list[k] = objs[i]
		}
		look := func(t *model2d.Segment) {
			if i, ok := id[t]; ok {
				got[i]++
			} else {
				got[-1]++
			}
		}
		if op == "group" {
			model2d.GroupSegments(list)
			for _, t := range list {
				look(t)
			}
			for i, v := range c.Segs {
				if *objs[i] != *seg2(v) {
					return fmt.Errorf("GroupSegments modified segment #%d", i)
				}
			}
			return permReport("GroupSegments", want, got, len(objs))
		}
		b := model2d.NewBVHAreaDensity(list)
		if err := walkBVH2(b, func(t *model2d.Segment) bool { return t == nil }, look, 0); err != nil {
			return fmt.Errorf("NewBVHAreaDensity over %d segments: %w", len(list), err)
		}
		return permReport("NewBVHAreaDensity", want, got, len(objs))
	case c.Dim == 3:
		objs := make([]*model3d.Rect, len(c.Boxes))
		id := map[*model3d.Rect]int{}
		for i, v := range c.Boxes {
			if !finite(v[:]...) {
				return fmt.Errorf("%w: non-finite", kit.ErrInfra)
			}
			objs[i] = &model3d.Rect{MinVal: model3d.XYZ(v[0], v[1], v[2]), MaxVal: model3d.XYZ(v[3], v[4], v[5])}
			id[objs[i]] = i
		}
		list := make([]*model3d.Rect, len(c.Ptr))
		for k, i := range c.Ptr {
			if i < 0 || i >= len(objs) {
				return fmt.Errorf("%w: index", kit.ErrInfra)
			}
			list[k] = objs[i]
		}
		look := func(t *model3d.Rect) {
			if i, ok := id[t]; ok {
				got[i]++
			} else {
				got[-1]++
			}
		}
		if op == "group" {
			model3d.GroupBounders(list)
			for _, t := range list {
				look(t)
			}
			return permReport("GroupBounders", want, got, len(objs))
		}
		b := model3d.NewBVHAreaDensity(list)
		if err := walkBVH3(b, func(t *model3d.Rect) bool { return t == nil }, look, 0); err != nil {
			return fmt.Errorf("NewBVHAreaDensity over %d boxes: %w", len(list), err)
		}
		return permReport("NewBVHAreaDensity", want, got, len(objs))
	default:
		objs := make([]*model2d.Rect, len(c.Boxes))
		id := map[*model2d.Rect]int{}
		for i, v := range c.Boxes {
			if !finite(v[:]...) {
				return fmt.Errorf("%w: non-finite", kit.ErrInfra)
			}
			objs[i] = &model2d.Rect{MinVal: model2d.XY(v[0], v[1]), MaxVal: model2d.XY(v[3], v[4])}
			id[objs[i]] = i
		}
		list := make([]*model2d.Rect, len(c.Ptr))
		for k, i := range c.Ptr {
			if i < 0 || i >= len(objs) {
				return fmt.Errorf("%w: index", kit.ErrInfra)
			}
			list[k] = objs[i]
		}
		look := func(t *model2d.Rect) {
			if i, ok := id[t]; ok {
				got[i]++
			} else {
				got[-1]++
			}
		}
		if op == "group" {
			model2d.GroupBounders(list)
			for _, t := range list {
				look(t)
			}
			return permReport("GroupBounders", want, got, len(objs))
		}
		b := model2d.NewBVHAreaDensity(list)
		if err := walkBVH2(b, func(t *model2d.Rect) bool { return t == nil }, look, 0); err != nil {
			return fmt.Errorf("NewBVHAreaDensity over %d boxes: %w", len(list), err)
		}
		return permReport("NewBVHAreaDensity", want, got, len(objs))
	}
}
