// Package c08: spatial indexes return exactly the brute-force answer.
//
// Every clause builds an index through the public API (MeshToCollider, GroupedTriangles/
// SegmentsToCollider, BVHToCollider over NewBVHAreaDensity and over explicit trees,
// GroupedCollidersToCollider, NewJoinedCollider trees, MeshToSDF / Grouped*ToSDF, NewCoordTree,
// render3d.BVHToObject) and compares every query with a linear scan that uses the library's own
// per-object primitive on the very same objects, so only the hierarchy is under test.
//
// Oracle shape for pruned queries (see util_test.go): the index's answer must be the scan's answer
// restricted to some set S of objects with  MUST <= S <= ALL, where MUST are the objects whose own
// bounding box passes the query's box prefilter (geometrically; exactly on grid inputs, by a 1e-9
// relative margin otherwise).  Because a parent's box contains its children's boxes and rounding is
// monotone, an object in MUST may not be skipped by any correct hierarchy; an object outside MUST
// that its primitive nevertheless reports is "borderline" (rounding-level disagreement between the
// primitive and a box) and may legitimately go either way.  On grid inputs MUST == ALL in practice,
// i.e. the comparison is plain multiset equality.
package c08

import (
	"runtime"
	"testing"

	"verifharness/kit"
)

const rule = "object sets: 0..28 triangles/segments (0..60 points for k-d trees, 1..24 render objects) built from value duplicates, same-box variants, axis-aligned (flat-box) faces, faces sharing vertices, extent-spanning faces, repeated pointers; two thirds of the cases on a quarter-integer grid (all arithmetic of box tests exact: ties on faces/split planes are decided), one third generic floats with reused coordinates. Queries: rays with zero direction components, origins on box faces, aimed at vertices/edge midpoints (hits at scale 1/2, 1, 2 or behind), balls with radius equal to a vertex/face/box distance, segments, boxes (flat, face-touching), triangles; every index construction variant. Non-trivial: the query hits at least one object, or the hierarchy pruned (measured by counting wrappers around the leaves where the API admits wrappers; otherwise: at least one object's own box fails the prefilter and n >= 2); k-d tree and grouping cases: n >= 3 objects. Distinct: hash of the JSON case."

func TestProp(t *testing.T) {
	runtime.GOMAXPROCS(2)
	kit.Run(t, "C08", rule,
		kit.Clause[coll3Case]{Name: "C08/collider3d/queries-vs-scan", Quick: 40000, Thorough: 400000, Fresh: true, Gen: genColl3, Check: checkColl3},
		kit.Clause[degenCase]{Name: "C08/collider3d/segment-triangles", Quick: 8000, Thorough: 100000, Fresh: true, Gen: genDegen, Check: checkDegen},
		kit.Clause[coll2Case]{Name: "C08/collider2d/queries-vs-scan", Quick: 40000, Thorough: 400000, Fresh: true, Gen: genColl2, Check: checkColl2},
		kit.Clause[sdf3Case]{Name: "C08/sdf3d/distance-vs-scan", Quick: 20000, Thorough: 200000, Fresh: true, Gen: genSDF3, Check: checkSDF3},
		kit.Clause[sdf2Case]{Name: "C08/sdf2d/distance-vs-scan", Quick: 20000, Thorough: 200000, Fresh: true, Gen: genSDF2, Check: checkSDF2},
		kit.Clause[treeCase]{Name: "C08/coordtree3d/queries-vs-scan", Quick: 30000, Thorough: 300000, Fresh: true, Gen: genTree(3), Check: checkTree},
		kit.Clause[treeCase]{Name: "C08/coordtree2d/queries-vs-scan", Quick: 30000, Thorough: 300000, Fresh: true, Gen: genTree(2), Check: checkTree},
		kit.Clause[groupCase]{Name: "C08/grouping/permutation", Quick: 30000, Thorough: 300000, Fresh: true, Gen: genGroup, Check: checkGroup},
		kit.Clause[renderCase]{Name: "C08/render3d/cast-vs-scan", Quick: 25000, Thorough: 250000, Fresh: true, Gen: genRender, Check: checkRender},
	)
}
