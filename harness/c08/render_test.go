package c08

import (
	"fmt"
	"math"

	"github.com/unixpickle/model3d/model3d"
	"github.com/unixpickle/model3d/render3d"
	"pgregory.net/rapid"
	"verifharness/kit"
)

// render3d.BVHToObject(...).Cast against a scan over the objects (and against
// render3d.JoinedObject, the library's own linear scan).

type robj struct {
	Kind string     `json:"kind"` // tri | rect | sphere
	P    [9]float64 `json:"p"`    // tri: 3 vertices; rect: min, max; sphere: centre, radius
}

type renderCase struct {
	Objs  []robj       `json:"objs"`
	Ptr   []int        `json:"ptr"`
	Build string       `json:"build"` // area (NewBVHAreaDensity) | hand (explicit tree) | grouped (GroupBounders order, halved)
	Shape []int        `json:"shape,omitempty"`
	Rays  [][6]float64 `json:"rays"`
}

func genRender(t *rapid.T) renderCase {
	p := &pool{grid: rapid.IntRange(0, 2).Draw(t, "grid") > 0}
	var c renderCase
	n := drawN(t, 1, 24, "n")
	var tris [][9]float64
	for i := 0; i < n; i++ {
		l := fmt.Sprintf("obj%d", i)
		var ob robj
		if i > 0 && rapid.IntRange(0, 5).Draw(t, l+".dup") == 0 {
			ob = c.Objs[rapid.IntRange(0, i-1).Draw(t, l+".src")] // equal value, distinct object: coincident bounds
		} else {
			switch rapid.IntRange(0, 4).Draw(t, l+".kind") {
			case 0: // box, possibly flat
				ob.Kind = "rect"
				for k := 0; k < 3; k++ {
					u, v := p.val(t, fmt.Sprintf("%s.a%d", l, k)), p.val(t, fmt.Sprintf("%s.b%d", l, k))
					if u > v {
						u, v = v, u
					}
					ob.P[k], ob.P[3+k] = u, v
				}
			case 1:
				ob.Kind = "sphere"
				copy(ob.P[:3], p.vec(t, 3, l+".c"))
				if p.grid {
					ob.P[3] = float64(rapid.IntRange(1, 12).Draw(t, l+".r")) * gridQ
				} else {
					ob.P[3] = math.Exp(rapid.Float64Range(math.Log(0.05), math.Log(3)).Draw(t, l+".r"))
				}
			default:
				ob.Kind = "tri"
				ob.P = genTri3(t, p, tris, l)
			}
		}
		if ob.Kind == "tri" {
			tris = append(tris, ob.P)
		}
		c.Objs = append(c.Objs, ob)
	}
	c.Ptr = genPtr(t, n)
	c.Build = rapid.SampledFrom([]string{"area", "area", "hand", "grouped"}).Draw(t, "build")
	if c.Build == "hand" {
		c.Shape = rapid.SliceOfN(rapid.IntRange(0, 11), 0, 12).Draw(t, "shape")
	}
	nr := rapid.IntRange(1, 10).Draw(t, "nrays")
	for i := 0; i < nr; i++ {
		l := fmt.Sprintf("ray%d", i)
		var r [6]float64
		o := point3(t, p, tris, l+".o")
		copy(r[:3], o[:])
		if rapid.IntRange(0, 3).Draw(t, l+".aim") == 0 {
			// towards a corner / centre of some object's declared box
			ob := c.Objs[rapid.IntRange(0, n-1).Draw(t, l+".at")]
			mn, mx := robjBox(ob)
			for k := 0; k < 3; k++ {
				tg := []float64{mn[k], mx[k], (mn[k] + mx[k]) / 2}[rapid.IntRange(0, 2).Draw(t, fmt.Sprintf("%s.c%d", l, k))]
				r[3+k] = tg - o[k]
			}
			if r[3] == 0 && r[4] == 0 && r[5] == 0 {
				r[3] = 1
			}
		} else {
			copy(r[3:], p.dir(t, 3, l+".d"))
		}
		c.Rays = append(c.Rays, r)
	}
	return c
}

// robjBox is the generator's view of the box (targets only; the check uses the library's Min/Max).
func robjBox(o robj) (mn, mx []float64) {
	switch o.Kind {
	case "rect":
		return o.P[0:3], o.P[3:6]
	case "sphere":
		return []float64{o.P[0] - o.P[3], o.P[1] - o.P[3], o.P[2] - o.P[3]}, []float64{o.P[0] + o.P[3], o.P[1] + o.P[3], o.P[2] + o.P[3]}
	default:
		return triBox(o.P)
	}
}

type cntObj struct {
	render3d.Object
	n *int
}

func (c *cntObj) Cast(r *model3d.Ray) (model3d.RayCollision, render3d.Material, bool) {
	*c.n++
	return c.Object.Cast(r)
}

func halves(objs []render3d.Object) *model3d.BVH[render3d.Object] {
	if len(objs) == 1 {
		return &model3d.BVH[render3d.Object]{Leaf: objs[0]}
	}
	mid := len(objs) / 2
	return &model3d.BVH[render3d.Object]{Branch: []*model3d.BVH[render3d.Object]{halves(objs[:mid]), halves(objs[mid:])}}
}

func checkRender(c renderCase, o *kit.Obs) error {
	if len(c.Objs) == 0 || len(c.Ptr) == 0 {
		return fmt.Errorf("%w: a BVH has at least one leaf", kit.ErrInfra)
	}
	counter := new(int)
	base := make([]render3d.Object, len(c.Objs))
	mats := make([]render3d.Material, len(c.Objs))
	grid := true
	for i, ob := range c.Objs {
		if !finite(ob.P[:]...) {
			return fmt.Errorf("%w: non-finite", kit.ErrInfra)
		}
		var coll model3d.Collider
		switch ob.Kind {
		case "tri":
			if degenerate3(ob.P, true) {
				return fmt.Errorf("%w: zero-area triangle", kit.ErrInfra)
			}
			coll = tri3(ob.P)
			grid = grid && allOnGrid(ob.P[:])
		case "rect":
			for k := 0; k < 3; k++ {
				if ob.P[k] > ob.P[3+k] {
					return fmt.Errorf("%w: inverted box", kit.ErrInfra)
				}
			}
			coll = &model3d.Rect{MinVal: model3d.XYZ(ob.P[0], ob.P[1], ob.P[2]), MaxVal: model3d.XYZ(ob.P[3], ob.P[4], ob.P[5])}
			grid = grid && allOnGrid(ob.P[:6])
		case "sphere":
			if !(ob.P[3] > 0) {
				return fmt.Errorf("%w: sphere radius", kit.ErrInfra)
			}
			coll = &model3d.Sphere{Center: model3d.XYZ(ob.P[0], ob.P[1], ob.P[2]), Radius: ob.P[3]}
			grid = grid && allOnGrid(ob.P[:4])
		default:
			return fmt.Errorf("%w: unknown object kind", kit.ErrInfra)
		}
		mats[i] = &render3d.LambertMaterial{DiffuseColor: render3d.NewColor(float64(i))}
		base[i] = &cntObj{Object: &render3d.ColliderObject{Collider: coll, Material: mats[i]}, n: counter}
	}
	var objs []render3d.Object
	var ids []int
	for _, i := range c.Ptr {
		if i < 0 || i >= len(base) {
			return fmt.Errorf("%w: index", kit.ErrInfra)
		}
		objs = append(objs, base[i])
		ids = append(ids, i)
	}
	n := len(objs)
	var bvh *model3d.BVH[render3d.Object]
	switch c.Build {
	case "area":
		bvh = model3d.NewBVHAreaDensity(objs)
	case "hand":
		pos := 0
		bvh = bvhFromShape3(objs, shapeTree(0, n, c.Shape, &pos))
	case "grouped":
		l := append([]render3d.Object(nil), objs...)
		model3d.GroupBounders(l)
		bvh = halves(l)
	default:
		return fmt.Errorf("%w: unknown build", kit.ErrInfra)
	}
	index := render3d.BVHToObject(bvh)
	joined := render3d.JoinedObject(objs)
	o.Label("build:" + c.Build)
	o.Label(nclass(n))

	for ri, r := range c.Rays {
		if !finite(r[:]...) || (r[3] == 0 && r[4] == 0 && r[5] == 0) {
			return fmt.Errorf("%w: bad ray", kit.ErrInfra)
		}
		strict := grid && allOnGrid(r[:])
		ray := &model3d.Ray{Origin: model3d.XYZ(r[0], r[1], r[2]), Direction: model3d.XYZ(r[3], r[4], r[5])}
		// scan
		minAll, minMust := math.Inf(1), math.Inf(1)
		type h struct {
			scale float64
			id    int
		}
		var hits []h
		prunable, borderline := 0, 0
		for k, ob := range objs {
			pass := slabMust(r[:3], r[3:], arr3(ob.Min()), arr3(ob.Max()), math.Inf(1), strict)
			if !pass {
				prunable++
			}
			rc, _, ok := ob.Cast(ray)
			if !ok {
				continue
			}
			if math.IsNaN(rc.Scale) {
				return fmt.Errorf("%w: leaf primitive returned a NaN scale", kit.ErrInfra)
			}
			hits = append(hits, h{rc.Scale, ids[k]})
			minAll = math.Min(minAll, rc.Scale)
			if pass {
				minMust = math.Min(minMust, rc.Scale)
			} else {
				borderline++
			}
		}
		// the library's linear scan must be the plain minimum
		jc, jm, jf := joined.Cast(ray)
		if jf != (len(hits) > 0) || (jf && jc.Scale != minAll) {
			return fmt.Errorf("ray %d %v: JoinedObject.Cast = (found %v, scale %v), the scan over the %d objects has %d hits with minimum scale %v", ri, r, jf, jc.Scale, n, len(hits), minAll)
		}
		matOK := func(m render3d.Material, scale float64) bool {
			for _, x := range hits {
				if x.scale == scale && mats[x.id] == m {
					return true
				}
			}
			return false
		}
		if jf && !matOK(jm, jc.Scale) {
			return fmt.Errorf("ray %d %v: JoinedObject.Cast returns a material that does not belong to an object hit at scale %v", ri, r, jc.Scale)
		}
		*counter = 0
		ic, im, found := index.Cast(ray)
		evals := *counter
		if !found {
			if !math.IsInf(minMust, 1) {
				return fmt.Errorf("ray %d %v (build %s, %d objects, strict=%v): BVHToObject(...).Cast finds nothing, the scan's nearest hit is at scale %v", ri, r, c.Build, n, strict, minMust)
			}
		} else {
			if ic.Scale < minAll || ic.Scale > minMust {
				return fmt.Errorf("ray %d %v (build %s, %d objects, strict=%v): BVHToObject(...).Cast has scale %v, the scan's nearest hit is at scale %v (%d hits)", ri, r, c.Build, n, strict, ic.Scale, minMust, len(hits))
			}
			if !matOK(im, ic.Scale) {
				return fmt.Errorf("ray %d %v: BVHToObject(...).Cast reports scale %v with a material of an object that the scan does not hit at that scale", ri, r, ic.Scale)
			}
		}
		if strict {
			o.Label("ray:strict")
		} else {
			o.Label("ray:generic")
		}
		if len(hits) > 0 {
			o.Label("ray:hit")
			o.NonTrivial()
		} else {
			o.Label("ray:miss")
		}
		if borderline > 0 {
			if strict {
				o.Label("ray:borderline-leaf:strict")
			} else {
				o.Label("ray:borderline-leaf:generic")
			}
			if !found || ic.Scale > minAll {
				o.Label("ray:borderline-hit-skipped-by-index")
			}
		}
		if evals < n {
			o.Label("ray:pruned(measured)")
			o.NonTrivial()
		}
		_ = prunable
	}
	return nil
}

var _ = rapid.Bool
