package c08

import (
	"fmt"
	"math"

	"github.com/unixpickle/model3d/model2d"
	"github.com/unixpickle/model3d/model3d"
	"pgregory.net/rapid"
	"verifharness/kit"
)

// Mesh distance fields against a scan over the faces.
//
// What is exact and what is not (from reading sdf.go: meshDistFunc.Dist):
//   * a leaf evaluates  cp := face.Closest(c); dist := cp.Dist(c)  and the result is the minimum of
//     these floats over the leaves that were visited.  So the index's distance is the same expression
//     as the scan's for some face, hence  index >= scan  holds EXACTLY (bit for bit), the returned
//     point is exactly face.Closest(c) and the distance exactly point.Dist(c) for the returned face.
//   * a subtree is skipped when its squared box distance exceeds the squared running distance.  The box
//     distance and the face distance are different expressions: a face whose computed distance is an
//     ulp BELOW the computed distance of its own box can be skipped although the scan would prefer it.
//     The index may therefore exceed the scan by the rounding error of the face primitive, no more:
//     index <= scan + tol with tol = 1e-12*scale + 2*max_i |lib_i - ref_i| (ref = the kit's
//     Ericson point-triangle distance, so an ill-conditioned primitive widens its own tolerance).
//   * the sign is the parity of a fixed-direction ray through the grouped collider: compared with the
//     same library function over a linear-scan collider, skipped when a hit is borderline for a box.

type sdf3Case struct {
	Tris  [][9]float64 `json:"tris"`
	Ptr   []int        `json:"ptr"`
	Build string       `json:"build"` // mesh | grouped | ungrouped
	Pts   [][3]float64 `json:"pts"`
	// UnitLog2: triangles and query points in units of 2^UnitLog2 (an exact rescaling)
	UnitLog2 int `json:"unit_log2,omitempty"`
}

func genSDF3(t *rapid.T) sdf3Case {
	p := &pool{grid: rapid.IntRange(0, 2).Draw(t, "grid") > 0}
	var c sdf3Case
	c.Tris = genTris3(t, p, 1, 28)
	c.Ptr = genPtr(t, len(c.Tris))
	c.Build = rapid.SampledFrom([]string{"mesh", "grouped", "ungrouped"}).Draw(t, "build")
	np := rapid.IntRange(1, 12).Draw(t, "npts")
	for i := 0; i < np; i++ {
		c.Pts = append(c.Pts, point3(t, p, c.Tris, fmt.Sprintf("p%d", i)))
	}
	if rapid.IntRange(0, 2).Draw(t, "rescaled") == 0 {
		c.UnitLog2 = rapid.SampledFrom([]int{-50, -40, -30, -20, 20, 40}).Draw(t, "unit_log2")
	}
	return c
}

// scanColl3 is a Collider that scans its triangles (library primitives, no hierarchy).
type scanColl3 struct {
	tris      []*model3d.Triangle
	boxMin    [][]float64
	boxMax    [][]float64
	mn, mx    model3d.Coord3D
	ambiguous bool // a hit whose own bounding box passes the prefilter only within the margin
}

func (s *scanColl3) Min() model3d.Coord3D { return s.mn }
func (s *scanColl3) Max() model3d.Coord3D { return s.mx }
func (s *scanColl3) RayCollisions(r *model3d.Ray, f func(model3d.RayCollision)) int {
	n := 0
	for i, t := range s.tris {
		k := t.RayCollisions(r, f)
		if k > 0 && !slabMust(arr3(r.Origin), arr3(r.Direction), s.boxMin[i], s.boxMax[i], math.Inf(1), false) {
			s.ambiguous = true
		}
		n += k
	}
	return n
}
func (s *scanColl3) FirstRayCollision(r *model3d.Ray) (model3d.RayCollision, bool) {
	var best model3d.RayCollision
	found := false
	for _, t := range s.tris {
		if rc, ok := t.FirstRayCollision(r); ok && (!found || rc.Scale < best.Scale) {
			best, found = rc, true
		}
	}
	return best, found
}
func (s *scanColl3) SphereCollision(c model3d.Coord3D, r float64) bool {
	for _, t := range s.tris {
		if t.SphereCollision(c, r) {
			return true
		}
	}
	return false
}

func checkSDF3(c sdf3Case, o *kit.Obs) error {
	if len(c.Tris) == 0 || len(c.Ptr) == 0 {
		return fmt.Errorf("%w: empty SDF (documented panic)", kit.ErrInfra)
	}
	tris := make([]*model3d.Triangle, len(c.Tris))
	ptrIdx := map[*model3d.Triangle]int{}
	scale := 1.0
	if c.UnitLog2 != 0 {
		scale = math.Ldexp(1, c.UnitLog2)
		ts := make([][9]float64, len(c.Tris))
		for i, v := range c.Tris {
			for j := range v {
				ts[i][j] = math.Ldexp(v[j], c.UnitLog2)
			}
		}
		ps := make([][3]float64, len(c.Pts))
		for i, v := range c.Pts {
			for j := range v {
				ps[i][j] = math.Ldexp(v[j], c.UnitLog2)
			}
		}
		c.Tris, c.Pts = ts, ps
		o.Label("rescaled")
	}
	for i, v := range c.Tris {
		if !finite(v[:]...) || degenerate3(v, true) {
			return fmt.Errorf("%w: unusable triangle", kit.ErrInfra)
		}
		tris[i] = tri3(v)
		ptrIdx[tris[i]] = i
		for _, x := range v {
			scale = math.Max(scale, math.Abs(x))
		}
	}
	var objs []int
	for _, i := range c.Ptr {
		if i < 0 || i >= len(tris) {
			return fmt.Errorf("%w: object index out of range", kit.ErrInfra)
		}
		objs = append(objs, i)
	}
	list := func() []*model3d.Triangle {
		out := make([]*model3d.Triangle, len(objs))
		for k, i := range objs {
			out[k] = tris[i]
		}
		return out
	}
	var sdf model3d.FaceSDF
	switch c.Build {
	case "mesh":
		// a mesh is a set of face pointers: repeated pointers collapse
		m := model3d.NewMesh()
		seen := map[int]bool{}
		var uniq []int
		for _, i := range objs {
			if !seen[i] {
				seen[i] = true
				uniq = append(uniq, i)
			}
			m.Add(tris[i])
		}
		objs = uniq
		sdf = model3d.MeshToSDF(m)
	case "grouped":
		l := list()
		model3d.GroupTriangles(l)
		sdf = model3d.GroupedTrianglesToSDF(l)
	case "ungrouped":
		sdf = model3d.GroupedTrianglesToSDF(list())
	default:
		return fmt.Errorf("%w: unknown build", kit.ErrInfra)
	}
	o.Label("build:" + c.Build)
	o.Label(nclass(len(objs)))

	sc := &scanColl3{}
	for _, i := range objs {
		mn, mx := triBox(c.Tris[i])
		sc.tris = append(sc.tris, tris[i])
		sc.boxMin, sc.boxMax = append(sc.boxMin, mn), append(sc.boxMax, mx)
		if len(sc.tris) == 1 {
			sc.mn, sc.mx = tris[i].Min(), tris[i].Max()
		} else {
			sc.mn, sc.mx = sc.mn.Min(tris[i].Min()), sc.mx.Max(tris[i].Max())
		}
	}
	if sdf.Min() != sc.mn || sdf.Max() != sc.mx {
		return fmt.Errorf("SDF bounds %v..%v differ from the union of the faces' bounds %v..%v", sdf.Min(), sdf.Max(), sc.mn, sc.mx)
	}
	scanSolid := model3d.NewColliderSolid(sc)

	for pi, pt := range c.Pts {
		if !finite(pt[:]...) {
			return fmt.Errorf("%w: non-finite point", kit.ErrInfra)
		}
		p := xyz(pt)
		qscale := math.Max(scale, math.Max(math.Abs(pt[0]), math.Max(math.Abs(pt[1]), math.Abs(pt[2]))))
		// scan
		best, primErr := math.Inf(1), 0.0
		farBoxes := 0
		var dists []float64
		for k, i := range objs {
			d := tris[i].Closest(p).Dist(p)
			dists = append(dists, d)
			if d < best {
				best = d
			}
			v := c.Tris[i]
			ref, _ := kit.PointTriDist(kit.V3(pt), kit.Tri{{v[0], v[1], v[2]}, {v[3], v[4], v[5]}, {v[6], v[7], v[8]}})
			primErr = math.Max(primErr, math.Abs(d-ref))
			_ = k
		}
		for k := range objs {
			if boxDist2(pt[:], sc.boxMin[k], sc.boxMax[k]) > best*best*(1+1e-9) {
				farBoxes++
			}
		}
		if math.IsNaN(best) || math.IsInf(best, 0) {
			return fmt.Errorf("%w: the face primitive returns a non-finite distance", kit.ErrInfra)
		}
		tol := 1e-12*qscale + 2*primErr

		s := sdf.SDF(p)
		pp, ps := sdf.PointSDF(p)
		face, fp, fs := sdf.FaceSDF(p)
		nrm, ns := sdf.NormalSDF(p)
		if math.Abs(s) != math.Abs(ps) || math.Abs(s) != math.Abs(fs) || math.Abs(s) != math.Abs(ns) ||
			math.Signbit(s) != math.Signbit(ps) || math.Signbit(s) != math.Signbit(fs) || math.Signbit(s) != math.Signbit(ns) {
			return fmt.Errorf("point %d %v: SDF %v, PointSDF %v, FaceSDF %v, NormalSDF %v disagree", pi, pt, s, ps, fs, ns)
		}
		d := math.Abs(s)
		if d < best {
			return fmt.Errorf("point %d %v: |SDF| = %v is smaller than the minimum %v of Closest(c).Dist(c) over the %d faces", pi, pt, d, best, len(objs))
		}
		if d > best+tol {
			return fmt.Errorf("point %d %v: |SDF| = %v but the scan over the %d faces finds distance %v (difference %g, tolerance %g)", pi, pt, d, len(objs), best, d-best, tol)
		}
		if face == nil {
			return fmt.Errorf("point %d %v: FaceSDF returned a nil face", pi, pt)
		}
		fi, ok := ptrIdx[face]
		if !ok {
			return fmt.Errorf("point %d %v: FaceSDF returned a face %v that is not in the mesh", pi, pt, *face)
		}
		if cp := face.Closest(p); bits(arr3(cp)...) != bits(arr3(fp)...) || bits(arr3(pp)...) != bits(arr3(fp)...) {
			return fmt.Errorf("point %d %v: nearest point %v (PointSDF %v) is not Closest() = %v of the returned face #%d", pi, pt, fp, pp, cp, fi)
		}
		if fd := fp.Dist(p); fd != d {
			return fmt.Errorf("point %d %v: |SDF| = %v but the returned point %v is at distance %v", pi, pt, d, fp, fd)
		}
		if fn := face.Normal(); bits(arr3(fn)...) != bits(arr3(nrm)...) {
			return fmt.Errorf("point %d %v: NormalSDF normal %v is not the normal %v of the returned face", pi, pt, nrm, fn)
		}
		// sign
		sc.ambiguous = false
		want := scanSolid.Contains(p)
		if sc.ambiguous {
			o.Skip("sign: containment ray has a borderline hit")
		} else if got := !math.Signbit(s); got != want {
			return fmt.Errorf("point %d %v: SDF %v has the sign of contained=%v, the ray parity over a scan of the faces says contained=%v", pi, pt, s, got, want)
		}
		if farBoxes > 0 && len(objs) >= 2 {
			o.NonTrivial()
			o.Label("point:prunable")
		}
		if d == best {
			o.Label("point:exact")
		} else {
			o.Label("point:within-tolerance")
		}
		if primErr > 1e-9 {
			o.Label("point:primitive-inexact")
		}
		ties := 0
		for _, x := range dists {
			if x == best {
				ties++
			}
		}
		if ties > 1 {
			o.Label("point:tie")
		}
	}
	return nil
}

// ---------------------------------------------------------------------------
// 2D

type sdf2Case struct {
	Segs  [][4]float64 `json:"segs"`
	Ptr   []int        `json:"ptr"`
	Build string       `json:"build"`
	Pts   [][2]float64 `json:"pts"`
}

func genSDF2(t *rapid.T) sdf2Case {
	p := &pool{grid: rapid.IntRange(0, 2).Draw(t, "grid") > 0}
	var c sdf2Case
	c.Segs = genSegs2(t, p, 1, 28)
	c.Ptr = genPtr(t, len(c.Segs))
	c.Build = rapid.SampledFrom([]string{"mesh", "grouped", "ungrouped"}).Draw(t, "build")
	np := rapid.IntRange(1, 12).Draw(t, "npts")
	for i := 0; i < np; i++ {
		c.Pts = append(c.Pts, point2(t, p, c.Segs, fmt.Sprintf("p%d", i)))
	}
	return c
}

type scanColl2 struct {
	segs      []*model2d.Segment
	boxMin    [][]float64
	boxMax    [][]float64
	mn, mx    model2d.Coord
	ambiguous bool
}

func (s *scanColl2) Min() model2d.Coord { return s.mn }
func (s *scanColl2) Max() model2d.Coord { return s.mx }
func (s *scanColl2) RayCollisions(r *model2d.Ray, f func(model2d.RayCollision)) int {
	n := 0
	for i, t := range s.segs {
		k := t.RayCollisions(r, f)
		if k > 0 && !slabMust(arr2(r.Origin), arr2(r.Direction), s.boxMin[i], s.boxMax[i], math.Inf(1), false) {
			s.ambiguous = true
		}
		n += k
	}
	return n
}
func (s *scanColl2) FirstRayCollision(r *model2d.Ray) (model2d.RayCollision, bool) {
	var best model2d.RayCollision
	found := false
	for _, t := range s.segs {
		if rc, ok := t.FirstRayCollision(r); ok && (!found || rc.Scale < best.Scale) {
			best, found = rc, true
		}
	}
	return best, found
}
func (s *scanColl2) CircleCollision(c model2d.Coord, r float64) bool {
	for _, t := range s.segs {
		if t.CircleCollision(c, r) {
			return true
		}
	}
	return false
}

func checkSDF2(c sdf2Case, o *kit.Obs) error {
	if len(c.Segs) == 0 || len(c.Ptr) == 0 {
		return fmt.Errorf("%w: empty SDF (documented panic)", kit.ErrInfra)
	}
	segs := make([]*model2d.Segment, len(c.Segs))
	ptrIdx := map[*model2d.Segment]int{}
	scale := 1.0
	for i, v := range c.Segs {
		if !finite(v[:]...) || degenerate2(v, true) {
			return fmt.Errorf("%w: unusable segment", kit.ErrInfra)
		}
		segs[i] = seg2(v)
		ptrIdx[segs[i]] = i
		for _, x := range v {
			scale = math.Max(scale, math.Abs(x))
		}
	}
	var objs []int
	for _, i := range c.Ptr {
		if i < 0 || i >= len(segs) {
			return fmt.Errorf("%w: object index out of range", kit.ErrInfra)
		}
		objs = append(objs, i)
	}
	list := func() []*model2d.Segment {
		out := make([]*model2d.Segment, len(objs))
		for k, i := range objs {
			out[k] = segs[i]
		}
		return out
	}
	var sdf model2d.FaceSDF
	switch c.Build {
	case "mesh":
		m := model2d.NewMesh()
		seen := map[int]bool{}
		var uniq []int
		for _, i := range objs {
			if !seen[i] {
				seen[i] = true
				uniq = append(uniq, i)
			}
			m.Add(segs[i])
		}
		objs = uniq
		sdf = model2d.MeshToSDF(m)
	case "grouped":
		l := list()
		model2d.GroupSegments(l)
		sdf = model2d.GroupedSegmentsToSDF(l)
	case "ungrouped":
		sdf = model2d.GroupedSegmentsToSDF(list())
	default:
		return fmt.Errorf("%w: unknown build", kit.ErrInfra)
	}
	o.Label("build:" + c.Build)
	o.Label(nclass(len(objs)))

	sc := &scanColl2{}
	for _, i := range objs {
		mn, mx := segBox(c.Segs[i])
		sc.segs = append(sc.segs, segs[i])
		sc.boxMin, sc.boxMax = append(sc.boxMin, mn), append(sc.boxMax, mx)
		if len(sc.segs) == 1 {
			sc.mn, sc.mx = segs[i].Min(), segs[i].Max()
		} else {
			sc.mn, sc.mx = sc.mn.Min(segs[i].Min()), sc.mx.Max(segs[i].Max())
		}
	}
	if sdf.Min() != sc.mn || sdf.Max() != sc.mx {
		return fmt.Errorf("SDF bounds %v..%v differ from the union of the faces' bounds %v..%v", sdf.Min(), sdf.Max(), sc.mn, sc.mx)
	}
	scanSolid := model2d.NewColliderSolid(sc)

	for pi, pt := range c.Pts {
		if !finite(pt[:]...) {
			return fmt.Errorf("%w: non-finite point", kit.ErrInfra)
		}
		p := xy(pt)
		qscale := math.Max(scale, math.Max(math.Abs(pt[0]), math.Abs(pt[1])))
		best, primErr := math.Inf(1), 0.0
		var dists []float64
		for _, i := range objs {
			d := segs[i].Closest(p).Dist(p)
			dists = append(dists, d)
			if d < best {
				best = d
			}
			v := c.Segs[i]
			ref, _ := kit.PointSegDist2(kit.V2(pt), kit.V2{v[0], v[1]}, kit.V2{v[2], v[3]})
			primErr = math.Max(primErr, math.Abs(d-ref))
		}
		farBoxes := 0
		for k := range objs {
			if boxDist2(pt[:], sc.boxMin[k], sc.boxMax[k]) > best*best*(1+1e-9) {
				farBoxes++
			}
		}
		if math.IsNaN(best) || math.IsInf(best, 0) {
			return fmt.Errorf("%w: the face primitive returns a non-finite distance", kit.ErrInfra)
		}
		tol := 1e-12*qscale + 2*primErr

		s := sdf.SDF(p)
		pp, ps := sdf.PointSDF(p)
		face, fp, fs := sdf.FaceSDF(p)
		nrm, ns := sdf.NormalSDF(p)
		if math.Abs(s) != math.Abs(ps) || math.Abs(s) != math.Abs(fs) || math.Abs(s) != math.Abs(ns) ||
			math.Signbit(s) != math.Signbit(ps) || math.Signbit(s) != math.Signbit(fs) || math.Signbit(s) != math.Signbit(ns) {
			return fmt.Errorf("point %d %v: SDF %v, PointSDF %v, FaceSDF %v, NormalSDF %v disagree", pi, pt, s, ps, fs, ns)
		}
		d := math.Abs(s)
		if d < best {
			return fmt.Errorf("point %d %v: |SDF| = %v is smaller than the minimum %v of Closest(c).Dist(c) over the %d faces", pi, pt, d, best, len(objs))
		}
		if d > best+tol {
			return fmt.Errorf("point %d %v: |SDF| = %v but the scan over the %d faces finds distance %v (difference %g, tolerance %g)", pi, pt, d, len(objs), best, d-best, tol)
		}
		if face == nil {
			return fmt.Errorf("point %d %v: FaceSDF returned a nil face", pi, pt)
		}
		fi, ok := ptrIdx[face]
		if !ok {
			return fmt.Errorf("point %d %v: FaceSDF returned a face %v that is not in the mesh", pi, pt, *face)
		}
		if cp := face.Closest(p); bits(arr2(cp)...) != bits(arr2(fp)...) || bits(arr2(pp)...) != bits(arr2(fp)...) {
			return fmt.Errorf("point %d %v: nearest point %v (PointSDF %v) is not Closest() = %v of the returned face #%d", pi, pt, fp, pp, cp, fi)
		}
		if fd := fp.Dist(p); fd != d {
			return fmt.Errorf("point %d %v: |SDF| = %v but the returned point %v is at distance %v", pi, pt, d, fp, fd)
		}
		if fn := face.Normal(); bits(arr2(fn)...) != bits(arr2(nrm)...) {
			return fmt.Errorf("point %d %v: NormalSDF normal %v is not the normal %v of the returned face", pi, pt, nrm, fn)
		}
		sc.ambiguous = false
		want := scanSolid.Contains(p)
		if sc.ambiguous {
			o.Skip("sign: containment ray has a borderline hit")
		} else if got := !math.Signbit(s); got != want {
			return fmt.Errorf("point %d %v: SDF %v has the sign of contained=%v, the ray parity over a scan of the faces says contained=%v", pi, pt, s, got, want)
		}
		if farBoxes > 0 && len(objs) >= 2 {
			o.NonTrivial()
			o.Label("point:prunable")
		}
		if d == best {
			o.Label("point:exact")
		} else {
			o.Label("point:within-tolerance")
		}
		if primErr > 1e-9 {
			o.Label("point:primitive-inexact")
		}
		ties := 0
		for _, x := range dists {
			if x == best {
				ties++
			}
		}
		if ties > 1 {
			o.Label("point:tie")
		}
	}
	return nil
}
