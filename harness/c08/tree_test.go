package c08

import (
	"fmt"
	"math"
	"reflect"
	"sort"

	"github.com/unixpickle/model3d/model2d"
	"github.com/unixpickle/model3d/model3d"
	"pgregory.net/rapid"
	"verifharness/gen"
	"verifharness/kit"
)

// k-d trees over points against a scan.  Every comparison is exact: the tree and the
// scan evaluate the same expression p.SquaredDist(q) per point, and a half space is only
// skipped when the squared plane distance — a lower bound of every such sum in any
// monotone float evaluation — cannot beat the running bound.  Ties (equal distances)
// make several points legitimate, so distances are compared, never identities.

type treeQuery struct {
	P [3]float64 `json:"p"`
	K int        `json:"k"`
	R float64    `json:"r"`
}

type treeCase struct {
	Dim int          `json:"dim"` // 2 or 3 (the third coordinate is ignored in 2D)
	Pts [][3]float64 `json:"pts"`
	Q   []treeQuery  `json:"q"`
	// UnitLog2: points, query points and radii are in units of 2^UnitLog2 (exact: every comparison of distances
	// keeps its outcome)
	UnitLog2 int `json:"unit_log2,omitempty"`
}

func genTree(dim int) func(t *rapid.T) treeCase {
	return func(t *rapid.T) treeCase {
		c := treeCase{Dim: dim}
		mode := rapid.IntRange(0, 3).Draw(t, "mode") // 0: tiny integer grid, 1: grid, 2: generic with shared coordinates, 3: generic
		n := drawN(t, 0, 60, "n")
		var used []float64
		val := func(label string) float64 {
			var v float64
			switch mode {
			case 0:
				v = float64(rapid.IntRange(0, 2).Draw(t, label))
			case 1:
				v = float64(rapid.IntRange(-4, 4).Draw(t, label))
				if rapid.IntRange(0, 3).Draw(t, label+".half") == 0 {
					v += 0.5
				}
			case 2:
				if len(used) > 0 && rapid.IntRange(0, 1).Draw(t, label+".reuse") == 0 {
					v = used[rapid.IntRange(0, len(used)-1).Draw(t, label+".idx")]
				} else {
					v = gen.F(t, -4, 4, label)
				}
			default:
				v = gen.F(t, -4, 4, label)
			}
			if len(used) < 32 {
				used = append(used, v)
			}
			return v
		}
		point := func(label string) [3]float64 {
			var p [3]float64
			for k := 0; k < dim; k++ {
				p[k] = val(fmt.Sprintf("%s.%d", label, k))
			}
			return p
		}
		for i := 0; i < n; i++ {
			if i > 0 && rapid.IntRange(0, 5).Draw(t, fmt.Sprintf("dup%d", i)) == 0 {
				c.Pts = append(c.Pts, c.Pts[rapid.IntRange(0, i-1).Draw(t, fmt.Sprintf("dupsrc%d", i))])
				continue
			}
			c.Pts = append(c.Pts, point(fmt.Sprintf("pt%d", i)))
		}
		nq := rapid.IntRange(1, 10).Draw(t, "nq")
		for i := 0; i < nq; i++ {
			l := fmt.Sprintf("q%d", i)
			var q treeQuery
			switch rapid.IntRange(0, 3).Draw(t, l+".pmode") {
			case 0:
				if n > 0 {
					q.P = c.Pts[rapid.IntRange(0, n-1).Draw(t, l+".member")]
					break
				}
				fallthrough
			case 1: // between the points: mid value of two used coordinates per axis (equidistant ties)
				q.P = point(l + ".a")
				o := point(l + ".b")
				for k := 0; k < dim; k++ {
					q.P[k] = (q.P[k] + o[k]) / 2
				}
			default:
				q.P = point(l + ".p")
			}
			q.K = rapid.IntRange(0, n+2).Draw(t, l+".k")
			if rapid.IntRange(0, 2).Draw(t, l+".ksmall") == 0 {
				q.K = rapid.IntRange(0, 3).Draw(t, l+".k2")
			}
			switch rm := rapid.IntRange(0, 4).Draw(t, l+".rmode"); {
			case rm <= 1 && n > 0: // radius = distance to one of the points (exact when the squared distance is a perfect square)
				o := c.Pts[rapid.IntRange(0, n-1).Draw(t, l+".rpt")]
				s := 0.0
				for k := 0; k < dim; k++ {
					s += (q.P[k] - o[k]) * (q.P[k] - o[k])
				}
				q.R = math.Sqrt(s)
			case rm == 2:
				q.R = float64(rapid.IntRange(0, 12).Draw(t, l+".rint")) / 2
			case rm == 3 && n > 0: // radius = distance to a split plane candidate (a coordinate difference)
				o := c.Pts[rapid.IntRange(0, n-1).Draw(t, l+".rpl")]
				q.R = math.Abs(q.P[rapid.IntRange(0, dim-1).Draw(t, l+".rax")] - o[rapid.IntRange(0, dim-1).Draw(t, l+".rax2")])
			default:
				q.R = gen.F(t, 0, 6, l+".r")
			}
			c.Q = append(c.Q, q)
		}
		if rapid.IntRange(0, 2).Draw(t, "rescaled") == 0 {
			c.UnitLog2 = rapid.SampledFrom([]int{-60, -40, -30, -20, 20, 40}).Draw(t, "unit_log2")
		}
		return c
	}
}

// tree abstracts the two packages for the check.
type tree interface {
	empty() bool
	leaf() bool
	contains(p [3]float64) bool
	nearest(p [3]float64) [3]float64
	dist(p [3]float64) float64
	knn(k int, p [3]float64) [][3]float64
	knnKept(k int, p [3]float64) func() [][3]float64 // the library's slice is kept; the reader converts it when asked
	ball(p [3]float64, r float64) bool
	slice() [][3]float64
	sq(p, q [3]float64) float64 // the library's own SquaredDist
	d(p, q [3]float64) float64  // the library's own Dist (q.Dist(p))
}

type tree3 struct{ t *model3d.CoordTree }

func (t tree3) empty() bool                { return t.t.Empty() }
func (t tree3) leaf() bool                 { return t.t.Leaf() }
func (t tree3) contains(p [3]float64) bool { return t.t.Contains(xyz(p)) }
func (t tree3) nearest(p [3]float64) [3]float64 {
	c := t.t.NearestNeighbor(xyz(p))
	return [3]float64{c.X, c.Y, c.Z}
}
func (t tree3) dist(p [3]float64) float64 { return t.t.Dist(xyz(p)) }
func (t tree3) knn(k int, p [3]float64) [][3]float64 {
	var out [][3]float64
	for _, c := range t.t.KNN(k, xyz(p)) {
		out = append(out, [3]float64{c.X, c.Y, c.Z})
	}
	return out
}
func (t tree3) knnKept(k int, p [3]float64) func() [][3]float64 {
	res := t.t.KNN(k, xyz(p))
	return func() [][3]float64 {
		var out [][3]float64
		for _, c := range res {
			out = append(out, [3]float64{c.X, c.Y, c.Z})
		}
		return out
	}
}
func (t tree3) ball(p [3]float64, r float64) bool { return t.t.SphereCollision(xyz(p), r) }
func (t tree3) slice() [][3]float64 {
	var out [][3]float64
	for _, c := range t.t.Slice() {
		out = append(out, [3]float64{c.X, c.Y, c.Z})
	}
	return out
}
func (t tree3) sq(p, q [3]float64) float64 { return xyz(p).SquaredDist(xyz(q)) }
func (t tree3) d(p, q [3]float64) float64  { return xyz(q).Dist(xyz(p)) }

type tree2 struct{ t *model2d.CoordTree }

func c2(p [3]float64) model2d.Coord { return model2d.XY(p[0], p[1]) }

func (t tree2) empty() bool                { return t.t.Empty() }
func (t tree2) leaf() bool                 { return t.t.Leaf() }
func (t tree2) contains(p [3]float64) bool { return t.t.Contains(c2(p)) }
func (t tree2) nearest(p [3]float64) [3]float64 {
	c := t.t.NearestNeighbor(c2(p))
	return [3]float64{c.X, c.Y, 0}
}
func (t tree2) dist(p [3]float64) float64 { return t.t.Dist(c2(p)) }
func (t tree2) knn(k int, p [3]float64) [][3]float64 {
	var out [][3]float64
	for _, c := range t.t.KNN(k, c2(p)) {
		out = append(out, [3]float64{c.X, c.Y, 0})
	}
	return out
}
func (t tree2) knnKept(k int, p [3]float64) func() [][3]float64 {
	res := t.t.KNN(k, c2(p))
	return func() [][3]float64 {
		var out [][3]float64
		for _, c := range res {
			out = append(out, [3]float64{c.X, c.Y, 0})
		}
		return out
	}
}
func (t tree2) ball(p [3]float64, r float64) bool { return t.t.SphereCollision(c2(p), r) }
func (t tree2) slice() [][3]float64 {
	var out [][3]float64
	for _, c := range t.t.Slice() {
		out = append(out, [3]float64{c.X, c.Y, 0})
	}
	return out
}
func (t tree2) sq(p, q [3]float64) float64 { return c2(p).SquaredDist(c2(q)) }
func (t tree2) d(p, q [3]float64) float64  { return c2(q).Dist(c2(p)) }

func checkTree(c treeCase, o *kit.Obs) error {
	if c.Dim != 2 && c.Dim != 3 {
		return fmt.Errorf("%w: dim %d", kit.ErrInfra, c.Dim)
	}
	if c.UnitLog2 != 0 {
		sc := func(p [3]float64) [3]float64 {
			return [3]float64{math.Ldexp(p[0], c.UnitLog2), math.Ldexp(p[1], c.UnitLog2), math.Ldexp(p[2], c.UnitLog2)}
		}
		ps := make([][3]float64, len(c.Pts))
		for i, p := range c.Pts {
			ps[i] = sc(p)
		}
		qs := make([]treeQuery, len(c.Q))
		for i, q := range c.Q {
			qs[i] = treeQuery{P: sc(q.P), K: q.K, R: math.Ldexp(q.R, c.UnitLog2)}
		}
		c.Pts, c.Q = ps, qs
		o.Label("rescaled")
	}
	pts := make([][3]float64, len(c.Pts))
	for i, p := range c.Pts {
		if !finite(p[:]...) {
			return fmt.Errorf("%w: non-finite point", kit.ErrInfra)
		}
		if c.Dim == 2 {
			p[2] = 0
		}
		pts[i] = p
	}
	var tr tree
	if c.Dim == 3 {
		in := make([]model3d.Coord3D, len(pts))
		for i, p := range pts {
			in[i] = xyz(p)
		}
		tr = tree3{model3d.NewCoordTree(in)}
	} else {
		in := make([]model2d.Coord, len(pts))
		for i, p := range pts {
			in[i] = c2(p)
		}
		tr = tree2{model2d.NewCoordTree(in)}
	}
	n := len(pts)
	o.Label(nclass(n))
	inBag := bag{}
	dupes, planeTies := false, false
	for i, p := range pts {
		inBag.add(bits(p[:]...))
		for j := 0; j < i; j++ {
			same := 0
			for k := 0; k < c.Dim; k++ {
				if pts[j][k] == p[k] {
					same++
				}
			}
			if same == c.Dim {
				dupes = true
			} else if same > 0 {
				planeTies = true
			}
		}
	}
	if dupes {
		o.Label("points:duplicates")
	}
	if planeTies {
		o.Label("points:shared-coordinates")
	}

	// construction only reorders
	outBag := bag{}
	for _, p := range tr.slice() {
		outBag.add(bits(p[:]...))
	}
	if e := between(inBag, outBag, inBag); e != nil {
		return fmt.Errorf("Slice() of the tree over %d points is not a permutation of the input: %w", n, e)
	}
	if tr.empty() != (n == 0) {
		return fmt.Errorf("Empty() = %v for %d points", tr.empty(), n)
	}
	if tr.leaf() != (n <= 1) {
		return fmt.Errorf("Leaf() = %v for %d points (documented: true iff the tree contains 1 or fewer points)", tr.leaf(), n)
	}

	var prevKept func() [][3]float64
	var prevRes [][3]float64
	for qi, q := range c.Q {
		if !finite(q.P[:]...) || !finite(q.R) || q.R < 0 || q.K < 0 {
			return fmt.Errorf("%w: bad query", kit.ErrInfra)
		}
		p := q.P
		if c.Dim == 2 {
			p[2] = 0
		}
		sq := make([]float64, n)
		member := false
		for i, x := range pts {
			sq[i] = tr.sq(p, x)
			if x == p { // == on the coordinates (-0 equals +0), as documented for Contains
				member = true
			}
		}
		sorted := append([]float64(nil), sq...)
		sort.Float64s(sorted)

		if got := tr.contains(p); got != member {
			return fmt.Errorf("query %d: Contains(%v) = %v, a scan of the %d points says %v", qi, p, got, n, member)
		}
		if member {
			o.Label("contains:member")
		}
		if n > 0 {
			nn := tr.nearest(p)
			if inBag[bits(nn[:]...)] == 0 {
				return fmt.Errorf("query %d: NearestNeighbor(%v) = %v is not one of the points", qi, p, nn)
			}
			if d := tr.sq(p, nn); d != sorted[0] {
				return fmt.Errorf("query %d: NearestNeighbor(%v) = %v at squared distance %v, the scan finds squared distance %v", qi, p, nn, d, sorted[0])
			}
			if got, want := tr.dist(p), tr.d(p, nn); got != want {
				return fmt.Errorf("query %d: Dist(%v) = %v but the nearest neighbour %v is at %v", qi, p, got, nn, want)
			}
			if n > 1 && sorted[1] == sorted[0] {
				o.Label("nearest:tie")
			}
		}
		// KNN
		kept := tr.knnKept(q.K, p)
		res := kept()
		// a result belongs to the caller: later queries (of any kind, on this tree) leave it as it was returned
		if prevKept != nil {
			if now := prevKept(); !reflect.DeepEqual(now, prevRes) {
				return fmt.Errorf("query %d: the result of the previous KNN query read %v when it was returned and reads %v after this KNN(%d, %v)", qi, prevRes, now, q.K, p)
			}
		}
		prevKept, prevRes = kept, res
		wantLen := q.K
		if n < wantLen {
			wantLen = n
		}
		if len(res) != wantLen {
			return fmt.Errorf("query %d: KNN(%d, %v) returned %d points, want min(k, n) = %d", qi, q.K, p, len(res), wantLen)
		}
		resBag := bag{}
		for i, x := range res {
			resBag.add(bits(x[:]...))
			if d := tr.sq(p, x); d != sorted[i] {
				return fmt.Errorf("query %d: KNN(%d, %v)[%d] = %v at squared distance %v, the sorted scan has %v at that rank", qi, q.K, p, i, x, d, sorted[i])
			}
		}
		if e := between(bag{}, resBag, inBag); e != nil {
			return fmt.Errorf("query %d: KNN(%d, %v) is not a sub-multiset of the points: %w", qi, q.K, p, e)
		}
		if wantLen > 0 && wantLen < n && sorted[wantLen] == sorted[wantLen-1] {
			o.Label("knn:tie-at-k")
		}
		// ball
		want := false
		exact := false
		r2 := q.R * q.R
		for _, d := range sq {
			if d <= r2 {
				want = true
			}
			if d == r2 {
				exact = true
			}
		}
		if got := tr.ball(p, q.R); got != want {
			return fmt.Errorf("query %d: SphereCollision(%v, %v) = %v, a scan of the %d points says %v", qi, p, q.R, got, n, want)
		}
		if exact {
			o.Label("ball:radius-equals-distance")
		}
		if want {
			o.Label("ball:hit")
		} else {
			o.Label("ball:miss")
		}
		if n >= 3 {
			o.NonTrivial()
		}
	}
	return nil
}
