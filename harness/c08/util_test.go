package c08

import (
	"fmt"
	"math"
	"sort"

	"pgregory.net/rapid"
	"verifharness/gen"
)

// ---------------------------------------------------------------------------
// Regimes.
//
// "strict": every number of the case (object coordinates and query) is a multiple
// of 1/16 of magnitude <= 64.  Differences of such numbers are exact and IEEE
// division is monotone, so any correct implementation of a bounding-box prefilter
// (slab test, box/ball distance, box overlap) evaluates exactly on these inputs;
// the model of "what the index is allowed to prune" then has no tolerance at all.
// Ties on box faces, on split planes and at radius == distance are all decided.
//
// "generic": arbitrary floats; the prefilter model uses a relative margin (see
// slabMust / ballMust) and a leaf whose own box passes the prefilter only within
// that margin is "borderline": the index may or may not report it.

const gridQ = 0.25

func onGrid(v float64) bool {
	return math.Abs(v) <= 64 && v*16 == math.Trunc(v*16)
}

func allOnGrid(vs ...[]float64) bool {
	for _, s := range vs {
		for _, v := range s {
			if !onGrid(v) {
				return false
			}
		}
	}
	return true
}

func finite(vs ...float64) bool {
	for _, v := range vs {
		if math.IsNaN(v) || math.IsInf(v, 0) {
			return false
		}
	}
	return true
}

// pool remembers the numbers used in a case so that later draws can repeat them:
// coincident box faces and split-plane ties with non-grid values.
type pool struct {
	grid bool
	vals []float64
}

// snap removes tiny magnitudes (rapid shrinks floats towards denormals; a
// direction component of 1e-300 is neither "zero" nor generic).
func snap(v float64) float64 {
	if math.Abs(v) < 1e-3 {
		return 0
	}
	return v
}

func (p *pool) val(t *rapid.T, label string) float64 {
	var v float64
	if p.grid {
		switch rapid.IntRange(0, 3).Draw(t, label+".m") {
		case 0, 1:
			v = float64(rapid.IntRange(-2, 2).Draw(t, label))
		case 2:
			v = float64(rapid.IntRange(-4, 4).Draw(t, label))
		default:
			v = float64(rapid.IntRange(-16, 16).Draw(t, label)) * gridQ
		}
	} else {
		if len(p.vals) > 0 && rapid.IntRange(0, 3).Draw(t, label+".reuse") == 0 {
			v = p.vals[rapid.IntRange(0, len(p.vals)-1).Draw(t, label+".idx")]
		} else {
			v = snap(gen.F(t, -4, 4, label))
		}
	}
	if len(p.vals) < 64 {
		p.vals = append(p.vals, v)
	}
	return v
}

func (p *pool) vec(t *rapid.T, n int, label string) []float64 {
	out := make([]float64, n)
	for i := range out {
		out[i] = p.val(t, fmt.Sprintf("%s.%d", label, i))
	}
	return out
}

// dir draws a direction with dim components: small integers (grid) or floats,
// each component zero with probability ~1/3, never all zero, scaled by a power
// of two (exact).
func (p *pool) dir(t *rapid.T, dim int, label string) []float64 {
	d := make([]float64, dim)
	nz := false
	for i := range d {
		if rapid.IntRange(0, 2).Draw(t, fmt.Sprintf("%s.z%d", label, i)) == 0 {
			continue
		}
		if p.grid {
			d[i] = float64(rapid.IntRange(-3, 3).Draw(t, fmt.Sprintf("%s.%d", label, i)))
		} else {
			d[i] = snap(gen.F(t, -1, 1, fmt.Sprintf("%s.%d", label, i)))
		}
		if d[i] != 0 {
			nz = true
		}
	}
	if !nz {
		d[rapid.IntRange(0, dim-1).Draw(t, label+".axis")] = 1
	}
	s := math.Ldexp(1, rapid.IntRange(-3, 3).Draw(t, label+".exp"))
	for i := range d {
		d[i] *= s
	}
	return d
}

// ---------------------------------------------------------------------------
// Prefilter models ("which leaves is an index certainly not allowed to skip").
// They are written from the geometric definition, not copied from the library.

// slabMust: the ray o + t*d, 0 <= t <= tmax, passes through the closed box
// [mn, mx] — certainly, i.e. by a margin in the generic regime.  With strict the
// comparison has no margin (exact on grid inputs, see above).
func slabMust(o, d, mn, mx []float64, tmax float64, strict bool) bool {
	if strict {
		return slabTest(o, d, mn, mx, tmax, 0)
	}
	return slabTest(o, d, mn, mx, tmax, 1)
}

// slabMay: the ray possibly passes through the box (the negation is "certainly misses").
func slabMay(o, d, mn, mx []float64, tmax float64, strict bool) bool {
	if strict {
		return slabTest(o, d, mn, mx, tmax, 0)
	}
	return slabTest(o, d, mn, mx, tmax, -1)
}

// slabTest: sign = +1 demands a margin, -1 grants one, 0 compares exactly.
func slabTest(o, d, mn, mx []float64, tmax float64, sign float64) bool {
	var lo, hi []float64
	for k := range o {
		if d[k] == 0 {
			if o[k] < mn[k] || o[k] > mx[k] {
				return false
			}
			continue
		}
		a := (mn[k] - o[k]) / d[k]
		b := (mx[k] - o[k]) / d[k]
		if a > b {
			a, b = b, a
		}
		if !finite(a, b) {
			return sign < 0
		}
		if b < 0 { // the sign of a correctly rounded difference/quotient is exact
			return false
		}
		lo = append(lo, a)
		hi = append(hi, b)
	}
	margin := func(a, b float64) float64 {
		if math.IsInf(b, 1) {
			return 0
		}
		// each bound is fl(fl(m-o)/d): its error is relative to its own magnitude (a bound that is
		// exactly 0 because the origin lies on the face carries no error at all); 2^-52 << 1e-9
		return sign * 1e-9 * (math.Abs(a) + math.Abs(b))
	}
	for j, a := range lo {
		for k, b := range hi {
			if j == k {
				continue // same axis: a <= b holds in every monotone evaluation (flat boxes: a == b)
			}
			if !(a+margin(a, b) <= b) {
				return false
			}
		}
		if !(a+margin(a, tmax) <= tmax) {
			return false
		}
	}
	return true
}

// boxDist2 is the squared distance from c to the closed box.
func boxDist2(c, mn, mx []float64) float64 {
	s := 0.0
	for k := range c {
		if c[k] < mn[k] {
			s += (mn[k] - c[k]) * (mn[k] - c[k])
		} else if c[k] > mx[k] {
			s += (c[k] - mx[k]) * (c[k] - mx[k])
		}
	}
	return s
}

// ballMust: the closed ball (c, r) certainly reaches the closed box.
func ballMust(c []float64, r float64, mn, mx []float64, strict bool) bool {
	d2 := boxDist2(c, mn, mx)
	if strict {
		return d2 <= r*r // d2 is exact on the grid; r*r is one rounding of the given r in any implementation
	}
	return d2*(1+1e-9) <= r*r*(1-1e-9)
}

// ballMay: the ball possibly reaches the box.
func ballMay(c []float64, r float64, mn, mx []float64, strict bool) bool {
	d2 := boxDist2(c, mn, mx)
	if strict {
		return d2 <= r*r
	}
	return d2*(1-1e-9) <= r*r*(1+1e-9)
}

// boxesOverlap: closed boxes intersect (exact comparisons, no arithmetic).
func boxesOverlap(mn1, mx1, mn2, mx2 []float64) bool {
	for k := range mn1 {
		if mn1[k] > mx2[k] || mn2[k] > mx1[k] {
			return false
		}
	}
	return true
}

// ---------------------------------------------------------------------------
// multisets keyed by strings

type bag map[string]int

func (b bag) add(k string) { b[k]++ }

// droppedBorderline counts, over all calls of between, answers that the scan has and the index
// legitimately lacks (borderline leaves); read and reset by the clauses for labelling only.
var droppedBorderline int

// between checks must <= got <= all as multisets; returns a description of the first discrepancy.
func between(must, got, all bag) error {
	for k, n := range all {
		if got[k] < n {
			droppedBorderline += n - got[k]
		}
	}
	keys := map[string]bool{}
	for k := range must {
		keys[k] = true
	}
	for k := range got {
		keys[k] = true
	}
	ks := make([]string, 0, len(keys))
	for k := range keys {
		ks = append(ks, k)
	}
	sort.Strings(ks)
	for _, k := range ks {
		if got[k] < must[k] {
			return fmt.Errorf("the index reports %s %d time(s), the linear scan %d time(s) (the object's own bounding box passes the prefilter, so it may not be skipped)", k, got[k], must[k])
		}
		if got[k] > all[k] {
			return fmt.Errorf("the index reports %s %d time(s), the linear scan only %d time(s)", k, got[k], all[k])
		}
	}
	return nil
}

func bits(vs ...float64) string {
	s := ""
	for _, v := range vs {
		if v == 0 {
			v = 0 // -0 and +0 are the same answer
		}
		s += fmt.Sprintf("%016x.", math.Float64bits(v))
	}
	return s
}

// ---------------------------------------------------------------------------
// hand-built hierarchies

type hnode struct {
	leaf int
	kids []*hnode
}

// leaves lists the leaf positions under the node.
func (n *hnode) leaves() []int {
	if n.leaf >= 0 {
		return []int{n.leaf}
	}
	var out []int
	for _, k := range n.kids {
		out = append(out, k.leaves()...)
	}
	return out
}

// passedOn checks the documented filter of a joined node ("only passes along rays and spheres that
// enter their combined bounding box") on a hand-built tree: a leaf that was evaluated (count > 0) may
// not sit below a node whose combined box the query certainly misses.  box(leafPos) gives the leaf's
// bounds, misses(mn, mx) says "certainly misses".
func (n *hnode) passedOn(count []int, box func(int) ([]float64, []float64), misses func(mn, mx []float64) bool, blocked bool) error {
	if n.leaf >= 0 {
		if blocked && count[n.leaf] > 0 {
			return fmt.Errorf("leaf at position %d was evaluated %d time(s) although the query misses the combined bounding box of a joined node above it", n.leaf, count[n.leaf])
		}
		return nil
	}
	var mn, mx []float64
	for i, l := range n.leaves() {
		a, b := box(l)
		if i == 0 {
			mn, mx = append([]float64(nil), a...), append([]float64(nil), b...)
			continue
		}
		for k := range mn {
			mn[k], mx[k] = math.Min(mn[k], a[k]), math.Max(mx[k], b[k])
		}
	}
	blocked = blocked || misses(mn, mx)
	for _, k := range n.kids {
		if err := k.passedOn(count, box, misses, blocked); err != nil {
			return err
		}
	}
	return nil
}

// shapeTree partitions the leaves lo..hi-1 (in order) into a tree whose branches
// have 2..4 children; the shape is read from the int list (halves when exhausted).
func shapeTree(lo, hi int, shape []int, pos *int) *hnode {
	if hi-lo == 1 {
		return &hnode{leaf: lo}
	}
	next := func() int {
		if *pos < len(shape) {
			v := shape[*pos]
			*pos++
			if v < 0 {
				v = -v
			}
			return v
		}
		return -1
	}
	n := hi - lo
	k := 2
	if v := next(); v >= 0 {
		k = 2 + v%3
	}
	if k > n {
		k = n
	}
	nd := &hnode{leaf: -1}
	start := lo
	for i := 0; i < k; i++ {
		remainingKids := k - i - 1
		avail := hi - start - remainingKids // this child may take 1..avail leaves
		size := (avail + 1) / 2
		if remainingKids == 0 {
			size = avail
		} else if v := next(); v >= 0 {
			size = 1 + v%avail
		}
		nd.kids = append(nd.kids, shapeTree(start, start+size, shape, pos))
		start += size
	}
	return nd
}

func nclass(n int) string {
	switch {
	case n == 0:
		return "n:0"
	case n == 1:
		return "n:1"
	case n == 2:
		return "n:2"
	case n <= 8:
		return "n:3-8"
	default:
		return "n:9+"
	}
}

// drawN draws a set size: empty / single / pair now and then, mostly 3..8, often 9..max.
func drawN(t *rapid.T, minN, max int, label string) int {
	n := 0
	switch k := rapid.IntRange(0, 19).Draw(t, label+".class"); {
	case k == 0:
		n = 0
	case k == 1:
		n = 1
	case k <= 3:
		n = 2
	case k <= 11:
		n = rapid.IntRange(3, 8).Draw(t, label)
	default:
		n = rapid.IntRange(9, max).Draw(t, label)
	}
	if n < minN {
		n = minN
	}
	if n > max {
		n = max
	}
	return n
}
