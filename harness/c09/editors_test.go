package c09

import (
	"fmt"
	"math"
	"sort"

	"github.com/unixpickle/model3d/model2d"
	"github.com/unixpickle/model3d/model3d"
	"pgregory.net/rapid"
	"verifharness/gen"
	"verifharness/kit"
)

// Meshes that the library produced by editing vertices in place must answer like a fresh
// mesh built from their faces, also after further edits.

type editCase struct {
	Tree   *gen.Node     `json:"tree,omitempty"`
	Tree2  *gen.Node2    `json:"tree2,omitempty"`
	Lat    *gen.Lattice3 `json:"lattice,omitempty"`
	Delta  float64       `json:"delta"`
	Editor string        `json:"editor"`
	Iters  int           `json:"iters"`
	Param  float64       `json:"param"`
	Edits  []int         `json:"edits"` // face indices removed and re-added afterwards
}

func genEditCase(t *rapid.T) editCase {
	c := editCase{Delta: gen.LogF(t, 0.2, 0.55, "delta"), Iters: rapid.IntRange(1, 5).Draw(t, "iters")}
	c.Editor = rapid.SampledFrom([]string{"mcsearch", "mcsearch-aligned", "mcsearch-aligned", "mcinterior", "searchfilter", "flatten", "elimedges", "elimedges-ulp", "dcrepair", "dc", "dcrepair-lattice", "dcrepair-lattice", "mssearch", "decimate"}).Draw(t, "editor")
	switch c.Editor {
	case "mssearch":
		c.Tree2 = gen.Node2Gen(t, 2, 4, "tree2")
	case "dcrepair-lattice":
		// checkerboard-like lattices give dual contouring many singular edges and vertices to repair
		l := gen.Lattice3Gen(t, 4, "lattice")
		c.Lat = &l
	case "mcsearch-aligned":
		// boxes whose faces pass exactly through lattice points, bisected until the vertices of several
		// lattice edges land on the same coordinate (a lattice corner): the in-place vertex rewrite then
		// merges vertices, which a stale or incrementally patched index gets wrong
		c.Delta = rapid.SampledFrom([]float64{0.5, 0.25, 1}).Draw(t, "adelta")
		c.Iters = rapid.IntRange(50, 64).Draw(t, "aiters")
		c.Tree = &gen.Node{Op: "join"}
		for i, n := 0, rapid.IntRange(1, 2).Draw(t, "nboxes"); i < n; i++ {
			var a, b kit.V3
			for k := 0; k < 3; k++ {
				a[k] = float64(rapid.IntRange(-2, 2).Draw(t, "lo")) * c.Delta
				b[k] = a[k] + float64(rapid.IntRange(1, 3).Draw(t, "ext"))*c.Delta
			}
			c.Tree.Kids = append(c.Tree.Kids, &gen.Node{Op: "prim", Shape: &gen.Shape3{Kind: "rect", A: a, B: b}})
		}
	case "flatten":
		// a shape with a clearly defined flat base: a box or a z-aligned cylinder, possibly joined with a ball on top
		base := gen.Shape3{Kind: "rect", A: kit.V3{-0.8, -0.6, 0}, B: kit.V3{0.7, 0.9, gen.F(t, 0.4, 1, "h")}}
		if rapid.Bool().Draw(t, "cyl") {
			base = gen.Shape3{Kind: "cylinder", A: kit.V3{0, 0, 0}, B: kit.V3{0, 0, gen.F(t, 0.4, 1, "h")}, R: gen.F(t, 0.5, 1, "r")}
		}
		c.Tree = &gen.Node{Op: "join", Kids: []*gen.Node{{Op: "prim", Shape: &base}}}
		if rapid.Bool().Draw(t, "ball") {
			c.Tree.Kids = append(c.Tree.Kids, &gen.Node{Op: "prim", Shape: &gen.Shape3{Kind: "sphere", A: kit.V3{0.1, 0.1, 0.9}, R: gen.F(t, 0.3, 0.6, "br")}})
		}
		c.Param = gen.F(t, 0.3, 1.2, "angle")
	default:
		c.Tree = gen.NodeGen(t, 2, 4, false, "tree")
		c.Param = gen.F(t, 0.5, 2.5, "param")
	}
	n := rapid.IntRange(0, 6).Draw(t, "nedits")
	for i := 0; i < n; i++ {
		c.Edits = append(c.Edits, rapid.IntRange(0, 1<<20).Draw(t, "edit"))
	}
	return c
}

func checkEditCase(c editCase, o *kit.Obs) error {
	o.Label("editor:" + c.Editor)
	if c.Editor == "mssearch" {
		return checkEdit2(c, o)
	}
	var solid model3d.Solid
	if c.Lat != nil {
		solid = c.Lat.Solid()
	} else {
		solid = c.Tree.Build()
	}
	var m *model3d.Mesh
	// editors that make a new mesh from a mesh leave their source answering as before (index built beforehand)
	var src *meshState3
	var srcVals []model3d.Triangle
	track := func(sm *model3d.Mesh) *model3d.Mesh {
		tbl := sm.TriangleSlice()
		if len(tbl) == 0 || len(tbl) > 600 {
			return sm
		}
		src = &meshState3{m: sm, tbl: tbl, present: map[*model3d.Triangle]bool{}}
		for i, f := range tbl {
			src.present[f] = true
			srcVals = append(srcVals, *f)
			if i%(1+len(tbl)/10) == 0 {
				src.pool = append(src.pool, f[i%3])
			}
		}
		sm.VertexSlice()
		src.indexed = true
		return sm
	}
	switch c.Editor {
	case "mcsearch", "mcsearch-aligned":
		m = model3d.MarchingCubesSearch(solid, c.Delta, c.Iters)
	case "mcinterior":
		m, _ = model3d.MarchingCubesInterior(solid, c.Delta, c.Iters)
	case "searchfilter":
		m = model3d.MarchingCubesSearchFilter(solid, func(*model3d.Rect) bool { return true }, c.Delta, c.Iters)
	case "flatten":
		m = track(model3d.MarchingCubesSearch(solid, c.Delta, c.Iters))
		m = m.FlattenBase(c.Param)
	case "elimedges":
		m = track(model3d.MarchingCubesSearch(solid, c.Delta, 1))
		lim := c.Delta * c.Param * 0.4
		m = m.EliminateEdges(func(tmp *model3d.Mesh, seg model3d.Segment) bool { return seg[0].Dist(seg[1]) < lim })
	case "elimedges-ulp":
		// edges one unit in the last place long (bisection leaves such pairs behind): the midpoint of the collapse
		// is one of the two endpoints, so the vertex that is removed and the vertex that is created coincide
		m = model3d.MarchingCubesSearch(solid, c.Delta, 1)
		ts := m.TriangleSlice()
		if len(ts) == 0 {
			return nil
		}
		sort.Slice(ts, func(i, j int) bool {
			for k := 0; k < 3; k++ {
				if ts[i][k] != ts[j][k] {
					return coordLess3(ts[i][k], ts[j][k])
				}
			}
			return false
		})
		move := map[model3d.Coord3D]model3d.Coord3D{}
		fixed := map[model3d.Coord3D]bool{}
		taken := map[model3d.Coord3D]bool{}
		for _, t := range ts {
			for _, p := range t {
				taken[p] = true
			}
		}
		for _, e := range append([]int{7}, c.Edits...) {
			t := ts[e%len(ts)]
			a, b := t[e%3], t[(e+1)%3]
			if _, ok := move[a]; ok || fixed[b] || a == b {
				continue
			}
			if _, ok := move[b]; ok {
				continue
			}
			arr := a.Array()
			dir := math.Inf(1)
			if (e/3)%2 == 1 {
				dir = math.Inf(-1)
			}
			arr[(e/6)%3] = math.Nextafter(arr[(e/6)%3], dir)
			target := model3d.NewCoord3DArray(arr)
			if taken[target] {
				continue // two vertices in one place would be a face with a repeated vertex, not a mesh
			}
			move[b], fixed[a], taken[target] = target, true, true
		}
		m = m.MapCoords(func(p model3d.Coord3D) model3d.Coord3D {
			if q, ok := move[p]; ok {
				return q
			}
			return p
		})
		o.Labelf("ulp-edges:%d", len(move))
		if m.NeedsRepair() || len(m.SingularVertices()) > 0 {
			o.Skip("ulp-edge input is not a manifold")
			return nil
		}
		track(m)
		m = m.EliminateEdges(func(tmp *model3d.Mesh, seg model3d.Segment) bool { return seg[0].Dist(seg[1]) < 1e-9*c.Delta })
	case "decimate":
		m = track(model3d.MarchingCubesSearch(solid, c.Delta, 1))
		m = model3d.DecimateSimple(m, c.Delta*c.Param*0.05)
	case "dcrepair-lattice":
		dc := &model3d.DualContouring{S: model3d.SolidSurfaceEstimator{Solid: solid}, Delta: 1, Repair: true, Clip: true}
		m = dc.Mesh()
	case "dcrepair", "dc":
		dc := &model3d.DualContouring{S: model3d.SolidSurfaceEstimator{Solid: solid}, Delta: c.Delta, Repair: c.Editor == "dcrepair", Clip: true}
		m = dc.Mesh()
	}
	if src != nil {
		for i, f := range src.tbl {
			if *f != srcVals[i] {
				return fmt.Errorf("%s rewrote a face of the mesh it was applied to: %v became %v", c.Editor, srcVals[i], *f)
			}
		}
		if err := src.full(); err != nil {
			return fmt.Errorf("the mesh that %s was applied to no longer answers like the plain set of its faces: %w", c.Editor, err)
		}
		o.Label("source-rechecked")
	}
	tbl := m.TriangleSlice()
	if len(tbl) == 0 {
		return nil
	}
	sort.Slice(tbl, func(i, j int) bool {
		for k := 0; k < 3; k++ {
			if tbl[i][k] != tbl[j][k] {
				return coordLess3(tbl[i][k], tbl[j][k])
			}
		}
		return false
	})
	if len(tbl) > 600 {
		o.Skip("mesh too large for the quadratic reference")
		return nil
	}
	o.NonTrivial()
	if c.Editor == "mcsearch-aligned" {
		deg := 0
		for _, f := range tbl {
			if degenerate3(f) {
				deg++
			}
		}
		if deg > 0 {
			o.Label("aligned:vertices-merged")
		}
	}
	s := &meshState3{m: m, tbl: tbl, present: map[*model3d.Triangle]bool{}}
	for _, f := range tbl {
		s.present[f] = true
	}
	// probe vertices: a deterministic sample of the faces' vertices
	for i := 0; i < len(tbl) && len(s.pool) < 10; i += 1 + len(tbl)/10 {
		s.pool = append(s.pool, tbl[i][i%3])
	}
	if err := s.full(); err != nil {
		return fmt.Errorf("%s output does not answer like the plain set of its faces: %w", c.Editor, err)
	}
	for _, e := range c.Edits {
		f := tbl[e%len(tbl)]
		s.m.Remove(f)
		s.present[f] = false
	}
	if err := s.full(); err != nil {
		return fmt.Errorf("%s output after removing faces: %w", c.Editor, err)
	}
	for _, e := range c.Edits {
		f := tbl[e%len(tbl)]
		s.m.Add(f)
		s.present[f] = true
	}
	if err := s.full(); err != nil {
		return fmt.Errorf("%s output after re-adding faces: %w", c.Editor, err)
	}
	return nil
}

func checkEdit2(c editCase, o *kit.Obs) error {
	m := model2d.MarchingSquaresSearch(c.Tree2.Build(), c.Delta, c.Iters)
	tbl := m.SegmentSlice()
	if len(tbl) == 0 {
		return nil
	}
	sort.Slice(tbl, func(i, j int) bool {
		for k := 0; k < 2; k++ {
			if tbl[i][k] != tbl[j][k] {
				return coordLess2(tbl[i][k], tbl[j][k])
			}
		}
		return false
	})
	if len(tbl) > 600 {
		o.Skip("mesh too large for the quadratic reference")
		return nil
	}
	o.NonTrivial()
	s := &meshState2{m: m, tbl: tbl, present: map[*model2d.Segment]bool{}}
	for _, f := range tbl {
		s.present[f] = true
	}
	for i := 0; i < len(tbl) && len(s.pool) < 10; i += 1 + len(tbl)/10 {
		s.pool = append(s.pool, tbl[i][i%2])
	}
	if err := s.full(); err != nil {
		return fmt.Errorf("mssearch output does not answer like the plain set of its faces: %w", err)
	}
	for _, e := range c.Edits {
		f := tbl[e%len(tbl)]
		s.m.Remove(f)
		s.present[f] = false
	}
	if err := s.full(); err != nil {
		return fmt.Errorf("mssearch output after removing faces: %w", err)
	}
	return nil
}
