package c09

import (
	"fmt"
	"math"
	"sort"

	"github.com/unixpickle/model3d/model2d"
	"github.com/unixpickle/model3d/model3d"
	"pgregory.net/rapid"
	"verifharness/kit"
)

// ---------------------------------------------------------------------------
// Coordinate-keyed maps against ordinary Go maps (the library's own key type is
// used as the Go map key, so "behaves exactly like an ordinary map" is literal).

type fastMap[K comparable, V any] interface {
	Len() int
	Value(K) V
	Load(K) (V, bool)
	Delete(K)
	Store(K, V)
	KeyRange(func(K) bool)
	ValueRange(func(V) bool)
	Range(func(K, V) bool)
}

type mapOp struct {
	K string `json:"k"` // store load value delete extra len range keyrange valuerange stoprange
	I int    `json:"i"` // key index into the pool
	X int    `json:"x"` // value / amount / stop count
}

type mapCase struct {
	Type string   `json:"type"` // CoordMap CoordToSlice CoordToNumber EdgeMap EdgeToSlice EdgeToNumber
	Dim  int      `json:"dim"`  // 3 or 2
	Pool []kit.V3 `json:"pool"` // coordinates (z ignored in 2D)
	Ops  []mapOp  `json:"ops"`
}

var negZero = math.Copysign(0, -1)

// specialCoords are equal-but-not-identical keys (signed zeros) and keys whose fast hash collides by
// absorption (a*X dominates and swallows the contribution of the last coordinate).
var specialCoords = []kit.V3{
	{0, 0, 0}, {negZero, negZero, negZero}, {negZero, 0, negZero},
	{1e300, 1, 0}, {1e300, 2, 0}, {1e300, 3, 0}, // collide in 3D and 2D (Y absorbed)
	{1 << 60, 0, 1}, {1 << 60, 0, 1.5}, // collide in 3D (Z absorbed)
	{-1e300, 1, 0}, {-1e300, 2, 0},
	// equal keys that differ in the sign of their zeros, next to a component so small that its share of any
	// weighted sum underflows (to either zero)
	{negZero, -5e-324, negZero}, {0, -5e-324, 0}, {negZero, 5e-324, 0}, {0, 5e-324, negZero}, {0, -1e-323, negZero}, {negZero, -1e-323, 0},
	{-5e-324, negZero, 0}, {-5e-324, 0, negZero}, {0, negZero, -5e-324}, {negZero, 0, -5e-324},
}

func poolGen(t *rapid.T) []kit.V3 {
	n := rapid.IntRange(2, 8).Draw(t, "npool")
	var pool []kit.V3
	for i := 0; i < n; i++ {
		if rapid.IntRange(0, 2).Draw(t, "special") == 0 {
			pool = append(pool, rapid.SampledFrom(specialCoords).Draw(t, "sc"))
		} else {
			pool = append(pool, kit.V3{float64(rapid.IntRange(-2, 2).Draw(t, "x")), float64(rapid.IntRange(-2, 2).Draw(t, "y")), float64(rapid.IntRange(-1, 1).Draw(t, "z"))})
		}
	}
	return pool
}

func genMapCase(t *rapid.T) mapCase {
	c := mapCase{
		Type: rapid.SampledFrom([]string{"CoordMap", "CoordToSlice", "CoordToNumber", "EdgeMap", "EdgeToSlice", "EdgeToNumber"}).Draw(t, "type"),
		Dim:  rapid.SampledFrom([]int{3, 2}).Draw(t, "dim"),
		Pool: poolGen(t),
	}
	n := rapid.IntRange(1, 40).Draw(t, "nops")
	kinds := []string{"store", "store", "extra", "extra", "load", "value", "delete", "len", "range", "keyrange", "valuerange", "stoprange"}
	for i := 0; i < n; i++ {
		c.Ops = append(c.Ops, mapOp{K: rapid.SampledFrom(kinds).Draw(t, "k"), I: rapid.IntRange(0, 63).Draw(t, "i"), X: rapid.IntRange(-3, 9).Draw(t, "x")})
	}
	return c
}

func eqInts(a, b []int) bool {
	if len(a) != len(b) {
		return false
	}
	for i := range a {
		if a[i] != b[i] {
			return false
		}
	}
	return true
}

// runMap replays the history on the library map and on a Go map.
//
//	mk(i)     key for pool index i
//	toV/fromV convert between the library value type and the canonical []int
//	extra     Append/Add (nil for plain maps): returns the library's new value; model: slice append or sum
func runMap[K comparable, V any](c mapCase, o *kit.Obs, m fastMap[K, V], mk func(i int) K, toV func([]int) V, fromV func(V) []int,
	extra func(K, int) V, number bool) error {
	model := map[K][]int{}
	collided := false
	for step, op := range c.Ops {
		k := mk(op.I)
		where := fmt.Sprintf("step %d (%s key#%d x=%d)", step, op.K, op.I, op.X)
		switch op.K {
		case "store":
			v := []int{op.X}
			if !number {
				// lists of two, one and no items: a key stored with an empty list is still a key, as in map[K][]V
				v = []int{op.X, op.X + 1}[:((op.X%3)+4)%3]
			}
			m.Store(k, toV(v))
			model[k] = append([]int(nil), v...)
		case "extra":
			if extra == nil {
				m.Store(k, toV([]int{op.X}))
				model[k] = []int{op.X}
				break
			}
			got := fromV(extra(k, op.X))
			if number {
				model[k] = []int{sum(model[k]) + op.X}
			} else {
				model[k] = append(append([]int(nil), model[k]...), op.X)
			}
			if !eqInts(got, model[k]) {
				return fmt.Errorf("%s: Append/Add returned %v, an ordinary map gives %v", where, got, model[k])
			}
		case "load":
			got, ok := m.Load(k)
			want, wok := model[k]
			if ok != wok || (ok && !eqInts(fromV(got), want)) {
				return fmt.Errorf("%s: Load = (%v,%v), an ordinary map gives (%v,%v)", where, fromV(got), ok, want, wok)
			}
		case "value":
			got := fromV(m.Value(k))
			want := model[k]
			if number && want == nil {
				want = []int{0}
			}
			if !eqInts(got, want) && !(len(got) == 0 && len(want) == 0) {
				return fmt.Errorf("%s: Value = %v, an ordinary map gives %v", where, got, want)
			}
		case "delete":
			m.Delete(k)
			delete(model, k)
		case "len":
			if m.Len() != len(model) {
				return fmt.Errorf("%s: Len = %d, an ordinary map has %d", where, m.Len(), len(model))
			}
		case "range", "keyrange", "valuerange":
			seen := map[K]int{}
			var vals [][]int
			switch op.K {
			case "range":
				m.Range(func(k K, v V) bool {
					seen[k]++
					if want, ok := model[k]; !ok || !eqInts(fromV(v), want) {
						vals = append(vals, []int{-999})
					}
					return true
				})
				if len(vals) > 0 {
					return fmt.Errorf("%s: Range visited an entry that is absent or has a different value in an ordinary map", where)
				}
			case "keyrange":
				m.KeyRange(func(k K) bool { seen[k]++; return true })
			case "valuerange":
				m.ValueRange(func(v V) bool { vals = append(vals, fromV(v)); return true })
				var want [][]int
				for _, v := range model {
					want = append(want, v)
				}
				if !sameMultiset(vals, want) {
					return fmt.Errorf("%s: ValueRange visited %v, an ordinary map holds %v", where, vals, want)
				}
			}
			if op.K != "valuerange" {
				if len(seen) != len(model) {
					return fmt.Errorf("%s: visited %d distinct keys, an ordinary map has %d", where, len(seen), len(model))
				}
				for k, n := range seen {
					if _, ok := model[k]; !ok || n != 1 {
						return fmt.Errorf("%s: key %v visited %d times (present in ordinary map: %v)", where, k, n, ok)
					}
				}
			}
		case "stoprange":
			limit := op.X
			if limit < 1 {
				limit = 1
			}
			n := 0
			m.Range(func(K, V) bool { n++; return n < limit })
			want := limit
			if len(model) < want {
				want = len(model)
			}
			if n != want {
				return fmt.Errorf("%s: Range with early stop after %d visited %d entries of %d", where, limit, n, len(model))
			}
		}
		if m.Len() != len(model) {
			return fmt.Errorf("%s: afterwards Len = %d, an ordinary map has %d", where, m.Len(), len(model))
		}
	}
	// final full comparison
	for i := range c.Pool {
		for j := 0; j < 64; j += 8 {
			k := mk(i + j)
			got, ok := m.Load(k)
			want, wok := model[k]
			if ok != wok || (ok && !eqInts(fromV(got), want)) {
				return fmt.Errorf("final: Load(key#%d) = (%v,%v), an ordinary map gives (%v,%v)", i+j, fromV(got), ok, want, wok)
			}
		}
	}
	// classification: did two distinct stored keys collide / were equal-but-not-identical keys used
	_ = collided
	return nil
}

func sum(v []int) int {
	s := 0
	for _, x := range v {
		s += x
	}
	return s
}

func sameMultiset(a, b [][]int) bool {
	if len(a) != len(b) {
		return false
	}
	key := func(v []int) string { return fmt.Sprint(v) }
	ka, kb := make([]string, len(a)), make([]string, len(b))
	for i := range a {
		ka[i], kb[i] = key(a[i]), key(b[i])
	}
	sort.Strings(ka)
	sort.Strings(kb)
	for i := range ka {
		if ka[i] != kb[i] {
			return false
		}
	}
	return true
}

func scalarTo(v []int) int {
	if len(v) == 0 {
		return 0
	}
	return v[0]
}
func scalarFrom(v int) []int  { return []int{v} }
func sliceTo(v []int) []int   { return append([]int(nil), v...) }
func sliceFrom(v []int) []int { return v }

func checkMapCase(c mapCase, o *kit.Obs) error {
	o.Labelf("type:%s/%dd", c.Type, c.Dim)
	// non-trivial: the history touches two distinct keys that collide, or two equal-but-not-identical keys
	special := 0
	for _, p := range c.Pool {
		if p[0] == 0 && p[1] == 0 && p[2] == 0 || math.Abs(p[0]) > 1e17 {
			special++
		}
	}
	if special >= 2 && len(c.Ops) >= 3 {
		o.NonTrivial()
		o.Label("special-keys")
	}
	np := len(c.Pool)
	if c.Dim == 3 {
		ck := func(i int) model3d.Coord3D { p := c.Pool[i%np]; return model3d.XYZ(p[0], p[1], p[2]) }
		ek := func(i int) [2]model3d.Coord3D { return [2]model3d.Coord3D{ck(i), ck(i / np)} }
		switch c.Type {
		case "CoordMap":
			return runMap[model3d.Coord3D, int](c, o, model3d.NewCoordMap[int](), ck, scalarTo, scalarFrom, nil, true)
		case "CoordToSlice":
			m := model3d.NewCoordToSlice[int]()
			return runMap[model3d.Coord3D, []int](c, o, m, ck, sliceTo, sliceFrom, m.Append, false)
		case "CoordToNumber":
			m := model3d.NewCoordToNumber[int]()
			return runMap[model3d.Coord3D, int](c, o, m, ck, scalarTo, scalarFrom, m.Add, true)
		case "EdgeMap":
			return runMap[[2]model3d.Coord3D, int](c, o, model3d.NewEdgeMap[int](), ek, scalarTo, scalarFrom, nil, true)
		case "EdgeToSlice":
			m := model3d.NewEdgeToSlice[int]()
			return runMap[[2]model3d.Coord3D, []int](c, o, m, ek, sliceTo, sliceFrom, m.Append, false)
		case "EdgeToNumber":
			m := model3d.NewEdgeToNumber[int]()
			return runMap[[2]model3d.Coord3D, int](c, o, m, ek, scalarTo, scalarFrom, m.Add, true)
		}
	} else {
		ck := func(i int) model2d.Coord { p := c.Pool[i%np]; return model2d.XY(p[0], p[1]) }
		ek := func(i int) [2]model2d.Coord { return [2]model2d.Coord{ck(i), ck(i / np)} }
		switch c.Type {
		case "CoordMap":
			return runMap[model2d.Coord, int](c, o, model2d.NewCoordMap[int](), ck, scalarTo, scalarFrom, nil, true)
		case "CoordToSlice":
			m := model2d.NewCoordToSlice[int]()
			return runMap[model2d.Coord, []int](c, o, m, ck, sliceTo, sliceFrom, m.Append, false)
		case "CoordToNumber":
			m := model2d.NewCoordToNumber[int]()
			return runMap[model2d.Coord, int](c, o, m, ck, scalarTo, scalarFrom, m.Add, true)
		case "EdgeMap":
			return runMap[[2]model2d.Coord, int](c, o, model2d.NewEdgeMap[int](), ek, scalarTo, scalarFrom, nil, true)
		case "EdgeToSlice":
			m := model2d.NewEdgeToSlice[int]()
			return runMap[[2]model2d.Coord, []int](c, o, m, ek, sliceTo, sliceFrom, m.Append, false)
		case "EdgeToNumber":
			m := model2d.NewEdgeToNumber[int]()
			return runMap[[2]model2d.Coord, int](c, o, m, ek, scalarTo, scalarFrom, m.Add, true)
		}
	}
	return fmt.Errorf("%w: unknown map type %s", kit.ErrInfra, c.Type)
}
