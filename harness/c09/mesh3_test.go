package c09

import (
	"fmt"
	"sort"

	"github.com/unixpickle/model3d/model3d"
	"pgregory.net/rapid"
	"verifharness/kit"
)

// Mesh histories (3D).  The model is the plain list of face pointers the harness has
// put into the mesh; every answer is recomputed from that list by brute force.

const nv3 = 3

func nz(x float64) float64 {
	if x == 0 {
		return 0
	}
	return x
}

type meshOp struct {
	K string    `json:"k"`
	I []int     `json:"i,omitempty"`
	F []float64 `json:"f,omitempty"`
}

type meshCase struct {
	Pool []kit.V3 `json:"pool"`
	Ops  []meshOp `json:"ops"`
}

var meshOpKinds = []string{
	"add", "add", "add", "add", "readd", "remove", "remove", "removeabsent", "addmesh",
	"copy", "copy", "switch", "deepcopy", "translate", "scale", "snap", "xformobj", "invert",
	"qfind1", "qfind2", "qfind3", "qneighbors", "qneighborsnew", "qvertices", "qitervertices", "qallneighbors", "qminmax", "qfull", "qmapcount", "iteredit",
}

func genMeshCase(t *rapid.T) meshCase {
	c := meshCase{Pool: poolGen(t)}
	n := rapid.IntRange(1, 45).Draw(t, "nops")
	for i := 0; i < n; i++ {
		op := meshOp{K: rapid.SampledFrom(meshOpKinds).Draw(t, "k")}
		for j := 0; j < 6; j++ {
			op.I = append(op.I, rapid.IntRange(0, 63).Draw(t, "i"))
		}
		switch op.K {
		case "translate", "xformobj":
			op.F = []float64{float64(rapid.IntRange(-2, 2).Draw(t, "dx")), float64(rapid.IntRange(-2, 2).Draw(t, "dy")), float64(rapid.IntRange(-2, 2).Draw(t, "dz"))}
		case "scale":
			op.F = []float64{rapid.SampledFrom([]float64{0.5, 2, -1, 3, 0.25}).Draw(t, "s")}
		case "snap":
			op.F = []float64{rapid.SampledFrom([]float64{2, 4, 1e9}).Draw(t, "grid")}
		}
		c.Ops = append(c.Ops, op)
	}
	return c
}

type meshState3 struct {
	m         *model3d.Mesh
	tbl       []*model3d.Triangle // every face pointer the harness knows
	present   map[*model3d.Triangle]bool
	pool      []model3d.Coord3D
	indexed   bool // a query that builds the lazy index has run on this mesh object
	mutatedAI int  // mutations performed while indexed
	kept      []keptAnswer3
}

// An answer of Find / Neighbors belongs to the caller: it reads the same whatever is done to the mesh afterwards,
// and the caller may overwrite it without the mesh noticing.
type keptAnswer3 struct {
	res  []*model3d.Triangle // the slice the library returned
	copy []*model3d.Triangle // what it held at that moment
	what string
}

func (s *meshState3) keepAnswer(res []*model3d.Triangle, what string) {
	s.kept = append(s.kept, keptAnswer3{res, append([]*model3d.Triangle{}, res...), what})
	if len(s.kept) > 3 {
		// the oldest answer is given up: the caller reuses the slice for something else
		old := s.kept[0]
		for i := range old.res {
			old.res[i] = nil
		}
		s.kept = s.kept[1:]
	}
}

func (s *meshState3) keptIntact() error {
	for _, k := range s.kept {
		if len(k.res) != len(k.copy) {
			return fmt.Errorf("an earlier answer of %s changed length", k.what)
		}
		for i := range k.res {
			if k.res[i] != k.copy[i] {
				return fmt.Errorf("the answer of an earlier %s changed in the caller's hands: entry %d of %d is another face now", k.what, i, len(k.res))
			}
		}
	}
	return nil
}

func (s *meshState3) faces() []*model3d.Triangle {
	var out []*model3d.Triangle
	for _, f := range s.tbl {
		if s.present[f] {
			out = append(out, f)
		}
	}
	return out
}

func hasVertex3(f *model3d.Triangle, p model3d.Coord3D) bool {
	for _, q := range f {
		if q == p {
			return true
		}
	}
	return false
}

func samePtrSet3(got []*model3d.Triangle, want []*model3d.Triangle) error {
	g := map[*model3d.Triangle]int{}
	for _, f := range got {
		g[f]++
	}
	for f, n := range g {
		if n != 1 {
			return fmt.Errorf("face %v returned %d times", *f, n)
		}
	}
	w := map[*model3d.Triangle]bool{}
	for _, f := range want {
		w[f] = true
		if g[f] == 0 {
			return fmt.Errorf("face %v is missing from the answer (%d returned, %d expected)", *f, len(got), len(want))
		}
	}
	for f := range g {
		if !w[f] {
			return fmt.Errorf("face %v is in the answer but a plain list of the current faces would not return it (%d returned, %d expected)", *f, len(got), len(want))
		}
	}
	return nil
}

func coordLess3(a, b model3d.Coord3D) bool {
	if a.X != b.X {
		return a.X < b.X
	}
	if a.Y != b.Y {
		return a.Y < b.Y
	}
	return cz3(a) < cz3(b)
}

// distinct vertices (under ==) of the present faces
func (s *meshState3) vertices() []model3d.Coord3D {
	seen := map[model3d.Coord3D]bool{}
	var out []model3d.Coord3D
	for _, f := range s.faces() {
		for _, p := range f {
			if !seen[p] {
				seen[p] = true
				out = append(out, p)
			}
		}
	}
	return out
}

func sameCoordSet3(got, want []model3d.Coord3D, what string) error {
	g := map[model3d.Coord3D]int{}
	for _, p := range got {
		g[p]++
	}
	for p, n := range g {
		if n != 1 {
			return fmt.Errorf("%s: vertex %v listed %d times", what, p, n)
		}
	}
	w := map[model3d.Coord3D]bool{}
	for _, p := range want {
		w[p] = true
		if g[p] == 0 {
			return fmt.Errorf("%s: vertex %v missing (%d listed, %d expected)", what, p, len(got), len(want))
		}
	}
	for p := range g {
		if !w[p] {
			return fmt.Errorf("%s: vertex %v listed but no current face has it", what, p)
		}
	}
	return nil
}

// cheap invariant after every step: must not build the lazy index
func (s *meshState3) light() error {
	if n := s.m.NumTriangles(); n != len(s.faces()) {
		return fmt.Errorf("NumTriangles = %d, the face list has %d", n, len(s.faces()))
	}
	for i, f := range s.tbl {
		if s.m.Contains(f) != s.present[f] {
			return fmt.Errorf("Contains(face#%d %v) = %v, want %v", i, *f, s.m.Contains(f), s.present[f])
		}
	}
	return nil
}

func (s *meshState3) qFind(ps ...model3d.Coord3D) error {
	s.indexed = true
	var want []*model3d.Triangle
	for _, f := range s.faces() {
		all := true
		for _, p := range ps {
			if !hasVertex3(f, p) {
				all = false
			}
		}
		if all {
			want = append(want, f)
		}
	}
	res := s.m.Find(ps...)
	if err := samePtrSet3(res, want); err != nil {
		return fmt.Errorf("Find(%v): %w", ps, err)
	}
	s.keepAnswer(res, fmt.Sprintf("Find(%v)", ps))
	return nil
}

// qMapCount: MapCoords asks f once per vertex, so that an f with a state of its own (random jitter, as in
// examples/romantic/wedding_cake) moves each vertex as a whole and the faces stay connected.
func (s *meshState3) qMapCount() error {
	calls := 0
	f := func(p model3d.Coord3D) model3d.Coord3D {
		calls++
		return mk3(1e6+float64(calls), p.Y, cz3(p))
	}
	res := s.m.MapCoords(f)
	verts := s.vertices()
	if calls != len(verts) {
		return fmt.Errorf("MapCoords called its function %d times for a mesh with %d distinct vertices", calls, len(verts))
	}
	// faces per vertex, before and after
	degrees := func(list []model3d.Triangle) []int {
		d := map[model3d.Coord3D]int{}
		for _, t := range list {
			seen := map[model3d.Coord3D]bool{}
			for _, p := range t {
				if !seen[p] {
					seen[p] = true
					d[p]++
				}
			}
		}
		var out []int
		for _, n := range d {
			out = append(out, n)
		}
		sort.Ints(out)
		return out
	}
	var before, after []model3d.Triangle
	for _, t := range s.faces() {
		before = append(before, *t)
	}
	res.Iterate(func(t *model3d.Triangle) { after = append(after, *t) })
	db, da := degrees(before), degrees(after)
	if fmt.Sprint(db) != fmt.Sprint(da) {
		return fmt.Errorf("MapCoords with a function that gives every vertex a new place: faces per vertex %v before, %v after", db, da)
	}
	return nil
}

func (s *meshState3) qNeighbors(f *model3d.Triangle) error {
	if degenerate3(f) {
		return nil // "shares a side" has no agreed meaning for a face with a repeated vertex
	}
	s.indexed = true
	var want []*model3d.Triangle
	for _, t := range s.faces() {
		if t == f {
			continue
		}
		n := 0
		for _, p := range f {
			if hasVertex3(t, p) {
				n++
			}
		}
		if n >= sharedForNeighbor3 {
			want = append(want, t)
		}
	}
	res := s.m.Neighbors(f)
	if err := samePtrSet3(res, want); err != nil {
		return fmt.Errorf("Neighbors(%v): %w", *f, err)
	}
	s.keepAnswer(res, fmt.Sprintf("Neighbors(%v)", *f))
	return nil
}

func (s *meshState3) qVertices() error {
	s.indexed = true
	return sameCoordSet3(s.m.VertexSlice(), s.vertices(), "VertexSlice")
}

func (s *meshState3) qIterVertices() error {
	s.indexed = true
	var got []model3d.Coord3D
	s.m.IterateVertices(func(c model3d.Coord3D) { got = append(got, c) })
	return sameCoordSet3(got, s.vertices(), "IterateVertices")
}

func (s *meshState3) qAllNeighbors() error {
	an := s.m.AllVertexNeighbors()
	verts := s.vertices()
	if an.Len() != len(verts) {
		return fmt.Errorf("AllVertexNeighbors has %d keys, the faces have %d vertices", an.Len(), len(verts))
	}
	for _, v := range verts {
		want := map[model3d.Coord3D]bool{}
		for _, f := range s.faces() {
			if hasVertex3(f, v) {
				for _, w := range f {
					if w != v {
						want[w] = true
					}
				}
			}
		}
		got := map[model3d.Coord3D]bool{}
		for _, w := range an.Value(v) {
			if w != v {
				got[w] = true
			}
		}
		if len(got) != len(want) {
			return fmt.Errorf("AllVertexNeighbors(%v) = %v, want %d neighbours", v, an.Value(v), len(want))
		}
		for w := range want {
			if !got[w] {
				return fmt.Errorf("AllVertexNeighbors(%v) misses %v", v, w)
			}
		}
	}
	return nil
}

func (s *meshState3) qMinMax() error {
	fs := s.faces()
	var min, max model3d.Coord3D
	for i, f := range fs {
		for j, p := range f {
			if i == 0 && j == 0 {
				min, max = p, p
			} else {
				min, max = min.Min(p), max.Max(p)
			}
		}
	}
	if g := s.m.Min(); g != min {
		return fmt.Errorf("Min = %v, want %v", g, min)
	}
	if g := s.m.Max(); g != max {
		return fmt.Errorf("Max = %v, want %v", g, max)
	}
	return nil
}

func (s *meshState3) qIterate() error {
	var got []*model3d.Triangle
	s.m.Iterate(func(f *model3d.Triangle) { got = append(got, f) })
	if err := samePtrSet3(got, s.faces()); err != nil {
		return fmt.Errorf("Iterate: %w", err)
	}
	if err := samePtrSet3(s.m.TriangleSlice(), s.faces()); err != nil {
		return fmt.Errorf("TriangleSlice: %w", err)
	}
	return nil
}

func (s *meshState3) full() error {
	if err := s.light(); err != nil {
		return err
	}
	if err := s.qIterate(); err != nil {
		return err
	}
	if err := s.qMinMax(); err != nil {
		return err
	}
	if err := s.qAllNeighbors(); err != nil {
		return err
	}
	if err := s.qVertices(); err != nil {
		return err
	}
	if err := s.qIterVertices(); err != nil {
		return err
	}
	for _, p := range s.pool {
		if err := s.qFind(p); err != nil {
			return err
		}
		for _, q := range s.pool {
			if err := s.qFind(p, q); err != nil {
				return err
			}
		}
	}
	for _, f := range s.tbl {
		if err := s.qNeighbors(f); err != nil {
			return err
		}
		if err := s.qFind(f[:]...); err != nil {
			return err
		}
	}
	return nil
}

// adopt replaces the mesh by a derived mesh whose faces must equal `want` as a multiset of values.
func (s *meshState3) adopt(m2 *model3d.Mesh, want []model3d.Triangle, what string) error {
	got := m2.TriangleSlice()
	if len(got) != len(want) {
		return fmt.Errorf("%s: result has %d faces, want %d", what, len(got), len(want))
	}
	key := func(t model3d.Triangle) [9]float64 {
		var k [9]float64
		for i, p := range t {
			k[3*i], k[3*i+1], k[3*i+2] = nz(p.X), nz(p.Y), nz(cz3(p)) // +0 maps -0 to 0
		}
		return k
	}
	cnt := map[[9]float64]int{}
	for _, t := range want {
		cnt[key(t)]++
	}
	for _, f := range got {
		k := key(*f)
		if cnt[k] == 0 {
			return fmt.Errorf("%s: result contains face %v which is not the image of a current face (or too many copies)", what, *f)
		}
		cnt[k]--
	}
	// deterministic table order
	sort.Slice(got, func(i, j int) bool {
		for k := 0; k < nv3; k++ {
			if got[i][k] != got[j][k] {
				return coordLess3(got[i][k], got[j][k])
			}
		}
		return false
	})
	s.m = m2
	s.tbl = got
	s.present = map[*model3d.Triangle]bool{}
	for _, f := range got {
		s.present[f] = true
	}
	s.indexed = false
	return nil
}

func (s *meshState3) mapped(f func(model3d.Coord3D) model3d.Coord3D) []model3d.Triangle {
	var out []model3d.Triangle
	for _, t := range s.faces() {
		out = append(out, mapFace3(*t, f))
	}
	return out
}

// branch returns an independent model of a mesh object that holds the same face pointers as s
// (what Copy returns, or the receiver that a derived mesh leaves behind).
func (s *meshState3) branch(m *model3d.Mesh, indexed bool) *meshState3 {
	b := &meshState3{m: m, tbl: append([]*model3d.Triangle{}, s.tbl...), present: map[*model3d.Triangle]bool{},
		pool: append([]model3d.Coord3D{}, s.pool...), indexed: indexed}
	for f, ok := range s.present {
		b.present[f] = ok
	}
	return b
}

func checkMeshCase(c meshCase, o *kit.Obs) error {
	s := &meshState3{m: model3d.NewMesh(), present: map[*model3d.Triangle]bool{}}
	for _, p := range c.Pool {
		s.pool = append(s.pool, mk3(p[0], p[1], p[2]))
	}
	np := len(s.pool)
	// Every mesh object that is still alive keeps its own model: a Copy and its source (and the
	// receiver of a derived-mesh call) must go on answering as their own face lists whatever is
	// done to the other one afterwards.
	live := []*meshState3{s}
	keep := func(b *meshState3) {
		live = append(live, b)
		if len(live) > 4 { // bound the cost: forget the oldest mesh that is not the active one
			for i, x := range live {
				if x != s {
					live = append(live[:i], live[i+1:]...)
					break
				}
			}
		}
	}
	siblingMutations := 0
	// keep the pool in step with coordinate maps so queries keep hitting real vertices
	remapPool := func(f func(model3d.Coord3D) model3d.Coord3D) {
		for i, p := range s.pool {
			s.pool[i] = f(p)
		}
	}
	newFace := func(i []int) *model3d.Triangle {
		return mkFace3(s.pool[i[0]%np], s.pool[i[1]%np], s.pool[i[2]%np])
	}
	for step, op := range c.Ops {
		where := fmt.Sprintf("step %d (%s)", step, op.K)
		var err error
		mutated := false
		switch op.K {
		case "add":
			f := newFace(op.I)
			s.m.Add(f)
			s.tbl = append(s.tbl, f)
			s.present[f] = true
			mutated = true
		case "readd":
			if len(s.tbl) > 0 {
				f := s.tbl[op.I[0]%len(s.tbl)]
				s.m.Add(f)
				s.present[f] = true
				mutated = true
			}
		case "remove":
			if len(s.tbl) > 0 {
				f := s.tbl[op.I[0]%len(s.tbl)]
				s.m.Remove(f)
				s.present[f] = false
				mutated = true
			}
		case "removeabsent":
			// a value-equal face that was never added must not remove anything
			s.m.Remove(newFace(op.I))
		case "addmesh":
			m1 := model3d.NewMesh()
			for j := 0; j+2 < len(op.I); j += 3 {
				f := newFace(op.I[j:])
				m1.Add(f)
				s.tbl = append(s.tbl, f)
				s.present[f] = true
			}
			if op.I[0]%2 == 0 {
				m1.VertexSlice() // the added mesh may or may not have its own index
			}
			s.m.AddMesh(m1)
			mutated = true
		case "copy":
			m2 := s.m.Copy()
			if e := samePtrSet3(m2.TriangleSlice(), s.faces()); e != nil {
				err = fmt.Errorf("Copy: %w", e)
			} else {
				b := s.branch(m2, false)
				keep(b)
				if op.I[1]%2 == 0 {
					s = b // continue on the copy; the source stays alive
				}
			}
		case "switch":
			s = live[op.I[0]%len(live)]
		case "deepcopy":
			keep(s.branch(s.m, s.indexed))
			m2 := s.m.DeepCopy()
			for _, f := range m2.TriangleSlice() {
				if s.present[f] {
					err = fmt.Errorf("DeepCopy shares face pointer %v with the original", *f)
				}
			}
			if err == nil {
				err = s.adopt(m2, s.mapped(func(p model3d.Coord3D) model3d.Coord3D { return p }), "DeepCopy")
			}
		case "translate":
			v := mk3(op.F[0], op.F[1], op.F[2])
			f := func(p model3d.Coord3D) model3d.Coord3D { return mk3(p.X+v.X, p.Y+v.Y, cz3(p)+cz3(v)) }
			if err = s.adopt(s.m.Translate(v), s.mapped(f), "Translate"); err == nil {
				remapPool(f)
			}
		case "scale":
			k := op.F[0]
			f := func(p model3d.Coord3D) model3d.Coord3D { return mk3(p.X*k, p.Y*k, cz3(p)*k) }
			if err = s.adopt(s.m.Scale(k), s.mapped(f), "Scale"); err == nil {
				remapPool(f)
			}
		case "snap":
			// a merging map: rounds to a grid, so distinct vertices may become equal and faces degenerate
			g := op.F[0]
			f := func(p model3d.Coord3D) model3d.Coord3D {
				r := func(x float64) float64 { return float64(int64(x/g)) * g }
				if p.X > 1e17 || p.X < -1e17 {
					return p
				}
				return mk3(r(p.X), r(p.Y), r(cz3(p)))
			}
			if err = s.adopt(s.m.MapCoords(f), s.mapped(f), "MapCoords"); err == nil {
				remapPool(f)
			}
		case "xformobj":
			v := mk3(op.F[0], op.F[1], op.F[2])
			tr := &model3d.Translate{Offset: v}
			f := func(p model3d.Coord3D) model3d.Coord3D { return tr.Apply(p) }
			if err = s.adopt(s.m.Transform(tr), s.mapped(f), "Transform"); err == nil {
				remapPool(f)
			}
		case "invert":
			keep(s.branch(s.m, s.indexed))
			inv := s.m.InvertNormals()
			// every face reversed: same vertex set per face, opposite cyclic order
			want := s.mapped(func(p model3d.Coord3D) model3d.Coord3D { return p })
			gotFaces := inv.TriangleSlice()
			if len(gotFaces) != len(want) {
				err = fmt.Errorf("InvertNormals returned %d faces for %d", len(gotFaces), len(want))
				break
			}
			canonRev := func(t model3d.Triangle) model3d.Triangle { // canonical rotation of the reversed face
				return canonRot3(reversed3(t))
			}
			cnt := map[model3d.Triangle]int{}
			for _, t := range want {
				cnt[zeroed3(canonRev(t))]++
			}
			for _, f := range gotFaces {
				k := zeroed3(canonRot3(*f))
				if cnt[k] == 0 {
					err = fmt.Errorf("InvertNormals produced %v, which is not a reversed current face", *f)
					break
				}
				cnt[k]--
			}
			if err == nil {
				// involution
				back := inv.InvertNormals()
				cnt2 := map[model3d.Triangle]int{}
				for _, t := range want {
					cnt2[zeroed3(canonRot3(t))]++
				}
				for _, f := range back.TriangleSlice() {
					k := zeroed3(canonRot3(*f))
					if cnt2[k] == 0 {
						err = fmt.Errorf("InvertNormals twice produced %v, which is not an original face", *f)
						break
					}
					cnt2[k]--
				}
			}
			if err == nil {
				var w2 []model3d.Triangle
				for _, f := range gotFaces {
					w2 = append(w2, *f)
				}
				err = s.adopt(inv, w2, "InvertNormals")
			}
		case "qfind1":
			err = s.qFind(s.pool[op.I[0]%np])
		case "qfind2":
			err = s.qFind(s.pool[op.I[0]%np], s.pool[op.I[1]%np])
		case "qfind3":
			err = s.qFind(s.pool[op.I[0]%np], s.pool[op.I[1]%np], s.pool[op.I[2]%np])
		case "qneighbors":
			if len(s.tbl) > 0 {
				err = s.qNeighbors(s.tbl[op.I[0]%len(s.tbl)])
			}
		case "qneighborsnew":
			err = s.qNeighbors(newFace(op.I))
		case "qvertices":
			err = s.qVertices()
		case "qitervertices":
			err = s.qIterVertices()
		case "qallneighbors":
			err = s.qAllNeighbors()
		case "qminmax":
			err = s.qMinMax()
		case "qfull":
			err = s.full()
		case "qmapcount":
			err = s.qMapCount()
		case "iteredit":
			// documented for Iterate: "If f adds or removes triangles, they will not be visited."
			start := s.faces()
			visited := map[*model3d.Triangle]int{}
			removed := map[*model3d.Triangle]bool{}
			var added *model3d.Triangle
			calls := 0
			s.m.Iterate(func(t *model3d.Triangle) {
				visited[t]++
				calls++
				if calls != 1 {
					return
				}
				for _, idx := range op.I[:3] {
					f := s.tbl[idx%len(s.tbl)]
					if s.present[f] && visited[f] == 0 {
						s.m.Remove(f)
						s.present[f] = false
						removed[f] = true
					}
				}
				added = newFace(op.I[3:])
				s.m.Add(added)
				s.tbl = append(s.tbl, added)
				s.present[added] = true
			})
			mutated = calls > 0
			for _, f := range start {
				want := 1
				if removed[f] {
					want = 0
				}
				if visited[f] != want && err == nil {
					err = fmt.Errorf("Iterate visited face %v %d times, want %d (removed by the callback before its turn: %v; %d faces at the start, %d removed during the first call)", *f, visited[f], want, removed[f], len(start), len(removed))
				}
			}
			if added != nil && visited[added] != 0 && err == nil {
				err = fmt.Errorf("Iterate visited a face that its callback had added")
			}
		}
		for _, x := range live {
			if err == nil {
				err = x.keptIntact()
			}
		}
		for i, x := range live {
			if err == nil {
				if err = x.light(); err != nil && x != s {
					err = fmt.Errorf("live mesh #%d (not the one operated on): %w", i, err)
				}
			}
		}
		if err != nil {
			return fmt.Errorf("%s: %w", where, err)
		}
		if mutated && s.indexed {
			s.mutatedAI++
		}
		if mutated {
			for _, x := range live {
				if x != s && x.indexed {
					siblingMutations++
				}
			}
		}
	}
	total := 0
	for _, x := range live {
		total += x.mutatedAI
	}
	if total > 0 {
		o.NonTrivial()
		o.Label("mutation-after-index")
	}
	if siblingMutations > 0 {
		o.NonTrivial()
		o.Label("mutation-while-indexed-sibling-alive")
	}
	for i, x := range live {
		if err := x.full(); err != nil {
			if x != s {
				return fmt.Errorf("final, live mesh #%d (not the one operated on last): %w", i, err)
			}
			return fmt.Errorf("final: %w", err)
		}
	}
	return nil
}

func zeroed3(t model3d.Triangle) model3d.Triangle {
	for i := range t {
		t[i] = mk3(nz(t[i].X), nz(t[i].Y), nz(cz3(t[i])))
	}
	return t
}

// ---- dimension-specific helpers (the 2D file is generated from this one; see gen2d.py)

const sharedForNeighbor3 = 2 // Neighbors: faces sharing a side = two vertices

func mk3(x, y, z float64) model3d.Coord3D { return model3d.XYZ(x, y, z) }
func cz3(p model3d.Coord3D) float64       { return p.Z }

func mkFace3(a, b, c model3d.Coord3D) *model3d.Triangle { return &model3d.Triangle{a, b, c} }

func mapFace3(t model3d.Triangle, f func(model3d.Coord3D) model3d.Coord3D) model3d.Triangle {
	return model3d.Triangle{f(t[0]), f(t[1]), f(t[2])}
}

func degenerate3(f *model3d.Triangle) bool { return f[0] == f[1] || f[1] == f[2] || f[0] == f[2] }

func reversed3(t model3d.Triangle) model3d.Triangle { return model3d.Triangle{t[0], t[2], t[1]} }

func canonRot3(t model3d.Triangle) model3d.Triangle {
	best := t
	for r := 1; r < 3; r++ {
		c := model3d.Triangle{t[r%3], t[(r+1)%3], t[(r+2)%3]}
		for k := 0; k < 3; k++ {
			if c[k] != best[k] {
				if coordLess3(c[k], best[k]) {
					best = c
				}
				break
			}
		}
	}
	return best
}
