package c09

import (
	"testing"

	"verifharness/kit"
)

const rule = "rapid-generated operation histories over a small vertex pool that contains shared vertices, signed-zero twins and pairs of coordinates whose fast hash collides by absorption; faces include value-duplicates and degenerate faces. Mesh histories: a reference list of face pointers is compared after every step (counts, membership) and at query steps / the end (Find with 1-3 points, Neighbors, vertex lists, AllVertexNeighbors, bounds, Iterate); derived meshes (Copy, DeepCopy, Translate, Scale, MapCoords with merging maps, Transform, InvertNormals) must equal the mapped face multiset. Map histories: every fast map type of both packages against a Go map keyed by the same type. Non-trivial: a mutation after the lazy index was built (mesh) / special keys in the pool (maps). Distinct: hash of the JSON history."

func TestProp(t *testing.T) {
	kit.Run(t, "C09", rule,
		kit.Clause[meshCase]{Name: "C09/mesh3/history", Quick: 12000, Thorough: 300000, Gen: genMeshCase, Check: checkMeshCase},
		kit.Clause[meshCase]{Name: "C09/mesh2/history", Quick: 12000, Thorough: 300000, Gen: genMeshCase, Check: checkMeshCase2},
		kit.Clause[editCase]{Name: "C09/editors/like-fresh", Quick: 1600, Thorough: 24000, Gen: genEditCase, Check: checkEditCase},
		kit.Clause[mapCase]{Name: "C09/maps/history", Quick: 12000, Thorough: 400000, Gen: genMapCase, Check: checkMapCase},
	)
}
