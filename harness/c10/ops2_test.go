package c10

import (
	"fmt"
	"math"
	"reflect"
	"sort"

	"pgregory.net/rapid"
	"verifharness/gen"
	"verifharness/kit"
	"verifharness/m3"
)

type op2 struct {
	K string    `json:"k"`
	F []float64 `json:"f,omitempty"`
	I []int     `json:"i,omitempty"`
}

type case2 struct {
	Src src2  `json:"src"`
	Ops []op2 `json:"ops"`
}

func genOp2(t *rapid.T, kind string) op2 {
	o := op2{K: kind}
	switch kind {
	case "decimate":
		// percentage of the vertex count (>100: nothing to do), or a small absolute number
		o.I = []int{gen.Int(t, 0, 1, "mode"), gen.Int(t, 1, 120, "pct"), gen.Int(t, 3, 12, "abs")}
	case "colinear":
		o.F = []float64{gen.LogF(t, 1e-12, 1e-3, "eps")}
	case "subdivide":
		o.I = []int{gen.Int(t, 1, 4, "iters")}
	case "blur":
		switch gen.Int(t, 0, 3, "ratekind") {
		case 0:
			o.F = []float64{0}
		case 1:
			o.F = []float64{1}
		default:
			o.F = []float64{gen.F(t, 0, 1, "rate")}
		}
	case "smooth", "smoothsq":
		o.I = []int{gen.Int(t, 0, 8, "iters")}
	default:
		panic("c10: unknown 2D op " + kind)
	}
	return o
}

func vertSet2(ss []kit.Seg) map[kit.V2]bool {
	m := map[kit.V2]bool{}
	for _, s := range ss {
		m[canon2(s[0])] = true
		m[canon2(s[1])] = true
	}
	return m
}

func bounds2(ss []kit.Seg) (min, max kit.V2) {
	min, max = kit.V2{math.Inf(1), math.Inf(1)}, kit.V2{math.Inf(-1), math.Inf(-1)}
	for _, s := range ss {
		for _, v := range s {
			for i := 0; i < 2; i++ {
				min[i] = math.Min(min[i], v[i])
				max[i] = math.Max(max[i], v[i])
			}
		}
	}
	return
}

func size2(ss []kit.Seg) (diag, size float64) {
	mn, mx := bounds2(ss)
	diag = mx.Sub(mn).Norm()
	size = diag + math.Max(math.Max(math.Abs(mn[0]), math.Abs(mn[1])), math.Max(math.Abs(mx[0]), math.Abs(mx[1])))
	return
}

func sameSegs(a, b []kit.Seg) bool {
	if len(a) != len(b) {
		return false
	}
	ca, cb := canonSegs(a), canonSegs(b)
	for i := range ca {
		if ca[i] != cb[i] {
			return false
		}
	}
	return true
}

// validInput2: closed oriented outline, every loop with at least three vertices.
func validInput2(ss []kit.Seg) (int, string) {
	if len(ss) == 0 {
		return 0, "empty"
	}
	for _, s := range ss {
		if !s[0].Finite() || !s[1].Finite() {
			return 0, "non-finite"
		}
	}
	loops, err := kit.ClosedOrientedManifold2(ss)
	if err != nil {
		return 0, "not-closed-manifold"
	}
	for _, l := range loops2(ss) {
		if len(l) < 3 {
			return 0, "two-vertex-loop"
		}
	}
	return loops, ""
}

func checkTopo2(out []kit.Seg, loops0 int, what string) error {
	loops, err := kit.ClosedOrientedManifold2(out)
	if err != nil {
		return fmt.Errorf("%s: result is not a closed oriented outline: %w", what, err)
	}
	if loops != loops0 {
		return fmt.Errorf("%s: number of loops changed from %d to %d", what, loops0, loops)
	}
	return nil
}

// turn returns (sin, cos) of the turning angle at b on the path a -> b -> c.
func turn(a, b, c kit.V2) (float64, float64) {
	u, w := b.Sub(a).Unit(), c.Sub(b).Unit()
	return u.Cross(w), u.Dot(w)
}

// matchSegs translates output segments into reference vertex ids (3D matcher on z=0).
func matchSegs(out []kit.Seg, ref []kit.V2, tol float64, what string) ([][2]int, error) {
	r3 := make([]kit.V3, len(ref))
	for i, v := range ref {
		r3[i] = kit.V3{v[0], v[1], 0}
	}
	m := newMatcher(r3, tol)
	res := make([][2]int, len(out))
	for i, s := range out {
		for k := 0; k < 2; k++ {
			id, d := m.find(kit.V3{s[k][0], s[k][1], 0})
			if id < 0 {
				return nil, fmt.Errorf("%s: output vertex %v is not within %.3g of any vertex placed by the published rule (nearest is %.3g away)", what, s[k], tol, d)
			}
			res[i][k] = id
		}
	}
	return res, nil
}

func sameSegIDs(got, want [][2]int, what string) error {
	srt := func(x [][2]int) [][2]int {
		y := append([][2]int(nil), x...)
		sort.Slice(y, func(i, j int) bool {
			if y[i][0] != y[j][0] {
				return y[i][0] < y[j][0]
			}
			return y[i][1] < y[j][1]
		})
		return y
	}
	g, w := srt(got), srt(want)
	if len(g) != len(w) {
		return fmt.Errorf("%s: %d segments, expected %d", what, len(g), len(w))
	}
	for i := range g {
		if g[i] != w[i] {
			return fmt.Errorf("%s: oriented segment sets differ (first difference: got %v, expected %v in reference vertex ids)", what, g[i], w[i])
		}
	}
	return nil
}

func closePair2(ps []kit.V2, tol float64) bool {
	p3 := make([]kit.V3, len(ps))
	for i, v := range ps {
		p3[i] = kit.V3{v[0], v[1], 0}
	}
	return closePair(p3, tol)
}

// colinearOutcomes enumerates the results of EliminateColinear(eps) over all removal orders.  A state is the set
// of surviving vertices; a vertex is removable when 1-cos of its turning angle is below eps.  The library's value
// carries an absolute rounding error of a few 1e-16 (<= 1e-3 relative for eps >= 1e-12), so values within 1% of
// eps are undecidable and end the enumeration, as do zero-length segments, a loop about to drop below three vertices,
// more than 14 removable vertices at the start and more than min(1500, 3e5/vertices) states.  Returns the set of terminal states
// (fmt.Sprint of the sorted surviving vertices) or a reason why there is no verdict.
func colinearOutcomes(ls []loop2, eps float64) (map[string]bool, string) {
	type state []loop2
	classify := func(st state) ([][2]int, string) {
		var el [][2]int
		for li, l := range st {
			n := len(l)
			for i := range l {
				s, c := turn(l[(i+n-1)%n], l[i], l[(i+1)%n])
				d := s * s / (1 + c) // = 1-c for unit vectors, without cancellation
				if c <= 0 {
					d = 1 - c
				}
				switch {
				case d < eps/1.01:
					if n <= 3 {
						return nil, "loop-would-collapse"
					}
					el = append(el, [2]int{li, i})
				case d > eps*1.01:
				default:
					return nil, "undecidable(value-near-eps-or-NaN)"
				}
			}
		}
		return el, ""
	}
	key := func(st state) string {
		var all []kit.V2
		for _, l := range st {
			all = append(all, l...)
		}
		sortV2(all)
		return fmt.Sprint(all)
	}
	start := state(ls)
	el0, why := classify(start)
	if why != "" {
		return nil, why
	}
	if len(el0) > 14 {
		return nil, "skipped(more-than-14-removable)"
	}
	// work bound: states * vertices <= ~3e5
	nv := 0
	for _, l := range ls {
		nv += len(l)
	}
	maxStates := 300000 / (nv + 1)
	if maxStates > 1500 {
		maxStates = 1500
	}
	finals := map[string]bool{}
	seen := map[string]bool{key(start): true}
	stack := []state{start}
	for len(stack) > 0 {
		st := stack[len(stack)-1]
		stack = stack[:len(stack)-1]
		el, why := classify(st)
		if why != "" {
			return nil, why
		}
		if len(el) == 0 {
			finals[key(st)] = true
			continue
		}
		for _, e := range el {
			nx := make(state, len(st))
			copy(nx, st)
			l := st[e[0]]
			nl := make(loop2, 0, len(l)-1)
			nl = append(nl, l[:e[1]]...)
			nl = append(nl, l[e[1]+1:]...)
			nx[e[0]] = nl
			k := key(nx)
			if !seen[k] {
				if len(seen) >= maxStates {
					return nil, "skipped(too-many-states)"
				}
				seen[k] = true
				stack = append(stack, nx)
			}
		}
	}
	return finals, ""
}

func step2(in []kit.Seg, loops0 int, op op2, o *kit.Obs) (out []kit.Seg, stop string, err error) {
	mesh := m3.MeshFromSegs(in)
	diag, size := size2(in)
	vi := vertSet2(in)
	o.Label("op:" + op.K)
	// every 2D operation returns a new mesh and leaves the one it was applied to alone
	defer func() {
		if err != nil {
			return
		}
		if after := canonSegs(m3.Segs(mesh)); !reflect.DeepEqual(after, canonSegs(in)) {
			err = fmt.Errorf("%s changed the mesh it was applied to: %d segments before, %d after", op.K, len(in), len(after))
		}
	}()
	switch op.K {
	case "decimate":
		max := op.I[2]
		if op.I[0] == 0 {
			max = len(vi) * op.I[1] / 100
		}
		what := fmt.Sprintf("Decimate(%d) of %d vertices in %d loops", max, len(vi), loops0)
		out = canonSegs(m3.Segs(mesh.Decimate(max)))
		if err = checkTopo2(out, loops0, what); err != nil {
			return
		}
		// a loop of two vertices is a pair of opposite segments on the same end points (the library's own guard:
		// "deleting this vertex would create a duplicate segment"): no longer the outline of a region
		for _, l := range loops2(out) {
			if len(l) < 3 {
				err = fmt.Errorf("%s: a loop was reduced to %d vertices", what, len(l))
				return
			}
		}
		vo := vertSet2(out)
		for v := range vo {
			if !vi[v] {
				err = fmt.Errorf("%s: output vertex %v is not an input vertex", what, v)
				return
			}
		}
		if len(vi) <= max {
			o.Label("decimate:nothing-to-do")
			if !sameSegs(in, out) {
				err = fmt.Errorf("%s: the mesh already satisfies the limit but was changed", what)
			}
			return
		}
		// a loop cannot drop below three vertices without ceasing to be an outline, so the limit is
		// only attainable when it leaves three vertices per loop
		if max >= 3*loops0 {
			o.Label("decimate:limit-attainable")
			if kit.Excluded("decimate2d-small-loop") && loops0 > 1 && len(vo) > max {
				// known finding: a removal that is refused because the loop is already a triangle is still
				// counted as a removal; the class is recognised by a triangle among the output loops
				// (without one nothing was refused and the limit must hold)
				for _, l := range loops2(out) {
					if len(l) == 3 {
						kit.CountExcluded("decimate2d-small-loop")
						o.Label("excluded:decimate2d-small-loop")
						return
					}
				}
			}
			if len(vo) > max {
				err = fmt.Errorf("%s: %d vertices remain, documented hard limit for manifold meshes is %d", what, len(vo), max)
			}
		} else {
			o.Label("decimate:limit-below-3-per-loop")
		}
		return

	case "colinear":
		eps := op.F[0]
		what := fmt.Sprintf("EliminateColinear(%g)", eps)
		out = canonSegs(m3.Segs(mesh.EliminateColinear(eps)))
		// band analysis on the input: every vertex is straight to rounding (|sin| < 1e-12) or a clear corner
		// (1-cos > 1e4*eps); otherwise vertices near the threshold may or may not go
		band, straight := false, 0
		for _, l := range loops2(in) {
			n, corners := len(l), 0
			for i := range l {
				s, c := turn(l[(i+n-1)%n], l[i], l[(i+1)%n])
				switch {
				case c > 0 && math.Abs(s) < 1e-12:
					straight++
				case 1-c > 1e4*eps:
					corners++
				default:
					band = true
					corners++
				}
			}
			if corners < 3 {
				// a loop with two corners encloses no area: not the outline of a region
				return nil, "degenerate:loop-without-area", nil
			}
		}
		// a loop that is straight everywhere but at two vertices has no area: not an outline of a region
		for _, l := range loops2(out) {
			if len(l) < 3 {
				if band {
					return nil, "degenerate:loop-collapsed(angles-in-band)", nil
				}
				err = fmt.Errorf("%s: a loop was reduced to %d vertices", what, len(l))
				return
			}
		}
		if err = checkTopo2(out, loops0, what); err != nil {
			return
		}
		vo := vertSet2(out)
		for v := range vo {
			if !vi[v] {
				err = fmt.Errorf("%s: output vertex %v is not an input vertex", what, v)
				return
			}
		}
		// the published procedure (remove any vertex whose segments' normals differ by 1-cos < eps, re-examine its
		// two neighbours, repeat) leaves the order open; the result must be one of the outcomes some order produces
		if finals, why := colinearOutcomes(loops2(in), eps); why != "" {
			o.Label("colinear:outcomes-" + why)
		} else {
			o.Labelf("colinear:outcomes-enumerated(%s)", map[bool]string{true: "several", false: "one"}[len(finals) > 1])
			var left []kit.V2
			for v := range vo {
				left = append(left, v)
			}
			sortV2(left)
			if !finals[fmt.Sprint(left)] {
				err = fmt.Errorf("%s: the %d remaining vertices are not the result of any order of removals by the published rule (%d possible results; %d input vertices)", what, len(left), len(finals), len(vi))
				return
			}
		}
		removed := len(vi) - len(vo)
		if removed > 0 {
			o.Label("colinear:removed")
		}
		a0, a1 := kit.SignedArea2(in), kit.SignedArea2(out)
		if !band {
			if straight > 0 {
				o.Label("colinear:exact-regime")
			}
			// all straight vertices go, all corners stay
			if removed != straight {
				// a loop consisting of straight vertices only cannot occur (closed loops turn by 2 pi)
				err = fmt.Errorf("%s: %d vertices removed, but exactly %d vertices join colinear segments (all others turn by more than 1e4*eps)", what, removed, straight)
				return
			}
			if math.Abs(a0-a1) > 1e-9*math.Abs(a0)+1e-12*size*size {
				err = fmt.Errorf("%s: enclosed area changed from %.15g to %.15g although only exactly colinear vertices were removable", what, a0, a1)
			}
			return
		}
		o.Label("colinear:angle-in-band")
		// every removal drops a vertex whose current turning angle t has 1-cos t < eps: the area changes by
		// 1/2 |e1||e2| sin t <= 1/2 diag^2 sqrt(2 eps)
		if lim := float64(removed)*0.5*diag*diag*math.Sqrt(2*eps)*1.01 + 1e-12*size*size; math.Abs(a0-a1) > lim {
			err = fmt.Errorf("%s: enclosed area changed by %.6g, more than %d removals of vertices within the threshold can explain (%.6g)", what, math.Abs(a0-a1), removed, lim)
			return
		}
		// completeness: no remaining vertex is well inside the threshold
		for _, l := range loops2(out) {
			n := len(l)
			for i := range l {
				s, c := turn(l[(i+n-1)%n], l[i], l[(i+1)%n])
				if c > 0 && s*s/2 < eps/4 && s*s/2 < 0.01 {
					err = fmt.Errorf("%s: vertex %v remains although its segments' normals differ by 1-cos = %.3g < eps", what, l[i], s*s/2)
					return
				}
			}
		}
		return

	case "subdivide":
		iters := op.I[0]
		for iters > 1 && len(in)<<uint(iters) > 6000 {
			iters--
		}
		what := fmt.Sprintf("Subdivide(%d)", iters)
		ref := loops2(in)
		for i := 0; i < iters; i++ {
			ref = refChaikin(ref)
			var all []kit.V2
			for _, l := range ref {
				all = append(all, l...)
			}
			if closePair2(all, 1e-9*size) {
				return nil, "degenerate:chaikin-points-coincide", nil
			}
		}
		var pts []kit.V2
		var want [][2]int
		for _, l := range ref {
			base := len(pts)
			for i := range l {
				want = append(want, [2]int{base + i, base + (i+1)%len(l)})
			}
			pts = append(pts, l...)
		}
		out = canonSegs(m3.Segs(mesh.Subdivide(iters)))
		if err = checkTopo2(out, loops0, what); err != nil {
			return
		}
		var ids [][2]int
		if ids, err = matchSegs(out, pts, 1e-12*size, what); err != nil {
			return
		}
		err = sameSegIDs(ids, want, what)
		return

	case "blur":
		rate := op.F[0]
		what := fmt.Sprintf("Blur(%g)", rate)
		out = canonSegs(m3.Segs(mesh.Blur(rate)))
		if rate == 0 {
			o.Label("blur:rate0")
			if !sameSegs(in, out) {
				err = fmt.Errorf("%s: rate 0 is documented as leaving the vertices where they are, but the mesh changed", what)
			}
			return
		}
		var pts []kit.V2
		var want [][2]int
		for _, l := range loops2(in) {
			base, n := len(pts), len(l)
			for i := range l {
				mean := l[(i+n-1)%n].Add(l[(i+1)%n]).Scale(0.5)
				pts = append(pts, l[i].Scale(1-rate).Add(mean.Scale(rate)))
				want = append(want, [2]int{base + i, base + (i+1)%n})
			}
		}
		if closePair2(pts, 1e-9*size) {
			return nil, "degenerate:blurred-vertices-coincide", nil
		}
		var ids [][2]int
		if ids, err = matchSegs(out, pts, 1e-12*size, what); err != nil {
			return
		}
		if err = sameSegIDs(ids, want, what); err != nil {
			return
		}
		err = checkTopo2(out, loops0, what)
		return

	case "smooth", "smoothsq":
		iters := op.I[0]
		sq := op.K == "smoothsq"
		what := fmt.Sprintf("Smooth(%d)", iters)
		if sq {
			what = fmt.Sprintf("SmoothSq(%d)", iters)
			out = canonSegs(m3.Segs(mesh.SmoothSq(iters)))
		} else {
			out = canonSegs(m3.Segs(mesh.Smooth(iters)))
		}
		if iters == 0 {
			o.Label("smooth:zero-iterations")
			if !sameSegs(in, out) {
				err = fmt.Errorf("%s: zero iterations must be the identity but the mesh changed", what)
			}
			return
		}
		// degenerate class: the rule itself moves vertices onto each other (SmoothSq collapses a regular
		// polygon to a single point, after which the step is 0/0); recognised on the reference trajectory.
		// The library's golden-section step agrees with the reference line search to ~1e-7 per iteration.
		dtol := 1e-9 * size
		if !sq {
			dtol = 1e-5 * size
		}
		if refSmooth2Degenerate(loops2(in), sq, iters, dtol) {
			return nil, "degenerate:smoothed-vertices-coincide", nil
		}
		for _, s := range out {
			if !s[0].Finite() || !s[1].Finite() {
				err = fmt.Errorf("%s: non-finite vertex in the result", what)
				return
			}
		}
		if len(out) != len(in) {
			err = fmt.Errorf("%s: segment count changed from %d to %d", what, len(in), len(out))
			return
		}
		// the connectivity is carried over by index; only coinciding vertices can break it
		if err = checkTopo2(out, loops0, what); err != nil {
			return
		}
		// both minimise an objective (sum of lengths / squared lengths) by line search along the
		// negative gradient: the objective cannot go up
		obj := func(ss []kit.Seg) float64 {
			t := 0.0
			for _, s := range ss {
				d := s[0].Dist(s[1])
				if sq {
					d *= d
				}
				t += d
			}
			return t
		}
		if f0, f1 := obj(in), obj(out); f1 > f0*(1+1e-9) {
			err = fmt.Errorf("%s: the minimised objective went up from %.15g to %.15g", what, f0, f1)
		}
		return
	}
	panic("c10: unknown 2D op " + op.K)
}

func checkOps2(c case2, o *kit.Obs) error {
	in, skip := c.Src.build()
	if skip != "" {
		o.Skip(skip)
		return nil
	}
	loops, bad := validInput2(in)
	if bad != "" {
		o.Skip("input-" + bad)
		return nil
	}
	o.Label("src:" + c.Src.Kind)
	if loops > 1 {
		o.Label("input:several-loops")
	}
	changed := false
	for i, op := range c.Ops {
		out, stop, err := step2(in, loops, op, o)
		if err != nil {
			return fmt.Errorf("step %d/%d: %w", i+1, len(c.Ops), err)
		}
		if stop != "" {
			o.Skip(stop)
			break
		}
		if !sameSegs(in, out) {
			changed = true
		}
		if i+1 < len(c.Ops) {
			if _, bad := validInput2(out); bad != "" {
				o.Skip("intermediate-" + bad)
				break
			}
			if len(out) > 6000 {
				o.Skip("intermediate-too-large")
				break
			}
		}
		in = out
	}
	if changed {
		o.NonTrivial()
	}
	return nil
}
