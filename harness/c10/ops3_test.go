package c10

import (
	"fmt"
	"math"
	"reflect"
	"sort"

	"github.com/unixpickle/model3d/model3d"
	"pgregory.net/rapid"
	"verifharness/gen"
	"verifharness/kit"
	"verifharness/m3"
)

// ---------------------------------------------------------------------------
// operation descriptions (data only)

type op3 struct {
	K string    `json:"k"`
	F []float64 `json:"f,omitempty"`
	I []int     `json:"i,omitempty"`
	B []bool    `json:"b,omitempty"`
}

type case3 struct {
	Src src3  `json:"src"`
	Ops []op3 `json:"ops"`
}

const maxOutFaces = 3000

// selector3 builds a deterministic vertex predicate.  kind 0: none (nil); 1: pct percent of
// the vertices by coordinate hash; 2: the lower pct percent of the bounding box along an axis.
func selector3(kind, pct, seed int, b bbox3) func(kit.V3) bool {
	switch kind {
	case 1:
		return func(v kit.V3) bool { return unit(h3(canon(v), seed))*100 < float64(pct) }
	case 2:
		ax := seed % 3
		lim := b.min[ax] + float64(pct)/100*(b.max[ax]-b.min[ax])
		return func(v kit.V3) bool { return v[ax] < lim }
	}
	return nil
}

func genSel(t *rapid.T, label string) []int {
	return []int{gen.Int(t, 0, 2, label+".kind"), gen.Int(t, 0, 100, label+".pct"), gen.Int(t, 0, 1<<20, label+".seed")}
}

func genOp3(t *rapid.T, kind string) op3 {
	o := op3{K: kind}
	switch kind {
	case "decimate":
		fa := 0.0
		if gen.Int(t, 0, 1, "fa.set") == 1 {
			fa = gen.LogF(t, 0.02, 3, "featureAngle")
		}
		mar := 0.0
		if gen.Int(t, 0, 1, "mar.set") == 1 {
			mar = gen.LogF(t, 1e-3, 0.6, "minAspect")
		}
		o.F = []float64{fa, gen.LogF(t, 1e-4, 0.5, "planeDist"), gen.LogF(t, 1e-4, 0.5, "boundaryDist"), mar}
		// SplitAttempts >= 2 switches to the exhaustive search over splits: exercised by the dedicated
		// clause C10/3d/decimate-split (genDecimateSplit overrides this field)
		o.I = append([]int{gen.Int(t, 0, 1, "splitAttempts")}, genSel(t, "filter")...)
		o.B = []bool{(gen.Int(t, 0, 1, "noEdge") == 1), (gen.Int(t, 0, 1, "elimCorners") == 1), gen.Int(t, 0, 4, "simple") == 0}
	case "coplanar":
		o.F = []float64{gen.LogF(t, 1e-12, 1e-6, "eps")}
		o.I = genSel(t, "filter")
	case "edges":
		o.F = []float64{gen.LogF(t, 0.3, 3, "lenFactor"), gen.LogF(t, 0.01, 0.3, "jitter")}
		o.I = []int{gen.Int(t, 0, 2, "mode"), gen.Int(t, 1, 100, "pct"), gen.Int(t, 0, 1<<20, "seed")}
	case "flip":
	case "subdiv":
		o.I = []int{gen.Int(t, 1, 6, "n")}
	case "loop":
		o.I = []int{gen.Int(t, 1, 2, "iters")}
	case "subdivider":
		o.F = []float64{gen.F(t, 0, 0.3, "amp")}
		o.I = []int{gen.Int(t, 0, 2, "mode"), gen.Int(t, 1, 100, "pct"), gen.Int(t, 0, 1<<20, "seed"), gen.Int(t, 0, 1, "addFiltered")}
	case "blur":
		n := gen.Int(t, 1, 4, "nrates")
		for i := 0; i < n; i++ {
			switch gen.Int(t, 0, 4, "ratekind") {
			case 0:
				o.F = append(o.F, 0)
			case 1:
				o.F = append(o.F, 1)
			case 2:
				o.F = append(o.F, -1)
			default:
				o.F = append(o.F, gen.F(t, 0, 1, "rate"))
			}
		}
		o.I = genSel(t, "filter")
	case "smooth":
		cd, cw, cf := 0.0, 0.0, 0.0
		if gen.Int(t, 0, 2, "cw.set") == 0 {
			cw = gen.LogF(t, 0.01, 2, "cweight")
			if gen.Int(t, 0, 1, "cd.set") == 1 {
				cd = gen.LogF(t, 1e-3, 0.1, "cdist")
			}
		}
		if gen.Int(t, 0, 4, "cf.set") == 0 {
			cf = gen.LogF(t, 0.01, 1, "cfunc")
		}
		o.F = []float64{gen.LogF(t, 1e-3, 0.3, "step"), cd, cw, cf}
		o.I = append([]int{gen.Int(t, 0, 6, "iters")}, genSel(t, "hard")...)
		o.I = append(o.I, gen.Int(t, 0, 1, "api"))
	case "voxel":
		o.F = []float64{gen.LogF(t, 1e-3, 0.3, "step"), gen.LogF(t, 1e-4, 0.1, "maxDist")}
		o.I = []int{gen.Int(t, 0, 6, "iters")}
	case "arap":
		o.F = []float64{gen.LogF(t, 1e-3, 0.1, "disp")}
		o.I = []int{gen.Int(t, 0, 2, "weights"), gen.Int(t, 1, 8, "ncons"), gen.Int(t, 0, 1<<20, "seed")}
	default:
		panic("c10: unknown op kind " + kind)
	}
	return o
}

// ---------------------------------------------------------------------------
// one step: run the operation on a valid closed manifold and check its contract.
// stop != "" means the rest of a chain is not evaluated (degenerate class met, or the
// operation was not applicable); err != nil is a violation.

func step3(in []kit.Tri, rep0 *kit.TopoReport, op op3, o *kit.Obs) (out []kit.Tri, stop string, err error) {
	b := bounds3(in)
	diag := b.diag()
	size := size3(in)
	mesh := m3.MeshFromTris(in)
	what := op.K
	o.Label("op:" + op.K)
	if op.K != "subdivider" { // Subdivider.Subdivide is the one operation documented to work in place
		// every other operation returns a new mesh (or a map) and leaves the one it was applied to alone:
		// a second level of detail, or a before/after comparison, is made from the same source
		defer func() {
			if err != nil {
				return
			}
			if after := canonTris(m3.Tris(mesh)); !reflect.DeepEqual(after, canonTris(in)) {
				err = fmt.Errorf("%s changed the mesh it was applied to: %d faces before, %d after, %s", what, len(in), len(after), firstTriDiff(canonTris(in), after))
			}
		}()
	}

	switch op.K {
	case "decimate":
		d := &model3d.Decimator{FeatureAngle: op.F[0], PlaneDistance: op.F[1] * diag, BoundaryDistance: op.F[2] * diag,
			MinimumAspectRatio: op.F[3], SplitAttempts: op.I[0], NoEdgePreservation: op.B[0], EliminateCorners: op.B[1]}
		sel := selector3(op.I[1], op.I[2], op.I[3], b)
		if op.I[0] >= 2 && !op.B[2] && kit.Excluded("decimate-splitattempts-exponential") && rep0.V > 14 {
			// known finding: the search over splits is exponential in the size of the hole when no triangulation
			// of it is acceptable.  Holes grow while neighbours are removed, so the valences of the input say
			// little; a hole has fewer vertices than the mesh, and up to 13 the search stays below a millisecond.
			kit.CountExcluded("decimate-splitattempts-exponential")
			return nil, "excluded:decimate-splitattempts-exponential", nil
		}
		var res *model3d.Mesh
		if op.B[2] {
			sel = nil
			what = "DecimateSimple"
			res = model3d.DecimateSimple(mesh, op.F[1]*diag)
		} else {
			if sel != nil {
				d.FilterFunc = func(c model3d.Coord3D) bool { return sel(m3.V3(c)) }
			}
			what = "Decimator.Decimate"
			res = d.Decimate(mesh)
		}
		out = canonTris(m3.Tris(res))
		if _, err = checkTopo3(out, rep0, what); err != nil {
			return
		}
		if err = checkSubset(in, out, sel, what); err != nil {
			return
		}
		if len(out) < len(in) {
			o.Label("decimate:removed")
		}
		return

	case "coplanar":
		eps := op.F[0]
		sel := selector3(op.I[0], op.I[1], op.I[2], b)
		var res *model3d.Mesh
		if sel != nil {
			what = "EliminateCoplanarFiltered"
			res = mesh.EliminateCoplanarFiltered(eps, func(c model3d.Coord3D) bool { return sel(m3.V3(c)) })
		} else {
			what = "EliminateCoplanar"
			res = mesh.EliminateCoplanar(eps)
		}
		out = canonTris(m3.Tris(res))
		if _, err = checkTopo3(out, rep0, what); err != nil {
			return
		}
		if err = checkSubset(in, out, sel, what); err != nil {
			return
		}
		band, flat := flatBand(in, eps)
		if len(out) < len(in) {
			o.Label("coplanar:removed")
		}
		if band {
			o.Label("coplanar:angle-in-band(no volume clause)")
			return
		}
		if flat > 0 {
			o.Label("coplanar:exact-regime")
		}
		// every removable vertex is flat to rounding (normals within 1e-12 rad) or on a straight
		// crease: the surface as a point set is unchanged
		v0, v1 := kit.SignedVolume(in), kit.SignedVolume(out)
		if math.Abs(v0-v1) > volTol(v0, size) {
			err = fmt.Errorf("%s(eps=%g): enclosed volume changed from %.15g to %.15g although every removable vertex is coplanar/colinear to rounding (tolerance %.3g)", what, eps, v0, v1, volTol(v0, size))
			return
		}
		a0, a1 := kit.SurfaceArea(in), kit.SurfaceArea(out)
		if math.Abs(a0-a1) > 1e-9*a0 {
			err = fmt.Errorf("%s(eps=%g): surface area changed from %.15g to %.15g although every removable vertex is coplanar/colinear to rounding", what, eps, a0, a1)
		}
		return

	case "edges":
		// general position by construction: the collapse target is the midpoint of an edge, which on
		// symmetric inputs (lattices, subdivided boxes) can coincide exactly with another vertex
		amp := op.F[1] * minEdge3(in) / 4
		if !(amp > 0) {
			return nil, "zero-length-edge", nil
		}
		jit := make([]kit.Tri, len(in))
		for i, t := range in {
			for k := 0; k < 3; k++ {
				v := t[k]
				jit[i][k] = kit.V3{v[0] + amp*(2*unit(h3(v, op.I[2]+7))-1), v[1] + amp*(2*unit(h3(v, op.I[2]+8))-1), v[2] + amp*(2*unit(h3(v, op.I[2]+9))-1)}
			}
		}
		in = canonTris(jit)
		var rep1 *kit.TopoReport
		if rep1, stop = validInput3(in); stop != "" {
			return nil, "jitter-broke-input", nil
		}
		rep0 = rep1
		mesh = m3.MeshFromTris(in)
		var lens []float64
		for _, t := range in {
			for k := 0; k < 3; k++ {
				lens = append(lens, t[k].Dist(t[(k+1)%3]))
			}
		}
		sort.Float64s(lens)
		thr := op.F[0] * lens[len(lens)/2]
		calls := 0
		guard, vetoed := kit.Excluded("eliminate-edges-link-condition"), false
		var foldErr error
		f := func(tmp *model3d.Mesh, s model3d.Segment) bool {
			// known finding: the library collapses edges whose end points have a common neighbour besides the
			// two apexes (link condition); while it is open, such collapses are vetoed through the callback
			if guard && !linkOK(tmp, s) {
				if !vetoed {
					vetoed = true
					kit.CountExcluded("eliminate-edges-link-condition")
				}
				return false
			}
			yes := false
			switch op.I[0] {
			case 0:
				yes = s[0].Dist(s[1]) < thr
			case 1:
				yes = unit(hpair(m3.V3(s[0]), m3.V3(s[1]), op.I[2]))*100 < float64(op.I[1])
			default:
				calls++
				yes = calls <= op.I[1]
			}
			if yes && foldErr == nil {
				foldErr = foldOver(tmp, s)
			}
			return yes
		}
		what = "EliminateEdges"
		out = canonTris(m3.Tris(mesh.EliminateEdges(f)))
		if foldErr != nil {
			err = fmt.Errorf("%s: %w", what, foldErr)
			return
		}
		if len(out) == len(in) {
			o.Label("edges:none-removed")
		} else {
			o.Label("edges:removed")
		}
		if _, err = checkTopo3(out, rep0, what); err != nil {
			err = fmt.Errorf("%w; jittered input had %d faces, output %d", err, len(in), len(out))
		}
		return

	case "flip":
		what = "FlipDelaunay"
		// the new faces are oriented by comparing normals: a face without area (three colinear vertices, as a
		// blur can produce) has no normal and is a degenerate input
		if minAspect(in) < 1e-9 {
			return nil, "degenerate:zero-area-face", nil
		}
		if kit.Excluded("flip-delaunay-existing-edge") && flipRisk(in) {
			// known finding: an edge is flipped although its two apexes are already joined by an edge; the
			// damaged mesh can then keep the flip loop busy for ever (a face with a repeated vertex has NaN
			// angles).  The configuration arises after earlier flips too (seen on a 270-face mesh without any
			// such edge and without vertices of valence <= 4), in an order that depends on Go's map iteration,
			// so while the finding is open only inputs that need no flip at all are handed to the library.
			kit.CountExcluded("flip-delaunay-existing-edge")
			return nil, "excluded:flip-delaunay-existing-edge", nil
		}
		out = canonTris(m3.Tris(mesh.FlipDelaunay()))
		if kit.Excluded("flip-delaunay-existing-edge") && flippedOntoExistingEdge(out) {
			// ... and the configuration can also arise after several flips.  Which edges are flipped depends on
			// Go's map order, so those runs can only be recognised by their footprint: an edge with more than
			// two faces or a face with a repeated vertex.
			kit.CountExcluded("flip-delaunay-existing-edge")
			return nil, "excluded:flip-delaunay-existing-edge(footprint)", nil
		}
		if _, err = checkTopo3(out, rep0, what); err != nil {
			return
		}
		if len(out) != len(in) {
			err = fmt.Errorf("%s: face count changed from %d to %d", what, len(in), len(out))
			return
		}
		vi, vo := vertSet3(in), vertSet3(out)
		for v := range vo {
			if !vi[v] {
				err = fmt.Errorf("%s: output vertex %v is not an input vertex", what, v)
				return
			}
		}
		if !sameTris(in, out) {
			o.Label("flip:flipped")
		}
		// documented postcondition: the mesh is Delaunay (opposite angles sum to <= pi); the
		// library's threshold is pi+1e-8 on acos-derived angles whose error is <= ~3e-8
		// An edge whose two apexes are already joined by an edge (or coincide) cannot be flipped in a
		// vertex-indexed mesh without creating an edge with four faces: such edges are exempt.
		im, _ := index(out)
		es, opp := im.edges()
		exempt := false
		for _, e := range es {
			if k := opp[e]; k[0] == k[1] || len(opp[ek(k[0], k[1])]) > 0 {
				if !exempt {
					exempt = true
					o.Label("flip:has-unflippable-edge")
				}
				continue
			}
			s := 0.0
			for _, k := range opp[e] {
				u, w := im.V[e[0]].Sub(im.V[k]), im.V[e[1]].Sub(im.V[k])
				s += math.Atan2(u.Cross(w).Norm(), u.Dot(w))
			}
			if s > math.Pi+1e-6 {
				err = fmt.Errorf("%s: edge %v-%v still has opposite angles summing to pi+%.3g (not Delaunay)", what, im.V[e[0]], im.V[e[1]], s-math.Pi)
				return
			}
		}
		return

	case "subdiv":
		n := op.I[0]
		for n > 1 && len(in)*n*n > maxOutFaces {
			n--
		}
		what = fmt.Sprintf("SubdivideEdges(n=%d)", n)
		im, _ := index(in)
		ref := refSubdivide(im, n)
		if closePair(ref.V, 1e-9*size) {
			return nil, "degenerate:subdivision-points-coincide", nil
		}
		out = canonTris(m3.Tris(model3d.SubdivideEdges(mesh, n)))
		if len(out) != n*n*len(in) {
			err = fmt.Errorf("%s: %d faces, documented n^2 per face = %d", what, len(out), n*n*len(in))
			return
		}
		if _, err = checkTopo3(out, rep0, what); err != nil {
			return
		}
		var ids [][3]int
		if ids, err = matchFaces(out, ref.V, 1e-12*size, what); err != nil {
			return
		}
		if err = sameFaces(ids, ref.T, what); err != nil {
			return
		}
		v0, v1 := kit.SignedVolume(in), kit.SignedVolume(out)
		if math.Abs(v0-v1) > volTol(v0, size) {
			err = fmt.Errorf("%s: enclosed volume changed from %.15g to %.15g", what, v0, v1)
			return
		}
		a0, a1 := kit.SurfaceArea(in), kit.SurfaceArea(out)
		if math.Abs(a0-a1) > 1e-9*a0 {
			err = fmt.Errorf("%s: surface area changed from %.15g to %.15g", what, a0, a1)
		}
		return

	case "loop":
		iters := op.I[0]
		for iters > 1 && len(in)*pow4(iters) > maxOutFaces {
			iters--
		}
		if len(in)*4 > maxOutFaces {
			return nil, "op-skipped-size", nil
		}
		what = fmt.Sprintf("LoopSubdivision(iters=%d)", iters)
		ref, _ := index(in)
		for i := 0; i < iters; i++ {
			ref = refLoop(ref)
			if closePair(ref.V, 1e-9*size) {
				return nil, "degenerate:loop-points-coincide", nil
			}
		}
		out = canonTris(m3.Tris(model3d.LoopSubdivision(mesh, iters)))
		if _, err = checkTopo3(out, rep0, what); err != nil {
			return
		}
		var ids [][3]int
		if ids, err = matchFaces(out, ref.V, 1e-12*size, what); err != nil {
			return
		}
		err = sameFaces(ids, ref.T, what)
		return

	case "subdivider":
		return stepSubdivider(in, rep0, op, o, mesh, size)

	case "blur":
		return stepBlur(in, rep0, op, o, mesh, b, size)

	case "smooth", "voxel":
		return stepSmooth(in, rep0, op, o, mesh, b, size)

	case "arap":
		return stepARAPFree(in, rep0, op, o, mesh, size)
	}
	panic("c10: unknown op " + op.K)
}

// linkOK: the end points of the segment have exactly two common neighbours in tmp (harness-side
// guard used only while the known finding eliminate-edges-link-condition is open).
func linkOK(tmp *model3d.Mesh, s model3d.Segment) bool {
	nb := func(p model3d.Coord3D) map[model3d.Coord3D]bool {
		r := map[model3d.Coord3D]bool{}
		for _, t := range tmp.Find(p) {
			for _, c := range t {
				if c != p {
					r[c] = true
				}
			}
		}
		return r
	}
	a, b := nb(s[0]), nb(s[1])
	common := 0
	for c := range a {
		if b[c] {
			common++
		}
	}
	return common == 2
}

// foldOver: the segment offered to the callback is collapsed onto its midpoint as soon as the callback
// returns true.  The library only offers segments that passed its fold-over guard (the normals of
// (p1,p2,s0) and (p1,p2,s1) do not oppose each other for any triangle that survives the collapse);
// the normal of (p1,p2,x) is linear in x, so under that guard n(mid)·n(old) = (|n(old)|^2 + n(s0)·n(s1))/2
// >= |n(old)|^2/2: no surviving triangle may turn against its previous orientation.  Reported when the
// cosine between old and new normal is below -1e-6 for a triangle whose old and new areas are not negligible.
func foldOver(tmp *model3d.Mesh, s model3d.Segment) error {
	s0, s1 := m3.V3(s[0]), m3.V3(s[1])
	mid := s0.Add(s1).Scale(0.5)
	scale := s0.Dist(s1)
	for _, p := range s {
		for _, t := range tmp.Find(p) {
			for k := 0; k < 3; k++ {
				scale = math.Max(scale, t[k].Dist(t[(k+1)%3]))
			}
		}
	}
	for i, p := range s {
		for _, t := range tmp.Find(p) {
			if t[0] == s[1-i] || t[1] == s[1-i] || t[2] == s[1-i] {
				continue
			}
			old := kit.Tri{m3.V3(t[0]), m3.V3(t[1]), m3.V3(t[2])}
			nw := old
			for k := range nw {
				if t[k] == p {
					nw[k] = mid
				}
			}
			n0 := old[1].Sub(old[0]).Cross(old[2].Sub(old[0]))
			n1 := nw[1].Sub(nw[0]).Cross(nw[2].Sub(nw[0]))
			l0, l1 := n0.Norm(), n1.Norm()
			if l0 < 1e-9*scale*scale || l1 < 1e-9*scale*scale {
				continue
			}
			if c := n0.Dot(n1) / (l0 * l1); c < -1e-6 {
				return fmt.Errorf("collapsing %v-%v onto its midpoint turns triangle %v over (cosine between old and new normal %.6g): the fold-over guard let it pass", s0, s1, old, c)
			}
		}
	}
	return nil
}

// flipRisk: some edge has opposite angles summing to more than pi - 1e-6 (the library flips at pi + 1e-8),
// i.e. FlipDelaunay would flip at least one edge, or the sum cannot be evaluated.
func flipRisk(ts []kit.Tri) bool {
	im, _ := index(ts)
	es, opp := im.edges()
	for _, e := range es {
		s := 0.0
		for _, k := range opp[e] {
			u, w := im.V[e[0]].Sub(im.V[k]), im.V[e[1]].Sub(im.V[k])
			s += math.Atan2(u.Cross(w).Norm(), u.Dot(w))
		}
		if !(s < math.Pi-1e-6) {
			return true
		}
	}
	return false
}

// flippedOntoExistingEdge: some undirected edge has more than two faces, or a face repeats a vertex.
func flippedOntoExistingEdge(ts []kit.Tri) bool {
	type ue struct{ a, b kit.V3 }
	cnt := map[ue]int{}
	for _, t := range ts {
		if t[0] == t[1] || t[1] == t[2] || t[0] == t[2] {
			return true
		}
		for k := 0; k < 3; k++ {
			a, b := t[k], t[(k+1)%3]
			if kit.V3Less(b, a) {
				a, b = b, a
			}
			cnt[ue{a, b}]++
			if cnt[ue{a, b}] > 2 {
				return true
			}
		}
	}
	return false
}

// minAspect returns the smallest 2*area/longest^2 over the faces (0 for a face without area or extent).
func minAspect(ts []kit.Tri) float64 {
	m := math.Inf(1)
	for _, t := range ts {
		l := math.Max(t[0].Dist(t[1]), math.Max(t[1].Dist(t[2]), t[2].Dist(t[0])))
		a := t[1].Sub(t[0]).Cross(t[2].Sub(t[0])).Norm() / (l * l)
		if !(a > 0) {
			return 0
		}
		m = math.Min(m, a)
	}
	return m
}

func pow4(n int) int {
	r := 1
	for i := 0; i < n; i++ {
		r *= 4
	}
	return r
}

// checkSubset: decimation introduces no vertices and keeps those rejected by the filter.
func checkSubset(in, out []kit.Tri, sel func(kit.V3) bool, what string) error {
	vi, vo := vertSet3(in), vertSet3(out)
	for v := range vo {
		if !vi[v] {
			return fmt.Errorf("%s: output vertex %v is not an input vertex", what, v)
		}
	}
	if sel != nil {
		// deterministic order for the message
		var lost []kit.V3
		for v := range vi {
			if !sel(v) && !vo[v] {
				lost = append(lost, v)
			}
		}
		if len(lost) > 0 {
			sort.Slice(lost, func(i, j int) bool { return kit.V3Less(lost[i], lost[j]) })
			return fmt.Errorf("%s: %d vertices for which the filter returned false were removed (first: %v)", what, len(lost), lost[0])
		}
	}
	return nil
}

// flatBand classifies the input for EliminateCoplanar(eps).  An edge is flat when its two
// face normals agree to 1e-12 rad, a crease when 1-cos exceeds 1e4*eps; anything between (or
// a zero-area face, or two faces folded back onto each other) puts the case in the undecidable band.  A vertex with exactly two crease
// edges is removable when they are colinear: the same trichotomy is applied to them.
// Returns (band hit, number of flat edges).
func flatBand(in []kit.Tri, eps float64) (bool, int) {
	im, _ := index(in)
	nrm := make([]kit.V3, len(im.T))
	for i, t := range im.T {
		n := im.V[t[1]].Sub(im.V[t[0]]).Cross(im.V[t[2]].Sub(im.V[t[0]]))
		l := n.Norm()
		if !(l > 0) {
			return true, 0
		}
		nrm[i] = n.Scale(1 / l)
	}
	faces := map[ekey][]int{}
	for i, t := range im.T {
		for k := 0; k < 3; k++ {
			e := ek(t[k], t[(k+1)%3])
			faces[e] = append(faces[e], i)
		}
	}
	flat := 0
	crease := make([][]int, len(im.V)) // per vertex: far ends of its crease edges
	for e, fs := range faces {
		n1, n2 := nrm[fs[0]], nrm[fs[1]]
		s, c := n1.Cross(n2).Norm(), n1.Dot(n2)
		switch {
		case c > 0 && s < 1e-12:
			flat++
		case c < 0 && s < 1e-6:
			// two faces folded back onto each other (a flap without volume, as over-aggressive decimation of a
			// cone leaves behind): all faces around a vertex of the flap lie in one plane, so the vertex is
			// "coplanar" in the documented sense, yet removing it uncovers a doubly covered region.  Degenerate
			// (not an embedded surface): no area/volume verdict.
			return true, flat
		case 1-c > 1e4*eps:
			crease[e[0]] = append(crease[e[0]], e[1])
			crease[e[1]] = append(crease[e[1]], e[0])
		default:
			return true, flat
		}
	}
	for v, cs := range crease {
		if len(cs) != 2 {
			continue
		}
		u := im.V[cs[0]].Sub(im.V[v]).Unit()
		w := im.V[cs[1]].Sub(im.V[v]).Unit()
		s, c := u.Cross(w).Norm(), -u.Dot(w)
		if (c > 0 && s < 1e-12) || 1-c > 1e4*eps {
			continue
		}
		return true, flat
	}
	return false, flat
}

// ---------------------------------------------------------------------------

func stepSubdivider(in []kit.Tri, rep0 *kit.TopoReport, op op3, o *kit.Obs, mesh *model3d.Mesh, size float64) (out []kit.Tri, stop string, err error) {
	what := "Subdivider.Subdivide"
	// the pieces of a face are oriented like the face by comparing normals: a face without area (three colinear
	// vertices to rounding, as a blur can produce) has no normal and is a degenerate input.  The normal of a
	// face with 2*area/longest^2 = a is known to a relative error of ~1e-16/a.
	if minAspect(in) < 1e-9 {
		return nil, "degenerate:zero-area-face", nil
	}
	im, _ := index(in)
	es, _ := im.edges()
	var lens []float64
	for _, e := range es {
		lens = append(lens, im.V[e[0]].Dist(im.V[e[1]]))
	}
	sorted := kit.SortedFloats(lens)
	thr := sorted[len(sorted)*(100-op.I[1])/101]
	pick := func(a, b kit.V3) bool {
		switch op.I[0] {
		case 0:
			return unit(hpair(canon(a), canon(b), op.I[2]))*100 < float64(op.I[1])
		case 1:
			return a.Dist(b) >= thr
		}
		return true
	}
	amp := op.F[0]
	midpoint := func(a, b kit.V3) kit.V3 {
		h := hpair(canon(a), canon(b), op.I[2]+3)
		d := kit.V3{2*unit(h) - 1, 2*unit(mix64(h)) - 1, 2*unit(mix64(mix64(h))) - 1}
		return a.Add(b).Scale(0.5).Add(d.Scale(amp * a.Dist(b)))
	}
	// reference vertex set: the input vertices plus the supplied midpoint of every selected edge
	want := map[kit.V3]bool{}
	for _, v := range im.V {
		want[canon(v)] = true
	}
	nsel := 0
	sub := model3d.NewSubdivider()
	for _, e := range es {
		a, b := im.V[e[0]], im.V[e[1]]
		if !pick(a, b) {
			continue
		}
		nsel++
		mp := canon(midpoint(a, b))
		if want[mp] || !mp.Finite() {
			return nil, "degenerate:midpoints-coincide", nil
		}
		want[mp] = true
		if op.I[3] == 0 {
			if nsel%2 == 0 {
				sub.Add(m3.C3(a), m3.C3(b))
			} else {
				sub.Add(m3.C3(b), m3.C3(a))
			}
		}
	}
	if len(in)+2*nsel > maxOutFaces {
		return nil, "op-skipped-size", nil
	}
	if op.I[3] == 1 {
		sub.AddFiltered(mesh, func(p1, p2 model3d.Coord3D) bool { return pick(m3.V3(p1), m3.V3(p2)) })
	}
	if sub.NumSegments() != nsel {
		return nil, "", fmt.Errorf("Subdivider: NumSegments() = %d after adding %d distinct mesh edges", sub.NumSegments(), nsel)
	}
	sub.Subdivide(mesh, func(p1, p2 model3d.Coord3D) model3d.Coord3D { return m3.C3(midpoint(m3.V3(p1), m3.V3(p2))) })
	out = canonTris(m3.Tris(mesh))
	o.Labelf("subdivider:%s", map[bool]string{true: "some-edges", false: "no-edges"}[nsel > 0])
	got := vertSet3(out)
	for v := range got {
		if !want[v] {
			return out, "", fmt.Errorf("%s: output vertex %v is neither an input vertex nor a supplied midpoint", what, v)
		}
	}
	if len(got) != len(want) {
		return out, "", fmt.Errorf("%s: %d vertices in the output, expected %d (input vertices + %d supplied midpoints)", what, len(got), len(want), nsel)
	}
	if len(out) != len(in)+2*nsel {
		return out, "", fmt.Errorf("%s: %d faces, expected %d (each of the %d split edges adds one face on either side)", what, len(out), len(in)+2*nsel, nsel)
	}
	_, err = checkTopo3(out, rep0, what)
	return
}

func stepBlur(in []kit.Tri, rep0 *kit.TopoReport, op op3, o *kit.Obs, mesh *model3d.Mesh, b bbox3, size float64) (out []kit.Tri, stop string, err error) {
	what := fmt.Sprintf("Blur%v", op.F)
	var isNb func(a, c kit.V3) bool
	switch op.I[0] {
	case 1: // asymmetric hash of the ordered pair
		isNb = func(a, c kit.V3) bool {
			return unit(mix64(h3(canon(a), op.I[2])*3+h3(canon(c), op.I[2]+5)))*100 < float64(op.I[1])
		}
	case 2:
		sel := selector3(2, op.I[1], op.I[2], b)
		isNb = func(a, c kit.V3) bool { return sel(a) && sel(c) }
	}
	im, _ := index(in)
	ref := refBlur(im, op.F, isNb)
	var res *model3d.Mesh
	if isNb == nil {
		res = mesh.Blur(op.F...)
	} else {
		what = "BlurFiltered" + what[4:]
		res = mesh.BlurFiltered(func(c1, c2 model3d.Coord3D) bool { return isNb(m3.V3(c1), m3.V3(c2)) }, op.F...)
	}
	out = canonTris(m3.Tris(res))
	allZero := true
	for _, r := range op.F {
		if r != 0 {
			allZero = false
		}
	}
	if allZero {
		o.Label("blur:rate0-only")
		if !sameTris(in, out) {
			return out, "", fmt.Errorf("%s: rate 0 is documented as no movement but the mesh changed", what)
		}
		return
	}
	for _, v := range ref {
		if !v.Finite() {
			return nil, "degenerate:non-finite", nil
		}
	}
	if closePair(ref, 1e-9*size) {
		return nil, "degenerate:blurred-vertices-coincide", nil
	}
	// 1e-12 relative: the library sums neighbours in face order, the reference in index order
	ids, err := matchFaces(out, ref, 1e-12*size, what)
	if err != nil {
		return out, "", err
	}
	if err = sameFaces(ids, im.T, what); err != nil {
		return out, "", err
	}
	_, err = checkTopo3(out, rep0, what)
	return
}

func stepSmooth(in []kit.Tri, rep0 *kit.TopoReport, op op3, o *kit.Obs, mesh *model3d.Mesh, b bbox3, size float64) (out []kit.Tri, stop string, err error) {
	im, _ := index(in)
	diag := b.diag()
	var p smoothParams
	var res *model3d.Mesh
	var mapping *model3d.CoordMap[model3d.Coord3D]
	what := ""
	placement := true
	var hardSel func(kit.V3) bool
	if op.K == "voxel" {
		p = smoothParams{step: op.F[0], iters: op.I[0], maxDist: op.F[1] * diag}
		vs := &model3d.VoxelSmoother{StepSize: p.step, Iterations: p.iters, MaxDistance: p.maxDist}
		what = fmt.Sprintf("VoxelSmoother{step %g, iters %d, max %g}", p.step, p.iters, p.maxDist)
		res = vs.Smooth(mesh)
		mapping = vs.SmoothMapping(mesh)
	} else {
		p = smoothParams{step: op.F[0], iters: op.I[0], cdist: op.F[1] * diag, cweight: op.F[2]}
		hardSel = selector3(op.I[1], op.I[2], op.I[3], b)
		plain := p.cweight == 0 && op.F[3] == 0 && hardSel == nil
		if plain && op.I[4] == 0 {
			what = fmt.Sprintf("SmoothAreas(%g, %d)", p.step, p.iters)
			res = mesh.SmoothAreas(p.step, p.iters)
		} else {
			ms := &model3d.MeshSmoother{StepSize: p.step, Iterations: p.iters, ConstraintDistance: p.cdist, ConstraintWeight: p.cweight}
			if hardSel != nil {
				ms.HardConstraintFunc = func(c model3d.Coord3D) bool { return hardSel(m3.V3(c)) }
				p.hard = make([]bool, len(im.V))
				for i, v := range im.V {
					p.hard[i] = hardSel(v)
				}
			}
			if k := op.F[3]; k != 0 {
				ms.ConstraintFunc = func(origin, cur model3d.Coord3D) model3d.Coord3D { return origin.Sub(cur).Scale(k) }
				placement = false // the evaluation point of the custom term is not documented
			}
			what = fmt.Sprintf("MeshSmoother{step %g, iters %d, cdist %g, cweight %g, cfunc %g, hard %v}", p.step, p.iters, p.cdist, p.cweight, op.F[3], hardSel != nil)
			res = ms.Smooth(mesh)
			mapping = ms.SmoothMapping(mesh)
		}
	}
	out = canonTris(m3.Tris(res))
	if p.iters == 0 {
		o.Label("smooth:zero-iterations")
		if !sameTris(in, out) {
			return out, "", fmt.Errorf("%s: zero iterations must be the identity but the mesh changed", what)
		}
		return
	}
	ref, worst := refSmooth(im, p)
	for _, v := range ref {
		if !v.Finite() {
			return nil, "degenerate:non-finite", nil
		}
	}
	if closePair(ref, 1e-7*size) {
		return nil, "degenerate:smoothed-vertices-coincide", nil
	}
	if mapping != nil {
		// hard constraints and the box constraint, read off the documented old->new mapping
		for i, v := range im.V {
			nw, ok := mapping.Load(m3.C3(v))
			if !ok {
				return out, "", fmt.Errorf("%s: SmoothMapping has no entry for input vertex %v", what, v)
			}
			w := m3.V3(nw)
			if p.hard != nil && p.hard[i] && canon(w) != canon(v) {
				return out, "", fmt.Errorf("%s: vertex %v is hard-constrained but moved to %v", what, v, w)
			}
			if p.maxDist > 0 {
				// the bound is applied as clamp(o-d, o+d): allow the rounding of o+-d
				if d := w.Sub(v).MaxAbs(); d > p.maxDist+4e-16*(v.MaxAbs()+p.maxDist) {
					return out, "", fmt.Errorf("%s: vertex %v moved by %.17g in the maximum norm, more than MaxDistance %.17g", what, v, d, p.maxDist)
				}
			}
		}
	}
	if p.hard != nil {
		vo := vertSet3(out)
		for i, v := range im.V {
			if p.hard[i] && !vo[canon(v)] {
				return out, "", fmt.Errorf("%s: hard-constrained vertex %v is missing from the smoothed mesh", what, v)
			}
		}
	}
	if _, err = checkTopo3(out, rep0, what); err != nil {
		return out, "", err
	}
	// placement by the documented rule (x <- x - step * grad(area + weight * max(0,|x-x0|-dist)^2)).
	// Errors of ~1e-16*worst per step are amplified by at most (1 + step*valence*worst) per
	// iteration; only well-conditioned short runs are compared.
	if placement && worst < 30 && p.iters <= 3 {
		o.Label("smooth:placement-compared")
		ids, err := matchFaces(out, ref, 1e-8*size, what)
		if err != nil {
			return out, "", err
		}
		if err = sameFaces(ids, im.T, what); err != nil {
			return out, "", err
		}
	}
	return
}

// stepARAPFree deforms with a few displaced vertices: constraints are met exactly and the
// connectivity is untouched.  Only run on meshes inside ARAP's numerical domain.
func stepARAPFree(in []kit.Tri, rep0 *kit.TopoReport, op op3, o *kit.Obs, mesh *model3d.Mesh, size float64) (out []kit.Tri, stop string, err error) {
	if rep0.Components != 1 || rep0.V > 160 {
		return nil, "op-skipped:arap-needs-small-connected-mesh", nil
	}
	if minAngle(in) < 0.05 {
		return nil, "op-skipped:arap-ill-conditioned", nil
	}
	im, _ := index(in)
	ws := [][2]model3d.ARAPWeightingScheme{{model3d.ARAPWeightingAbsCotangent, model3d.ARAPWeightingAbsCotangent},
		{model3d.ARAPWeightingUniform, model3d.ARAPWeightingUniform}, {model3d.ARAPWeightingAbsCotangent, model3d.ARAPWeightingUniform}}[op.I[0]]
	a := model3d.NewARAPWeighted(mesh, ws[0], ws[1])
	a.SetMaxIterations(60)
	cons := model3d.ARAPConstraints{}
	amp := op.F[0] * bounds3(in).diag()
	want := map[kit.V3]bool{}
	for k := 0; k < op.I[1]; k++ {
		i := int(mix64(uint64(op.I[2]+k)) % uint64(len(im.V)))
		v := im.V[i]
		tgt := canon(kit.V3{v[0] + amp*(2*unit(h3(v, op.I[2]))-1), v[1] + amp*(2*unit(h3(v, op.I[2]+1))-1), v[2] + amp*(2*unit(h3(v, op.I[2]+2))-1)})
		cons[m3.C3(v)] = m3.C3(tgt)
		want[tgt] = true
	}
	what := fmt.Sprintf("ARAP.Deform(%d constraints)", len(cons))
	out = canonTris(m3.Tris(a.Deform(cons)))
	if !finite3(out) {
		return nil, "degenerate:arap-non-finite", nil
	}
	vo := vertSet3(out)
	for tgt := range want {
		if !vo[tgt] {
			return out, "", fmt.Errorf("%s: constrained target %v is not a vertex of the result (constraints must be met exactly)", what, tgt)
		}
	}
	if len(vo) < len(im.V) {
		return nil, "degenerate:deformed-vertices-coincide", nil
	}
	_, err = checkTopo3(out, rep0, what)
	return
}

// ---------------------------------------------------------------------------
// generic clause body: build the input, validate it, apply the operations in turn

func checkOps3(c case3, o *kit.Obs) error {
	in, skip := c.Src.build()
	if skip != "" {
		o.Skip(skip)
		return nil
	}
	rep, bad := validInput3(in)
	if bad != "" {
		o.Skip("input-" + bad)
		return nil
	}
	o.Label("src:" + c.Src.Kind)
	if rep.Components > 1 {
		o.Label("input:several-components")
	}
	if g := (2*rep.Components - rep.Euler) / 2; g > 0 {
		o.Label("input:genus>0")
	}
	changed := false
	for i, op := range c.Ops {
		out, stop, err := step3(in, rep, op, o)
		if err != nil {
			return fmt.Errorf("step %d/%d: %w", i+1, len(c.Ops), err)
		}
		if stop != "" {
			o.Skip(stop)
			break
		}
		if !sameTris(in, out) {
			changed = true
		}
		if i+1 < len(c.Ops) {
			nrep, bad := validInput3(out)
			if bad != "" {
				// only "pillow" is possible here (checkTopo3 passed): not a valid input for the next operation
				o.Skip("intermediate-" + bad)
				break
			}
			if len(out) > maxOutFaces {
				o.Skip("intermediate-too-large")
				break
			}
			rep = nrep
		}
		in = out
	}
	if changed {
		o.NonTrivial()
	}
	return nil
}

func firstTriDiff(a, b []kit.Tri) string {
	for i := 0; i < len(a) && i < len(b); i++ {
		if a[i] != b[i] {
			return fmt.Sprintf("first difference (canonical order) %v -> %v", a[i], b[i])
		}
	}
	return "one is a prefix of the other"
}
