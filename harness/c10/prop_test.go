package c10

import (
	"runtime"
	"testing"
	"time"

	"pgregory.net/rapid"
	"verifharness/gen"
	"verifharness/kit"
)

const rule = "inputs: closed oriented manifolds validated by the independent topology kit before use (marching cubes of CSG trees / trilinear fields / lattice solids with 0-8 search iterations — any genus, several components, slivers —, icospheres, boxes, edge-subdivided boxes and edge-subdivided versions of all of these (long coplanar runs), cylinders, cones, tori with 3..18 stops, polar meshes, optionally with a second scaled copy and with hash jitter below a quarter of the shortest edge; 2D: marching-squares outlines, polar outlines, sector polygons with exactly colinear runs or with points bent off their edges by amounts around the EliminateColinear threshold, rectangles, optionally jittered); one operation with random parameters per case in the single-operation clauses and 2-4 operations in the chain clauses. Operations that orient new faces by comparing normals (FlipDelaunay, Subdivider) are not applied to meshes with a face of 2*area/longest^2 < 1e-9. Non-trivial: the operation(s) changed the mesh (face list differs from the input's). Distinct: hash of the JSON case."

const budget = 60 * time.Second

func single3(kind string, kinds []string, small, sub, dup, jitter bool) func(t *rapid.T) case3 {
	return func(t *rapid.T) case3 {
		s := withVariants(t, genSrc3(t, kinds, small, "src"), sub, dup, jitter, "var")
		return case3{Src: s, Ops: []op3{genOp3(t, kind)}}
	}
}

var chainOps3 = []string{"decimate", "decimate", "coplanar", "edges", "flip", "subdiv", "loop", "subdivider", "blur", "smooth", "voxel", "arap"}

func genChain3(t *rapid.T) case3 {
	c := case3{Src: withVariants(t, genSrc3(t, allKinds3, true, "src"), true, true, true, "var")}
	n := gen.Int(t, 2, 4, "nops")
	for i := 0; i < n; i++ {
		op := genOp3(t, pickOf(t, chainOps3, "op"))
		if op.K == "subdiv" && op.I[0] > 3 {
			op.I[0] = 3
		}
		if op.K == "loop" {
			op.I[0] = 1
		}
		c.Ops = append(c.Ops, op)
	}
	return c
}

func genDecimateSplit(t *rapid.T) case3 {
	c := single3("decimate", allKinds3, true, true, true, true)(t)
	c.Ops[0].I[0] = pickOf(t, []int{2, 3, 6}, "splitAttempts")
	c.Ops[0].B[2] = false
	return c
}

func single2(kind string, kinds []string) func(t *rapid.T) case2 {
	return func(t *rapid.T) case2 {
		return case2{Src: genSrc2(t, kinds, "src"), Ops: []op2{genOp2(t, kind)}}
	}
}

var chainOps2 = []string{"decimate", "colinear", "subdivide", "blur", "smooth", "smoothsq"}

func genChain2(t *rapid.T) case2 {
	c := case2{Src: genSrc2(t, allKinds2, "src")}
	n := gen.Int(t, 2, 4, "nops")
	for i := 0; i < n; i++ {
		op := genOp2(t, pickOf(t, chainOps2, "op"))
		if op.K == "subdivide" && op.I[0] > 2 {
			op.I[0] = 2
		}
		c.Ops = append(c.Ops, op)
	}
	return c
}

// genColinearOrders: bent polygons and an eps that puts several adjacent vertices near the threshold.
func genColinearOrders(t *rapid.T) case2 {
	eps := gen.LogF(t, 1e-8, 1e-2, "eps")
	s := src2{Kind: "polygon"}
	n := gen.Int(t, 1, 2, "npoly")
	for i := 0; i < n; i++ {
		p := genBendPoly2(t, eps, "poly")
		p.C[0] += float64(i) * 40
		s.Polys = append(s.Polys, p)
	}
	ops := []op2{{K: "colinear", F: []float64{eps}}}
	if gen.Int(t, 0, 3, "twice") == 0 {
		ops = append(ops, op2{K: "colinear", F: []float64{eps * gen.LogF(t, 0.5, 4, "eps2")}})
	}
	return case2{Src: s, Ops: ops}
}

func genArea(t *rapid.T) areaCase {
	return areaCase{Src: withVariants(t, genSrc3(t, allKinds3, true, "src"), true, true, true, "var"),
		Frac: gen.LogF(t, 0.05, 1, "frac"), Iters: gen.Int(t, 1, 3, "iters"), API: gen.Int(t, 0, 2, "api")}
}

// sources with exactly coplanar patches and clear creases, plus everything else subdivided
var coplanarKinds = []string{"lattice", "lattice", "subbox", "subbox", "rect", "csg", "field", "cylinder", "cone", "torus", "icosphere"}

func genCoplanar(t *rapid.T) case3 {
	s := genSrc3(t, coplanarKinds, true, "src")
	if s.Kind == "lattice" {
		s.Iters = 0
	}
	if s.Kind != "lattice" && s.Kind != "subbox" || gen.Int(t, 0, 3, "sub.extra") == 0 {
		s.Sub = gen.Int(t, 1, 3, "sub")
	}
	if gen.Int(t, 0, 5, "dup") == 0 {
		s.Dup = true
	}
	if gen.Int(t, 0, 7, "dojitter") == 0 {
		s.Jitter = gen.LogF(t, 0.01, 0.5, "jitter")
		s.JSeed = gen.Int(t, 0, 1<<20, "jseed")
	}
	return case3{Src: s, Ops: []op3{genOp3(t, "coplanar")}}
}

func genSmooth3(t *rapid.T) case3 {
	s := withVariants(t, genSrc3(t, allKinds3, true, "src"), true, true, true, "var")
	kind := pickOf(t, []string{"smooth", "smooth", "voxel"}, "kind")
	return case3{Src: s, Ops: []op3{genOp3(t, kind)}}
}

func TestProp(t *testing.T) {
	runtime.GOMAXPROCS(2)
	kit.Run(t, "C10", rule,
		kit.Clause[case3]{Name: "C10/3d/decimate", Quick: 1200, Thorough: 30000, Budget: budget, Fresh: true, Gen: single3("decimate", allKinds3, false, true, true, true), Check: checkOps3},
		// split search with alternatives: ~2 ms per case on average when the search is bounded; the slowest of 3000
		// cases took 0.57 s at load average 75 on 16 cores, where a 5 s watchdog fired spuriously once in 20 runs.  12 s is a factor > 20 on that; an unbounded search on a 40-gon hole does not
		// finish at all.  (The replay of the known finding costs 3x this budget in every run while it persists.)
		kit.Clause[case3]{Name: "C10/3d/decimate-split", Quick: 500, Thorough: 12000, Budget: 12 * time.Second, Fresh: true, Gen: genDecimateSplit, Check: checkOps3},
		kit.Clause[case3]{Name: "C10/3d/eliminate-coplanar", Quick: 1200, Thorough: 30000, Budget: budget, Fresh: true, Gen: genCoplanar, Check: checkOps3},
		kit.Clause[case3]{Name: "C10/3d/eliminate-edges", Quick: 600, Thorough: 15000, Budget: budget, Fresh: true, Gen: single3("edges", allKinds3, true, true, true, false), Check: checkOps3},
		kit.Clause[case3]{Name: "C10/3d/flip-delaunay", Quick: 600, Thorough: 15000, Budget: budget, Fresh: true, Gen: single3("flip", allKinds3, true, true, true, true), Check: checkOps3},
		kit.Clause[case3]{Name: "C10/3d/subdivide-edges", Quick: 800, Thorough: 20000, Budget: budget, Fresh: true, Gen: single3("subdiv", allKinds3, true, false, true, true), Check: checkOps3},
		kit.Clause[case3]{Name: "C10/3d/loop", Quick: 800, Thorough: 20000, Budget: budget, Fresh: true, Gen: single3("loop", allKinds3, true, true, true, true), Check: checkOps3},
		kit.Clause[case3]{Name: "C10/3d/subdivider", Quick: 800, Thorough: 20000, Budget: budget, Fresh: true, Gen: single3("subdivider", allKinds3, true, true, true, true), Check: checkOps3},
		kit.Clause[case3]{Name: "C10/3d/blur", Quick: 800, Thorough: 20000, Budget: budget, Fresh: true, Gen: single3("blur", allKinds3, false, true, true, true), Check: checkOps3},
		kit.Clause[case3]{Name: "C10/3d/smooth", Quick: 800, Thorough: 20000, Budget: budget, Fresh: true, Gen: genSmooth3, Check: checkOps3},
		kit.Clause[areaCase]{Name: "C10/3d/smooth-area", Quick: 600, Thorough: 15000, Budget: budget, Fresh: true, Gen: genArea, Check: checkArea},
		kit.Clause[flattenCase]{Name: "C10/3d/flatten-base", Quick: 500, Thorough: 12000, Budget: budget, Fresh: true, Gen: genFlatten, Check: checkFlatten},
		kit.Clause[arapCase]{Name: "C10/3d/arap", Quick: 300, Thorough: 6000, Budget: 2 * budget, Fresh: true, Gen: genARAP, Check: checkARAP},
		kit.Clause[case3]{Name: "C10/3d/chain", Quick: 1200, Thorough: 30000, Budget: budget, Fresh: true, Gen: genChain3, Check: checkOps3},
		kit.Clause[case2]{Name: "C10/2d/decimate", Quick: 1500, Thorough: 40000, Budget: budget, Fresh: true, Gen: single2("decimate", allKinds2), Check: checkOps2},
		kit.Clause[case2]{Name: "C10/2d/eliminate-colinear", Quick: 2000, Thorough: 50000, Budget: budget, Fresh: true, Gen: single2("colinear", allKinds2), Check: checkOps2},
		kit.Clause[case2]{Name: "C10/2d/eliminate-colinear-orders", Quick: 1500, Thorough: 40000, Budget: budget, Fresh: true, Gen: genColinearOrders, Check: checkOps2},
		kit.Clause[case2]{Name: "C10/2d/subdivide", Quick: 1000, Thorough: 30000, Budget: budget, Fresh: true, Gen: single2("subdivide", allKinds2), Check: checkOps2},
		kit.Clause[case2]{Name: "C10/2d/blur", Quick: 1000, Thorough: 30000, Budget: budget, Fresh: true, Gen: single2("blur", allKinds2), Check: checkOps2},
		kit.Clause[case2]{Name: "C10/2d/smooth", Quick: 1000, Thorough: 30000, Budget: budget, Fresh: true, Gen: func(t *rapid.T) case2 {
			return case2{Src: genSrc2(t, allKinds2, "src"), Ops: []op2{genOp2(t, pickOf(t, []string{"smooth", "smoothsq"}, "kind"))}}
		}, Check: checkOps2},
		kit.Clause[case2]{Name: "C10/2d/chain", Quick: 1500, Thorough: 40000, Budget: budget, Fresh: true, Gen: genChain2, Check: checkOps2},
	)
}
