package c10

import (
	"math"
	"sort"

	"verifharness/kit"
)

// Independent implementations of the published placement rules.  Everything works on
// indexed meshes (vertex ids in lexicographic order); nothing calls the library.

// ---------------------------------------------------------------------------
// Loop subdivision (Warren's weights: beta = 3/16 for valence 3, 3/(8n) otherwise;
// edge points 3/8 (a+b) + 1/8 (c+d)).

func refLoop(m imesh) imesh {
	nb := m.neighbours()
	es, opp := m.edges()
	out := imesh{V: make([]kit.V3, 0, len(m.V)+len(es))}
	for i, v := range m.V {
		n := float64(len(nb[i]))
		beta := 3.0 / (8 * n)
		if len(nb[i]) == 3 {
			beta = 3.0 / 16
		}
		var sum kit.V3
		for _, j := range nb[i] {
			sum = sum.Add(m.V[j])
		}
		out.V = append(out.V, v.Scale(1-n*beta).Add(sum.Scale(beta)))
	}
	eid := map[ekey]int{}
	for _, e := range es {
		eid[e] = len(out.V)
		o := opp[e]
		p := m.V[e[0]].Add(m.V[e[1]]).Scale(3.0 / 8)
		var q kit.V3
		for _, k := range o {
			q = q.Add(m.V[k])
		}
		out.V = append(out.V, p.Add(q.Scale(1.0/8)))
	}
	for _, t := range m.T {
		a, b, c := t[0], t[1], t[2]
		ab, bc, ca := eid[ek(a, b)], eid[ek(b, c)], eid[ek(c, a)]
		out.T = append(out.T, [3]int{a, ab, ca}, [3]int{ab, b, bc}, [3]int{ca, bc, c}, [3]int{ab, bc, ca})
	}
	return out
}

// ---------------------------------------------------------------------------
// Uniform edge subdivision: barycentric lattice points (i*a + j*b + k*c)/n.

func refSubdivide(m imesh, n int) imesh {
	out := imesh{V: append([]kit.V3(nil), m.V...)}
	fn := float64(n)
	edgePt := map[[3]int]int{} // (lo, hi, steps from lo) -> id
	var ept func(a, b, k int) int
	ept = func(a, b, k int) int {
		// k steps from a towards b
		if k == 0 {
			return a
		}
		if k == n {
			return b
		}
		if a > b {
			return ept(b, a, n-k)
		}
		key := [3]int{a, b, k}
		if id, ok := edgePt[key]; ok {
			return id
		}
		id := len(out.V)
		out.V = append(out.V, m.V[a].Scale(float64(n-k)/fn).Add(m.V[b].Scale(float64(k)/fn)))
		edgePt[key] = id
		return id
	}
	for _, t := range m.T {
		a, b, c := t[0], t[1], t[2]
		// g(i,j): i steps towards b, j steps towards c
		grid := map[[2]int]int{}
		g := func(i, j int) int {
			if id, ok := grid[[2]int{i, j}]; ok {
				return id
			}
			var id int
			switch {
			case j == 0:
				id = ept(a, b, i)
			case i == 0:
				id = ept(a, c, j)
			case i+j == n:
				id = ept(b, c, j)
			default:
				id = len(out.V)
				k := n - i - j
				out.V = append(out.V, m.V[a].Scale(float64(k)/fn).Add(m.V[b].Scale(float64(i)/fn)).Add(m.V[c].Scale(float64(j)/fn)))
			}
			grid[[2]int{i, j}] = id
			return id
		}
		for i := 0; i < n; i++ {
			for j := 0; i+j < n; j++ {
				out.T = append(out.T, [3]int{g(i, j), g(i+1, j), g(i, j+1)})
				if i+j < n-1 {
					out.T = append(out.T, [3]int{g(i+1, j), g(i+1, j+1), g(i, j+1)})
				}
			}
		}
	}
	return out
}

// ---------------------------------------------------------------------------
// Blur: rate r moves a vertex to (1-r) v + r mean(neighbours); rate -1 to the mean of
// the vertex and its neighbours.  A vertex without (filtered) neighbours stays.

func refBlur(m imesh, rates []float64, isNb func(a, b kit.V3) bool) []kit.V3 {
	all := m.neighbours()
	nb := make([][]int, len(all))
	for i, l := range all {
		for _, j := range l {
			if isNb == nil || isNb(m.V[i], m.V[j]) {
				nb[i] = append(nb[i], j)
			}
		}
	}
	cur := append([]kit.V3(nil), m.V...)
	for _, r := range rates {
		next := make([]kit.V3, len(cur))
		for i, v := range cur {
			if len(nb[i]) == 0 {
				next[i] = v
				continue
			}
			var sum kit.V3
			for _, j := range nb[i] {
				sum = sum.Add(cur[j])
			}
			k := float64(len(nb[i]))
			if r == -1 {
				next[i] = sum.Add(v).Scale(1 / (k + 1))
			} else {
				next[i] = v.Scale(1 - r).Add(sum.Scale(r / k))
			}
		}
		cur = next
	}
	return cur
}

// ---------------------------------------------------------------------------
// Area-minimising gradient descent.  The gradient of a triangle's area with respect
// to vertex p (opposite edge p1->p2, unit normal n) is 1/2 (p1-p2) x n.

type smoothParams struct {
	step    float64
	iters   int
	cdist   float64 // ConstraintDistance
	cweight float64 // ConstraintWeight
	hard    []bool  // per vertex
	maxDist float64 // >0: VoxelSmoother box constraint
}

// refSmooth returns the final placement and the worst conditioning (longest edge /
// smallest altitude) met along the trajectory.
func refSmooth(m imesh, p smoothParams) ([]kit.V3, float64) {
	cur := append([]kit.V3(nil), m.V...)
	worst := 0.0
	for it := 0; it < p.iters; it++ {
		next := append([]kit.V3(nil), cur...)
		if p.cweight != 0 {
			for i, c := range cur {
				d := m.V[i].Sub(c)
				if p.cdist > 0 {
					n := d.Norm()
					if n <= p.cdist {
						continue
					}
					d = d.Scale((n - p.cdist) / n)
				}
				next[i] = c.Add(d.Scale(2 * p.cweight * p.step))
			}
		}
		for _, t := range m.T {
			a, b, c := cur[t[0]], cur[t[1]], cur[t[2]]
			nrm := b.Sub(a).Cross(c.Sub(a))
			l := nrm.Norm()
			longest := math.Max(a.Dist(b), math.Max(b.Dist(c), c.Dist(a)))
			if l == 0 || longest == 0 {
				worst = math.Inf(1)
				continue
			}
			worst = math.Max(worst, longest*longest/l) // longest / (2*area/longest)
			u := nrm.Scale(1 / l)
			ga := b.Sub(c).Cross(u).Scale(0.5)
			gb := c.Sub(a).Cross(u).Scale(0.5)
			gc := a.Sub(b).Cross(u).Scale(0.5)
			next[t[0]] = next[t[0]].Sub(ga.Scale(p.step))
			next[t[1]] = next[t[1]].Sub(gb.Scale(p.step))
			next[t[2]] = next[t[2]].Sub(gc.Scale(p.step))
		}
		if p.maxDist > 0 {
			for i := range next {
				for k := 0; k < 3; k++ {
					next[i][k] = math.Min(math.Max(next[i][k], m.V[i][k]-p.maxDist), m.V[i][k]+p.maxDist)
				}
			}
		}
		for i, h := range p.hard {
			if h {
				next[i] = m.V[i]
			}
		}
		cur = next
	}
	return cur, worst
}

// ---------------------------------------------------------------------------
// 2D: Chaikin corner cutting on oriented loops.

type loop2 []kit.V2

// loops2 splits a closed oriented segment soup into cyclic vertex lists (each starting
// at its lexicographically smallest vertex; loops sorted by that vertex).
func loops2(ss []kit.Seg) []loop2 {
	next := map[kit.V2]kit.V2{}
	var starts []kit.V2
	for _, s := range ss {
		next[canon2(s[0])] = canon2(s[1])
		starts = append(starts, canon2(s[0]))
	}
	sortV2(starts)
	seen := map[kit.V2]bool{}
	var out []loop2
	for _, s := range starts {
		if seen[s] {
			continue
		}
		var l loop2
		for c := s; !seen[c]; c = next[c] {
			seen[c] = true
			l = append(l, c)
		}
		out = append(out, l)
	}
	return out
}

func sortV2(v []kit.V2) {
	sort.Slice(v, func(i, j int) bool { return less2(v[i], v[j]) })
}

func refChaikin(ls []loop2) []loop2 {
	out := make([]loop2, len(ls))
	for k, l := range ls {
		n := len(l)
		for i := 0; i < n; i++ {
			a, b := l[i], l[(i+1)%n]
			out[k] = append(out[k], a.Scale(0.75).Add(b.Scale(0.25)), a.Scale(0.25).Add(b.Scale(0.75)))
		}
	}
	return out
}

// ---------------------------------------------------------------------------
// 2D Smooth / SmoothSq: steepest descent on the sum of (squared) segment lengths with a
// line search for the best step.  Used only to recognise the degenerate class in which
// the rule itself moves vertices onto each other (a regular polygon collapses to a point).

// refSmooth2Degenerate follows the rule for iters steps and reports whether two vertices
// come within tol of each other (or the rule is undefined: zero-length segment, zero gradient).
func refSmooth2Degenerate(ls []loop2, sq bool, iters int, tol float64) bool {
	var pts []kit.V2
	var segs [][2]int
	for _, l := range ls {
		base := len(pts)
		for i := range l {
			segs = append(segs, [2]int{base + i, base + (i+1)%len(l)})
		}
		pts = append(pts, l...)
	}
	for it := 0; it < iters; it++ {
		g := make([]kit.V2, len(pts))
		for _, s := range segs {
			d := pts[s[1]].Sub(pts[s[0]])
			if !sq {
				n := d.Norm()
				if !(n > 0) {
					return true
				}
				d = d.Scale(1 / n)
			}
			g[s[0]] = g[s[0]].Add(d)
			g[s[1]] = g[s[1]].Sub(d)
		}
		var step float64
		if sq {
			var a, b float64
			for _, s := range segs {
				dp, dg := pts[s[0]].Sub(pts[s[1]]), g[s[0]].Sub(g[s[1]])
				a += dg.Dot(dg)
				b += 2 * dp.Dot(dg)
			}
			if !(a > 0) {
				return true
			}
			step = -b / (2 * a)
		} else {
			f := func(al float64) float64 {
				t := 0.0
				for _, s := range segs {
					t += pts[s[0]].Add(g[s[0]].Scale(al)).Dist(pts[s[1]].Add(g[s[1]].Scale(al)))
				}
				return t
			}
			hi := 1.0
			for k := 0; f(hi) < f(0) && k < 200; k++ {
				hi *= 2
			}
			lo := 0.0
			for k := 0; k < 90; k++ { // ternary search on a convex function
				m1, m2 := lo+(hi-lo)/3, hi-(hi-lo)/3
				if f(m1) < f(m2) {
					hi = m2
				} else {
					lo = m1
				}
			}
			step = (lo + hi) / 2
		}
		for i := range pts {
			pts[i] = pts[i].Add(g[i].Scale(step))
			if !pts[i].Finite() {
				return true
			}
		}
		if closePair2(pts, tol) {
			return true
		}
	}
	return false
}
