package c10

import (
	"fmt"
	"math"
	"sort"

	"github.com/unixpickle/model3d/model3d"
	"pgregory.net/rapid"
	"verifharness/gen"
	"verifharness/kit"
	"verifharness/m3"
)

// ---------------------------------------------------------------------------
// ARAP: rigid motions are reproduced, constraints are met exactly

type arapCase struct {
	Src     src3    `json:"src"`
	Weights int     `json:"weights"` // 0: NewARAP (cotangent, acute meshes only), 1: abs-cot, 2: uniform, 3: abs-cot/uniform
	Mode    string  `json:"mode"`    // translate | rotate
	Cons    []int   `json:"cons"`    // vertex selectors (mod V), >= 4
	T       kit.V3  `json:"t"`
	Axis    kit.V3  `json:"axis"`
	Angle   float64 `json:"angle"`
	MaxIt   int     `json:"maxit"` // 0: default
	Seq     bool    `json:"seq"`   // use SeqDeformer
	// Prev (Seq only): earlier calls on the SAME deformer closure before the call that is checked.  Each entry
	// is a mode: 0 = the same handles with other targets, 1 = as many handles but other vertices (every
	// selector shifted by Shift), 2 = every second handle only.  Their targets are the rigid motion at half
	// its parameters.  With cold starts ("the previous result is not used") the checked call must still meet
	// its constraints exactly and reproduce the rigid motion; with warm starts the constraints and the topology.
	Prev  []int `json:"prev,omitempty"`
	Shift int   `json:"shift,omitempty"`
	Warm  bool  `json:"warm,omitempty"`
	// MinIt: 0 = default, k > 0 = SetMinIterations(k).  ZeroIt: SetMaxIterations(0) — no optimisation step at
	// all; the result is whatever the initial guess is after the constraints have been imposed on it, so the
	// constraints must still be met exactly (nothing else is asserted then).  Guess (not Seq): go through
	// DeformMap with an explicit initial guess that ignores the constraints (the undeformed vertex positions).
	MinIt  int  `json:"minit,omitempty"`
	ZeroIt bool `json:"zeroit,omitempty"`
	Guess  bool `json:"guess,omitempty"`
	// UnitLog10: the mesh and the translation are given in units of 10^UnitLog10 (0 = as built); every tolerance
	// below is relative to the size of the input, and so is the library's stopping rule
	UnitLog10 int `json:"unit_log10,omitempty"`
}

var arapKinds = []string{"icosphere", "icosphere", "subbox", "torus", "cylinder", "csg", "field", "polar", "icosahedron"}

func genARAP(t *rapid.T) arapCase {
	c := arapCase{Src: genSrc3(t, arapKinds, true, "src")}
	if gen.Int(t, 0, 2, "dojitter") == 0 {
		c.Src.Jitter = gen.LogF(t, 0.01, 0.5, "jitter")
		c.Src.JSeed = gen.Int(t, 0, 1<<20, "jseed")
	}
	c.Weights = gen.Int(t, 0, 3, "weights")
	c.Mode = pickOf(t, []string{"translate", "rotate", "rotate"}, "mode")
	n := gen.Int(t, 5, 14, "ncons")
	for i := 0; i < n; i++ {
		c.Cons = append(c.Cons, gen.Int(t, 0, 1<<20, "con"))
	}
	c.T = gen.Vec3(t, 2, "t")
	c.Axis = gen.Dir3(t, "axis").Unit()
	c.Angle = gen.F(t, -math.Pi/3, math.Pi/3, "angle")
	c.MaxIt = pickOf(t, []int{0, 0, 2000}, "maxit")
	c.Seq = gen.Int(t, 0, 2, "seq") == 0
	if c.Seq {
		for i, n := 0, gen.Int(t, 0, 2, "nprev"); i < n; i++ {
			c.Prev = append(c.Prev, gen.Int(t, 0, 2, "prevmode"))
		}
		c.Shift = gen.Int(t, 1, 40, "shift")
		c.Warm = gen.Int(t, 0, 2, "warm") == 0
	} else {
		c.Guess = gen.Int(t, 0, 3, "guess") == 0
	}
	c.MinIt = pickOf(t, []int{0, 0, 1, 3}, "minit")
	c.ZeroIt = gen.Int(t, 0, 5, "zeroit") == 0
	if gen.Int(t, 0, 2, "units") == 0 {
		c.UnitLog10 = pickOf(t, []int{-6, -4, -3, -2, 2, 4}, "unit_log10")
	}
	return c
}

func rotate(axis kit.V3, ang float64, v kit.V3) kit.V3 {
	// Rodrigues
	c, s := math.Cos(ang), math.Sin(ang)
	return v.Scale(c).Add(axis.Cross(v).Scale(s)).Add(axis.Scale(axis.Dot(v) * (1 - c)))
}

func checkARAP(c arapCase, o *kit.Obs) error {
	in, skip := c.Src.build()
	if skip != "" {
		o.Skip(skip)
		return nil
	}
	if c.UnitLog10 != 0 {
		k := math.Pow(10, float64(c.UnitLog10))
		for i := range in {
			for j := range in[i] {
				in[i][j] = in[i][j].Scale(k)
			}
		}
		c.T = c.T.Scale(k)
		o.Labelf("arap:unit-1e%d", c.UnitLog10)
	}
	rep, bad := validInput3(in)
	if bad != "" {
		o.Skip("input-" + bad)
		return nil
	}
	if rep.Components != 1 {
		o.Skip("several-components(unconstrained component is singular)")
		return nil
	}
	if rep.V > 200 {
		o.Skip("input-too-large")
		return nil
	}
	// numerical domain: cotangents are unbounded for degenerate triangles
	if minAngle(in) < 0.05 {
		o.Skip("ill-conditioned(min angle < 0.05 rad)")
		return nil
	}
	im, _ := index(in)
	b := bounds3(in)
	diag := b.diag()
	weights := c.Weights
	if weights == 0 {
		// documented guarantee of the cotangent scheme: angles smaller than a right angle
		maxAng := 0.0
		for _, t := range in {
			for k := 0; k < 3; k++ {
				u, w := t[(k+1)%3].Sub(t[k]), t[(k+2)%3].Sub(t[k])
				maxAng = math.Max(maxAng, math.Atan2(u.Cross(w).Norm(), u.Dot(w)))
			}
		}
		if maxAng > 1.45 {
			weights = 1
			o.Label("arap:cotangent->abs(obtuse)")
		}
	}
	// constraints: >= 4 vertices that are non-coplanar by a margin
	seen := map[int]bool{}
	var cons []int
	for _, s := range c.Cons {
		i := s % len(im.V)
		if !seen[i] {
			seen[i] = true
			cons = append(cons, i)
		}
	}
	sort.Ints(cons)
	if len(cons) < 4 {
		o.Skip("fewer-than-4-constraints")
		return nil
	}
	if spread(im.V, cons) < 0.1*diag {
		o.Skip("constraints-nearly-coplanar")
		return nil
	}
	var ctr kit.V3
	for _, v := range im.V {
		ctr = ctr.Add(v)
	}
	ctr = ctr.Scale(1 / float64(len(im.V)))
	motion := func(v kit.V3) kit.V3 {
		if c.Mode == "translate" {
			return v.Add(c.T)
		}
		return rotate(c.Axis, c.Angle, v.Sub(ctr)).Add(ctr).Add(c.T)
	}
	want := make([]kit.V3, len(im.V))
	for i, v := range im.V {
		want[i] = motion(v)
	}
	mesh := m3.MeshFromTris(in)
	var a *model3d.ARAP
	switch weights {
	case 0:
		a = model3d.NewARAP(mesh)
	case 1:
		a = model3d.NewARAPWeighted(mesh, model3d.ARAPWeightingAbsCotangent, model3d.ARAPWeightingAbsCotangent)
	case 2:
		a = model3d.NewARAPWeighted(mesh, model3d.ARAPWeightingUniform, model3d.ARAPWeightingUniform)
	default:
		a = model3d.NewARAPWeighted(mesh, model3d.ARAPWeightingAbsCotangent, model3d.ARAPWeightingUniform)
	}
	a.SetTolerance(1e-12)
	if c.MaxIt > 0 {
		a.SetMaxIterations(c.MaxIt)
	}
	if c.MinIt > 0 {
		a.SetMinIterations(c.MinIt)
	}
	if c.ZeroIt {
		a.SetMaxIterations(0)
		o.Label("arap:zero-iterations")
	}
	cm := model3d.ARAPConstraints{}
	for _, i := range cons {
		cm[m3.C3(im.V[i])] = m3.C3(want[i])
	}
	o.Labelf("arap:%s/w%d", c.Mode, weights)
	o.NonTrivial()
	var res *model3d.Mesh
	if c.Seq {
		// "coldStart" in the library's signature means: do NOT start from the previous result
		def := a.SeqDeformer(!c.Warm)
		half := func(v kit.V3) kit.V3 {
			if c.Mode == "translate" {
				return v.Add(c.T.Scale(0.5))
			}
			return rotate(c.Axis, c.Angle/2, v.Sub(ctr)).Add(ctr).Add(c.T.Scale(0.5))
		}
		for _, mode := range c.Prev {
			pm := model3d.ARAPConstraints{}
			for k, i := range cons {
				switch mode {
				case 1:
					i = (i + c.Shift) % len(im.V)
				case 2:
					if k%2 == 1 && len(cons) > 8 {
						continue
					}
				}
				pm[m3.C3(im.V[i])] = m3.C3(half(im.V[i]))
			}
			if len(pm) < 4 {
				continue
			}
			def(pm)
			o.Labelf("arap:seq-prev-mode-%d", mode)
		}
		res = def(cm)
	} else if c.Guess {
		o.Label("arap:deformmap-with-guess")
		guess := map[model3d.Coord3D]model3d.Coord3D{}
		for _, v := range im.V {
			guess[m3.C3(v)] = m3.C3(v)
		}
		mapping := a.DeformMap(cm, guess)
		res = mesh.MapCoords(func(p model3d.Coord3D) model3d.Coord3D { return mapping[p] })
	} else {
		res = a.Deform(cm)
	}
	out := canonTris(m3.Tris(res))
	what := fmt.Sprintf("ARAP(%s, weights %d, %d constraints)", c.Mode, weights, len(cons))
	if !finite3(out) {
		return fmt.Errorf("%s: non-finite coordinates in the result", what)
	}
	// constraints exactly
	vo := vertSet3(out)
	for _, i := range cons {
		if !vo[canon(want[i])] {
			return fmt.Errorf("%s: constrained vertex %v must land exactly on %v, which is not a vertex of the result", what, im.V[i], want[i])
		}
	}
	warmOther := false
	for _, mode := range c.Prev {
		if mode != 0 {
			warmOther = true
		}
	}
	if !c.ZeroIt {
		// a rigid motion is a fixed point of the alternation whatever the two weightings are: started from it, the
		// rotation fit returns the same rotation for every cell and the linear solve returns the motion again
		guess := map[model3d.Coord3D]model3d.Coord3D{}
		for i, v := range im.V {
			guess[m3.C3(v)] = m3.C3(want[i])
		}
		fixed := a.DeformMap(cm, guess)
		for i, v := range im.V {
			got, ok := fixed[m3.C3(v)]
			if !ok {
				return fmt.Errorf("%s: DeformMap started from the rigid motion has no entry for vertex %v", what, v)
			}
			if d := m3.V3(got).Dist(want[i]); !(d <= 1e-6*(size3(in)+c.T.Norm())) {
				return fmt.Errorf("%s: DeformMap started from the rigid motion that meets all constraints moved vertex %v to %v, %g away from its place %v", what, v, got, d, want[i])
			}
		}
	}
	if c.ZeroIt || weights == 3 || (c.Seq && c.Warm && warmOther) {
		// different weights for the linear solve and for the rotation fit (or a warm start from another pose): the alternation does not descend on
		// one energy and is not claimed to reach the rigid solution (it settles elsewhere on tori);
		// constraints and connectivity only
		if len(vo) < len(im.V) {
			o.Skip("degenerate:deformed-vertices-coincide")
			return nil
		}
		_, err := checkTopo3(out, rep, what)
		return err
	}
	size := size3(in) + c.T.Norm()
	tol := 1e-6 * size
	if c.Mode == "translate" && !c.Guess && !(c.Seq && c.Warm && len(c.Prev) > 0) {
		// a translation is reproduced by the very first linear solve when the iteration starts from the library's
		// own initial guess; from another starting point (DeformMap with a guess, warm starts) it is only reached
		// to within the stopping rule, like a rotation
		tol = 1e-9 * size
	}
	ids, err := matchFaces(out, want, tol, what)
	if err != nil {
		return err
	}
	if err := sameFaces(ids, im.T, what); err != nil {
		return err
	}
	_, err = checkTopo3(out, rep, what)
	return err
}

// spread returns the largest distance of a chosen point from the plane through three
// other chosen points picked greedily (far apart).
func spread(vs []kit.V3, idx []int) float64 {
	p0 := vs[idx[0]]
	p1, best := p0, 0.0
	for _, i := range idx {
		if d := vs[i].Dist(p0); d > best {
			best, p1 = d, vs[i]
		}
	}
	if best == 0 {
		return 0
	}
	u := p1.Sub(p0).Unit()
	p2, best := p0, 0.0
	for _, i := range idx {
		w := vs[i].Sub(p0)
		if d := w.Sub(u.Scale(w.Dot(u))).Norm(); d > best {
			best, p2 = d, vs[i]
		}
	}
	if best == 0 {
		return 0
	}
	n := u.Cross(p2.Sub(p0))
	if n.Norm() == 0 {
		return 0
	}
	n = n.Unit()
	out := math.Min(best, p1.Dist(p0))
	far := 0.0
	for _, i := range idx {
		far = math.Max(far, math.Abs(vs[i].Sub(p0).Dot(n)))
	}
	return math.Min(out, far)
}

// ---------------------------------------------------------------------------
// FlattenBase on flat-based solids whose base edge was rounded by blurring

type flattenCase struct {
	Tree     *gen.Node `json:"tree"`
	ZFrac    float64   `json:"zfrac"` // base plane: fraction of the solid's height above its lowest point
	DeltaRel float64   `json:"deltaRel"`
	Iters    int       `json:"iters"`
	Blur     []float64 `json:"blur"`
	MaxAngle float64   `json:"maxAngle"`
}

func genFlatten(t *rapid.T) flattenCase {
	c := flattenCase{Tree: gen.NodeGen(t, 2, 3, false, "tree"), ZFrac: gen.F(t, 0.1, 0.7, "zfrac"),
		DeltaRel: gen.LogF(t, 0.04, 0.12, "deltaRel"), Iters: gen.Int(t, 2, 8, "iters")}
	n := gen.Int(t, 0, 4, "nblur")
	for i := 0; i < n; i++ {
		c.Blur = append(c.Blur, gen.F(t, 0.1, 1, "rate"))
	}
	if gen.Int(t, 0, 3, "defaultAngle") != 0 {
		c.MaxAngle = gen.F(t, 0.2, 1.5, "maxAngle")
	}
	return c
}

func checkFlatten(c flattenCase, o *kit.Obs) error {
	// flat-based solid: the tree cut by a horizontal plane (the solid's own bounds place the cut)
	whole := c.Tree.Build()
	lo, hi := m3.V3(whole.Min()), m3.V3(whole.Max())
	for k := 0; k < 3; k++ {
		if !(hi[k] > lo[k]) {
			o.Skip("empty-input") // intersection of disjoint solids: inverted bounds
			return nil
		}
	}
	z0 := lo[2] + c.ZFrac*(hi[2]-lo[2])
	clip := &gen.Node{Op: "prim", Shape: &gen.Shape3{Kind: "rect", A: kit.V3{lo[0] - 1, lo[1] - 1, z0}, B: kit.V3{hi[0] + 1, hi[1] + 1, hi[2] + 1}}}
	solid := (&gen.Node{Op: "intersect", Kids: []*gen.Node{c.Tree, clip}}).Build()
	m := model3d.MarchingCubesSearch(solid, c.DeltaRel*hi.Sub(lo).Norm(), c.Iters)
	if n := m.NumTriangles(); n == 0 {
		o.Skip("empty-input")
		return nil
	} else if n > 2*maxFaces {
		o.Skip("input-too-large")
		return nil
	}
	if len(c.Blur) > 0 {
		m = m.Blur(c.Blur...)
	}
	in := canonTris(m3.Tris(m))
	rep, bad := validInput3(in)
	if bad != "" {
		o.Skip("input-" + bad)
		return nil
	}
	minZ := bounds3(in).min[2]
	vi := vertSet3(in)
	atBase := 0
	for v := range vi {
		if v[2] == minZ {
			atBase++
		}
	}
	if atBase < 3 {
		o.Skip("no-flat-base")
		return nil
	}
	what := fmt.Sprintf("FlattenBase(%g)", c.MaxAngle)
	out := canonTris(m3.Tris(m3.MeshFromTris(in).FlattenBase(c.MaxAngle)))
	if len(out) != len(in) {
		return fmt.Errorf("%s: face count changed from %d to %d", what, len(in), len(out))
	}
	vo := vertSet3(out)
	// flattening = setting z to the base height, nothing else
	var moved, created []kit.V3
	for v := range vi {
		if !vo[v] {
			moved = append(moved, v)
		}
	}
	for v := range vo {
		if !vi[v] {
			created = append(created, v)
		}
	}
	sort.Slice(moved, func(i, j int) bool { return kit.V3Less(moved[i], moved[j]) })
	sort.Slice(created, func(i, j int) bool { return kit.V3Less(created[i], created[j]) })
	targets := map[kit.V3]bool{}
	merge := false
	for _, v := range moved {
		tgt := canon(kit.V3{v[0], v[1], minZ})
		if vi[tgt] || targets[tgt] {
			merge = true
		}
		targets[tgt] = true
	}
	for _, v := range created {
		if v[2] != minZ {
			return fmt.Errorf("%s: new vertex %v is not at the base height %v", what, v, minZ)
		}
		if !targets[v] && !merge {
			return fmt.Errorf("%s: new vertex %v is not the vertical projection of a removed vertex", what, v)
		}
	}
	if len(moved) > 0 {
		o.NonTrivial()
		o.Label("flatten:moved")
	} else {
		o.Label("flatten:nothing-moved")
	}
	if merge {
		// two vertices share (x, y): outside the documented domain (triangles above other triangles)
		o.Skip("degenerate:flattened-vertex-lands-on-another-vertex")
		return nil
	}
	if len(created) != len(moved) {
		return fmt.Errorf("%s: %d vertices disappeared but %d appeared", what, len(moved), len(created))
	}
	if z := bounds3(out).min[2]; z != minZ {
		return fmt.Errorf("%s: base height changed from %v to %v", what, minZ, z)
	}
	_, err := checkTopo3(out, rep, what)
	return err
}

// ---------------------------------------------------------------------------
// tiny gradient steps do not increase the surface area

type areaCase struct {
	Src   src3    `json:"src"`
	Frac  float64 `json:"frac"` // fraction of the safe step size
	Iters int     `json:"iters"`
	API   int     `json:"api"` // 0 SmoothAreas, 1 MeshSmoother, 2 VoxelSmoother (huge box)
}

func checkArea(c areaCase, o *kit.Obs) error {
	in, skip := c.Src.build()
	if skip != "" {
		o.Skip(skip)
		return nil
	}
	rep, bad := validInput3(in)
	if bad != "" {
		o.Skip("input-" + bad)
		return nil
	}
	// Descent lemma: area(x - s g) <= area(x) - s (1 - s M / 2) |g|^2 where M bounds the Hessian.
	// A triangle's area has Hessian norm <= ~2 L^2 / (2 area) (L longest edge); a vertex with
	// valence k touches k of them.  s = frac * 0.01 / (k_max * max L^2/(2 area)), frac <= 1,
	// leaves a factor > 30, and moves no vertex by more than 1% of its smallest altitude.
	worst, kmax := 0.0, 0
	val := map[kit.V3]int{}
	for _, t := range in {
		l := math.Max(t[0].Dist(t[1]), math.Max(t[1].Dist(t[2]), t[2].Dist(t[0])))
		a2 := t.Normal().Norm()
		if !(a2 > 0) {
			o.Skip("zero-area-face")
			return nil
		}
		worst = math.Max(worst, l*l/a2)
		for _, v := range t {
			val[v]++
			if val[v] > kmax {
				kmax = val[v]
			}
		}
	}
	if worst > 1e6 {
		o.Skip("sliver(aspect > 1e6)")
		return nil
	}
	step := c.Frac * 0.01 / (float64(kmax) * worst)
	mesh := m3.MeshFromTris(in)
	var res *model3d.Mesh
	switch c.API {
	case 0:
		res = mesh.SmoothAreas(step, c.Iters)
	case 1:
		res = (&model3d.MeshSmoother{StepSize: step, Iterations: c.Iters}).Smooth(mesh)
	default:
		res = (&model3d.VoxelSmoother{StepSize: step, Iterations: c.Iters, MaxDistance: 10 * size3(in)}).Smooth(mesh)
	}
	out := canonTris(m3.Tris(res))
	what := fmt.Sprintf("area smoothing (api %d, step %.3g, %d iterations)", c.API, step, c.Iters)
	if _, err := checkTopo3(out, rep, what); err != nil {
		// a step of 1% of the smallest altitude cannot merge vertices
		return err
	}
	a0, a1 := kit.SurfaceArea(in), kit.SurfaceArea(out)
	o.Labelf("area:api%d", c.API)
	if !sameTris(in, out) {
		o.NonTrivial()
	}
	if a1 > a0*(1+1e-13) {
		return fmt.Errorf("%s: surface area increased from %.17g to %.17g", what, a0, a1)
	}
	// and the movement is a descent step: first-order decrease s*|grad|^2 is realised to within 10%
	// whenever it is far above rounding
	im, _ := index(in)
	g := make([]kit.V3, len(im.V))
	for _, t := range im.T {
		a, b, cc := im.V[t[0]], im.V[t[1]], im.V[t[2]]
		u := b.Sub(a).Cross(cc.Sub(a)).Unit()
		g[t[0]] = g[t[0]].Add(b.Sub(cc).Cross(u).Scale(0.5))
		g[t[1]] = g[t[1]].Add(cc.Sub(a).Cross(u).Scale(0.5))
		g[t[2]] = g[t[2]].Add(a.Sub(b).Cross(u).Scale(0.5))
	}
	g2 := 0.0
	for _, v := range g {
		g2 += v.Dot(v)
	}
	pred := step * float64(c.Iters) * g2
	if pred > 1e-9*a0 {
		o.Label("area:first-order-compared")
		if dec := a0 - a1; dec < 0.8*pred || dec > 1.2*pred {
			return fmt.Errorf("%s: area decreased by %.6g, gradient descent predicts %.6g (step * iterations * |grad|^2)", what, dec, pred)
		}
	}
	return nil
}
