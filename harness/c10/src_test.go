package c10

import (
	"math"

	"github.com/unixpickle/model3d/model2d"
	"github.com/unixpickle/model3d/model3d"
	"pgregory.net/rapid"
	"verifharness/gen"
	"verifharness/kit"
	"verifharness/m3"
)

// ---------------------------------------------------------------------------
// 3D input meshes (data-only descriptions)

type src3 struct {
	Kind   string       `json:"kind"`
	Tree   *gen.Node    `json:"tree,omitempty"`
	Field  *gen.Field3  `json:"field,omitempty"`
	Lat    *gen.Lattice3 `json:"lattice,omitempty"`
	Delta  float64      `json:"delta,omitempty"`
	Iters  int          `json:"iters,omitempty"`
	P      []float64    `json:"p,omitempty"`
	N      []int        `json:"n,omitempty"`
	Shape  *gen.Shape3  `json:"shape,omitempty"`
	Sub    int          `json:"sub,omitempty"`    // >1: SubdivideEdges(Sub) applied to the source (coplanar runs)
	Dup    bool         `json:"dup,omitempty"`    // add a scaled, translated copy (second component)
	Jitter float64      `json:"jitter,omitempty"` // >0: every vertex displaced by < Jitter*minEdge/4 per axis
	JSeed  int          `json:"jseed,omitempty"`
}

const maxFaces = 700

var allKinds3 = []string{"csg", "csg", "csg", "field", "field", "lattice", "lattice", "icosphere", "icosahedron", "rect", "subbox", "cylinder", "cone", "torus", "polar"}

// genSrc3 draws a mesh description.  small: keep it to roughly <= 200 faces.
func genSrc3(t *rapid.T, kinds []string, small bool, label string) src3 {
	s := src3{Kind: pickOf(t, kinds, label+".kind")}
	switch s.Kind {
	case "csg":
		s.Tree = gen.NodeGen(t, 3, 6, false, label+".tree")
		if small {
			s.Delta = gen.LogF(t, 0.35, 0.6, label+".delta")
		} else {
			s.Delta = gen.LogF(t, 0.2, 0.5, label+".delta")
		}
		s.Iters = gen.Int(t, 0, 8, label+".iters")
	case "field":
		mx := 5
		if small {
			mx = 4
		}
		f := gen.Field3Gen(t, mx, label+".field")
		s.Field = &f
		s.Delta = f.Scale / float64(gen.Int(t, 1, 2, label+".res"))
		if small {
			s.Delta = f.Scale
		}
		s.Iters = gen.Int(t, 0, 8, label+".iters")
	case "lattice":
		mx := 5
		if small {
			mx = 3
		}
		l := gen.Lattice3Gen(t, mx, label+".lattice")
		s.Lat = &l
		s.Delta = 1
		s.Iters = pickOf(t, []int{0, 0, 0, 1, 3, 6}, label+".iters")
	case "icosphere":
		s.P = []float64{gen.F(t, -1, 1, label+".cx"), gen.F(t, -1, 1, label+".cy"), gen.F(t, -1, 1, label+".cz"), gen.LogF(t, 0.1, 10, label+".r")}
		mx := 5
		if small {
			mx = 3
		}
		s.N = []int{gen.Int(t, 1, mx, label+".n")}
	case "icosahedron":
	case "rect":
		s.P = []float64{gen.F(t, -1, 1, label+".x"), gen.F(t, -1, 1, label+".y"), gen.F(t, -1, 1, label+".z"),
			gen.LogF(t, 0.05, 3, label+".dx"), gen.LogF(t, 0.05, 3, label+".dy"), gen.LogF(t, 0.05, 3, label+".dz")}
	case "subbox":
		s.P = []float64{gen.F(t, -1, 1, label+".x"), gen.F(t, -1, 1, label+".y"), gen.F(t, -1, 1, label+".z"),
			gen.LogF(t, 0.05, 3, label+".dx"), gen.LogF(t, 0.05, 3, label+".dy"), gen.LogF(t, 0.05, 3, label+".dz")}
		mx := 7
		if small {
			mx = 4
		}
		s.N = []int{gen.Int(t, 2, mx, label+".n")}
	case "cylinder", "cone":
		sh := gen.Shape3Gen(t, []string{s.Kind}, 1, 20, label+".shape")
		s.Shape = &sh
		s.N = []int{gen.Int(t, 3, 40, label+".stops")}
	case "torus":
		sh := gen.Shape3Gen(t, []string{"torus"}, 1, 20, label+".shape")
		s.Shape = &sh
		mx := 18
		if small {
			mx = 10
		}
		s.N = []int{gen.Int(t, 3, mx, label+".inner"), gen.Int(t, 3, mx, label+".outer")}
	case "polar":
		s.P = []float64{gen.F(t, 0.5, 3, label+".base"), gen.F(t, 0, 0.4, label+".amp1"), gen.F(t, 0, 0.4, label+".amp2"), gen.F(t, 0, 6.3, label+".phase")}
		mx := 16
		if small {
			mx = 9
		}
		s.N = []int{gen.Int(t, 3, mx, label+".stops"), gen.Int(t, 1, 5, label+".k1"), gen.Int(t, 1, 7, label+".k2")}
	}
	return s
}

// withVariants adds the optional subdivision / copy / jitter decorations.
func withVariants(t *rapid.T, s src3, sub, dup, jitter bool, label string) src3 {
	if sub && gen.Int(t, 0, 3, label+".dosub") == 0 {
		s.Sub = gen.Int(t, 2, 3, label+".sub")
	}
	if dup && gen.Int(t, 0, 4, label+".dup") == 0 {
		s.Dup = true
	}
	if jitter && gen.Int(t, 0, 2, label+".dojitter") == 0 {
		s.Jitter = gen.LogF(t, 0.01, 0.5, label+".jitter")
		s.JSeed = gen.Int(t, 0, 1<<20, label+".jseed")
	}
	return s
}

func (s src3) base() *model3d.Mesh {
	switch s.Kind {
	case "csg":
		return model3d.MarchingCubesSearch(s.Tree.Build(), s.Delta, s.Iters)
	case "field":
		return model3d.MarchingCubesSearch(s.Field.Solid(), s.Delta, s.Iters)
	case "lattice":
		return model3d.MarchingCubesSearch(s.Lat.Solid(), 1, s.Iters)
	case "icosphere":
		return model3d.NewMeshIcosphere(model3d.XYZ(s.P[0], s.P[1], s.P[2]), s.P[3], s.N[0])
	case "icosahedron":
		return model3d.NewMeshIcosahedron()
	case "rect":
		return model3d.NewMeshRect(model3d.XYZ(s.P[0], s.P[1], s.P[2]), model3d.XYZ(s.P[0]+s.P[3], s.P[1]+s.P[4], s.P[2]+s.P[5]))
	case "subbox":
		return model3d.SubdivideEdges(model3d.NewMeshRect(model3d.XYZ(s.P[0], s.P[1], s.P[2]), model3d.XYZ(s.P[0]+s.P[3], s.P[1]+s.P[4], s.P[2]+s.P[5])), s.N[0])
	case "cylinder":
		return model3d.NewMeshCylinder(m3.C3(s.Shape.A), m3.C3(s.Shape.B), s.Shape.R, s.N[0])
	case "cone":
		return model3d.NewMeshCone(m3.C3(s.Shape.A), m3.C3(s.Shape.B), s.Shape.R, s.N[0])
	case "torus":
		return model3d.NewMeshTorus(m3.C3(s.Shape.A), m3.C3(s.Shape.B), s.Shape.R2, s.Shape.R, s.N[0], s.N[1])
	case "polar":
		f := func(g model3d.GeoCoord) float64 {
			return s.P[0] * (1 + s.P[1]*math.Sin(float64(s.N[1])*g.Lon+s.P[3])*math.Cos(g.Lat) + s.P[2]*math.Cos(float64(s.N[2])*g.Lat)*math.Cos(g.Lat))
		}
		return model3d.NewMeshPolar(f, s.N[0])
	}
	panic("c10: unknown source kind " + s.Kind)
}

// build returns the canonicalised triangle list, or a skip reason.
func (s src3) build() ([]kit.Tri, string) {
	m := s.base()
	if n := m.NumTriangles(); n == 0 {
		return nil, "empty-input"
	} else if n > maxFaces {
		return nil, "input-too-large"
	}
	if s.Sub > 1 {
		if m.NumTriangles()*s.Sub*s.Sub > 2*maxFaces {
			return nil, "input-too-large"
		}
		m = model3d.SubdivideEdges(m, s.Sub)
	}
	ts := canonTris(m3.Tris(m))
	if !finite3(ts) {
		return nil, "non-finite-input"
	}
	if s.Dup {
		b := bounds3(ts)
		off := kit.V3{(b.max[0]-b.min[0])*1.5 + 0.37, 0.11, 0.23}
		n := len(ts)
		for i := 0; i < n; i++ {
			var t kit.Tri
			for k := 0; k < 3; k++ {
				t[k] = ts[i][k].Sub(b.min).Scale(0.7).Add(b.min).Add(off)
			}
			ts = append(ts, t)
		}
		ts = canonTris(ts)
	}
	if s.Jitter > 0 {
		amp := s.Jitter * minEdge3(ts) / 4
		if !(amp > 0) {
			return nil, "zero-length-edge"
		}
		for i := range ts {
			for k := 0; k < 3; k++ {
				v := ts[i][k]
				ts[i][k] = kit.V3{
					v[0] + amp*(2*unit(h3(v, s.JSeed))-1),
					v[1] + amp*(2*unit(h3(v, s.JSeed+1))-1),
					v[2] + amp*(2*unit(h3(v, s.JSeed+2))-1),
				}
			}
		}
		ts = canonTris(ts)
	}
	return ts, ""
}

// ---------------------------------------------------------------------------
// 2D input outlines

type src2 struct {
	Kind   string       `json:"kind"`
	Tree   *gen.Node2   `json:"tree,omitempty"`
	Field  *gen.Field2  `json:"field,omitempty"`
	Lat    *gen.Lattice2 `json:"lattice,omitempty"`
	Delta  float64      `json:"delta,omitempty"`
	Iters  int          `json:"iters,omitempty"`
	P      []float64    `json:"p,omitempty"`
	N      []int        `json:"n,omitempty"`
	Polys  []poly2      `json:"polys,omitempty"`
	Jitter float64      `json:"jitter,omitempty"`
	JSeed  int          `json:"jseed,omitempty"`
}

// poly2 is a polygon whose corner i lies in the i-th angular sector around the
// centre (strictly increasing angles by construction) with extra points placed
// exactly on the edges (colinear runs).
type poly2 struct {
	C      kit.V2      `json:"c"`
	Ang    []float64   `json:"ang"`    // position inside the sector, [0, 0.8]
	Rad    []float64   `json:"rad"`    // radius, [0.4, 1.6]
	Extra  [][]float64 `json:"extra"`  // per edge: sorted interpolation parameters in (0,1)
	Scale  float64     `json:"scale"`
	// Bend, if present, has the shape of Extra: the extra point is moved off its edge, along the edge normal, by
	// Bend * sqrt(2*BendEps) * (edge length) / (points on the edge + 1), which gives turning angles t with
	// 1-cos t of the order of Bend^2 * BendEps (vertices near the threshold of EliminateColinear(BendEps)).
	Bend    [][]float64 `json:"bend,omitempty"`
	BendEps float64     `json:"bendEps,omitempty"`
}

var allKinds2 = []string{"csg", "csg", "field", "lattice", "lattice", "polar", "polygon", "polygon", "rect"}

func genPoly2(t *rapid.T, label string) poly2 {
	n := gen.Int(t, 3, 9, label+".n")
	p := poly2{C: gen.Vec2(t, 1, label+".c"), Scale: gen.LogF(t, 0.1, 10, label+".scale")}
	maxExtra := gen.Int(t, 0, 4, label+".maxextra")
	for i := 0; i < n; i++ {
		p.Ang = append(p.Ang, gen.F(t, 0, 0.8, label+".ang"))
		p.Rad = append(p.Rad, gen.F(t, 0.4, 1.6, label+".rad"))
		k := gen.Int(t, 0, maxExtra, label+".nextra")
		var ex []float64
		for j := 0; j < k; j++ {
			// strictly increasing parameters by construction: j-th point inside the j-th of k slots
			ex = append(ex, (float64(j)+gen.F(t, 0.1, 0.9, label+".u"))/float64(k))
		}
		p.Extra = append(p.Extra, ex)
	}
	return p
}

// genBendPoly2: a sector polygon whose extra points are bent off their edges by amounts that put their
// turning angles around the threshold of EliminateColinear(eps): whether one of them is removable then
// depends on which of its neighbours went first.
func genBendPoly2(t *rapid.T, eps float64, label string) poly2 {
	n := gen.Int(t, 3, 6, label+".n")
	p := poly2{C: gen.Vec2(t, 1, label+".c"), Scale: gen.LogF(t, 0.1, 10, label+".scale"), BendEps: eps}
	for i := 0; i < n; i++ {
		p.Ang = append(p.Ang, gen.F(t, 0, 0.8, label+".ang"))
		p.Rad = append(p.Rad, gen.F(t, 0.6, 1.4, label+".rad"))
		k := gen.Int(t, 0, 3, label+".nextra")
		var ex, bd []float64
		for j := 0; j < k; j++ {
			ex = append(ex, (float64(j)+gen.F(t, 0.3, 0.7, label+".u"))/float64(k))
			switch gen.Int(t, 0, 3, label+".bendkind") {
			case 0:
				bd = append(bd, 0)
			default:
				bd = append(bd, gen.F(t, -1.5, 1.5, label+".bend"))
			}
		}
		p.Extra = append(p.Extra, ex)
		p.Bend = append(p.Bend, bd)
	}
	return p
}

func (p poly2) corners() []kit.V2 {
	n := len(p.Ang)
	out := make([]kit.V2, n)
	for i := range out {
		// clockwise traversal (model2d's outward normal convention): decreasing angle
		th := -2 * math.Pi * (float64(i) + p.Ang[i]) / float64(n)
		out[i] = kit.V2{p.C[0] + p.Scale*p.Rad[i]*math.Cos(th), p.C[1] + p.Scale*p.Rad[i]*math.Sin(th)}
	}
	return out
}

func (p poly2) points() []kit.V2 {
	cs := p.corners()
	var out []kit.V2
	for i, a := range cs {
		b := cs[(i+1)%len(cs)]
		out = append(out, a)
		for j, u := range p.Extra[i] {
			q := kit.V2{a[0] + u*(b[0]-a[0]), a[1] + u*(b[1]-a[1])}
			if p.Bend != nil && p.Bend[i][j] != 0 {
				h := p.Bend[i][j] * math.Sqrt(2*p.BendEps) / float64(len(p.Extra[i])+1)
				q = kit.V2{q[0] - h*(b[1]-a[1]), q[1] + h*(b[0]-a[0])}
			}
			out = append(out, q)
		}
	}
	return out
}

func genSrc2(t *rapid.T, kinds []string, label string) src2 {
	s := src2{Kind: pickOf(t, kinds, label+".kind")}
	switch s.Kind {
	case "csg":
		s.Tree = gen.Node2Gen(t, 3, 6, label+".tree")
		s.Delta = gen.LogF(t, 0.05, 0.4, label+".delta")
		s.Iters = gen.Int(t, 0, 8, label+".iters")
	case "field":
		f := gen.Field2Gen(t, 7, label+".field")
		s.Field = &f
		s.Delta = f.Scale / float64(gen.Int(t, 1, 3, label+".res"))
		s.Iters = gen.Int(t, 0, 8, label+".iters")
	case "lattice":
		l := gen.Lattice2Gen(t, 8, label+".lattice")
		s.Lat = &l
		s.Delta = 1
		s.Iters = pickOf(t, []int{0, 0, 0, 1, 3, 6}, label+".iters")
	case "polar":
		s.P = []float64{gen.F(t, 0.5, 3, label+".base"), gen.F(t, 0, 0.4, label+".amp1"), gen.F(t, 0, 0.4, label+".amp2"), gen.F(t, 0, 6.3, label+".phase")}
		s.N = []int{gen.Int(t, 3, 60, label+".stops"), gen.Int(t, 1, 5, label+".k1"), gen.Int(t, 1, 7, label+".k2")}
	case "polygon":
		n := gen.Int(t, 1, 3, label+".npoly")
		for i := 0; i < n; i++ {
			p := genPoly2(t, label+".poly")
			// disjoint by construction: the i-th polygon (radius <= 1.6*scale) is centred 4*scale_max apart
			p.C[0] += float64(i) * 40
			s.Polys = append(s.Polys, p)
		}
	case "rect":
		s.P = []float64{gen.F(t, -1, 1, label+".x"), gen.F(t, -1, 1, label+".y"), gen.LogF(t, 0.05, 3, label+".dx"), gen.LogF(t, 0.05, 3, label+".dy")}
	}
	if gen.Int(t, 0, 3, label+".dojitter") == 0 {
		s.Jitter = gen.LogF(t, 0.01, 0.5, label+".jitter")
		s.JSeed = gen.Int(t, 0, 1<<20, label+".jseed")
	}
	return s
}

func (s src2) base() []kit.Seg {
	switch s.Kind {
	case "csg":
		return m3.Segs(model2d.MarchingSquaresSearch(s.Tree.Build(), s.Delta, s.Iters))
	case "field":
		return m3.Segs(model2d.MarchingSquaresSearch(s.Field.Solid(), s.Delta, s.Iters))
	case "lattice":
		return m3.Segs(model2d.MarchingSquaresSearch(s.Lat.Solid(), 1, s.Iters))
	case "polar":
		f := func(th float64) float64 {
			return s.P[0] * (1 + s.P[1]*math.Sin(float64(s.N[1])*th+s.P[3]) + s.P[2]*math.Cos(float64(s.N[2])*th))
		}
		return m3.Segs(model2d.NewMeshPolar(f, s.N[0]))
	case "polygon":
		var out []kit.Seg
		for _, p := range s.Polys {
			pts := p.points()
			for i, a := range pts {
				out = append(out, kit.Seg{a, pts[(i+1)%len(pts)]})
			}
		}
		return out
	case "rect":
		return m3.Segs(model2d.NewMeshRect(model2d.XY(s.P[0], s.P[1]), model2d.XY(s.P[0]+s.P[2], s.P[1]+s.P[3])))
	}
	panic("c10: unknown 2D source kind " + s.Kind)
}

func (s src2) build() ([]kit.Seg, string) {
	ss := s.base()
	if len(ss) == 0 {
		return nil, "empty-input"
	}
	if len(ss) > 1500 {
		return nil, "input-too-large"
	}
	ss = canonSegs(ss)
	if s.Jitter > 0 {
		me := math.Inf(1)
		for _, g := range ss {
			me = math.Min(me, g[0].Dist(g[1]))
		}
		amp := s.Jitter * me / 4
		if !(amp > 0) {
			return nil, "zero-length-edge"
		}
		for i := range ss {
			for k := 0; k < 2; k++ {
				v := ss[i][k]
				ss[i][k] = kit.V2{v[0] + amp*(2*unit(h2(v, s.JSeed))-1), v[1] + amp*(2*unit(h2(v, s.JSeed+1))-1)}
			}
		}
		ss = canonSegs(ss)
	}
	return ss, ""
}
