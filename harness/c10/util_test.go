package c10

import (
	"fmt"
	"math"
	"sort"

	"pgregory.net/rapid"
	"verifharness/gen"
	"verifharness/kit"
)

// ---------------------------------------------------------------------------
// deterministic hashing (predicates and jitter are functions of coordinates and a
// drawn seed; no math/rand, no map order)

func mix64(v uint64) uint64 {
	v ^= v >> 30
	v *= 0xbf58476d1ce4e5b9
	v ^= v >> 27
	v *= 0x94d049bb133111eb
	v ^= v >> 31
	return v
}

func fbits(x float64) uint64 {
	if x == 0 {
		x = 0 // -0 and +0 are the same vertex
	}
	return math.Float64bits(x)
}

func h3(v kit.V3, seed int) uint64 {
	h := mix64(uint64(seed)*0x9e3779b97f4a7c15 + 0x1234567)
	for _, x := range v {
		h = mix64(h ^ fbits(x))
	}
	return h
}

func h2(v kit.V2, seed int) uint64 {
	h := mix64(uint64(seed)*0x9e3779b97f4a7c15 + 0x7654321)
	for _, x := range v {
		h = mix64(h ^ fbits(x))
	}
	return h
}

// unit maps a hash to [0,1).
func unit(h uint64) float64 { return float64(h>>11) / float64(1<<53) }

// hpair is a symmetric hash of an unordered vertex pair.
func hpair(a, b kit.V3, seed int) uint64 {
	if kit.V3Less(b, a) {
		a, b = b, a
	}
	return mix64(h3(a, seed)*31 + h3(b, seed+1))
}

// ---------------------------------------------------------------------------
// canonical ordering (the library iterates Go maps; the harness must not depend on it)

func less2(a, b kit.V2) bool {
	if a[0] != b[0] {
		return a[0] < b[0]
	}
	return a[1] < b[1]
}

func canonTri(t kit.Tri) kit.Tri {
	for k := range t {
		for i := range t[k] {
			if t[k][i] == 0 {
				t[k][i] = 0
			}
		}
	}
	m := 0
	for k := 1; k < 3; k++ {
		if kit.V3Less(t[k], t[m]) {
			m = k
		}
	}
	return kit.Tri{t[m], t[(m+1)%3], t[(m+2)%3]}
}

func triLess(a, b kit.Tri) bool {
	for k := 0; k < 3; k++ {
		if a[k] != b[k] {
			return kit.V3Less(a[k], b[k])
		}
	}
	return false
}

// canonTris rotates every triangle so that its smallest vertex comes first and sorts the list.
func canonTris(ts []kit.Tri) []kit.Tri {
	out := make([]kit.Tri, len(ts))
	for i, t := range ts {
		out[i] = canonTri(t)
	}
	sort.Slice(out, func(i, j int) bool { return triLess(out[i], out[j]) })
	return out
}

func canonSegs(ss []kit.Seg) []kit.Seg {
	out := make([]kit.Seg, len(ss))
	for i, s := range ss {
		for k := range s {
			for j := range s[k] {
				if s[k][j] == 0 {
					s[k][j] = 0
				}
			}
		}
		out[i] = s
	}
	sort.Slice(out, func(i, j int) bool {
		if out[i][0] != out[j][0] {
			return less2(out[i][0], out[j][0])
		}
		return less2(out[i][1], out[j][1])
	})
	return out
}

// ---------------------------------------------------------------------------
// indexed meshes

type imesh struct {
	V []kit.V3
	T [][3]int
}

// index numbers the vertices in lexicographic order (independent of face order).
func index(ts []kit.Tri) (imesh, map[kit.V3]int) {
	seen := map[kit.V3]bool{}
	var vs []kit.V3
	for _, t := range ts {
		for _, v := range t {
			if !seen[v] {
				seen[v] = true
				vs = append(vs, v)
			}
		}
	}
	sort.Slice(vs, func(i, j int) bool { return kit.V3Less(vs[i], vs[j]) })
	id := make(map[kit.V3]int, len(vs))
	for i, v := range vs {
		id[v] = i
	}
	m := imesh{V: vs, T: make([][3]int, len(ts))}
	for i, t := range ts {
		m.T[i] = [3]int{id[t[0]], id[t[1]], id[t[2]]}
	}
	return m, id
}

func (m imesh) tris() []kit.Tri {
	out := make([]kit.Tri, len(m.T))
	for i, t := range m.T {
		out[i] = kit.Tri{m.V[t[0]], m.V[t[1]], m.V[t[2]]}
	}
	return out
}

// neighbours returns, per vertex, the sorted list of distinct adjacent vertices.
func (m imesh) neighbours() [][]int {
	sets := make([]map[int]bool, len(m.V))
	for i := range sets {
		sets[i] = map[int]bool{}
	}
	for _, t := range m.T {
		for k := 0; k < 3; k++ {
			sets[t[k]][t[(k+1)%3]] = true
			sets[t[k]][t[(k+2)%3]] = true
		}
	}
	out := make([][]int, len(m.V))
	for i, s := range sets {
		for j := range s {
			out[i] = append(out[i], j)
		}
		sort.Ints(out[i])
	}
	return out
}

type ekey [2]int

func ek(a, b int) ekey {
	if a > b {
		a, b = b, a
	}
	return ekey{a, b}
}

// edges returns the sorted list of undirected edges and for each the opposite vertices.
func (m imesh) edges() ([]ekey, map[ekey][]int) {
	opp := map[ekey][]int{}
	for _, t := range m.T {
		for k := 0; k < 3; k++ {
			e := ek(t[k], t[(k+1)%3])
			opp[e] = append(opp[e], t[(k+2)%3])
		}
	}
	es := make([]ekey, 0, len(opp))
	for e := range opp {
		es = append(es, e)
	}
	sort.Slice(es, func(i, j int) bool {
		if es[i][0] != es[j][0] {
			return es[i][0] < es[j][0]
		}
		return es[i][1] < es[j][1]
	})
	return es, opp
}

// ---------------------------------------------------------------------------
// geometry helpers

type bbox3 struct{ min, max kit.V3 }

func bounds3(ts []kit.Tri) bbox3 {
	b := bbox3{kit.V3{math.Inf(1), math.Inf(1), math.Inf(1)}, kit.V3{math.Inf(-1), math.Inf(-1), math.Inf(-1)}}
	for _, t := range ts {
		for _, v := range t {
			for i := 0; i < 3; i++ {
				b.min[i] = math.Min(b.min[i], v[i])
				b.max[i] = math.Max(b.max[i], v[i])
			}
		}
	}
	return b
}

func (b bbox3) diag() float64 { return b.max.Sub(b.min).Norm() }

// size3 is the scale used for tolerances: bounding-box diagonal plus the distance of
// the box from the origin (absolute rounding errors scale with coordinate magnitudes).
func size3(ts []kit.Tri) float64 {
	b := bounds3(ts)
	return b.diag() + math.Max(b.min.MaxAbs(), b.max.MaxAbs())
}

func minEdge3(ts []kit.Tri) float64 {
	m := math.Inf(1)
	for _, t := range ts {
		for k := 0; k < 3; k++ {
			m = math.Min(m, t[k].Dist(t[(k+1)%3]))
		}
	}
	return m
}

func vertSet3(ts []kit.Tri) map[kit.V3]bool {
	s := map[kit.V3]bool{}
	for _, t := range ts {
		for _, v := range t {
			s[canon(v)] = true
		}
	}
	return s
}

func canon(v kit.V3) kit.V3 {
	for i := range v {
		if v[i] == 0 {
			v[i] = 0
		}
	}
	return v
}

func canon2(v kit.V2) kit.V2 {
	for i := range v {
		if v[i] == 0 {
			v[i] = 0
		}
	}
	return v
}

func finite3(ts []kit.Tri) bool {
	for _, t := range ts {
		for _, v := range t {
			if !v.Finite() {
				return false
			}
		}
	}
	return true
}

// minAngle returns the smallest interior angle (radians) over all triangles.
func minAngle(ts []kit.Tri) float64 {
	m := math.Pi
	for _, t := range ts {
		for k := 0; k < 3; k++ {
			a, b := t[(k+1)%3].Sub(t[k]), t[(k+2)%3].Sub(t[k])
			ang := math.Atan2(a.Cross(b).Norm(), a.Dot(b))
			m = math.Min(m, ang)
		}
	}
	return m
}

// ---------------------------------------------------------------------------
// reference placements: separation and matching

// closePair reports whether two of the points are within tol of each other (L-infinity).
func closePair(ps []kit.V3, tol float64) bool {
	idx := make([]int, len(ps))
	for i := range idx {
		idx[i] = i
	}
	sort.Slice(idx, func(i, j int) bool { return ps[idx[i]][0] < ps[idx[j]][0] })
	for a := 0; a < len(idx); a++ {
		p := ps[idx[a]]
		for b := a + 1; b < len(idx); b++ {
			q := ps[idx[b]]
			if q[0]-p[0] > tol {
				break
			}
			if math.Abs(q[1]-p[1]) <= tol && math.Abs(q[2]-p[2]) <= tol {
				return true
			}
		}
	}
	return false
}

// matcher finds the reference point within tol of a query point.
type matcher struct {
	ps    []kit.V3
	order []int
	xs    []float64
	tol   float64
	cache map[kit.V3]int
}

func newMatcher(ps []kit.V3, tol float64) *matcher {
	m := &matcher{ps: ps, tol: tol, cache: map[kit.V3]int{}}
	m.order = make([]int, len(ps))
	for i := range m.order {
		m.order[i] = i
	}
	sort.Slice(m.order, func(i, j int) bool { return ps[m.order[i]][0] < ps[m.order[j]][0] })
	m.xs = make([]float64, len(ps))
	for i, k := range m.order {
		m.xs[i] = ps[k][0]
	}
	return m
}

// find returns the index of the unique reference point within tol, or -1 and the distance to the nearest one.
func (m *matcher) find(q kit.V3) (int, float64) {
	if i, ok := m.cache[q]; ok {
		return i, 0
	}
	lo := sort.SearchFloat64s(m.xs, q[0]-m.tol)
	best, bd := -1, math.Inf(1)
	for a := lo; a < len(m.xs) && m.xs[a] <= q[0]+m.tol; a++ {
		p := m.ps[m.order[a]]
		d := math.Max(math.Abs(p[0]-q[0]), math.Max(math.Abs(p[1]-q[1]), math.Abs(p[2]-q[2])))
		if d < bd {
			best, bd = m.order[a], d
		}
	}
	if best >= 0 && bd <= m.tol {
		m.cache[q] = best
		return best, bd
	}
	// report the true nearest distance for the message
	bd = math.Inf(1)
	for _, p := range m.ps {
		bd = math.Min(bd, p.Dist(q))
	}
	return -1, bd
}

// matchFaces translates the triangles of out into reference vertex ids.
func matchFaces(out []kit.Tri, ref []kit.V3, tol float64, what string) ([][3]int, error) {
	m := newMatcher(ref, tol)
	res := make([][3]int, len(out))
	for i, t := range out {
		for k := 0; k < 3; k++ {
			id, d := m.find(t[k])
			if id < 0 {
				return nil, fmt.Errorf("%s: output vertex %v is not within %.3g of any vertex placed by the published rule (nearest is %.3g away)", what, t[k], tol, d)
			}
			res[i][k] = id
		}
	}
	return res, nil
}

func rot3(t [3]int) [3]int {
	m := 0
	for k := 1; k < 3; k++ {
		if t[k] < t[m] {
			m = k
		}
	}
	return [3]int{t[m], t[(m+1)%3], t[(m+2)%3]}
}

// sameFaces compares two oriented face multisets given in vertex ids.
func sameFaces(got, want [][3]int, what string) error {
	norm := func(ts [][3]int) [][3]int {
		o := make([][3]int, len(ts))
		for i, t := range ts {
			o[i] = rot3(t)
		}
		sort.Slice(o, func(i, j int) bool {
			for k := 0; k < 3; k++ {
				if o[i][k] != o[j][k] {
					return o[i][k] < o[j][k]
				}
			}
			return false
		})
		return o
	}
	g, w := norm(got), norm(want)
	if len(g) != len(w) {
		return fmt.Errorf("%s: %d faces, expected %d", what, len(g), len(w))
	}
	for i := range g {
		if g[i] != w[i] {
			return fmt.Errorf("%s: oriented face sets differ (first difference: got %v, expected %v in reference vertex ids)", what, g[i], w[i])
		}
	}
	return nil
}

// ---------------------------------------------------------------------------
// topology oracle

type topo struct {
	rep *kit.TopoReport
}

// validInput3 checks the precondition shared by all operations: a closed oriented
// manifold in which every vertex has at least three faces (no two faces on the same
// three vertices) and finite coordinates.
func validInput3(ts []kit.Tri) (*kit.TopoReport, string) {
	if len(ts) == 0 {
		return nil, "empty"
	}
	cp := append([]kit.Tri(nil), ts...)
	rep, err := kit.ClosedOrientedManifold(cp)
	if err != nil {
		return nil, "not-closed-manifold"
	}
	// a vertex with two faces means two faces on the same vertex triple ("pillow")
	cnt := map[kit.V3]int{}
	for _, t := range cp {
		for _, v := range t {
			cnt[v]++
		}
	}
	for _, n := range cnt {
		if n < 3 {
			return nil, "pillow"
		}
	}
	return rep, ""
}

func checkTopo3(out []kit.Tri, rep0 *kit.TopoReport, what string) (*kit.TopoReport, error) {
	cp := append([]kit.Tri(nil), out...)
	rep, err := kit.ClosedOrientedManifold(cp)
	if err != nil {
		return nil, fmt.Errorf("%s: result is not a closed oriented manifold: %w (input: V=%d E=%d F=%d)", what, err, rep0.V, rep0.E, rep0.F)
	}
	if rep.Euler != rep0.Euler {
		return nil, fmt.Errorf("%s: Euler characteristic changed from %d to %d (V,E,F %d,%d,%d -> %d,%d,%d)", what, rep0.Euler, rep.Euler, rep0.V, rep0.E, rep0.F, rep.V, rep.E, rep.F)
	}
	if rep.Components != rep0.Components {
		return nil, fmt.Errorf("%s: number of components changed from %d to %d", what, rep0.Components, rep.Components)
	}
	return rep, nil
}

func sameTris(a, b []kit.Tri) bool {
	if len(a) != len(b) {
		return false
	}
	ca, cb := canonTris(a), canonTris(b)
	for i := range ca {
		if ca[i] != cb[i] {
			return false
		}
	}
	return true
}

// volTol is the tolerance for "volume unchanged": 1e-9 relative plus the rounding of
// the volume sum itself (terms of magnitude size^3, a few thousand of them).
func volTol(v float64, size float64) float64 { return 1e-9*math.Abs(v) + 1e-12*size*size*size }

// pickOf draws a list element uniformly (rapid.SampledFrom prefers the first entries).
func pickOf[T any](t *rapid.T, xs []T, label string) T {
	return xs[gen.Int(t, 0, len(xs)-1, label)]
}
