package c11

// Diagnostics clauses: NeedsRepair, SingularVertices, InconsistentEdges, Orientable,
// RepairNormalsMajority (3D); Manifold, InconsistentVertices (2D).

import (
	"fmt"
	"math"
	"sort"

	"github.com/unixpickle/model3d/model2d"
	"github.com/unixpickle/model3d/model3d"
	"pgregory.net/rapid"
	"verifharness/gen"
	"verifharness/kit"
	"verifharness/m3"
)

// ---------------------------------------------------------------------------
// shared comparison of the library's diagnostics with the definitions

func checkDiag3(tris []kit.Tri, o *kit.Obs) (*diag3, *model3d.Mesh, error) {
	d := analyse3(tris)
	if d.Degenerate {
		return nil, nil, fmt.Errorf("%w: generator produced a degenerate face", kit.ErrInfra)
	}
	m := m3.MeshFromTris(tris)
	o.Labelf("needsrepair:%v", d.NeedsRepair)
	o.Labelf("singular:%v", len(d.Singular) > 0)
	o.Labelf("inconsistent:%v", len(d.Inconsistent) > 0)
	switch {
	case d.MaxEdgeUse > 2:
		o.Label("edges:nonmanifold")
	case d.Boundary > 0:
		o.Label("edges:boundary")
	default:
		o.Label("edges:closed")
	}
	if got := m.NeedsRepair(); got != d.NeedsRepair {
		return d, m, fmt.Errorf("NeedsRepair() = %v, but by definition (some edge not shared by exactly two triangles) it is %v (max edge use %d, %d boundary edges, %d faces)", got, d.NeedsRepair, d.MaxEdgeUse, d.Boundary, d.F)
	}
	// ... and the same answer from a mesh object that has been queried before (its vertex index exists then)
	m.VertexSlice()
	if got := m.NeedsRepair(); got != d.NeedsRepair {
		return d, m, fmt.Errorf("NeedsRepair() = %v after an earlier query on the same mesh object (it was %v before), by definition it is %v (max edge use %d, %d boundary edges, %d faces)", got, d.NeedsRepair, d.NeedsRepair, d.MaxEdgeUse, d.Boundary, d.F)
	}
	// singular vertices, compared as sets
	wantSing := d.Singular
	if d.TwinFaces {
		o.Label("twinfaces")
		if kit.Excluded("singular-twin-faces") {
			// known finding: faces on the same three vertices are not treated as edge neighbours
			if len(d.SingularNoTwin) != len(d.Singular) {
				kit.CountExcluded("singular-twin-faces")
			}
			wantSing = d.SingularNoTwin
		}
	}
	{
		got := map[kit.V3]bool{}
		for _, c := range m.SingularVertices() {
			v := c3(m3.V3(c))
			if got[v] {
				return d, m, fmt.Errorf("SingularVertices() lists %v twice", v)
			}
			got[v] = true
		}
		for _, v := range sortedVerts(tris) {
			if got[v] && !wantSing[v] {
				return d, m, fmt.Errorf("SingularVertices() reports %v, whose incident triangles form one edge-connected fan (%d singular by definition, %d reported)", v, len(d.Singular), len(got))
			}
		}
		for _, v := range sortedVerts(tris) {
			if wantSing[v] && !got[v] {
				return d, m, fmt.Errorf("SingularVertices() misses %v, whose incident triangles split into several edge-connected fans (%d singular by definition, %d reported)", v, len(d.Singular), len(got))
			}
		}
		if len(got) != len(wantSing) {
			return d, m, fmt.Errorf("SingularVertices() reports %d vertices, %d are singular by definition", len(got), len(wantSing))
		}
	}
	// inconsistent edges, compared as sets of directed edges (deterministic report: smallest offender)
	{
		got := map[dedge]bool{}
		for _, e := range m.InconsistentEdges() {
			k := dedge{c3(m3.V3(e[0])), c3(m3.V3(e[1]))}
			if got[k] {
				return d, m, fmt.Errorf("InconsistentEdges() lists %v twice", k)
			}
			got[k] = true
		}
		var bad *dedge
		for e := range got {
			e := e
			if !d.Inconsistent[e] && (bad == nil || less3(e.a, bad.a) || (e.a == bad.a && less3(e.b, bad.b))) {
				bad = &e
			}
		}
		if bad != nil {
			return d, m, fmt.Errorf("InconsistentEdges() reports %v->%v, which is not traversed twice in that direction", bad.a, bad.b)
		}
		if len(got) != len(d.Inconsistent) {
			return d, m, fmt.Errorf("InconsistentEdges() reports %d edges, %d directed edges are traversed by two or more triangles", len(got), len(d.Inconsistent))
		}
	}
	if d.MaxEdgeUse <= 2 {
		o.Labelf("orientable:%v", d.Orientable)
		if got := m.Orientable(); got != d.Orientable {
			return d, m, fmt.Errorf("Orientable() = %v on a mesh whose edges are shared by at most two triangles; a consistent choice of flips exists: %v", got, d.Orientable)
		}
	}
	if d.NeedsRepair || len(d.Singular) > 0 || len(d.Inconsistent) > 0 || (d.MaxEdgeUse <= 2 && !d.Orientable) {
		o.NonTrivial()
	}
	return d, m, nil
}

// checkMajority: RepairNormalsMajority flips exactly the minority orientation class of every
// edge-connected group (either class when they tie) and reports the number of flips.
// Precondition (documented): orientable and manifold.
func checkMajority(tris []kit.Tri, d *diag3, m *model3d.Mesh, o *kit.Obs) error {
	if d.MaxEdgeUse > 2 || !d.Orientable || len(d.Singular) > 0 || d.F == 0 {
		return nil
	}
	o.Label("majority:checked")
	res, count := m.RepairNormalsMajority()
	out := m3.Tris(res)
	if err := untouched3(m, tris, "RepairNormalsMajority"); err != nil {
		return err
	}
	if len(out) != len(tris) {
		return fmt.Errorf("RepairNormalsMajority returned %d faces for %d", len(out), len(tris))
	}
	// without singular vertices, distinct edge-connected groups share no vertex
	compOf := map[kit.V3]int{}
	for i, t := range tris {
		for _, v := range t {
			compOf[c3(v)] = d.Comp[i]
		}
	}
	gotBy := make([][]kit.Tri, d.NComp)
	for _, t := range out {
		c, ok := compOf[c3(t[0])]
		if !ok {
			return fmt.Errorf("RepairNormalsMajority produced a face with an unknown vertex %v", t[0])
		}
		gotBy[c] = append(gotBy[c], t)
	}
	total := 0
	ties := 0
	for c := 0; c < d.NComp; c++ {
		var optA, optB []kit.Tri // A: class true flipped; B: class false flipped
		nTrue, n := 0, 0
		for i, t := range tris {
			if d.Comp[i] != c {
				continue
			}
			n++
			if d.Side[i] {
				nTrue++
				optA = append(optA, flipTri(t))
				optB = append(optB, t)
			} else {
				optA = append(optA, t)
				optB = append(optB, flipTri(t))
			}
		}
		errA, errB := sameFaces(gotBy[c], optA), sameFaces(gotBy[c], optB)
		switch {
		case nTrue*2 < n:
			if errA != nil {
				return fmt.Errorf("RepairNormalsMajority: group of %d faces with %d in the minority orientation: result is not 'minority flipped': %v", n, nTrue, errA)
			}
			total += nTrue
		case nTrue*2 > n:
			if errB != nil {
				return fmt.Errorf("RepairNormalsMajority: group of %d faces with %d in the minority orientation: result is not 'minority flipped': %v", n, n-nTrue, errB)
			}
			total += n - nTrue
		default:
			ties++
			if errA != nil && errB != nil {
				return fmt.Errorf("RepairNormalsMajority: tied group of %d faces is not consistently oriented afterwards: %v", n, errA)
			}
			total += n / 2
		}
	}
	if ties > 0 {
		o.Label("majority:tie")
	}
	if count != total {
		return fmt.Errorf("RepairNormalsMajority reports %d flips, the minority classes have %d faces in total", count, total)
	}
	if len(d.Inconsistent) > 0 {
		o.Label("majority:had-work")
	}
	return nil
}

// ---------------------------------------------------------------------------
// abstract soups over a small vertex pool

type soupCase struct {
	Kind  string   `json:"kind"` // random | strip | tetra
	K     int      `json:"k"`
	Faces [][3]int `json:"faces"`
	Neg   []bool   `json:"neg,omitempty"` // write the zeros of this face's coordinates as -0
}

func poolVertex(i int, neg bool) kit.V3 {
	v := kit.V3{float64(i % 3), float64(i / 3 % 3), float64(i / 9)}
	if neg {
		for k := range v {
			if v[k] == 0 {
				v[k] = math.Copysign(0, -1)
			}
		}
	}
	return v
}

func (c soupCase) tris() []kit.Tri {
	var ts []kit.Tri
	for i, f := range c.Faces {
		neg := i < len(c.Neg) && c.Neg[i]
		ts = append(ts, kit.Tri{poolVertex(f[0], neg), poolVertex(f[1], neg), poolVertex(f[2], neg)})
	}
	return ts
}

func drawFace(t *rapid.T, k int) [3]int {
	a := gen.Int(t, 0, k-1, "a")
	b := gen.Int(t, 0, k-2, "b")
	if b >= a {
		b++
	}
	c := gen.Int(t, 0, k-3, "c")
	lo, hi := a, b
	if lo > hi {
		lo, hi = hi, lo
	}
	if c >= lo {
		c++
	}
	if c >= hi {
		c++
	}
	return [3]int{a, b, c}
}

func genSoup(t *rapid.T) soupCase {
	c := soupCase{Kind: rapid.SampledFrom([]string{"random", "random", "strip", "tetra"}).Draw(t, "kind")}
	switch c.Kind {
	case "strip":
		// a triangulated band of n quads; closed with or without a half twist, or left open
		n := gen.Int(t, 3, 8, "n")
		closing := rapid.SampledFrom([]string{"moebius", "annulus", "open"}).Draw(t, "closing")
		c.K = 2 * (n + 1)
		a := func(i int) int { return 2 * i }
		b := func(i int) int { return 2*i + 1 }
		id := func(f func(int) int, g func(int) int, i int) int {
			if i < n || closing == "open" {
				return f(i)
			}
			if closing == "moebius" {
				return g(0)
			}
			return f(0)
		}
		for i := 0; i < n; i++ {
			a0, b0 := a(i), b(i)
			a1, b1 := id(a, b, i+1), id(b, a, i+1)
			c.Faces = append(c.Faces, [3]int{a0, a1, b0}, [3]int{a1, b1, b0})
		}
	case "tetra":
		c.K = gen.Int(t, 4, 8, "k")
		c.Faces = [][3]int{{0, 1, 2}, {0, 3, 1}, {1, 3, 2}, {0, 2, 3}}
		extra := gen.Int(t, 0, 5, "extra")
		for i := 0; i < extra; i++ {
			c.Faces = append(c.Faces, drawFace(t, c.K))
		}
	default:
		c.K = gen.Int(t, 3, 9, "k")
		m := gen.Int(t, 1, 14, "m")
		for i := 0; i < m; i++ {
			c.Faces = append(c.Faces, drawFace(t, c.K))
		}
	}
	// random re-orientations and removals on top
	nf := gen.Int(t, 0, 4, "nflip")
	for i := 0; i < nf; i++ {
		j := gen.Int(t, 0, len(c.Faces)-1, "flip")
		c.Faces[j][0], c.Faces[j][1] = c.Faces[j][1], c.Faces[j][0]
	}
	if len(c.Faces) > 1 && gen.Int(t, 0, 3, "drop") == 0 {
		j := gen.Int(t, 0, len(c.Faces)-1, "dropidx")
		c.Faces = append(c.Faces[:j], c.Faces[j+1:]...)
	}
	if gen.Int(t, 0, 3, "negzero") == 0 {
		for range c.Faces {
			c.Neg = append(c.Neg, rapid.Bool().Draw(t, "neg"))
		}
	}
	return c
}

func checkSoup(c soupCase, o *kit.Obs) error {
	tris := c.tris()
	o.Label("kind:" + c.Kind)
	if len(c.Neg) > 0 {
		o.Label("negzero")
	}
	d, m, err := checkDiag3(tris, o)
	if err != nil {
		return err
	}
	return checkMajority(tris, d, m, o)
}

// ---------------------------------------------------------------------------
// geometric meshes with damage

type dmgCase struct {
	Spec MeshSpec `json:"spec"`
	Dmg  Damage   `json:"damage"`
}

func genDmg(t *rapid.T) dmgCase {
	c := dmgCase{Spec: genMeshSpec(t, []string{"nest", "nest", "lattice", "lattice", "csg"}, 4, 3, true)}
	mode := rapid.SampledFrom([]string{"none", "open", "pinch", "flip", "mixed", "mixed"}).Draw(t, "damage")
	switch mode {
	case "open":
		c.Dmg.Remove = genIdx(t, 4, "remove")
	case "pinch":
		n := gen.Int(t, 1, 2, "nmerge")
		for i := 0; i < n; i++ {
			c.Dmg.Merge = append(c.Dmg.Merge, [2]int{gen.Int(t, 0, 4000, "ma"), gen.Int(t, 0, 4000, "mb")})
		}
	case "flip":
		c.Dmg.Flip = genIdx(t, 6, "flip")
	case "mixed":
		c.Dmg.Remove = genIdx(t, 3, "remove")
		c.Dmg.Flip = genIdx(t, 4, "flip")
		c.Dmg.Dup = genIdx(t, 1, "dup")
		if rapid.Bool().Draw(t, "merge") {
			c.Dmg.Merge = append(c.Dmg.Merge, [2]int{gen.Int(t, 0, 4000, "ma"), gen.Int(t, 0, 4000, "mb")})
		}
	}
	return c
}

func checkDmg(c dmgCase, o *kit.Obs) error {
	base := c.Spec.Build()
	o.Label("mesh:" + c.Spec.Kind)
	if len(base) > 4000 {
		o.Skip("mesh too large")
		return nil
	}
	tris := c.Dmg.Apply(base)
	if len(c.Dmg.Merge) > 0 {
		o.Label("dmg:merge")
	}
	if len(c.Dmg.Remove) > 0 {
		o.Label("dmg:remove")
	}
	if len(c.Dmg.Flip) > 0 {
		o.Label("dmg:flip")
	}
	if len(c.Dmg.Dup) > 0 {
		o.Label("dmg:dup")
	}
	d, m, err := checkDiag3(tris, o)
	if err != nil {
		return err
	}
	if len(c.Dmg.Dup) == 0 && len(c.Dmg.Remove) == 0 && len(c.Dmg.Merge) == 0 && len(c.Dmg.Flip) == 0 && len(base) > 0 {
		// undamaged closed manifold input: everything must be clean
		if d.NeedsRepair || len(d.Singular) > 0 || len(d.Inconsistent) > 0 {
			return fmt.Errorf("%w: undamaged base mesh of kind %s is not a clean manifold by definition", kit.ErrInfra, c.Spec.Kind)
		}
	}
	return checkMajority(tris, d, m, o)
}

// ---------------------------------------------------------------------------
// 2D: Manifold and InconsistentVertices

type diag2Case struct {
	Kind  string    `json:"kind"` // soup | mesh
	K     int       `json:"k,omitempty"`
	Edges [][2]int  `json:"edges,omitempty"`
	Spec  MeshSpec2 `json:"spec,omitempty"`
	Dmg   Damage    `json:"damage"`
}

func genDiag2(t *rapid.T) diag2Case {
	c := diag2Case{Kind: rapid.SampledFrom([]string{"soup", "mesh", "mesh"}).Draw(t, "kind")}
	if c.Kind == "soup" {
		c.K = gen.Int(t, 2, 8, "k")
		shape := rapid.SampledFrom([]string{"random", "cycles"}).Draw(t, "shape")
		if shape == "cycles" {
			// disjoint directed cycles over the pool, then damage
			i := 0
			for i+2 <= c.K {
				n := gen.Int(t, 2, c.K-i, "len")
				for j := 0; j < n; j++ {
					c.Edges = append(c.Edges, [2]int{i + j, i + (j+1)%n})
				}
				i += n
			}
		} else {
			m := gen.Int(t, 1, 12, "m")
			for i := 0; i < m; i++ {
				a := gen.Int(t, 0, c.K-1, "a")
				b := gen.Int(t, 0, c.K-2, "b")
				if b >= a {
					b++
				}
				c.Edges = append(c.Edges, [2]int{a, b})
			}
		}
	} else {
		c.Spec = genMeshSpec2(t, []string{"nest", "lattice"}, 5, 3)
	}
	switch rapid.SampledFrom([]string{"none", "open", "pinch", "flip", "mixed"}).Draw(t, "damage") {
	case "open":
		c.Dmg.Remove = genIdx(t, 3, "remove")
	case "pinch":
		c.Dmg.Merge = append(c.Dmg.Merge, [2]int{gen.Int(t, 0, 4000, "ma"), gen.Int(t, 0, 4000, "mb")})
	case "flip":
		c.Dmg.Flip = genIdx(t, 4, "flip")
	case "mixed":
		c.Dmg.Remove = genIdx(t, 2, "remove")
		c.Dmg.Flip = genIdx(t, 3, "flip")
		c.Dmg.Dup = genIdx(t, 1, "dup")
		if rapid.Bool().Draw(t, "merge") {
			c.Dmg.Merge = append(c.Dmg.Merge, [2]int{gen.Int(t, 0, 4000, "ma"), gen.Int(t, 0, 4000, "mb")})
		}
	}
	return c
}

func checkDiag2(c diag2Case, o *kit.Obs) error {
	var segs []kit.Seg
	o.Label("kind:" + c.Kind)
	if c.Kind == "soup" {
		for _, e := range c.Edges {
			p := func(i int) kit.V2 { return kit.V2{float64(i % 3), float64(i / 3)} }
			segs = append(segs, kit.Seg{p(e[0]), p(e[1])})
		}
	} else {
		segs = c.Spec.Build()
		o.Label("mesh:" + c.Spec.Kind)
	}
	segs = c.Dmg.Apply2(segs)
	d := analyse2(segs)
	if d.Degenerate {
		return fmt.Errorf("%w: generator produced a degenerate segment", kit.ErrInfra)
	}
	m := m3.MeshFromSegs(segs)
	o.Labelf("manifold:%v", d.Manifold)
	o.Labelf("inconsistent:%v", len(d.Inconsistent) > 0)
	if !d.Manifold || len(d.Inconsistent) > 0 {
		o.NonTrivial()
	}
	if got := m.Manifold(); got != d.Manifold {
		return fmt.Errorf("Manifold() = %v, by definition (every vertex has exactly two segments) %v", got, d.Manifold)
	}
	got := map[kit.V2]bool{}
	for _, v := range m.InconsistentVertices() {
		k := c2(m3.V2(v))
		if got[k] {
			return fmt.Errorf("InconsistentVertices() lists %v twice", k)
		}
		got[k] = true
	}
	for _, v := range sortedVerts2(segs) {
		if got[v] && !d.Inconsistent[v] {
			return fmt.Errorf("InconsistentVertices() reports %v, which starts at most one and ends at most one segment", v)
		}
	}
	if len(got) != len(d.Inconsistent) {
		return fmt.Errorf("InconsistentVertices() reports %d vertices, %d vertices start or end more than one segment", len(got), len(d.Inconsistent))
	}
	return nil
}

// ---------------------------------------------------------------------------
// RepairNormalsMajority on several components with different minority sizes

type majCase struct {
	Spec   MeshSpec `json:"spec"`
	Remove []int    `json:"remove,omitempty"`
	Seed   uint64   `json:"seed"`
}

func genMaj(t *rapid.T) majCase {
	c := majCase{Spec: genMeshSpec(t, []string{"nest", "nest", "nest", "lattice"}, 6, 3, false), Seed: rapid.Uint64().Draw(t, "seed")}
	if gen.Int(t, 0, 2, "open") == 0 {
		c.Remove = genIdx(t, 3, "remove")
	}
	return c
}

func checkMaj(c majCase, o *kit.Obs) error {
	base := Damage{Remove: c.Remove}.Apply(c.Spec.Build())
	o.Label("mesh:" + c.Spec.Kind)
	if len(base) == 0 || len(base) > 4000 {
		return nil
	}
	// every vertex-connected component gets its own fraction of re-oriented faces
	r := &rng{s: c.Seed}
	fracs := []float64{0, 0.1, 0.3, 0.45, 0.55, 0.7, 0.9, 1}
	var tris []kit.Tri
	parts := components3(base)
	mixed := map[bool]bool{}
	for _, part := range parts {
		f := fracs[r.next()%uint64(len(fracs))]
		mixed[f > 0.5] = true
		for _, t := range part {
			if float64(r.next()>>11)/float64(1<<53) < f {
				t = flipTri(t)
			}
			tris = append(tris, t)
		}
	}
	o.Labelf("components:%s", bucket(len(parts)))
	if len(mixed) == 2 {
		o.Label("majorities-differ-between-components")
	}
	d, m, err := checkDiag3(tris, o)
	if err != nil {
		return err
	}
	if d.MaxEdgeUse > 2 || !d.Orientable {
		return fmt.Errorf("%w: re-oriented manifold is not orientable by definition", kit.ErrInfra)
	}
	return checkMajority(tris, d, m, o)
}

// untouched3 / untouched2: the repair functions return a new mesh; the mesh they were called on still holds the
// faces it held, vertex for vertex (a second look at the input, or a second repair of it, is ordinary use).
func untouched3(m *model3d.Mesh, before []kit.Tri, what string) error {
	after := m3.Tris(m)
	key := func(ts []kit.Tri) []string {
		out := make([]string, len(ts))
		for i, t := range ts {
			out[i] = fmt.Sprint(t)
		}
		sort.Strings(out)
		return out
	}
	a, b := key(before), key(after)
	if len(a) != len(b) {
		return fmt.Errorf("%s changed the mesh it was called on: %d faces before, %d after", what, len(a), len(b))
	}
	for i := range a {
		if a[i] != b[i] {
			return fmt.Errorf("%s changed the mesh it was called on: it had the face %s, now it has %s", what, a[i], b[i])
		}
	}
	return nil
}

func untouched2(m *model2d.Mesh, before []kit.Seg, what string) error {
	after := m3.Segs(m)
	key := func(ss []kit.Seg) []string {
		out := make([]string, len(ss))
		for i, t := range ss {
			out[i] = fmt.Sprint(t)
		}
		sort.Strings(out)
		return out
	}
	a, b := key(before), key(after)
	if len(a) != len(b) {
		return fmt.Errorf("%s changed the mesh it was called on: %d segments before, %d after", what, len(a), len(b))
	}
	for i := range a {
		if a[i] != b[i] {
			return fmt.Errorf("%s changed the mesh it was called on: it had the segment %s, now it has %s", what, a[i], b[i])
		}
	}
	return nil
}
