package c11

// MeshToHierarchy / MeshHierarchy.{Contains, FullMesh, Min, Max, MapCoords} in 3D and 2D.

import (
	"fmt"
	"math"
	"sort"

	"github.com/unixpickle/model3d/model2d"
	"github.com/unixpickle/model3d/model3d"
	"pgregory.net/rapid"
	"verifharness/gen"
	"verifharness/kit"
	"verifharness/m3"
)

type probe struct {
	Sel float64 `json:"sel"` // which component the probe is placed relative to
	U   kit.V3  `json:"u"`   // offset in units of the component's bounding box half size
}

type hierCase struct {
	Spec   MeshSpec `json:"spec"`
	Flip   []int    `json:"flip,omitempty"`
	Probes []probe  `json:"probes"`
	Move   kit.V3   `json:"move"` // translation used for the MapCoords clause
}

func genProbes(t *rapid.T, dims int) []probe {
	n := gen.Int(t, 4, 12, "nprobes")
	var ps []probe
	for i := 0; i < n; i++ {
		p := probe{Sel: gen.F(t, 0, 0.999, "sel")}
		for k := 0; k < dims; k++ {
			p.U[k] = gen.F(t, -1.3, 1.3, "u")
		}
		ps = append(ps, p)
	}
	return ps
}

func genHier(t *rapid.T) hierCase {
	c := hierCase{Spec: genMeshSpec(t, []string{"nest", "nest", "nest", "nest", "lattice", "lattice", "csg"}, 12, 5, false)}
	if c.Spec.Kind == "lattice" {
		l := gen.Lattice3Gen(t, 5, "biglattice")
		c.Spec.Lat = &l
	}
	if gen.Int(t, 0, 2, "reorient") == 0 {
		c.Flip = genIdx(t, 6, "flip")
	}
	c.Probes = genProbes(t, 3)
	c.Move = gen.Vec3(t, 3, "move")
	return c
}

// comp3 is one vertex-connected component of the input with its brute-force nesting.
type comp3 struct {
	Faces  []kit.Tri
	Parent int
	Depth  int
	Min    kit.V3
	Max    kit.V3
}

// components3 splits the faces into vertex-connected components (deterministic order).
func components3(tris []kit.Tri) [][]kit.Tri {
	vt := map[kit.V3][]int{}
	for i, t := range tris {
		for _, v := range t {
			vt[c3(v)] = append(vt[c3(v)], i)
		}
	}
	seen := make([]bool, len(tris))
	var out [][]kit.Tri
	for i := range tris {
		if seen[i] {
			continue
		}
		var comp []kit.Tri
		stack := []int{i}
		seen[i] = true
		for len(stack) > 0 {
			j := stack[len(stack)-1]
			stack = stack[:len(stack)-1]
			comp = append(comp, tris[j])
			for _, v := range tris[j] {
				for _, k := range vt[c3(v)] {
					if !seen[k] {
						seen[k] = true
						stack = append(stack, k)
					}
				}
			}
		}
		out = append(out, comp)
	}
	return out
}

// nesting3 computes, by brute force, which component encloses which: A encloses B iff the
// winding number of A's (closed) surface around a vertex of B is +-1.  ok=false when a
// winding number is not within 0.01 of an integer in {-1,0,1}.
func nesting3(parts [][]kit.Tri) ([]comp3, bool) {
	n := len(parts)
	cs := make([]comp3, n)
	inside := make([][]bool, n) // inside[b][a]: a encloses b
	orient := make([][]kit.Tri, n)
	for a := range parts {
		orient[a] = orientedCopy(parts[a])
	}
	for b := range parts {
		inside[b] = make([]bool, n)
		v := parts[b][0][0]
		for a := range parts {
			if a == b {
				continue
			}
			w := math.Abs(kit.Winding3(orient[a], v))
			switch {
			case math.Abs(w-1) < 0.01:
				inside[b][a] = true
			case w < 0.01:
			default:
				return nil, false
			}
		}
	}
	for b := range parts {
		cs[b].Faces = parts[b]
		cs[b].Parent = -1
		d := 0
		for a := range parts {
			if inside[b][a] {
				d++
			}
		}
		cs[b].Depth = d
		cs[b].Min = kit.V3{math.Inf(1), math.Inf(1), math.Inf(1)}
		cs[b].Max = kit.V3{math.Inf(-1), math.Inf(-1), math.Inf(-1)}
		for _, t := range parts[b] {
			for _, v := range t {
				for k := 0; k < 3; k++ {
					cs[b].Min[k] = math.Min(cs[b].Min[k], v[k])
					cs[b].Max[k] = math.Max(cs[b].Max[k], v[k])
				}
			}
		}
	}
	// parent = the enclosing component of greatest depth (enclosers of a component form a chain)
	for b := range parts {
		best := -1
		for a := range parts {
			if inside[b][a] && (best < 0 || cs[a].Depth > cs[best].Depth) {
				best = a
			}
		}
		cs[b].Parent = best
		if best >= 0 && cs[best].Depth != cs[b].Depth-1 {
			return nil, false
		}
	}
	return cs, true
}

// orientedCopy makes a closed manifold component consistently oriented (so that its winding
// number is +-1 inside) whatever re-orientation the case applied: propagate over edges.
func orientedCopy(ts []kit.Tri) []kit.Tri {
	d := analyse3(ts)
	out := make([]kit.Tri, len(ts))
	for i, t := range ts {
		if d.Side[i] {
			t = flipTri(t)
		}
		out[i] = t
	}
	return out
}

func faceKey(t kit.Tri) kit.Tri { return canonTri(t) }

func checkHier(c hierCase, o *kit.Obs) error {
	base := c.Spec.Build()
	o.Label("mesh:" + c.Spec.Kind)
	if len(base) == 0 {
		if h := model3d.MeshToHierarchy(model3d.NewMesh()); len(h) != 0 {
			return fmt.Errorf("MeshToHierarchy of the empty mesh has %d roots", len(h))
		}
		return nil
	}
	if len(base) > 1500 {
		o.Skip("mesh too large")
		return nil
	}
	tris := Damage{Flip: c.Flip}.Apply(base)
	parts := components3(tris)
	cs, ok := nesting3(parts)
	if !ok {
		return fmt.Errorf("%w: brute-force nesting of the input is not decidable", kit.ErrInfra)
	}
	if c.Spec.Kind == "nest" {
		sh := c.Spec.Nest.Build()
		if err := checkNestTruth(sh); err != nil {
			return err
		}
		// the brute-force nesting must agree with the constructed one (depth histogram and component count)
		if len(sh) != len(cs) {
			return fmt.Errorf("%w: %d constructed shells but %d components", kit.ErrInfra, len(sh), len(cs))
		}
		// match by first vertex
		byVertex := map[kit.V3]int{}
		for i, p := range cs {
			for _, t := range p.Faces {
				for _, v := range t {
					byVertex[c3(v)] = i
				}
			}
		}
		for _, s := range sh {
			i := byVertex[c3(s.Tris[0][0])]
			wantParent := -1
			if s.Parent >= 0 {
				wantParent = byVertex[c3(sh[s.Parent].Tris[0][0])]
			}
			if cs[i].Parent != wantParent || cs[i].Depth != s.Depth {
				return fmt.Errorf("%w: brute-force nesting disagrees with the construction", kit.ErrInfra)
			}
		}
	}
	depthMax, roots := 0, 0
	for _, p := range cs {
		if p.Depth+1 > depthMax {
			depthMax = p.Depth + 1
		}
		if p.Parent < 0 {
			roots++
		}
	}
	o.Labelf("depth:%d", depthMax)
	o.Labelf("components:%s", bucket(len(cs)))
	if depthMax >= 2 || len(cs) >= 3 {
		o.NonTrivial()
	}
	// a sibling inside another sibling's bounding box (torus hole, concave neighbours)
	for i, p := range cs {
		for j, q := range cs {
			if i != j && p.Parent == q.Parent && boxInside(p.Min, p.Max, q.Min, q.Max) {
				o.Label("sibling-inside-bbox")
			}
		}
	}

	m := m3.MeshFromTris(tris)
	if n := m.SelfIntersections(); n != 0 {
		return fmt.Errorf("SelfIntersections() = %d on a mesh that is free of self-intersections by construction (%s)", n, c.Spec.Kind)
	}
	hs := model3d.MeshToHierarchy(m)

	// ---- tree equals the nesting; no face lost or duplicated
	compOfFace := map[kit.Tri]int{}
	for i, p := range cs {
		for _, t := range p.Faces {
			compOfFace[faceKey(t)] = i
		}
	}
	seenComp := map[int]bool{}
	var all []kit.Tri
	nodeComp := map[*model3d.MeshHierarchy]int{}
	var walk func(h *model3d.MeshHierarchy, parent int) error
	walk = func(h *model3d.MeshHierarchy, parent int) error {
		ft := m3.Tris(h.Mesh)
		if len(ft) == 0 {
			return fmt.Errorf("hierarchy node with an empty mesh")
		}
		all = append(all, ft...)
		ci, ok := compOfFace[faceKey(ft[0])]
		if !ok {
			return fmt.Errorf("hierarchy node contains face %v, which is not a face of the input", ft[0])
		}
		if err := sameFaces(ft, cs[ci].Faces); err != nil {
			return fmt.Errorf("hierarchy node is not exactly one connected component of the input: %v", err)
		}
		if seenComp[ci] {
			return fmt.Errorf("a connected component appears in two hierarchy nodes")
		}
		seenComp[ci] = true
		nodeComp[h] = ci
		if cs[ci].Parent != parent {
			return fmt.Errorf("component at nesting depth %d was placed under the wrong parent: its innermost enclosing component is #%d (depth %d), the hierarchy puts it under #%d (depth %d); %d components, max depth %d",
				cs[ci].Depth, cs[ci].Parent, depthOf(cs, cs[ci].Parent), parent, depthOf(cs, parent), len(cs), depthMax)
		}
		// bounds of the node's solid are the bounding box of its surface
		if mn, mx := m3.V3(h.Min()), m3.V3(h.Max()); c3(mn) != c3(cs[ci].Min) || c3(mx) != c3(cs[ci].Max) {
			return fmt.Errorf("hierarchy node bounds %v..%v differ from its mesh's bounding box %v..%v", mn, mx, cs[ci].Min, cs[ci].Max)
		}
		for _, k := range h.Children {
			if err := walk(k, ci); err != nil {
				return err
			}
		}
		return nil
	}
	for _, h := range hs {
		if err := walk(h, -1); err != nil {
			return err
		}
	}
	if len(hs) != roots {
		return fmt.Errorf("MeshToHierarchy returned %d roots, %d components are enclosed by no other", len(hs), roots)
	}
	if err := sameFaces(all, tris); err != nil {
		return fmt.Errorf("faces over all hierarchy nodes differ from the input: %v", err)
	}

	// ---- FullMesh of every root = faces of its subtree
	sub := make([][]int, len(cs)) // subtree members per component
	for i := range cs {
		for a := i; a >= 0; a = cs[a].Parent {
			sub[a] = append(sub[a], i)
		}
	}
	for _, h := range hs {
		var want []kit.Tri
		for _, i := range sub[nodeComp[h]] {
			want = append(want, cs[i].Faces...)
		}
		if err := sameFaces(m3.Tris(h.FullMesh()), want); err != nil {
			return fmt.Errorf("FullMesh() of a root differs from the faces of its subtree: %v", err)
		}
	}
	// FullMesh is a query: afterwards every node still holds exactly its own component
	for i := range cs {
		for h, ci := range nodeComp {
			if ci != i {
				continue
			}
			if err := sameFaces(m3.Tris(h.Mesh), cs[ci].Faces); err != nil {
				return fmt.Errorf("after FullMesh() a hierarchy node no longer holds exactly its own component: %v", err)
			}
			if fm := m3.Tris(h.FullMesh()); len(h.Children) == 0 {
				if err := sameFaces(fm, cs[ci].Faces); err != nil {
					return fmt.Errorf("FullMesh() of a leaf differs from its component: %v", err)
				}
			}
		}
	}

	// ---- Contains = parity of the number of enclosing components of the root's subtree
	oriented := make([][]kit.Tri, len(cs))
	for i, p := range cs {
		oriented[i] = orientedCopy(p.Faces)
	}
	var pts []kit.V3
	for _, pr := range c.Probes {
		p := cs[int(pr.Sel*float64(len(cs)))]
		var q kit.V3
		for k := 0; k < 3; k++ {
			q[k] = (p.Min[k]+p.Max[k])/2 + pr.U[k]*(p.Max[k]-p.Min[k])/2
		}
		pts = append(pts, q)
	}
	for _, p := range cs {
		// just inside and just outside every component, next to its first face
		t := p.Faces[0]
		ctr := t[0].Add(t[1]).Add(t[2]).Scale(1.0 / 3)
		step := t.Normal().Unit().Scale(0.02 * p.Max.Sub(p.Min).MaxAbs())
		pts = append(pts, ctr.Add(step), ctr.Sub(step))
	}
	size := 0.0
	for _, p := range cs {
		size = math.Max(size, p.Max.Sub(p.Min).MaxAbs())
	}
	decided := 0
	var goodPts []kit.V3 // probes away from every surface
	for _, q := range pts {
		encl := make([]bool, len(cs))
		good := true
		for i := range cs {
			// away from the surfaces: at least 1e-4 of the component's size
			if dist, _ := kit.MeshDist(cs[i].Faces, q); dist < 1e-4*cs[i].Max.Sub(cs[i].Min).MaxAbs() {
				good = false
				break
			}
			w := math.Abs(kit.Winding3(oriented[i], q))
			switch {
			case math.Abs(w-1) < 0.01:
				encl[i] = true
			case w < 0.01:
			default:
				good = false
			}
		}
		if !good {
			o.Skip("probe near a surface")
			continue
		}
		decided++
		goodPts = append(goodPts, q)
		anyIn := false
		for _, h := range hs {
			n := 0
			for _, i := range sub[nodeComp[h]] {
				if encl[i] {
					n++
				}
			}
			want := n%2 == 1
			if want {
				anyIn = true
			}
			if got := h.Contains(m3.C3(q)); got != want {
				return fmt.Errorf("MeshHierarchy.Contains(%v) = %v, but the point is enclosed by %d components of this root's subtree (even-odd rule: %v); %d components, max depth %d", q, got, n, want, len(cs), depthMax)
			}
		}
		if anyIn {
			o.Label("probe:inside")
		} else {
			o.Label("probe:outside")
		}
	}

	// ---- MapCoords with a translation keeps the tree and moves the solid
	if len(hs) > 0 {
		mv := func(v kit.V3) kit.V3 { return v.Add(c.Move) }
		h := hs[0]
		g := h.MapCoords(func(p model3d.Coord3D) model3d.Coord3D { return m3.C3(mv(m3.V3(p))) })
		var cmp func(a, b *model3d.MeshHierarchy) error
		cmp = func(a, b *model3d.MeshHierarchy) error {
			var want []kit.Tri
			for _, t := range m3.Tris(a.Mesh) {
				want = append(want, kit.Tri{mv(t[0]), mv(t[1]), mv(t[2])})
			}
			if err := sameFaces(m3.Tris(b.Mesh), want); err != nil {
				return fmt.Errorf("MapCoords(translation): node mesh is not the translated mesh: %v", err)
			}
			if len(a.Children) != len(b.Children) {
				return fmt.Errorf("MapCoords(translation) changed the number of children from %d to %d", len(a.Children), len(b.Children))
			}
			for i := range a.Children {
				if err := cmp(a.Children[i], b.Children[i]); err != nil {
					return err
				}
			}
			return nil
		}
		if err := cmp(h, g); err != nil {
			return err
		}
		// ... and the moved hierarchy is the solid of its own (moved) meshes: membership and bounds move along
		for _, q := range goodPts {
			if got, want := g.Contains(m3.C3(mv(q))), h.Contains(m3.C3(q)); got != want {
				return fmt.Errorf("MapCoords(translation by %v): the moved hierarchy says %v at the moved probe %v, the original says %v at %v", c.Move, got, mv(q), want, q)
			}
		}
		tol := 1e-9 * (1 + c.Move.MaxAbs() + m3.V3(h.Max()).MaxAbs() + m3.V3(h.Min()).MaxAbs())
		if m3.V3(g.Min()).Dist(mv(m3.V3(h.Min()))) > tol || m3.V3(g.Max()).Dist(mv(m3.V3(h.Max()))) > tol {
			return fmt.Errorf("MapCoords(translation by %v): bounds %v..%v, the original's bounds %v..%v moved along are expected", c.Move, g.Min(), g.Max(), h.Min(), h.Max())
		}
	}
	_ = decided
	return nil
}

func depthOf(cs []comp3, i int) int {
	if i < 0 {
		return -1
	}
	return cs[i].Depth
}

func boxInside(amin, amax, bmin, bmax kit.V3) bool {
	for k := 0; k < 3; k++ {
		if amin[k] < bmin[k] || amax[k] > bmax[k] {
			return false
		}
	}
	return true
}

// ---------------------------------------------------------------------------
// 2D

type hier2Case struct {
	Spec   MeshSpec2 `json:"spec"`
	Flip   []int     `json:"flip,omitempty"`
	Probes []probe   `json:"probes"`
	Move   kit.V2    `json:"move"`
}

func genHier2(t *rapid.T) hier2Case {
	c := hier2Case{Spec: genMeshSpec2(t, []string{"nest", "nest", "nest", "lattice"}, 14, 5)}
	if c.Spec.Kind == "lattice" {
		l := gen.Lattice2Gen(t, 9, "biglattice")
		c.Spec.Lat = &l
	}
	if gen.Int(t, 0, 2, "reorient") == 0 {
		c.Flip = genIdx(t, 6, "flip")
	}
	c.Probes = genProbes(t, 2)
	c.Move = kit.V2{gen.F(t, -3, 3, "mx"), gen.F(t, -3, 3, "my")}
	return c
}

type comp2 struct {
	Segs   []kit.Seg
	Loop   []kit.Seg // consistently oriented copy
	Parent int
	Depth  int
	Min    kit.V2
	Max    kit.V2
}

// orientLoop walks a closed loop and returns it with a consistent direction.
func orientLoop(segs []kit.Seg) []kit.Seg {
	if len(segs) == 0 {
		return nil
	}
	used := make([]bool, len(segs))
	out := []kit.Seg{segs[0]}
	used[0] = true
	cur := c2(segs[0][1])
	for len(out) < len(segs) {
		found := false
		for i, s := range segs {
			if used[i] {
				continue
			}
			if c2(s[0]) == cur {
				out = append(out, s)
				cur = c2(s[1])
			} else if c2(s[1]) == cur {
				out = append(out, kit.Seg{s[1], s[0]})
				cur = c2(s[0])
			} else {
				continue
			}
			used[i] = true
			found = true
			break
		}
		if !found {
			return nil
		}
	}
	return out
}

func nesting2(segs []kit.Seg) ([]comp2, bool) {
	loops := loops2(segs)
	cs := make([]comp2, len(loops))
	for i, l := range loops {
		for _, j := range l {
			cs[i].Segs = append(cs[i].Segs, segs[j])
		}
		cs[i].Loop = orientLoop(cs[i].Segs)
		if cs[i].Loop == nil {
			return nil, false
		}
		cs[i].Min = kit.V2{math.Inf(1), math.Inf(1)}
		cs[i].Max = kit.V2{math.Inf(-1), math.Inf(-1)}
		for _, s := range cs[i].Segs {
			for _, v := range s {
				for k := 0; k < 2; k++ {
					cs[i].Min[k] = math.Min(cs[i].Min[k], v[k])
					cs[i].Max[k] = math.Max(cs[i].Max[k], v[k])
				}
			}
		}
	}
	n := len(cs)
	inside := make([][]bool, n)
	for b := range cs {
		inside[b] = make([]bool, n)
		v := cs[b].Segs[0][0]
		for a := range cs {
			if a == b {
				continue
			}
			w := math.Abs(kit.Winding2(cs[a].Loop, v))
			switch {
			case math.Abs(w-1) < 0.01:
				inside[b][a] = true
				cs[b].Depth++
			case w < 0.01:
			default:
				return nil, false
			}
		}
	}
	for b := range cs {
		best := -1
		for a := range cs {
			if inside[b][a] && (best < 0 || cs[a].Depth > cs[best].Depth) {
				best = a
			}
		}
		cs[b].Parent = best
		if best >= 0 && cs[best].Depth != cs[b].Depth-1 {
			return nil, false
		}
	}
	return cs, true
}

func distSegs(segs []kit.Seg, p kit.V2) float64 {
	d, _ := kit.MeshDist2(segs, p)
	return d
}

func checkHier2(c hier2Case, o *kit.Obs) error {
	base := c.Spec.Build()
	o.Label("mesh:" + c.Spec.Kind)
	if len(base) == 0 {
		if h := model2d.MeshToHierarchy(model2d.NewMesh()); len(h) != 0 {
			return fmt.Errorf("2D MeshToHierarchy of the empty mesh has %d roots", len(h))
		}
		return nil
	}
	// 2D MeshToHierarchy walks each loop along its direction (one incoming and one outgoing
	// segment per vertex), so only whole loops are re-oriented here
	segs := append([]kit.Seg(nil), base...)
	if ls := loops2(segs); len(ls) > 0 {
		for _, f := range c.Flip {
			for _, j := range ls[f%len(ls)] {
				segs[j] = kit.Seg{segs[j][1], segs[j][0]}
			}
		}
	}
	if d := analyse2(segs); !d.Manifold || len(d.Inconsistent) > 0 {
		return fmt.Errorf("%w: input outline is not manifold", kit.ErrInfra)
	}
	cs, ok := nesting2(segs)
	if !ok {
		return fmt.Errorf("%w: brute-force nesting of the 2D input is not decidable", kit.ErrInfra)
	}
	if c.Spec.Kind == "nest" {
		sh := c.Spec.Nest.Build()
		if err := checkNestTruth2(sh); err != nil {
			return err
		}
		if len(sh) != len(cs) {
			return fmt.Errorf("%w: %d constructed outlines but %d loops", kit.ErrInfra, len(sh), len(cs))
		}
		byVertex := map[kit.V2]int{}
		for i, p := range cs {
			for _, s := range p.Segs {
				byVertex[c2(s[0])] = i
				byVertex[c2(s[1])] = i
			}
		}
		for _, s := range sh {
			i := byVertex[c2(s.Segs[0][0])]
			wantParent := -1
			if s.Parent >= 0 {
				wantParent = byVertex[c2(sh[s.Parent].Segs[0][0])]
			}
			if cs[i].Parent != wantParent || cs[i].Depth != s.Depth {
				return fmt.Errorf("%w: brute-force 2D nesting disagrees with the construction", kit.ErrInfra)
			}
		}
	}
	depthMax, roots := 0, 0
	for _, p := range cs {
		if p.Depth+1 > depthMax {
			depthMax = p.Depth + 1
		}
		if p.Parent < 0 {
			roots++
		}
	}
	o.Labelf("depth:%d", depthMax)
	o.Labelf("components:%s", bucket(len(cs)))
	if depthMax >= 2 || len(cs) >= 3 {
		o.NonTrivial()
	}
	for i, p := range cs {
		for j, q := range cs {
			if i != j && p.Parent == q.Parent && p.Min[0] >= q.Min[0] && p.Min[1] >= q.Min[1] && p.Max[0] <= q.Max[0] && p.Max[1] <= q.Max[1] {
				o.Label("sibling-inside-bbox")
			}
		}
	}

	hs := model2d.MeshToHierarchy(m3.MeshFromSegs(segs))

	compOfSeg := map[kit.Seg]int{}
	for i, p := range cs {
		for _, s := range p.Segs {
			compOfSeg[canonSeg(s)] = i
		}
	}
	seenComp := map[int]bool{}
	var all []kit.Seg
	nodeComp := map[*model2d.MeshHierarchy]int{}
	var walk func(h *model2d.MeshHierarchy, parent int) error
	walk = func(h *model2d.MeshHierarchy, parent int) error {
		fs := m3.Segs(h.Mesh)
		if len(fs) == 0 {
			return fmt.Errorf("2D hierarchy node with an empty mesh")
		}
		all = append(all, fs...)
		ci, ok := compOfSeg[canonSeg(fs[0])]
		if !ok {
			return fmt.Errorf("2D hierarchy node contains segment %v, which is not in the input", fs[0])
		}
		if err := sameSegs(fs, cs[ci].Segs); err != nil {
			return fmt.Errorf("2D hierarchy node is not exactly one closed loop of the input: %v", err)
		}
		if seenComp[ci] {
			return fmt.Errorf("a loop appears in two 2D hierarchy nodes")
		}
		seenComp[ci] = true
		nodeComp[h] = ci
		if cs[ci].Parent != parent {
			pd, gd := -1, -1
			if cs[ci].Parent >= 0 {
				pd = cs[cs[ci].Parent].Depth
			}
			if parent >= 0 {
				gd = cs[parent].Depth
			}
			return fmt.Errorf("2D loop at nesting depth %d was placed under the wrong parent: its innermost enclosing loop is #%d (depth %d), the hierarchy puts it under #%d (depth %d); %d loops, max depth %d",
				cs[ci].Depth, cs[ci].Parent, pd, parent, gd, len(cs), depthMax)
		}
		if mn, mx := m3.V2(h.Min()), m3.V2(h.Max()); c2(mn) != c2(cs[ci].Min) || c2(mx) != c2(cs[ci].Max) {
			return fmt.Errorf("2D hierarchy node bounds %v..%v differ from its mesh's bounding box %v..%v", mn, mx, cs[ci].Min, cs[ci].Max)
		}
		for _, k := range h.Children {
			if err := walk(k, ci); err != nil {
				return err
			}
		}
		return nil
	}
	for _, h := range hs {
		if err := walk(h, -1); err != nil {
			return err
		}
	}
	if len(hs) != roots {
		return fmt.Errorf("2D MeshToHierarchy returned %d roots, %d loops are enclosed by no other", len(hs), roots)
	}
	if err := sameSegs(all, segs); err != nil {
		return fmt.Errorf("segments over all 2D hierarchy nodes differ from the input: %v", err)
	}
	sub := make([][]int, len(cs))
	for i := range cs {
		for a := i; a >= 0; a = cs[a].Parent {
			sub[a] = append(sub[a], i)
		}
	}
	for _, h := range hs {
		var want []kit.Seg
		for _, i := range sub[nodeComp[h]] {
			want = append(want, cs[i].Segs...)
		}
		if err := sameSegs(m3.Segs(h.FullMesh()), want); err != nil {
			return fmt.Errorf("2D FullMesh() of a root differs from the segments of its subtree: %v", err)
		}
	}
	// FullMesh is a query: afterwards every node still holds exactly its own loop
	for i := range cs {
		for h, ci := range nodeComp {
			if ci != i {
				continue
			}
			if err := sameSegs(m3.Segs(h.Mesh), cs[ci].Segs); err != nil {
				return fmt.Errorf("after 2D FullMesh() a hierarchy node no longer holds exactly its own loop: %v", err)
			}
			if fm := m3.Segs(h.FullMesh()); len(h.Children) == 0 {
				if err := sameSegs(fm, cs[ci].Segs); err != nil {
					return fmt.Errorf("2D FullMesh() of a leaf differs from its loop: %v", err)
				}
			}
		}
	}
	var pts []kit.V2
	for _, pr := range c.Probes {
		p := cs[int(pr.Sel*float64(len(cs)))]
		pts = append(pts, kit.V2{(p.Min[0]+p.Max[0])/2 + pr.U[0]*(p.Max[0]-p.Min[0])/2, (p.Min[1]+p.Max[1])/2 + pr.U[1]*(p.Max[1]-p.Min[1])/2})
	}
	for _, p := range cs {
		g := p.Segs[0]
		d := g[1].Sub(g[0])
		ext := math.Max(p.Max[0]-p.Min[0], p.Max[1]-p.Min[1])
		step := kit.V2{-d[1], d[0]}.Unit().Scale(0.02 * ext)
		pts = append(pts, g[0].Mid(g[1]).Add(step), g[0].Mid(g[1]).Sub(step))
	}
	var goodPts2 []kit.V2
	for _, q := range pts {
		encl := make([]bool, len(cs))
		good := true
		for i := range cs {
			ext := math.Max(cs[i].Max[0]-cs[i].Min[0], cs[i].Max[1]-cs[i].Min[1])
			if distSegs(cs[i].Segs, q) < 1e-4*ext {
				good = false
				break
			}
			w := math.Abs(kit.Winding2(cs[i].Loop, q))
			switch {
			case math.Abs(w-1) < 0.01:
				encl[i] = true
			case w < 0.01:
			default:
				good = false
			}
		}
		if !good {
			o.Skip("probe near an outline")
			continue
		}
		goodPts2 = append(goodPts2, q)
		anyIn := false
		for _, h := range hs {
			n := 0
			for _, i := range sub[nodeComp[h]] {
				if encl[i] {
					n++
				}
			}
			want := n%2 == 1
			anyIn = anyIn || want
			if got := h.Contains(m3.C2(q)); got != want {
				return fmt.Errorf("2D MeshHierarchy.Contains(%v) = %v, but the point is enclosed by %d loops of this root's subtree (even-odd rule: %v); %d loops, max depth %d", q, got, n, want, len(cs), depthMax)
			}
		}
		if anyIn {
			o.Label("probe:inside")
		} else {
			o.Label("probe:outside")
		}
	}
	if len(hs) > 0 {
		mv := func(v kit.V2) kit.V2 { return v.Add(c.Move) }
		var cmp func(a, b *model2d.MeshHierarchy) error
		cmp = func(a, b *model2d.MeshHierarchy) error {
			var want []kit.Seg
			for _, s := range m3.Segs(a.Mesh) {
				want = append(want, kit.Seg{mv(s[0]), mv(s[1])})
			}
			if err := sameSegs(m3.Segs(b.Mesh), want); err != nil {
				return fmt.Errorf("2D MapCoords(translation): node mesh is not the translated mesh: %v", err)
			}
			if len(a.Children) != len(b.Children) {
				return fmt.Errorf("2D MapCoords(translation) changed the number of children")
			}
			for i := range a.Children {
				if err := cmp(a.Children[i], b.Children[i]); err != nil {
					return err
				}
			}
			return nil
		}
		g := hs[0].MapCoords(func(p model2d.Coord) model2d.Coord { return m3.C2(mv(m3.V2(p))) })
		if err := cmp(hs[0], g); err != nil {
			return err
		}
		for _, q := range goodPts2 {
			if got, want := g.Contains(m3.C2(mv(q))), hs[0].Contains(m3.C2(q)); got != want {
				return fmt.Errorf("2D MapCoords(translation by %v): the moved hierarchy says %v at the moved probe %v, the original says %v at %v", c.Move, got, mv(q), want, q)
			}
		}
		tol := 1e-9 * (1 + c.Move.Norm() + m3.V2(hs[0].Max()).Norm() + m3.V2(hs[0].Min()).Norm())
		if m3.V2(g.Min()).Dist(mv(m3.V2(hs[0].Min()))) > tol || m3.V2(g.Max()).Dist(mv(m3.V2(hs[0].Max()))) > tol {
			return fmt.Errorf("2D MapCoords(translation by %v): bounds %v..%v, the original's bounds %v..%v moved along are expected", c.Move, g.Min(), g.Max(), hs[0].Min(), hs[0].Max())
		}
	}
	return nil
}

var _ = sort.Ints
