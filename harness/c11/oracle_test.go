package c11

// Independent definitions of the diagnostics (never calling the library).
// Vertex identity is Go == on coordinates (so -0 == +0), as in the library.

import (
	"fmt"
	"sort"

	"verifharness/kit"
)

func cz(x float64) float64 {
	if x == 0 {
		return 0
	}
	return x
}
func c3(v kit.V3) kit.V3 { return kit.V3{cz(v[0]), cz(v[1]), cz(v[2])} }
func c2(v kit.V2) kit.V2 { return kit.V2{cz(v[0]), cz(v[1])} }

func less3(a, b kit.V3) bool { return kit.V3Less(a, b) }
func less2(a, b kit.V2) bool {
	if a[0] != b[0] {
		return a[0] < b[0]
	}
	return a[1] < b[1]
}

// canonTri rotates the triangle so that its smallest vertex comes first (orientation kept)
// and maps -0 to +0.
func canonTri(t kit.Tri) kit.Tri {
	t = kit.Tri{c3(t[0]), c3(t[1]), c3(t[2])}
	k := 0
	for i := 1; i < 3; i++ {
		if less3(t[i], t[k]) {
			k = i
		}
	}
	return kit.Tri{t[k], t[(k+1)%3], t[(k+2)%3]}
}

func flipTri(t kit.Tri) kit.Tri { return kit.Tri{t[1], t[0], t[2]} }

func triLess(a, b kit.Tri) bool {
	for i := 0; i < 3; i++ {
		if a[i] != b[i] {
			return less3(a[i], b[i])
		}
	}
	return false
}

// sortTris returns the canonical, sorted copy of a face list (a deterministic indexing of
// what the library hands out in map order).
func sortTris(ts []kit.Tri) []kit.Tri {
	out := make([]kit.Tri, len(ts))
	for i, t := range ts {
		out[i] = canonTri(t)
	}
	sort.Slice(out, func(i, j int) bool { return triLess(out[i], out[j]) })
	return out
}

func canonSeg(s kit.Seg) kit.Seg { return kit.Seg{c2(s[0]), c2(s[1])} }

func segLess(a, b kit.Seg) bool {
	for i := 0; i < 2; i++ {
		if a[i] != b[i] {
			return less2(a[i], b[i])
		}
	}
	return false
}

func sortSegs(ss []kit.Seg) []kit.Seg {
	out := make([]kit.Seg, len(ss))
	for i, s := range ss {
		out[i] = canonSeg(s)
	}
	sort.Slice(out, func(i, j int) bool { return segLess(out[i], out[j]) })
	return out
}

// sameFaces compares two face lists as multisets of oriented faces (rotation-normalised).
func sameFaces(got, want []kit.Tri) error {
	if len(got) != len(want) {
		return fmt.Errorf("%d faces, want %d", len(got), len(want))
	}
	g, w := sortTris(got), sortTris(want)
	for i := range g {
		if g[i] != w[i] {
			return fmt.Errorf("face multisets differ: have %v where %v is expected (sorted position %d of %d)", g[i], w[i], i, len(g))
		}
	}
	return nil
}

func sameSegs(got, want []kit.Seg) error {
	if len(got) != len(want) {
		return fmt.Errorf("%d segments, want %d", len(got), len(want))
	}
	g, w := sortSegs(got), sortSegs(want)
	for i := range g {
		if g[i] != w[i] {
			return fmt.Errorf("segment multisets differ: have %v where %v is expected (sorted position %d of %d)", g[i], w[i], i, len(g))
		}
	}
	return nil
}

type uedge struct{ a, b kit.V3 }
type dedge struct{ a, b kit.V3 }

func mkUEdge(a, b kit.V3) uedge {
	a, b = c3(a), c3(b)
	if less3(b, a) {
		a, b = b, a
	}
	return uedge{a, b}
}

// diag3 holds the diagnostics of a triangle soup computed straight from the definitions.
type diag3 struct {
	NeedsRepair    bool
	MaxEdgeUse     int
	Boundary       int             // edges used once
	Singular       map[kit.V3]bool // vertices whose incident triangles do not form one edge-connected family
	SingularNoTwin map[kit.V3]bool // the same when two faces on the same three vertices do not count as edge neighbours
	Inconsistent   map[dedge]bool  // directed edges traversed by two or more triangles
	Orientable     bool            // meaningful only when MaxEdgeUse <= 2
	Comp           []int           // edge-connected component id per face (faces sharing >= 2 vertices)
	Side           []bool          // relative orientation class of each face inside its component (when Orientable)
	NComp          int
	V, E, F        int
	Degenerate     bool // some face repeats a vertex
	TwinFaces      bool // two faces with the same vertex set
}

type dsu struct {
	p   []int
	par []bool // parity relative to parent
}

func newDSU(n int) *dsu {
	d := &dsu{p: make([]int, n), par: make([]bool, n)}
	for i := range d.p {
		d.p[i] = i
	}
	return d
}

func (d *dsu) find(i int) (int, bool) {
	if d.p[i] == i {
		return i, false
	}
	r, pr := d.find(d.p[i])
	d.p[i] = r
	d.par[i] = d.par[i] != pr
	return r, d.par[i]
}

// union merges with the constraint parity(i) xor parity(j) == diff; false on contradiction.
func (d *dsu) union(i, j int, diff bool) bool {
	ri, pi := d.find(i)
	rj, pj := d.find(j)
	if ri == rj {
		return (pi != pj) == diff
	}
	d.p[ri] = rj
	d.par[ri] = (pi != pj) != diff
	return true
}

func analyse3(tris []kit.Tri) *diag3 {
	d := &diag3{Singular: map[kit.V3]bool{}, SingularNoTwin: map[kit.V3]bool{}, Inconsistent: map[dedge]bool{}, F: len(tris)}
	use := map[uedge][]int{}
	duse := map[dedge]int{}
	vt := map[kit.V3][]int{}
	var vorder []kit.V3
	vsets := map[[3]kit.V3]int{}
	ts := make([]kit.Tri, len(tris))
	for i, t := range tris {
		t = kit.Tri{c3(t[0]), c3(t[1]), c3(t[2])}
		ts[i] = t
		if t[0] == t[1] || t[1] == t[2] || t[0] == t[2] {
			d.Degenerate = true
		}
		s := [3]kit.V3{t[0], t[1], t[2]}
		sort.Slice(s[:], func(a, b int) bool { return less3(s[a], s[b]) })
		vsets[s]++
		if vsets[s] > 1 {
			d.TwinFaces = true
		}
		for k := 0; k < 3; k++ {
			a, b := t[k], t[(k+1)%3]
			e := mkUEdge(a, b)
			use[e] = append(use[e], i)
			duse[dedge{a, b}]++
			if _, ok := vt[a]; !ok {
				vorder = append(vorder, a)
			}
			vt[a] = append(vt[a], i)
		}
	}
	d.V, d.E = len(vt), len(use)
	for _, fs := range use {
		if len(fs) != 2 {
			d.NeedsRepair = true
		}
		if len(fs) > d.MaxEdgeUse {
			d.MaxEdgeUse = len(fs)
		}
		if len(fs) == 1 {
			d.Boundary++
		}
	}
	for e, n := range duse {
		if n > 1 {
			d.Inconsistent[e] = true
		}
	}
	// singular vertices: flood the incident faces of v through shared edges at v
	for _, v := range vorder {
		fs := vt[v]
		// a face listed twice would need a degenerate face; use distinct ids
		ids := fs[:0:0]
		seen := map[int]bool{}
		for _, f := range fs {
			if !seen[f] {
				seen[f] = true
				ids = append(ids, f)
			}
		}
		for pass := 0; pass < 2; pass++ {
			reached := map[int]bool{ids[0]: true}
			stack := []int{ids[0]}
			for len(stack) > 0 {
				f := stack[len(stack)-1]
				stack = stack[:len(stack)-1]
				for _, g := range ids {
					if reached[g] {
						continue
					}
					if sharesEdgeAt(ts[f], ts[g], v) && (pass == 0 || !sameVertexSet(ts[f], ts[g])) {
						reached[g] = true
						stack = append(stack, g)
					}
				}
			}
			if len(reached) != len(ids) {
				if pass == 0 {
					d.Singular[v] = true
				} else {
					d.SingularNoTwin[v] = true
				}
			}
		}
	}
	// components and orientability by a parity union-find over the faces
	u := newDSU(len(ts))
	d.Orientable = true
	// deterministic order over edges
	es := make([]uedge, 0, len(use))
	for e := range use {
		es = append(es, e)
	}
	sort.Slice(es, func(i, j int) bool {
		if es[i].a != es[j].a {
			return less3(es[i].a, es[j].a)
		}
		return less3(es[i].b, es[j].b)
	})
	for _, e := range es {
		fs := use[e]
		for k := 1; k < len(fs); k++ {
			// same direction of traversal <=> the two faces need different flips
			same := traverses(ts[fs[0]], e.a, e.b) == traverses(ts[fs[k]], e.a, e.b)
			if !u.union(fs[0], fs[k], same) {
				d.Orientable = false
			}
		}
	}
	d.Comp = make([]int, len(ts))
	d.Side = make([]bool, len(ts))
	ids := map[int]int{}
	for i := range ts {
		r, p := u.find(i)
		if _, ok := ids[r]; !ok {
			ids[r] = len(ids)
		}
		d.Comp[i] = ids[r]
		d.Side[i] = p
	}
	d.NComp = len(ids)
	return d
}

// traverses reports whether the triangle runs through a then b in its cyclic order.
func traverses(t kit.Tri, a, b kit.V3) bool {
	for k := 0; k < 3; k++ {
		if t[k] == a && t[(k+1)%3] == b {
			return true
		}
	}
	return false
}

func sameVertexSet(s, t kit.Tri) bool {
	n := 0
	for _, a := range s {
		for _, b := range t {
			if a == b {
				n++
				break
			}
		}
	}
	return n == 3
}

// sharesEdgeAt: the two faces (both containing v) have a further vertex in common.
func sharesEdgeAt(s, t kit.Tri, v kit.V3) bool {
	for _, a := range s {
		if a == v {
			continue
		}
		for _, b := range t {
			if a == b {
				return true
			}
		}
	}
	return false
}

// ---------------------------------------------------------------------------
// 2D

type diag2 struct {
	Manifold     bool
	Inconsistent map[kit.V2]bool
	Degenerate   bool
	V            int
}

func analyse2(segs []kit.Seg) *diag2 {
	d := &diag2{Manifold: true, Inconsistent: map[kit.V2]bool{}}
	first, second := map[kit.V2]int{}, map[kit.V2]int{}
	verts := map[kit.V2]bool{}
	for _, s := range segs {
		s = canonSeg(s)
		if s[0] == s[1] {
			d.Degenerate = true
		}
		first[s[0]]++
		second[s[1]]++
		verts[s[0]] = true
		verts[s[1]] = true
	}
	d.V = len(verts)
	for v := range verts {
		if first[v]+second[v] != 2 {
			d.Manifold = false
		}
		if first[v] > 1 || second[v] > 1 {
			d.Inconsistent[v] = true
		}
	}
	return d
}

// loops2 splits a manifold segment soup into its closed loops (list of segment indices each).
func loops2(segs []kit.Seg) [][]int {
	at := map[kit.V2][]int{}
	for i, s := range segs {
		at[c2(s[0])] = append(at[c2(s[0])], i)
		at[c2(s[1])] = append(at[c2(s[1])], i)
	}
	seen := make([]bool, len(segs))
	var out [][]int
	for i := range segs {
		if seen[i] {
			continue
		}
		var loop []int
		stack := []int{i}
		seen[i] = true
		for len(stack) > 0 {
			j := stack[len(stack)-1]
			stack = stack[:len(stack)-1]
			loop = append(loop, j)
			for _, v := range segs[j] {
				for _, k := range at[c2(v)] {
					if !seen[k] {
						seen[k] = true
						stack = append(stack, k)
					}
				}
			}
		}
		sort.Ints(loop)
		out = append(out, loop)
	}
	return out
}
