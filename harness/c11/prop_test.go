package c11

import (
	"runtime"
	"testing"

	"verifharness/kit"
)

const rule = "inputs: (a) abstract triangle / segment soups over a 3..18-vertex pool (random triples, triangulated bands closed with and without a half twist, a tetrahedron plus random faces, signed-zero twins), (b) closed manifold meshes - nested arrangements of boxes, octahedra, icospheres and tori (up to 12 shells, nesting depth up to 5, concentric or in grid cells, siblings inside a sibling's bounding box via torus holes / U notches, global rotation or axis-aligned, scale, shift), marching cubes / squares of random lattice solids and CSG trees - with deliberate damage: faces removed, duplicated, re-oriented (single faces, per-component fractions, all but a few), vertices merged (pinches, non-manifold edges), per-face vertex copies jittered by <= 0.45 eps with vertex separation >= 3.5 eps (maximum norm); pairs of convex shells that are disjoint, nested or crossing. Non-trivial: diagnostics / majority clauses - at least one diagnostic is not clean; jitter - at least one vertex has two distinct copies; normal repair - at least one face re-oriented; hierarchy - nesting depth >= 2 or >= 3 components; self-intersection pairs - the pair is classified (not skipped). Distinct: hash of the JSON case."

func TestProp(t *testing.T) {
	runtime.GOMAXPROCS(2)
	kit.Run(t, "C11", rule,
		kit.Clause[soupCase]{Name: "C11/diag3/soup", Quick: 40000, Thorough: 1500000, Gen: genSoup, Check: checkSoup},
		kit.Clause[dmgCase]{Name: "C11/diag3/damaged", Quick: 10000, Thorough: 400000, Gen: genDmg, Check: checkDmg},
		kit.Clause[majCase]{Name: "C11/majority3/components", Quick: 6000, Thorough: 200000, Gen: genMaj, Check: checkMaj},
		kit.Clause[diag2Case]{Name: "C11/diag2/manifold", Quick: 30000, Thorough: 1200000, Gen: genDiag2, Check: checkDiag2},
		kit.Clause[jitterCase]{Name: "C11/repair3/jitter", Quick: 6000, Thorough: 200000, Gen: genJitter, Check: checkJitter},
		kit.Clause[jitter2Case]{Name: "C11/repair2/jitter", Quick: 10000, Thorough: 500000, Gen: genJitter2, Check: checkJitter2},
		kit.Clause[normalsCase]{Name: "C11/normals3/evenodd", Quick: 6000, Thorough: 250000, Gen: genNormals, Check: checkNormals},
		kit.Clause[normals2Case]{Name: "C11/normals2/evenodd", Quick: 10000, Thorough: 500000, Gen: genNormals2, Check: checkNormals2},
		kit.Clause[hierCase]{Name: "C11/hier3/nesting", Quick: 8000, Thorough: 200000, Gen: genHier, Check: checkHier},
		kit.Clause[pairCase]{Name: "C11/selfint3/pairs", Quick: 3000, Thorough: 100000, Gen: genPair, Check: checkPair},
		kit.Clause[hier2Case]{Name: "C11/hier2/nesting", Quick: 12000, Thorough: 500000, Gen: genHier2, Check: checkHier2},
	)
}
