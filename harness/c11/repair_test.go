package c11

// Repair(eps) on the jitter class and RepairNormals(eps) on re-oriented closed meshes (3D, 2D).

import (
	"fmt"
	"math"
	"sort"

	"pgregory.net/rapid"
	"verifharness/gen"
	"verifharness/kit"
	"verifharness/m3"
)

// ---------------------------------------------------------------------------
// Repair(eps): every face gets its own copy of each vertex, displaced by at most
// 0.45*eps per coordinate, while distinct vertices are more than 3.5*eps apart in the
// maximum norm.  Then (see mesh_ops.go: Repair hashes round(c/eps) + {0,1}^3) all copies of
// one vertex share a hash and copies of different vertices never do, so the documented
// behaviour "combines vertices that are close together into one" determines the result up
// to the choice of representative: a mesh isomorphic to the original.

type jitterCase struct {
	Spec    MeshSpec `json:"spec"`
	Remove  []int    `json:"remove,omitempty"`
	EpsFrac float64  `json:"eps_frac"` // eps = EpsFrac * separation / 3.5
	JitFrac float64  `json:"jit_frac"` // displacement bound = JitFrac * eps, JitFrac <= 0.45
	Seed    uint64   `json:"seed"`
	// Chain: instead of a random jitter, the copies of a vertex are placed at v, v-0.9*eps*d and v+0.9*eps*d
	// (d a sign vector): neighbours in the chain are closer than eps, so each pair must be combined and the
	// whole chain becomes one vertex although its ends are 1.8 eps apart; eps = separation/4.5 keeps copies
	// of different vertices more than 2.7 eps apart, whose grid cells can never touch.
	Chain bool `json:"chain,omitempty"`
	// Far: the whole soup is moved this far from the origin (a model in a big scene, or in small units): eps stays
	// thousands of ulps of the coordinates, but coordinate / eps exceeds 2^31
	Far float64 `json:"far,omitempty"`
}

func genJitter(t *rapid.T) jitterCase {
	c := jitterCase{Spec: genMeshSpec(t, []string{"nest", "nest", "lattice"}, 4, 3, false)}
	if gen.Int(t, 0, 3, "open") == 0 {
		c.Remove = genIdx(t, 3, "remove")
	}
	c.EpsFrac = 1 // the largest eps the separation allows
	if gen.Int(t, 0, 2, "epsmode") != 0 {
		c.EpsFrac = gen.LogF(t, 0.01, 1, "epsfrac")
	}
	c.JitFrac = rapid.SampledFrom([]float64{0.45, 0.45, 0.3, 0.1, 0}).Draw(t, "jitfrac")
	c.Seed = rapid.Uint64().Draw(t, "seed")
	c.Chain = gen.Int(t, 0, 3, "chain") == 0
	if gen.Int(t, 0, 3, "far") == 0 {
		c.Far = rapid.SampledFrom([]float64{1e3, 1e5, 1e6, 1e7}).Draw(t, "fardist")
	}
	return c
}

func sepInf3(vs []kit.V3) float64 {
	best := math.Inf(1)
	for i := range vs {
		for j := i + 1; j < len(vs); j++ {
			d := vs[i].Sub(vs[j]).MaxAbs()
			if d < best {
				best = d
			}
		}
	}
	return best
}

func checkJitter(c jitterCase, o *kit.Obs) error {
	base := Damage{Remove: c.Remove}.Apply(c.Spec.Build())
	o.Label("mesh:" + c.Spec.Kind)
	if len(base) == 0 {
		return nil
	}
	if c.Far != 0 {
		off := kit.V3{c.Far, -0.7 * c.Far, 0.3 * c.Far}
		moved := make([]kit.Tri, len(base))
		for i, t := range base {
			moved[i] = kit.Tri{t[0].Add(off), t[1].Add(off), t[2].Add(off)}
		}
		base = moved
		o.Labelf("far:%g", c.Far)
	}
	vs := sortedVerts(base)
	if len(vs) > 1500 {
		o.Skip("mesh too large")
		return nil
	}
	sep := sepInf3(vs)
	eps := c.EpsFrac * sep / 3.5
	scale := 0.0
	for _, v := range vs {
		scale = math.Max(scale, v.MaxAbs())
	}
	if !(eps > 1e-11*scale) {
		// the grid hash divides by eps: keep eps far above the rounding of the coordinates
		o.Skip("eps too close to coordinate rounding")
		return nil
	}
	r := &rng{s: c.Seed}
	bound := c.JitFrac * eps
	if c.Chain {
		eps = c.EpsFrac * sep / 4.5
		bound = 0.9 * eps
		c.JitFrac = 0.9
		o.Label("chain")
	}
	jit := make([]kit.Tri, len(base))
	copies := map[kit.V3]bool{}
	seenCopies := map[kit.V3]int{}
	dirs := map[kit.V3]kit.V3{}
	for i, t := range base {
		for k := 0; k < 3; k++ {
			if c.Chain {
				d, ok := dirs[t[k]]
				if !ok {
					for d == (kit.V3{}) {
						d = kit.V3{float64(int(3*(r.unit()+1)/2) - 1), float64(int(3*(r.unit()+1)/2) - 1), float64(int(3*(r.unit()+1)/2) - 1)}
						for a := range d {
							d[a] = math.Max(-1, math.Min(1, d[a]))
						}
					}
					dirs[t[k]] = d
				}
				f := []float64{0, -1, 1}[seenCopies[t[k]]%3] * bound
				seenCopies[t[k]]++
				jit[i][k] = kit.V3{t[k][0] + f*d[0], t[k][1] + f*d[1], t[k][2] + f*d[2]}
			} else {
				jit[i][k] = kit.V3{t[k][0] + bound*r.unit(), t[k][1] + bound*r.unit(), t[k][2] + bound*r.unit()}
			}
			copies[c3(jit[i][k])] = true
		}
	}
	if len(copies) > len(vs) {
		o.NonTrivial()
	}
	o.Labelf("jit:%g", c.JitFrac)
	dj := analyse3(jit)
	if c.JitFrac > 0 && !c.Chain && !dj.NeedsRepair {
		return fmt.Errorf("%w: jittered soup unexpectedly does not need repair", kit.ErrInfra)
	}
	jitMesh := m3.MeshFromTris(jit)
	res := m3.Tris(jitMesh.Repair(eps))
	if err := untouched3(jitMesh, jit, "Repair"); err != nil {
		return err
	}
	if len(res) != len(base) {
		return fmt.Errorf("Repair(%g) returned %d faces for %d", eps, len(res), len(base))
	}
	// map every result vertex back to the unique original vertex within the displacement bound
	back := map[kit.V3]kit.V3{}
	tol := bound + 1e-12*scale
	for _, t := range res {
		for _, v := range t {
			v = c3(v)
			if _, ok := back[v]; ok {
				continue
			}
			if !copies[v] {
				return fmt.Errorf("Repair(%g) produced vertex %v, which is not one of the input coordinates", eps, v)
			}
			n := 0
			for _, w := range vs {
				if v.Sub(w).MaxAbs() <= tol {
					back[v] = w
					n++
				}
			}
			if n != 1 {
				return fmt.Errorf("%w: result vertex %v is within the displacement bound of %d original vertices", kit.ErrInfra, v, n)
			}
		}
	}
	if len(back) != len(vs) {
		return fmt.Errorf("Repair(%g) left %d distinct vertices; the %d original vertices (pairwise more than 3.5 eps apart, copies within %.2f eps) should each have become one vertex", eps, len(back), len(vs), c.JitFrac)
	}
	mapped := make([]kit.Tri, len(res))
	for i, t := range res {
		mapped[i] = kit.Tri{back[c3(t[0])], back[c3(t[1])], back[c3(t[2])]}
	}
	if err := sameFaces(mapped, base); err != nil {
		return fmt.Errorf("Repair(%g) is not isomorphic to the un-jittered mesh: %v", eps, err)
	}
	// V, E, F and the diagnostics of the result equal those of the original
	db, dr := analyse3(base), analyse3(res)
	if db.V != dr.V || db.E != dr.E || db.F != dr.F {
		return fmt.Errorf("Repair(%g): V,E,F = %d,%d,%d, original %d,%d,%d", eps, dr.V, dr.E, dr.F, db.V, db.E, db.F)
	}
	rm := m3.MeshFromTris(res)
	if rm.NeedsRepair() != db.NeedsRepair || len(rm.SingularVertices()) != len(db.Singular) || len(rm.InconsistentEdges()) != len(db.Inconsistent) {
		return fmt.Errorf("Repair(%g): diagnostics of the repaired mesh (needs repair %v, %d singular, %d inconsistent) differ from the original's (%v, %d, %d)",
			eps, rm.NeedsRepair(), len(rm.SingularVertices()), len(rm.InconsistentEdges()), db.NeedsRepair, len(db.Singular), len(db.Inconsistent))
	}
	return nil
}

// ---- 2D

type jitter2Case struct {
	Spec    MeshSpec2 `json:"spec"`
	Remove  []int     `json:"remove,omitempty"`
	EpsFrac float64   `json:"eps_frac"`
	JitFrac float64   `json:"jit_frac"`
	Seed    uint64    `json:"seed"`
	Chain   bool      `json:"chain,omitempty"` // as in the 3D case
}

func genJitter2(t *rapid.T) jitter2Case {
	c := jitter2Case{Spec: genMeshSpec2(t, []string{"nest", "lattice"}, 6, 4)}
	if gen.Int(t, 0, 3, "open") == 0 {
		c.Remove = genIdx(t, 3, "remove")
	}
	c.EpsFrac = 1 // the largest eps the separation allows
	if gen.Int(t, 0, 2, "epsmode") != 0 {
		c.EpsFrac = gen.LogF(t, 0.01, 1, "epsfrac")
	}
	c.JitFrac = rapid.SampledFrom([]float64{0.45, 0.45, 0.3, 0.1, 0}).Draw(t, "jitfrac")
	c.Seed = rapid.Uint64().Draw(t, "seed")
	c.Chain = gen.Int(t, 0, 3, "chain") == 0
	return c
}

func checkJitter2(c jitter2Case, o *kit.Obs) error {
	base := Damage{Remove: c.Remove}.Apply2(c.Spec.Build())
	o.Label("mesh:" + c.Spec.Kind)
	if len(base) == 0 {
		return nil
	}
	vs := sortedVerts2(base)
	sep, scale := math.Inf(1), 0.0
	for i := range vs {
		scale = math.Max(scale, math.Max(math.Abs(vs[i][0]), math.Abs(vs[i][1])))
		for j := i + 1; j < len(vs); j++ {
			d := math.Max(math.Abs(vs[i][0]-vs[j][0]), math.Abs(vs[i][1]-vs[j][1]))
			sep = math.Min(sep, d)
		}
	}
	eps := c.EpsFrac * sep / 3.5
	if !(eps > 1e-9*scale) {
		o.Skip("eps too close to coordinate rounding")
		return nil
	}
	r := &rng{s: c.Seed}
	bound := c.JitFrac * eps
	if c.Chain {
		eps = c.EpsFrac * sep / 4.5
		bound = 0.9 * eps
		c.JitFrac = 0.9
		o.Label("chain")
	}
	jit := make([]kit.Seg, len(base))
	copies := map[kit.V2]bool{}
	seenCopies := map[kit.V2]int{}
	dirs := map[kit.V2]kit.V2{}
	for i, s := range base {
		for k := 0; k < 2; k++ {
			if c.Chain {
				d, ok := dirs[s[k]]
				if !ok {
					for d == (kit.V2{}) {
						d = kit.V2{float64(int(3*(r.unit()+1)/2) - 1), float64(int(3*(r.unit()+1)/2) - 1)}
						for a := range d {
							d[a] = math.Max(-1, math.Min(1, d[a]))
						}
					}
					dirs[s[k]] = d
				}
				// a 2D manifold vertex has two copies: put them at the two ENDS of the chain and add the
				// middle only where a third copy exists; two ends 1.8 eps apart need not be combined, so
				// with only two copies use the middle and one end
				f := []float64{0, -1, 1}[seenCopies[s[k]]%3] * bound
				seenCopies[s[k]]++
				jit[i][k] = kit.V2{s[k][0] + f*d[0], s[k][1] + f*d[1]}
			} else {
				jit[i][k] = kit.V2{s[k][0] + bound*r.unit(), s[k][1] + bound*r.unit()}
			}
			copies[c2(jit[i][k])] = true
		}
	}
	if len(copies) > len(vs) {
		o.NonTrivial()
	}
	o.Labelf("jit:%g", c.JitFrac)
	jitMesh := m3.MeshFromSegs(jit)
	res := m3.Segs(jitMesh.Repair(eps))
	if err := untouched2(jitMesh, jit, "2D Repair"); err != nil {
		return err
	}
	if len(res) != len(base) {
		return fmt.Errorf("2D Repair(%g) returned %d segments for %d", eps, len(res), len(base))
	}
	back := map[kit.V2]kit.V2{}
	tol := bound + 1e-12*scale
	for _, s := range res {
		for _, v := range s {
			v = c2(v)
			if _, ok := back[v]; ok {
				continue
			}
			if !copies[v] {
				return fmt.Errorf("2D Repair(%g) produced vertex %v, which is not one of the input coordinates", eps, v)
			}
			n := 0
			for _, w := range vs {
				if math.Max(math.Abs(v[0]-w[0]), math.Abs(v[1]-w[1])) <= tol {
					back[v] = w
					n++
				}
			}
			if n != 1 {
				return fmt.Errorf("%w: result vertex %v is within the displacement bound of %d original vertices", kit.ErrInfra, v, n)
			}
		}
	}
	if len(back) != len(vs) {
		return fmt.Errorf("2D Repair(%g) left %d distinct vertices; the %d original vertices (pairwise more than 3.5 eps apart, copies within %.2f eps) should each have become one vertex", eps, len(back), len(vs), c.JitFrac)
	}
	mapped := make([]kit.Seg, len(res))
	for i, s := range res {
		mapped[i] = kit.Seg{back[c2(s[0])], back[c2(s[1])]}
	}
	if err := sameSegs(mapped, base); err != nil {
		return fmt.Errorf("2D Repair(%g) is not isomorphic to the un-jittered mesh: %v", eps, err)
	}
	db := analyse2(base)
	rm := m3.MeshFromSegs(res)
	if rm.Manifold() != db.Manifold || len(rm.InconsistentVertices()) != len(db.Inconsistent) {
		return fmt.Errorf("2D Repair(%g): diagnostics of the repaired mesh (manifold %v, %d inconsistent) differ from the original's (%v, %d)",
			eps, rm.Manifold(), len(rm.InconsistentVertices()), db.Manifold, len(db.Inconsistent))
	}
	return nil
}

// ---------------------------------------------------------------------------
// RepairNormals(eps): closed non-self-intersecting mesh whose normals point out of its
// even-odd solid, with a random subset of faces re-oriented.  The result must be the
// original mesh, the count the number of re-oriented faces, and the winding number of the
// result +1 inside the even-odd solid and 0 outside.

type normalsCase struct {
	Spec   MeshSpec `json:"spec"`
	Flip   []int    `json:"flip"`    // indices modulo the face count (set semantics)
	All    bool     `json:"all"`     // re-orient every face
	EpsRel float64  `json:"eps_rel"` // eps relative to the smallest clearance scale of the input
	// TJ > 0: a T-junction is worked into the mesh first.  The (TJ-1)-th axis-parallel edge a-b (counted over the
	// faces in order, modulo their number) of a face (a,b,c) gets its midpoint m as a vertex on that face's side
	// only: (a,b,c) becomes (a,m,c) and (m,b,c), and the zero-area face (a,b,m) closes the surface again.  The
	// mesh stays a closed oriented manifold with one face whose normal is undefined (its cross product is exactly
	// zero because the edge is axis-parallel).
	TJ int `json:"tj,omitempty"`
}

func genNormals(t *rapid.T) normalsCase {
	c := normalsCase{Spec: genMeshSpec(t, []string{"nest", "nest", "lattice", "csg"}, 5, 3, true)}
	switch rapid.SampledFrom([]string{"few", "many", "all", "most", "none"}).Draw(t, "flips") {
	case "few":
		c.Flip = genIdx(t, 5, "flip")
	case "most":
		c.All = true
		c.Flip = genIdx(t, 5, "keep")
	case "many":
		n := gen.Int(t, 5, 60, "nflip")
		for i := 0; i < n; i++ {
			c.Flip = append(c.Flip, gen.Int(t, 0, 4000, "flip"))
		}
	case "all":
		c.All = true
	}
	c.EpsRel = gen.LogF(t, 1e-4, 1e-2, "epsrel")
	if gen.Int(t, 0, 3, "tjunction") == 0 {
		c.TJ = gen.Int(t, 1, 200, "tj")
	}
	return c
}

// withTJunction returns the mesh with the T-junction described at normalsCase.TJ and the index of the zero-area
// face, or the mesh unchanged and -1 when it has no axis-parallel edge.
func withTJunction(base []kit.Tri, tj int) ([]kit.Tri, int) {
	type cand struct{ f, k int }
	var cs []cand
	for f, t := range base {
		for k := 0; k < 3; k++ {
			a, b := t[k], t[(k+1)%3]
			same := 0
			for ax := 0; ax < 3; ax++ {
				if a[ax] == b[ax] {
					same++
				}
			}
			if same == 2 {
				cs = append(cs, cand{f, k})
			}
		}
	}
	if len(cs) == 0 || tj <= 0 {
		return base, -1
	}
	pick := cs[(tj-1)%len(cs)]
	t := base[pick.f]
	a, b, c := t[pick.k], t[(pick.k+1)%3], t[(pick.k+2)%3]
	m := a.Mid(b)
	if m == a || m == b {
		return base, -1
	}
	out := append([]kit.Tri(nil), base...)
	out[pick.f] = kit.Tri{a, m, c}
	out = append(out, kit.Tri{m, b, c}, kit.Tri{a, b, m})
	return out, len(out) - 1
}

// clearance3 is a length such that every pair of non-adjacent surface sheets of the input,
// and every sheet's own thickness, is at least 0.05 of it (by construction of the inputs).
func (s MeshSpec) clearance() float64 {
	switch s.Kind {
	case "nest":
		min := math.Inf(1)
		for _, sh := range s.Nest.Build() {
			min = math.Min(min, sh.Half)
		}
		return min
	case "lattice":
		return 1
	}
	return s.Delta
}

// flipSet: the indices (modulo n) toggle membership; with all=true the toggling starts
// from the full set, so "all but a few" is expressible.
func flipSet(idx []int, all bool, n int) map[int]bool {
	set := map[int]bool{}
	if n == 0 {
		return set
	}
	if all {
		for i := 0; i < n; i++ {
			set[i] = true
		}
	}
	for _, i := range idx {
		if set[i%n] {
			delete(set, i%n)
		} else {
			set[i%n] = true
		}
	}
	return set
}

func checkNormals(c normalsCase, o *kit.Obs) error {
	base := c.Spec.Build()
	o.Label("mesh:" + c.Spec.Kind)
	if len(base) == 0 {
		return nil
	}
	if len(base) > 3000 {
		o.Skip("mesh too large")
		return nil
	}
	eps := c.EpsRel * c.Spec.clearance()
	base, flat := withTJunction(base, c.TJ)
	if flat >= 0 {
		o.Label("t-junction(zero-area face)")
	}
	set := flipSet(c.Flip, c.All, len(base))
	in := append([]kit.Tri(nil), base...)
	for i := range set {
		in[i] = flipTri(in[i])
	}
	if len(set) > 0 {
		o.NonTrivial()
	}
	switch {
	case len(set) == 0:
		o.Label("flips:none")
	case len(set) == len(base):
		o.Label("flips:all")
	case len(set)*2 > len(base):
		o.Label("flips:majority")
	default:
		o.Label("flips:minority")
	}
	inMesh := m3.MeshFromTris(in)
	res, n := inMesh.RepairNormals(eps)
	out := m3.Tris(res)
	if err := untouched3(inMesh, in, "RepairNormals"); err != nil {
		return err
	}
	// winding number of the result at probe points with known even-odd membership
	var inside, outside []kit.V3
	switch c.Spec.Kind {
	case "nest":
		sh := c.Spec.Nest.Build()
		if err := checkNestTruth(sh); err != nil {
			return err
		}
		depthMax := 0
		for _, s := range sh {
			if s.Depth+1 > depthMax {
				depthMax = s.Depth + 1
			}
			// a point just inside the shell: first face's centroid pushed inwards by 2% of the slot
			t := s.Tris[0]
			ctr := t[0].Add(t[1]).Add(t[2]).Scale(1.0 / 3)
			nrm := t.Normal().Unit()
			pin, pout := ctr.Sub(nrm.Scale(0.02*s.Half)), ctr.Add(nrm.Scale(0.02*s.Half))
			if s.Depth%2 == 0 {
				inside, outside = append(inside, pin), append(outside, pout)
			} else {
				inside, outside = append(inside, pout), append(outside, pin)
			}
		}
		o.Labelf("depth:%d", depthMax)
		o.Labelf("shells:%s", bucket(len(sh)))
	case "lattice":
		l := *c.Spec.Lat
		for z := -1; z <= l.N[2]; z++ {
			for y := -1; y <= l.N[1]; y++ {
				for x := -1; x <= l.N[0]; x++ {
					p := kit.V3{float64(x), float64(y), float64(z)}
					if l.At(x, y, z) {
						inside = append(inside, p)
					} else {
						outside = append(outside, p)
					}
				}
			}
		}
	}
	for _, p := range inside {
		if w := kit.Winding3(out, p); math.Abs(w-1) > 0.01 {
			return fmt.Errorf("RepairNormals(%g): winding number of the result at %v (inside the even-odd solid) is %.4f, want 1; %d of %d faces had been re-oriented, %d reported as flipped", eps, p, w, len(set), len(base), n)
		}
	}
	for _, p := range outside {
		if w := kit.Winding3(out, p); math.Abs(w) > 0.01 {
			return fmt.Errorf("RepairNormals(%g): winding number of the result at %v (outside the even-odd solid) is %.4f, want 0; %d of %d faces had been re-oriented, %d reported as flipped", eps, p, w, len(set), len(base), n)
		}
	}
	if flat >= 0 {
		// the zero-area face has no orientation to restore: it must still be there (once, either way round);
		// everything else is compared without it, and it may or may not count as flipped
		if len(out) != len(base) {
			return fmt.Errorf("RepairNormals(%g) returned %d faces for a mesh of %d faces (one of them of zero area)", eps, len(out), len(base))
		}
		key := func(t kit.Tri) [3]kit.V3 {
			v := [3]kit.V3{t[0], t[1], t[2]}
			sort.Slice(v[:], func(i, j int) bool { return kit.V3Less(v[i], v[j]) })
			return v
		}
		var rest []kit.Tri
		found := 0
		for _, t := range out {
			if key(t) == key(base[flat]) {
				found++
			} else {
				rest = append(rest, t)
			}
		}
		if found != 1 {
			return fmt.Errorf("RepairNormals(%g): the zero-area face %v of the input appears %d times in the result", eps, base[flat], found)
		}
		if err := sameFaces(rest, base[:flat]); err != nil {
			return fmt.Errorf("RepairNormals(%g) on a mesh with a zero-area face did not restore the even-odd orientation of the other faces: %v", eps, err)
		}
		k := len(set)
		if set[flat] {
			k--
		}
		if n != k && n != k+1 {
			return fmt.Errorf("RepairNormals(%g) reports %d flipped faces, %d faces of non-zero area were re-oriented", eps, n, k)
		}
		return nil
	}
	if err := sameFaces(out, base); err != nil {
		return fmt.Errorf("RepairNormals(%g) did not restore the even-odd orientation (%d of %d faces re-oriented, %d reported): %v", eps, len(set), len(base), n, err)
	}
	if n != len(set) {
		return fmt.Errorf("RepairNormals(%g) reports %d flipped faces, %d faces were re-oriented (and the result is the correctly oriented mesh)", eps, n, len(set))
	}
	return nil
}

func bucket(n int) string {
	switch {
	case n <= 1:
		return "1"
	case n <= 3:
		return "2-3"
	case n <= 7:
		return "4-7"
	}
	return "8+"
}

// ---- 2D

type normals2Case struct {
	Spec   MeshSpec2 `json:"spec"`
	Flip   []int     `json:"flip"`
	All    bool      `json:"all"`
	EpsRel float64   `json:"eps_rel"`
	// UnitLog10: mesh, probes and eps in units of 10^UnitLog10 ("adding the normal, scaled by epsilon" is a length)
	UnitLog10 int `json:"unit_log10,omitempty"`
}

func genNormals2(t *rapid.T) normals2Case {
	c := normals2Case{Spec: genMeshSpec2(t, []string{"nest", "nest", "lattice"}, 8, 4)}
	switch rapid.SampledFrom([]string{"few", "many", "all", "most", "none"}).Draw(t, "flips") {
	case "few":
		c.Flip = genIdx(t, 5, "flip")
	case "most":
		c.All = true
		c.Flip = genIdx(t, 5, "keep")
	case "many":
		n := gen.Int(t, 5, 40, "nflip")
		for i := 0; i < n; i++ {
			c.Flip = append(c.Flip, gen.Int(t, 0, 4000, "flip"))
		}
	case "all":
		c.All = true
	}
	c.EpsRel = gen.LogF(t, 1e-4, 1e-2, "epsrel")
	if gen.Int(t, 0, 2, "units") == 0 {
		c.UnitLog10 = []int{-3, 2, 3, 4}[gen.Int(t, 0, 3, "unit_log10")]
	}
	return c
}

func checkNormals2(c normals2Case, o *kit.Obs) error {
	base := c.Spec.Build()
	o.Label("mesh:" + c.Spec.Kind)
	if len(base) == 0 {
		return nil
	}
	clear := 1.0
	var inside, outside []kit.V2
	if c.Spec.Kind == "nest" {
		sh := c.Spec.Nest.Build()
		if err := checkNestTruth2(sh); err != nil {
			return err
		}
		clear = math.Inf(1)
		depthMax := 0
		for _, s := range sh {
			clear = math.Min(clear, s.Half)
			if s.Depth+1 > depthMax {
				depthMax = s.Depth + 1
			}
			g := s.Segs[0]
			mid := g[0].Mid(g[1])
			d := g[1].Sub(g[0])
			nrm := kit.V2{-d[1], d[0]}.Unit() // outward for an outward-oriented (clockwise) outline
			pin, pout := mid.Sub(nrm.Scale(0.02*s.Half)), mid.Add(nrm.Scale(0.02*s.Half))
			if s.Depth%2 == 0 {
				inside, outside = append(inside, pin), append(outside, pout)
			} else {
				inside, outside = append(inside, pout), append(outside, pin)
			}
		}
		o.Labelf("depth:%d", depthMax)
		o.Labelf("shells:%s", bucket(len(sh)))
	} else {
		l := *c.Spec.Lat
		for y := -1; y <= l.N[1]; y++ {
			for x := -1; x <= l.N[0]; x++ {
				p := kit.V2{float64(x), float64(y)}
				if l.At(x, y) {
					inside = append(inside, p)
				} else {
					outside = append(outside, p)
				}
			}
		}
	}
	eps := c.EpsRel * clear
	if c.UnitLog10 != 0 {
		k := math.Pow(10, float64(c.UnitLog10))
		scaled := make([]kit.Seg, len(base))
		for i, sg := range base {
			scaled[i] = kit.Seg{sg[0].Scale(k), sg[1].Scale(k)}
		}
		base = scaled
		for i := range inside {
			inside[i] = inside[i].Scale(k)
		}
		for i := range outside {
			outside[i] = outside[i].Scale(k)
		}
		eps *= k
		o.Labelf("unit:1e%d", c.UnitLog10)
	}
	set := flipSet(c.Flip, c.All, len(base))
	in := append([]kit.Seg(nil), base...)
	for i := range set {
		in[i] = kit.Seg{in[i][1], in[i][0]}
	}
	if len(set) > 0 {
		o.NonTrivial()
	}
	switch {
	case len(set) == 0:
		o.Label("flips:none")
	case len(set) == len(base):
		o.Label("flips:all")
	case len(set)*2 > len(base):
		o.Label("flips:majority")
	default:
		o.Label("flips:minority")
	}
	res, n := m3.MeshFromSegs(in).RepairNormals(eps)
	out := m3.Segs(res)
	for _, p := range inside {
		if w := kit.Winding2(out, p); math.Abs(w-1) > 0.01 {
			return fmt.Errorf("2D RepairNormals(%g): winding number of the result at %v (inside the even-odd region) is %.4f, want 1; %d of %d segments re-oriented, %d reported", eps, p, w, len(set), len(base), n)
		}
	}
	for _, p := range outside {
		if w := kit.Winding2(out, p); math.Abs(w) > 0.01 {
			return fmt.Errorf("2D RepairNormals(%g): winding number of the result at %v (outside the even-odd region) is %.4f, want 0; %d of %d segments re-oriented, %d reported", eps, p, w, len(set), len(base), n)
		}
	}
	if err := sameSegs(out, base); err != nil {
		return fmt.Errorf("2D RepairNormals(%g) did not restore the even-odd orientation (%d of %d segments re-oriented, %d reported): %v", eps, len(set), len(base), n, err)
	}
	if n != len(set) {
		return fmt.Errorf("2D RepairNormals(%g) reports %d flipped segments, %d were re-oriented", eps, n, len(set))
	}
	return nil
}
