package c11

// SelfIntersections: zero on constructed non-intersecting closed meshes, positive when the
// surfaces of two convex shells provably cross (one has vertices strictly on both sides of
// the other).

import (
	"fmt"
	"math"

	"pgregory.net/rapid"
	"verifharness/gen"
	"verifharness/kit"
	"verifharness/m3"
)

type pairCase struct {
	A, B  string     // box | octa | ico1
	Scale float64    `json:"scale"`  // size of B relative to A
	Off   kit.V3     `json:"offset"` // centre of B
	Rot   [3]float64 `json:"rot"`
}

func genPair(t *rapid.T) pairCase {
	ks := []string{"box", "octa", "ico1"}
	dir := gen.Vec3(t, 1, "dir").Add(kit.V3{0.001, 0.002, 0.003})
	return pairCase{A: rapid.SampledFrom(ks).Draw(t, "a"), B: rapid.SampledFrom(ks).Draw(t, "b"),
		Scale: gen.LogF(t, 0.1, 5, "scale"), Off: dir.Unit().Scale(gen.LogF(t, 0.02, 4, "dist")),
		Rot: [3]float64{gen.F(t, -3.2, 3.2, "rz"), gen.F(t, -3.2, 3.2, "ry"), gen.F(t, -3.2, 3.2, "rx")}}
}

func unitShape(k string) ([]kit.Tri, float64, float64) { // faces, circumradius, inradius
	switch k {
	case "box":
		return unitBox(), math.Sqrt(3), 1
	case "octa":
		return unitOcta(), 1, 1 / math.Sqrt(3)
	}
	return unitIco(1), 1, 0.7946
}

func checkPair(c pairCase, o *kit.Obs) error {
	a, ra, ia := unitShape(c.A)
	b0, rb, ib := unitShape(c.B)
	xf := (&Nest{Rot: c.Rot, Scale: c.Scale, Shift: c.Off}).xform()
	b := make([]kit.Tri, len(b0))
	for i, t := range b0 {
		b[i] = kit.Tri{xf(t[0]), xf(t[1]), xf(t[2])}
	}
	rb, ib = rb*c.Scale, ib*c.Scale
	dist := c.Off.Norm()
	// classification with margins
	class := "undecided"
	switch {
	case dist > (ra+rb)*1.02:
		class = "disjoint"
	case dist+rb < ia*0.98:
		class = "b-inside-a"
	case dist+ra < ib*0.98:
		class = "a-inside-b"
	default:
		in, out := 0, 0
		for _, v := range sortedVerts(b) {
			if d, _ := kit.MeshDist(a, v); d < 1e-3 {
				continue
			}
			if w := kit.Winding3(a, v); math.Abs(w-1) < 0.01 {
				in++
			} else if math.Abs(w) < 0.01 {
				out++
			}
		}
		if in > 0 && out > 0 {
			class = "crossing"
		}
	}
	o.Label("class:" + class)
	if class == "undecided" {
		o.Skip("neither separated by construction nor crossing by the vertex criterion")
		return nil
	}
	o.NonTrivial()
	n := m3.MeshFromTris(append(append([]kit.Tri(nil), a...), b...)).SelfIntersections()
	if class == "crossing" && n == 0 {
		return fmt.Errorf("SelfIntersections() = 0 although shell B has vertices strictly inside and strictly outside the convex shell A, so the closed surfaces cross")
	}
	if class != "crossing" && n != 0 {
		return fmt.Errorf("SelfIntersections() = %d for two shells that are %s by construction", n, class)
	}
	return nil
}
