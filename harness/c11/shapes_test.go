package c11

// Case descriptions and builders: unit shells, nested arrangements with known
// ground-truth nesting (3D and 2D), marching-cubes inputs, damage operators.

import (
	"fmt"
	"math"
	"sort"
	"sync"

	"github.com/unixpickle/model3d/model2d"
	"github.com/unixpickle/model3d/model3d"
	"pgregory.net/rapid"
	"verifharness/gen"
	"verifharness/kit"
	"verifharness/m3"
)

// ---------------------------------------------------------------------------
// unit shells (inside [-1,1]^3, centred at the origin, outward oriented)

func orientOutward(ts []kit.Tri) []kit.Tri {
	if kit.SignedVolume(ts) < 0 {
		for i := range ts {
			ts[i] = flipTri(ts[i])
		}
	}
	return ts
}

func unitBox() []kit.Tri {
	p := func(i int) kit.V3 {
		return kit.V3{float64(2*(i&1) - 1), float64(2*(i>>1&1) - 1), float64(2*(i>>2&1) - 1)}
	}
	quads := [6][4]int{{0, 1, 3, 2}, {4, 6, 7, 5}, {0, 4, 5, 1}, {2, 3, 7, 6}, {0, 2, 6, 4}, {1, 5, 7, 3}}
	var ts []kit.Tri
	for k, q := range quads {
		// alternate the diagonal so that the triangulation is not symmetric
		if k%2 == 0 {
			ts = append(ts, kit.Tri{p(q[0]), p(q[1]), p(q[2])}, kit.Tri{p(q[0]), p(q[2]), p(q[3])})
		} else {
			ts = append(ts, kit.Tri{p(q[0]), p(q[1]), p(q[3])}, kit.Tri{p(q[1]), p(q[2]), p(q[3])})
		}
	}
	return orientOutward(ts)
}

func unitOcta() []kit.Tri {
	var ts []kit.Tri
	for sx := -1.0; sx <= 1; sx += 2 {
		for sy := -1.0; sy <= 1; sy += 2 {
			for sz := -1.0; sz <= 1; sz += 2 {
				t := kit.Tri{{sx, 0, 0}, {0, sy, 0}, {0, 0, sz}}
				if t.Normal().Dot(kit.V3{sx, sy, sz}) < 0 {
					t = flipTri(t)
				}
				ts = append(ts, t)
			}
		}
	}
	return ts
}

var icoOnce [3]sync.Once
var icoCache [3][]kit.Tri

func unitIco(n int) []kit.Tri {
	icoOnce[n].Do(func() {
		icoCache[n] = orientOutward(sortTris(m3.Tris(model3d.NewMeshIcosphere(model3d.Coord3D{}, 1, n))))
	})
	return append([]kit.Tri(nil), icoCache[n]...)
}

// unitTorus: major radius 0.62, tube radius 0.2, around the given coordinate axis.
func unitTorus(n, m, axis int) []kit.Tri {
	const R, r = 0.62, 0.2
	pt := func(i, j int) kit.V3 {
		th := 2 * math.Pi * float64(i%n) / float64(n)
		ph := 2 * math.Pi * float64(j%m) / float64(m)
		x, y, z := (R+r*math.Cos(ph))*math.Cos(th), (R+r*math.Cos(ph))*math.Sin(th), r*math.Sin(ph)
		var v kit.V3
		v[axis], v[(axis+1)%3], v[(axis+2)%3] = z, x, y
		return v
	}
	var ts []kit.Tri
	for i := 0; i < n; i++ {
		for j := 0; j < m; j++ {
			a, b, c, d := pt(i, j), pt(i+1, j), pt(i+1, j+1), pt(i, j+1)
			ts = append(ts, kit.Tri{a, b, c}, kit.Tri{a, c, d})
		}
	}
	return orientOutward(ts)
}

// ---------------------------------------------------------------------------
// nested arrangements, 3D

// Node is one shell of a nested arrangement.  It occupies a cubic slot (centre, half
// size h); the shell has size Fill*h; its children sit in distinct cells of a Grid^3
// subdivision of a cube strictly inside the shell.  A torus has no children but an
// optional occupant of its hole, which is a SIBLING in the ground-truth tree.
type Node struct {
	Shape string  `json:"shape"` // box | octa | ico1 | ico2 | torus
	Fill  float64 `json:"fill"`
	Axis  int     `json:"axis,omitempty"`
	Stops [2]int  `json:"stops,omitempty"`
	Grid  int     `json:"grid,omitempty"`
	Cells []int   `json:"cells,omitempty"`
	Kids  []*Node `json:"kids,omitempty"`
	Hole  *Node   `json:"hole,omitempty"`
}

// Nest is a forest: roots in distinct cells of a Grid^3 subdivision of [-1,1]^3, then the
// whole arrangement is rotated, scaled and shifted.
type Nest struct {
	Grid  int        `json:"grid"`
	Cells []int      `json:"cells"`
	Roots []*Node    `json:"roots"`
	Rot   [3]float64 `json:"rot"`
	Scale float64    `json:"scale"`
	Shift kit.V3     `json:"shift"`
	// Stretch scales the axes of the construction (before the rotation) by factors >= 1 (0 means 1): an
	// affine map, so the nesting is unchanged and every clearance only grows, but components become
	// columns and slabs with children far from their centres.
	Stretch [3]float64 `json:"stretch,omitempty"`
}

type shell struct {
	Tris   []kit.Tri // outward oriented
	Parent int       // -1 for roots
	Depth  int
	Centre kit.V3
	Half   float64 // half size of the slot (after the global scale)
	Shape  string
}

// innerFactor: half size of an axis-aligned cube that is strictly inside the unit shell.
func innerFactor(shape string) float64 {
	switch shape {
	case "box":
		return 1
	case "octa":
		return 1.0 / 3
	case "ico1", "ico2":
		return 0.7946 / math.Sqrt(3)
	}
	return 0
}

func cellCentre(grid, cell int, c kit.V3, inner float64) (kit.V3, float64) {
	g := float64(grid)
	i, j, k := cell%grid, cell/grid%grid, cell/grid/grid%grid
	f := func(i int) float64 { return inner * (-1 + (2*float64(i)+1)/g) }
	return kit.V3{c[0] + f(i), c[1] + f(j), c[2] + f(k)}, inner / g * 0.9
}

func (n *Nest) xform() func(kit.V3) kit.V3 {
	ca, sa := math.Cos(n.Rot[0]), math.Sin(n.Rot[0])
	cb, sb := math.Cos(n.Rot[1]), math.Sin(n.Rot[1])
	cc, sc := math.Cos(n.Rot[2]), math.Sin(n.Rot[2])
	s := n.Scale
	if s == 0 {
		s = 1
	}
	st := n.Stretch
	for k := range st {
		if st[k] < 1 {
			st[k] = 1
		}
	}
	return func(p kit.V3) kit.V3 {
		// Rz(a) Ry(b) Rx(c) diag(stretch)
		x, y, z := st[0]*p[0], st[1]*p[1], st[2]*p[2]
		y, z = cc*y-sc*z, sc*y+cc*z
		x, z = cb*x+sb*z, -sb*x+cb*z
		x, y = ca*x-sa*y, sa*x+ca*y
		return kit.V3{n.Shift[0] + s*x, n.Shift[1] + s*y, n.Shift[2] + s*z}
	}
}

// Build lists the shells (parents before children) with their ground-truth nesting.
func (n *Nest) Build() []shell {
	var out []shell
	xf := n.xform()
	s := n.Scale
	if s == 0 {
		s = 1
	}
	var place func(nd *Node, c kit.V3, h float64, parent, depth int)
	place = func(nd *Node, c kit.V3, h float64, parent, depth int) {
		var unit []kit.Tri
		switch nd.Shape {
		case "box":
			unit = unitBox()
		case "octa":
			unit = unitOcta()
		case "ico1":
			unit = unitIco(1)
		case "ico2":
			unit = unitIco(2)
		case "torus":
			unit = unitTorus(nd.Stops[0], nd.Stops[1], nd.Axis)
		default:
			panic("c11: unknown shape " + nd.Shape)
		}
		sz := nd.Fill * h
		ts := make([]kit.Tri, len(unit))
		for i, t := range unit {
			for k := 0; k < 3; k++ {
				ts[i][k] = xf(kit.V3{c[0] + sz*t[k][0], c[1] + sz*t[k][1], c[2] + sz*t[k][2]})
			}
		}
		me := len(out)
		out = append(out, shell{Tris: ts, Parent: parent, Depth: depth, Centre: xf(c), Half: h * s, Shape: nd.Shape})
		if nd.Shape == "torus" {
			if nd.Hole != nil {
				place(nd.Hole, c, 0.2*sz, parent, depth)
			}
			return
		}
		inner := innerFactor(nd.Shape) * sz * 0.85
		for i, k := range nd.Kids {
			cc, hh := cellCentre(nd.Grid, nd.Cells[i], c, inner)
			place(k, cc, hh, me, depth+1)
		}
	}
	for i, r := range n.Roots {
		cc, hh := cellCentre(n.Grid, n.Cells[i], kit.V3{}, 1)
		place(r, cc, hh, -1, 0)
	}
	return out
}

// evenOddTris concatenates the shells, oriented so that the surface normals point out of
// the even-odd solid (outward at even depth, inward at odd depth).
func evenOddTris(sh []shell) []kit.Tri {
	var out []kit.Tri
	for _, s := range sh {
		for _, t := range s.Tris {
			if s.Depth%2 == 1 {
				t = flipTri(t)
			}
			out = append(out, t)
		}
	}
	return out
}

func distinctCells(t *rapid.T, grid, n int, label string) []int {
	total := grid * grid * grid
	if n > total {
		n = total
	}
	// draw a start and a stride coprime with total: distinct by construction, shrinks well
	start := gen.Int(t, 0, total-1, label+".start")
	strides := []int{1}
	for s := 2; s < total; s++ {
		if gcd(s, total) == 1 {
			strides = append(strides, s)
		}
	}
	stride := rapid.SampledFrom(strides).Draw(t, label+".stride")
	out := make([]int, n)
	for i := range out {
		out[i] = (start + i*stride) % total
	}
	return out
}

func gcd(a, b int) int {
	for b != 0 {
		a, b = b, a%b
	}
	return a
}

var shapes3 = []string{"box", "octa", "ico1", "ico2", "torus", "box", "octa"}

func genNode(t *rapid.T, depthLeft int, budget *int, maxKids int, allowBig bool) *Node {
	*budget--
	nd := &Node{Shape: rapid.SampledFrom(shapes3).Draw(t, "shape"), Fill: gen.F(t, 0.7, 1, "fill")}
	if nd.Shape == "ico2" && !allowBig {
		nd.Shape = "ico1"
	}
	if nd.Shape == "torus" {
		nd.Axis = gen.Int(t, 0, 2, "axis")
		nd.Stops = [2]int{gen.Int(t, 5, 8, "n"), gen.Int(t, 3, 5, "m")}
		if depthLeft > 0 && *budget > 0 && rapid.Bool().Draw(t, "hole") {
			nd.Hole = genNode(t, depthLeft-1, budget, maxKids, allowBig)
		}
		return nd
	}
	if depthLeft <= 0 || *budget <= 0 {
		return nd
	}
	k := gen.Int(t, 0, maxKids, "kids")
	if k > *budget {
		k = *budget
	}
	if k == 0 {
		return nd
	}
	lo := 2
	if k == 1 {
		lo = 1 // a single child may sit concentrically
	}
	nd.Grid = gen.Int(t, lo, 3, "grid")
	nd.Cells = distinctCells(t, nd.Grid, k, "cells")
	for i := 0; i < len(nd.Cells); i++ {
		nd.Kids = append(nd.Kids, genNode(t, depthLeft-1, budget, maxKids, allowBig))
	}
	return nd
}

// genNest draws a forest with at most maxNodes shells and nesting depth up to maxDepth
// (depth counted in shells: 5 means a shell inside four others).
func genNest(t *rapid.T, maxNodes, maxDepth int, allowBig bool) *Nest {
	n := &Nest{Grid: gen.Int(t, 1, 3, "topgrid")}
	mode := rapid.SampledFrom([]string{"bushy", "chain", "flat"}).Draw(t, "mode")
	roots, maxKids := 1, 3
	switch mode {
	case "chain":
		maxKids = 1
		roots = gen.Int(t, 1, 2, "roots")
	case "flat":
		roots = gen.Int(t, 1, maxNodes, "roots")
		maxKids = 1
		if maxDepth > 2 {
			maxDepth = 2
		}
	default:
		roots = gen.Int(t, 1, 3, "roots")
	}
	if roots > n.Grid*n.Grid*n.Grid {
		n.Grid = 3
	}
	if roots > 27 {
		roots = 27
	}
	n.Cells = distinctCells(t, n.Grid, roots, "topcells")
	budget := maxNodes
	for range n.Cells {
		if budget <= 0 {
			break
		}
		d := maxDepth - 1
		if mode == "chain" {
			d = gen.Int(t, maxDepth-2, maxDepth-1, "chaindepth")
			if d < 0 {
				d = 0
			}
		}
		n.Roots = append(n.Roots, genNode(t, d, &budget, maxKids, allowBig))
	}
	n.Cells = n.Cells[:len(n.Roots)]
	if gen.Int(t, 0, 3, "aligned") != 0 {
		n.Rot = [3]float64{gen.F(t, -3.2, 3.2, "rz"), gen.F(t, -3.2, 3.2, "ry"), gen.F(t, -3.2, 3.2, "rx")}
	}
	n.Scale = gen.LogF(t, 0.3, 30, "scale")
	n.Shift = gen.Vec3(t, 5, "shift")
	if gen.Int(t, 0, 2, "stretched") == 0 {
		n.Stretch = [3]float64{1, 1, 1}
		n.Stretch[gen.Int(t, 0, 2, "stretchaxis")] = gen.LogF(t, 3, 40, "stretch")
	}
	return n
}

// checkNestTruth is an infrastructure self-check of the construction: the first vertex of
// every shell has winding number 1 around exactly its constructed ancestors.
func checkNestTruth(sh []shell) error {
	for i, s := range sh {
		anc := map[int]bool{}
		for p := s.Parent; p >= 0; p = sh[p].Parent {
			anc[p] = true
		}
		v := s.Tris[0][0]
		for j, o := range sh {
			if j == i {
				continue
			}
			w := kit.Winding3(o.Tris, v)
			want := 0.0
			if anc[j] {
				want = 1
			}
			if math.Abs(w-want) > 0.01 {
				return fmt.Errorf("%w: constructed nesting is wrong: shell %d vertex has winding %.3f around shell %d, want %g", kit.ErrInfra, i, w, j, want)
			}
		}
	}
	return nil
}

// ---------------------------------------------------------------------------
// general 3D input meshes

// MeshSpec describes a closed, non-self-intersecting manifold mesh whose normals point
// out of its even-odd solid.
type MeshSpec struct {
	Kind  string        `json:"kind"` // nest | lattice | csg
	Nest  *Nest         `json:"nest,omitempty"`
	Lat   *gen.Lattice3 `json:"lattice,omitempty"`
	Tree  *gen.Node     `json:"tree,omitempty"`
	Delta float64       `json:"delta,omitempty"`
}

// Build returns the faces in a canonical (sorted) order.
func (s MeshSpec) Build() []kit.Tri {
	switch s.Kind {
	case "nest":
		return sortTris(evenOddTris(s.Nest.Build()))
	case "lattice":
		return sortTris(m3.Tris(model3d.MarchingCubes(s.Lat.Solid(), 1)))
	case "csg":
		return sortTris(m3.Tris(model3d.MarchingCubes(s.Tree.Build(), s.Delta)))
	}
	panic("c11: unknown mesh kind " + s.Kind)
}

func genMeshSpec(t *rapid.T, kinds []string, maxNodes, maxDepth int, allowBig bool) MeshSpec {
	k := rapid.SampledFrom(kinds).Draw(t, "meshkind")
	switch k {
	case "lattice":
		l := gen.Lattice3Gen(t, 4, "lattice")
		return MeshSpec{Kind: k, Lat: &l}
	case "csg":
		return MeshSpec{Kind: k, Tree: gen.NodeGen(t, 2, 3, false, "tree"), Delta: gen.F(t, 0.25, 0.5, "delta")}
	}
	return MeshSpec{Kind: "nest", Nest: genNest(t, maxNodes, maxDepth, allowBig)}
}

// sortedVerts lists the distinct vertices in lexicographic order.
func sortedVerts(ts []kit.Tri) []kit.V3 {
	seen := map[kit.V3]bool{}
	var vs []kit.V3
	for _, t := range ts {
		for _, v := range t {
			v = c3(v)
			if !seen[v] {
				seen[v] = true
				vs = append(vs, v)
			}
		}
	}
	sort.Slice(vs, func(i, j int) bool { return less3(vs[i], vs[j]) })
	return vs
}

// Damage is a list of edits applied in the order Dup, Remove, Flip, Merge; indices are
// taken modulo the current face / vertex count.  Faces that a merge makes degenerate
// (two equal vertices) are dropped, as an edge collapse does.
type Damage struct {
	Dup    []int    `json:"dup,omitempty"`
	Remove []int    `json:"remove,omitempty"`
	Flip   []int    `json:"flip,omitempty"`
	Merge  [][2]int `json:"merge,omitempty"`
}

func (d Damage) Apply(ts []kit.Tri) []kit.Tri {
	ts = append([]kit.Tri(nil), ts...)
	if len(ts) == 0 {
		return ts
	}
	n := len(ts)
	for _, i := range d.Dup {
		ts = append(ts, ts[i%n])
	}
	for _, i := range d.Remove {
		if len(ts) <= 1 {
			break
		}
		j := i % len(ts)
		ts = append(ts[:j], ts[j+1:]...)
	}
	for _, i := range d.Flip {
		j := i % len(ts)
		ts[j] = flipTri(ts[j])
	}
	for _, mg := range d.Merge {
		vs := sortedVerts(ts)
		a, b := vs[mg[0]%len(vs)], vs[mg[1]%len(vs)]
		if a == b {
			continue
		}
		var out []kit.Tri
		for _, t := range ts {
			for k := 0; k < 3; k++ {
				if c3(t[k]) == b {
					t[k] = a
				}
			}
			if c3(t[0]) == c3(t[1]) || c3(t[1]) == c3(t[2]) || c3(t[0]) == c3(t[2]) {
				continue
			}
			out = append(out, t)
		}
		ts = out
		if len(ts) == 0 {
			break
		}
	}
	return ts
}

func genIdx(t *rapid.T, max int, label string) []int {
	n := gen.Int(t, 0, max, label+".n")
	out := make([]int, 0, n)
	for i := 0; i < n; i++ {
		out = append(out, gen.Int(t, 0, 4000, label))
	}
	return out
}

// ---------------------------------------------------------------------------
// 2D arrangements

type Node2 struct {
	Shape string   `json:"shape"` // square | ngon | u
	N     int      `json:"n,omitempty"`
	Turn  int      `json:"turn,omitempty"` // quarter turns of the unit shape
	Fill  float64  `json:"fill"`
	Grid  int      `json:"grid,omitempty"`
	Cells []int    `json:"cells,omitempty"`
	Kids  []*Node2 `json:"kids,omitempty"`
	Notch *Node2   `json:"notch,omitempty"` // u only: sits in the notch, a sibling in the truth tree
}

type Nest2 struct {
	Grid  int      `json:"grid"`
	Cells []int    `json:"cells"`
	Roots []*Node2 `json:"roots"`
	Rot   float64  `json:"rot"`
	Scale float64  `json:"scale"`
	Shift kit.V2   `json:"shift"`
}

type shell2 struct {
	Segs   []kit.Seg // outward oriented (clockwise)
	Parent int
	Depth  int
	Centre kit.V2
	Half   float64
}

func turn2(p kit.V2, k int) kit.V2 {
	for i := 0; i < k%4; i++ {
		p = kit.V2{-p[1], p[0]}
	}
	return p
}

func unitPoly(shape string, n int) []kit.V2 {
	switch shape {
	case "square":
		return []kit.V2{{-1, -1}, {1, -1}, {1, 1}, {-1, 1}}
	case "ngon":
		var ps []kit.V2
		for i := 0; i < n; i++ {
			a := 2*math.Pi*float64(i)/float64(n) + 0.3
			ps = append(ps, kit.V2{math.Cos(a), math.Sin(a)})
		}
		return ps
	case "u":
		return []kit.V2{{-1, -1}, {1, -1}, {1, 1}, {0.5, 1}, {0.5, -0.5}, {-0.5, -0.5}, {-0.5, 1}, {-1, 1}}
	}
	panic("c11: unknown 2D shape " + shape)
}

func innerFactor2(shape string, n int) float64 {
	switch shape {
	case "square":
		return 1
	case "ngon":
		return math.Cos(math.Pi/float64(n)) / math.Sqrt2
	}
	return 0
}

func (n *Nest2) xform() func(kit.V2) kit.V2 {
	c, s := math.Cos(n.Rot), math.Sin(n.Rot)
	k := n.Scale
	if k == 0 {
		k = 1
	}
	return func(p kit.V2) kit.V2 {
		return kit.V2{n.Shift[0] + k*(c*p[0]-s*p[1]), n.Shift[1] + k*(s*p[0]+c*p[1])}
	}
}

func cellCentre2(grid, cell int, c kit.V2, inner float64) (kit.V2, float64) {
	g := float64(grid)
	i, j := cell%grid, cell/grid%grid
	f := func(i int) float64 { return inner * (-1 + (2*float64(i)+1)/g) }
	return kit.V2{c[0] + f(i), c[1] + f(j)}, inner / g * 0.9
}

func (n *Nest2) Build() []shell2 {
	var out []shell2
	xf := n.xform()
	sc := n.Scale
	if sc == 0 {
		sc = 1
	}
	var place func(nd *Node2, c kit.V2, h float64, parent, depth int)
	place = func(nd *Node2, c kit.V2, h float64, parent, depth int) {
		ps := unitPoly(nd.Shape, nd.N)
		sz := nd.Fill * h
		var segs []kit.Seg
		for i := range ps {
			a, b := turn2(ps[i], nd.Turn), turn2(ps[(i+1)%len(ps)], nd.Turn)
			segs = append(segs, kit.Seg{xf(kit.V2{c[0] + sz*a[0], c[1] + sz*a[1]}), xf(kit.V2{c[0] + sz*b[0], c[1] + sz*b[1]})})
		}
		if kit.SignedArea2(segs) < 0 {
			for i := range segs {
				segs[i] = kit.Seg{segs[i][1], segs[i][0]}
			}
		}
		me := len(out)
		out = append(out, shell2{Segs: segs, Parent: parent, Depth: depth, Centre: xf(c), Half: h * sc})
		if nd.Shape == "u" {
			if nd.Notch != nil {
				o := turn2(kit.V2{0, 0.25}, nd.Turn)
				place(nd.Notch, kit.V2{c[0] + sz*o[0], c[1] + sz*o[1]}, 0.4*sz, parent, depth)
			}
			return
		}
		inner := innerFactor2(nd.Shape, nd.N) * sz * 0.85
		for i, k := range nd.Kids {
			cc, hh := cellCentre2(nd.Grid, nd.Cells[i], c, inner)
			place(k, cc, hh, me, depth+1)
		}
	}
	for i, r := range n.Roots {
		cc, hh := cellCentre2(n.Grid, n.Cells[i], kit.V2{}, 1)
		place(r, cc, hh, -1, 0)
	}
	return out
}

func evenOddSegs(sh []shell2) []kit.Seg {
	var out []kit.Seg
	for _, s := range sh {
		for _, g := range s.Segs {
			if s.Depth%2 == 1 {
				g = kit.Seg{g[1], g[0]}
			}
			out = append(out, g)
		}
	}
	return out
}

func distinctCells2(t *rapid.T, grid, n int, label string) []int {
	total := grid * grid
	if n > total {
		n = total
	}
	start := gen.Int(t, 0, total-1, label+".start")
	strides := []int{1}
	for s := 2; s < total; s++ {
		if gcd(s, total) == 1 {
			strides = append(strides, s)
		}
	}
	stride := rapid.SampledFrom(strides).Draw(t, label+".stride")
	out := make([]int, n)
	for i := range out {
		out[i] = (start + i*stride) % total
	}
	return out
}

func genNode2(t *rapid.T, depthLeft int, budget *int, maxKids int) *Node2 {
	*budget--
	nd := &Node2{Shape: rapid.SampledFrom([]string{"square", "ngon", "u", "ngon"}).Draw(t, "shape"), Fill: gen.F(t, 0.7, 1, "fill"), Turn: gen.Int(t, 0, 3, "turn")}
	if nd.Shape == "ngon" {
		nd.N = gen.Int(t, 3, 9, "n")
	}
	if nd.Shape == "u" {
		if depthLeft > 0 && *budget > 0 && rapid.Bool().Draw(t, "notch") {
			nd.Notch = genNode2(t, depthLeft-1, budget, maxKids)
		}
		return nd
	}
	if depthLeft <= 0 || *budget <= 0 {
		return nd
	}
	k := gen.Int(t, 0, maxKids, "kids")
	if k > *budget {
		k = *budget
	}
	if k == 0 {
		return nd
	}
	lo := 2
	if k == 1 {
		lo = 1
	}
	nd.Grid = gen.Int(t, lo, 3, "grid")
	nd.Cells = distinctCells2(t, nd.Grid, k, "cells")
	for range nd.Cells {
		nd.Kids = append(nd.Kids, genNode2(t, depthLeft-1, budget, maxKids))
	}
	return nd
}

func genNest2(t *rapid.T, maxNodes, maxDepth int) *Nest2 {
	n := &Nest2{Grid: gen.Int(t, 1, 4, "topgrid")}
	mode := rapid.SampledFrom([]string{"bushy", "chain", "flat"}).Draw(t, "mode")
	roots, maxKids := 1, 3
	switch mode {
	case "chain":
		maxKids = 1
		roots = gen.Int(t, 1, 2, "roots")
	case "flat":
		roots = gen.Int(t, 1, maxNodes, "roots")
		maxKids = 1
		if maxDepth > 2 {
			maxDepth = 2
		}
	default:
		roots = gen.Int(t, 1, 3, "roots")
	}
	if roots > n.Grid*n.Grid {
		n.Grid = 4
	}
	if roots > 16 {
		roots = 16
	}
	n.Cells = distinctCells2(t, n.Grid, roots, "topcells")
	budget := maxNodes
	for range n.Cells {
		if budget <= 0 {
			break
		}
		d := maxDepth - 1
		if mode == "chain" {
			d = gen.Int(t, maxDepth-2, maxDepth-1, "chaindepth")
			if d < 0 {
				d = 0
			}
		}
		n.Roots = append(n.Roots, genNode2(t, d, &budget, maxKids))
	}
	n.Cells = n.Cells[:len(n.Roots)]
	if gen.Int(t, 0, 3, "aligned") != 0 {
		n.Rot = gen.F(t, -3.2, 3.2, "rot")
	}
	n.Scale = gen.LogF(t, 0.3, 30, "scale")
	n.Shift = kit.V2{gen.F(t, -5, 5, "sx"), gen.F(t, -5, 5, "sy")}
	return n
}

func checkNestTruth2(sh []shell2) error {
	for i, s := range sh {
		anc := map[int]bool{}
		for p := s.Parent; p >= 0; p = sh[p].Parent {
			anc[p] = true
		}
		v := s.Segs[0][0]
		for j, o := range sh {
			if j == i {
				continue
			}
			w := kit.Winding2(o.Segs, v)
			want := 0.0
			if anc[j] {
				want = 1
			}
			if math.Abs(w-want) > 0.01 {
				return fmt.Errorf("%w: constructed 2D nesting is wrong: shell %d vertex has winding %.3f around shell %d, want %g", kit.ErrInfra, i, w, j, want)
			}
		}
	}
	return nil
}

// MeshSpec2 describes a closed, non-self-intersecting outline set oriented by the even-odd rule.
type MeshSpec2 struct {
	Kind string        `json:"kind"` // nest | lattice
	Nest *Nest2        `json:"nest,omitempty"`
	Lat  *gen.Lattice2 `json:"lattice,omitempty"`
}

func (s MeshSpec2) Build() []kit.Seg {
	switch s.Kind {
	case "nest":
		return sortSegs(evenOddSegs(s.Nest.Build()))
	case "lattice":
		return sortSegs(m3.Segs(model2d.MarchingSquares(s.Lat.Solid(), 1)))
	}
	panic("c11: unknown 2D mesh kind " + s.Kind)
}

func genMeshSpec2(t *rapid.T, kinds []string, maxNodes, maxDepth int) MeshSpec2 {
	k := rapid.SampledFrom(kinds).Draw(t, "meshkind")
	if k == "lattice" {
		l := gen.Lattice2Gen(t, 6, "lattice")
		return MeshSpec2{Kind: k, Lat: &l}
	}
	return MeshSpec2{Kind: "nest", Nest: genNest2(t, maxNodes, maxDepth)}
}

func sortedVerts2(ss []kit.Seg) []kit.V2 {
	seen := map[kit.V2]bool{}
	var vs []kit.V2
	for _, s := range ss {
		for _, v := range s {
			v = c2(v)
			if !seen[v] {
				seen[v] = true
				vs = append(vs, v)
			}
		}
	}
	sort.Slice(vs, func(i, j int) bool { return less2(vs[i], vs[j]) })
	return vs
}

func (d Damage) Apply2(ss []kit.Seg) []kit.Seg {
	ss = append([]kit.Seg(nil), ss...)
	if len(ss) == 0 {
		return ss
	}
	n := len(ss)
	for _, i := range d.Dup {
		ss = append(ss, ss[i%n])
	}
	for _, i := range d.Remove {
		if len(ss) <= 1 {
			break
		}
		j := i % len(ss)
		ss = append(ss[:j], ss[j+1:]...)
	}
	for _, i := range d.Flip {
		j := i % len(ss)
		ss[j] = kit.Seg{ss[j][1], ss[j][0]}
	}
	for _, mg := range d.Merge {
		vs := sortedVerts2(ss)
		a, b := vs[mg[0]%len(vs)], vs[mg[1]%len(vs)]
		if a == b {
			continue
		}
		var out []kit.Seg
		for _, s := range ss {
			for k := 0; k < 2; k++ {
				if c2(s[k]) == b {
					s[k] = a
				}
			}
			if c2(s[0]) == c2(s[1]) {
				continue
			}
			out = append(out, s)
		}
		ss = out
		if len(ss) == 0 {
			break
		}
	}
	return ss
}

// splitmix64 stream for bulk per-vertex jitter (seed is a drawn integer stored in the case).
type rng struct{ s uint64 }

func (r *rng) next() uint64 {
	r.s += 0x9e3779b97f4a7c15
	z := r.s
	z = (z ^ (z >> 30)) * 0xbf58476d1ce4e5b9
	z = (z ^ (z >> 27)) * 0x94d049bb133111eb
	return z ^ (z >> 31)
}

// unit returns a float in [-1, 1]; now and then exactly -1, 0 or 1.
func (r *rng) unit() float64 {
	u := r.next()
	switch u % 16 {
	case 0:
		return 1
	case 1:
		return -1
	case 2:
		return 0
	}
	return float64(u>>11)/float64(1<<52) - 1
}
