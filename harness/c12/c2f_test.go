package c12

import (
	"fmt"
	"math"
	"sort"
	"sync"

	"github.com/unixpickle/model3d/model2d"
	"github.com/unixpickle/model3d/model3d"
	"pgregory.net/rapid"
	"verifharness/gen"
	"verifharness/kit"
	"verifharness/m3"
)

// ---------------------------------------------------------------------------
// coarse-to-fine == plain search mesh
//
// MarchingCubesC2F(s, big, small, extra, iters) meshes at spacing `small` only inside boxes that, grown by
// extra + 2*sqrt(3)*big ("a conservative amount of space around the coarse mesh"), touch the coarse mesh
// MarchingCubesSearch(s, big, iters).  The result equals the plain MarchingCubesSearch(s, small, iters) whenever
// "the coarse pass sees every feature".  That precondition is made precise, and decided by the harness itself
// from the two observed sampling lattices (never from the library's meshes), as
//
//	(P) every sign-changing cell of the fine lattice has, within L-infinity distance D = (extra + 2*sqrt(3)*big)(1 - 1e-9)
//	    of the cell, a whole sign-changing EDGE of the coarse lattice.
//
// (P) implies equality: the coarse mesh has a vertex on every sign-changing coarse edge (that is what marching
// cubes is; the search only moves the vertex along its edge), so that vertex lies in the fine cell's box grown by
// D, hence in every enclosing block grown by the library's (larger) amount, so no enclosing block is rejected.
// Inputs are constructed so that (P) holds (features >= 2.5 coarse spacings, no near-tangent contacts), or so that
// it holds barely (a small satellite next to a large body, invisible to the coarse lattice, at a distance between
// one and two coarse cells: this is the class that exercises the amount of dilation); (P) is nevertheless
// evaluated on every case and the few cases that miss it are skipped and counted.

type c2fCase struct {
	Class string    `json:"class"` // feature satellite far-satellite csg
	Tree  *gen.Node `json:"tree"`
	Delta float64   `json:"delta"`
	K     float64   `json:"k"`     // big = K*Delta
	Extra float64   `json:"extra"` // extraSpace argument, in units of big
	Iters int       `json:"iters"`
	Procs []int     `json:"procs"`
}

func pickProcs(t *rapid.T, n int) []int {
	var out []int
	for i := 0; i < n; i++ {
		out = append(out, allProcs[gen.Int(t, 0, len(allProcs)-1, "procs")])
	}
	return out
}

// featureSolid3 builds a union of balls / capsules / boxes, every radius and half-thickness >= 1.25*big... i.e.
// every feature at least 2.5 coarse spacings across, each new part either deeply overlapping an earlier one or
// clearly separated from it (no near-tangent pairs).
func featureSolid3(t *rapid.T, big, rmax float64) *gen.Node {
	n := rapid.IntRange(1, 3).Draw(t, "nparts")
	root := &gen.Node{Op: "join"}
	var centres []kit.V3
	var radii []float64
	for i := 0; i < n; i++ {
		r := big * gen.F(t, math.Max(2.5, rmax/2), rmax, "r")
		var c kit.V3
		if i == 0 {
			c = gen.Vec3(t, 1, "c0")
		} else {
			j := rapid.IntRange(0, i-1).Draw(t, "anchor")
			d := gen.Dir3(t, "dir").Unit()
			if rapid.IntRange(0, 3).Draw(t, "apart") == 0 {
				c = centres[j].Add(d.Scale(radii[j] + r + big*gen.F(t, 3, 14, "gap")))
			} else {
				c = centres[j].Add(d.Scale(gen.F(t, 0.2, 0.75, "overlap") * math.Min(radii[j], r)))
			}
		}
		centres, radii = append(centres, c), append(radii, r)
		var s gen.Shape3
		switch rapid.SampledFrom([]string{"sphere", "capsule", "rect"}).Draw(t, "kind") {
		case "sphere":
			s = gen.Shape3{Kind: "sphere", A: c, R: r}
		case "capsule":
			h := gen.Dir3(t, "axis").Unit().Scale(big * gen.F(t, 0.3, 2.5, "halflen"))
			s = gen.Shape3{Kind: "capsule", A: c.Add(h), B: c.Sub(h), R: r}
		default:
			h := kit.V3{r * gen.F(t, 0.55, 1, "hx"), r * gen.F(t, 0.55, 1, "hy"), r * gen.F(t, 0.55, 1, "hz")}
			s = gen.Shape3{Kind: "rect", A: c.Sub(h), B: c.Add(h)}
		}
		root.Kids = append(root.Kids, &gen.Node{Op: "prim", Shape: &s})
	}
	return root
}

func genC2F(t *rapid.T) c2fCase {
	// part radii are drawn from [2.5, rmax] coarse spacings; the coarse factor is limited so that a part stays below
	// about 18 fine cells in radius (cost), yet is often much larger than the built-in dilation of 3.5 coarse spacings
	// (otherwise the dilated coarse mesh covers the whole lattice and nothing is ever skipped)
	rmax := gen.F(t, 3, 16, "rmax")
	c := c2fCase{Delta: gen.LogF(t, 0.02, 0.5, "delta"), K: gen.F(t, 1, math.Min(3, 20/rmax), "k"), Iters: rapid.IntRange(0, 5).Draw(t, "iters")}
	if rapid.IntRange(0, 2).Draw(t, "hasextra") == 0 {
		c.Extra = gen.F(t, 0, 1.5, "extra")
	}
	big := c.K * c.Delta
	c.Class = rapid.SampledFrom([]string{"feature", "feature", "satellite", "far-satellite", "far-satellite", "csg"}).Draw(t, "class")
	switch c.Class {
	case "feature":
		c.Tree = featureSolid3(t, big, rmax)
	case "satellite":
		// a large ball and a small one (invisible or nearly invisible to the coarse lattice) hovering next to it
		R := big * gen.F(t, math.Max(2.5, rmax/2), rmax, "R")
		ctr := gen.Vec3(t, 1, "c0")
		rho := big * gen.F(t, 0.12, 0.5, "rho")
		gap := big * gen.F(t, 0.05, 2.6+c.Extra, "gap")
		d := gen.Dir3(t, "dir").Unit()
		c.Tree = &gen.Node{Op: "join", Kids: []*gen.Node{
			{Op: "prim", Shape: &gen.Shape3{Kind: "sphere", A: ctr, R: R}},
			{Op: "prim", Shape: &gen.Shape3{Kind: "sphere", A: ctr.Add(d.Scale(R + gap + rho)), R: rho}},
		}}
	case "far-satellite":
		// the class that measures the AMOUNT of dilation: a satellite the coarse lattice cannot see, at a distance from
		// the large ball between half of the built-in dilation (sqrt(3) coarse spacings) and what (P) still allows
		// (about 2.4), meshed with a fine lattice several times finer than the coarse one, so that the leaf blocks of
		// the filtered mesher (4-5 fine cells across) are small against the dilation and a block holding the satellite
		// is reached by the dilated coarse mesh only because of the second half of the dilation
		c.K = gen.F(t, 3, 5, "kfar")
		big = c.K * c.Delta
		if rapid.Bool().Draw(t, "farextra") {
			// ... and the caller's extraSpace: a satellite further out than the built-in dilation alone reaches
			c.Extra = gen.F(t, 1.2, 3, "extrafar")
		}
		R := big * gen.F(t, 2.5, 3.5, "R")
		ctr := gen.Vec3(t, 1, "c0")
		rho := big * gen.F(t, 0.12, 0.3, "rho")
		gap := big * (c.Extra + gen.F(t, 1.75, 2.45, "gapfar"))
		d := gen.Dir3(t, "dir").Unit()
		c.Tree = &gen.Node{Op: "join", Kids: []*gen.Node{
			{Op: "prim", Shape: &gen.Shape3{Kind: "sphere", A: ctr, R: R}},
			{Op: "prim", Shape: &gen.Shape3{Kind: "sphere", A: ctr.Add(d.Scale(R + gap + rho)), R: rho}},
		}}
	default:
		// arbitrary trees at a spacing that makes the coarse lattice about as fine as the features: (P) decides
		c.Tree = gen.NodeGen(t, 3, 4, false, "tree")
		c.Delta = gen.LogF(t, 0.04, 0.12, "delta2")
		c.K = gen.F(t, 1, 2, "k2")
	}
	c.Procs = pickProcs(t, rapid.IntRange(1, 3).Draw(t, "nprocs"))
	return c
}

// grid3 is an observed sampling lattice with its classification.
type grid3 struct {
	ax  [3][]float64
	val []bool
}

func (g *grid3) at(i, j, k int) bool { return g.val[i+len(g.ax[0])*(j+len(g.ax[1])*k)] }

// rec3 records every query of a solid (append under a mutex: the shared map recorder of package gen is too slow
// for lattices of 10^5 points).
type rec3 struct {
	model3d.Solid
	mu  sync.Mutex
	pts []kit.V3
	val []bool
}

func (r *rec3) Contains(c model3d.Coord3D) bool {
	b := r.Solid.Contains(c)
	r.mu.Lock()
	r.pts = append(r.pts, kit.V3{c.X, c.Y, c.Z})
	r.val = append(r.val, b)
	r.mu.Unlock()
	return b
}

func uniqueSorted(xs []float64) []float64 {
	sort.Float64s(xs)
	out := xs[:0]
	for i, x := range xs {
		if i == 0 || x != xs[i-1] {
			out = append(out, x)
		}
	}
	return out
}

func indexOf(vals []float64, x float64) int {
	i := sort.SearchFloat64s(vals, x)
	if i < len(vals) && vals[i] == x {
		return i
	}
	return -1
}

// observe3 runs the plain mesher on a recording wrapper and returns the lattice it sampled.
func observe3(solid model3d.Solid, delta float64) (*grid3, error) {
	rec := &rec3{Solid: solid}
	model3d.MarchingCubes(rec, delta)
	g := &grid3{}
	for a := 0; a < 3; a++ {
		xs := make([]float64, len(rec.pts))
		for i, p := range rec.pts {
			xs[i] = p[a]
		}
		g.ax[a] = uniqueSorted(xs)
	}
	n := len(g.ax[0]) * len(g.ax[1]) * len(g.ax[2])
	g.val = make([]bool, n)
	seen := make([]bool, n)
	count := 0
	for i, p := range rec.pts {
		idx := indexOf(g.ax[0], p[0]) + len(g.ax[0])*(indexOf(g.ax[1], p[1])+len(g.ax[1])*indexOf(g.ax[2], p[2]))
		if !seen[idx] {
			seen[idx] = true
			count++
		}
		g.val[idx] = rec.val[i]
	}
	if count != n {
		return nil, fmt.Errorf("%w: observed lattice is not a product grid (%d points on %d x %d x %d axes)", kit.ErrInfra, count, len(g.ax[0]), len(g.ax[1]), len(g.ax[2]))
	}
	return g, nil
}

// covered reports whether every point of the lattice g occurs among the recorded queries.
func (g *grid3) covered(pts []kit.V3) bool {
	n := len(g.ax[0]) * len(g.ax[1]) * len(g.ax[2])
	seen := make([]bool, n)
	count := 0
	for _, p := range pts {
		i, j, k := indexOf(g.ax[0], p[0]), indexOf(g.ax[1], p[1]), indexOf(g.ax[2], p[2])
		if i < 0 || j < 0 || k < 0 {
			continue
		}
		if idx := i + len(g.ax[0])*(j+len(g.ax[1])*k); !seen[idx] {
			seen[idx] = true
			count++
		}
	}
	return count == n
}

// window returns the index range [i0, i1] of axis values inside [lo, hi] (empty if i0 > i1).
func window(vals []float64, lo, hi float64) (int, int) {
	i0 := sort.SearchFloat64s(vals, lo)
	i1 := sort.Search(len(vals), func(i int) bool { return vals[i] > hi }) - 1
	return i0, i1
}

// coarseEdgeNear reports whether a whole sign-changing edge of the coarse lattice lies inside the box [lo, hi].
func (g *grid3) edgeInside(lo, hi kit.V3) bool {
	var r0, r1 [3]int
	for a := 0; a < 3; a++ {
		r0[a], r1[a] = window(g.ax[a], lo[a], hi[a])
		if r0[a] > r1[a] {
			return false
		}
	}
	for k := r0[2]; k <= r1[2]; k++ {
		for j := r0[1]; j <= r1[1]; j++ {
			for i := r0[0]; i <= r1[0]; i++ {
				v := g.at(i, j, k)
				if i < r1[0] && g.at(i+1, j, k) != v {
					return true
				}
				if j < r1[1] && g.at(i, j+1, k) != v {
					return true
				}
				if k < r1[2] && g.at(i, j, k+1) != v {
					return true
				}
			}
		}
	}
	return false
}

// preconditionP3 evaluates (P); it returns the number of sign-changing fine cells and the first one that has no
// coarse edge nearby.
func preconditionP3(fine, coarse *grid3, d float64) (active int, bad *[2]kit.V3) {
	for k := 0; k+1 < len(fine.ax[2]); k++ {
		for j := 0; j+1 < len(fine.ax[1]); j++ {
			for i := 0; i+1 < len(fine.ax[0]); i++ {
				first := fine.at(i, j, k)
				mixed := false
				for c := 1; c < 8 && !mixed; c++ {
					mixed = fine.at(i+c&1, j+c>>1&1, k+c>>2&1) != first
				}
				if !mixed {
					continue
				}
				active++
				lo := kit.V3{fine.ax[0][i] - d, fine.ax[1][j] - d, fine.ax[2][k] - d}
				hi := kit.V3{fine.ax[0][i+1] + d, fine.ax[1][j+1] + d, fine.ax[2][k+1] + d}
				if bad == nil && !coarse.edgeInside(lo, hi) {
					bad = &[2]kit.V3{{fine.ax[0][i], fine.ax[1][j], fine.ax[2][k]}, {fine.ax[0][i+1], fine.ax[1][j+1], fine.ax[2][k+1]}}
				}
			}
		}
	}
	return
}

func checkC2F(c c2fCase, o *kit.Obs) error {
	solid := c.Tree.Build()
	if !model3d.BoundsValid(solid) {
		o.Skip("invalid-bounds")
		return nil
	}
	big := c.K * c.Delta
	extra := c.Extra * big
	size := solid.Max().Sub(solid.Min())
	if !validDelta(size.MaxCoord()) {
		o.Skip("empty-bounds")
		return nil
	}
	if n := (size.X/c.Delta + 3) * (size.Y/c.Delta + 3) * (size.Z/c.Delta + 3); n > 250000 {
		o.Skip("lattice-too-large")
		return nil
	}
	o.Label("class:" + c.Class)
	fine, err := observe3(solid, c.Delta)
	if err != nil {
		return err
	}
	coarse, err := observe3(solid, big)
	if err != nil {
		return err
	}
	d := (extra + 2*math.Sqrt(3)*big) * (1 - 1e-9)
	active, bad := preconditionP3(fine, coarse, d)
	if bad != nil {
		o.Skip("coarse-pass-misses-a-feature")
		return nil
	}
	// how tight was it?  (classification only: would (P) still hold with half the built-in dilation?)
	tight := false
	if _, b := preconditionP3(fine, coarse, (extra+math.Sqrt(3)*big)*(1-1e-9)); b != nil {
		o.Label("needs-more-than-half-the-dilation")
		tight = true
	}
	var ref []kit.Tri
	withProcs(1, func() { ref = canonTris(m3.Tris(model3d.MarchingCubesSearch(solid, c.Delta, c.Iters))) })
	for i, p := range c.Procs {
		var got []kit.Tri
		var rec *rec3
		withProcs(p, func() {
			var s model3d.Solid = solid
			if i == 0 {
				rec = &rec3{Solid: solid}
				s = rec
			}
			got = canonTris(m3.Tris(model3d.MarchingCubesC2F(s, big, c.Delta, extra, c.Iters)))
		})
		if df := diffTris(ref, got); df != "" {
			return fmt.Errorf("MarchingCubesC2F(bigDelta=%v, smallDelta=%v, extraSpace=%v, iters=%d) at GOMAXPROCS=%d differs from MarchingCubesSearch(delta=%v, iters=%d) although every sign-changing fine cell has a sign-changing coarse lattice edge within %v (L-infinity): %s", big, c.Delta, extra, c.Iters, p, c.Delta, c.Iters, d, df)
		}
		o.Labelf("procs:%d", p)
		if rec != nil && active > 0 {
			// non-trivial: the coarse filter really skipped part of the fine lattice
			if !fine.covered(rec.pts) {
				o.NonTrivial()
				o.Label("fine-lattice-partly-skipped")
			}
		}
	}
	if active == 0 {
		o.Label("empty-mesh")
	} else if tight {
		o.NonTrivial() // the case depends on the amount of dilation, whether or not anything was skipped
	}
	return nil
}

// ---------------------------------------------------------------------------
// 2D

type c2f2Case struct {
	Class string     `json:"class"`
	Tree  *gen.Node2 `json:"tree"`
	Delta float64    `json:"delta"`
	K     float64    `json:"k"`
	Extra float64    `json:"extra"`
	Iters int        `json:"iters"`
	Procs []int      `json:"procs"`
}

func featureSolid2(t *rapid.T, big, rmax float64) *gen.Node2 {
	n := rapid.IntRange(1, 4).Draw(t, "nparts")
	root := &gen.Node2{Op: "join"}
	var centres []kit.V2
	var radii []float64
	for i := 0; i < n; i++ {
		r := big * gen.F(t, math.Max(2.5, rmax/2), rmax, "r")
		var c kit.V2
		if i == 0 {
			c = gen.Vec2(t, 1, "c0")
		} else {
			j := rapid.IntRange(0, i-1).Draw(t, "anchor")
			d := gen.Dir2(t, "dir").Unit()
			if rapid.IntRange(0, 3).Draw(t, "apart") == 0 {
				c = centres[j].Add(d.Scale(radii[j] + r + big*gen.F(t, 3, 16, "gap")))
			} else {
				c = centres[j].Add(d.Scale(gen.F(t, 0.2, 0.75, "overlap") * math.Min(radii[j], r)))
			}
		}
		centres, radii = append(centres, c), append(radii, r)
		var s gen.Shape2
		switch rapid.SampledFrom([]string{"circle", "capsule", "rect"}).Draw(t, "kind") {
		case "circle":
			s = gen.Shape2{Kind: "circle", A: c, R: r}
		case "capsule":
			h := gen.Dir2(t, "axis").Unit().Scale(big * gen.F(t, 0.3, 2.5, "halflen"))
			s = gen.Shape2{Kind: "capsule", A: c.Add(h), B: c.Sub(h), R: r}
		default:
			h := kit.V2{r * gen.F(t, 0.55, 1, "hx"), r * gen.F(t, 0.55, 1, "hy")}
			s = gen.Shape2{Kind: "rect", A: c.Sub(h), B: c.Add(h)}
		}
		root.Kids = append(root.Kids, &gen.Node2{Op: "prim", Shape: &s})
	}
	return root
}

func genC2F2(t *rapid.T) c2f2Case {
	rmax := gen.F(t, 3, 24, "rmax")
	c := c2f2Case{Delta: gen.LogF(t, 0.01, 0.3, "delta"), K: gen.F(t, 1, math.Min(4, 80/rmax), "k"), Iters: rapid.IntRange(0, 5).Draw(t, "iters")}
	if rapid.IntRange(0, 2).Draw(t, "hasextra") == 0 {
		c.Extra = gen.F(t, 0, 1.5, "extra")
	}
	big := c.K * c.Delta
	c.Class = rapid.SampledFrom([]string{"feature", "feature", "satellite", "far-satellite", "far-satellite", "csg"}).Draw(t, "class")
	switch c.Class {
	case "feature":
		c.Tree = featureSolid2(t, big, rmax)
	case "satellite":
		R := big * gen.F(t, math.Max(2.5, rmax/2), rmax, "R")
		ctr := gen.Vec2(t, 1, "c0")
		rho := big * gen.F(t, 0.12, 0.5, "rho")
		gap := big * gen.F(t, 0.05, 2.6+c.Extra, "gap")
		d := gen.Dir2(t, "dir").Unit()
		c.Tree = &gen.Node2{Op: "join", Kids: []*gen.Node2{
			{Op: "prim", Shape: &gen.Shape2{Kind: "circle", A: ctr, R: R}},
			{Op: "prim", Shape: &gen.Shape2{Kind: "circle", A: ctr.Add(d.Scale(R + gap + rho)), R: rho}},
		}}
	case "far-satellite":
		// see genC2F; the 2D leaf blocks are 8-11 fine cells across, hence the larger coarse factor
		c.K = gen.F(t, 4, 8, "kfar")
		big = c.K * c.Delta
		if rapid.Bool().Draw(t, "farextra") {
			c.Extra = gen.F(t, 1.2, 3, "extrafar")
		}
		R := big * gen.F(t, 2.5, 4, "R")
		ctr := gen.Vec2(t, 1, "c0")
		rho := big * gen.F(t, 0.1, 0.3, "rho")
		gap := big * (c.Extra + gen.F(t, 1.75, 2.45, "gapfar"))
		d := gen.Dir2(t, "dir").Unit()
		c.Tree = &gen.Node2{Op: "join", Kids: []*gen.Node2{
			{Op: "prim", Shape: &gen.Shape2{Kind: "circle", A: ctr, R: R}},
			{Op: "prim", Shape: &gen.Shape2{Kind: "circle", A: ctr.Add(d.Scale(R + gap + rho)), R: rho}},
		}}
	default:
		c.Tree = gen.Node2Gen(t, 3, 4, "tree")
		c.Delta = gen.LogF(t, 0.01, 0.1, "delta2")
		c.K = gen.F(t, 1, 2.5, "k2")
	}
	c.Procs = pickProcs(t, rapid.IntRange(1, 3).Draw(t, "nprocs"))
	return c
}

type grid2 struct {
	ax  [2][]float64
	val []bool
}

func (g *grid2) at(i, j int) bool { return g.val[i+len(g.ax[0])*j] }

func observe2(solid model2d.Solid, delta float64) (*grid2, error) {
	rec := gen.NewRecorder2(solid)
	model2d.MarchingSquares(rec, delta)
	g := &grid2{}
	for a := 0; a < 2; a++ {
		seen := map[float64]bool{}
		for p := range rec.Points {
			if !seen[p[a]] {
				seen[p[a]] = true
				g.ax[a] = append(g.ax[a], p[a])
			}
		}
		sort.Float64s(g.ax[a])
	}
	if len(rec.Points) != len(g.ax[0])*len(g.ax[1]) {
		return nil, fmt.Errorf("%w: observed lattice is not a product grid", kit.ErrInfra)
	}
	g.val = make([]bool, len(rec.Points))
	for j, y := range g.ax[1] {
		for i, x := range g.ax[0] {
			g.val[i+len(g.ax[0])*j] = rec.Points[kit.V2{x, y}]
		}
	}
	return g, nil
}

func (g *grid2) edgeInside(lo, hi kit.V2) bool {
	var r0, r1 [2]int
	for a := 0; a < 2; a++ {
		r0[a], r1[a] = window(g.ax[a], lo[a], hi[a])
		if r0[a] > r1[a] {
			return false
		}
	}
	for j := r0[1]; j <= r1[1]; j++ {
		for i := r0[0]; i <= r1[0]; i++ {
			v := g.at(i, j)
			if i < r1[0] && g.at(i+1, j) != v {
				return true
			}
			if j < r1[1] && g.at(i, j+1) != v {
				return true
			}
		}
	}
	return false
}

func preconditionP2(fine, coarse *grid2, d float64) (active int, bad bool) {
	for j := 0; j+1 < len(fine.ax[1]); j++ {
		for i := 0; i+1 < len(fine.ax[0]); i++ {
			a, b, c, e := fine.at(i, j), fine.at(i+1, j), fine.at(i, j+1), fine.at(i+1, j+1)
			if a == b && a == c && a == e {
				continue
			}
			active++
			lo := kit.V2{fine.ax[0][i] - d, fine.ax[1][j] - d}
			hi := kit.V2{fine.ax[0][i+1] + d, fine.ax[1][j+1] + d}
			if !bad && !coarse.edgeInside(lo, hi) {
				bad = true
			}
		}
	}
	return
}

func checkC2F2(c c2f2Case, o *kit.Obs) error {
	solid := c.Tree.Build()
	if !model2d.BoundsValid(solid) {
		o.Skip("invalid-bounds")
		return nil
	}
	big := c.K * c.Delta
	extra := c.Extra * big
	size := solid.Max().Sub(solid.Min())
	if !validDelta(size.MaxCoord()) {
		o.Skip("empty-bounds")
		return nil
	}
	if n := (size.X/c.Delta + 3) * (size.Y/c.Delta + 3); n > 250000 {
		o.Skip("lattice-too-large")
		return nil
	}
	o.Label("class:" + c.Class)
	fine, err := observe2(solid, c.Delta)
	if err != nil {
		return err
	}
	coarse, err := observe2(solid, big)
	if err != nil {
		return err
	}
	// the 2D function also adds 2*sqrt(3)*bigDelta (more than the 2*sqrt(2) the 2D argument needs)
	d := (extra + 2*math.Sqrt(3)*big) * (1 - 1e-9)
	active, bad := preconditionP2(fine, coarse, d)
	if bad {
		o.Skip("coarse-pass-misses-a-feature")
		return nil
	}
	tight := false
	if _, b := preconditionP2(fine, coarse, (extra+math.Sqrt(3)*big)*(1-1e-9)); b {
		o.Label("needs-more-than-half-the-dilation")
		tight = true
	}
	var ref []kit.Seg
	withProcs(1, func() { ref = canonSegs(m3.Segs(model2d.MarchingSquaresSearch(solid, c.Delta, c.Iters))) })
	for i, p := range c.Procs {
		var got []kit.Seg
		var rec *gen.Recorder2
		withProcs(p, func() {
			var s model2d.Solid = solid
			if i == 0 {
				rec = gen.NewRecorder2(solid)
				s = rec
			}
			got = canonSegs(m3.Segs(model2d.MarchingSquaresC2F(s, big, c.Delta, extra, c.Iters)))
		})
		if df := diffSegs(ref, got); df != "" {
			return fmt.Errorf("MarchingSquaresC2F(bigDelta=%v, smallDelta=%v, extraSpace=%v, iters=%d) at GOMAXPROCS=%d differs from MarchingSquaresSearch(delta=%v, iters=%d) although every sign-changing fine cell has a sign-changing coarse lattice edge within %v (L-infinity): %s", big, c.Delta, extra, c.Iters, p, c.Delta, c.Iters, d, df)
		}
		o.Labelf("procs:%d", p)
		if rec != nil && active > 0 {
			skipped := false
			for _, y := range fine.ax[1] {
				for _, x := range fine.ax[0] {
					if _, ok := rec.Points[kit.V2{x, y}]; !ok {
						skipped = true
					}
				}
			}
			if skipped {
				o.NonTrivial()
				o.Label("fine-lattice-partly-skipped")
			}
		}
	}
	if active == 0 {
		o.Label("empty-mesh")
	} else if tight {
		o.NonTrivial() // the case depends on the amount of dilation, whether or not anything was skipped
	}
	return nil
}
