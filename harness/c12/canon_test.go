package c12

import (
	"fmt"
	"math"
	"runtime"
	"sort"

	"verifharness/kit"
)

// ---------------------------------------------------------------------------
// canonical face multisets
//
// A face is a cyclically ordered vertex triple (orientation matters, the starting vertex does not), so it is
// rotated until its lexicographically smallest vertex comes first.  Coordinates are compared exactly; -0 is
// folded into +0 because the property speaks about the set of faces under Go's == on coordinates (the library's
// own vertex identity) and that does not separate the two zeros.  NaN never equals anything, so a NaN vertex
// makes every comparison fail, which is what we want.

func fold(x float64) float64 {
	if x == 0 {
		return 0
	}
	return x
}

func key3(v kit.V3) [3]uint64 {
	return [3]uint64{math.Float64bits(fold(v[0])), math.Float64bits(fold(v[1])), math.Float64bits(fold(v[2]))}
}

func less3(a, b kit.V3) bool {
	for k := 0; k < 3; k++ {
		x, y := fold(a[k]), fold(b[k])
		if x != y {
			return x < y
		}
	}
	return false
}

func canonTri(t kit.Tri) kit.Tri {
	m := 0
	for k := 1; k < 3; k++ {
		if less3(t[k], t[m]) {
			m = k
		}
	}
	return kit.Tri{t[m], t[(m+1)%3], t[(m+2)%3]}
}

func triLess(a, b kit.Tri) bool {
	for k := 0; k < 3; k++ {
		if key3(a[k]) != key3(b[k]) {
			return less3(a[k], b[k])
		}
	}
	return false
}

func triEq(a, b kit.Tri) bool {
	return key3(a[0]) == key3(b[0]) && key3(a[1]) == key3(b[1]) && key3(a[2]) == key3(b[2])
}

// canonTris returns the sorted canonical multiset.
func canonTris(ts []kit.Tri) []kit.Tri {
	out := make([]kit.Tri, len(ts))
	for i, t := range ts {
		out[i] = canonTri(t)
	}
	sort.Slice(out, func(i, j int) bool { return triLess(out[i], out[j]) })
	return out
}

// diffTris compares two canonical multisets; "" means identical.
func diffTris(ref, got []kit.Tri) string {
	i, j := 0, 0
	missing, extra := 0, 0
	var firstMissing, firstExtra *kit.Tri
	for i < len(ref) || j < len(got) {
		switch {
		case j >= len(got) || (i < len(ref) && triLess(ref[i], got[j])):
			if firstMissing == nil {
				firstMissing = &ref[i]
			}
			missing++
			i++
		case i >= len(ref) || triLess(got[j], ref[i]):
			if firstExtra == nil {
				firstExtra = &got[j]
			}
			extra++
			j++
		default:
			if !triEq(ref[i], got[j]) { // NaN: unordered
				return fmt.Sprintf("faces %v and %v are unordered (NaN coordinate)", ref[i], got[j])
			}
			i++
			j++
		}
	}
	if missing == 0 && extra == 0 {
		return ""
	}
	s := fmt.Sprintf("%d faces vs %d in the reference; %d reference faces are missing, %d faces are extra", len(got), len(ref), missing, extra)
	if firstMissing != nil {
		s += fmt.Sprintf("; first missing %v", *firstMissing)
	}
	if firstExtra != nil {
		s += fmt.Sprintf("; first extra %v", *firstExtra)
	}
	return s
}

// ---- 2D: a segment is an ordered pair (the order carries the orientation)

func key2(v kit.V2) [2]uint64 {
	return [2]uint64{math.Float64bits(fold(v[0])), math.Float64bits(fold(v[1]))}
}

func less2(a, b kit.V2) bool {
	for k := 0; k < 2; k++ {
		x, y := fold(a[k]), fold(b[k])
		if x != y {
			return x < y
		}
	}
	return false
}

func segLess(a, b kit.Seg) bool {
	for k := 0; k < 2; k++ {
		if key2(a[k]) != key2(b[k]) {
			return less2(a[k], b[k])
		}
	}
	return false
}

func segEq(a, b kit.Seg) bool { return key2(a[0]) == key2(b[0]) && key2(a[1]) == key2(b[1]) }

func canonSegs(ss []kit.Seg) []kit.Seg {
	out := append([]kit.Seg(nil), ss...)
	sort.Slice(out, func(i, j int) bool { return segLess(out[i], out[j]) })
	return out
}

func diffSegs(ref, got []kit.Seg) string {
	i, j := 0, 0
	missing, extra := 0, 0
	var firstMissing, firstExtra *kit.Seg
	for i < len(ref) || j < len(got) {
		switch {
		case j >= len(got) || (i < len(ref) && segLess(ref[i], got[j])):
			if firstMissing == nil {
				firstMissing = &ref[i]
			}
			missing++
			i++
		case i >= len(ref) || segLess(got[j], ref[i]):
			if firstExtra == nil {
				firstExtra = &got[j]
			}
			extra++
			j++
		default:
			if !segEq(ref[i], got[j]) {
				return fmt.Sprintf("segments %v and %v are unordered (NaN coordinate)", ref[i], got[j])
			}
			i++
			j++
		}
	}
	if missing == 0 && extra == 0 {
		return ""
	}
	s := fmt.Sprintf("%d segments vs %d in the reference; %d reference segments are missing, %d are extra", len(got), len(ref), missing, extra)
	if firstMissing != nil {
		s += fmt.Sprintf("; first missing %v", *firstMissing)
	}
	if firstExtra != nil {
		s += fmt.Sprintf("; first extra %v", *firstExtra)
	}
	return s
}

// ---- point multisets (dual contouring interior points)

func canonPts(ps []kit.V3) []kit.V3 {
	out := append([]kit.V3(nil), ps...)
	sort.Slice(out, func(i, j int) bool { return less3(out[i], out[j]) })
	return out
}

func diffPts(ref, got []kit.V3) string {
	if len(ref) != len(got) {
		return fmt.Sprintf("%d points vs %d in the reference", len(got), len(ref))
	}
	for i := range ref {
		if key3(ref[i]) != key3(got[i]) {
			return fmt.Sprintf("sorted point %d is %v, reference has %v", i, got[i], ref[i])
		}
	}
	return ""
}

// ---------------------------------------------------------------------------

// withProcs runs f with GOMAXPROCS set to n and restores the previous value.
func withProcs(n int, f func()) {
	old := runtime.GOMAXPROCS(n)
	defer runtime.GOMAXPROCS(old)
	f()
}

// allProcs are the worker counts of the design.
var allProcs = []int{1, 2, 3, 5, 8, 16}

// hash01 is a deterministic hash of a box to [0,1) (for the "noisy" conservative filters: an exact predicate OR-ed
// with arbitrary extra acceptances).
func hash01(salt uint64, xs ...float64) float64 {
	h := salt*0x9e3779b97f4a7c15 + 0x1234567
	for _, x := range xs {
		h ^= math.Float64bits(x)
		h *= 0xbf58476d1ce4e5b9
		h ^= h >> 29
	}
	h *= 0x94d049bb133111eb
	h ^= h >> 31
	return float64(h>>11) / (1 << 53)
}
