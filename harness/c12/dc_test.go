package c12

import (
	"fmt"

	"github.com/unixpickle/model3d/model3d"
	"pgregory.net/rapid"
	"verifharness/gen"
	"verifharness/kit"
	"verifharness/m3"
)

// ---------------------------------------------------------------------------
// dual contouring: MaxGos x BufferSize x GOMAXPROCS

type dcCfg struct {
	Procs  int `json:"procs"`  // GOMAXPROCS (matters when MaxGos = 0)
	MaxGos int `json:"maxgos"` // 0 1 2 7
	Rows   int `json:"rows"`   // BufferSize = nx*ny*Rows + Extra; 0: library default; -1: BufferSize 1 (below the minimum)
	Extra  int `json:"extra"`  // 0 <= Extra < nx*ny: buffer sizes that are not a whole number of rows
}

func (c dcCfg) String() string {
	return fmt.Sprintf("GOMAXPROCS=%d MaxGos=%d buffer rows=%d (+%d entries)", c.Procs, c.MaxGos, c.Rows, c.Extra)
}

type dcCase struct {
	Src      source3 `json:"src"`
	Cells    float64 `json:"cells"` // spacing = z-extent / cells (raised if the lattice would be too large)
	NoJitter bool    `json:"nojitter"`
	Clip     bool    `json:"clip"`
	Margin   float64 `json:"margin"`
	Mode     int     `json:"mode"`
	L2       float64 `json:"l2"`
	SVEps    float64 `json:"sveps"`
	Repair   bool    `json:"repair"`
	Interior bool    `json:"interior"`
	Cfgs     []dcCfg `json:"cfgs"`
}

func genDC(t *rapid.T) dcCase {
	c := dcCase{Src: genSource3(t, []string{"csg", "csg", "field", "lattice", "boxes"}), Cells: gen.F(t, 3, 14, "cells"),
		NoJitter: rapid.Bool().Draw(t, "nojitter"), Clip: rapid.IntRange(0, 3).Draw(t, "clip") > 0,
		Margin: rapid.SampledFrom([]float64{0, 0.01, 0.2}).Draw(t, "margin"), Mode: rapid.IntRange(0, 2).Draw(t, "mode"),
		L2: rapid.SampledFrom([]float64{0, 0.01, 1}).Draw(t, "l2"), SVEps: rapid.SampledFrom([]float64{0, 0.01, 0.5}).Draw(t, "sveps"),
		Repair: rapid.IntRange(0, 4).Draw(t, "repair") == 0, Interior: rapid.IntRange(0, 2).Draw(t, "interior") == 0}
	n := rapid.IntRange(5, 8).Draw(t, "ncfg")
	for i := 0; i < n; i++ {
		cfg := dcCfg{Procs: allProcs[gen.Int(t, 0, len(allProcs)-1, "procs")], MaxGos: []int{0, 1, 2, 7}[gen.Int(t, 0, 3, "maxgos")]}
		switch gen.Int(t, 0, 9, "rowskind") {
		case 0:
			cfg.Rows = 0
		case 1:
			cfg.Rows = -1
		case 2, 3, 4:
			cfg.Rows = 4
		case 5, 6:
			cfg.Rows = 5
		default:
			cfg.Rows = gen.Int(t, 6, 16, "rows")
		}
		if cfg.Rows > 0 && rapid.Bool().Draw(t, "ragged") {
			cfg.Extra = rapid.IntRange(1, 1<<20).Draw(t, "extra") // reduced modulo nx*ny in the check
		}
		c.Cfgs = append(c.Cfgs, cfg)
	}
	return c
}

type dcOut struct {
	tris     []kit.Tri
	interior []kit.V3
}

func (c dcCase) run(solid model3d.Solid, delta float64, cfg dcCfg, rowSize int) (out dcOut) {
	dc := &model3d.DualContouring{S: model3d.SolidSurfaceEstimator{Solid: solid}, Delta: delta, NoJitter: c.NoJitter, MaxGos: cfg.MaxGos,
		Clip: c.Clip, Repair: c.Repair, CubeMargin: c.Margin, TriangleMode: model3d.DualContouringTriangleMode(c.Mode), L2Penalty: c.L2, SingularValueEpsilon: c.SVEps}
	switch {
	case cfg.Rows < 0:
		dc.BufferSize = 1
	case cfg.Rows > 0:
		dc.BufferSize = rowSize*cfg.Rows + cfg.Extra%rowSize
	}
	withProcs(cfg.Procs, func() {
		var m *model3d.Mesh
		if c.Interior {
			var pts []model3d.Coord3D
			m, pts = dc.MeshInterior()
			for _, p := range pts {
				out.interior = append(out.interior, m3.V3(p))
			}
			out.interior = canonPts(out.interior)
		} else {
			m = dc.Mesh()
		}
		out.tris = canonTris(m3.Tris(m))
	})
	return
}

func checkDC(c dcCase, o *kit.Obs) error {
	solid := c.Src.Solid()
	if !model3d.BoundsValid(solid) {
		o.Skip("invalid-bounds")
		return nil
	}
	size := solid.Max().Sub(solid.Min())
	delta := size.Z / c.Cells
	switch c.Src.Kind {
	case "lattice":
		delta = 1
	case "boxes":
		delta = c.Src.Boxes.Delta
	default:
		// keep the lattice below about 12000 points
		for (size.X/delta+3)*(size.Y/delta+3)*(size.Z/delta+3) > 12000 {
			delta *= 1.25
		}
	}
	if !validDelta(delta) || !validDelta(size.MaxCoord()) {
		o.Skip("empty-bounds")
		return nil
	}
	o.Label("src:" + c.Src.Kind)
	xs, ys, zs := model3d.VerifDCLattice(solid.Min(), solid.Max(), delta, c.NoJitter)
	rowSize := len(xs) * len(ys)
	ref := c.run(solid, delta, dcCfg{Procs: 1, MaxGos: 1}, rowSize) // default buffer: the whole lattice in one window
	if c.Repair {
		o.Label("repair")
	}
	nontrivial := false
	for i, cfg := range append([]dcCfg{{Procs: 1, MaxGos: 1}}, c.Cfgs...) {
		got := c.run(solid, delta, cfg, rowSize)
		what := "the reference run (MaxGos=1, default BufferSize, GOMAXPROCS=1)"
		desc := fmt.Sprintf("configuration %d (%v; lattice %d x %d x %d, spacing %v)", i-1, cfg, len(xs), len(ys), len(zs), delta)
		if i == 0 {
			desc = "a repetition of the reference run"
		}
		if d := diffTris(ref.tris, got.tris); d != "" {
			return fmt.Errorf("%s differs from %s: %s", desc, what, d)
		}
		if d := diffPts(ref.interior, got.interior); d != "" {
			return fmt.Errorf("%s: interior points differ from %s: %s", desc, what, d)
		}
		if i == 0 {
			continue
		}
		// number of buffer windows (classification only)
		rows := 0
		switch {
		case cfg.Rows < 0:
			rows = 4
		case cfg.Rows == 0:
			rows = len(zs)
		default:
			rows = cfg.Rows
		}
		if rows > len(zs) {
			rows = len(zs)
		}
		if rows < 4 {
			rows = 4
		}
		windows := 1
		if rows < len(zs) {
			windows = 1 + (len(zs)-rows+rows-3)/(rows-2)
		}
		switch {
		case windows >= 3:
			o.Label("windows:>=3")
			nontrivial = true
		case windows == 2:
			o.Label("windows:2")
		default:
			o.Label("windows:1")
		}
		o.Labelf("maxgos:%d", cfg.MaxGos)
	}
	if len(ref.tris) == 0 {
		o.Label("empty-mesh")
	} else if nontrivial {
		o.NonTrivial()
	}
	return nil
}
