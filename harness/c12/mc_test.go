package c12

import (
	"fmt"
	"sync/atomic"

	"github.com/unixpickle/model3d/model2d"
	"github.com/unixpickle/model3d/model3d"
	"pgregory.net/rapid"
	"verifharness/gen"
	"verifharness/kit"
	"verifharness/m3"
)

// ---------------------------------------------------------------------------
// marching cubes / squares: worker counts x filters x repetitions

type mcCfg struct {
	Procs    int     `json:"procs"`
	Filter   string  `json:"filter"`             // "" (unfiltered API) | true | meets | dilated | noisy
	Margin   float64 `json:"margin,omitempty"`   // dilated: extra margin in units of the spacing
	Salt     uint64  `json:"salt,omitempty"`     // noisy: exact predicate OR hash(box, salt) < P
	P        float64 `json:"p,omitempty"`        //
	Interior bool    `json:"interior,omitempty"` // unfiltered only: MarchingCubesInterior
}

func (c mcCfg) String() string {
	f := c.Filter
	if f == "" {
		f = "unfiltered"
		if c.Interior {
			f = "interior"
		}
	}
	return fmt.Sprintf("GOMAXPROCS=%d filter=%s margin=%g p=%g", c.Procs, f, c.Margin, c.P)
}

func genCfgs(t *rapid.T, n int) []mcCfg {
	var out []mcCfg
	for i := 0; i < n; i++ {
		c := mcCfg{Procs: rapid.SampledFrom(allProcs).Draw(t, "procs")}
		c.Filter = rapid.SampledFrom([]string{"", "true", "meets", "meets", "dilated", "noisy"}).Draw(t, "filter")
		switch c.Filter {
		case "":
			c.Interior = rapid.IntRange(0, 3).Draw(t, "interior") == 0
		case "dilated":
			c.Margin = gen.LogF(t, 1e-3, 3, "margin")
		case "noisy":
			c.Salt = rapid.Uint64Range(0, 1<<20).Draw(t, "salt")
			c.P = gen.F(t, 0.05, 0.7, "p")
		}
		out = append(out, c)
	}
	return out
}

type filterStats struct{ calls, skipped int64 }

func (c mcCfg) filter3(meets func(lo, hi kit.V3, margin float64) bool, delta float64, st *filterStats) func(*model3d.Rect) bool {
	return func(r *model3d.Rect) bool {
		lo, hi := m3.V3(r.MinVal), m3.V3(r.MaxVal)
		var ok bool
		switch c.Filter {
		case "true":
			ok = true
		case "meets":
			ok = meets(lo, hi, 0)
		case "dilated":
			ok = meets(lo, hi, c.Margin*delta)
		case "noisy":
			ok = meets(lo, hi, 0) || hash01(c.Salt, lo[0], lo[1], lo[2], hi[0], hi[1], hi[2]) < c.P
		default:
			panic("unknown filter " + c.Filter)
		}
		atomic.AddInt64(&st.calls, 1)
		if !ok {
			atomic.AddInt64(&st.skipped, 1)
		}
		return ok
	}
}

func (c mcCfg) filter2(meets func(lo, hi kit.V2, margin float64) bool, delta float64, st *filterStats) func(*model2d.Rect) bool {
	return func(r *model2d.Rect) bool {
		lo, hi := m3.V2(r.MinVal), m3.V2(r.MaxVal)
		var ok bool
		switch c.Filter {
		case "true":
			ok = true
		case "meets":
			ok = meets(lo, hi, 0)
		case "dilated":
			ok = meets(lo, hi, c.Margin*delta)
		case "noisy":
			ok = meets(lo, hi, 0) || hash01(c.Salt, lo[0], lo[1], hi[0], hi[1]) < c.P
		default:
			panic("unknown filter " + c.Filter)
		}
		atomic.AddInt64(&st.calls, 1)
		if !ok {
			atomic.AddInt64(&st.skipped, 1)
		}
		return ok
	}
}

type mcCase struct {
	Src   source3 `json:"src"`
	Cells float64 `json:"cells"`
	Iters int     `json:"iters"`
	Cfgs  []mcCfg `json:"cfgs"`
}

func genMC(t *rapid.T) mcCase {
	c := mcCase{Src: genSource3(t, []string{"csg", "csg", "field", "lattice", "boxes", "boxes"}), Cells: gen.F(t, 3, 22, "cells")}
	if rapid.Bool().Draw(t, "search") {
		c.Iters = rapid.IntRange(1, 6).Draw(t, "iters")
	}
	c.Cfgs = genCfgs(t, rapid.IntRange(6, 10).Draw(t, "ncfg"))
	if rapid.IntRange(0, 19).Draw(t, "large") == 0 {
		// more than 64^3 cells: the 3D filtered mesher's workers then subdivide the queued blocks again
		c.Src = genSource3(t, []string{"csg"})
		c.Cells = gen.F(t, 68, 90, "largecells")
		c.Cfgs = genCfgs(t, 3)
		if c.Iters > 2 {
			c.Iters = 2
		}
	}
	return c
}

func runMC(solid model3d.Solid, delta float64, iters int, c mcCfg, meets func(lo, hi kit.V3, margin float64) bool, st *filterStats) (tris []kit.Tri) {
	withProcs(c.Procs, func() {
		var m *model3d.Mesh
		switch {
		case c.Filter == "" && c.Interior:
			m, _ = model3d.MarchingCubesInterior(solid, delta, iters)
		case c.Filter == "" && iters == 0:
			m = model3d.MarchingCubes(solid, delta)
		case c.Filter == "":
			m = model3d.MarchingCubesSearch(solid, delta, iters)
		case iters == 0:
			m = model3d.MarchingCubesFilter(solid, c.filter3(meets, delta, st), delta)
		default:
			m = model3d.MarchingCubesSearchFilter(solid, c.filter3(meets, delta, st), delta, iters)
		}
		tris = m3.Tris(m)
	})
	return
}

func checkMC(c mcCase, o *kit.Obs) error {
	solid := c.Src.Solid()
	if !model3d.BoundsValid(solid) {
		o.Skip("invalid-bounds") // documented panic (empty intersections)
		return nil
	}
	delta := c.Src.spacing(solid, c.Cells)
	if !validDelta(delta) {
		o.Skip("empty-bounds")
		return nil
	}
	o.Label("src:" + c.Src.Kind)
	meets := c.Src.meets3()
	ref := canonTris(runMC(solid, delta, c.Iters, mcCfg{Procs: 1}, nil, nil))
	size := solid.Max().Sub(solid.Min())
	slabs := int(size.Z/delta) + 2
	nontrivial := false
	for i, cfg := range append([]mcCfg{{Procs: 1}}, c.Cfgs...) { // the first entry repeats the reference run
		var st filterStats
		got := canonTris(runMC(solid, delta, c.Iters, cfg, meets, &st))
		if d := diffTris(ref, got); d != "" {
			what := "the reference run (GOMAXPROCS=1, unfiltered)"
			if i == 0 {
				return fmt.Errorf("repeating %s gave a different mesh: %s", what, d)
			}
			return fmt.Errorf("configuration %d (%v; filter called %d times, rejected %d boxes) differs from %s at spacing %v, %d search iterations: %s", i-1, cfg, st.calls, st.skipped, what, delta, c.Iters, d)
		}
		if i == 0 {
			continue
		}
		o.Labelf("procs:%d", cfg.Procs)
		if cfg.Filter == "" {
			o.Label("filter:none")
			if slabs >= 3 {
				nontrivial = true
			}
		} else {
			o.Label("filter:" + cfg.Filter)
			if st.skipped > 0 {
				o.Label("filter-skipped-a-region")
				nontrivial = true
			}
			if st.calls >= 5 { // a binary split tree with >= 3 leaves has >= 5 nodes
				nontrivial = true
			}
		}
	}
	if len(ref) == 0 {
		o.Label("empty-mesh")
	} else if nontrivial {
		o.NonTrivial()
	}
	if slabs <= 3 {
		o.Label("flat(<=3 slabs)")
	}
	return nil
}

// ---- 2D

type msCase struct {
	Src   source2 `json:"src"`
	Cells float64 `json:"cells"`
	Iters int     `json:"iters"`
	Cfgs  []mcCfg `json:"cfgs"`
}

func genMS(t *rapid.T) msCase {
	c := msCase{Src: genSource2(t, []string{"csg", "csg", "field", "lattice", "boxes", "boxes"}), Cells: gen.LogF(t, 4, 150, "cells")}
	if rapid.Bool().Draw(t, "search") {
		c.Iters = rapid.IntRange(1, 6).Draw(t, "iters")
	}
	c.Cfgs = genCfgs(t, rapid.IntRange(6, 10).Draw(t, "ncfg"))
	if rapid.IntRange(0, 11).Draw(t, "large") == 0 {
		// a lattice large enough (> 512 x 512 cells) for the filtered mesher to subdivide the blocks it queues a
		// second time inside its workers: only then does the second level of its block recursion do anything
		c.Src = genSource2(t, []string{"csg"})
		c.Cells = gen.F(t, 540, 900, "largecells")
		c.Cfgs = genCfgs(t, 3)
		if c.Iters > 2 {
			c.Iters = 2
		}
	}
	for i := range c.Cfgs {
		c.Cfgs[i].Interior = false
	}
	return c
}

func runMS(solid model2d.Solid, delta float64, iters int, c mcCfg, meets func(lo, hi kit.V2, margin float64) bool, st *filterStats) (segs []kit.Seg) {
	withProcs(c.Procs, func() {
		var m *model2d.Mesh
		switch {
		case c.Filter == "" && iters == 0:
			m = model2d.MarchingSquares(solid, delta)
		case c.Filter == "":
			m = model2d.MarchingSquaresSearch(solid, delta, iters)
		case iters == 0:
			m = model2d.MarchingSquaresFilter(solid, c.filter2(meets, delta, st), delta)
		default:
			m = model2d.MarchingSquaresSearchFilter(solid, c.filter2(meets, delta, st), delta, iters)
		}
		segs = m3.Segs(m)
	})
	return
}

func checkMS(c msCase, o *kit.Obs) error {
	solid := c.Src.Solid()
	if !model2d.BoundsValid(solid) {
		o.Skip("invalid-bounds")
		return nil
	}
	delta := c.Src.spacing(solid, c.Cells)
	if !validDelta(delta) {
		o.Skip("empty-bounds")
		return nil
	}
	o.Label("src:" + c.Src.Kind)
	meets := c.Src.meets2()
	ref := canonSegs(runMS(solid, delta, c.Iters, mcCfg{Procs: 1}, nil, nil))
	nontrivial := false
	for i, cfg := range append([]mcCfg{{Procs: 1}}, c.Cfgs...) {
		var st filterStats
		got := canonSegs(runMS(solid, delta, c.Iters, cfg, meets, &st))
		if d := diffSegs(ref, got); d != "" {
			what := "the reference run (GOMAXPROCS=1, unfiltered)"
			if i == 0 {
				return fmt.Errorf("repeating %s gave a different mesh: %s", what, d)
			}
			return fmt.Errorf("configuration %d (%v; filter called %d times, rejected %d boxes) differs from %s at spacing %v, %d search iterations: %s", i-1, cfg, st.calls, st.skipped, what, delta, c.Iters, d)
		}
		if i == 0 {
			continue
		}
		o.Labelf("procs:%d", cfg.Procs)
		if cfg.Filter == "" {
			o.Label("filter:none")
		} else {
			o.Label("filter:" + cfg.Filter)
			if st.skipped > 0 {
				o.Label("filter-skipped-a-region")
				nontrivial = true
			}
			if st.calls >= 5 {
				nontrivial = true
			}
		}
	}
	if len(ref) == 0 {
		o.Label("empty-mesh")
	} else if nontrivial {
		o.NonTrivial()
	}
	return nil
}
