package c12

import (
	"testing"

	"verifharness/kit"
)

const rule = "solids (CSG trees of primitives, trilinear random fields, lattice-defined solids, lattice-aligned box arrangements; feature-size-controlled unions and satellites at the edge of the dilation for coarse-to-fine) x spacing x search iterations, each meshed under a drawn list of configurations (GOMAXPROCS in {1,2,3,5,8,16} set in-process; conservative region filters: always-true, an independent exact/conservative 'boundary meets box' predicate, the same dilated by a random margin, the same OR-ed with random acceptances; coarse spacings k*delta; dual-contouring MaxGos in {0,1,2,7} x BufferSize from below the 4-row minimum upwards) and compared face-by-face (exact coordinates) with a GOMAXPROCS=1 unfiltered reference run, which is also repeated. Rasteriser: filtered / collider entry points against the unfiltered RasterizeSolid over scale, subsamples, line width and explicit bounds. Non-trivial: non-empty output and (>= 3 z-slabs / >= 3 leaf blocks / >= 3 buffer windows, or the filter rejected >= 1 region; coarse-to-fine: part of the fine lattice was never sampled, or the sufficient precondition fails with half of the built-in dilation). Distinct: hash of the JSON case."

func TestProp(t *testing.T) {
	kit.Run(t, "C12", rule,
		kit.Clause[mcCase]{Name: "C12/mc/configurations", Quick: 700, Thorough: 14000, Gen: genMC, Check: checkMC, Fresh: true},
		kit.Clause[msCase]{Name: "C12/ms/configurations", Quick: 1200, Thorough: 24000, Gen: genMS, Check: checkMS, Fresh: true},
		kit.Clause[c2fCase]{Name: "C12/mc/coarse-to-fine", Quick: 300, Thorough: 6000, Gen: genC2F, Check: checkC2F, Fresh: true},
		kit.Clause[c2f2Case]{Name: "C12/ms/coarse-to-fine", Quick: 600, Thorough: 12000, Gen: genC2F2, Check: checkC2F2, Fresh: true},
		kit.Clause[dcCase]{Name: "C12/dc/configurations", Quick: 300, Thorough: 6000, Gen: genDC, Check: checkDC, Fresh: true},
		kit.Clause[rastCase]{Name: "C12/raster/filters", Quick: 2400, Thorough: 24000, Gen: genRast, Check: checkRast, Fresh: true},
	)
}
