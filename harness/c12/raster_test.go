package c12

import (
	"fmt"
	"image"
	"math"
	"sync/atomic"

	"github.com/unixpickle/model3d/model2d"
	"pgregory.net/rapid"
	"verifharness/gen"
	"verifharness/kit"
	"verifharness/m3"
)

// ---------------------------------------------------------------------------
// rasteriser
//
// RasterizeSolidFilter documents: "If f returns false for a given rectangular region, it means that the solid is
// definitely uniform within the region (i.e. there is no boundary in the region)" -- so with any f that is true
// whenever the solid's boundary meets the region the image must be the image of RasterizeSolid, pixel for pixel
// (a skipped tile is filled with 0 or 255, exactly what floor((1-coverage)*255.999) gives for coverage 1 or 0).
// RasterizeColliderSolid(c) "rasterizes the collider as a filled in Solid using the even-odd test", i.e. the
// solid NewColliderSolid(c); RasterizeCollider(c) draws lines of thickness LineWidth pixels, i.e. the points within
// LineWidth/2 pixels = LineWidth/(2*Scale) units of the collider, which is NewColliderSolidHollow(c, that radius).
// Both go through RasterizeSolidFilter with a circle test that is conservative for those solids, so they must be
// pixel-identical to the unfiltered RasterizeSolid of these solids.

type rastCase struct {
	Mode   string     `json:"mode"` // solidfilter collidersolid collider
	Src    *source2   `json:"src,omitempty"`
	Col    *colSpec   `json:"collider,omitempty"`
	Sub    int        `json:"subsamples"` // 0: default (8)
	Pixels float64    `json:"pixels"`     // scale = sqrt(pixels / area of the bounds)
	LineW  float64    `json:"linewidth"`  // 0: default (1)
	Pad    *[4]float64 `json:"pad,omitempty"` // explicit bounds: solid bounds moved by these fractions of the size (lo x, lo y, hi x, hi y); <0 at lo / >0 at hi pads, the other sign crops
	Cfgs   []mcCfg    `json:"cfgs"`
}

type colSpec struct {
	Kind  string       `json:"kind"` // mesh prims
	Tree  *gen.Node2   `json:"tree,omitempty"`
	Cells float64      `json:"cells,omitempty"`
	Iters int          `json:"iters,omitempty"`
	Prims []gen.Shape2 `json:"prims,omitempty"`
}

func (c *colSpec) build() (model2d.Collider, bool) {
	if c.Kind == "prims" {
		var cs []model2d.Collider
		for _, p := range c.Prims {
			cs = append(cs, p.Build())
		}
		return model2d.NewJoinedCollider(cs), true
	}
	solid := c.Tree.Build()
	if !model2d.BoundsValid(solid) {
		return nil, false
	}
	size := solid.Max().Sub(solid.Min()).MaxCoord()
	if !validDelta(size) {
		return nil, false
	}
	mesh := model2d.MarchingSquaresSearch(solid, size/c.Cells, c.Iters)
	if mesh.NumSegments() == 0 {
		return nil, false
	}
	return model2d.MeshToCollider(mesh), true
}

func genRast(t *rapid.T) rastCase {
	c := rastCase{Mode: rapid.SampledFrom([]string{"solidfilter", "solidfilter", "collidersolid", "collider"}).Draw(t, "mode")}
	c.Sub = []int{0, 1, 2, 3, 4, 5, 8, 16, 20}[gen.Int(t, 0, 8, "sub")]
	sub := c.Sub
	if sub == 0 {
		sub = 8
	}
	budget := 150000.0
	if c.Mode != "solidfilter" {
		budget = 40000
		c.LineW = []float64{0, 0, 0.4, 1.7, 3, 6.5}[gen.Int(t, 0, 5, "lw")]
	}
	c.Pixels = gen.LogF(t, 40, math.Max(60, math.Min(8000, budget/float64(sub*sub))), "pixels")
	if rapid.IntRange(0, 2).Draw(t, "explicitbounds") == 0 {
		c.Pad = &[4]float64{gen.F(t, -0.4, 0.3, "pad0"), gen.F(t, -0.4, 0.3, "pad1"), gen.F(t, -0.3, 0.4, "pad2"), gen.F(t, -0.3, 0.4, "pad3")}
	}
	if c.Mode == "solidfilter" {
		s := genSource2(t, []string{"csg", "csg", "csg", "field", "lattice", "boxes"})
		c.Src = &s
		c.Cfgs = genCfgs(t, rapid.IntRange(3, 5).Draw(t, "ncfg"))
		for i := range c.Cfgs {
			c.Cfgs[i].Interior = false
			if c.Cfgs[i].Filter == "" {
				c.Cfgs[i].Filter = "meets"
			}
		}
	} else {
		col := &colSpec{Kind: rapid.SampledFrom([]string{"mesh", "prims"}).Draw(t, "colkind")}
		if col.Kind == "mesh" {
			col.Tree = gen.Node2Gen(t, 3, 6, "tree")
			col.Cells = gen.F(t, 5, 40, "cells")
			col.Iters = rapid.IntRange(0, 4).Draw(t, "iters")
		} else {
			n := rapid.IntRange(1, 4).Draw(t, "nprims")
			for i := 0; i < n; i++ {
				col.Prims = append(col.Prims, gen.Shape2Gen(t, gen.AllKinds2, 0.8, 6, "prim"))
			}
		}
		c.Col = col
		n := rapid.IntRange(1, 3).Draw(t, "nprocs")
		for i := 0; i < n; i++ {
			c.Cfgs = append(c.Cfgs, mcCfg{Procs: allProcs[gen.Int(t, 0, len(allProcs)-1, "procs")]})
		}
	}
	return c
}

type countCollider struct {
	model2d.Collider
	thresh   float64
	rejected int64
}

func (c *countCollider) CircleCollision(p model2d.Coord, r float64) bool {
	ok := c.Collider.CircleCollision(p, r)
	if !ok && r > c.thresh {
		atomic.AddInt64(&c.rejected, 1)
	}
	return ok
}

func diffImages(ref, got *image.Gray) string {
	if ref.Rect != got.Rect {
		return fmt.Sprintf("image bounds %v, reference %v", got.Rect, ref.Rect)
	}
	n := 0
	first := ""
	for y := ref.Rect.Min.Y; y < ref.Rect.Max.Y; y++ {
		for x := ref.Rect.Min.X; x < ref.Rect.Max.X; x++ {
			if a, b := ref.GrayAt(x, y).Y, got.GrayAt(x, y).Y; a != b {
				if n == 0 {
					first = fmt.Sprintf("first at pixel (%d,%d): %d, unfiltered reference %d", x, y, b, a)
				}
				n++
			}
		}
	}
	if n == 0 {
		return ""
	}
	return fmt.Sprintf("%d of %d pixels differ; %s", n, ref.Rect.Dx()*ref.Rect.Dy(), first)
}

func checkRast(c rastCase, o *kit.Obs) error {
	o.Label("mode:" + c.Mode)
	o.Labelf("sub:%d", c.Sub)
	var bmin, bmax model2d.Coord // bounds of the object that will be rasterised
	var solid model2d.Solid
	var col model2d.Collider
	lw := c.LineW
	if lw == 0 {
		lw = 1 // RasterizerDefaultLineWidth
	}
	switch c.Mode {
	case "solidfilter":
		solid = c.Src.Solid()
		if !model2d.BoundsValid(solid) {
			o.Skip("invalid-bounds")
			return nil
		}
		bmin, bmax = solid.Min(), solid.Max()
		o.Label("src:" + c.Src.Kind)
	default:
		var ok bool
		col, ok = c.Col.build()
		if !ok {
			o.Skip("empty-collider")
			return nil
		}
		bmin, bmax = col.Min(), col.Max()
		o.Label("collider:" + c.Col.Kind)
	}
	size := bmax.Sub(bmin)
	if !(size.X > 1e-6 && size.Y > 1e-6) {
		o.Skip("empty-bounds")
		return nil
	}
	rast := &model2d.Rasterizer{Subsamples: c.Sub, LineWidth: c.LineW}
	if c.Pad != nil {
		lo := model2d.XY(bmin.X+c.Pad[0]*size.X, bmin.Y+c.Pad[1]*size.Y)
		hi := model2d.XY(bmax.X+c.Pad[2]*size.X, bmax.Y+c.Pad[3]*size.Y)
		rast.Bounds = model2d.NewRect(lo, hi)
		size = hi.Sub(lo)
		o.Label("explicit-bounds")
	}
	rast.Scale = math.Sqrt(c.Pixels / (size.X * size.Y))
	// the hollow solid adds a margin around the collider, in units: keep the image size bounded
	if c.Mode == "collider" && c.Pad == nil {
		r := 0.5 * lw / rast.Scale
		rast.Scale = math.Sqrt(c.Pixels / ((size.X + 2*r) * (size.Y + 2*r)))
	}
	if w, h := size.X*rast.Scale, size.Y*rast.Scale; w > 400 || h > 400 {
		o.Skip("image-too-elongated")
		return nil
	}
	var ref *image.Gray
	switch c.Mode {
	case "collidersolid":
		solid = model2d.NewColliderSolid(col)
	case "collider":
		solid = model2d.NewColliderSolidHollow(col, 0.5*lw/rast.Scale)
	}
	withProcs(1, func() { ref = rast.RasterizeSolid(solid) })
	// repeated and multi-core unfiltered runs
	var again *image.Gray
	withProcs(5, func() { again = rast.RasterizeSolid(solid) })
	if d := diffImages(ref, again); d != "" {
		return fmt.Errorf("RasterizeSolid at GOMAXPROCS=5 differs from GOMAXPROCS=1: %s", d)
	}
	nontrivial := false
	for i, cfg := range c.Cfgs {
		var got *image.Gray
		var rejected int64
		switch c.Mode {
		case "solidfilter":
			var st filterStats
			// dilation margins are relative to a pixel here
			f := cfg.filter2(c.Src.meets2(), 1/rast.Scale, &st)
			withProcs(cfg.Procs, func() { got = rast.RasterizeSolidFilter(solid, f) })
			rejected = st.skipped
			o.Label("filter:" + cfg.Filter)
		case "collidersolid":
			cc := &countCollider{Collider: col}
			withProcs(cfg.Procs, func() { got = rast.RasterizeColliderSolid(cc) })
			rejected = cc.rejected
		case "collider":
			cc := &countCollider{Collider: col, thresh: 0.5 * lw / rast.Scale * (1 + 1e-9)}
			withProcs(cfg.Procs, func() { got = rast.RasterizeCollider(cc) })
			rejected = cc.rejected
		}
		if d := diffImages(ref, got); d != "" {
			return fmt.Errorf("configuration %d (%v) of mode %s: scale %v, subsamples %d, line width %v, image %v, %d tiles rejected by the filter: %s", i, cfg, c.Mode, rast.Scale, c.Sub, c.LineW, ref.Rect.Max, rejected, d)
		}
		if rejected > 0 {
			nontrivial = true
		}
	}
	if nontrivial {
		o.NonTrivial()
		o.Label("filter-skipped-a-tile")
	}
	uniform := true
	for _, p := range ref.Pix {
		if p != ref.Pix[0] {
			uniform = false
			break
		}
	}
	if uniform {
		o.Label("uniform-image")
	}
	return nil
}

var _ = m3.V2
var _ kit.V2
