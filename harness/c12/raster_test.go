package c12

import (
	"fmt"
	"image"
	"math"
	"sync/atomic"

	"github.com/unixpickle/model3d/model2d"
	"pgregory.net/rapid"
	"verifharness/gen"
	"verifharness/kit"
	"verifharness/m3"
)

// ---------------------------------------------------------------------------
// rasteriser
//
// RasterizeSolidFilter documents: "If f returns false for a given rectangular region, it means that the solid is
// definitely uniform within the region (i.e. there is no boundary in the region)" -- so with any f that is true
// whenever the solid's boundary meets the region the image must be the image of RasterizeSolid, pixel for pixel
// (a skipped tile is filled with 0 or 255, exactly what floor((1-coverage)*255.999) gives for coverage 1 or 0).
// RasterizeColliderSolid(c) "rasterizes the collider as a filled in Solid using the even-odd test", i.e. the
// solid NewColliderSolid(c); RasterizeCollider(c) draws lines of thickness LineWidth pixels, i.e. the points within
// LineWidth/2 pixels = LineWidth/(2*Scale) units of the collider, which is NewColliderSolidHollow(c, that radius).
// Both go through RasterizeSolidFilter with a circle test (circumscribed circle of the tile against the collider)
// that is conservative for those solids, so they must be pixel-identical to the unfiltered RasterizeSolid of these
// solids -- except at pixels where membership itself is undecided: the library's circle test is the OPEN circle for
// segments (Segment.CircleCollision uses <) and the first sub-sample of a pixel is the pixel's min corner, hence a
// tile's min corner is a sample point ON the circumscribed circle.  When the collider touches the tile in exactly
// that point (a marching-squares mesh without search has its vertices on a half-lattice that is commensurate with
// the pixel grid derived from its own bounds, so this does happen), ColliderSolid.Contains of the sample is the
// parity of a ray cast from a point on the collider, i.e. decided by the sign of a rounding error (observed:
// scale -0 counted as a hit); nothing in the docs fixes membership on the outline, so neither image is wrong.
// Such pixels are the decision boundary of the clause: a differing pixel is excused (and the case counted as
// skipped) iff one of its sub-sample points lies within sampleBand of the outline of the rasterised solid, measured
// by an independent distance (brute-force point/segment distances for mesh colliders, closed-form primitive
// distances otherwise).  Any other difference is a violation.

type rastCase struct {
	Mode   string      `json:"mode"` // solidfilter collidersolid collider
	Src    *source2    `json:"src,omitempty"`
	Col    *colSpec    `json:"collider,omitempty"`
	Sub    int         `json:"subsamples"`    // 0: default (8)
	Pixels float64     `json:"pixels"`        // scale = sqrt(pixels / area of the bounds)
	LineW  float64     `json:"linewidth"`     // 0: default (1)
	Pad    *[4]float64 `json:"pad,omitempty"` // explicit bounds: solid bounds moved by these fractions of the size (lo x, lo y, hi x, hi y); <0 at lo / >0 at hi pads, the other sign crops
	Cfgs   []mcCfg     `json:"cfgs"`
}

type colSpec struct {
	Kind  string       `json:"kind"` // mesh prims
	Tree  *gen.Node2   `json:"tree,omitempty"`
	Cells float64      `json:"cells,omitempty"`
	Iters int          `json:"iters,omitempty"`
	Prims []gen.Shape2 `json:"prims,omitempty"`
}

// build returns the collider and an independent distance from a point to the collider's outline.
func (c *colSpec) build() (model2d.Collider, func(kit.V2) float64, bool) {
	if c.Kind == "prims" {
		var cs []model2d.Collider
		for _, p := range c.Prims {
			cs = append(cs, p.Build())
		}
		prims := c.Prims
		dist := func(p kit.V2) float64 {
			best := math.Inf(1)
			for _, s := range prims {
				best = math.Min(best, math.Abs(s.RefSDF(p).SDF))
			}
			return best
		}
		return model2d.NewJoinedCollider(cs), dist, true
	}
	solid := c.Tree.Build()
	if !model2d.BoundsValid(solid) {
		return nil, nil, false
	}
	size := solid.Max().Sub(solid.Min()).MaxCoord()
	if !validDelta(size) {
		return nil, nil, false
	}
	mesh := model2d.MarchingSquaresSearch(solid, size/c.Cells, c.Iters)
	if mesh.NumSegments() == 0 {
		return nil, nil, false
	}
	segs := m3.Segs(mesh)
	dist := func(p kit.V2) float64 { d, _ := kit.MeshDist2(segs, p); return d }
	return model2d.MeshToCollider(mesh), dist, true
}

func genRast(t *rapid.T) rastCase {
	c := rastCase{Mode: rapid.SampledFrom([]string{"solidfilter", "solidfilter", "collidersolid", "collider"}).Draw(t, "mode")}
	c.Sub = []int{0, 1, 2, 3, 4, 5, 8, 16, 20}[gen.Int(t, 0, 8, "sub")]
	sub := c.Sub
	if sub == 0 {
		sub = 8
	}
	budget := 150000.0
	if c.Mode != "solidfilter" {
		budget = 40000
		c.LineW = []float64{0, 0, 0.4, 1.7, 3, 6.5}[gen.Int(t, 0, 5, "lw")]
	}
	c.Pixels = gen.LogF(t, 40, math.Max(60, math.Min(8000, budget/float64(sub*sub))), "pixels")
	if rapid.IntRange(0, 2).Draw(t, "explicitbounds") == 0 {
		c.Pad = &[4]float64{gen.F(t, -0.4, 0.3, "pad0"), gen.F(t, -0.4, 0.3, "pad1"), gen.F(t, -0.3, 0.4, "pad2"), gen.F(t, -0.3, 0.4, "pad3")}
	}
	if rapid.IntRange(0, 3).Draw(t, "edgetiles") == 0 {
		// clipped edge tiles: few sub-samples (large tiles: the tile is max(1, 16/subsamples) pixels), a canvas
		// cropped on the high sides so that the solid goes on beyond the last, partial tile — what a filtered
		// tile is filled with must come from inside the clipped tile, not from where the full tile would be
		c.Sub = []int{1, 1, 2, 2, 3, 4, 5}[gen.Int(t, 0, 6, "edgesub")]
		c.Pad = &[4]float64{gen.F(t, -0.1, 0.1, "epad0"), gen.F(t, -0.1, 0.1, "epad1"), -gen.LogF(t, 0.005, 0.35, "epad2"), -gen.LogF(t, 0.005, 0.35, "epad3")}
	}
	if c.Mode == "solidfilter" {
		s := genSource2(t, []string{"csg", "csg", "csg", "field", "lattice", "boxes"})
		c.Src = &s
		c.Cfgs = genCfgs(t, rapid.IntRange(3, 5).Draw(t, "ncfg"))
		for i := range c.Cfgs {
			c.Cfgs[i].Interior = false
			if c.Cfgs[i].Filter == "" {
				c.Cfgs[i].Filter = "meets"
			}
		}
	} else {
		col := &colSpec{Kind: rapid.SampledFrom([]string{"mesh", "prims"}).Draw(t, "colkind")}
		if col.Kind == "mesh" {
			col.Tree = gen.Node2Gen(t, 3, 6, "tree")
			col.Cells = gen.F(t, 5, 40, "cells")
			col.Iters = rapid.IntRange(0, 4).Draw(t, "iters")
		} else {
			n := rapid.IntRange(1, 4).Draw(t, "nprims")
			for i := 0; i < n; i++ {
				col.Prims = append(col.Prims, gen.Shape2Gen(t, gen.AllKinds2, 0.8, 6, "prim"))
			}
		}
		c.Col = col
		n := rapid.IntRange(1, 3).Draw(t, "nprocs")
		for i := 0; i < n; i++ {
			c.Cfgs = append(c.Cfgs, mcCfg{Procs: allProcs[gen.Int(t, 0, len(allProcs)-1, "procs")]})
		}
	}
	return c
}

type countCollider struct {
	model2d.Collider
	thresh   float64
	rejected int64
}

func (c *countCollider) CircleCollision(p model2d.Coord, r float64) bool {
	ok := c.Collider.CircleCollision(p, r)
	if !ok && r > c.thresh {
		atomic.AddInt64(&c.rejected, 1)
	}
	return ok
}

// diffImages compares two images; "" means identical.  excused (may be nil) is asked about every differing pixel;
// pixels it excuses are counted in nExcused and do not make the images differ.
func diffImages(ref, got *image.Gray, excused func(x, y int) bool) (msg string, nExcused int) {
	if ref.Rect != got.Rect {
		return fmt.Sprintf("image bounds %v, reference %v", got.Rect, ref.Rect), 0
	}
	n := 0
	first := ""
	for y := ref.Rect.Min.Y; y < ref.Rect.Max.Y; y++ {
		for x := ref.Rect.Min.X; x < ref.Rect.Max.X; x++ {
			if a, b := ref.GrayAt(x, y).Y, got.GrayAt(x, y).Y; a != b {
				if excused != nil && excused(x, y) {
					nExcused++
					continue
				}
				if n == 0 {
					first = fmt.Sprintf("first at pixel (%d,%d): %d, unfiltered reference %d", x, y, b, a)
				}
				n++
			}
		}
	}
	if n == 0 {
		return "", nExcused
	}
	return fmt.Sprintf("%d of %d pixels differ; %s", n, ref.Rect.Dx()*ref.Rect.Dy(), first), nExcused
}

// sampleBand is the half-width of the undecidable band around the outline of the rasterised solid, as a fraction
// of the pixel diagonal (plus the same fraction of the coordinate magnitude, for rounding of the positions): the
// rounding errors of the ray/circle tests are ~1e-16 relative, the displacement any real defect of a tile filter
// produces is a sizeable fraction of a pixel.
const sampleBand = 1e-9

// undecidedPixel builds the excuse predicate for the collider modes: pixel (x, y) of a w x h image over [lo, hi]
// has a sub-sample point (the rasteriser samples lo_px + (hi_px-lo_px)*i/(sub+1), i = 0..sub-1, per axis) whose
// independent distance from the collider differs from r (0: the outline itself; > 0: the hollow solid's outline)
// by at most the band.
func undecidedPixel(lo, hi kit.V2, w, h, sub int, dist func(kit.V2) float64, r float64) func(x, y int) bool {
	pw, ph := (hi[0]-lo[0])/float64(w), (hi[1]-lo[1])/float64(h)
	band := sampleBand * (math.Hypot(pw, ph) + math.Max(math.Max(math.Abs(lo[0]), math.Abs(lo[1])), math.Max(math.Abs(hi[0]), math.Abs(hi[1]))))
	return func(x, y int) bool {
		x0, y0 := float64(x)*pw+lo[0], float64(y)*ph+lo[1]
		x1, y1 := float64(x+1)*pw+lo[0], float64(y+1)*ph+lo[1]
		dx, dy := (x1-x0)/float64(sub+1), (y1-y0)/float64(sub+1)
		for i := 0; i < sub; i++ {
			for j := 0; j < sub; j++ {
				p := kit.V2{x0 + dx*float64(i), y0 + dy*float64(j)}
				if math.Abs(dist(p)-r) <= band {
					return true
				}
			}
		}
		return false
	}
}

func checkRast(c rastCase, o *kit.Obs) error {
	o.Label("mode:" + c.Mode)
	o.Labelf("sub:%d", c.Sub)
	var bmin, bmax model2d.Coord // bounds of the object that will be rasterised
	var solid model2d.Solid
	var col model2d.Collider
	var colDist func(kit.V2) float64
	lw := c.LineW
	if lw == 0 {
		lw = 1 // RasterizerDefaultLineWidth
	}
	switch c.Mode {
	case "solidfilter":
		solid = c.Src.Solid()
		if !model2d.BoundsValid(solid) {
			o.Skip("invalid-bounds")
			return nil
		}
		bmin, bmax = solid.Min(), solid.Max()
		o.Label("src:" + c.Src.Kind)
	default:
		var ok bool
		col, colDist, ok = c.Col.build()
		if !ok {
			o.Skip("empty-collider")
			return nil
		}
		bmin, bmax = col.Min(), col.Max()
		o.Label("collider:" + c.Col.Kind)
	}
	size := bmax.Sub(bmin)
	if !(size.X > 1e-6 && size.Y > 1e-6) {
		o.Skip("empty-bounds")
		return nil
	}
	rast := &model2d.Rasterizer{Subsamples: c.Sub, LineWidth: c.LineW}
	rlo, rhi := m3.V2(bmin), m3.V2(bmax) // the rasterised rectangle
	if c.Pad != nil {
		lo := model2d.XY(bmin.X+c.Pad[0]*size.X, bmin.Y+c.Pad[1]*size.Y)
		hi := model2d.XY(bmax.X+c.Pad[2]*size.X, bmax.Y+c.Pad[3]*size.Y)
		rast.Bounds = model2d.NewRect(lo, hi)
		rlo, rhi = m3.V2(lo), m3.V2(hi)
		size = hi.Sub(lo)
		o.Label("explicit-bounds")
	}
	rast.Scale = math.Sqrt(c.Pixels / (size.X * size.Y))
	// the hollow solid adds a margin around the collider, in units: keep the image size bounded
	if c.Mode == "collider" && c.Pad == nil {
		r := 0.5 * lw / rast.Scale
		rast.Scale = math.Sqrt(c.Pixels / ((size.X + 2*r) * (size.Y + 2*r)))
	}
	if w, h := size.X*rast.Scale, size.Y*rast.Scale; w > 400 || h > 400 {
		o.Skip("image-too-elongated")
		return nil
	}
	var ref *image.Gray
	switch c.Mode {
	case "collidersolid":
		solid = model2d.NewColliderSolid(col)
	case "collider":
		solid = model2d.NewColliderSolidHollow(col, 0.5*lw/rast.Scale)
	}
	withProcs(1, func() { ref = rast.RasterizeSolid(solid) })
	// repeated and multi-core unfiltered runs
	var again *image.Gray
	withProcs(5, func() { again = rast.RasterizeSolid(solid) })
	if d, _ := diffImages(ref, again, nil); d != "" {
		return fmt.Errorf("RasterizeSolid at GOMAXPROCS=5 differs from GOMAXPROCS=1: %s", d)
	}
	if c.Pad == nil {
		rlo, rhi = m3.V2(solid.Min()), m3.V2(solid.Max()) // collider mode: the hollow solid is larger than the collider
	}
	var excused func(x, y int) bool
	sub := c.Sub
	if sub == 0 {
		sub = 8 // RasterizerDefaultSubsamples
	}
	switch c.Mode {
	case "collidersolid":
		excused = undecidedPixel(rlo, rhi, ref.Rect.Dx(), ref.Rect.Dy(), sub, colDist, 0)
	case "collider":
		excused = undecidedPixel(rlo, rhi, ref.Rect.Dx(), ref.Rect.Dy(), sub, colDist, 0.5*lw/rast.Scale)
	}
	nontrivial, undecided := false, false
	for i, cfg := range c.Cfgs {
		var got *image.Gray
		var rejected int64
		switch c.Mode {
		case "solidfilter":
			var st filterStats
			// dilation margins are relative to a pixel here
			f := cfg.filter2(c.Src.meets2(), 1/rast.Scale, &st)
			withProcs(cfg.Procs, func() { got = rast.RasterizeSolidFilter(solid, f) })
			rejected = st.skipped
			o.Label("filter:" + cfg.Filter)
		case "collidersolid":
			cc := &countCollider{Collider: col}
			withProcs(cfg.Procs, func() { got = rast.RasterizeColliderSolid(cc) })
			rejected = cc.rejected
		case "collider":
			cc := &countCollider{Collider: col, thresh: 0.5 * lw / rast.Scale * (1 + 1e-9)}
			withProcs(cfg.Procs, func() { got = rast.RasterizeCollider(cc) })
			rejected = cc.rejected
		}
		d, nExcused := diffImages(ref, got, excused)
		if d != "" {
			return fmt.Errorf("configuration %d (%v) of mode %s: scale %v, subsamples %d, line width %v, image %v, %d tiles rejected by the filter: %s", i, cfg, c.Mode, rast.Scale, c.Sub, c.LineW, ref.Rect.Max, rejected, d)
		}
		if nExcused > 0 && !undecided {
			undecided = true
			o.Skip("sample-point-on-the-outline")
		}
		if rejected > 0 {
			nontrivial = true
		}
	}
	if nontrivial {
		o.NonTrivial()
		o.Label("filter-skipped-a-tile")
	}
	uniform := true
	for _, p := range ref.Pix {
		if p != ref.Pix[0] {
			uniform = false
			break
		}
	}
	if uniform {
		o.Label("uniform-image")
	}
	return nil
}
