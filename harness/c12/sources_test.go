package c12

import (
	"math"

	"github.com/unixpickle/model3d/model2d"
	"github.com/unixpickle/model3d/model3d"
	"pgregory.net/rapid"
	"verifharness/gen"
	"verifharness/kit"
	"verifharness/m3"
)

// ---------------------------------------------------------------------------
// Solid sources.  Every source comes with an independent conservative predicate "the boundary of the solid may
// meet this closed box" (meets): whenever a closed box contains a point of the solid and a point of its
// complement, the box is connected, hence contains a boundary point, hence meets() is true.  That is exactly
// what the filter arguments of MarchingCubesFilter / MarchingSquaresFilter / RasterizeSolidFilter are documented
// to need ("it should never fail to report collisions"; "if f returns false ... the solid is definitely uniform
// within the region").
//
//   csg:     boundary of a boolean combination is a subset of the union of the primitives' boundaries; |reference
//            SDF of a primitive at the box centre| is the distance of the centre from that primitive's boundary, so a
//            boundary point inside the box forces min_i |SDF_i(centre)| <= half diagonal.
//   field:   a trilinear interpolant lies between the smallest and largest corner value of its grid cell; outside the
//            grid the field is -1.
//   lattice: Contains(p) = bit at round(p): a union of unit cells; the box meets a set of integer cells exactly.
//   boxes:   an axis-aligned base box minus a union of axis-aligned holes (or a union of boxes) whose faces lie ON the
//            planes of the sampling lattice; closed box against box surface is decided exactly by comparisons.  This
//            is the tight filter: it returns false for a region that stops just short of a face.

type source3 struct {
	Kind  string        `json:"kind"` // csg field lattice boxes
	Tree  *gen.Node     `json:"tree,omitempty"`
	Field *gen.Field3   `json:"field,omitempty"`
	Lat   *gen.Lattice3 `json:"lattice,omitempty"`
	Boxes *boxes3       `json:"boxes,omitempty"`
}

type boxes3 struct {
	Min   kit.V3   `json:"min"`
	Delta float64  `json:"delta"`
	N     [3]int   `json:"n"`     // the base box spans N cells of size Delta from Min
	Parts [][6]int `json:"parts"` // lo xyz, hi xyz in cell indices, 0 <= lo < hi <= N
	Union bool     `json:"union"` // true: the solid is the union of the parts; false: base minus the union of the parts
}

// coord returns the coordinate of cell index i on axis a, accumulated the way a marching lattice starting one
// spacing below Min accumulates (so that faces coincide with lattice planes up to the last bit; nothing in the
// oracle depends on the coincidence being exact).
func (b *boxes3) coord(a, i int) float64 {
	x := b.Min[a] - b.Delta
	for k := 0; k <= i; k++ {
		x += b.Delta
	}
	return x
}

func (b *boxes3) rects() (base [2]kit.V3, parts [][2]kit.V3) {
	for a := 0; a < 3; a++ {
		base[0][a], base[1][a] = b.coord(a, 0), b.coord(a, b.N[a])
	}
	for _, p := range b.Parts {
		var r [2]kit.V3
		for a := 0; a < 3; a++ {
			r[0][a], r[1][a] = b.coord(a, p[a]), b.coord(a, p[3+a])
		}
		parts = append(parts, r)
	}
	return
}

func (b *boxes3) Solid() model3d.Solid {
	base, parts := b.rects()
	var js model3d.JoinedSolid
	for _, p := range parts {
		js = append(js, &model3d.Rect{MinVal: m3.C3(p[0]), MaxVal: m3.C3(p[1])})
	}
	if b.Union {
		return js
	}
	br := &model3d.Rect{MinVal: m3.C3(base[0]), MaxVal: m3.C3(base[1])}
	if len(js) == 0 {
		return br
	}
	return &model3d.SubtractedSolid{Positive: br, Negative: js}
}

// boxMeetsRectSurface: closed box [lo,hi] meets the surface of the closed box q (exact comparisons).
func boxMeetsRectSurface3(lo, hi kit.V3, q [2]kit.V3) bool {
	inside := true
	for a := 0; a < 3; a++ {
		if hi[a] < q[0][a] || lo[a] > q[1][a] {
			return false // disjoint
		}
		if !(q[0][a] < lo[a] && hi[a] < q[1][a]) {
			inside = false
		}
	}
	return !inside // overlapping and not strictly inside: the surface is met
}

func (s source3) Solid() model3d.Solid {
	switch s.Kind {
	case "csg":
		return s.Tree.Build()
	case "field":
		return s.Field.Solid()
	case "lattice":
		return s.Lat.Solid()
	case "boxes":
		return s.Boxes.Solid()
	}
	panic("unknown source " + s.Kind)
}

func prims3(n *gen.Node, out []*gen.Shape3) []*gen.Shape3 {
	if n.Op == "prim" {
		return append(out, n.Shape)
	}
	for _, k := range n.Kids {
		out = prims3(k, out)
	}
	return out
}

// meets3 builds the conservative predicate for the source; margin >= 0 dilates the box first.
func (s source3) meets3() func(lo, hi kit.V3, margin float64) bool {
	switch s.Kind {
	case "csg":
		ps := prims3(s.Tree, nil)
		return func(lo, hi kit.V3, margin float64) bool {
			c := lo.Mid(hi)
			// slack: the library's membership tests agree with the analytic boundary only up to rounding
			h := (hi.Dist(lo)/2+margin)*(1+1e-9) + 1e-9
			for _, p := range ps {
				if math.Abs(p.RefSDF(c).SDF) <= h {
					return true
				}
			}
			return false
		}
	case "field":
		f := s.Field
		return func(lo, hi kit.V3, margin float64) bool {
			pos, neg := false, false
			var i0, i1 [3]int
			for a := 0; a < 3; a++ {
				l := (lo[a]-margin)/f.Scale - 1e-9
				h := (hi[a]+margin)/f.Scale + 1e-9
				if l < 0 || h > float64(f.N-1) {
					neg = true // reaches outside the grid, where the field is -1
				}
				i0[a] = int(math.Max(0, math.Floor(l)))
				i1[a] = int(math.Min(float64(f.N-1), math.Ceil(h)))
				if i0[a] > i1[a] {
					return false // entirely outside the grid: uniformly excluded
				}
			}
			for z := i0[2]; z <= i1[2]; z++ {
				for y := i0[1]; y <= i1[1]; y++ {
					for x := i0[0]; x <= i1[0]; x++ {
						if f.Vals[x+f.N*(y+f.N*z)] > 0 {
							pos = true
						} else {
							neg = true
						}
					}
				}
			}
			return pos && neg
		}
	case "lattice":
		l := s.Lat
		return func(lo, hi kit.V3, margin float64) bool {
			var i0, i1 [3]int
			for a := 0; a < 3; a++ {
				i0[a] = int(math.Floor(lo[a] - margin + 0.5))
				i1[a] = int(math.Floor(hi[a] + margin + 0.5))
			}
			first := l.At(i0[0], i0[1], i0[2])
			for z := i0[2]; z <= i1[2]; z++ {
				for y := i0[1]; y <= i1[1]; y++ {
					for x := i0[0]; x <= i1[0]; x++ {
						if l.At(x, y, z) != first {
							return true
						}
					}
				}
			}
			return false
		}
	case "boxes":
		base, parts := s.Boxes.rects()
		union := s.Boxes.Union
		return func(lo, hi kit.V3, margin float64) bool {
			for a := 0; a < 3; a++ {
				lo[a] -= margin
				hi[a] += margin
			}
			if !union && boxMeetsRectSurface3(lo, hi, base) {
				return true
			}
			for _, p := range parts {
				if boxMeetsRectSurface3(lo, hi, p) {
					return true
				}
			}
			return false
		}
	}
	panic("unknown source " + s.Kind)
}

func genBoxes3(t *rapid.T) *boxes3 {
	b := &boxes3{}
	// dyadic spacings and origins on the same dyadic grid: every lattice coordinate is exactly representable, so
	// the faces lie exactly on lattice planes and the accumulated lattice cannot end one plane early (a Rect is a
	// closed set: with an inexact spacing the last lattice plane may land on its far face, which the meshers
	// reject as "solid is true outside of bounds" -- not this property's business)
	b.Delta = rapid.SampledFrom([]float64{0.25, 0.5, 1, 0.125, 2}).Draw(t, "boxes.delta")
	for a := 0; a < 3; a++ {
		b.Min[a] = float64(gen.Int(t, -8, 8, "boxes.min")) * b.Delta
	}
	for a := 0; a < 3; a++ {
		b.N[a] = gen.Int(t, 2, 14, "boxes.n")
	}
	b.Union = rapid.IntRange(0, 2).Draw(t, "boxes.union") == 0
	n := rapid.IntRange(1, 4).Draw(t, "boxes.parts")
	for i := 0; i < n; i++ {
		var p [6]int
		for a := 0; a < 3; a++ {
			lo := gen.Int(t, 0, b.N[a]-1, "boxes.lo")
			hi := gen.Int(t, lo+1, b.N[a], "boxes.hi")
			p[a], p[3+a] = lo, hi
		}
		b.Parts = append(b.Parts, p)
	}
	return b
}

func genSource3(t *rapid.T, kinds []string) source3 {
	switch rapid.SampledFrom(kinds).Draw(t, "source") {
	case "csg":
		return source3{Kind: "csg", Tree: gen.NodeGen(t, 3, 12, false, "tree")}
	case "field":
		f := gen.Field3Gen(t, 6, "field")
		return source3{Kind: "field", Field: &f}
	case "lattice":
		l := gen.Lattice3Gen(t, 9, "lattice")
		return source3{Kind: "lattice", Lat: &l}
	default:
		return source3{Kind: "boxes", Boxes: genBoxes3(t)}
	}
}

// spacing3 derives the spacing: lattice and boxes sources fix it, the others divide the largest extent into `cells`.
func (s source3) spacing(solid model3d.Solid, cells float64) float64 {
	switch s.Kind {
	case "lattice":
		return 1
	case "boxes":
		return s.Boxes.Delta
	}
	return solid.Max().Sub(solid.Min()).MaxCoord() / cells
}

func validDelta(d float64) bool { return d > 1e-6 && !math.IsInf(d, 0) && !math.IsNaN(d) }

// ---------------------------------------------------------------------------
// 2D

type source2 struct {
	Kind  string        `json:"kind"` // csg field lattice boxes
	Tree  *gen.Node2    `json:"tree,omitempty"`
	Field *gen.Field2   `json:"field,omitempty"`
	Lat   *gen.Lattice2 `json:"lattice,omitempty"`
	Boxes *boxes2       `json:"boxes,omitempty"`
}

type boxes2 struct {
	Min   kit.V2   `json:"min"`
	Delta float64  `json:"delta"`
	N     [2]int   `json:"n"`
	Parts [][4]int `json:"parts"` // lo xy, hi xy
	Union bool     `json:"union"`
}

func (b *boxes2) coord(a, i int) float64 {
	x := b.Min[a] - b.Delta
	for k := 0; k <= i; k++ {
		x += b.Delta
	}
	return x
}

func (b *boxes2) rects() (base [2]kit.V2, parts [][2]kit.V2) {
	for a := 0; a < 2; a++ {
		base[0][a], base[1][a] = b.coord(a, 0), b.coord(a, b.N[a])
	}
	for _, p := range b.Parts {
		var r [2]kit.V2
		for a := 0; a < 2; a++ {
			r[0][a], r[1][a] = b.coord(a, p[a]), b.coord(a, p[2+a])
		}
		parts = append(parts, r)
	}
	return
}

func (b *boxes2) Solid() model2d.Solid {
	base, parts := b.rects()
	var js model2d.JoinedSolid
	for _, p := range parts {
		js = append(js, &model2d.Rect{MinVal: m3.C2(p[0]), MaxVal: m3.C2(p[1])})
	}
	if b.Union {
		return js
	}
	br := &model2d.Rect{MinVal: m3.C2(base[0]), MaxVal: m3.C2(base[1])}
	if len(js) == 0 {
		return br
	}
	return &model2d.SubtractedSolid{Positive: br, Negative: js}
}

func boxMeetsRectSurface2(lo, hi kit.V2, q [2]kit.V2) bool {
	inside := true
	for a := 0; a < 2; a++ {
		if hi[a] < q[0][a] || lo[a] > q[1][a] {
			return false
		}
		if !(q[0][a] < lo[a] && hi[a] < q[1][a]) {
			inside = false
		}
	}
	return !inside
}

func (s source2) Solid() model2d.Solid {
	switch s.Kind {
	case "csg":
		return s.Tree.Build()
	case "field":
		return s.Field.Solid()
	case "lattice":
		return s.Lat.Solid()
	case "boxes":
		return s.Boxes.Solid()
	}
	panic("unknown source " + s.Kind)
}

func prims2(n *gen.Node2, out []*gen.Shape2) []*gen.Shape2 {
	if n.Op == "prim" {
		return append(out, n.Shape)
	}
	for _, k := range n.Kids {
		out = prims2(k, out)
	}
	return out
}

func (s source2) meets2() func(lo, hi kit.V2, margin float64) bool {
	switch s.Kind {
	case "csg":
		ps := prims2(s.Tree, nil)
		return func(lo, hi kit.V2, margin float64) bool {
			c := lo.Mid(hi)
			h := (hi.Dist(lo)/2+margin)*(1+1e-9) + 1e-9
			for _, p := range ps {
				if math.Abs(p.RefSDF(c).SDF) <= h {
					return true
				}
			}
			return false
		}
	case "field":
		f := s.Field
		return func(lo, hi kit.V2, margin float64) bool {
			pos, neg := false, false
			var i0, i1 [2]int
			for a := 0; a < 2; a++ {
				l := (lo[a]-margin)/f.Scale - 1e-9
				h := (hi[a]+margin)/f.Scale + 1e-9
				if l < 0 || h > float64(f.N-1) {
					neg = true
				}
				i0[a] = int(math.Max(0, math.Floor(l)))
				i1[a] = int(math.Min(float64(f.N-1), math.Ceil(h)))
				if i0[a] > i1[a] {
					return false
				}
			}
			for y := i0[1]; y <= i1[1]; y++ {
				for x := i0[0]; x <= i1[0]; x++ {
					if f.Vals[x+f.N*y] > 0 {
						pos = true
					} else {
						neg = true
					}
				}
			}
			return pos && neg
		}
	case "lattice":
		l := s.Lat
		return func(lo, hi kit.V2, margin float64) bool {
			var i0, i1 [2]int
			for a := 0; a < 2; a++ {
				i0[a] = int(math.Floor(lo[a] - margin + 0.5))
				i1[a] = int(math.Floor(hi[a] + margin + 0.5))
			}
			first := l.At(i0[0], i0[1])
			for y := i0[1]; y <= i1[1]; y++ {
				for x := i0[0]; x <= i1[0]; x++ {
					if l.At(x, y) != first {
						return true
					}
				}
			}
			return false
		}
	case "boxes":
		base, parts := s.Boxes.rects()
		union := s.Boxes.Union
		return func(lo, hi kit.V2, margin float64) bool {
			for a := 0; a < 2; a++ {
				lo[a] -= margin
				hi[a] += margin
			}
			if !union && boxMeetsRectSurface2(lo, hi, base) {
				return true
			}
			for _, p := range parts {
				if boxMeetsRectSurface2(lo, hi, p) {
					return true
				}
			}
			return false
		}
	}
	panic("unknown source " + s.Kind)
}

func genBoxes2(t *rapid.T) *boxes2 {
	b := &boxes2{}
	b.Delta = rapid.SampledFrom([]float64{0.25, 0.5, 1, 0.125, 2}).Draw(t, "boxes.delta")
	for a := 0; a < 2; a++ {
		b.Min[a] = float64(gen.Int(t, -8, 8, "boxes.min")) * b.Delta
	}
	for a := 0; a < 2; a++ {
		b.N[a] = gen.Int(t, 2, 60, "boxes.n")
	}
	b.Union = rapid.IntRange(0, 2).Draw(t, "boxes.union") == 0
	n := rapid.IntRange(1, 5).Draw(t, "boxes.parts")
	for i := 0; i < n; i++ {
		var p [4]int
		for a := 0; a < 2; a++ {
			lo := gen.Int(t, 0, b.N[a]-1, "boxes.lo")
			hi := gen.Int(t, lo+1, b.N[a], "boxes.hi")
			p[a], p[2+a] = lo, hi
		}
		b.Parts = append(b.Parts, p)
	}
	return b
}

func genSource2(t *rapid.T, kinds []string) source2 {
	switch rapid.SampledFrom(kinds).Draw(t, "source") {
	case "csg":
		return source2{Kind: "csg", Tree: gen.Node2Gen(t, 3, 12, "tree")}
	case "field":
		f := gen.Field2Gen(t, 9, "field")
		return source2{Kind: "field", Field: &f}
	case "lattice":
		l := gen.Lattice2Gen(t, 30, "lattice")
		return source2{Kind: "lattice", Lat: &l}
	default:
		return source2{Kind: "boxes", Boxes: genBoxes2(t)}
	}
}

func (s source2) spacing(solid model2d.Solid, cells float64) float64 {
	switch s.Kind {
	case "lattice":
		return 1
	case "boxes":
		return s.Boxes.Delta
	}
	return solid.Max().Sub(solid.Min()).MaxCoord() / cells
}
