package c13

// Clause group 2: colliders, signed distance fields, solids, hierarchies, UV lookups and render
// objects derived from ONE mesh are queried from many goroutines; every answer must equal the
// answer of sequential use of the same objects (the queries are documented as safe for
// concurrency, so they must behave as pure functions of the object).

import (
	"fmt"
	"math"
	"strings"

	"github.com/unixpickle/model3d/model2d"
	"github.com/unixpickle/model3d/model3d"
	"github.com/unixpickle/model3d/render3d"
	"pgregory.net/rapid"
	"verifharness/gen"
	"verifharness/kit"
	"verifharness/m3"
)

type derivedCase struct {
	Mesh     recipe3   `json:"mesh"`
	Procs    int       `json:"procs"`
	SeqFirst bool      `json:"seq_first"` // run the sequential reference before (true) or after the goroutines
	Lists    [][]query `json:"lists"`
}

type derived2Case struct {
	Mesh     recipe2   `json:"mesh"`
	Procs    int       `json:"procs"`
	SeqFirst bool      `json:"seq_first"`
	Lists    [][]query `json:"lists"`
}

var derivedOps3 = []string{"coll.ray", "coll.ray", "coll.first", "coll.sphere", "coll.rect", "coll.segment", "coll.tri", "coll.contains", "interp.first",
	"sdf.sdf", "sdf.point", "sdf.normal", "sdf.face", "solid.contains", "inset.contains", "hollow.contains",
	"hier.contains", "hier.contains", "uv.map", "uv.map", "obj.collider", "obj.colorfunc", "obj.joined", "obj.bvh"}

var derivedOps2 = []string{"coll.ray", "coll.ray", "coll.first", "coll.circle", "coll.rect", "coll.segment", "coll.contains",
	"sdf.sdf", "sdf.point", "sdf.normal", "sdf.face", "solid.contains", "inset.contains", "hollow.contains", "hier.contains", "hier.contains"}

// nested recipe: concentric shells (each inside the previous one's inscribed sphere) plus
// optional disjoint satellites: a valid input for MeshToHierarchy by construction.
func genNested3(t *rapid.T) recipe3 {
	var r recipe3
	c := gen.Vec3(t, 0.5, "nest.c")
	rad := gen.F(t, 0.8, 1.2, "nest.r")
	for i, n := 0, gen.Int(t, 1, 3, "nest.depth"); i < n; i++ {
		if i%2 == 0 || gen.Int(t, 0, 1, "nest.box") == 0 {
			r.Parts = append(r.Parts, part{Kind: "ico", C: c, R: rad, N: gen.Int(t, 1, 2, "nest.n")})
			// an icosphere with circumradius R contains the ball of radius 0.79 R
			rad *= gen.F(t, 0.35, 0.7, "nest.shrink")
		} else {
			// box inscribed in the ball of radius 0.79*rad/… : half diagonal = rad*0.7
			hx := rad * 0.7 / math.Sqrt(3)
			r.Parts = append(r.Parts, part{Kind: "rect", C: c.Sub(kit.V3{hx, hx, hx}), B: kit.V3{2 * hx, 2 * hx, 2 * hx}})
			rad = hx * gen.F(t, 0.4, 0.9, "nest.shrink")
		}
	}
	for i, n := 0, gen.Int(t, 0, 2, "nest.satellites"); i < n; i++ {
		// centres at distance 3(i+1) along x: disjoint from everything else
		r.Parts = append(r.Parts, part{Kind: "ico", C: c.Add(kit.V3{3 * float64(i+1), 0.3, -0.2}), R: gen.F(t, 0.2, 1, "nest.sr"), N: 1})
	}
	return r
}

func (r recipe3) nested() bool {
	// recipes produced by genNested3 (the property is structural, not checked geometrically)
	if len(r.Parts) == 0 {
		return false
	}
	for _, p := range r.Parts {
		if p.Kind != "ico" && p.Kind != "rect" {
			return false
		}
	}
	return true
}

func genDerivedCase(t *rapid.T) derivedCase {
	c := derivedCase{Procs: genProcs(t), SeqFirst: gen.Int(t, 0, 3, "seqfirst") == 0}
	switch k := gen.Int(t, 0, 9, "recipe"); {
	case k < 3:
		c.Mesh = genNested3(t)
	case k < 5:
		c.Mesh = recipe3{Parts: []part{genPart3(t, []string{"grid"}, "mesh.part")}}
	default:
		c.Mesh = genRecipe3(t, []string{"ico", "rect", "torus", "cyl", "cone", "lattice", "lattice", "latsearch", "soup"}, 2, "mesh")
	}
	n := gen.Int(t, 2, 16, "goroutines")
	c.Lists = make([][]query, n)
	for g := range c.Lists {
		for i, k := 0, gen.Int(t, 1, 8, "len"); i < k; i++ {
			q := genQuery(t, derivedOps3, derivedOps3, false)
			// steer uv / hierarchy queries to the recipes that support them (others fall back to coll.ray)
			if len(c.Mesh.Parts) == 1 && c.Mesh.Parts[0].Kind == "grid" && gen.Int(t, 0, 1, "uvbias") == 0 {
				q.Op = "uv.map"
			} else if c.Mesh.nested() && gen.Int(t, 0, 2, "hierbias") == 0 {
				q.Op = "hier.contains"
			}
			c.Lists[g] = append(c.Lists[g], q)
		}
	}
	return c
}

// objects3 holds everything derived from one mesh.
type objects3 struct {
	h      *mesh3
	coll   model3d.MultiCollider
	interp model3d.MultiCollider
	sdf    model3d.FaceSDF
	solid  model3d.Solid
	inset  model3d.Solid
	hollow model3d.Solid
	hier   []*model3d.MeshHierarchy
	uv     func(model2d.Coord) (model3d.Coord3D, *model3d.Triangle)
	objs   map[string]render3d.Object
}

func triColor(t *model3d.Triangle) [3]float64 {
	f := func(x float64) float64 { return x - math.Floor(x) }
	return [3]float64{f(t[0].X * 3.1), f(t[1].Y * 2.3), f(t[2].Z * 1.7)}
}

func derive3(r recipe3) *objects3 {
	h := r.instance("fresh")
	o := &objects3{h: h, objs: map[string]render3d.Object{}}
	o.coll = model3d.MeshToCollider(h.m)
	o.solid = model3d.NewColliderSolid(o.coll)
	o.inset = model3d.NewColliderSolidInset(o.coll, 0.05)
	o.hollow = model3d.NewColliderSolidHollow(o.coll, 0.07)
	if len(h.ptrs) > 0 {
		if !h.degen {
			// faces with a repeated vertex have no defined closest point / normal (the library's distance
			// queries divide by the edge length: NaN distances, and a mesh made only of such faces has no
			// nearest face at all, so NormalSDF dereferences nil -- sequentially as well; every caller feeds
			// MeshToSDF proper faces).  Their sdf.* / interp.* queries fall back to coll.ray.
			o.sdf = model3d.MeshToSDF(h.m)
			o.interp = model3d.MeshToInterpNormalCollider(h.m)
		}
		mat := &render3d.LambertMaterial{DiffuseColor: render3d.NewColorRGB(0.2, 0.5, 0.9), AmbientColor: render3d.NewColor(0.1)}
		o.objs["obj.collider"] = &render3d.ColliderObject{Collider: o.coll, Material: mat}
		o.objs["obj.colorfunc"] = render3d.Objectify(h.m, render3d.TriangleColorFunc(triColor))
		o.objs["obj.joined"] = render3d.JoinedObject{
			o.objs["obj.collider"],
			render3d.Translate(o.objs["obj.colorfunc"], model3d.XYZ(0.31, -0.2, 0.13)),
			render3d.Rotate(o.objs["obj.collider"], model3d.XYZ(0.3, 0.5, -0.8).Normalize(), 0.7),
		}
		var leaves []render3d.Object
		for _, t := range h.ptrs {
			leaves = append(leaves, &render3d.ColliderObject{Collider: t, Material: mat})
		}
		o.objs["obj.bvh"] = render3d.BVHToObject(model3d.NewBVHAreaDensity(leaves))
	}
	if r.nested() && !h.m.NeedsRepair() {
		o.hier = model3d.MeshToHierarchy(h.m)
	}
	if len(r.Parts) == 1 && r.Parts[0].Kind == "grid" {
		mapping := model3d.NewCoordMap[model2d.Coord]()
		c := r.Parts[0].C
		for _, t := range h.ptrs {
			for _, v := range t {
				mapping.Store(v, model2d.XY(v.X-c[0], v.Y-c[1]))
			}
		}
		o.uv = model3d.NewMeshUVMapForCoords(h.m, mapping).MapFn()
	}
	return o
}

func rcs(h *mesh3, rc model3d.RayCollision, ok bool) string {
	if !ok {
		return "miss"
	}
	s := fl(rc.Scale) + v3s(rc.Normal)
	if tc, _ := rc.Extra.(*model3d.TriangleCollision); tc != nil {
		s += fmt.Sprint("#", h.idx[tc.Triangle], tc.Barycentric)
	}
	return s
}

// run answers one query; the second result says whether the answer is "non-empty" (a hit).
func (o *objects3) run(q query) (answer, bool) {
	h := o.h
	n := len(h.ptrs)
	p := m3.C3(q.P)
	d := m3.C3(q.D)
	if n > 0 && q.J%2 == 0 {
		// aim at a face so that hits are common
		t := h.tris[mod(q.I, n)]
		target := t[0].Scale(0.5).Add(t[1].Scale(0.3)).Add(t[2].Scale(0.2))
		if dd := target.Sub(q.P); dd.Norm() > 1e-6 {
			d = m3.C3(dd)
		}
		if q.J%4 == 0 {
			// and query points close to the surface
			p = m3.C3(target.Add(q.D.Scale(0.05)))
		}
	}
	ray := &model3d.Ray{Origin: m3.C3(q.P), Direction: d}
	op := q.Op
	switch {
	case strings.HasPrefix(op, "sdf.") && o.sdf == nil, op == "interp.first" && o.interp == nil,
		op == "hier.contains" && o.hier == nil, op == "uv.map" && o.uv == nil, strings.HasPrefix(op, "obj.") && n == 0:
		op = "coll.ray"
	}
	switch op {
	case "coll.ray":
		var xs []string
		cnt := o.coll.RayCollisions(ray, func(rc model3d.RayCollision) { xs = append(xs, rcs(h, rc, true)) })
		return answer{S: fmt.Sprint("coll.ray ", cnt, xs)}, cnt > 0
	case "coll.first":
		rc, ok := o.coll.FirstRayCollision(ray)
		return answer{S: "coll.first " + rcs(h, rc, ok)}, ok
	case "interp.first":
		rc, ok := o.interp.FirstRayCollision(ray)
		return answer{S: "interp.first " + rcs(h, rc, ok)}, ok
	case "coll.sphere":
		b := o.coll.SphereCollision(p, q.R*0.3)
		return answer{S: fmt.Sprint("coll.sphere ", b)}, b
	case "coll.rect":
		b := o.coll.RectCollision(&model3d.Rect{MinVal: p, MaxVal: p.Add(model3d.XYZ(q.R, q.R*0.7, q.R*0.4))})
		return answer{S: fmt.Sprint("coll.rect ", b)}, b
	case "coll.segment":
		b := o.coll.SegmentCollision(model3d.NewSegment(ray.Origin, ray.Origin.Add(d.Scale(1.5))))
		return answer{S: fmt.Sprint("coll.segment ", b)}, b
	case "coll.tri":
		t := &model3d.Triangle{p, p.Add(model3d.XYZ(q.R, 0.1, -0.2)), p.Add(m3.C3(q.D))}
		var xs []string
		for _, s := range o.coll.TriangleCollisions(t) {
			xs = append(xs, v3s(s[0])+v3s(s[1]))
		}
		return answer{S: fmt.Sprint("coll.tri ", xs)}, len(xs) > 0
	case "coll.contains":
		b := model3d.ColliderContains(o.coll, p, (q.R-0.5)*0.2)
		return answer{S: fmt.Sprint("coll.contains ", b)}, b
	case "sdf.sdf":
		return answer{S: "sdf.sdf " + fl(o.sdf.SDF(p))}, true
	case "sdf.point":
		pt, v := o.sdf.PointSDF(p)
		return answer{S: "sdf.point " + v3s(pt) + fl(v)}, true
	case "sdf.normal":
		nv, v := o.sdf.NormalSDF(p)
		return answer{S: "sdf.normal " + v3s(nv) + fl(v)}, true
	case "sdf.face":
		f, pt, v := o.sdf.FaceSDF(p)
		return answer{S: fmt.Sprint("sdf.face ", h.idx[f], v3s(pt), fl(v))}, true
	case "solid.contains":
		b := o.solid.Contains(p)
		return answer{S: fmt.Sprint("solid.contains ", b)}, b
	case "inset.contains":
		b := o.inset.Contains(p)
		return answer{S: fmt.Sprint("inset.contains ", b)}, b
	case "hollow.contains":
		b := o.hollow.Contains(p)
		return answer{S: fmt.Sprint("hollow.contains ", b)}, b
	case "hier.contains":
		var bs []bool
		any := false
		for _, x := range o.hier {
			b := x.Contains(p)
			bs = append(bs, b)
			any = any || b
		}
		return answer{S: fmt.Sprint("hier.contains ", bs)}, any
	case "uv.map":
		// UV coordinates inside and (a little) outside the unit square
		pt, t := o.uv(model2d.XY(q.P[0]*0.4+0.5, q.P[1]*0.4+0.5))
		return answer{S: fmt.Sprint("uv.map ", v3s(pt), h.idx[t])}, true
	case "obj.collider", "obj.colorfunc", "obj.joined", "obj.bvh":
		rc, mat, ok := o.objs[op].Cast(ray)
		s := op + " " + rcs(h, rc, ok)
		if ok && mat != nil {
			a, e := mat.Ambient(), mat.Emission()
			bsdf := mat.BSDF(rc.Normal, model3d.XYZ(0.2, 0.3, -0.9).Normalize(), ray.Direction.Normalize().Scale(-1))
			s += fmt.Sprint(a, e, bsdf)
		}
		return answer{S: s}, ok
	}
	panic("c13: unknown derived query " + q.Op)
}

func labelDerived(o *kit.Obs, lists [][]query, hits []int, seqFirst bool) {
	withHit := 0
	for _, h := range hits {
		if h > 0 {
			withHit++
		}
	}
	if withHit >= 2 {
		o.NonTrivial()
		o.Label("hits-on->=2-goroutines")
	} else {
		o.Label("hits-on-<2-goroutines")
	}
	if seqFirst {
		o.Label("sequential-first")
	} else {
		o.Label("goroutines-first")
	}
	seen := map[string]bool{}
	for _, l := range lists {
		for _, q := range l {
			k := q.Op
			if i := strings.IndexByte(k, '.'); i > 0 {
				k = k[:i]
			}
			if !seen[k] {
				seen[k] = true
				o.Label("object:" + k)
			}
		}
	}
}

func checkDerived(c derivedCase, o *kit.Obs) error {
	objs := derive3(c.Mesh)
	for _, p := range c.Mesh.Parts {
		o.Label("part:" + p.Kind)
	}
	if objs.h.degen {
		o.Label("degenerate-faces(no sdf)")
	}
	if objs.hier != nil {
		o.Label("with-hierarchy")
	}
	if objs.uv != nil {
		o.Label("with-uvmap")
	}
	seq := make([][]answer, len(c.Lists))
	hits := make([]int, len(c.Lists))
	sequential := func() {
		withProcs(1, func() {
			for g, l := range c.Lists {
				for _, q := range l {
					a, hit := objs.run(q)
					seq[g] = append(seq[g], a)
					if hit {
						hits[g]++
					}
				}
			}
		})
	}
	if c.SeqFirst {
		sequential()
	}
	conc := make([][]answer, len(c.Lists))
	runConcurrently(len(c.Lists), c.Procs, func(g int) {
		for _, q := range c.Lists[g] {
			a, _ := objs.run(q)
			conc[g] = append(conc[g], a)
		}
	})
	if !c.SeqFirst {
		sequential()
	}
	labelDerived(o, c.Lists, hits, c.SeqFirst)
	return compareLists(fmt.Sprintf("objects derived from a mesh of %d faces", len(objs.h.ptrs)), conc, seq,
		func(g, k int) string { return c.Lists[g][k].Op })
}

// ---------------------------------------------------------------------------
// 2D

func genNested2(t *rapid.T) recipe2 {
	var r recipe2
	c := gen.Vec2(t, 0.5, "nest.c")
	rad := gen.F(t, 0.8, 1.2, "nest.r")
	for i, n := 0, gen.Int(t, 1, 3, "nest.depth"); i < n; i++ {
		// polygon with radius in [rad*(1-a), rad*(1+a)], a <= 0.2, n >= 8: contains the disc of radius 0.7*rad
		r.Parts = append(r.Parts, part2{Kind: "polar", C: c, R: rad, A: gen.F(t, 0, 0.2, "nest.a"), N: gen.Int(t, 8, 30, "nest.n"), N2: gen.Int(t, 1, 4, "nest.n2")})
		rad *= gen.F(t, 0.3, 0.55, "nest.shrink")
	}
	for i, n := 0, gen.Int(t, 0, 2, "nest.satellites"); i < n; i++ {
		r.Parts = append(r.Parts, part2{Kind: "rect", C: c.Add(kit.V2{3 * float64(i+1), 0.3}), B: kit.V2{gen.F(t, 0.2, 1, "nest.sx"), gen.F(t, 0.2, 1, "nest.sy")}})
	}
	return r
}

func (r recipe2) nested() bool {
	if len(r.Parts) == 0 {
		return false
	}
	for _, p := range r.Parts {
		if p.Kind != "polar" && p.Kind != "rect" {
			return false
		}
	}
	return true
}

func genDerived2Case(t *rapid.T) derived2Case {
	c := derived2Case{Procs: genProcs(t), SeqFirst: gen.Int(t, 0, 3, "seqfirst") == 0}
	if gen.Int(t, 0, 9, "recipe") < 4 {
		c.Mesh = genNested2(t)
	} else {
		c.Mesh = genRecipe2(t, []string{"polar", "rect", "lattice", "lattice", "latsearch", "soup"}, 2, "mesh")
	}
	n := gen.Int(t, 2, 16, "goroutines")
	c.Lists = make([][]query, n)
	for g := range c.Lists {
		for i, k := 0, gen.Int(t, 1, 8, "len"); i < k; i++ {
			q := genQuery(t, derivedOps2, derivedOps2, false)
			if c.Mesh.nested() && gen.Int(t, 0, 2, "hierbias") == 0 {
				q.Op = "hier.contains"
			}
			c.Lists[g] = append(c.Lists[g], q)
		}
	}
	return c
}

type objects2 struct {
	h      *mesh2
	coll   model2d.MultiCollider
	sdf    model2d.FaceSDF
	solid  model2d.Solid
	inset  model2d.Solid
	hollow model2d.Solid
	hier   []*model2d.MeshHierarchy
}

func derive2(r recipe2) *objects2 {
	h := r.instance("fresh")
	o := &objects2{h: h}
	o.coll = model2d.MeshToCollider(h.m)
	if len(h.ptrs) > 0 {
		o.solid = model2d.NewColliderSolid(o.coll)
		o.inset = model2d.NewColliderSolidInset(o.coll, 0.05)
		o.hollow = model2d.NewColliderSolidHollow(o.coll, 0.07)
		if !h.degen {
			// zero-length segments: see derive3 (Segment.Closest divides by the length; a mesh of nothing
			// but such segments makes meshSDF.NormalSDF dereference a nil face, with or without goroutines)
			o.sdf = model2d.MeshToSDF(h.m)
		}
	}
	if r.nested() && h.m.Manifold() {
		o.hier = model2d.MeshToHierarchy(h.m)
	}
	return o
}

func rcs2(h *mesh2, rc model2d.RayCollision, ok bool) string {
	if !ok {
		return "miss"
	}
	s := fl(rc.Scale) + v2s(rc.Normal)
	if seg, _ := rc.Extra.(*model2d.Segment); seg != nil {
		s += fmt.Sprint("#", h.idx[seg])
	}
	return s
}

func (o *objects2) run(q query) (answer, bool) {
	h := o.h
	n := len(h.ptrs)
	p := model2d.XY(q.P[0], q.P[1])
	d := model2d.XY(q.D[0], q.D[1]+q.D[2]*0.37+1e-3)
	if n > 0 && q.J%2 == 0 {
		s := h.segs[mod(q.I, n)]
		target := s[0].Scale(0.6).Add(s[1].Scale(0.4))
		if dd := target.Sub(kit.V2{q.P[0], q.P[1]}); dd.Norm() > 1e-6 {
			d = m3.C2(dd)
		}
		if q.J%4 == 0 {
			p = m3.C2(target.Add(kit.V2{q.D[0], q.D[1]}.Scale(0.05)))
		}
	}
	ray := &model2d.Ray{Origin: model2d.XY(q.P[0], q.P[1]), Direction: d}
	op := q.Op
	switch {
	case strings.HasPrefix(op, "sdf.") && o.sdf == nil, op == "hier.contains" && o.hier == nil,
		strings.HasSuffix(op, ".contains") && op != "hier.contains" && op != "coll.contains" && o.solid == nil:
		op = "coll.ray"
	}
	switch op {
	case "coll.ray":
		var xs []string
		cnt := o.coll.RayCollisions(ray, func(rc model2d.RayCollision) { xs = append(xs, rcs2(h, rc, true)) })
		return answer{S: fmt.Sprint("coll.ray ", cnt, xs)}, cnt > 0
	case "coll.first":
		rc, ok := o.coll.FirstRayCollision(ray)
		return answer{S: "coll.first " + rcs2(h, rc, ok)}, ok
	case "coll.circle":
		b := o.coll.CircleCollision(p, q.R*0.3)
		return answer{S: fmt.Sprint("coll.circle ", b)}, b
	case "coll.rect":
		b := o.coll.RectCollision(&model2d.Rect{MinVal: p, MaxVal: p.Add(model2d.XY(q.R, q.R*0.7))})
		return answer{S: fmt.Sprint("coll.rect ", b)}, b
	case "coll.segment":
		b := o.coll.SegmentCollision(&model2d.Segment{ray.Origin, ray.Origin.Add(d.Scale(1.5))})
		return answer{S: fmt.Sprint("coll.segment ", b)}, b
	case "coll.contains":
		b := model2d.ColliderContains(o.coll, p, (q.R-0.5)*0.2)
		return answer{S: fmt.Sprint("coll.contains ", b)}, b
	case "sdf.sdf":
		return answer{S: "sdf.sdf " + fl(o.sdf.SDF(p))}, true
	case "sdf.point":
		pt, v := o.sdf.PointSDF(p)
		return answer{S: "sdf.point " + v2s(pt) + fl(v)}, true
	case "sdf.normal":
		nv, v := o.sdf.NormalSDF(p)
		return answer{S: "sdf.normal " + v2s(nv) + fl(v)}, true
	case "sdf.face":
		f, pt, v := o.sdf.FaceSDF(p)
		return answer{S: fmt.Sprint("sdf.face ", h.idx[f], v2s(pt), fl(v))}, true
	case "solid.contains":
		b := o.solid.Contains(p)
		return answer{S: fmt.Sprint("solid.contains ", b)}, b
	case "inset.contains":
		b := o.inset.Contains(p)
		return answer{S: fmt.Sprint("inset.contains ", b)}, b
	case "hollow.contains":
		b := o.hollow.Contains(p)
		return answer{S: fmt.Sprint("hollow.contains ", b)}, b
	case "hier.contains":
		var bs []bool
		any := false
		for _, x := range o.hier {
			b := x.Contains(p)
			bs = append(bs, b)
			any = any || b
		}
		return answer{S: fmt.Sprint("hier.contains ", bs)}, any
	}
	panic("c13: unknown derived 2D query " + q.Op)
}

func checkDerived2(c derived2Case, o *kit.Obs) error {
	objs := derive2(c.Mesh)
	for _, p := range c.Mesh.Parts {
		o.Label("part:" + p.Kind)
	}
	if objs.h.degen {
		o.Label("degenerate-faces(no sdf)")
	}
	if objs.hier != nil {
		o.Label("with-hierarchy")
	}
	seq := make([][]answer, len(c.Lists))
	hits := make([]int, len(c.Lists))
	sequential := func() {
		withProcs(1, func() {
			for g, l := range c.Lists {
				for _, q := range l {
					a, hit := objs.run(q)
					seq[g] = append(seq[g], a)
					if hit {
						hits[g]++
					}
				}
			}
		})
	}
	if c.SeqFirst {
		sequential()
	}
	conc := make([][]answer, len(c.Lists))
	runConcurrently(len(c.Lists), c.Procs, func(g int) {
		for _, q := range c.Lists[g] {
			a, _ := objs.run(q)
			conc[g] = append(conc[g], a)
		}
	})
	if !c.SeqFirst {
		sequential()
	}
	labelDerived(o, c.Lists, hits, c.SeqFirst)
	return compareLists(fmt.Sprintf("objects derived from a 2D mesh of %d segments", len(objs.h.ptrs)), conc, seq,
		func(g, k int) string { return c.Lists[g][k].Op })
}
