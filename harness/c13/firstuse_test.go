package c13

import (
	"fmt"
	"sync"

	"github.com/unixpickle/model3d/model2d"
	"github.com/unixpickle/model3d/model3d"
	"github.com/unixpickle/model3d/render3d"
	"github.com/unixpickle/model3d/toolbox3d"
	"verifharness/kit"
)

// First use.  Library entry points may be called from several goroutines at once on their own inputs; anything the
// library builds lazily and keeps in package-level state (tables, caches) is then initialised by whichever call comes
// first, possibly by several at the same time.  Such initialisation happens once per PROCESS, so it has to be provoked
// before anything else in the process has used the routine: this clause is the first one of the package, runs once per
// shard process (each shard is a fresh process), and makes four goroutines enter every routine of a list at the same
// time.  The race detector decides; the results are also compared with a later sequential call.

type firstUseCase struct {
	Index int `json:"index"`
}

var firstUseOnce sync.Once
var firstUseErr error

func firstUseRoutines() []func() string {
	ball := &model3d.Sphere{Center: model3d.XYZ(0.1, -0.2, 0.3), Radius: 0.9}
	disc := &model2d.Circle{Center: model2d.XY(0.1, -0.2), Radius: 0.9}
	// one union shared by all goroutines (deriving from a solid only reads it)
	var shared model3d.JoinedSolid
	for i := 0; i < 14; i++ {
		shared = append(shared, &model3d.Sphere{Center: model3d.XYZ(float64(i%5), float64(i%3)*1.3, float64(i%4)*0.7), Radius: 0.4 + 0.05*float64(i)})
	}
	return []func() string{
		func() string {
			opt := shared.Optimize()
			p := model3d.XYZ(2.1, 1.2, 0.8)
			return fmt.Sprint(opt.Contains(p), shared.Contains(p), opt.Min(), opt.Max(), shared.Contains(model3d.XYZ(0, 0, 0.1)))
		},
		func() string { return fmt.Sprint(model3d.MarchingCubesSearch(ball, 0.2, 3).NumTriangles()) },
		func() string { return fmt.Sprint(model2d.MarchingSquaresSearch(disc, 0.05, 3).NumSegments()) },
		func() string {
			return fmt.Sprint(model3d.DualContour(ball, 0.25, true, true).NumTriangles())
		},
		func() string { return fmt.Sprint(model3d.NewMeshIcosphere(model3d.Origin, 1, 3).NumTriangles()) },
		func() string {
			m := model3d.NewMeshIcosphere(model3d.Origin, 1, 2)
			return fmt.Sprint(model3d.MeshToSDF(m).SDF(model3d.XYZ(0.2, 0.1, 0.3)), len(model3d.MeshToHierarchy(m)))
		},
		func() string {
			return fmt.Sprint(model3d.DecimateSimple(model3d.NewMeshIcosphere(model3d.Origin, 1, 3), 0.02).NumTriangles())
		},
		func() string {
			img := render3d.NewImage(6, 6)
			obj := &render3d.ColliderObject{Collider: ball, Material: &render3d.LambertMaterial{DiffuseColor: render3d.NewColor(0.5)}}
			(&render3d.RayCaster{Camera: render3d.NewCameraAt(model3d.XYZ(0, -4, 0), model3d.Origin, 0.8),
				Lights: []*render3d.PointLight{{Origin: model3d.XYZ(2, -3, 4), Color: render3d.NewColor(1)}}}).Render(img, obj)
			return fmt.Sprint(img.Data[14])
		},
		func() string {
			img := (&model2d.Rasterizer{Scale: 20}).Rasterize(disc)
			return fmt.Sprint(img.Bounds(), img.GrayAt(20, 20))
		},
		func() string {
			// box sets and height maps whose meshes have pinched edges and vertices to separate (every goroutine its own)
			rs := toolbox3d.NewRectSet()
			for i := 0; i < 4; i++ {
				f := float64(i)
				rs.Add(&model3d.Rect{MinVal: model3d.XYZ(f, f, f*0.5), MaxVal: model3d.XYZ(f+1, f+1, f*0.5+1)})
			}
			rs.Add(&model3d.Rect{MinVal: model3d.XYZ(1, 0, 1), MaxVal: model3d.XYZ(2, 1, 2)})
			m := rs.Mesh()
			hm := toolbox3d.NewHeightMap(model2d.XY(0, 0), model2d.XY(1, 1), 12)
			for i := 0; i < 6; i++ {
				hm.AddSphere(model2d.XY(0.15+0.14*float64(i), 0.2+0.12*float64(i%3)), 0.09)
			}
			hmesh := hm.Mesh()
			return fmt.Sprint(m.NumTriangles(), m.NeedsRepair(), len(m.SingularVertices()), hmesh.NumTriangles(), hmesh.NeedsRepair(), len(hmesh.SingularVertices()),
				toolbox3d.NewRectSet().Mesh().NumTriangles(), model3d.NewConvexPolytopeRect(model3d.XYZ(0, 0, 0), model3d.XYZ(1, 2, 3)).Mesh().NumTriangles())
		},
		func() string {
			return fmt.Sprint(model2d.Triangulate([]model2d.Coord{{X: 0, Y: 0}, {X: 0.9, Y: 0.3}, {X: 2, Y: 0}, {X: 1, Y: 2}}))
		},
	}
}

func runFirstUse() error {
	for ri, f := range firstUseRoutines() {
		const n = 4
		var wg sync.WaitGroup
		out := make([]string, n)
		start := make(chan struct{})
		for g := 0; g < n; g++ {
			wg.Add(1)
			go func(g int) {
				defer wg.Done()
				<-start
				out[g] = f()
			}(g)
		}
		close(start)
		wg.Wait()
		want := f()
		for g := range out {
			if out[g] != want {
				return fmt.Errorf("routine %d: goroutine %d of %d concurrent first calls got %s, a later sequential call gives %s", ri, g, n, out[g], want)
			}
		}
	}
	return nil
}

func checkFirstUse(c firstUseCase, o *kit.Obs) error {
	firstUseOnce.Do(func() { firstUseErr = runFirstUse() })
	o.NonTrivial()
	return firstUseErr
}
