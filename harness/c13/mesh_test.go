package c13

// Clause group 1: many goroutines run their own query lists against one shared mesh whose vertex
// index has (usually) not been built yet; every answer must equal the answer of a sequential run
// of the same lists on an identically built mesh.

import (
	"fmt"
	"hash/fnv"
	"sort"

	"github.com/unixpickle/model3d/model2d"
	"github.com/unixpickle/model3d/model3d"
	"pgregory.net/rapid"
	"verifharness/gen"
	"verifharness/kit"
	"verifharness/m3"
)

type query struct {
	Op string  `json:"op"`
	I  int     `json:"i"`
	J  int     `json:"j"`
	P  kit.V3  `json:"p"`
	D  kit.V3  `json:"d"`
	R  float64 `json:"r,omitempty"`
}

type meshCase struct {
	Mesh  recipe3   `json:"mesh"`
	Prep  string    `json:"prep"`
	Procs int       `json:"procs"`
	Reps  int       `json:"reps"`
	Lists [][]query `json:"lists"`
}

type mesh2Case struct {
	Mesh  recipe2   `json:"mesh"`
	Prep  string    `json:"prep"`
	Procs int       `json:"procs"`
	Reps  int       `json:"reps"`
	Lists [][]query `json:"lists"`
}

// queries that need the lazily built vertex -> faces index
var indexOps3 = []string{"find1", "find2", "find3", "findx", "findp", "neighbors", "neighborsCopy", "vertexSlice", "iterateVertices", "singular", "orientable"}
var otherOps3 = []string{"iterate", "triangleSlice", "min", "max", "num", "contains", "area", "volume", "needsRepair", "inconsistent", "selfInt",
	"vertexNormals", "allVertexNeighbors", "colliderRay", "sdf", "copy", "encode"}
var indexOps2 = []string{"find1", "find2", "findx", "findp", "neighbors", "neighborsCopy", "vertexSlice", "iterateVertices", "manifold", "inconsistentV"}
var otherOps2 = []string{"iterate", "segmentSlice", "min", "max", "num", "contains", "area", "colliderRay", "sdf", "copy"}

func isIndexOp(op string, ops []string) bool {
	for _, o := range ops {
		if o == op {
			return true
		}
	}
	return false
}

func pick(t *rapid.T, xs []string, label string) string {
	return xs[gen.Int(t, 0, len(xs)-1, label)]
}

func genQuery(t *rapid.T, indexOps, otherOps []string, first bool) query {
	var op string
	// the first query of a list is usually one that triggers the lazy index construction
	pIndex := 5
	if first {
		pIndex = 8
	}
	if gen.Int(t, 0, 9, "opclass") < pIndex {
		op = pick(t, indexOps, "op")
	} else {
		op = pick(t, otherOps, "op")
	}
	return query{Op: op, I: gen.Int(t, 0, 1<<20, "i"), J: gen.Int(t, 0, 1<<20, "j"), P: gen.Vec3(t, 1.5, "p"), D: gen.Dir3(t, "d"), R: gen.F(t, 0.01, 1, "r")}
}

func genLists(t *rapid.T, indexOps, otherOps []string, maxLen int) [][]query {
	n := gen.Int(t, 2, 16, "goroutines")
	lists := make([][]query, n)
	for g := range lists {
		k := gen.Int(t, 1, maxLen, "len")
		for i := 0; i < k; i++ {
			lists[g] = append(lists[g], genQuery(t, indexOps, otherOps, i == 0))
		}
	}
	return lists
}

var procChoices = []int{1, 2, 2, 3, 4, 4, 8}

func genProcs(t *rapid.T) int { return procChoices[gen.Int(t, 0, len(procChoices)-1, "procs")] }

func genMeshCase(t *rapid.T) meshCase {
	return meshCase{Mesh: genRecipe3(t, meshKinds3, 3, "mesh"), Prep: pick(t, preps, "prep"), Procs: genProcs(t), Reps: gen.Int(t, 1, 3, "reps"),
		Lists: genLists(t, indexOps3, otherOps3, 6)}
}

func genMesh2Case(t *rapid.T) mesh2Case {
	return mesh2Case{Mesh: genRecipe2(t, meshKinds2, 3, "mesh"), Prep: pick(t, preps, "prep"), Procs: genProcs(t), Reps: gen.Int(t, 1, 3, "reps"),
		Lists: genLists(t, indexOps2, otherOps2, 6)}
}

func mod(i, n int) int {
	if n <= 0 {
		return 0
	}
	i %= n
	if i < 0 {
		i += n
	}
	return i
}

func hashStrings(xs []string) string {
	sort.Strings(xs)
	h := fnv.New64a()
	for _, x := range xs {
		h.Write([]byte(x))
		h.Write([]byte{0})
	}
	return fmt.Sprintf("n=%d#%x", len(xs), h.Sum64())
}

func coordSet3(cs []model3d.Coord3D) string {
	xs := make([]string, len(cs))
	for i, c := range cs {
		xs[i] = v3s(c)
	}
	return strSet(xs)
}

func coordSet2(cs []model2d.Coord) string {
	xs := make([]string, len(cs))
	for i, c := range cs {
		xs[i] = v2s(c)
	}
	return strSet(xs)
}

// run answers one query on the instance.  Every library call here only reads the mesh.
func (h *mesh3) run(q query, manifold bool) answer {
	m := h.m
	n := len(h.ptrs)
	if n == 0 {
		// nothing to index: only the point/aggregate queries make sense
		switch q.Op {
		case "find1", "find2", "find3", "findx", "neighbors", "neighborsCopy", "contains":
			q.Op = "findp"
		}
	}
	if h.degen {
		// faces with a repeated vertex: ray / distance / intersection results are not defined by the library's
		// documentation, and Triangle.SharesEdge is not symmetric for them, which makes SingularVertices
		// depend on the (random) order of the per-vertex face lists even in sequential use
		switch q.Op {
		case "colliderRay", "sdf", "selfInt", "singular":
			q.Op = "num"
		}
	}
	var t *model3d.Triangle
	if n > 0 {
		t = h.ptrs[mod(q.I, n)]
	}
	j := mod(q.J, 3)
	switch q.Op {
	case "find1":
		// an answer is the caller's own: every reader reorders and extends what it got
		res := m.Find(t[j])
		ans := h.set(res)
		for a, b := 0, len(res)-1; a < b; a, b = a+1, b-1 {
			res[a], res[b] = res[b], res[a]
		}
		res = append(res, t)
		_ = res
		return answer{S: "find1" + ans}
	case "find2":
		return answer{S: "find2" + h.set(m.Find(t[j], t[(j+1)%3]))}
	case "find3":
		return answer{S: "find3" + h.set(m.Find(t[0], t[1], t[2]))}
	case "findx":
		return answer{S: "findx" + h.set(m.Find(t[0], h.ptrs[mod(q.J, n)][1]))}
	case "findp":
		return answer{S: "findp" + h.set(m.Find(m3.C3(q.P)))}
	case "neighbors":
		return answer{S: "neighbors" + h.set(m.Neighbors(t))}
	case "neighborsCopy":
		cp := *t
		return answer{S: "neighborsCopy" + h.set(m.Neighbors(&cp))}
	case "vertexSlice":
		return answer{S: "vertexSlice" + coordSet3(m.VertexSlice())}
	case "iterateVertices":
		var cs []model3d.Coord3D
		m.IterateVertices(func(c model3d.Coord3D) { cs = append(cs, c) })
		return answer{S: "iterateVertices" + coordSet3(cs)}
	case "singular":
		return answer{S: "singular" + coordSet3(m.SingularVertices())}
	case "orientable":
		if !manifold {
			return answer{S: fmt.Sprint("num", m.NumTriangles())}
		}
		return answer{S: fmt.Sprint("orientable", m.Orientable())}
	case "iterate":
		var ts []*model3d.Triangle
		m.Iterate(func(t *model3d.Triangle) { ts = append(ts, t) })
		return answer{S: "iterate" + h.set(ts)}
	case "triangleSlice":
		return answer{S: "triangleSlice" + h.set(m.TriangleSlice())}
	case "min":
		return answer{S: "min" + v3s(m.Min())}
	case "max":
		return answer{S: "max" + v3s(m.Max())}
	case "num":
		return answer{S: fmt.Sprint("num", m.NumTriangles())}
	case "contains":
		cp := *t
		return answer{S: fmt.Sprint("contains", m.Contains(t), m.Contains(&cp))}
	case "area":
		// a sum over the faces in map order: the last bits depend on the order
		return answer{S: "area", F: []float64{m.Area(), 1e-9*h.area + 1e-300}}
	case "volume":
		return answer{S: "volume", F: []float64{m.Volume(), 1e-9*float64(n)*h.scale*h.scale*h.scale + 1e-300}}
	case "needsRepair":
		return answer{S: fmt.Sprint("needsRepair", m.NeedsRepair())}
	case "inconsistent":
		var xs []string
		for _, e := range m.InconsistentEdges() {
			xs = append(xs, v3s(e[0])+">"+v3s(e[1]))
		}
		return answer{S: "inconsistent" + strSet(xs)}
	case "selfInt":
		if n > 200 {
			return answer{S: fmt.Sprint("num", m.NumTriangles())}
		}
		return answer{S: fmt.Sprint("selfInt", m.SelfIntersections())}
	case "vertexNormals":
		// the keys are exact; the normals are sums in face order (not compared)
		var xs []string
		m.VertexNormals().KeyRange(func(k model3d.Coord3D) bool { xs = append(xs, v3s(k)); return true })
		return answer{S: "vertexNormals" + hashStrings(xs)}
	case "allVertexNeighbors":
		var xs []string
		m.AllVertexNeighbors().Range(func(k model3d.Coord3D, vs []model3d.Coord3D) bool {
			xs = append(xs, v3s(k)+":"+coordSet3(vs))
			return true
		})
		return answer{S: "allVertexNeighbors" + hashStrings(xs)}
	case "colliderRay":
		// deriving a collider only reads the mesh; the hit count of a generic ray does not depend on the
		// (order dependent) shape of the bounding hierarchy
		c := model3d.MeshToCollider(m)
		r := &model3d.Ray{Origin: m3.C3(q.P), Direction: m3.C3(q.D)}
		return answer{S: fmt.Sprint("colliderRay", c.RayCollisions(r, nil), v3s(c.Min()), v3s(c.Max()))}
	case "sdf":
		if n == 0 {
			return answer{S: "sdf-empty"}
		}
		// |SDF| is the minimum over the faces of an order independent distance; pruning may change the last bit
		d := model3d.MeshToSDF(m).SDF(m3.C3(q.P))
		if d < 0 {
			d = -d
		}
		return answer{S: "sdf", F: []float64{d, 1e-9 * (1 + h.scale)}}
	case "copy":
		return answer{S: fmt.Sprint("copy", m.Copy().NumTriangles())}
	case "encode":
		return answer{S: fmt.Sprint("encode", len(m.EncodeSTL()))}
	}
	panic("c13: unknown mesh query " + q.Op)
}

func labelMesh(o *kit.Obs, kinds []string, prep string, lists [][]query, indexOps []string, faces int) {
	o.Label("prep:" + prep)
	for _, k := range kinds {
		o.Label("part:" + k)
	}
	switch n := len(lists); {
	case n <= 3:
		o.Label("goroutines:2-3")
	case n <= 8:
		o.Label("goroutines:4-8")
	default:
		o.Label("goroutines:9-16")
	}
	starters := 0
	for _, l := range lists {
		for _, q := range l {
			if isIndexOp(q.Op, indexOps) {
				starters++
				break
			}
		}
	}
	switch {
	case faces == 0:
		o.Label("empty-mesh")
	case starters >= 2 && (prep == "fresh" || prep == "direct" || prep == "copy"):
		o.Label("contended-lazy-index")
		o.NonTrivial()
	case starters >= 2:
		o.Label("index-prebuilt")
		o.NonTrivial()
	default:
		o.Label("no-index-contention")
	}
}

func checkMesh(c meshCase, o *kit.Obs) error {
	manifold := c.Mesh.manifold()
	// sequential model: the same lists, one after the other, on an identically built mesh
	ref := c.Mesh.instance(c.Prep)
	seq := make([][]answer, len(c.Lists))
	withProcs(1, func() {
		for g, l := range c.Lists {
			for _, q := range l {
				seq[g] = append(seq[g], ref.run(q, manifold))
			}
		}
	})
	var kinds []string
	for _, p := range c.Mesh.Parts {
		kinds = append(kinds, p.Kind)
	}
	labelMesh(o, kinds, c.Prep, c.Lists, indexOps3, len(ref.ptrs))
	for rep := 0; rep < c.Reps || rep == 0; rep++ {
		h := c.Mesh.instance(c.Prep)
		conc := make([][]answer, len(c.Lists))
		runConcurrently(len(c.Lists), c.Procs, func(g int) {
			for _, q := range c.Lists[g] {
				conc[g] = append(conc[g], h.run(q, manifold))
			}
		})
		if err := compareLists(fmt.Sprintf("3D mesh (%d faces, %s, repetition %d)", len(h.ptrs), c.Prep, rep), conc, seq,
			func(g, k int) string { return c.Lists[g][k].Op }); err != nil {
			return err
		}
		// the mesh itself must be unchanged by read-only use
		if got := h.m.NumTriangles(); got != len(h.ptrs) {
			return fmt.Errorf("mesh has %d faces after read-only use, had %d", got, len(h.ptrs))
		}
	}
	return nil
}

// ---- 2D

func (h *mesh2) run(q query, manifold bool) answer {
	m := h.m
	n := len(h.ptrs)
	if n == 0 {
		switch q.Op {
		case "find1", "find2", "findx", "neighbors", "neighborsCopy", "contains":
			q.Op = "findp"
		}
	}
	if h.degen {
		switch q.Op {
		case "colliderRay", "sdf":
			q.Op = "num"
		}
	}
	var s *model2d.Segment
	if n > 0 {
		s = h.ptrs[mod(q.I, n)]
	}
	j := mod(q.J, 2)
	p := model2d.XY(q.P[0], q.P[1])
	switch q.Op {
	case "find1":
		res := m.Find(s[j])
		ans := h.set(res)
		for a, b := 0, len(res)-1; a < b; a, b = a+1, b-1 {
			res[a], res[b] = res[b], res[a]
		}
		res = append(res, s)
		_ = res
		return answer{S: "find1" + ans}
	case "find2":
		return answer{S: "find2" + h.set(m.Find(s[j], s[1-j]))}
	case "findx":
		return answer{S: "findx" + h.set(m.Find(s[0], h.ptrs[mod(q.J, n)][1]))}
	case "findp":
		return answer{S: "findp" + h.set(m.Find(p))}
	case "neighbors":
		return answer{S: "neighbors" + h.set(m.Neighbors(s))}
	case "neighborsCopy":
		cp := *s
		return answer{S: "neighborsCopy" + h.set(m.Neighbors(&cp))}
	case "vertexSlice":
		return answer{S: "vertexSlice" + coordSet2(m.VertexSlice())}
	case "iterateVertices":
		var cs []model2d.Coord
		m.IterateVertices(func(c model2d.Coord) { cs = append(cs, c) })
		return answer{S: "iterateVertices" + coordSet2(cs)}
	case "manifold":
		return answer{S: fmt.Sprint("manifold", m.Manifold())}
	case "inconsistentV":
		return answer{S: "inconsistentV" + coordSet2(m.InconsistentVertices())}
	case "iterate":
		var ss []*model2d.Segment
		m.Iterate(func(s *model2d.Segment) { ss = append(ss, s) })
		return answer{S: "iterate" + h.set(ss)}
	case "segmentSlice":
		return answer{S: "segmentSlice" + h.set(m.SegmentSlice())}
	case "min":
		return answer{S: "min" + v2s(m.Min())}
	case "max":
		return answer{S: "max" + v2s(m.Max())}
	case "num":
		return answer{S: fmt.Sprint("num", m.NumSegments())}
	case "contains":
		cp := *s
		return answer{S: fmt.Sprint("contains", m.Contains(s), m.Contains(&cp))}
	case "area":
		return answer{S: "area", F: []float64{m.Area(), 1e-9*float64(n)*h.scale*h.scale + 1e-300}}
	case "colliderRay":
		c := model2d.MeshToCollider(m)
		r := &model2d.Ray{Origin: p, Direction: model2d.XY(q.D[0], q.D[1]+q.D[2]*0.37+1e-3)}
		return answer{S: fmt.Sprint("colliderRay", c.RayCollisions(r, nil), v2s(c.Min()), v2s(c.Max()))}
	case "sdf":
		if n == 0 {
			return answer{S: "sdf-empty"}
		}
		d := model2d.MeshToSDF(m).SDF(p)
		if d < 0 {
			d = -d
		}
		return answer{S: "sdf", F: []float64{d, 1e-9 * (1 + h.scale)}}
	case "copy":
		return answer{S: fmt.Sprint("copy", m.Copy().NumSegments())}
	}
	panic("c13: unknown 2D mesh query " + q.Op)
}

func checkMesh2(c mesh2Case, o *kit.Obs) error {
	manifold := c.Mesh.manifold()
	ref := c.Mesh.instance(c.Prep)
	seq := make([][]answer, len(c.Lists))
	withProcs(1, func() {
		for g, l := range c.Lists {
			for _, q := range l {
				seq[g] = append(seq[g], ref.run(q, manifold))
			}
		}
	})
	var kinds []string
	for _, p := range c.Mesh.Parts {
		kinds = append(kinds, p.Kind)
	}
	labelMesh(o, kinds, c.Prep, c.Lists, indexOps2, len(ref.ptrs))
	for rep := 0; rep < c.Reps || rep == 0; rep++ {
		h := c.Mesh.instance(c.Prep)
		conc := make([][]answer, len(c.Lists))
		runConcurrently(len(c.Lists), c.Procs, func(g int) {
			for _, q := range c.Lists[g] {
				conc[g] = append(conc[g], h.run(q, manifold))
			}
		})
		if err := compareLists(fmt.Sprintf("2D mesh (%d segments, %s, repetition %d)", len(h.ptrs), c.Prep, rep), conc, seq,
			func(g, k int) string { return c.Lists[g][k].Op }); err != nil {
			return err
		}
		if got := h.m.NumSegments(); got != len(h.ptrs) {
			return fmt.Errorf("mesh has %d segments after read-only use, had %d", got, len(h.ptrs))
		}
	}
	return nil
}
