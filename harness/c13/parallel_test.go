package c13

// Clause group 3: library routines that parallelise internally, run at several GOMAXPROCS values
// under the race detector.  Deterministic routines must reproduce their single-worker result
// exactly; randomised ones are held to reference models or invariants.

import (
	"fmt"
	"math"
	"sort"
	"sync"
	"sync/atomic"

	"github.com/unixpickle/model3d/model2d"
	"github.com/unixpickle/model3d/model3d"
	"github.com/unixpickle/model3d/numerical"
	"github.com/unixpickle/model3d/render3d"
	"github.com/unixpickle/model3d/toolbox3d"
	"pgregory.net/rapid"
	"verifharness/gen"
	"verifharness/kit"
	"verifharness/m3"
)

func genProcList(t *rapid.T) []int {
	// the first entry is the single-worker reference
	out := []int{1}
	for i, n := 0, gen.Int(t, 1, 3, "nprocs"); i < n; i++ {
		out = append(out, []int{2, 3, 4, 5, 8, 16}[gen.Int(t, 0, 5, "procs")])
	}
	return out
}

func maxInt(xs []int) int {
	m := 0
	for _, x := range xs {
		if x > m {
			m = x
		}
	}
	return m
}

// ---------------------------------------------------------------------------
// meshers

type mesherCase struct {
	API    string        `json:"api"`
	Lat    *gen.Lattice3 `json:"lat,omitempty"`
	Balls  []gen.Shape3  `json:"balls,omitempty"`
	Lat2   *gen.Lattice2 `json:"lat2,omitempty"`
	Balls2 []gen.Shape2  `json:"balls2,omitempty"`
	Delta  float64       `json:"delta"`
	Big    float64       `json:"big,omitempty"`
	Iters  int           `json:"iters,omitempty"`
	MaxGos int           `json:"maxgos,omitempty"`
	Buf    int           `json:"buf,omitempty"`
	Procs  []int         `json:"procs"`
}

// dcrepair is DualContouring with Repair and Clip (the repair pass runs after the parallel stages and used to visit
// singular edges / vertices in Go map order: not reproducible even single-threaded until fix 968663e, registered
// under C12); dcclip is Clip alone.  Both are compared exactly like the others.
// dcinterior is MeshInterior: the workers also collect the interior end points of the bisected edges (compared
// as a sorted list, appended to the face list as degenerate faces).
var mesherAPIs = []string{"mc", "mc", "filter", "search", "interior", "c2f", "dc", "dc", "dcclip", "dcinterior", "dcrepair", "dcrandom", "ms", "mssearch", "msc2f"}

func isDC(api string) bool {
	return api == "dc" || api == "dcclip" || api == "dcinterior" || api == "dcrepair" || api == "dcrandom"
}

func genMesherCase(t *rapid.T) mesherCase {
	c := mesherCase{API: pick(t, mesherAPIs, "api"), Procs: genProcList(t)}
	c.Iters = gen.Int(t, 0, 4, "iters")
	twoD := c.API == "ms" || c.API == "mssearch" || c.API == "msc2f"
	// (dual contouring of voxel solids is where singular edges and vertices, hence repairs, come from)
	lattice := gen.Int(t, 0, 1, "lattice") == 0 && c.API != "c2f" && c.API != "msc2f"
	switch {
	case lattice && twoD:
		l := gen.Lattice2Gen(t, 9, "lat2")
		c.Lat2, c.Delta = &l, 1
	case lattice:
		l := gen.Lattice3Gen(t, 6, "lat")
		c.Lat, c.Delta = &l, 1
	default:
		// unions of balls; every ball has radius >= 2.5 coarse spacings (precondition of coarse-to-fine meshing)
		c.Delta = gen.F(t, 0.08, 0.2, "delta")
		c.Big = c.Delta * gen.F(t, 1, 2, "bigfactor")
		for i, n := 0, gen.Int(t, 1, 3, "nballs"); i < n; i++ {
			r := c.Big * gen.F(t, 2.5, 4, "r")
			if twoD {
				c.Balls2 = append(c.Balls2, gen.Shape2{Kind: "circle", A: gen.Vec2(t, 0.6, "c"), R: r})
			} else {
				c.Balls = append(c.Balls, gen.Shape3{Kind: "sphere", A: gen.Vec3(t, 0.6, "c"), R: r})
			}
		}
	}
	if isDC(c.API) {
		if c.Lat == nil {
			c.Delta = gen.F(t, 0.15, 0.3, "dcdelta")
		}
		c.MaxGos = []int{0, 0, 1, 2, 7}[gen.Int(t, 0, 4, "maxgos")]
		c.Buf = []int{0, 0, 500, 5000}[gen.Int(t, 0, 3, "buf")]
	}
	return c
}

func (c mesherCase) solid3() model3d.Solid {
	if c.Lat != nil {
		return c.Lat.Solid()
	}
	var js model3d.JoinedSolid
	for _, b := range c.Balls {
		js = append(js, b.Build())
	}
	return js
}

func (c mesherCase) solid2() model2d.Solid {
	if c.Lat2 != nil {
		return c.Lat2.Solid()
	}
	var js model2d.JoinedSolid
	for _, b := range c.Balls2 {
		js = append(js, b.Build())
	}
	return js
}

func canonTris(m *model3d.Mesh) []kit.Tri {
	ts := m3.Tris(m)
	for i, t := range ts {
		k := 0
		for j := 1; j < 3; j++ {
			if kit.V3Less(t[j], t[k]) {
				k = j
			}
		}
		ts[i] = kit.Tri{t[k], t[(k+1)%3], t[(k+2)%3]}
	}
	sort.Slice(ts, func(i, j int) bool { return triLess(ts[i], ts[j]) })
	return ts
}

func canonSegs(m *model2d.Mesh) []kit.Seg {
	ss := m3.Segs(m)
	sort.Slice(ss, func(i, j int) bool { return segLess(ss[i], ss[j]) })
	return ss
}

func checkMesher(c mesherCase, o *kit.Obs) error {
	o.Label("api:" + c.API)
	always3 := func(*model3d.Rect) bool { return true }
	run3 := func() []kit.Tri {
		s := c.solid3()
		switch c.API {
		case "mc":
			return canonTris(model3d.MarchingCubes(s, c.Delta))
		case "filter":
			return canonTris(model3d.MarchingCubesFilter(s, always3, c.Delta))
		case "search":
			return canonTris(model3d.MarchingCubesSearch(s, c.Delta, c.Iters))
		case "interior":
			// the search step also returns, per vertex, the interior end point of its bisection (filled by a worker pool)
			m, interior := model3d.MarchingCubesInterior(s, c.Delta, c.Iters)
			var extra []kit.Tri
			interior.Range(func(k, v model3d.Coord3D) bool {
				extra = append(extra, kit.Tri{m3.V3(k), m3.V3(v), m3.V3(v)})
				return true
			})
			sort.Slice(extra, func(i, j int) bool { return triLess(extra[i], extra[j]) })
			return append(canonTris(m), extra...)
		case "c2f":
			return canonTris(model3d.MarchingCubesC2F(s, c.Big, c.Delta, 0, c.Iters))
		case "dc", "dcclip", "dcinterior", "dcrepair", "dcrandom":
			// dcrandom: the documented option RandomSearchNormals draws probe directions at random in every worker
			dc := &model3d.DualContouring{S: model3d.SolidSurfaceEstimator{Solid: s, RandomSearchNormals: c.API == "dcrandom"}, Delta: c.Delta, MaxGos: c.MaxGos, BufferSize: c.Buf,
				Repair: c.API == "dcrepair", Clip: c.API == "dcclip" || c.API == "dcrepair"}
			if c.API == "dcinterior" {
				m, pts := dc.MeshInterior()
				var extra []kit.Tri
				for _, p := range pts {
					extra = append(extra, kit.Tri{m3.V3(p), m3.V3(p), m3.V3(p)})
				}
				sort.Slice(extra, func(i, j int) bool { return triLess(extra[i], extra[j]) })
				return append(canonTris(m), extra...)
			}
			return canonTris(dc.Mesh())
		}
		panic("c13: unknown mesher " + c.API)
	}
	run2 := func() []kit.Seg {
		s := c.solid2()
		switch c.API {
		case "ms":
			return canonSegs(model2d.MarchingSquares(s, c.Delta))
		case "mssearch":
			return canonSegs(model2d.MarchingSquaresSearch(s, c.Delta, c.Iters))
		case "msc2f":
			return canonSegs(model2d.MarchingSquaresC2F(s, c.Big, c.Delta, 0, c.Iters))
		}
		panic("c13: unknown 2D mesher " + c.API)
	}
	twoD := c.API == "ms" || c.API == "mssearch" || c.API == "msc2f"
	var ref3 []kit.Tri
	var ref2 []kit.Seg
	for i, p := range c.Procs {
		var got3 []kit.Tri
		var got2 []kit.Seg
		withProcs(p, func() {
			if twoD {
				got2 = run2()
			} else {
				got3 = run3()
			}
		})
		if i == 0 {
			ref3, ref2 = got3, got2
			if len(ref3)+len(ref2) > 0 && maxInt(c.Procs) > 1 {
				o.NonTrivial()
			}
			continue
		}
		if len(got3) != len(ref3) || len(got2) != len(ref2) {
			return fmt.Errorf("%s at GOMAXPROCS=%d produced %d faces, at GOMAXPROCS=1 %d", c.API, p, len(got3)+len(got2), len(ref3)+len(ref2))
		}
		if c.API == "dcrandom" {
			continue // vertex positions follow the random probes; the faces are those of the same cells
		}
		for k := range ref3 {
			if got3[k] != ref3[k] {
				return fmt.Errorf("%s at GOMAXPROCS=%d: face %d of the sorted face list is %v, at GOMAXPROCS=1 it is %v", c.API, p, k, got3[k], ref3[k])
			}
		}
		for k := range ref2 {
			if got2[k] != ref2[k] {
				return fmt.Errorf("%s at GOMAXPROCS=%d: segment %d of the sorted list is %v, at GOMAXPROCS=1 it is %v", c.API, p, k, got2[k], ref2[k])
			}
		}
	}
	return nil
}

// ---------------------------------------------------------------------------
// rasteriser

type rasterCase struct {
	API        string  `json:"api"` // solid, filter, collider, collidersolid, mesh
	Shape      part2   `json:"shape"`
	Scale      float64 `json:"scale"`
	Subsamples int     `json:"subsamples"`
	LineWidth  float64 `json:"linewidth"`
	Procs      []int   `json:"procs"`
}

func genRasterCase(t *rapid.T) rasterCase {
	return rasterCase{API: pick(t, []string{"solid", "filter", "collider", "collidersolid", "mesh"}, "api"),
		Shape: genPart2(t, []string{"polar", "polar", "rect", "lattice"}, "shape"),
		Scale: gen.F(t, 4, 14, "scale"), Subsamples: gen.Int(t, 1, 4, "subsamples"), LineWidth: gen.F(t, 0.5, 3, "linewidth"), Procs: genProcList(t)}
}

func checkRaster(c rasterCase, o *kit.Obs) error {
	o.Label("api:" + c.API)
	mesh := c.Shape.libMesh()
	if mesh.NumSegments() == 0 {
		o.Label("empty-shape")
		return nil
	}
	coll := model2d.MeshToCollider(mesh)
	solid := model2d.NewColliderSolid(coll)
	r := &model2d.Rasterizer{Scale: c.Scale, Subsamples: c.Subsamples, LineWidth: c.LineWidth}
	var ref []uint8
	for i, p := range c.Procs {
		var pix []uint8
		var w, h int
		withProcs(p, func() {
			switch c.API {
			case "solid":
				g := r.RasterizeSolid(solid)
				pix, w, h = g.Pix, g.Rect.Dx(), g.Rect.Dy()
			case "filter":
				g := r.RasterizeSolidFilter(solid, func(*model2d.Rect) bool { return true })
				pix, w, h = g.Pix, g.Rect.Dx(), g.Rect.Dy()
			case "collider":
				g := r.RasterizeCollider(coll)
				pix, w, h = g.Pix, g.Rect.Dx(), g.Rect.Dy()
			case "collidersolid":
				g := r.RasterizeColliderSolid(coll)
				pix, w, h = g.Pix, g.Rect.Dx(), g.Rect.Dy()
			case "mesh":
				g := r.Rasterize(mesh)
				pix, w, h = g.Pix, g.Rect.Dx(), g.Rect.Dy()
			}
		})
		if i == 0 {
			ref = pix
			dark := 0
			for _, v := range pix {
				if v < 255 {
					dark++
				}
			}
			if dark > 0 && w*h > 1 && maxInt(c.Procs) > 1 {
				o.NonTrivial()
			}
			continue
		}
		if len(pix) != len(ref) {
			return fmt.Errorf("rasteriser %s at GOMAXPROCS=%d produced %d bytes, at GOMAXPROCS=1 %d", c.API, p, len(pix), len(ref))
		}
		for k := range ref {
			if pix[k] != ref[k] {
				return fmt.Errorf("rasteriser %s at GOMAXPROCS=%d: byte %d (image %dx%d) is %d, at GOMAXPROCS=1 it is %d", c.API, p, k, w, h, pix[k], ref[k])
			}
		}
	}
	return nil
}

// ---------------------------------------------------------------------------
// renderers

type renderCase struct {
	Renderer string  `json:"renderer"` // caster, tracer0, tracer, bidir
	Obj      part    `json:"obj"`
	Size     int     `json:"size"`
	Samples  int     `json:"samples"`
	Depth    int     `json:"depth"`
	Cam      kit.V3  `json:"cam"`
	Light    kit.V3  `json:"light"`
	Procs    []int   `json:"procs"`
	Material string  `json:"material"`
	AA       float64 `json:"aa"`
	Conc     int     `json:"conc,omitempty"` // >= 2: that many goroutines call Render on the ONE renderer value at the same time
	Log      bool    `json:"log,omitempty"`  // tracer / bidir: a progress LogFunc is installed (its own state is behind a mutex)
}

func genRenderCase(t *rapid.T) renderCase {
	c := renderCase{Renderer: pick(t, []string{"caster", "caster", "tracer0", "tracer", "tracer", "bidir"}, "renderer"),
		Obj: genPart3(t, []string{"ico", "rect", "torus", "cyl", "lattice"}, "obj"), Size: gen.Int(t, 2, 7, "size"),
		Samples: gen.Int(t, 1, 6, "samples"), Depth: gen.Int(t, 1, 3, "depth"), Procs: genProcList(t),
		Material: pick(t, []string{"lambert", "phong", "colorfunc"}, "material"), AA: gen.F(t, 0, 1, "aa")}
	c.Cam = gen.Dir3(t, "cam").Unit().Scale(gen.F(t, 5, 8, "camdist"))
	c.Light = gen.Dir3(t, "light").Unit().Scale(gen.F(t, 6, 9, "lightdist"))
	c.Conc = []int{0, 2, 2, 3}[gen.Int(t, 0, 3, "conc")]
	c.Log = gen.Int(t, 0, 1, "log") == 0
	return c
}

func checkRender(c renderCase, o *kit.Obs) error {
	// the progress callback keeps its own state behind a mutex (several Render calls may be in flight on one renderer
	// value); whatever the library does around calling it is the library's business and is watched by the detector
	var logMu sync.Mutex
	logCalls := 0
	logFunc := func(frac, rate float64) {
		logMu.Lock()
		logCalls++
		logMu.Unlock()
	}
	_ = logCalls
	o.Label("renderer:" + c.Renderer)
	mesh := c.Obj.libMesh()
	if mesh.NumTriangles() == 0 {
		o.Label("empty-scene")
		return nil
	}
	coll := model3d.MeshToCollider(mesh)
	var obj render3d.Object
	switch c.Material {
	case "lambert":
		obj = &render3d.ColliderObject{Collider: coll, Material: &render3d.LambertMaterial{DiffuseColor: render3d.NewColorRGB(0.3, 0.6, 0.8), AmbientColor: render3d.NewColor(0.05)}}
	case "phong":
		obj = &render3d.ColliderObject{Collider: coll, Material: &render3d.PhongMaterial{Alpha: 5, SpecularColor: render3d.NewColor(0.2),
			DiffuseColor: render3d.NewColorRGB(0.5, 0.3, 0.2), AmbientColor: render3d.NewColor(0.05)}}
	default:
		obj = render3d.Objectify(mesh, render3d.TriangleColorFunc(func(t *model3d.Triangle) [3]float64 {
			x := triColor(t)
			return [3]float64{0.2 + 0.6*x[0], 0.2 + 0.6*x[1], 0.2 + 0.6*x[2]}
		}))
	}
	centre := mesh.Min().Mid(mesh.Max())
	cam := render3d.NewCameraAt(centre.Add(m3.C3(c.Cam)), centre, 0.5)
	lights := []*render3d.PointLight{{Origin: centre.Add(m3.C3(c.Light)), Color: render3d.NewColor(0.8)}}
	scene := obj
	var render func(img *render3d.Image)
	deterministic := false
	switch c.Renderer {
	// one renderer value per case: every Render call below, sequential or concurrent, goes through it
	case "caster":
		deterministic = true
		r := &render3d.RayCaster{Camera: cam, Lights: lights}
		render = func(img *render3d.Image) { r.Render(img, scene) }
	case "tracer0":
		// no recursion, one sample, no antialiasing: nothing random is left
		deterministic = true
		r := &render3d.RecursiveRayTracer{Camera: cam, Lights: lights, MaxDepth: 0, NumSamples: 1}
		render = func(img *render3d.Image) { r.Render(img, scene) }
	case "tracer":
		r := &render3d.RecursiveRayTracer{Camera: cam, Lights: lights, MaxDepth: c.Depth, NumSamples: c.Samples, Antialias: c.AA,
			MinSamples: 2, MaxStddev: 0.05}
		if c.Log {
			r.LogFunc = logFunc
			o.Label("progress-log")
		}
		render = func(img *render3d.Image) { r.Render(img, scene) }
	case "bidir":
		lm := model3d.NewMeshIcosphere(centre.Add(m3.C3(c.Light)), 1.5, 1)
		light := render3d.NewMeshAreaLight(lm, render3d.NewColor(20))
		scene = render3d.JoinedObject{obj, light}
		r := &render3d.BidirPathTracer{Camera: cam, Light: light, MaxDepth: c.Depth + 1, MinDepth: 1, NumSamples: c.Samples, Antialias: c.AA,
			RouletteDelta: 0.05, PowerHeuristic: 2}
		if c.Log {
			r.LogFunc = logFunc
			o.Label("progress-log")
		}
		render = func(img *render3d.Image) { r.Render(img, scene) }
	}
	// which pixels see anything (primary rays; only meaningful without antialiasing jitter)
	caster := cam.Caster(float64(c.Size)-1, float64(c.Size)-1)
	hit := make([]bool, c.Size*c.Size)
	nHit := 0
	for y := 0; y < c.Size; y++ {
		for x := 0; x < c.Size; x++ {
			_, _, ok := scene.Cast(&model3d.Ray{Origin: cam.Origin, Direction: caster(float64(x), float64(y))})
			hit[y*c.Size+x] = ok
			if ok {
				nHit++
			}
		}
	}
	if nHit > 0 && maxInt(c.Procs) > 1 {
		o.NonTrivial()
	}
	var ref []render3d.Color
	checkImg := func(img *render3d.Image, how string) error {
		for k, col := range img.Data {
			for _, v := range []float64{col.X, col.Y, col.Z} {
				if math.IsNaN(v) || math.IsInf(v, 0) || v < 0 {
					return fmt.Errorf("%s %s: pixel %d is %v (not a finite non-negative colour)", c.Renderer, how, k, col)
				}
			}
			jitter := c.Renderer == "tracer" || c.Renderer == "bidir"
			if !hit[k] && !(jitter && c.AA != 0) && col != (render3d.Color{}) {
				return fmt.Errorf("%s %s: pixel %d is %v although its ray misses the scene", c.Renderer, how, k, col)
			}
			if hit[k] && c.Renderer != "bidir" && !(jitter && c.AA != 0) && col.Sum() <= 0 {
				// every material has a positive ambient term, which both renderers add at the first hit
				return fmt.Errorf("%s %s: pixel %d is black although its ray hits a surface with ambient colour", c.Renderer, how, k)
			}
		}
		if ref == nil {
			ref = img.Data
			return nil
		}
		if deterministic {
			for k := range ref {
				if img.Data[k] != ref[k] {
					return fmt.Errorf("%s %s: pixel %d is %v, the first render at GOMAXPROCS=1 gave %v", c.Renderer, how, k, img.Data[k], ref[k])
				}
			}
		}
		return nil
	}
	for _, p := range c.Procs {
		img := render3d.NewImage(c.Size, c.Size)
		withProcs(p, func() { render(img) })
		if err := checkImg(img, fmt.Sprintf("at GOMAXPROCS=%d", p)); err != nil {
			return err
		}
	}
	if c.Conc >= 2 {
		// concurrent use of the one renderer (and scene): every goroutine renders its own image
		o.Labelf("concurrent-renders:%d", c.Conc)
		imgs := make([]*render3d.Image, c.Conc)
		for g := range imgs {
			imgs[g] = render3d.NewImage(c.Size, c.Size)
		}
		runConcurrently(c.Conc, maxInt(c.Procs), func(g int) { render(imgs[g]) })
		for g, img := range imgs {
			if err := checkImg(img, fmt.Sprintf("rendered by goroutine %d of %d sharing the renderer", g, c.Conc)); err != nil {
				return err
			}
		}
	}
	return nil
}

// ---------------------------------------------------------------------------
// k-means

type kmeansCase struct {
	Data    []kit.V3 `json:"data"`
	Centers []kit.V3 `json:"centers"`
	Iters   int      `json:"iters"`
	Procs   int      `json:"procs"`
}

func genKMeansCase(t *rapid.T) kmeansCase {
	c := kmeansCase{Iters: gen.Int(t, 1, 3, "iters"), Procs: []int{1, 2, 3, 4, 5, 8, 16}[gen.Int(t, 0, 6, "procs")]}
	n := gen.Int(t, 0, 120, "n")
	// clustered data: points around a few seeds
	var seeds []kit.V3
	for i, k := 0, gen.Int(t, 1, 5, "nseeds"); i < k; i++ {
		seeds = append(seeds, gen.Vec3(t, 1, "seed"))
	}
	for i := 0; i < n; i++ {
		c.Data = append(c.Data, seeds[gen.Int(t, 0, len(seeds)-1, "which")].Add(gen.Vec3(t, 0.2, "noise")))
	}
	for i, k := 0, gen.Int(t, 1, 6, "k"); i < k; i++ {
		c.Centers = append(c.Centers, gen.Vec3(t, 1.2, "center"))
	}
	return c
}

func checkKMeans(c kmeansCase, o *kit.Obs) error {
	data := make([]numerical.Vec3, len(c.Data))
	for i, v := range c.Data {
		data[i] = numerical.Vec3(v)
	}
	centers := make([]numerical.Vec3, len(c.Centers))
	ref := make([]kit.V3, len(c.Centers))
	for i, v := range c.Centers {
		centers[i] = numerical.Vec3(v)
		ref[i] = v
	}
	km := &numerical.KMeans[numerical.Vec3]{Centers: centers, Data: data}
	o.Labelf("procs:%d", c.Procs)
	if len(data) > 0 && c.Procs > 1 {
		o.NonTrivial()
	}
	for it := 0; it < c.Iters; it++ {
		// reference Lloyd step; assignment ties (two centres at distances equal to 1e-12) are not decided here
		sums := make([]kit.V3, len(ref))
		counts := make([]int, len(ref))
		total := 0.0
		for _, p := range c.Data {
			best, second := math.Inf(1), math.Inf(1)
			bi := 0
			for i, ctr := range ref {
				d := p.Sub(ctr).Dot(p.Sub(ctr))
				if d < best {
					second, best, bi = best, d, i
				} else if d < second {
					second = d
				}
			}
			if second-best <= 1e-12*(1+best) {
				o.Skip("assignment tie")
				return nil
			}
			sums[bi] = sums[bi].Add(p)
			counts[bi]++
			total += best
		}
		wantLoss := 0.0
		if len(c.Data) > 0 {
			wantLoss = total / float64(len(c.Data))
		}
		for i := range ref {
			if counts[i] > 0 {
				ref[i] = sums[i].Scale(1 / float64(counts[i]))
			}
		}
		var loss float64
		withProcs(c.Procs, func() { loss = km.Iterate() })
		// sums of at most 120 terms of magnitude <= 4 in a different order: 1e-9 is generous
		if math.Abs(loss-wantLoss) > 1e-9*(1+wantLoss) {
			return fmt.Errorf("KMeans.Iterate (GOMAXPROCS=%d, step %d) returned loss %v, the reference step gives %v", c.Procs, it, loss, wantLoss)
		}
		if len(km.Centers) != len(ref) {
			return fmt.Errorf("KMeans has %d centres after a step, had %d", len(km.Centers), len(ref))
		}
		for i := range ref {
			if d := kit.V3(km.Centers[i]).Dist(ref[i]); !(d <= 1e-9) {
				return fmt.Errorf("KMeans.Iterate (GOMAXPROCS=%d, step %d): centre %d is %v, the reference step gives %v", c.Procs, it, i, km.Centers[i], ref[i])
			}
		}
		// Assign (a parallel map over the vectors) against the reference assignment to the new centres
		var assign []int
		withProcs(c.Procs, func() { assign = km.Assign(data) })
		if len(assign) != len(c.Data) {
			return fmt.Errorf("KMeans.Assign returned %d indices for %d vectors", len(assign), len(c.Data))
		}
		for i, p := range c.Data {
			best, second, bi := math.Inf(1), math.Inf(1), 0
			for j, ctr := range km.Centers {
				d := p.Sub(kit.V3(ctr)).Dot(p.Sub(kit.V3(ctr)))
				if d < best {
					second, best, bi = best, d, j
				} else if d < second {
					second = d
				}
			}
			if second-best > 1e-12*(1+best) && assign[i] != bi {
				return fmt.Errorf("KMeans.Assign (GOMAXPROCS=%d, step %d): vector %d assigned to centre %d, the nearest centre is %d", c.Procs, it, i, assign[i], bi)
			}
		}
		if len(data) != len(c.Data) {
			return fmt.Errorf("data changed length")
		}
		for i := range data {
			if kit.V3(data[i]) != c.Data[i] {
				return fmt.Errorf("KMeans.Iterate modified data point %d", i)
			}
		}
	}
	return nil
}

// ---------------------------------------------------------------------------
// height map filling

type heightCase struct {
	Shape      part2     `json:"shape"`
	Grid       int       `json:"grid"`
	NumSpheres int       `json:"num_spheres"`
	MaxRadius  float64   `json:"max_radius"`
	Prefill    []float64 `json:"prefill,omitempty"` // initial squared heights (cyclic)
	Procs      int       `json:"procs"`
}

func genHeightCase(t *rapid.T) heightCase {
	c := heightCase{Shape: genPart2(t, []string{"polar", "polar", "rect"}, "shape"), Grid: gen.Int(t, 4, 24, "grid"),
		NumSpheres: gen.Int(t, 1, 80, "spheres"), Procs: []int{1, 2, 3, 4, 8, 16}[gen.Int(t, 0, 5, "procs")]}
	if gen.Int(t, 0, 3, "many") == 0 {
		// enough spheres for every worker to fill its private batches several times over
		c.NumSpheres = c.Procs * gen.Int(t, 64, 300, "spheres-per-worker")
	}
	if gen.Int(t, 0, 1, "limit") == 0 {
		c.MaxRadius = gen.F(t, 0.02, 0.6, "maxradius")
	}
	if gen.Int(t, 0, 2, "prefill") == 0 {
		for i, n := 0, gen.Int(t, 1, 7, "nprefill"); i < n; i++ {
			c.Prefill = append(c.Prefill, gen.F(t, 0, 0.3, "h2")*float64(gen.Int(t, 0, 1, "nz")))
		}
	}
	return c
}

func checkHeight(c heightCase, o *kit.Obs) error {
	mesh := c.Shape.libMesh()
	segs := m3.Segs(mesh)
	sdf := model2d.MeshToSDF(mesh)
	min, max := sdf.Min(), sdf.Max()
	hm := toolbox3d.NewHeightMap(min, max, c.Grid)
	for i := range hm.Data {
		if len(c.Prefill) > 0 {
			hm.Data[i] = c.Prefill[i%len(c.Prefill)]
		}
	}
	before := append([]float64{}, hm.Data...)
	withProcs(c.Procs, func() { hm.AddSpheresSDF(sdf, c.NumSpheres, 0, c.MaxRadius) })
	o.Labelf("procs:%d", c.Procs)
	if len(hm.Data) != len(before) {
		return fmt.Errorf("height map changed size from %d to %d cells", len(before), len(hm.Data))
	}
	// no inscribed circle is larger than half the smaller side of the bounding box
	bound := math.Min(max.X-min.X, max.Y-min.Y) / 2
	if c.MaxRadius != 0 {
		bound = math.Min(bound, c.MaxRadius)
	}
	raised := 0
	for i, v := range hm.Data {
		if math.IsNaN(v) || v < before[i] {
			return fmt.Errorf("AddSpheresSDF (GOMAXPROCS=%d) changed cell %d from %v to %v: heights may only grow", c.Procs, i, before[i], v)
		}
		if v == before[i] {
			continue
		}
		raised++
		if v > bound*bound*(1+1e-9)+1e-12 {
			return fmt.Errorf("AddSpheresSDF (GOMAXPROCS=%d) raised cell %d to squared height %v; no inscribed sphere has a radius above %v", c.Procs, i, v, bound)
		}
		// a raised cell lies inside a disc inscribed in the shape, hence inside the shape
		row, col := i/hm.Cols, i%hm.Cols
		p := kit.V2{min.X + float64(col)*hm.Delta, min.Y + float64(row)*hm.Delta}
		d, _ := kit.MeshDist2(segs, p)
		if w := kit.Winding2(segs, p); math.Abs(w) < 0.5 && d > 1e-6 {
			return fmt.Errorf("AddSpheresSDF raised cell %d at %v, which is outside the shape by %v", i, p, d)
		}
	}
	if raised > 0 && c.Procs > 1 && c.NumSpheres > 1 {
		o.NonTrivial()
	}
	if raised == 0 {
		o.Label("nothing-raised")
	}
	return nil
}

// ---------------------------------------------------------------------------
// caches

type cacheCase struct {
	Kind  string    `json:"kind"` // scalar, bezier, color
	Pool  []float64 `json:"pool"`
	Lists [][]int   `json:"lists"`
	Procs int       `json:"procs"`
}

func genCacheCase(t *rapid.T) cacheCase {
	c := cacheCase{Kind: pick(t, []string{"scalar", "scalar", "bezier", "color"}, "kind"), Procs: genProcs(t)}
	for i, n := 0, gen.Int(t, 1, 12, "pool"); i < n; i++ {
		c.Pool = append(c.Pool, gen.F(t, 0, 1, "x"))
	}
	c.Lists = make([][]int, gen.Int(t, 2, 16, "goroutines"))
	for g := range c.Lists {
		for i, n := 0, gen.Int(t, 1, 30, "len"); i < n; i++ {
			c.Lists[g] = append(c.Lists[g], gen.Int(t, 0, len(c.Pool)-1, "idx"))
		}
	}
	return c
}

func checkCache(c cacheCase, o *kit.Obs) error {
	o.Label("kind:" + c.Kind)
	var calls int64
	f := func(x float64) float64 {
		atomic.AddInt64(&calls, 1)
		return math.Sin(3*x) + x*x
	}
	curve := model2d.BezierCurve{model2d.XY(0, 0), model2d.XY(0.3, 1), model2d.XY(0.7, -0.5), model2d.XY(1, 0.4)}
	colorFn := func(p model3d.Coord3D) render3d.Color {
		atomic.AddInt64(&calls, 1)
		return render3d.NewColorRGB(math.Sin(p.X), p.Y*p.Y, p.Z+1)
	}
	coord := func(x float64) model3d.Coord3D { return model3d.XYZ(x, 1-x, 2*x) }
	var cached func(float64) float64
	var want func(float64) float64
	switch c.Kind {
	case "scalar":
		cached, want = model2d.CacheScalarFunc(f), func(x float64) float64 { return math.Sin(3*x) + x*x }
	case "bezier":
		cached, want = curve.CachedEvalX(0), curve.EvalX
	case "color":
		cc := toolbox3d.CoordColorFunc(colorFn).Cached()
		cached = func(x float64) float64 { v := cc(coord(x)); return v.X + 2*v.Y + 4*v.Z }
		want = func(x float64) float64 {
			p := coord(x)
			v := render3d.NewColorRGB(math.Sin(p.X), p.Y*p.Y, p.Z+1)
			return v.X + 2*v.Y + 4*v.Z
		}
	}
	bad := make([]string, len(c.Lists))
	shared := 0
	seen := map[int]int{}
	for _, l := range c.Lists {
		mine := map[int]bool{}
		for _, i := range l {
			mine[mod(i, len(c.Pool))] = true
		}
		for i := range mine {
			seen[i]++
		}
	}
	for _, n := range seen {
		if n > 1 {
			shared++
		}
	}
	if shared > 0 {
		o.NonTrivial()
	}
	runConcurrently(len(c.Lists), c.Procs, func(g int) {
		for k, i := range c.Lists[g] {
			x := c.Pool[mod(i, len(c.Pool))]
			if got, w := cached(x), want(x); got != w && !(math.IsNaN(got) && math.IsNaN(w)) {
				bad[g] = fmt.Sprintf("goroutine %d call %d: cached function returned %v for x=%v, the function itself returns %v", g, k, got, x, w)
				return
			}
		}
	})
	for _, b := range bad {
		if b != "" {
			return fmt.Errorf("%s cache: %s", c.Kind, b)
		}
	}
	// afterwards, sequentially, the cache still answers correctly
	for _, x := range c.Pool {
		if got, w := cached(x), want(x); got != w && !(math.IsNaN(got) && math.IsNaN(w)) {
			return fmt.Errorf("%s cache: after concurrent use the cached function returns %v for x=%v, the function itself returns %v", c.Kind, got, x, w)
		}
	}
	return nil
}

// ---------------------------------------------------------------------------
// OBJ export (colour functions evaluated by a worker pool)

type exportCase struct {
	API   string  `json:"api"` // vertexcolor, material, interp
	Mesh  recipe3 `json:"mesh"`
	Procs []int   `json:"procs"`
}

func genExportCase(t *rapid.T) exportCase {
	return exportCase{API: pick(t, []string{"vertexcolor", "vertexcolor", "material"}, "api"),
		Mesh: genRecipe3(t, []string{"ico", "rect", "torus", "lattice", "soup"}, 2, "mesh"), Procs: genProcList(t)[1:]}
}

func checkExport(c exportCase, o *kit.Obs) error {
	o.Label("api:" + c.API)
	h := c.Mesh.instance("fresh")
	if len(h.ptrs) > 1 && maxInt(c.Procs) > 1 {
		o.NonTrivial()
	}
	var mu sync.Mutex
	calls := 0
	vcol := func(p model3d.Coord3D) [3]float64 {
		mu.Lock()
		calls++
		mu.Unlock()
		return [3]float64{math.Abs(math.Sin(p.X)), math.Abs(math.Cos(p.Y)), 0.5 + 0.5*math.Sin(p.Z)}
	}
	for _, p := range c.Procs {
		var err error
		withProcs(p, func() {
			switch c.API {
			case "vertexcolor":
				obj := model3d.BuildVertexColorOBJ(h.ptrs, vcol)
				if len(obj.VertexColors) != len(obj.Vertices) {
					err = fmt.Errorf("BuildVertexColorOBJ: %d colours for %d vertices", len(obj.VertexColors), len(obj.Vertices))
					return
				}
				distinct := map[kit.V3]bool{}
				for _, t := range h.tris {
					for _, v := range t {
						distinct[v] = true
					}
				}
				if len(obj.Vertices) != len(distinct) {
					err = fmt.Errorf("BuildVertexColorOBJ: %d vertices written, the mesh has %d distinct ones", len(obj.Vertices), len(distinct))
					return
				}
				for i, v := range obj.Vertices {
					if want := vcol(model3d.NewCoord3DArray(v)); obj.VertexColors[i] != want {
						err = fmt.Errorf("BuildVertexColorOBJ (GOMAXPROCS=%d): colour of vertex %d is %v, the colour function gives %v", p, i, obj.VertexColors[i], want)
						return
					}
				}
			case "material":
				obj, mtl := model3d.BuildMaterialOBJ(h.ptrs, triColor)
				faces := 0
				for _, g := range obj.FaceGroups {
					faces += len(g.Faces)
				}
				if faces != len(h.ptrs) {
					err = fmt.Errorf("BuildMaterialOBJ (GOMAXPROCS=%d): %d faces written for %d triangles", p, faces, len(h.ptrs))
					return
				}
				want := map[[3]float32]bool{}
				for _, t := range h.ptrs {
					x := triColor(t)
					want[[3]float32{float32(x[0]), float32(x[1]), float32(x[2])}] = true
				}
				if len(mtl.Materials) != len(want) {
					err = fmt.Errorf("BuildMaterialOBJ (GOMAXPROCS=%d): %d materials, the triangles have %d distinct colours", p, len(mtl.Materials), len(want))
					return
				}
				for _, m := range mtl.Materials {
					if !want[m.Diffuse] {
						err = fmt.Errorf("BuildMaterialOBJ (GOMAXPROCS=%d): material colour %v is not the colour of any triangle", p, m.Diffuse)
						return
					}
				}
			}
		})
		if err != nil {
			return err
		}
	}
	return nil
}
