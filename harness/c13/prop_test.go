package c13

import (
	"testing"

	"verifharness/kit"
)

const rule = "histories: a mesh recipe (library constructors, marching-cubes lattices, triangle soups with shared, duplicated and degenerate faces; 2D and 3D) in one of five index states plus 2-16 per-goroutine query lists, run at GOMAXPROCS 1-8 under the race detector and compared answer by answer with a sequential run on an identically built mesh; the same for colliders, SDFs, solids, hierarchies, UV lookups and render objects derived from one mesh; internally parallel routines (meshers incl. dual contouring with MaxGos/BufferSize and interior points, rasteriser, renderers, k-means Iterate/Assign, height-map filling, caches, OBJ export) at several GOMAXPROCS values against their single-worker result or a reference model; one renderer value shared by 2-3 goroutines rendering at once. Non-trivial: at least two goroutines issue an index-needing query on a non-empty mesh (group 1), at least two goroutines get a non-empty answer (group 2), the routine ran with more than one worker on a non-empty input (group 3). Distinct: hash of the JSON case."

func TestProp(t *testing.T) {
	kit.Run(t, "C13", rule,
		kit.Enum[firstUseCase]{Name: "C13/first-use/concurrent", N: 16, At: func(i int) firstUseCase { return firstUseCase{Index: i} }, Check: checkFirstUse, Fresh: true},
		kit.Clause[meshCase]{Name: "C13/mesh3d/queries", Quick: 400, Thorough: 12000, Gen: genMeshCase, Check: checkMesh, Fresh: true},
		kit.Clause[mesh2Case]{Name: "C13/mesh2d/queries", Quick: 600, Thorough: 12000, Gen: genMesh2Case, Check: checkMesh2, Fresh: true},
		kit.Clause[derivedCase]{Name: "C13/derived3d/queries", Quick: 300, Thorough: 9000, Gen: genDerivedCase, Check: checkDerived, Fresh: true},
		kit.Clause[derived2Case]{Name: "C13/derived2d/queries", Quick: 400, Thorough: 9000, Gen: genDerived2Case, Check: checkDerived2, Fresh: true},
		kit.Clause[mesherCase]{Name: "C13/parallel/meshers", Quick: 200, Thorough: 4000, Gen: genMesherCase, Check: checkMesher, Fresh: true},
		kit.Clause[rasterCase]{Name: "C13/parallel/rasterizer", Quick: 100, Thorough: 3000, Gen: genRasterCase, Check: checkRaster, Fresh: true},
		kit.Clause[renderCase]{Name: "C13/parallel/renderers", Quick: 150, Thorough: 3000, Gen: genRenderCase, Check: checkRender, Fresh: true},
		kit.Clause[kmeansCase]{Name: "C13/parallel/kmeans", Quick: 200, Thorough: 6000, Gen: genKMeansCase, Check: checkKMeans, Fresh: true},
		kit.Clause[heightCase]{Name: "C13/parallel/heightmap", Quick: 100, Thorough: 3000, Gen: genHeightCase, Check: checkHeight, Fresh: true},
		kit.Clause[cacheCase]{Name: "C13/parallel/caches", Quick: 200, Thorough: 6000, Gen: genCacheCase, Check: checkCache, Fresh: true},
		kit.Clause[exportCase]{Name: "C13/parallel/export", Quick: 100, Thorough: 3000, Gen: genExportCase, Check: checkExport, Fresh: true},
	)
}
