package c13

import (
	"testing"

	"verifharness/kit"
)

const rule = "histories: a mesh recipe (library constructors, marching-cubes lattices, triangle soups with shared, duplicated and degenerate faces; 2D and 3D) in one of five index states plus 2-16 per-goroutine query lists, run at GOMAXPROCS 1-8 under the race detector and compared answer by answer with a sequential run on an identically built mesh; the same for colliders, SDFs, solids, hierarchies, UV lookups and render objects derived from one mesh; internally parallel routines (meshers, rasteriser, renderers, k-means, height-map filling, caches, OBJ export) at several GOMAXPROCS values against their single-worker result or a reference model. Non-trivial: at least two goroutines issue an index-needing query on a non-empty mesh (group 1), at least two goroutines get a non-empty answer (group 2), the routine ran with more than one worker on a non-empty input (group 3). Distinct: hash of the JSON case."

func TestProp(t *testing.T) {
	kit.Run(t, "C13", rule,
		kit.Clause[meshCase]{Name: "C13/mesh3d/queries", Quick: 400, Thorough: 12000, Gen: genMeshCase, Check: checkMesh, Fresh: true},
		kit.Clause[mesh2Case]{Name: "C13/mesh2d/queries", Quick: 400, Thorough: 12000, Gen: genMesh2Case, Check: checkMesh2, Fresh: true},
	)
}
