package c13

// Mesh recipes (small JSON descriptions from which identical meshes can be built any number of
// times), answers (canonical, order-free renderings of query results) and the goroutine runner.

import (
	"fmt"
	"math"
	"runtime"
	"runtime/debug"
	"sort"
	"strconv"
	"strings"
	"sync"

	"github.com/unixpickle/model3d/model2d"
	"github.com/unixpickle/model3d/model3d"
	"pgregory.net/rapid"
	"verifharness/gen"
	"verifharness/kit"
	"verifharness/m3"
)

// ---------------------------------------------------------------------------
// answers

// answer is the canonical form of one query result.  S must match exactly (sets are rendered
// sorted, floats with all their bits); F holds values whose last bits legitimately depend on the
// (randomised) map iteration order inside the library, e.g. a sum over all faces: F[2k] is the
// value and F[2k+1] the absolute tolerance.
type answer struct {
	S string
	F []float64
}

func (a answer) diff(b answer) string {
	if a.S != b.S {
		return fmt.Sprintf("%s  !=  %s", clip(a.S), clip(b.S))
	}
	if len(a.F) != len(b.F) {
		return fmt.Sprintf("%v != %v", a.F, b.F)
	}
	for i := 0; i+1 < len(a.F); i += 2 {
		tol := math.Max(a.F[i+1], b.F[i+1])
		if !(math.Abs(a.F[i]-b.F[i]) <= tol) && !(a.F[i] == b.F[i]) {
			return fmt.Sprintf("%s: value %v != %v (tolerance %g)", clip(a.S), a.F[i], b.F[i], tol)
		}
	}
	return ""
}

func clip(s string) string {
	if len(s) > 300 {
		return s[:300] + "..."
	}
	return s
}

func fl(x float64) string { return strconv.FormatFloat(x, 'g', -1, 64) }

func v3s(v model3d.Coord3D) string { return "(" + fl(v.X) + "," + fl(v.Y) + "," + fl(v.Z) + ")" }
func v2s(v model2d.Coord) string   { return "(" + fl(v.X) + "," + fl(v.Y) + ")" }

func intSet(xs []int) string {
	sort.Ints(xs)
	var sb strings.Builder
	sb.WriteByte('{')
	for i, x := range xs {
		if i > 0 {
			sb.WriteByte(' ')
		}
		sb.WriteString(strconv.Itoa(x))
	}
	sb.WriteByte('}')
	return sb.String()
}

func strSet(xs []string) string {
	sort.Strings(xs)
	return "{" + strings.Join(xs, " ") + "}"
}

// ---------------------------------------------------------------------------
// goroutine runner

// runConcurrently starts n goroutines that wait on a common barrier and then call f(g); it returns
// when all are done.  GOMAXPROCS is set to procs for the duration.  A panic in a goroutine is
// re-raised on the caller together with the stack of the goroutine that panicked (kit turns it into
// a violation; the caller's own stack says nothing about which library call failed).
func runConcurrently(n, procs int, f func(g int)) {
	old := runtime.GOMAXPROCS(procs)
	defer runtime.GOMAXPROCS(old)
	start := make(chan struct{})
	var wg sync.WaitGroup
	panics := make([]any, n)
	stacks := make([]string, n)
	for g := 0; g < n; g++ {
		wg.Add(1)
		go func(g int) {
			defer wg.Done()
			defer func() {
				if p := recover(); p != nil {
					panics[g] = p
					stacks[g] = panicSite(string(debug.Stack()))
				}
			}()
			<-start
			f(g)
		}(g)
	}
	close(start)
	wg.Wait()
	for g, p := range panics {
		if p != nil {
			panic(fmt.Sprintf("goroutine %d panicked: %v [at %s]", g, p, stacks[g]))
		}
	}
}

// panicSite condenses a stack trace to the frames between the runtime's panic entry and the
// goroutine wrapper: function names only, innermost first.
func panicSite(stack string) string {
	lines := strings.Split(stack, "\n")
	var fns []string
	after := false
	for _, l := range lines {
		if strings.HasPrefix(l, "\t") || strings.HasPrefix(l, "goroutine ") || l == "" {
			continue
		}
		if i := strings.LastIndexByte(l, '('); i > 0 {
			l = l[:i]
		}
		if strings.HasPrefix(l, "panic") {
			after = true
			fns = fns[:0]
			continue
		}
		if !after || strings.HasPrefix(l, "runtime.") {
			continue
		}
		if strings.Contains(l, "c13.runConcurrently") {
			break
		}
		fns = append(fns, l)
		if len(fns) == 6 {
			break
		}
	}
	return strings.Join(fns, " < ")
}

func withProcs(procs int, f func()) {
	old := runtime.GOMAXPROCS(procs)
	defer runtime.GOMAXPROCS(old)
	f()
}

// compareLists checks conc[g][k] against seq[g][k].
func compareLists(what string, conc, seq [][]answer, ops func(g, k int) string) error {
	for g := range seq {
		if len(conc[g]) != len(seq[g]) {
			return fmt.Errorf("%s: goroutine %d produced %d answers, the sequential run %d", what, g, len(conc[g]), len(seq[g]))
		}
		for k := range seq[g] {
			if d := conc[g][k].diff(seq[g][k]); d != "" {
				return fmt.Errorf("%s: goroutine %d query %d (%s): concurrent answer differs from the sequential run: %s", what, g, k, ops(g, k), d)
			}
		}
	}
	return nil
}

// ---------------------------------------------------------------------------
// 3D recipes

type part struct {
	Kind string        `json:"kind"`
	C    kit.V3        `json:"c"`            // centre / offset / min corner
	B    kit.V3        `json:"b"`            // axis / extent
	R    float64       `json:"r,omitempty"`  // radius
	R2   float64       `json:"r2,omitempty"` // inner radius (torus)
	N    int           `json:"n,omitempty"`
	N2   int           `json:"n2,omitempty"`
	Lat  *gen.Lattice3 `json:"lat,omitempty"`
	Pts  []kit.V3      `json:"pts,omitempty"` // soup: point pool
	Idx  [][3]int      `json:"idx,omitempty"` // soup: index triples (repeats allowed: degenerate faces)
}

type recipe3 struct {
	Parts []part `json:"parts"`
}

func triLess(a, b kit.Tri) bool {
	for i := 0; i < 3; i++ {
		if a[i] != b[i] {
			return kit.V3Less(a[i], b[i])
		}
	}
	return false
}

// libMesh builds the part with the library's own constructors.
func (p part) libMesh() *model3d.Mesh {
	c := m3.C3(p.C)
	switch p.Kind {
	case "ico":
		return model3d.NewMeshIcosphere(c, p.R, p.N)
	case "rect":
		return model3d.NewMeshRect(c, m3.C3(p.C.Add(p.B)))
	case "torus":
		return model3d.NewMeshTorus(c, m3.C3(p.B), p.R2, p.R, p.N, p.N2)
	case "cyl":
		return model3d.NewMeshCylinder(c, m3.C3(p.C.Add(p.B)), p.R, p.N)
	case "cone":
		return model3d.NewMeshCone(c, m3.C3(p.C.Add(p.B)), p.R, p.N)
	case "lattice":
		return model3d.MarchingCubes(p.Lat.Solid(), 1).Translate(c)
	case "latsearch":
		// MarchingCubesSearch moves the vertices and resets the vertex index afterwards
		return model3d.MarchingCubesSearch(p.Lat.Solid(), 1, p.N)
	case "grid":
		// height field z = R*sin(x*N2+y) over an N x N grid in [0,1]^2 (an open disc; used for UV maps)
		m := model3d.NewMesh()
		n := p.N
		at := func(i, j int) model3d.Coord3D {
			x, y := float64(i)/float64(n), float64(j)/float64(n)
			return model3d.XYZ(x, y, p.R*math.Sin(3*x+float64(p.N2)*y)).Add(c)
		}
		for i := 0; i < n; i++ {
			for j := 0; j < n; j++ {
				m.AddQuad(at(i, j), at(i+1, j), at(i+1, j+1), at(i, j+1))
			}
		}
		return m
	case "soup":
		m := model3d.NewMesh()
		for _, ix := range p.Idx {
			m.Add(&model3d.Triangle{m3.C3(p.Pts[ix[0]%len(p.Pts)]), m3.C3(p.Pts[ix[1]%len(p.Pts)]), m3.C3(p.Pts[ix[2]%len(p.Pts)])})
		}
		return m
	}
	panic("c13: unknown part kind " + p.Kind)
}

// tris lists the faces of the recipe in a canonical order (a pure function of the recipe: the
// library's constructors return their faces in map order).
func (r recipe3) tris() []kit.Tri {
	var out []kit.Tri
	for _, p := range r.Parts {
		ts := m3.Tris(p.libMesh())
		sort.Slice(ts, func(i, j int) bool { return triLess(ts[i], ts[j]) })
		out = append(out, ts...)
	}
	return out
}

func (r recipe3) manifold() bool {
	for _, p := range r.Parts {
		switch p.Kind {
		case "ico", "rect", "torus", "cyl", "cone":
		default:
			return false
		}
	}
	return len(r.Parts) > 0
}

// mesh3 is one instance of a recipe: the library mesh plus the pointer <-> index correspondence.
type mesh3 struct {
	m     *model3d.Mesh
	tris  []kit.Tri
	ptrs  []*model3d.Triangle
	idx   map[*model3d.Triangle]int
	scale float64 // largest coordinate magnitude
	area  float64
	degen bool // some face has two equal vertices
}

// preps lists the states in which a mesh can be handed to the goroutines.
//
//	fresh:  built with NewMeshTriangles; the vertex index does not exist yet
//	direct: the very object returned by the library constructor (single part recipes)
//	warm:   the index was built by a query before the goroutines start
//	edited: warm, then a face was removed and added again (incremental index maintenance)
//	copy:   Mesh.Copy() of a warm mesh (fresh index, same face pointers)
var preps = []string{"fresh", "fresh", "fresh", "fresh", "fresh", "direct", "direct", "warm", "edited", "copy"}

func (r recipe3) instance(prep string) *mesh3 {
	h := &mesh3{idx: map[*model3d.Triangle]int{}}
	if prep == "direct" && len(r.Parts) == 1 {
		h.m = r.Parts[0].libMesh()
		h.ptrs = h.m.TriangleSlice()
		sort.Slice(h.ptrs, func(i, j int) bool { return triLess(m3.Tri(h.ptrs[i]), m3.Tri(h.ptrs[j])) })
		for _, p := range h.ptrs {
			h.tris = append(h.tris, m3.Tri(p))
		}
	} else {
		h.tris = r.tris()
		for _, t := range h.tris {
			h.ptrs = append(h.ptrs, &model3d.Triangle{m3.C3(t[0]), m3.C3(t[1]), m3.C3(t[2])})
		}
		h.m = model3d.NewMeshTriangles(h.ptrs)
	}
	for i, p := range h.ptrs {
		h.idx[p] = i
	}
	for _, t := range h.tris {
		for _, v := range t {
			h.scale = math.Max(h.scale, v.MaxAbs())
		}
		h.area += t.Area()
		if t[0] == t[1] || t[1] == t[2] || t[0] == t[2] {
			h.degen = true
		}
	}
	switch prep {
	case "warm":
		h.m.VertexSlice()
	case "edited":
		h.m.VertexSlice()
		if len(h.ptrs) > 0 {
			k := len(h.ptrs) / 2
			h.m.Remove(h.ptrs[k])
			h.m.Add(h.ptrs[k])
		}
	case "copy":
		h.m.VertexSlice()
		h.m = h.m.Copy()
	}
	return h
}

func (h *mesh3) set(ts []*model3d.Triangle) string {
	xs := make([]int, len(ts))
	for i, t := range ts {
		if k, ok := h.idx[t]; ok {
			xs[i] = k
		} else {
			xs[i] = -1
		}
	}
	return intSet(xs)
}

// ---- generators

func genLattice3(t *rapid.T, label string) *gen.Lattice3 {
	l := gen.Lattice3Gen(t, 4, label)
	return &l
}

func genPart3(t *rapid.T, kinds []string, label string) part {
	k := rapid.SampledFrom(kinds).Draw(t, label+".kind")
	p := part{Kind: k, C: gen.Vec3(t, 1, label+".c")}
	switch k {
	case "ico":
		p.R = gen.F(t, 0.3, 1.2, label+".r")
		p.N = gen.Int(t, 1, 3, label+".n")
	case "rect":
		p.B = kit.V3{gen.F(t, 0.1, 1.5, label+".bx"), gen.F(t, 0.1, 1.5, label+".by"), gen.F(t, 0.1, 1.5, label+".bz")}
	case "torus":
		p.B = gen.Dir3(t, label+".axis")
		p.R = gen.F(t, 0.5, 1.2, label+".r")
		p.R2 = p.R * gen.F(t, 0.1, 0.8, label+".r2")
		p.N, p.N2 = gen.Int(t, 3, 7, label+".n"), gen.Int(t, 3, 9, label+".n2")
	case "cyl", "cone":
		p.B = gen.Dir3(t, label+".axis")
		p.R = gen.F(t, 0.2, 1, label+".r")
		p.N = gen.Int(t, 3, 12, label+".n")
	case "lattice":
		p.Lat = genLattice3(t, label+".lat")
	case "latsearch":
		p.C = kit.V3{}
		p.Lat = genLattice3(t, label+".lat")
		p.N = gen.Int(t, 1, 4, label+".iters")
	case "grid":
		p.N = gen.Int(t, 1, 6, label+".n")
		p.N2 = gen.Int(t, 0, 4, label+".n2")
		p.R = gen.F(t, 0, 0.5, label+".r")
	case "soup":
		np := gen.Int(t, 3, 8, label+".npts")
		for i := 0; i < np; i++ {
			p.Pts = append(p.Pts, gen.Vec3(t, 1, label+".pt"))
		}
		nt := gen.Int(t, 1, 24, label+".ntris")
		for i := 0; i < nt; i++ {
			p.Idx = append(p.Idx, [3]int{gen.Int(t, 0, np-1, label+".i0"), gen.Int(t, 0, np-1, label+".i1"), gen.Int(t, 0, np-1, label+".i2")})
		}
	}
	return p
}

var meshKinds3 = []string{"ico", "ico", "rect", "torus", "cyl", "cone", "lattice", "lattice", "latsearch", "grid", "soup", "soup"}

func genRecipe3(t *rapid.T, kinds []string, maxParts int, label string) recipe3 {
	n := 1
	if maxParts > 1 && rapid.IntRange(0, 3).Draw(t, label+".multi") == 0 {
		n = gen.Int(t, 2, maxParts, label+".nparts")
	}
	var r recipe3
	for i := 0; i < n; i++ {
		r.Parts = append(r.Parts, genPart3(t, kinds, label+".part"))
	}
	return r
}

// ---------------------------------------------------------------------------
// 2D recipes

type part2 struct {
	Kind string        `json:"kind"`
	C    kit.V2        `json:"c"`
	B    kit.V2        `json:"b"`
	R    float64       `json:"r,omitempty"`
	A    float64       `json:"a,omitempty"` // harmonic amplitude (polar)
	N    int           `json:"n,omitempty"`
	N2   int           `json:"n2,omitempty"`
	Lat  *gen.Lattice2 `json:"lat,omitempty"`
	Pts  []kit.V2      `json:"pts,omitempty"`
	Idx  [][2]int      `json:"idx,omitempty"`
}

type recipe2 struct {
	Parts []part2 `json:"parts"`
}

func segLess(a, b kit.Seg) bool {
	for i := 0; i < 2; i++ {
		for k := 0; k < 2; k++ {
			if a[i][k] != b[i][k] {
				return a[i][k] < b[i][k]
			}
		}
	}
	return false
}

func (p part2) libMesh() *model2d.Mesh {
	c := m3.C2(p.C)
	switch p.Kind {
	case "polar":
		return model2d.NewMeshPolar(func(th float64) float64 { return p.R * (1 + p.A*math.Sin(float64(p.N2)*th)) }, p.N).Translate(c)
	case "rect":
		return model2d.NewMeshRect(c, m3.C2(p.C.Add(p.B)))
	case "lattice":
		return model2d.MarchingSquares(p.Lat.Solid(), 1).Translate(c)
	case "latsearch":
		return model2d.MarchingSquaresSearch(p.Lat.Solid(), 1, p.N)
	case "soup":
		m := model2d.NewMesh()
		for _, ix := range p.Idx {
			m.Add(&model2d.Segment{m3.C2(p.Pts[ix[0]%len(p.Pts)]), m3.C2(p.Pts[ix[1]%len(p.Pts)])})
		}
		return m
	}
	panic("c13: unknown 2D part kind " + p.Kind)
}

func (r recipe2) segs() []kit.Seg {
	var out []kit.Seg
	for _, p := range r.Parts {
		ss := m3.Segs(p.libMesh())
		sort.Slice(ss, func(i, j int) bool { return segLess(ss[i], ss[j]) })
		out = append(out, ss...)
	}
	return out
}

func (r recipe2) manifold() bool {
	for _, p := range r.Parts {
		if p.Kind != "polar" && p.Kind != "rect" {
			return false
		}
	}
	return len(r.Parts) > 0
}

type mesh2 struct {
	m     *model2d.Mesh
	segs  []kit.Seg
	ptrs  []*model2d.Segment
	idx   map[*model2d.Segment]int
	scale float64
	len   float64
	degen bool
}

func (r recipe2) instance(prep string) *mesh2 {
	h := &mesh2{idx: map[*model2d.Segment]int{}}
	if prep == "direct" && len(r.Parts) == 1 {
		h.m = r.Parts[0].libMesh()
		h.ptrs = h.m.SegmentSlice()
		sort.Slice(h.ptrs, func(i, j int) bool { return segLess(m3.Seg(h.ptrs[i]), m3.Seg(h.ptrs[j])) })
		for _, p := range h.ptrs {
			h.segs = append(h.segs, m3.Seg(p))
		}
	} else {
		h.segs = r.segs()
		for _, s := range h.segs {
			h.ptrs = append(h.ptrs, &model2d.Segment{m3.C2(s[0]), m3.C2(s[1])})
		}
		h.m = model2d.NewMeshSegments(h.ptrs)
	}
	for i, p := range h.ptrs {
		h.idx[p] = i
	}
	for _, s := range h.segs {
		for _, v := range s {
			h.scale = math.Max(h.scale, math.Max(math.Abs(v[0]), math.Abs(v[1])))
		}
		h.len += s[0].Dist(s[1])
		if s[0] == s[1] {
			h.degen = true
		}
	}
	switch prep {
	case "warm":
		h.m.VertexSlice()
	case "edited":
		h.m.VertexSlice()
		if len(h.ptrs) > 0 {
			k := len(h.ptrs) / 2
			h.m.Remove(h.ptrs[k])
			h.m.Add(h.ptrs[k])
		}
	case "copy":
		h.m.VertexSlice()
		h.m = h.m.Copy()
	}
	return h
}

func (h *mesh2) set(ss []*model2d.Segment) string {
	xs := make([]int, len(ss))
	for i, s := range ss {
		if k, ok := h.idx[s]; ok {
			xs[i] = k
		} else {
			xs[i] = -1
		}
	}
	return intSet(xs)
}

func genPart2(t *rapid.T, kinds []string, label string) part2 {
	k := rapid.SampledFrom(kinds).Draw(t, label+".kind")
	p := part2{Kind: k, C: gen.Vec2(t, 1, label+".c")}
	switch k {
	case "polar":
		p.R = gen.F(t, 0.3, 1.2, label+".r")
		p.A = gen.F(t, 0, 0.6, label+".a")
		p.N = gen.Int(t, 3, 40, label+".n")
		p.N2 = gen.Int(t, 1, 5, label+".n2")
	case "rect":
		p.B = kit.V2{gen.F(t, 0.1, 1.5, label+".bx"), gen.F(t, 0.1, 1.5, label+".by")}
	case "lattice":
		l := gen.Lattice2Gen(t, 6, label+".lat")
		p.Lat = &l
	case "latsearch":
		p.C = kit.V2{}
		l := gen.Lattice2Gen(t, 6, label+".lat")
		p.Lat = &l
		p.N = gen.Int(t, 1, 4, label+".iters")
	case "soup":
		np := gen.Int(t, 2, 8, label+".npts")
		for i := 0; i < np; i++ {
			p.Pts = append(p.Pts, gen.Vec2(t, 1, label+".pt"))
		}
		ns := gen.Int(t, 1, 24, label+".nsegs")
		for i := 0; i < ns; i++ {
			p.Idx = append(p.Idx, [2]int{gen.Int(t, 0, np-1, label+".i0"), gen.Int(t, 0, np-1, label+".i1")})
		}
	}
	return p
}

var meshKinds2 = []string{"polar", "polar", "rect", "lattice", "lattice", "latsearch", "soup", "soup"}

func genRecipe2(t *rapid.T, kinds []string, maxParts int, label string) recipe2 {
	n := 1
	if maxParts > 1 && rapid.IntRange(0, 3).Draw(t, label+".multi") == 0 {
		n = gen.Int(t, 2, maxParts, label+".nparts")
	}
	var r recipe2
	for i := 0; i < n; i++ {
		r.Parts = append(r.Parts, genPart2(t, kinds, label+".part"))
	}
	return r
}
