package c14

import (
	"fmt"
	"math"

	"pgregory.net/rapid"
	"verifharness/gen"
	"verifharness/kit"
)

// ---------------------------------------------------------------------------
// Data-only descriptions

// place is a similarity of the plane: optional mirror (y -> -y), rotation, uniform scale, translation.
// "id": no rotation; "quarter": rotation by Quarter*90 degrees with exact 0/±1 entries (keeps axis-aligned
// inputs axis-aligned: equal x / equal y coordinates survive); "generic": rotation by Angle.
type place struct {
	Kind    string  `json:"kind"`
	Quarter int     `json:"quarter,omitempty"`
	Angle   float64 `json:"angle,omitempty"`
	Mirror  bool    `json:"mirror,omitempty"`
	Scale   float64 `json:"scale"`
	Off     kit.V2  `json:"off"`
}

func (p place) apply(v kit.V2) kit.V2 {
	if p.Mirror {
		v[1] = -v[1]
	}
	c, s := 1.0, 0.0
	switch p.Kind {
	case "quarter":
		c = []float64{1, 0, -1, 0}[p.Quarter&3]
		s = []float64{0, 1, 0, -1}[p.Quarter&3]
	case "generic":
		c, s = math.Cos(p.Angle), math.Sin(p.Angle)
	}
	r := kit.V2{c*v[0] - s*v[1], s*v[0] + c*v[1]}
	sc := p.Scale
	if sc == 0 {
		sc = 1
	}
	return r.Scale(sc).Add(p.Off)
}

func (p place) applyLoops(loops [][]kit.V2) [][]kit.V2 {
	out := make([][]kit.V2, len(loops))
	for i, l := range loops {
		out[i] = make([]kit.V2, len(l))
		for j, v := range l {
			out[i][j] = p.apply(v)
		}
	}
	return out
}

func genPlace(t *rapid.T, label string) place {
	p := place{Scale: 1}
	switch rapid.IntRange(0, 5).Draw(t, label+".kind") {
	case 0:
		p.Kind = "id"
	case 1:
		p.Kind = "quarter"
		p.Quarter = rapid.IntRange(0, 3).Draw(t, label+".quarter")
	default:
		p.Kind = "generic"
		p.Angle = gen.F(t, -math.Pi, math.Pi, label+".angle")
	}
	p.Mirror = rapid.Bool().Draw(t, label+".mirror")
	if rapid.IntRange(0, 2).Draw(t, label+".scaled") == 0 {
		p.Scale = gen.LogF(t, 0.1, 10, label+".scale")
	}
	if rapid.IntRange(0, 2).Draw(t, label+".moved") != 0 {
		// offset up to 5 units of the (scaled) canonical frame: |coordinates| stay within ~10 shape diameters
		p.Off = kit.V2{gen.F(t, -5, 5, label+".ox") * p.Scale, gen.F(t, -5, 5, label+".oy") * p.Scale}
	}
	switch rapid.IntRange(0, 9).Draw(t, label+".extreme") {
	case 0:
		// model units: the same polygon in nanometres or in light-seconds (triangulating is a matter of angles and
		// orientation, which do not depend on the unit)
		p.Scale = gen.LogF(t, 1e-9, 1e9, label+".unit")
		p.Off = kit.V2{gen.F(t, -5, 5, label+".uox") * p.Scale, gen.F(t, -5, 5, label+".uoy") * p.Scale}
	case 1:
		// far from the origin: up to 1e6 diameters away (the coordinates keep ~1e-10 of a diameter of resolution)
		d := gen.LogF(t, 1e2, 1e6, label+".far")
		p.Off = kit.V2{gen.F(t, -1, 1, label+".fx") * d * p.Scale, gen.F(t, -1, 1, label+".fy") * d * p.Scale}
	}
	return p
}

// lift places the plane into 3D: origin + x*u + y*v with (u, v, Normal) a right-handed orthonormal frame,
// u rotated by Spin about the normal from a canonical choice.
type lift struct {
	Normal kit.V3  `json:"normal"`
	Spin   float64 `json:"spin"`
	Origin kit.V3  `json:"origin"`
}

func (l lift) frame() (u, v kit.V3) {
	n := l.Normal.Unit()
	// canonical u0: the coordinate axis least aligned with n, made orthogonal to n
	k := 0
	for i := 1; i < 3; i++ {
		if math.Abs(n[i]) < math.Abs(n[k]) {
			k = i
		}
	}
	var e kit.V3
	e[k] = 1
	u0 := e.Sub(n.Scale(e.Dot(n))).Unit()
	v0 := n.Cross(u0)
	c, s := math.Cos(l.Spin), math.Sin(l.Spin)
	if l.Spin == 0 {
		c, s = 1, 0
	}
	u = u0.Scale(c).Add(v0.Scale(s))
	v = n.Cross(u)
	return
}

func (l lift) apply(p kit.V2) kit.V3 {
	u, v := l.frame()
	return l.Origin.Add(u.Scale(p[0])).Add(v.Scale(p[1]))
}

func genLift(t *rapid.T, label string) lift {
	l := lift{Normal: gen.Dir3(t, label+".n")} // axis-aligned with probability 1/4
	if rapid.IntRange(0, 2).Draw(t, label+".spun") != 0 {
		l.Spin = gen.F(t, -math.Pi, math.Pi, label+".spin")
	}
	if rapid.IntRange(0, 2).Draw(t, label+".moved") != 0 {
		l.Origin = gen.Vec3(t, 5, label+".origin")
	}
	return l
}

// shape is a set of pairwise disjoint simple loops in a canonical frame.  Which loop is an outer
// boundary, a hole or an island is decided geometrically (nesting depth) by the check.
type shape struct {
	Family string     `json:"family"`
	Loops  [][]kit.V2 `json:"loops"`
}

// ---------------------------------------------------------------------------
// Validity: simple, pairwise disjoint, with clearance (independent brute force).

type bbox struct{ min, max kit.V2 }

func boundsOf(loops [][]kit.V2) bbox {
	b := bbox{kit.V2{math.Inf(1), math.Inf(1)}, kit.V2{math.Inf(-1), math.Inf(-1)}}
	for _, l := range loops {
		for _, p := range l {
			for k := 0; k < 2; k++ {
				b.min[k] = math.Min(b.min[k], p[k])
				b.max[k] = math.Max(b.max[k], p[k])
			}
		}
	}
	return b
}

func (b bbox) diam() float64 { return b.max.Dist(b.min) }

func loopSegs(l []kit.V2) []kit.Seg {
	s := make([]kit.Seg, len(l))
	for i := range l {
		s[i] = kit.Seg{l[i], l[(i+1)%len(l)]}
	}
	return s
}

// relClearance is the guaranteed separation between non-adjacent boundary pieces (and the minimum edge
// length), relative to the bounding-box diagonal of the whole shape.
const relClearance = 1e-3

// validLoops checks that every loop has >= 3 finite vertices, that no two non-adjacent segments come
// closer than clr, that adjacent segments do not fold back onto each other within clr (a straight
// continuation — a colinear run — is fine) and that the total even-odd area is at least 1e-3 of the
// squared diameter.
func validLoops(loops [][]kit.V2) error {
	if len(loops) == 0 {
		return fmt.Errorf("no loops")
	}
	type sref struct {
		loop, idx, n int
		s            kit.Seg
	}
	var all []sref
	for li, l := range loops {
		if len(l) < 3 {
			return fmt.Errorf("loop %d has %d vertices", li, len(l))
		}
		for i, p := range l {
			if !p.Finite() {
				return fmt.Errorf("loop %d vertex %d is not finite", li, i)
			}
			all = append(all, sref{li, i, len(l), kit.Seg{p, l[(i+1)%len(l)]}})
		}
	}
	d := boundsOf(loops).diam()
	if !(d > 0) {
		return fmt.Errorf("zero diameter")
	}
	clr := relClearance * d
	for i := range all {
		a := all[i]
		if a.s[0].Dist(a.s[1]) < clr {
			return fmt.Errorf("loop %d edge %d shorter than the clearance", a.loop, a.idx)
		}
		for j := i + 1; j < len(all); j++ {
			b := all[j]
			if a.loop == b.loop && ((a.idx+1)%a.n == b.idx || (b.idx+1)%b.n == a.idx) {
				// adjacent: the far endpoints must stay clear of the other segment
				var x, y kit.Seg // x ends where y starts
				if (a.idx+1)%a.n == b.idx {
					x, y = a.s, b.s
				} else {
					x, y = b.s, a.s
				}
				if a.n == 3 {
					// in a triangle every pair of edges is adjacent; the area condition below suffices
					continue
				}
				if dd, _ := kit.PointSegDist2(y[1], x[0], x[1]); dd < clr {
					return fmt.Errorf("loop %d folds back at vertex %d", a.loop, b.idx)
				}
				if dd, _ := kit.PointSegDist2(x[0], y[0], y[1]); dd < clr {
					return fmt.Errorf("loop %d folds back at vertex %d", a.loop, b.idx)
				}
				continue
			}
			// every orientation determinant of a real crossing is >= clr^2 here (the endpoint distances
			// below are checked too); a threshold of 1e-9 d^2 keeps colinear runs (rounding noise of
			// either sign) from being reported as crossings
			if tolerantCross(a.s[0], a.s[1], b.s[0], b.s[1], 1e-9*d*d) {
				return fmt.Errorf("loop %d edge %d crosses loop %d edge %d", a.loop, a.idx, b.loop, b.idx)
			}
			for k := 0; k < 2; k++ {
				if dd, _ := kit.PointSegDist2(a.s[k], b.s[0], b.s[1]); dd < clr {
					return fmt.Errorf("loop %d edge %d within clearance of loop %d edge %d", a.loop, a.idx, b.loop, b.idx)
				}
				if dd, _ := kit.PointSegDist2(b.s[k], a.s[0], a.s[1]); dd < clr {
					return fmt.Errorf("loop %d edge %d within clearance of loop %d edge %d", a.loop, a.idx, b.loop, b.idx)
				}
			}
		}
	}
	// every loop individually must enclose a real area (excludes fully degenerate loops and triangles
	// that are slivers), and so must the region
	for li, l := range loops {
		ld := boundsOf([][]kit.V2{l}).diam()
		if a := math.Abs(kit.SignedArea2(loopSegs(l))); a < 1e-3*ld*ld {
			return fmt.Errorf("loop %d is a sliver (area %g, diameter %g)", li, a, ld)
		}
	}
	return nil
}

// ---------------------------------------------------------------------------
// Outline templates.  Each returns a simple polygon (by construction) and a disc strictly inside it
// (radius 0: none) where holes may be placed.

type outline struct {
	pts   []kit.V2
	safeC kit.V2
	safeR float64
}

// starPts: vertices at strictly increasing angles around the origin with every angular gap below pi
// (weights in [1, 1.9] => largest gap <= 1.9/(1.9+2) * 2pi < pi for n >= 3): star-shaped about the
// origin, hence simple.  mode 0: random radii in [rlo, 1]; 1: all radii 1 (strictly convex);
// 2: alternating large/small radii (every other vertex reflex; n is made even).
func starPts(t *rapid.T, label string, n int, rlo float64, mode int) (pts []kit.V2, minR, maxGap float64) {
	if mode == 2 && n%2 == 1 {
		n++
	}
	w := make([]float64, n)
	sum := 0.0
	for i := range w {
		w[i] = gen.F(t, 1, 1.9, label+".w")
		sum += w[i]
	}
	a := gen.F(t, 0, 2*math.Pi, label+".a0")
	minR = math.Inf(1)
	for i := 0; i < n; i++ {
		r := 1.0
		switch mode {
		case 0:
			r = gen.F(t, rlo, 1, label+".r")
		case 2:
			if i%2 == 0 {
				r = gen.F(t, 0.75, 1, label+".r")
			} else {
				r = gen.F(t, rlo, rlo+0.2, label+".r")
			}
		}
		minR = math.Min(minR, r)
		pts = append(pts, kit.V2{r * math.Cos(a), r * math.Sin(a)})
		g := 2 * math.Pi * w[i] / sum
		maxGap = math.Max(maxGap, g)
		a += g
	}
	return
}

func starOutline(t *rapid.T, label string, n int, mode int) outline {
	pts, minR, maxGap := starPts(t, label, n, 0.3, mode)
	// anisotropic stretch (affine maps preserve star-shapedness and convexity)
	q := 1.0
	if rapid.IntRange(0, 2).Draw(t, label+".squashed") == 0 {
		q = gen.F(t, 0.3, 1, label+".squash")
	}
	for i := range pts {
		pts[i][1] *= q
	}
	// a star polygon with radii >= rho and gaps <= g contains the disc of radius rho*cos(g/2)
	return outline{pts: pts, safeR: 0.8 * q * minR * math.Cos(maxGap/2)}
}

// monotoneOutline: an x-monotone polygon.  Left tip (0,0), right tip (W,0); an upper chain with
// y in [0.25, 1] and a lower chain with y in [-1, -0.25] over strictly increasing abscissae inside (0, W).
// The chains are graphs of functions that are positive resp. negative on (0, W): simple.  The first/last
// chain vertices lie within the outer quarters, so the strip |y| < 0.25 over [W/4, 3W/4] is inside.
func monotoneOutline(t *rapid.T, label string) outline {
	nu := rapid.IntRange(2, 9).Draw(t, label+".nu")
	nl := rapid.IntRange(2, 9).Draw(t, label+".nl")
	regular := rapid.IntRange(0, 3).Draw(t, label+".regular") == 0
	share := rapid.Bool().Draw(t, label+".sharex")
	W := gen.F(t, 1, 3, label+".W")
	xs := func(n int, lab string) []float64 {
		x := make([]float64, n)
		x[0] = W * gen.F(t, 0.05, 0.25, lab+".first")
		x[n-1] = W * gen.F(t, 0.75, 0.95, lab+".last")
		if n > 2 {
			w := make([]float64, n-1)
			s := 0.0
			for i := range w {
				w[i] = gen.F(t, 1, 3, lab+".w")
				if regular {
					w[i] = 1
				}
				s += w[i]
			}
			acc := 0.0
			for i := 1; i < n-1; i++ {
				acc += w[i-1]
				x[i] = x[0] + (x[n-1]-x[0])*acc/s
			}
		}
		return x
	}
	xu := xs(nu, label+".xu")
	xl := xs(nl, label+".xl")
	if share && nu == nl {
		xl = xu // equal abscissae on both chains (vertical alignment before placement)
	}
	ys := func(n int, lab string) []float64 {
		y := make([]float64, n)
		for i := range y {
			if regular {
				y[i] = []float64{0.9, 0.3}[i%2]
			} else {
				y[i] = gen.F(t, 0.25, 1, lab)
			}
		}
		return y
	}
	yu, yl := ys(nu, label+".yu"), ys(nl, label+".yl")
	var pts []kit.V2
	// counter-clockwise: left tip, lower chain left to right, right tip, upper chain right to left
	pts = append(pts, kit.V2{0, 0})
	for i := 0; i < nl; i++ {
		pts = append(pts, kit.V2{xl[i], -yl[i]})
	}
	pts = append(pts, kit.V2{W, 0})
	for i := nu - 1; i >= 0; i-- {
		pts = append(pts, kit.V2{xu[i], yu[i]})
	}
	return outline{pts: pts, safeC: kit.V2{W / 2, 0}, safeR: 0.2}
}

// combOutline: a base slab [0,X] x [0,b] carrying k teeth separated by gaps.  Teeth may lean by less
// than 0.35 of the narrowest gap, so neighbouring flanks stay >= 0.3 gap widths apart; gap floors lie in
// [0.6 b, b + 0.1], tooth tops at >= b + 0.3: simple.  "regular": equal widths, heights and flat floors,
// i.e. many exactly colinear non-adjacent vertices and equal abscissae.
func combOutline(t *rapid.T, label string) outline {
	k := rapid.IntRange(1, 5).Draw(t, label+".teeth")
	regular := rapid.IntRange(0, 2).Draw(t, label+".regular") == 0
	b := gen.F(t, 0.3, 0.6, label+".base")
	x := make([]float64, 2*k)
	minGap := 0.3
	for i := 1; i < 2*k; i++ {
		w := 0.25
		if !regular {
			w = gen.F(t, 0.12, 0.4, label+".w")
		}
		if i%2 == 0 && w < minGap {
			minGap = w
		}
		x[i] = x[i-1] + w
	}
	X := x[2*k-1]
	var pts []kit.V2
	pts = append(pts, kit.V2{0, 0}, kit.V2{X, 0})
	for j := k - 1; j >= 0; j-- {
		h, lean := 0.5, 0.0
		if !regular {
			h = gen.F(t, 0.3, 0.9, label+".h")
			lean = gen.F(t, -0.35, 0.35, label+".lean") * minGap
		}
		pts = append(pts, kit.V2{x[2*j+1] + lean, b + h}, kit.V2{x[2*j] + lean, b + h})
		if j > 0 {
			gr, gl := 0.0, 0.0
			if !regular {
				gr, gl = gen.F(t, -0.4*b, 0.1, label+".gr"), gen.F(t, -0.4*b, 0.1, label+".gl")
			}
			pts = append(pts, kit.V2{x[2*j], b + gr}, kit.V2{x[2*j-1], b + gl})
		}
	}
	return outline{pts: pts, safeC: kit.V2{X / 2, 0.3 * b}, safeR: math.Min(0.25*b, 0.2*X)}
}

// spiralOutline: a corridor of half-width h around the spiral r = a + theta/(2 pi) (pitch 1), sampled at
// 8..12 points per turn with angular jitter below a tenth of the step; outer side forward, inner side
// backward.  With chord half-angles <= 25 degrees the inner chords of one turn stay outside the outer
// vertices of the previous one for radii < 4.7 (0.908 (c+1-h) > c+h); the generator re-validates.
func spiralOutline(t *rapid.T, label string) outline {
	m := rapid.IntRange(8, 12).Draw(t, label+".perturn")
	turns := gen.F(t, 0.8, 2.0, label+".turns")
	a := gen.F(t, 0.8, 1.5, label+".r0")
	h := gen.F(t, 0.12, 0.25, label+".halfwidth")
	steps := int(turns*float64(m)) + 1
	step := 2 * math.Pi / float64(m)
	var outer, inner []kit.V2
	for k := 0; k <= steps; k++ {
		th := (float64(k) + gen.F(t, -0.1, 0.1, label+".jit")) * step
		c := a + th/(2*math.Pi)
		d := kit.V2{math.Cos(th), math.Sin(th)}
		outer = append(outer, d.Scale(c+h))
		inner = append(inner, d.Scale(c-h))
	}
	pts := append([]kit.V2{}, outer...)
	for k := len(inner) - 1; k >= 0; k-- {
		pts = append(pts, inner[k])
	}
	return outline{pts: pts}
}

// addRuns inserts 1..3 extra vertices on up to maxEdges edges: colinear runs (exactly on the edge up to
// the rounding of a + tau (b - a)).
func addRuns(t *rapid.T, label string, pts []kit.V2, maxEdges int) []kit.V2 {
	ne := rapid.IntRange(0, maxEdges).Draw(t, label+".nedges")
	if ne == 0 {
		return pts
	}
	sel := map[int]int{}
	for i := 0; i < ne; i++ {
		sel[rapid.IntRange(0, len(pts)-1).Draw(t, label+".edge")] = rapid.IntRange(1, 3).Draw(t, label+".k")
	}
	var out []kit.V2
	for i, a := range pts {
		out = append(out, a)
		k, ok := sel[i]
		if !ok {
			continue
		}
		b := pts[(i+1)%len(pts)]
		// consecutive run vertices are >= 0.4 L/(k+1) apart (jitter +-0.3 of a slot); keep that above
		// 0.04 canonical units, i.e. several clearances for shapes of diameter <= 12
		for k > 0 && a.Dist(b)*0.4/float64(k+1) < 0.04 {
			k--
		}
		even := rapid.Bool().Draw(t, label+".even")
		for j := 1; j <= k; j++ {
			jit := 0.0
			if !even {
				jit = gen.F(t, -0.3, 0.3, label+".tau")
			}
			tau := (float64(j) + jit) / float64(k+1)
			out = append(out, a.Add(b.Sub(a).Scale(tau)))
		}
	}
	return out
}

func translate(pts []kit.V2, d kit.V2) []kit.V2 {
	out := make([]kit.V2, len(pts))
	for i, p := range pts {
		out[i] = p.Add(d)
	}
	return out
}

// addHoles appends up to three star-shaped holes inside the disc (c, R) and, recursively, islands
// inside the holes (nesting depth <= 3).  Hole circumdiscs are disjoint and inside (c, R) by the slot
// layout: one hole: centre within 0.15 R, circumradius <= 0.68 R; k = 2, 3 holes: centres at distance
// R/2 at angles 2 pi j / k, circumradius <= 0.8 (R/2) sin(pi/k).
func addHoles(t *rapid.T, label string, loops *[][]kit.V2, c kit.V2, R float64, depth int, force bool) {
	if depth > 3 || R < 0.01 {
		return
	}
	lo := 0
	if force {
		lo = 1
	}
	k := rapid.IntRange(lo, 3).Draw(t, label+".nholes")
	phi := gen.F(t, 0, 2*math.Pi, label+".phi")
	for j := 0; j < k; j++ {
		var hc kit.V2
		var rho float64
		if k == 1 {
			hc = c.Add(kit.V2{gen.F(t, -0.1, 0.1, label+".dx") * R, gen.F(t, -0.1, 0.1, label+".dy") * R})
			rho = R * gen.F(t, 0.3, 0.68, label+".rho")
		} else {
			ang := phi + 2*math.Pi*float64(j)/float64(k)
			hc = c.Add(kit.V2{math.Cos(ang), math.Sin(ang)}.Scale(R / 2))
			rho = 0.8 * R / 2 * math.Sin(math.Pi/float64(k)) * gen.F(t, 0.5, 1, label+".rho")
		}
		n := rapid.IntRange(3, 7).Draw(t, label+".n")
		mode := rapid.IntRange(0, 1).Draw(t, label+".mode")
		pts, minR, maxGap := starPts(t, label+".hole", n, 0.6, mode)
		for i := range pts {
			pts[i] = hc.Add(pts[i].Scale(rho))
		}
		if depth <= 2 {
			pts = addRuns(t, label+".holeruns", pts, 1)
		}
		*loops = append(*loops, pts)
		if rapid.IntRange(0, 2).Draw(t, label+".nest") == 0 {
			addHoles(t, label+".in", loops, hc, 0.8*rho*minR*math.Cos(maxGap/2), depth+1, true)
		}
	}
}

var families = []string{"convex", "star", "zigzag", "monotone", "comb", "spiral", "dart", "tri1side"}

// tri1sideOutline: a triangle one side of which is subdivided by 1-4 further vertices; all vertices but the apex
// lie on one line, so whichever vertices a routine looks at first, at most one of them is off that line.
func tri1sideOutline(t *rapid.T, label string) outline {
	a := kit.V2{0, 0}
	b := kit.V2{gen.F(t, 1.5, 6, label+".w"), gen.F(t, -0.5, 0.5, label+".by")}
	c := kit.V2{gen.F(t, -1, 5, label+".cx"), gen.F(t, 0.4, 3, label+".h")}
	k := rapid.IntRange(1, 4).Draw(t, label+".k")
	pts := []kit.V2{a}
	for i := 0; i < k; i++ {
		f := (float64(i) + gen.F(t, 0.2, 0.8, label+".f")) / float64(k)
		pts = append(pts, a.Add(b.Sub(a).Scale(f)))
	}
	return outline{pts: append(pts, b, c)}
}

// dartOutline: a triangle A, B, C with a fourth vertex D strictly inside it inserted between A and B: the
// quadrilateral A, D, B, C is simple and not convex (reflex at D).  The smallest polygons with a reflex vertex —
// the case a special-cased fast path for quadrilateral faces gets wrong.  With a second interior vertex between
// B and C it becomes a pentagon with two reflex vertices.
func dartOutline(t *rapid.T, label string) outline {
	a := kit.V2{0, 0}
	b := kit.V2{gen.F(t, 0.8, 3, label+".w"), gen.F(t, -0.3, 0.3, label+".by")}
	c := kit.V2{gen.F(t, -0.5, 3, label+".cx"), gen.F(t, 0.8, 3, label+".h")}
	in := func(lab string, p, q, r kit.V2) kit.V2 {
		// strictly inside the triangle, at least 10% away from every side in barycentric terms
		u := gen.F(t, 0.1, 0.45, lab+".u")
		v := gen.F(t, 0.1, 0.45, lab+".v")
		return p.Scale(u).Add(q.Scale(v)).Add(r.Scale(1 - u - v))
	}
	pts := []kit.V2{a, in(label+".d", a, b, c), b, c}
	if rapid.IntRange(0, 2).Draw(t, label+".penta") == 0 {
		// second dent, kept inside the sub-triangle (B, C, centroid) so that it cannot meet the first one
		g := a.Add(b).Add(c).Scale(1.0 / 3)
		e := b.Scale(0.4).Add(c.Scale(0.4)).Add(g.Scale(0.2))
		d := pts[1]
		// the first dent must stay on the A-B side of the centroid: re-draw it inside (A, B, G)
		d = in(label+".d2", a, b, g)
		pts = []kit.V2{a, d, b, e, c}
	}
	return outline{pts: pts}
}

func genOutline(t *rapid.T, label, family string) outline {
	switch family {
	case "convex":
		return starOutline(t, label, manyOr(t, label, rapid.IntRange(3, 14).Draw(t, label+".n")), 1)
	case "star":
		return starOutline(t, label, manyOr(t, label, rapid.IntRange(4, 18).Draw(t, label+".n")), 0)
	case "zigzag":
		return starOutline(t, label, manyOr(t, label, rapid.IntRange(6, 20).Draw(t, label+".n")), 2)
	case "monotone":
		return monotoneOutline(t, label)
	case "comb":
		return combOutline(t, label)
	case "spiral":
		return spiralOutline(t, label)
	case "dart":
		return dartOutline(t, label)
	case "tri1side":
		return tri1sideOutline(t, label)
	}
	panic("unknown family " + family)
}

var fallbackSquare = []kit.V2{{0, 0}, {1, 0}, {1, 1}, {0, 1}}

// genSimple draws one simple polygon (no holes), with colinear runs.
func genSimple(t *rapid.T, label string) shape {
	fam := rapid.SampledFrom(families).Draw(t, label+".family")
	o := genOutline(t, label, fam)
	pts := o.pts
	if fam == "tri1side" {
		// as it is: the point of the family is that only one side has further vertices
	} else if fam != "dart" || rapid.IntRange(0, 2).Draw(t, label+".dartruns") == 0 {
		pts = addRuns(t, label+".runs", o.pts, 3)
	}
	s := shape{Family: fam, Loops: [][]kit.V2{pts}}
	if validLoops(s.Loops) != nil {
		// the templates are simple by construction; this only triggers when a jittered spiral or a
		// squashed star violates the clearance
		s = shape{Family: "fallback", Loops: [][]kit.V2{fallbackSquare}}
	}
	return s
}

// genRegion draws one or two outlines with holes and nested islands.
func genRegion(t *rapid.T, label string) shape {
	fam := rapid.SampledFrom(families).Draw(t, label+".family")
	o := genOutline(t, label, fam)
	s := shape{Family: fam}
	s.Loops = append(s.Loops, addRuns(t, label+".runs", o.pts, 3))
	if o.safeR > 0 && rapid.IntRange(0, 3).Draw(t, label+".holes") != 0 {
		addHoles(t, label+".h", &s.Loops, o.safeC, o.safeR, 1, true)
	}
	if rapid.IntRange(0, 3).Draw(t, label+".second") == 0 {
		fam2 := rapid.SampledFrom(families).Draw(t, label+".family2")
		o2 := genOutline(t, label+".o2", fam2)
		b1, b2 := boundsOf(s.Loops), boundsOf([][]kit.V2{o2.pts})
		d := kit.V2{b1.max[0] - b2.min[0] + 0.3, gen.F(t, -0.5, 0.5, label+".dy2")}
		s.Loops = append(s.Loops, translate(o2.pts, d))
		if o2.safeR > 0 && rapid.Bool().Draw(t, label+".holes2") {
			addHoles(t, label+".h2", &s.Loops, o2.safeC.Add(d), o2.safeR, 1, true)
		}
		s.Family += "+" + fam2
	}
	// children follow their parents in the list: dropping a suffix keeps the rest a valid region
	for len(s.Loops) > 1 && validLoops(s.Loops) != nil {
		s.Loops = s.Loops[:len(s.Loops)-1]
	}
	if validLoops(s.Loops) != nil {
		s = shape{Family: "fallback", Loops: [][]kit.V2{fallbackSquare}}
	}
	return s
}

// manyOr: one outline in sixteen has many vertices (polygons of a few hundred vertices are ordinary input; code paths
// chosen by size must agree with the small ones).
func manyOr(t *rapid.T, label string, n int) int {
	if rapid.IntRange(0, 15).Draw(t, label+".many") == 0 {
		return 2 * rapid.IntRange(20, 80).Draw(t, label+".nmany")
	}
	return n
}
