package c14

import (
	"errors"
	"fmt"
	"math"

	"verifharness/kit"
)

// region is the independent description of the input: all boundary loops in the coordinates handed
// to the library.
type region struct {
	loops  [][]kit.V2
	segs   []kit.Seg
	verts  map[kit.V2]int // canonicalised vertex -> index into pts
	pts    []kit.V2
	depth  []int   // nesting depth of every loop (0: outer boundary, 1: hole, 2: island ...)
	area   float64 // even-odd area: sum over loops of (-1)^depth |shoelace|
	diam   float64
	maxAbs float64
	reflex int // vertices turning against their loop's orientation, |sin| > 1e-6
	runs   int // vertices with |sin| < 1e-10 (colinear runs)
	band   int // vertices with 1e-10 <= |sin| <= 1e-6 (undecidable for the 1e-8 colinearity threshold)
}

func canon(v kit.V2) kit.V2 {
	for i := range v {
		if v[i] == 0 {
			v[i] = 0
		}
	}
	return v
}

func shoelace(l []kit.V2) float64 { // positive: counter-clockwise
	var s float64
	for i := range l {
		s += l[i].Sub(l[0]).Cross(l[(i+1)%len(l)].Sub(l[0]))
	}
	return s / 2
}

func newRegion(loops [][]kit.V2) (*region, error) {
	r := &region{loops: loops, verts: map[kit.V2]int{}}
	for _, l := range loops {
		for _, p := range l {
			if _, dup := r.verts[canon(p)]; dup {
				return nil, fmt.Errorf("%w: duplicate input vertex %v", kit.ErrInfra, p)
			}
			r.verts[canon(p)] = len(r.pts)
			r.pts = append(r.pts, p)
			r.maxAbs = math.Max(r.maxAbs, math.Max(math.Abs(p[0]), math.Abs(p[1])))
		}
		r.segs = append(r.segs, loopSegs(l)...)
	}
	r.diam = boundsOf(loops).diam()
	r.depth = make([]int, len(loops))
	for i, l := range loops {
		for j, m := range loops {
			if i == j {
				continue
			}
			in, ok := kit.EvenOdd2(loopSegs(m), l[0], 1e-6*r.diam)
			if !ok {
				return nil, fmt.Errorf("%w: loop %d vertex 0 is on loop %d", kit.ErrInfra, i, j)
			}
			if in {
				r.depth[i]++
			}
		}
		a := shoelace(l)
		if r.depth[i]%2 == 0 {
			r.area += math.Abs(a)
		} else {
			r.area -= math.Abs(a)
		}
		n := len(l)
		for k := range l {
			p1, p2, p3 := l[(k+n-1)%n], l[k], l[(k+1)%n]
			s := p2.Sub(p1).Unit().Cross(p3.Sub(p2).Unit())
			switch {
			case math.Abs(s) < 1e-10:
				r.runs++
			case math.Abs(s) <= 1e-6:
				r.band++
			case ((s > 0) != (a > 0)) != (r.depth[i]%2 == 1):
				// turning against the loop's direction; for a hole the roles swap (its convex corners
				// are reflex corners of the region)
				r.reflex++
			}
		}
	}
	return r, nil
}

// oriented returns the loops with outer boundaries/islands clockwise and holes counter-clockwise
// (model2d: the normal of a segment is its direction rotated by +90 degrees and must point out of the
// region, so the region lies to the right of every directed segment).
func (r *region) oriented() [][]kit.V2 {
	out := make([][]kit.V2, len(r.loops))
	for i, l := range r.loops {
		wantCCW := r.depth[i]%2 == 1
		c := append([]kit.V2{}, l...)
		if (shoelace(l) > 0) != wantCCW {
			for a, b := 0, len(c)-1; a < b; a, b = a+1, b-1 {
				c[a], c[b] = c[b], c[a]
			}
		}
		out[i] = c
	}
	return out
}

func (r *region) labels(o *kit.Obs) {
	holes, maxd := 0, 0
	for _, d := range r.depth {
		if d%2 == 1 {
			holes++
		}
		if d > maxd {
			maxd = d
		}
	}
	if r.reflex > 0 || holes > 0 {
		o.NonTrivial()
	}
	bucket := func(n int) string {
		switch {
		case n == 0:
			return "0"
		case n <= 2:
			return "1-2"
		case n <= 6:
			return "3-6"
		case n <= 15:
			return "7-15"
		}
		return "16+"
	}
	o.Label("reflex:" + bucket(r.reflex))
	o.Label("run-vertices:" + bucket(r.runs))
	o.Label("verts:" + bucket(len(r.pts)))
	if len(r.loops) > 1 {
		o.Labelf("holes:%d", holes)
		o.Labelf("nesting-depth:%d", maxd)
	}
}

// errSkipped: the case fell into a stated undecidable band (o.Skip has been called); callers turn it
// into a nil verdict through done().
var errSkipped = errors.New("skipped")

func done(err error) error {
	if errors.Is(err, errSkipped) {
		return nil
	}
	return err
}

type coverOpts struct {
	clockwise bool // every proper triangle must be clockwise (documented for TriangulateMesh)
	earClip   bool // the algorithm drops vertices whose |sin(angle)| <= 1e-8 (documented threshold in removeColinearPoints)
}

// tolerantCross: the open segments cross at a single interior point, with every orientation
// determinant exceeding tol (an exactly touching or colinear configuration evaluates to rounding noise
// of either sign).
func tolerantCross(a, b, c, d kit.V2, tol float64) bool {
	o1, o2 := kit.Orient2(a, b, c), kit.Orient2(a, b, d)
	o3, o4 := kit.Orient2(c, d, a), kit.Orient2(c, d, b)
	if math.Abs(o1) <= tol || math.Abs(o2) <= tol || math.Abs(o3) <= tol || math.Abs(o4) <= tol {
		return false
	}
	return (o1 > 0) != (o2 > 0) && (o3 > 0) != (o4 > 0)
}

// checkCover is the oracle of C14 for one triangulation of the region.
//
//	vertex:   every triangle vertex is bit-equal to an input vertex
//	degenerate triangles: |area| <= 1e-12 region area (+ rounding floor); they have no interior and are
//	          exempt from the clauses below (DESIGN calibration: the sweep emits them across colinear runs)
//	orient:   proper triangles are clockwise where documented
//	inside:   centroid and edge midpoints of a proper triangle are not outside the region (even-odd,
//	          undecided within 1e-9 diameters of the boundary)
//	cross:    no region edge properly crosses an edge of a proper triangle
//	disjoint: proper triangles overlap pairwise in at most 1e-9 region areas
//	area:     sum |area| = region area within 1e-9 relative (+ rounding floor)
func checkCover(r *region, tris [][3]kit.V2, opt coverOpts, o *kit.Obs) error {
	for i, t := range tris {
		for _, v := range t {
			if _, ok := r.verts[canon(v)]; !ok {
				return fmt.Errorf("triangle %d has vertex %v which is not an input vertex", i, v)
			}
		}
	}
	// rounding floor of an orientation determinant of points of magnitude maxAbs spread over diam:
	// differences carry <= 1 ulp(maxAbs), products <= diam * that, a handful of operations
	floor := 2e-15 * r.maxAbs * r.diam
	degThr := 1e-12*r.area + floor
	var proper [][3]kit.V2
	sum := 0.0
	ndeg := 0
	for _, t := range tris {
		a := kit.Orient2(t[0], t[1], t[2]) / 2
		sum += math.Abs(a)
		if math.Abs(a) <= degThr {
			ndeg++
			continue
		}
		proper = append(proper, t)
	}
	// A non-degenerate triangle whose largest angle is within 1e-6 of pi (sine <= 1e-6) certifies that three
	// input vertices are colinear to within 1e-6: such inputs sit in the band around the library's angle
	// decisions (1e-8 colinearity threshold, ~1.5e-8 resolution of its arccosine-based angles), where a
	// sliver of relative area <= 1e-6 may legitimately be dropped or emitted with either orientation.
	for _, t := range proper {
		e := []float64{t[0].Dist(t[1]), t[1].Dist(t[2]), t[2].Dist(t[0])}
		e = kit.SortedFloats(e)
		if math.Abs(kit.Orient2(t[0], t[1], t[2])) <= 1e-6*e[0]*e[1] {
			o.Skip("near-colinear-vertex-triple-band")
			return errSkipped
		}
	}
	if ndeg > 0 {
		o.Label("degenerate-triangles:yes")
	} else {
		o.Label("degenerate-triangles:no")
	}
	tolD := 1e-9 * r.diam
	tolX := 1e-9 * r.diam * r.diam
	undecided := 0
	for i, t := range proper {
		if opt.clockwise && kit.Orient2(t[0], t[1], t[2]) > 0 {
			return fmt.Errorf("proper triangle %v (#%d, area %g) is counter-clockwise; clockwise is documented", t, i, kit.Orient2(t[0], t[1], t[2])/2)
		}
		probes := []kit.V2{
			t[0].Add(t[1]).Add(t[2]).Scale(1.0 / 3),
			t[0].Mid(t[1]), t[1].Mid(t[2]), t[2].Mid(t[0]),
		}
		for k, p := range probes {
			in, ok := kit.EvenOdd2(r.segs, p, tolD)
			if !ok {
				if k == 0 {
					undecided++
				}
				continue
			}
			if !in {
				what := "centroid"
				if k > 0 {
					what = fmt.Sprintf("midpoint of edge %d", k-1)
				}
				return fmt.Errorf("triangle %v: %s %v lies outside the region", t, what, p)
			}
		}
		for k := 0; k < 3; k++ {
			p, q := t[k], t[(k+1)%3]
			for _, s := range r.segs {
				if tolerantCross(p, q, s[0], s[1], tolX) {
					return fmt.Errorf("triangle %v: edge %v-%v properly crosses the region edge %v-%v", t, p, q, s[0], s[1])
				}
			}
		}
	}
	if undecided > 0 {
		o.Label("centroid-on-boundary(undecided):some")
	}
	tolO := 1e-9*r.area + floor
	for i := range proper {
		for j := i + 1; j < len(proper); j++ {
			// in a frame with its origin at a vertex of the first triangle: far from the origin the clipping
			// arithmetic would otherwise lose 1e-16 x (distance x size) of area to cancellation (differences of
			// nearby floats are exact, so moving the origin costs nothing)
			org := proper[i][0]
			var a, b [3]kit.V2
			for k := 0; k < 3; k++ {
				a[k], b[k] = proper[i][k].Sub(org), proper[j][k].Sub(org)
			}
			if ov := kit.TriTriOverlapArea2(a, b); ov > tolO {
				return fmt.Errorf("triangles %v and %v overlap in an area of %g (region area %g)", proper[i], proper[j], ov, r.area)
			}
		}
	}
	tolA := 1e-9*r.area + floor*float64(len(tris)+1)
	if d := math.Abs(sum - r.area); d > tolA {
		// Ear clipping re-runs the colinearity filter after every clipped ear: a vertex whose two (current)
		// neighbours make |sin| <= 1e-8 with it is dropped, losing at most 0.5e-8 * |e1| |e2| <= 0.5e-8 diam^2
		// per vertex.  Inside that band the verdict is undecidable.
		if opt.earClip && d <= tolA+0.5e-8*r.diam*r.diam*float64(len(r.pts)) {
			o.Skip("area-within-colinear-removal-band")
			return errSkipped
		}
		return fmt.Errorf("triangle areas sum to %.17g but the region has area %.17g (difference %g, %d triangles of which %d degenerate)", sum, r.area, sum-r.area, len(tris), ndeg)
	}
	return nil
}

// tagOnDiagonal names the input class of the known finding "ear clipping ignores a vertex lying on the
// ear's base": some reflex vertex of the polygon (colinear-run vertices removed first, as the library
// does) lies, within 1e-9 diameters, on the open segment between two other vertices a, b, and that
// segment runs inside the closed polygon (only such a segment can become the base of an ear: no polygon
// edge crosses it and, cut at the vertices lying on it, none of its pieces is outside).
const tagOnDiagonal = "ear-vertex-on-diagonal"

// reflexVertexOnDiagonal reports whether loop 0 of the region belongs to that class.
func reflexVertexOnDiagonal(r *region, rel float64) bool {
	l := r.loops[0]
	n := len(l)
	ccw := shoelace(l) > 0
	var red []kit.V2
	var reflex []bool
	for k := range l {
		p1, p2, p3 := l[(k+n-1)%n], l[k], l[(k+1)%n]
		s := p2.Sub(p1).Unit().Cross(p3.Sub(p2).Unit())
		if math.Abs(s) < 1e-10 {
			continue
		}
		red = append(red, p2)
		reflex = append(reflex, (s > 0) != ccw)
	}
	tol := rel * r.diam
	for i, v := range red {
		if !reflex[i] {
			continue
		}
		for a := 0; a < len(red); a++ {
			for b := a + 1; b < len(red); b++ {
				if a == i || b == i {
					continue
				}
				d := red[b].Sub(red[a])
				len2 := d.Dot(d)
				t := v.Sub(red[a]).Dot(d) / len2
				if t <= 0 || t >= 1 {
					continue
				}
				if math.Abs(kit.Orient2(red[a], red[b], v)) > tol*math.Sqrt(len2) {
					continue
				}
				// cut ab at every vertex lying on it and probe the middle of every piece
				ts := []float64{0, 1}
				for _, w := range red {
					tw := w.Sub(red[a]).Dot(d) / len2
					if tw > 0 && tw < 1 && math.Abs(kit.Orient2(red[a], red[b], w)) <= tol*math.Sqrt(len2) {
						ts = append(ts, tw)
					}
				}
				ts = kit.SortedFloats(ts)
				inside := true
				for k := 0; k+1 < len(ts); k++ {
					m := red[a].Add(d.Scale((ts[k] + ts[k+1]) / 2))
					if in, ok := kit.EvenOdd2(r.segs, m, tol); ok && !in {
						inside = false
					}
				}
				for _, sg := range r.segs {
					if tolerantCross(red[a], red[b], sg[0], sg[1], tol*r.diam) {
						inside = false
					}
				}
				if inside {
					return true
				}
			}
		}
	}
	return false
}

// skipKnownEar returns true when the case must be left out because the known finding is active.
func skipKnownEar(r *region, o *kit.Obs) bool {
	if reflexVertexOnDiagonal(r, 1e-9) {
		o.Label("reflex-vertex-on-a-diagonal")
		if kit.Excluded(tagOnDiagonal) {
			kit.CountExcluded(tagOnDiagonal)
			return true
		}
		return false
	}
	if reflexVertexOnDiagonal(r, 1e-6) {
		o.Label("reflex-vertex-near-a-diagonal")
		if kit.Excluded(tagNearDiagonal) {
			kit.CountExcluded(tagNearDiagonal)
			return true
		}
	}
	return false
}

// tagNearDiagonal names the input class of the known finding "ear clipping panics when it ends on a
// sliver": as tagOnDiagonal, but the reflex vertex misses the segment by between 1e-9 and 1e-6 diameters
// (three vertices colinear to about the library's 1e-8 threshold without being exactly colinear).
const tagNearDiagonal = "ear-near-colinear-triple"

// tagFaceLine names the input class of the known finding "TriangulateFace picks its second basis vector
// from rounding noise": some vertex other than the first two lies within 1e-9 diameters of the line
// through the first two vertices (the first vertex is inside or next to a colinear run, or another
// vertex happens to be aligned with the first edge).
const tagFaceLine = "face-vertex-on-first-edge-line"

func vertexOnFirstEdgeLine(r *region) bool {
	l := r.loops[0]
	d := l[1].Sub(l[0])
	for _, p := range l[2:] {
		if math.Abs(kit.Orient2(l[0], l[1], p)) <= 1e-9*r.diam*d.Norm() {
			return true
		}
	}
	return false
}

func skipKnownFace(r *region, o *kit.Obs) bool {
	if !vertexOnFirstEdgeLine(r) {
		return false
	}
	o.Label("vertex-on-first-edge-line")
	if kit.Excluded(tagFaceLine) {
		kit.CountExcluded(tagFaceLine)
		return true
	}
	return false
}
