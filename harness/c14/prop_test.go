package c14

import (
	"bytes"
	"errors"
	"fmt"
	"math"
	"runtime"
	"strconv"
	"testing"

	"github.com/unixpickle/model3d/model2d"
	"github.com/unixpickle/model3d/model3d"
	"pgregory.net/rapid"
	"verifharness/gen"
	"verifharness/kit"
	"verifharness/m3"
)

const rule = "inputs: simple polygons built from explicit non-crossing templates (convex on a circle, star-shaped with strictly increasing angles, alternating-radius zigzag stars, x-monotone two-chain polygons, combs with leaning/regular teeth, spiral corridors), with 1-3 extra vertices inserted on up to 3 edges (colinear runs), star-shaped holes and nested islands placed in disjoint discs inside a guaranteed inscribed disc (depth <= 3), optionally a second component; every shape is re-validated by brute force (no two non-adjacent edges within 1e-3 diameters) and placed by identity / quarter turns / generic rotation, mirror, scale 0.1..10 and translation; any start vertex and direction for the list APIs; random planes (axis-aligned with probability 1/4) for 3D faces and OFF files; outlines of all 3x3 and 4x4 bitmaps (unit-step colinear runs, equal abscissae) exhaustively. Non-trivial: the region has at least one reflex vertex or a hole. Distinct: hash of the JSON case."

// ---------------------------------------------------------------------------
// shared helpers

func reorder(l []kit.V2, start int, reverse bool) []kit.V2 {
	n := len(l)
	out := make([]kit.V2, n)
	s := ((start % n) + n) % n
	for i := 0; i < n; i++ {
		if reverse {
			out[i] = l[(s+n-i)%n]
		} else {
			out[i] = l[(s+i)%n]
		}
	}
	return out
}

// prepare validates the canonical shape, applies the placement and builds the region.  ok=false: the
// case was skipped (undecidable band).
func prepare(s shape, p place, o *kit.Obs) (*region, bool, error) {
	if err := validLoops(s.Loops); err != nil {
		return nil, false, fmt.Errorf("%w: generator produced an invalid shape: %v", kit.ErrInfra, err)
	}
	r, err := newRegion(p.applyLoops(s.Loops))
	if err != nil {
		return nil, false, err
	}
	o.Label("family:" + s.Family)
	o.Label("place:" + p.Kind)
	if r.band > 0 {
		// a vertex whose |sin(angle)| lies in [1e-10, 1e-6]: too close to the library's 1e-8 colinearity
		// threshold / the arccosine resolution of its angle tests to say which side it must fall on
		o.Skip("near-colinear-vertex-band")
		return r, false, nil
	}
	r.labels(o)
	return r, true, nil
}

func meshOf(r *region) *model2d.Mesh {
	m := model2d.NewMesh()
	for _, l := range r.oriented() {
		for i := range l {
			m.Add(&model2d.Segment{m3.C2(l[i]), m3.C2(l[(i+1)%len(l)])})
		}
	}
	return m
}

func tris2(ts [][3]model2d.Coord) [][3]kit.V2 {
	out := make([][3]kit.V2, len(ts))
	for i, t := range ts {
		out[i] = [3]kit.V2{m3.V2(t[0]), m3.V2(t[1]), m3.V2(t[2])}
	}
	return out
}

// ---------------------------------------------------------------------------
// Triangulate (ear clipping), 2D entry point and its model3d alias

type polyCase struct {
	Shape   shape  `json:"shape"`
	Place   place  `json:"place"`
	Start   int    `json:"start"`
	Reverse bool   `json:"reverse"`
	API     string `json:"api"` // "model2d" | "model3d"
}

func genPoly(t *rapid.T) polyCase {
	c := polyCase{Shape: genSimple(t, "shape"), Place: genPlace(t, "place")}
	c.Start = rapid.IntRange(0, len(c.Shape.Loops[0])-1).Draw(t, "start")
	c.Reverse = rapid.Bool().Draw(t, "reverse")
	c.API = rapid.SampledFrom([]string{"model2d", "model2d", "model3d"}).Draw(t, "api")
	return c
}

func checkPoly(c polyCase, o *kit.Obs) error {
	c.Shape.Loops = [][]kit.V2{reorder(c.Shape.Loops[0], c.Start, c.Reverse)}
	r, ok, err := prepare(c.Shape, c.Place, o)
	if err != nil || !ok {
		return err
	}
	if skipKnownEar(r, o) {
		return nil
	}
	in := make([]model2d.Coord, len(r.pts))
	for i, p := range r.pts {
		in[i] = m3.C2(p)
	}
	var out [][3]model2d.Coord
	if c.API == "model3d" {
		out = model3d.Triangulate(in)
	} else {
		out = model2d.Triangulate(in)
	}
	for i, p := range r.pts {
		if m3.V2(in[i]) != p {
			return fmt.Errorf("Triangulate modified its argument at index %d", i)
		}
	}
	o.Label("api:" + c.API)
	if shoelace(r.loops[0]) > 0 {
		o.Label("direction:ccw")
	} else {
		o.Label("direction:cw")
	}
	return done(checkCover(r, tris2(out), coverOpts{earClip: true}, o))
}

// ---------------------------------------------------------------------------
// TriangulateMesh (sweep), regions with holes and islands

type meshCase struct {
	Shape shape `json:"shape"`
	Place place `json:"place"`
}

func checkMesh(c meshCase, o *kit.Obs) error {
	r, ok, err := prepare(c.Shape, c.Place, o)
	if err != nil || !ok {
		return err
	}
	out := model2d.TriangulateMesh(meshOf(r))
	return done(checkCover(r, tris2(out), coverOpts{clockwise: true}, o))
}

// ---------------------------------------------------------------------------
// ProfileMesh

type profCase struct {
	Shape shape      `json:"shape"`
	Place place      `json:"place"`
	Z     [2]float64 `json:"z"` // minZ, maxZ as passed (either order)
}

func checkProfile(r *region, z0, z1 float64, o *kit.Obs) error {
	tris := m3.Tris(model3d.ProfileMesh(meshOf(r), z0, z1))
	var bottom [][3]kit.V2
	ntop := 0
	for i, t := range tris {
		nb, nt := 0, 0
		for _, v := range t {
			if _, ok := r.verts[canon(kit.V2{v[0], v[1]})]; !ok {
				return fmt.Errorf("profile: triangle %d has vertex %v whose (x,y) is not an input vertex", i, v)
			}
			switch v[2] {
			case z0:
				nb++
			case z1:
				nt++
			default:
				return fmt.Errorf("profile: triangle %d has vertex %v with z neither %g nor %g", i, v, z0, z1)
			}
		}
		if nb == 3 {
			bottom = append(bottom, [3]kit.V2{{t[0][0], t[0][1]}, {t[1][0], t[1][1]}, {t[2][0], t[2][1]}})
		}
		if nt == 3 {
			ntop++
		}
	}
	// the bottom cap is the TriangulateMesh output at z = minZ (checked first: it also detects the
	// undecidable near-colinear band, in which a sliver may carry either orientation)
	if err := checkCover(r, bottom, coverOpts{clockwise: true}, o); err != nil {
		if errors.Is(err, errSkipped) {
			return err
		}
		return fmt.Errorf("profile bottom cap: %w", err)
	}
	rep, err := kit.ClosedOrientedManifold(tris)
	if err != nil {
		return fmt.Errorf("profile: not a closed oriented manifold: %w", err)
	}
	// every even-depth loop bounds one solid component whose holes are its child loops: sphere with
	// handles, Euler characteristic 2 - 2*holes each
	even, odd := 0, 0
	for _, d := range r.depth {
		if d%2 == 0 {
			even++
		} else {
			odd++
		}
	}
	if rep.Components != even {
		return fmt.Errorf("profile: %d connected components, the outline has %d outer/island loops", rep.Components, even)
	}
	if want := 2*even - 2*odd; rep.Euler != want {
		return fmt.Errorf("profile: Euler characteristic %d, want %d (%d solids, %d through holes)", rep.Euler, want, even, odd)
	}
	if len(bottom) != ntop || len(tris)-len(bottom)-ntop != 2*len(r.segs) {
		return fmt.Errorf("profile: %d bottom, %d top and %d side triangles for %d outline segments (want equal caps and two side triangles per segment)", len(bottom), ntop, len(tris)-len(bottom)-ntop, len(r.segs))
	}
	// volume, computed about the centre of the bounding box (a closed mesh's volume is translation
	// invariant; this removes the cancellation of |coordinates|^3 terms)
	b := boundsOf(r.loops)
	ctr := kit.V3{(b.min[0] + b.max[0]) / 2, (b.min[1] + b.max[1]) / 2, (z0 + z1) / 2}
	sh := make([]kit.Tri, len(tris))
	for i, t := range tris {
		sh[i] = kit.Tri{t[0].Sub(ctr), t[1].Sub(ctr), t[2].Sub(ctr)}
	}
	vol := kit.SignedVolume(sh)
	h := z1 - z0
	// tolerance: 1e-9 relative + rounding of n terms of size diam^2 |h| and of the subtraction of the centre
	tol := 1e-9*r.area*math.Abs(h) + 1e-14*float64(len(tris))*(r.diam+r.maxAbs)*r.diam*(math.Abs(h)+math.Abs(z0)+math.Abs(z1))
	if h > 0 {
		if math.Abs(vol-r.area*h) > tol {
			return fmt.Errorf("profile: signed volume %.15g, want area*height = %.15g*%g = %.15g", vol, r.area, h, r.area*h)
		}
	} else {
		// minZ > maxZ is not ruled out by the documentation; either orientation of the result is accepted
		o.Label("z-order:reversed")
		if math.Abs(math.Abs(vol)-r.area*math.Abs(h)) > tol {
			return fmt.Errorf("profile (minZ > maxZ): |volume| %.15g, want %.15g", math.Abs(vol), r.area*math.Abs(h))
		}
	}
	return nil
}

func checkProf(c profCase, o *kit.Obs) error {
	r, ok, err := prepare(c.Shape, c.Place, o)
	if err != nil || !ok {
		return err
	}
	return done(checkProfile(r, c.Z[0], c.Z[1], o))
}

// ---------------------------------------------------------------------------
// TriangulateFace: planar faces in 3D

type faceCase struct {
	Shape   shape `json:"shape"`
	Place   place `json:"place"`
	Lift    lift  `json:"lift"`
	Start   int   `json:"start"`
	Reverse bool  `json:"reverse"`
}

func genFace(t *rapid.T, label string) faceCase {
	c := faceCase{Shape: genSimple(t, label+".shape"), Place: genPlace(t, label+".place"), Lift: genLift(t, label+".lift")}
	c.Start = rapid.IntRange(0, len(c.Shape.Loops[0])-1).Draw(t, label+".start")
	c.Reverse = rapid.Bool().Draw(t, label+".reverse")
	return c
}

// faceInput returns the 2D region (vertex i of r.pts is the i-th polygon vertex) and its 3D image.
func faceInput(c faceCase, o *kit.Obs) (*region, []kit.V3, bool, error) {
	c.Shape.Loops = [][]kit.V2{reorder(c.Shape.Loops[0], c.Start, c.Reverse)}
	r, ok, err := prepare(c.Shape, c.Place, o)
	if err != nil || !ok {
		return nil, nil, ok, err
	}
	// the plane's origin is given in units of the placement (a polygon drawn in nanometres does not sit five metres
	// from the origin of its own coordinate system: that would leave its vertices without digits)
	lf := c.Lift
	if sc := c.Place.Scale; sc != 0 {
		lf.Origin = lf.Origin.Scale(sc)
	}
	in3 := make([]kit.V3, len(r.pts))
	for i, p := range r.pts {
		in3[i] = lf.apply(p)
	}
	n := c.Lift.Normal.Unit()
	if math.Abs(n[0]) == 1 || math.Abs(n[1]) == 1 || math.Abs(n[2]) == 1 {
		o.Label("plane:axis-aligned")
	} else {
		o.Label("plane:generic")
	}
	return r, in3, true, nil
}

// checkFaceTris maps every output vertex to the nearest input vertex of the face and runs the 2D
// oracle on the face's own 2D coordinates.  TriangulateFace rebuilds 3D points from a 2D basis, so its
// output vertices are input vertices only up to rounding: tolerance 1e-9 (diameter + |coordinates|),
// three orders of magnitude above the rounding of the basis change and six below the guaranteed
// vertex separation of 1e-3 diameters.
func checkFaceTris(r *region, in3 []kit.V3, out []kit.Tri, o *kit.Obs) error {
	maxAbs := 0.0
	for _, p := range in3 {
		maxAbs = math.Max(maxAbs, p.MaxAbs())
	}
	tol := 1e-9 * (r.diam + maxAbs)
	t2 := make([][3]kit.V2, len(out))
	for i, t := range out {
		for k, v := range t {
			best, bi := math.Inf(1), -1
			for j, p := range in3 {
				if d := p.Dist(v); d < best {
					best, bi = d, j
				}
			}
			if !(best <= tol) {
				return fmt.Errorf("triangle %d vertex %v is not an input vertex (nearest input vertex %v at distance %g, tolerance %g)", i, v, in3[bi], best, tol)
			}
			t2[i][k] = r.pts[bi]
		}
	}
	return checkCover(r, t2, coverOpts{earClip: true}, o) // may be errSkipped: callers use done()
}

func checkFace(c faceCase, o *kit.Obs) error {
	r, in3, ok, err := faceInput(c, o)
	if err != nil || !ok {
		return err
	}
	if skipKnownEar(r, o) || skipKnownFace(r, o) {
		return nil
	}
	poly := make([]model3d.Coord3D, len(in3))
	for i, p := range in3 {
		poly[i] = m3.C3(p)
	}
	res := model3d.TriangulateFace(poly)
	out := make([]kit.Tri, len(res))
	for i, t := range res {
		out[i] = m3.Tri(t)
	}
	return done(checkFaceTris(r, in3, out, o))
}

// ---------------------------------------------------------------------------
// OFF files with polygonal faces

type offCase struct {
	Faces []faceCase `json:"faces"`
	Perm  []int      `json:"perm"`  // listing order of the vertices (faces' vertices, then the extras)
	Extra []kit.V3   `json:"extra"` // vertices not referenced by any face
	Split bool       `json:"split"` // counts on their own line ("OFF\n8 6 0") or after the keyword ("OFF 8 6 0")
}

func genOFF(t *rapid.T) offCase {
	var c offCase
	nf := rapid.IntRange(1, 4).Draw(t, "nfaces")
	total := 0
	for i := 0; i < nf; i++ {
		f := genFace(t, fmt.Sprintf("face%d", i))
		if i > 0 && (f.Place.Scale < 0.09 || f.Place.Scale > 11 || f.Place.Off.Norm() > 12*f.Place.Scale) {
			// faces in extreme units or far from the origin only come alone: several faces are spread along x by
			// an absolute distance, which would cost a tiny face its digits
			f.Place = place{Kind: "id", Scale: 1}
		}
		c.Faces = append(c.Faces, f)
		total += len(f.Shape.Loops[0])
		if i == 0 && (f.Place.Scale < 0.09 || f.Place.Scale > 11 || f.Place.Off.Norm() > 12*f.Place.Scale) {
			break
		}
	}
	ne := rapid.IntRange(0, 3).Draw(t, "nextra")
	for i := 0; i < ne; i++ {
		c.Extra = append(c.Extra, gen.Vec3(t, 3, "extra"))
	}
	idx := make([]int, total+ne)
	for i := range idx {
		idx[i] = i
	}
	if rapid.Bool().Draw(t, "shuffle") {
		idx = rapid.Permutation(idx).Draw(t, "perm")
	}
	c.Perm = idx
	c.Split = rapid.Bool().Draw(t, "split")
	return c
}

func ftoa(x float64) string { return strconv.FormatFloat(x, 'g', -1, 64) }

func checkOFF(c offCase, o *kit.Obs) error {
	type faceIn struct {
		r   *region
		in3 []kit.V3
	}
	// spread the faces along x so that their vertex sets are far apart
	spread := 0.0
	for _, f := range c.Faces {
		b := boundsOf(f.Place.applyLoops(f.Shape.Loops))
		spread = math.Max(spread, math.Max(b.min.Norm(), b.max.Norm()))
	}
	spread = 4*spread + 40
	var faces []faceIn
	var all []kit.V3
	var owner []int
	for i, f := range c.Faces {
		f.Lift.Origin = f.Lift.Origin.Add(kit.V3{spread * float64(i), 0, 0})
		fo := o // labels / non-triviality come from the first face
		if i > 0 {
			fo = &kit.Obs{}
		}
		r, in3, ok, err := faceInput(f, fo)
		if err != nil {
			return err
		}
		if !ok {
			o.Skip("near-colinear-vertex-band")
			return nil
		}
		if r.reflex > 0 {
			o.NonTrivial()
		}
		if skipKnownEar(r, o) || skipKnownFace(r, o) {
			return nil
		}
		faces = append(faces, faceIn{r, in3})
		for range in3 {
			owner = append(owner, i)
		}
		all = append(all, in3...)
	}
	nref := len(all)
	all = append(all, c.Extra...)
	if len(c.Perm) != len(all) {
		return fmt.Errorf("%w: permutation length %d for %d vertices", kit.ErrInfra, len(c.Perm), len(all))
	}
	pos := make([]int, len(all)) // vertex -> line
	seen := make([]bool, len(all))
	for line, v := range c.Perm {
		if v < 0 || v >= len(all) || seen[v] {
			return fmt.Errorf("%w: not a permutation", kit.ErrInfra)
		}
		seen[v] = true
		pos[v] = line
	}
	var buf bytes.Buffer
	if c.Split {
		fmt.Fprintf(&buf, "OFF\n%d %d 0\n", len(all), len(faces))
	} else {
		fmt.Fprintf(&buf, "OFF %d %d 0\n", len(all), len(faces))
	}
	for _, v := range c.Perm {
		p := all[v]
		fmt.Fprintf(&buf, "%s %s %s\n", ftoa(p[0]), ftoa(p[1]), ftoa(p[2]))
	}
	base := 0
	for _, f := range faces {
		fmt.Fprintf(&buf, "%d", len(f.in3))
		for j := range f.in3 {
			fmt.Fprintf(&buf, " %d", pos[base+j])
		}
		buf.WriteByte('\n')
		base += len(f.in3)
	}
	res, err := model3d.ReadOFF(bytes.NewReader(buf.Bytes()))
	if err != nil {
		return fmt.Errorf("ReadOFF rejected a valid file: %v", err)
	}
	o.Labelf("faces:%d", len(faces))
	// attribute every triangle to the face owning the input vertex nearest to its first vertex
	per := make([][]kit.Tri, len(faces))
	for _, t := range res {
		tr := m3.Tri(t)
		best, bi := math.Inf(1), -1
		for j := 0; j < nref; j++ {
			if d := all[j].Dist(tr[0]); d < best {
				best, bi = d, j
			}
		}
		per[owner[bi]] = append(per[owner[bi]], tr)
	}
	for i, f := range faces {
		if err := checkFaceTris(f.r, f.in3, per[i], o); err != nil {
			if errors.Is(err, errSkipped) {
				return nil
			}
			return fmt.Errorf("OFF face %d: %w", i, err)
		}
	}
	return nil
}

// ---------------------------------------------------------------------------
// Bitmap outlines: unit-step boundaries of sets of grid cells

type bitmapCase struct {
	L     gen.Lattice2 `json:"lattice"`
	Place place        `json:"place"`
	Z     [2]float64   `json:"z"`
}

// bitmapLoops returns the boundary loops of the union of the set cells (one vertex per lattice point
// on the boundary: straight sides are runs of colinear vertices).  ok=false when two cells touch only
// diagonally (the outline is then not a manifold, which TriangulateMesh requires).
func bitmapLoops(l gen.Lattice2) (loops [][]kit.V2, ok bool) {
	out := map[kit.V2]kit.V2{}
	var order []kit.V2
	add := func(a, b kit.V2) bool {
		if _, dup := out[a]; dup {
			return false
		}
		out[a] = b
		order = append(order, a)
		return true
	}
	for y := 0; y < l.N[1]; y++ {
		for x := 0; x < l.N[0]; x++ {
			if !l.At(x, y) {
				continue
			}
			fx, fy := float64(x), float64(y)
			// clockwise around the cell (y up): the cell lies to the right of every directed side
			if !l.At(x, y+1) && !add(kit.V2{fx, fy + 1}, kit.V2{fx + 1, fy + 1}) {
				return nil, false
			}
			if !l.At(x+1, y) && !add(kit.V2{fx + 1, fy + 1}, kit.V2{fx + 1, fy}) {
				return nil, false
			}
			if !l.At(x, y-1) && !add(kit.V2{fx + 1, fy}, kit.V2{fx, fy}) {
				return nil, false
			}
			if !l.At(x-1, y) && !add(kit.V2{fx, fy}, kit.V2{fx, fy + 1}) {
				return nil, false
			}
		}
	}
	seen := map[kit.V2]bool{}
	for _, a := range order {
		if seen[a] {
			continue
		}
		var loop []kit.V2
		for c := a; !seen[c]; c = out[c] {
			seen[c] = true
			loop = append(loop, c)
		}
		loops = append(loops, loop)
	}
	return loops, true
}

func checkBitmap(c bitmapCase, o *kit.Obs) error {
	loops, ok := bitmapLoops(c.L)
	if !ok {
		o.Label("bitmap:diagonal-contact(not manifold, not run)")
		return nil
	}
	if len(loops) == 0 {
		o.Label("bitmap:empty")
		return nil
	}
	r, err := newRegion(c.Place.applyLoops(loops))
	if err != nil {
		return err
	}
	o.Label("place:" + c.Place.Kind)
	r.labels(o)
	// the even-odd area must be the number of set cells: cross-check of the harness itself
	cells := 0
	for _, b := range c.L.Bits {
		if b == '1' {
			cells++
		}
	}
	sc := c.Place.Scale
	if sc == 0 {
		sc = 1
	}
	if math.Abs(r.area-float64(cells)*sc*sc) > 1e-9*r.area {
		return fmt.Errorf("%w: outline area %g for %d cells at scale %g", kit.ErrInfra, r.area, cells, sc)
	}
	if err := checkCover(r, tris2(model2d.TriangulateMesh(meshOf(r))), coverOpts{clockwise: true}, o); err != nil {
		if errors.Is(err, errSkipped) {
			return nil
		}
		return fmt.Errorf("TriangulateMesh: %w", err)
	}
	if c.Z[0] != c.Z[1] {
		if err := checkProfile(r, c.Z[0], c.Z[1], o); err != nil {
			return done(err)
		}
	}
	if len(loops) == 1 && !skipKnownEar(r, o) {
		o.Label("bitmap:single-loop(Triangulate too)")
		in := make([]model2d.Coord, len(r.pts))
		for i, p := range r.pts {
			in[i] = m3.C2(p)
		}
		if err := checkCover(r, tris2(model2d.Triangulate(in)), coverOpts{earClip: true}, o); err != nil {
			if errors.Is(err, errSkipped) {
				return nil
			}
			return fmt.Errorf("Triangulate: %w", err)
		}
	}
	return nil
}

func genZ(t *rapid.T) [2]float64 {
	if rapid.IntRange(0, 2).Draw(t, "zindependent") == 0 {
		// two unrelated heights: z0 + (z1 - z0) need not give z1 back in floating point
		a, b := gen.F(t, -5, 5, "za"), gen.F(t, -5, 5, "zb")
		if math.Abs(a-b) > 0.01 {
			return [2]float64{a, b}
		}
	}
	z0 := gen.F(t, -5, 5, "z0")
	h := gen.LogF(t, 0.01, 5, "height")
	if rapid.IntRange(0, 3).Draw(t, "zreversed") == 0 {
		return [2]float64{z0 + h, z0}
	}
	return [2]float64{z0, z0 + h}
}

// ---------------------------------------------------------------------------

func TestProp(t *testing.T) {
	runtime.GOMAXPROCS(2)
	kit.Run(t, "C14", rule,
		kit.Clause[polyCase]{Name: "C14/triangulate", Quick: 30000, Thorough: 500000, Gen: genPoly, Check: checkPoly},
		kit.Clause[meshCase]{Name: "C14/triangulate-mesh", Quick: 22000, Thorough: 450000, Gen: func(t *rapid.T) meshCase {
			return meshCase{Shape: genRegion(t, "shape"), Place: genPlace(t, "place")}
		}, Check: checkMesh},
		kit.Clause[profCase]{Name: "C14/profile-mesh", Quick: 10000, Thorough: 200000, Gen: func(t *rapid.T) profCase {
			return profCase{Shape: genRegion(t, "shape"), Place: genPlace(t, "place"), Z: genZ(t)}
		}, Check: checkProf},
		kit.Clause[faceCase]{Name: "C14/triangulate-face", Quick: 18000, Thorough: 350000, Gen: func(t *rapid.T) faceCase { return genFace(t, "face") }, Check: checkFace},
		kit.Clause[offCase]{Name: "C14/read-off", Quick: 6000, Thorough: 100000, Gen: genOFF, Check: checkOFF},
		kit.Enum[bitmapCase]{Name: "C14/bitmap/enum-3x3", N: 512, At: func(i int) bitmapCase {
			return bitmapCase{L: gen.Lattice2FromUint(3, 3, uint64(i)), Place: place{Kind: "id", Scale: 1}, Z: [2]float64{0, 1}}
		}, Check: checkBitmap},
		kit.Enum[bitmapCase]{Name: "C14/bitmap/enum-4x4", N: 65536, QuickStride: 4, At: func(i int) bitmapCase {
			return bitmapCase{L: gen.Lattice2FromUint(4, 4, uint64(i)), Place: place{Kind: "id", Scale: 1}, Z: [2]float64{-0.5, 0.25}}
		}, Check: checkBitmap},
		kit.Clause[bitmapCase]{Name: "C14/bitmap/random", Quick: 10000, Thorough: 200000, Gen: func(t *rapid.T) bitmapCase {
			return bitmapCase{L: gen.Lattice2Gen(t, 7, "bitmap"), Place: genPlace(t, "place"), Z: genZ(t)}
		}, Check: checkBitmap},
	)
}
