package c15

// OBJ / MTL / 3MF exporters.  No reader exists in the library, so the harness parses
// the structures and the written text itself: every input face is referenced exactly
// once (same orientation), every index is in range, material groups partition the
// faces by colour.

import (
	"archive/zip"
	"bytes"
	"encoding/xml"
	"fmt"
	"image"
	"io"
	"math"
	"strconv"
	"strings"

	ff "github.com/unixpickle/model3d/fileformats"
	"github.com/unixpickle/model3d/model2d"
	"github.com/unixpickle/model3d/model3d"
	"verifharness/kit"
)

// vertexColor is a pure, goroutine-safe colour function of the coordinate VALUE.
func vertexColor(seed uint32) func(model3d.Coord3D) [3]float64 {
	return func(c model3d.Coord3D) [3]float64 {
		h := hashCoord(seed, c.Array())
		return [3]float64{float64(h&0xff) / 255, float64((h>>8)&0xff) / 255, float64((h>>16)&0xff) / 255}
	}
}

// within32 reports whether p is x up to float32 rounding (the OBJ text holds float32
// numerals; a writer with more digits passes as well).
func within32(p, x float64) bool {
	return p == x || math.Abs(p-x) <= math.Abs(x)/(1<<23)+1.5e-45
}

type objText struct {
	mtllibs []string
	verts   [][]float64 // 3 or 6 numbers
	nvt     int         // number of "vt" lines
	nvn     int         // number of "vn" lines
	groups  []objTextGroup
}

type objTextGroup struct {
	material string
	faces    [][3][3]int
}

func parseOBJ(text string) (*objText, error) {
	res := &objText{}
	cur := -1
	for ln, line := range strings.Split(text, "\n") {
		f := strings.Fields(line)
		if len(f) == 0 {
			continue
		}
		switch f[0] {
		case "mtllib":
			res.mtllibs = append(res.mtllibs, strings.Join(f[1:], " "))
		case "v":
			nums := make([]float64, len(f)-1)
			for i, s := range f[1:] {
				x, err := strconv.ParseFloat(s, 64)
				if err != nil {
					return nil, fmt.Errorf("OBJ line %d: bad numeral %q", ln+1, s)
				}
				nums[i] = x
			}
			if len(nums) != 3 && len(nums) != 6 {
				return nil, fmt.Errorf("OBJ line %d: vertex with %d numbers", ln+1, len(nums))
			}
			res.verts = append(res.verts, nums)
		case "vt":
			res.nvt++
		case "vn":
			res.nvn++
		case "usemtl":
			if len(f) != 2 {
				return nil, fmt.Errorf("OBJ line %d: usemtl with %d arguments", ln+1, len(f)-1)
			}
			res.groups = append(res.groups, objTextGroup{material: f[1]})
			cur = len(res.groups) - 1
		case "f":
			if len(f) != 4 {
				return nil, fmt.Errorf("OBJ line %d: face with %d corners", ln+1, len(f)-1)
			}
			if cur < 0 {
				res.groups = append(res.groups, objTextGroup{})
				cur = 0
			}
			var face [3][3]int
			for k, s := range f[1:] {
				for j, part := range strings.Split(s, "/") {
					if j > 2 {
						return nil, fmt.Errorf("OBJ line %d: corner %q", ln+1, s)
					}
					if part == "" {
						continue
					}
					n, err := strconv.Atoi(part)
					if err != nil {
						return nil, fmt.Errorf("OBJ line %d: corner %q", ln+1, s)
					}
					face[k][j] = n
				}
			}
			res.groups[cur].faces = append(res.groups[cur].faces, face)
		default:
			return nil, fmt.Errorf("OBJ line %d: unknown statement %q", ln+1, f[0])
		}
	}
	return res, nil
}

// checkOBJStruct verifies group faces against the expected triangles (in order) for one
// group: indices in 1..len(Vertices), coordinates equal (Go ==).
func checkOBJFace(o *ff.OBJFile, face [3][3]int, want *model3d.Triangle) error {
	for k := 0; k < 3; k++ {
		vi, ti, ni := face[k][0], face[k][1], face[k][2]
		if vi < 1 || vi > len(o.Vertices) {
			return fmt.Errorf("vertex index %d outside 1..%d", vi, len(o.Vertices))
		}
		if ti < 0 || ti > len(o.UVs) || ni < 0 || ni > len(o.Normals) {
			return fmt.Errorf("texture/normal index %d/%d out of range (%d UVs, %d normals)", ti, ni, len(o.UVs), len(o.Normals))
		}
		if g := o.Vertices[vi-1]; g != want[k].Array() {
			return fmt.Errorf("corner %d references vertex %v, the face has %v", k, g, want[k].Array())
		}
	}
	return nil
}

func checkVertexColorOBJ(c meshCase, o *kit.Obs) error {
	if err := c.valid(); err != nil {
		return err
	}
	c.label(o)
	tris := c.tris()
	cf := vertexColor(c.ColorSeed)
	obj := model3d.BuildVertexColorOBJ(tris, cf)
	var faces [][3][3]int
	for _, g := range obj.FaceGroups {
		faces = append(faces, g.Faces...)
	}
	if len(faces) != len(tris) {
		return fmt.Errorf("BuildVertexColorOBJ: %d faces for %d triangles", len(faces), len(tris))
	}
	for i, f := range faces {
		if err := checkOBJFace(obj, f, tris[i]); err != nil {
			return fmt.Errorf("BuildVertexColorOBJ face %d: %v", i, err)
		}
	}
	if len(obj.VertexColors) != len(obj.Vertices) {
		return fmt.Errorf("BuildVertexColorOBJ: %d colours for %d vertices", len(obj.VertexColors), len(obj.Vertices))
	}
	for i, v := range obj.Vertices {
		if want := cf(model3d.NewCoord3DArray(v)); obj.VertexColors[i] != want {
			return fmt.Errorf("BuildVertexColorOBJ: vertex %d %v has colour %v, the colour function gives %v", i, v, obj.VertexColors[i], want)
		}
	}
	// the written text
	var buf bytes.Buffer
	if err := model3d.WriteVertexColorOBJ(&buf, tris, cf); err != nil {
		return fmt.Errorf("WriteVertexColorOBJ: %v", err)
	}
	txt, err := parseOBJ(buf.String())
	if err != nil {
		return fmt.Errorf("WriteVertexColorOBJ: %v", err)
	}
	n := 0
	for _, g := range txt.groups {
		for _, f := range g.faces {
			if n >= len(tris) {
				return fmt.Errorf("WriteVertexColorOBJ: more than %d face lines", len(tris))
			}
			for k := 0; k < 3; k++ {
				vi := f[k][0]
				if vi < 1 || vi > len(txt.verts) {
					return fmt.Errorf("WriteVertexColorOBJ: face line %d references vertex %d of %d", n, vi, len(txt.verts))
				}
				v := txt.verts[vi-1]
				if len(v) != 6 {
					return fmt.Errorf("WriteVertexColorOBJ: vertex line %d has %d numbers, want x y z r g b", vi, len(v))
				}
				w := tris[n][k].Array()
				col := cf(tris[n][k])
				for a := 0; a < 3; a++ {
					if !within32(v[a], w[a]) {
						return fmt.Errorf("WriteVertexColorOBJ: face line %d corner %d: coordinate %v written for %v", n, k, v[a], w[a])
					}
					if !within32(v[3+a], col[a]) {
						return fmt.Errorf("WriteVertexColorOBJ: face line %d corner %d: colour %v written for %v", n, k, v[3+a], col[a])
					}
				}
			}
			n++
		}
	}
	if n != len(tris) {
		return fmt.Errorf("WriteVertexColorOBJ: %d face lines for %d triangles", n, len(tris))
	}
	return nil
}

// facePalette gives face i its colour: Palette distinct colours, all float32-exact and
// pairwise different as float32 triples, cycling in a seed-dependent order.
func (c meshCase) faceColor(i int) [3]float64 {
	p := c.Palette
	if p < 1 {
		p = 1
	}
	k := int(mixU64(uint64(c.ColorSeed), uint64(i)) % uint64(p))
	return [3]float64{float64(k%5) / 4, float64((k/5)%5) / 4, float64(k/25) / 8}
}

func checkMaterialOBJ(c meshCase, o *kit.Obs) error {
	if err := c.valid(); err != nil {
		return err
	}
	if c.Palette > 100 {
		return fmt.Errorf("%w: palette too large", kit.ErrInfra)
	}
	c.label(o)
	tris := c.tris()
	index := map[*model3d.Triangle]int{}
	for i, t := range tris {
		index[t] = i
	}
	cf := func(t *model3d.Triangle) [3]float64 { return c.faceColor(index[t]) }
	obj, mtl := model3d.BuildMaterialOBJ(tris, cf)

	mats := map[string]*ff.MTLFileMaterial{}
	for _, m := range mtl.Materials {
		if _, dup := mats[m.Name]; dup {
			return fmt.Errorf("BuildMaterialOBJ: material %q defined twice", m.Name)
		}
		mats[m.Name] = m
	}
	// group g must hold exactly the faces of one colour, in input order
	byColor := map[[3]float64][]int{}
	var colorOrder [][3]float64
	for i := range tris {
		col := c.faceColor(i)
		if _, ok := byColor[col]; !ok {
			colorOrder = append(colorOrder, col)
		}
		byColor[col] = append(byColor[col], i)
	}
	o.Labelf("colours:%d", len(colorOrder))
	if len(obj.FaceGroups) != len(colorOrder) {
		return fmt.Errorf("BuildMaterialOBJ: %d face groups for %d distinct colours", len(obj.FaceGroups), len(colorOrder))
	}
	seenColor := map[[3]float64]bool{}
	total := 0
	for gi, g := range obj.FaceGroups {
		m := mats[g.Material]
		if m == nil {
			return fmt.Errorf("BuildMaterialOBJ: group %d uses material %q, which the MTL file does not define", gi, g.Material)
		}
		col := [3]float64{float64(m.Diffuse[0]), float64(m.Diffuse[1]), float64(m.Diffuse[2])}
		if seenColor[col] {
			return fmt.Errorf("BuildMaterialOBJ: two groups share the colour %v", col)
		}
		seenColor[col] = true
		if m.Ambient != m.Diffuse {
			return fmt.Errorf("BuildMaterialOBJ: material %q has ambient %v and diffuse %v", m.Name, m.Ambient, m.Diffuse)
		}
		members, ok := byColor[col]
		if !ok {
			return fmt.Errorf("BuildMaterialOBJ: group %d has colour %v, which no face has", gi, col)
		}
		if len(members) != len(g.Faces) {
			return fmt.Errorf("BuildMaterialOBJ: group %d (colour %v) has %d faces, %d input faces have that colour", gi, col, len(g.Faces), len(members))
		}
		for j, f := range g.Faces {
			if err := checkOBJFace(obj, f, tris[members[j]]); err != nil {
				return fmt.Errorf("BuildMaterialOBJ: group %d face %d (input face %d): %v", gi, j, members[j], err)
			}
		}
		total += len(g.Faces)
	}
	if total != len(tris) {
		return fmt.Errorf("BuildMaterialOBJ: %d faces for %d triangles", total, len(tris))
	}

	// the zip archive written by EncodeMaterialOBJ
	zr, err := unzip(model3d.EncodeMaterialOBJ(tris, cf))
	if err != nil {
		return fmt.Errorf("EncodeMaterialOBJ: %v", err)
	}
	objText, ok1 := zr["object.obj"]
	mtlText, ok2 := zr["material.mtl"]
	if !ok1 || !ok2 {
		return fmt.Errorf("EncodeMaterialOBJ: archive lacks object.obj or material.mtl")
	}
	txt, err := parseOBJ(objText)
	if err != nil {
		return fmt.Errorf("EncodeMaterialOBJ: %v", err)
	}
	defined := map[string][3]float64{}
	var curName string
	for _, line := range strings.Split(mtlText, "\n") {
		f := strings.Fields(line)
		if len(f) == 2 && f[0] == "newmtl" {
			curName = f[1]
			if _, dup := defined[curName]; dup {
				return fmt.Errorf("EncodeMaterialOBJ: material %q defined twice in the MTL text", curName)
			}
			defined[curName] = [3]float64{-1, -1, -1}
		} else if len(f) == 4 && f[0] == "Kd" {
			var col [3]float64
			for a := 0; a < 3; a++ {
				if col[a], err = strconv.ParseFloat(f[1+a], 64); err != nil {
					return fmt.Errorf("EncodeMaterialOBJ: MTL line %q", line)
				}
			}
			defined[curName] = col
		}
	}
	if len(tris) > 0 && (len(txt.mtllibs) != 1 || txt.mtllibs[0] != "material.mtl") {
		return fmt.Errorf("EncodeMaterialOBJ: OBJ text references material files %q, the archive holds material.mtl", txt.mtllibs)
	}
	seen := make([]bool, len(tris))
	for gi, g := range txt.groups {
		col, ok := defined[g.material]
		if !ok {
			return fmt.Errorf("EncodeMaterialOBJ: group %d uses undefined material %q", gi, g.material)
		}
		for _, f := range g.faces {
			// find the unreferenced input face with these coordinates and this colour
			found := -1
			for i, t := range tris {
				if seen[i] {
					continue
				}
				want := c.faceColor(i)
				okc := true
				for a := 0; a < 3; a++ {
					// the MTL text has four decimals
					if math.Abs(col[a]-want[a]) > 1e-4 {
						okc = false
					}
				}
				if !okc {
					continue
				}
				match := true
				for k := 0; k < 3 && match; k++ {
					vi := f[k][0]
					if vi < 1 || vi > len(txt.verts) {
						return fmt.Errorf("EncodeMaterialOBJ: face references vertex %d of %d", vi, len(txt.verts))
					}
					w := t[k].Array()
					for a := 0; a < 3; a++ {
						if !within32(txt.verts[vi-1][a], w[a]) {
							match = false
						}
					}
				}
				if match {
					found = i
					break
				}
			}
			if found < 0 {
				return fmt.Errorf("EncodeMaterialOBJ: face line %v in group %q matches no unreferenced input face of that colour", f, g.material)
			}
			seen[found] = true
		}
	}
	for i, s := range seen {
		if !s {
			return fmt.Errorf("EncodeMaterialOBJ: input face %d is not referenced by the OBJ text", i)
		}
	}
	return nil
}

func unzip(data []byte) (map[string]string, error) {
	zr, err := zip.NewReader(bytes.NewReader(data), int64(len(data)))
	if err != nil {
		return nil, fmt.Errorf("output is not a zip archive: %v", err)
	}
	out := map[string]string{}
	for _, f := range zr.File {
		rc, err := f.Open()
		if err != nil {
			return nil, err
		}
		b, err := io.ReadAll(rc)
		rc.Close()
		if err != nil {
			return nil, fmt.Errorf("zip member %s: %v", f.Name, err)
		}
		out[f.Name] = string(b)
	}
	return out, nil
}

// ---------------------------------------------------------------------------
// 3MF

type xml3MF struct {
	Unit      string `xml:"unit,attr"`
	Resources struct {
		Objects []struct {
			ID   string `xml:"id,attr"`
			Mesh struct {
				Vertices struct {
					V []struct {
						X string `xml:"x,attr"`
						Y string `xml:"y,attr"`
						Z string `xml:"z,attr"`
					} `xml:"vertex"`
				} `xml:"vertices"`
				Triangles struct {
					T []struct {
						V1 string `xml:"v1,attr"`
						V2 string `xml:"v2,attr"`
						V3 string `xml:"v3,attr"`
					} `xml:"triangle"`
				} `xml:"triangles"`
			} `xml:"mesh"`
		} `xml:"object"`
	} `xml:"resources"`
	Build struct {
		Items []struct {
			ObjectID string `xml:"objectid,attr"`
		} `xml:"item"`
	} `xml:"build"`
}

// near3MF: the 3MF text is a decimal numeral; the writer keeps 32 decimals, so values
// are exact down to ~1e-15 and absolute below.  Tolerance: 1e-31 absolute + 4e-16 relative.
func near3MF(p, x float64) bool {
	return p == x || math.Abs(p-x) <= 1e-31+4e-16*math.Abs(x)
}

func check3MF(c meshCase, o *kit.Obs) error {
	if err := c.valid(); err != nil {
		return err
	}
	c.label(o)
	// the tolerance relation must be an equivalence on the coordinates in play, so that
	// "the same face" is well defined: any two coordinate values are either within a
	// tenth of the tolerance or more than ten tolerances apart; otherwise skip
	var vals []float64
	for _, f := range c.Faces {
		for _, i := range f {
			vals = append(vals, c.Verts[i][:]...)
		}
	}
	vals = kit.SortedFloats(vals)
	for i := 1; i < len(vals); i++ {
		d := vals[i] - vals[i-1]
		tol := 1e-31 + 4e-16*math.Max(math.Abs(vals[i]), math.Abs(vals[i-1]))
		if d > tol/10 && d < tol*10 {
			o.Skip("coordinates at the resolution limit of the 3MF numerals")
			return nil
		}
	}
	units := []ff.ThreeMFUnit{ff.ThreeMFUnitMillimeter, ff.ThreeMFUnitMicron, ff.ThreeMFUnitInch, ff.ThreeMFUnitMeter}
	unit := units[int(c.ColorSeed)%len(units)]
	tris := c.tris()
	var buf bytes.Buffer
	if err := model3d.Write3MF(&buf, unit, tris); err != nil {
		return fmt.Errorf("Write3MF: %v", err)
	}
	files, err := unzip(buf.Bytes())
	if err != nil {
		return fmt.Errorf("Write3MF: %v", err)
	}
	model, ok := files["3D/3dmodel.model"]
	if !ok {
		return fmt.Errorf("Write3MF: archive has no 3D/3dmodel.model")
	}
	var doc xml3MF
	if err := xml.Unmarshal([]byte(model), &doc); err != nil {
		return fmt.Errorf("Write3MF: model part is not well-formed XML: %v", err)
	}
	if doc.Unit != string(unit) {
		return fmt.Errorf("Write3MF: unit %q written for %q", doc.Unit, unit)
	}
	if len(doc.Resources.Objects) != 1 {
		return fmt.Errorf("Write3MF: %d objects", len(doc.Resources.Objects))
	}
	if len(doc.Build.Items) != 1 || doc.Build.Items[0].ObjectID != doc.Resources.Objects[0].ID {
		return fmt.Errorf("Write3MF: the build section does not reference the object")
	}
	mesh := doc.Resources.Objects[0].Mesh
	verts := make([][3]float64, len(mesh.Vertices.V))
	for i, v := range mesh.Vertices.V {
		for a, s := range []string{v.X, v.Y, v.Z} {
			x, err := strconv.ParseFloat(s, 64)
			if err != nil || math.IsInf(x, 0) || math.IsNaN(x) {
				return fmt.Errorf("Write3MF: vertex %d has coordinate %q", i, s)
			}
			verts[i][a] = x
		}
	}
	if len(mesh.Triangles.T) != len(tris) {
		return fmt.Errorf("Write3MF: %d triangles written for %d faces", len(mesh.Triangles.T), len(tris))
	}
	seen := make([]bool, len(tris))
	for ti, t := range mesh.Triangles.T {
		var idx [3]int
		for k, s := range []string{t.V1, t.V2, t.V3} {
			n, err := strconv.Atoi(s)
			if err != nil || n < 0 || n >= len(verts) {
				return fmt.Errorf("Write3MF: triangle %d has index %q, valid are 0..%d", ti, s, len(verts)-1)
			}
			idx[k] = n
		}
		found := -1
		for i, in := range tris {
			if seen[i] {
				continue
			}
			match := true
			for k := 0; k < 3 && match; k++ {
				w := in[k].Array()
				for a := 0; a < 3; a++ {
					if !near3MF(verts[idx[k]][a], w[a]) {
						match = false
					}
				}
			}
			if match {
				found = i
				break
			}
		}
		if found < 0 {
			return fmt.Errorf("Write3MF: triangle %d = %v %v %v matches no input face that is not already referenced", ti, verts[idx[0]], verts[idx[1]], verts[idx[2]])
		}
		seen[found] = true
	}
	return nil
}

// ---------------------------------------------------------------------------
// textured OBJ (UV map / quantized palette texture)

// uvOf is the pure UV assignment of corner k of face i.
func (c meshCase) uvOf(i, k int) model2d.Coord {
	h := mixU64(uint64(c.ColorSeed)+77, uint64(i*3+k))
	return model2d.XY(float64(h%17)/16, float64((h>>8)%17)/16)
}

func checkTextureOBJ(c meshCase, o *kit.Obs) error {
	if err := c.valid(); err != nil {
		return err
	}
	if c.Palette > 100 {
		return fmt.Errorf("%w: palette too large", kit.ErrInfra)
	}
	c.label(o)
	o.Label("api:" + c.API)
	tris := c.tris()
	index := map[*model3d.Triangle]int{}
	for i, t := range tris {
		index[t] = i
	}
	var obj *ff.OBJFile
	var mtl *ff.MTLFile
	var texture image.Image
	switch c.API {
	case "uvmap":
		uv := model3d.MeshUVMap{}
		for i, t := range tris {
			uv[t] = [3]model2d.Coord{c.uvOf(i, 0), c.uvOf(i, 1), c.uvOf(i, 2)}
		}
		obj, mtl = model3d.BuildUVMapMaterialOBJ(tris, uv)
		texture = image.NewRGBA(image.Rect(0, 0, 2, 2))
	case "quantized":
		size := 1 + int(c.Style%3)
		var img *image.RGBA
		obj, mtl, img = model3d.BuildQuantizedMaterialOBJ(tris, size, func(t *model3d.Triangle) [3]float64 { return c.faceColor(index[t]) })
		if img == nil || img.Bounds().Dx() != size || img.Bounds().Dy() != size {
			return fmt.Errorf("BuildQuantizedMaterialOBJ: texture is not %dx%d", size, size)
		}
		if len(obj.UVs) > size*size {
			return fmt.Errorf("BuildQuantizedMaterialOBJ: %d texture coordinates for a %dx%d palette", len(obj.UVs), size, size)
		}
		texture = img
	default:
		return fmt.Errorf("%w: unknown api %q", kit.ErrInfra, c.API)
	}
	var faces [][3][3]int
	for gi, g := range obj.FaceGroups {
		found := false
		for _, m := range mtl.Materials {
			if m.Name == g.Material {
				found = true
			}
		}
		if !found {
			return fmt.Errorf("%s: group %d uses material %q, which the MTL file does not define", c.API, gi, g.Material)
		}
		faces = append(faces, g.Faces...)
	}
	if len(faces) != len(tris) {
		return fmt.Errorf("%s: %d faces for %d triangles", c.API, len(faces), len(tris))
	}
	for i, f := range faces {
		if err := checkOBJFace(obj, f, tris[i]); err != nil {
			return fmt.Errorf("%s: face %d: %v", c.API, i, err)
		}
		for k := 0; k < 3; k++ {
			ti := f[k][1]
			if ti < 1 {
				return fmt.Errorf("%s: face %d corner %d has no texture coordinate", c.API, i, k)
			}
			got := obj.UVs[ti-1]
			switch c.API {
			case "uvmap":
				if want := c.uvOf(i, k).Array(); got != want {
					return fmt.Errorf("uvmap: face %d corner %d has texture coordinate %v, the UV map says %v", i, k, got, want)
				}
			case "quantized":
				if ti != f[0][1] {
					return fmt.Errorf("quantized: face %d uses several palette entries %v", i, f)
				}
				if !(got[0] >= 0 && got[0] <= 1 && got[1] >= 0 && got[1] <= 1) {
					return fmt.Errorf("quantized: palette coordinate %v outside the texture", got)
				}
			}
		}
	}
	// the archive
	var buf bytes.Buffer
	if err := model3d.WriteTexturedMaterialOBJ(&buf, obj, mtl, texture); err != nil {
		return fmt.Errorf("WriteTexturedMaterialOBJ: %v", err)
	}
	files, err := unzip(buf.Bytes())
	if err != nil {
		return fmt.Errorf("WriteTexturedMaterialOBJ: %v", err)
	}
	for _, name := range []string{"object.obj", "material.mtl", "texture.png"} {
		if _, ok := files[name]; !ok {
			return fmt.Errorf("WriteTexturedMaterialOBJ: archive lacks %s", name)
		}
	}
	txt, err := parseOBJ(files["object.obj"])
	if err != nil {
		return fmt.Errorf("WriteTexturedMaterialOBJ: %v", err)
	}
	n := 0
	for _, g := range txt.groups {
		for _, f := range g.faces {
			if n >= len(tris) {
				return fmt.Errorf("WriteTexturedMaterialOBJ: more than %d face lines", len(tris))
			}
			for k := 0; k < 3; k++ {
				vi, ti, ni := f[k][0], f[k][1], f[k][2]
				if vi < 1 || vi > len(txt.verts) || ti < 1 || ti > txt.nvt || ni < 0 || ni > txt.nvn {
					return fmt.Errorf("WriteTexturedMaterialOBJ: face line %d corner %d = %v with %d v, %d vt, %d vn lines", n, k, f[k], len(txt.verts), txt.nvt, txt.nvn)
				}
				w := tris[n][k].Array()
				for a := 0; a < 3; a++ {
					if !within32(txt.verts[vi-1][a], w[a]) {
						return fmt.Errorf("WriteTexturedMaterialOBJ: face line %d corner %d: coordinate %v written for %v", n, k, txt.verts[vi-1][a], w[a])
					}
				}
			}
			n++
		}
	}
	if n != len(tris) {
		return fmt.Errorf("WriteTexturedMaterialOBJ: %d face lines for %d triangles", n, len(tris))
	}
	return nil
}
