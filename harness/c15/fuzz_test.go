package c15

// Native fuzz target for the generic PLY round trip.  The fuzz bytes are decoded into a
// header plus values (every byte string decodes to a well-formed case), and the oracle
// is checkPLY, the same function the kit clauses "C15/ply/generic-roundtrip" and
// "C15/fuzz/ply-roundtrip" use; a failure is saved as a replay record for the latter.

import (
	"crypto/sha1"
	"encoding/json"
	"fmt"
	"os"
	"path/filepath"
	"runtime/debug"
	"testing"

	"verifharness/kit"
)

type byteSrc struct {
	b []byte
	i int
}

func (s *byteSrc) u8() int {
	if s.i < len(s.b) {
		s.i++
		return int(s.b[s.i-1])
	}
	return 0
}

func (s *byteSrc) raw(n int) uint64 {
	var v uint64
	for i := 0; i < n; i++ {
		v |= uint64(s.u8()) << (8 * i)
	}
	return v
}

func (s *byteSrc) name() string {
	k := s.u8()
	if k < 128 {
		n := plyNamePool[k%len(plyNamePool)]
		return n
	}
	if k == 255 {
		return "x_end_header" // a name that ends in the header terminator (replay fixed-ply-name-end-header)
	}
	n := 1 + k%6
	b := make([]byte, n)
	for i := range b {
		b[i] = plyNameAlphabet[s.u8()%len(plyNameAlphabet)]
	}
	return string(b)
}

// decodePLYCase maps any byte string to a valid case: <= 4 elements, 1-4 properties,
// <= 5 rows, lists of <= 9 items (or the 8-bit limits 127/255 for one marker value).
func decodePLYCase(data []byte) plyCase {
	s := &byteSrc{b: data}
	h := s.u8()
	c := plyCase{Format: h % 3, Chunk: []int{0, 1, 7, 0}[(h/3)%4]}
	ne := s.u8() % 5
	for e := 0; e < ne; e++ {
		el := plyElem{Name: s.name()}
		np := 1 + s.u8()%4
		for p := 0; p < np; p++ {
			t := s.u8()
			pr := plyProp{Name: s.name(), Type: t % len(plyTypes)}
			if t >= 160 {
				pr.Len = 1 + s.u8()%nLenTypes
			}
			el.Props = append(el.Props, pr)
		}
		nr := s.u8() % 6
		for r := 0; r < nr; r++ {
			row := make([][]uint64, np)
			for p, pr := range el.Props {
				k := plyTypes[pr.Type].kind
				n := 1
				if pr.Len != 0 {
					lk := plyTypes[pr.Len-1].kind
					switch l := s.u8(); {
					case l == 255 && lk.maxLen() >= 255:
						n = 255
					case l == 254:
						n = 127
					default:
						n = l % 10
					}
				}
				row[p] = make([]uint64, n)
				for i := range row[p] {
					row[p][i] = k.trunc(s.raw(k.size()))
				}
			}
			el.Rows = append(el.Rows, row)
		}
		c.Elems = append(c.Elems, el)
	}
	return c
}

func safePLY(c plyCase) (err error) {
	defer func() {
		if p := recover(); p != nil {
			st := string(debug.Stack())
			if len(st) > 3000 {
				st = st[:3000]
			}
			err = fmt.Errorf("panic: %v\n%s", p, st)
		}
	}()
	return checkPLY(c, &kit.Obs{})
}

var fuzzSeeds = [][]byte{
	{},
	{0, 2, 0, 1, 8, 3, 3, 1, 0, 0, 0, 2, 0, 0, 0, 3, 0, 0, 0, 1, 1, 170, 7, 2, 1, 2, 3, 1, 2, 3, 4, 5, 6, 7, 8},
	{1, 3, 0, 0, 12, 3, 0, 1, 0, 14, 4, 2, 1, 2, 3, 4, 5, 6, 7, 8, 9, 10, 11, 12, 13, 14, 15, 16, 2, 0, 200, 5, 9, 0},
	{2, 4, 200, 1, 2, 3, 2, 161, 130, 3, 4, 5, 12, 1, 3, 3, 1, 1, 1, 1, 2, 2, 2, 2, 3, 3, 3, 3, 255, 255, 255, 255, 0, 1, 6, 0, 1, 4, 2, 0xff, 0x7f, 0, 0x80},
	{0, 1, 5, 1, 13, 6, 3, 0, 0, 0xc0, 0x7f, 1, 0, 0x80, 0x7f, 0, 0, 0x80, 0xff},
	{5, 2, 1, 1, 165, 2, 2, 2, 255, 1, 2, 3, 4, 5, 6, 7, 8, 9, 10, 254, 3, 1, 1, 0, 2},
}

func FuzzPLYRoundTrip(f *testing.F) {
	for _, s := range fuzzSeeds {
		f.Add(s)
	}
	f.Fuzz(func(t *testing.T, data []byte) {
		if len(data) > 4096 {
			return
		}
		c := decodePLYCase(data)
		err := safePLY(c)
		if err == nil {
			return
		}
		raw, _ := json.Marshal(c)
		rec, _ := json.Marshal(map[string]any{
			"clause": "C15/fuzz/ply-roundtrip",
			"msg":    err.Error(),
			"case":   json.RawMessage(raw),
		})
		if dir := os.Getenv("VERIF_FUZZ_OUT"); dir != "" {
			os.MkdirAll(dir, 0o755)
			name := fmt.Sprintf("crash-%x.json", sha1.Sum(raw))[:6+16] + ".json"
			if werr := os.WriteFile(filepath.Join(dir, name), rec, 0o644); werr != nil {
				t.Logf("cannot write the failure record: %v", werr)
			}
		}
		t.Fatalf("C15/fuzz/ply-roundtrip: %v", err)
	})
}

// TestCorpusToRecord converts the input go test saved after a fuzz worker died (VERIF_FUZZ_CORPUS_FILE) into a replay
// record of the clause "C15/fuzz/ply-roundtrip" under VERIF_FUZZ_OUT, without running the oracle; the driver then
// replays that record in a fresh process to decide whether the death reproduces.
func TestCorpusToRecord(t *testing.T) {
	path := os.Getenv("VERIF_FUZZ_CORPUS_FILE")
	if path == "" {
		t.Skip("driver helper")
	}
	data, err := kit.ReadFuzzCorpusBytes(path)
	if err != nil {
		t.Fatal(err)
	}
	if len(data) > 4096 {
		t.Skip("input longer than the target accepts")
	}
	raw, _ := json.Marshal(decodePLYCase(data))
	rec, _ := json.Marshal(map[string]any{"clause": "C15/fuzz/ply-roundtrip", "msg": "the fuzz worker process died on this input", "case": json.RawMessage(raw)})
	dir := os.Getenv("VERIF_FUZZ_OUT")
	os.MkdirAll(dir, 0o755)
	name := fmt.Sprintf("crash-%x.json", sha1.Sum(raw))[:6+16] + ".json"
	if err := os.WriteFile(filepath.Join(dir, name), rec, 0o644); err != nil {
		t.Fatal(err)
	}
}
