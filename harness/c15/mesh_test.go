package c15

// Mesh cases shared by the STL / PLY / OBJ / 3MF clauses: a vertex pool plus index
// triples.  Coordinates are drawn from classes that stress the codecs: float32-exact,
// not float32-representable (including exact round-to-even ties), huge (up to 3e38, the
// formats cannot hold values that overflow float32), float32-subnormal, below the
// smallest float32 subnormal, +0 and -0, and near-duplicates that collide after rounding.

import (
	"bytes"
	"encoding/json"
	"fmt"
	"io"
	"math"

	"github.com/unixpickle/model3d/model3d"
	"pgregory.net/rapid"
	"verifharness/gen"
	"verifharness/kit"
)

type meshCase struct {
	Verts     []vec3   `json:"verts"`
	Faces     [][3]int `json:"faces"`
	API       string   `json:"api,omitempty"`
	Chunk     int      `json:"chunk,omitempty"`      // reader hands out at most this many bytes per Read (0: all)
	ColorSeed uint32   `json:"color_seed,omitempty"` // seed of the pure colour function
	Palette   int      `json:"palette,omitempty"`    // number of distinct face colours (material OBJ)
	Style     uint32   `json:"style,omitempty"`      // seed of the text style (harness-written files)
}

const maxCoord = 3e38

// vec3 / vec2 are coordinate tuples whose JSON form keeps the sign of zero through tools
// that read the integer numeral "-0" as 0 (the driver re-serialises records with Python):
// negative zero is written "-0.0".
type vec3 [3]float64
type vec2 [2]float64

func (v vec3) MarshalJSON() ([]byte, error) { return marshalFloats(v[:]) }
func (v vec2) MarshalJSON() ([]byte, error) { return marshalFloats(v[:]) }

func marshalFloats(xs []float64) ([]byte, error) {
	b := []byte{'['}
	for i, x := range xs {
		if i > 0 {
			b = append(b, ',')
		}
		if x == 0 && math.Signbit(x) {
			b = append(b, "-0.0"...)
			continue
		}
		j, err := json.Marshal(x)
		if err != nil {
			return nil, err
		}
		b = append(b, j...)
	}
	return append(b, ']'), nil
}

var negZero = math.Copysign(0, -1)

func clampCoord(x float64) float64 {
	if x > maxCoord {
		return maxCoord
	}
	if x < -maxCoord {
		return -maxCoord
	}
	return x
}

// oneIn is true with probability of roughly 1/n (rapid's integer ranges favour their
// ends, so the rare outcome is a middle value; shrinking moves away from it).
func oneIn(t *rapid.T, n int, label string) bool {
	return rapid.IntRange(0, n-1).Draw(t, label) == n/2
}

func sign(t *rapid.T, label string) float64 {
	if rapid.Bool().Draw(t, label) {
		return -1
	}
	return 1
}

var trickyCoords = []float64{
	0.1, 1.0 / 3, 2.0 / 3, 1e-3, 123456.789, 0.30000001192092896,
	16777217,            // 2^24+1: exact tie between two float32 values (rounds to even: 2^24)
	16777219,            // 2^24+3: tie, rounds up to 2^24+4
	1 + 1.0/(1<<24),     // tie just above 1
	1 + 3.0/(1<<24),     // tie, rounds to 1+4*2^-24
	8.589973e9,          // needs 7 digits
	1.00000017881393433, // needs 9 significant digits as a float32
	3e38, -3e38,
	1.1754943508222875e-38, // smallest normal float32
	1.401298464324817e-45,  // smallest subnormal float32
	7.006492321624085e-46,  // exactly half of it: tie, rounds to even (0)
	7.1e-46,                // just above the tie: rounds to the smallest subnormal
}

// genCoord draws one coordinate for a float32-based format.
func genCoord(t *rapid.T, label string) float64 {
	switch k := rapid.IntRange(0, 15).Draw(t, label+".class"); k {
	case 0, 1, 2, 3:
		return gen.F(t, -10, 10, label)
	case 4, 5:
		return float64(rapid.IntRange(-8, 8).Draw(t, label+".half")) / 2
	case 6:
		return 0
	case 7:
		return negZero
	case 8:
		return clampCoord(sign(t, label+".neg") * gen.LogF(t, 1e30, 3e38, label+".huge"))
	case 9:
		return sign(t, label+".neg") * gen.LogF(t, 1.5e-45, 1.17e-38, label+".sub")
	case 10:
		return sign(t, label+".neg") * gen.LogF(t, 1e-60, 1.4e-45, label+".tiny")
	case 11, 12:
		return sign(t, label+".neg") * rapid.SampledFrom(trickyCoords).Draw(t, label+".tricky")
	case 13:
		// a float64 neighbour of a float32 value: collides with it after rounding
		f := float64(float32(gen.F(t, -10, 10, label)))
		if rapid.Bool().Draw(t, label+".up") {
			return math.Nextafter(f, math.Inf(1))
		}
		return math.Nextafter(f, math.Inf(-1))
	default:
		return clampCoord(sign(t, label+".neg") * gen.LogF(t, 1e-30, 1e30, label+".log"))
	}
}

func genVert(t *rapid.T, pool []vec3, label string) vec3 {
	if len(pool) > 0 {
		switch rapid.IntRange(0, 9).Draw(t, label+".dup") {
		case 0: // exact duplicate of an earlier vertex (a second pool entry with the same coordinates)
			return pool[rapid.IntRange(0, len(pool)-1).Draw(t, label+".of")]
		case 1: // the float32 rounding of an earlier vertex (collides with it in the file)
			p := pool[rapid.IntRange(0, len(pool)-1).Draw(t, label+".of")]
			for i := range p {
				p[i] = float64(float32(p[i]))
			}
			return p
		case 2: // an earlier vertex with the sign of its zeros flipped (== but different bits)
			p := pool[rapid.IntRange(0, len(pool)-1).Draw(t, label+".of")]
			for i := range p {
				if p[i] == 0 {
					p[i] = math.Copysign(0, -math.Copysign(1, p[i]))
				}
			}
			return p
		case 3: // an earlier vertex with one coordinate changed (shared coordinates)
			p := pool[rapid.IntRange(0, len(pool)-1).Draw(t, label+".of")]
			p[rapid.IntRange(0, 2).Draw(t, label+".axis")] = genCoord(t, label)
			return p
		}
	}
	return vec3{genCoord(t, label+".x"), genCoord(t, label+".y"), genCoord(t, label+".z")}
}

// genMesh draws a mesh; big allows up to ~130 faces (crosses the 512-byte sniffing
// chunk of the STL reader and the 4096-byte bufio buffers).
func genMesh(t *rapid.T, big bool) meshCase {
	var c meshCase
	nv := rapid.IntRange(1, 9).Draw(t, "nverts")
	if oneIn(t, 25, "novertices") {
		nv = 0
	}
	for i := 0; i < nv; i++ {
		c.Verts = append(c.Verts, genVert(t, c.Verts, fmt.Sprintf("v%d", i)))
	}
	if nv == 0 {
		return c
	}
	nf := 0
	switch k := rapid.IntRange(0, 23).Draw(t, "size"); {
	case k == 12: // (rapid favours the ends of a range: rare classes sit in the middle)
		nf = 0
	case k == 13 || k == 14:
		nf = 1
	case k >= 15 && k <= 18 && big:
		nf = rapid.IntRange(9, 130).Draw(t, "nfaces")
	default:
		nf = rapid.IntRange(2, 12).Draw(t, "nfaces")
	}
	for i := 0; i < nf; i++ {
		var f [3]int
		if nv >= 3 && rapid.IntRange(0, 7).Draw(t, "distinct") != 0 {
			// three distinct pool entries
			f[0] = rapid.IntRange(0, nv-1).Draw(t, "a")
			f[1] = (f[0] + rapid.IntRange(1, nv-1).Draw(t, "b")) % nv
			k := rapid.IntRange(0, nv-3).Draw(t, "c")
			for j := 0; j < nv; j++ {
				if j == f[0] || j == f[1] {
					continue
				}
				if k == 0 {
					f[2] = j
					break
				}
				k--
			}
		} else {
			for k := range f {
				f[k] = rapid.IntRange(0, nv-1).Draw(t, "idx")
			}
		}
		c.Faces = append(c.Faces, f)
	}
	return c
}

// valid reports whether the case is well-formed (replay files are data: never trust them).
func (c meshCase) valid() error {
	for _, v := range c.Verts {
		for _, x := range v {
			if math.IsNaN(x) || math.Abs(x) > math.MaxFloat32 { // generated values stay <= 3e38; their float32 roundings may exceed that slightly
				return fmt.Errorf("%w: coordinate %g outside the formats' range", kit.ErrInfra, x)
			}
		}
	}
	for _, f := range c.Faces {
		for _, i := range f {
			if i < 0 || i >= len(c.Verts) {
				return fmt.Errorf("%w: face index %d out of range", kit.ErrInfra, i)
			}
		}
	}
	return nil
}

func (c meshCase) tris() []*model3d.Triangle {
	out := make([]*model3d.Triangle, len(c.Faces))
	for i, f := range c.Faces {
		t := &model3d.Triangle{}
		for k, idx := range f {
			v := c.Verts[idx]
			t[k] = model3d.XYZ(v[0], v[1], v[2])
		}
		out[i] = t
	}
	return out
}

// label classifies the mesh for the evidence histogram and marks non-triviality.
func (c meshCase) label(o *kit.Obs) {
	switch len(c.Faces) {
	case 0:
		o.Label("mesh:empty")
	case 1:
		o.Label("mesh:single")
		o.NonTrivial()
	default:
		o.NonTrivial()
		if len(c.Faces) > 8 {
			o.Label("mesh:>8faces")
		}
	}
	used := map[int]int{}
	var negz, huge, sub, nonrep, degenerate, collide, dupCoord bool
	seen := map[vec3]int{}
	seen32 := map[[3]float32]int{}
	for _, f := range c.Faces {
		if f[0] == f[1] || f[1] == f[2] || f[0] == f[2] {
			degenerate = true
		}
		for _, i := range f {
			used[i]++
		}
	}
	shared := false
	for i, v := range c.Verts {
		if used[i] == 0 {
			continue
		}
		if used[i] > 1 {
			shared = true
		}
		var v32 [3]float32
		for k, x := range v {
			v32[k] = float32(x)
			ax := math.Abs(x)
			switch {
			case x == 0 && math.Signbit(x):
				negz = true
			case ax >= 1e30:
				huge = true
			case ax != 0 && ax < 1.1754943508222875e-38:
				sub = true
			}
			if float64(float32(x)) != x {
				nonrep = true
			}
		}
		if _, ok := seen[v]; ok {
			dupCoord = true
		} else if _, ok := seen32[v32]; ok {
			collide = true
		}
		seen[v] = i
		seen32[v32] = i
	}
	names := []string{"shared-vertex", "neg-zero", "huge", "subnormal32", "non-float32", "degenerate-face", "collide-after-rounding", "duplicated-vertex"}
	for k, b := range []bool{shared, negz, huge, sub, nonrep, degenerate, collide, dupCoord} {
		if b {
			o.Label("mesh:" + names[k])
		}
	}
}

// ---------------------------------------------------------------------------
// readers / small helpers

// chunkReader returns at most n bytes per Read call (n <= 0: a plain reader).
type chunkReader struct {
	r io.Reader
	n int
}

func (c *chunkReader) Read(p []byte) (int, error) {
	if c.n > 0 && len(p) > c.n {
		p = p[:c.n]
	}
	return c.r.Read(p)
}

func newReader(data []byte, chunk int) io.Reader {
	if chunk <= 0 {
		return bytes.NewReader(data)
	}
	return &chunkReader{r: bytes.NewReader(data), n: chunk}
}

func genChunk(t *rapid.T) int {
	return rapid.SampledFrom([]int{0, 0, 0, 1, 3, 7, 50, 511, 513}).Draw(t, "chunk")
}

func r32(x float64) float64 { return float64(float32(x)) }

func bits(x float64) uint64 { return math.Float64bits(x) }

// mixU32 is a small deterministic hash (splitmix64 finaliser) used for colour functions
// and per-token style choices: pure functions of values stored in the case.
func mixU64(a uint64, b uint64) uint64 {
	v := a*0x9e3779b97f4a7c15 + b + 0x632be59bd9b4e019
	v ^= v >> 30
	v *= 0xbf58476d1ce4e5b9
	v ^= v >> 27
	v *= 0x94d049bb133111eb
	v ^= v >> 31
	return v
}

// hashCoord hashes a coordinate by VALUE: -0 and +0 hash alike, because the library's
// vertex de-duplication (Go ==) may substitute one for the other.
func hashCoord(seed uint32, v [3]float64) uint64 {
	h := uint64(seed) + 1
	for _, x := range v {
		h = mixU64(h, math.Float64bits(x+0)) // x+0 turns -0 into +0
	}
	return h
}

// edgeMeshes is the fixed list of corner-case meshes that every mesh clause also runs
// through an exhaustive Enum (so they are covered whatever the random draws do).
func edgeMeshes() []meshCase {
	tri := [][3]int{{0, 1, 2}}
	return []meshCase{
		{}, // empty
		{Verts: []vec3{{0, 0, 0}, {1, 0, 0}, {0, 1, 0}}, Faces: tri},
		{Verts: []vec3{{0, 0, 0}, {1, 0, 0}, {0, 1, 0}}, Faces: [][3]int{{0, 1, 2}, {0, 2, 1}, {0, 1, 2}}},                            // same face thrice, both orientations
		{Verts: []vec3{{negZero, 0, negZero}, {1, negZero, 0}, {0, 1, 0}, {0, 0, 0}}, Faces: [][3]int{{0, 1, 2}, {3, 2, 1}}},          // -0 and +0 versions of a vertex
		{Verts: []vec3{{3e38, -3e38, 3e38}, {-3e38, 3e38, 1e38}, {1e-45, -1e-45, 1e-40}}, Faces: tri},                                 // huge and subnormal
		{Verts: []vec3{{0.1, 1.0 / 3, 16777217}, {7.006492321624085e-46, 7.1e-46, 1e-60}, {1 + 1.0/(1<<24), 2, 3}}, Faces: tri},       // ties, underflow
		{Verts: []vec3{{0.1, 0.2, 0.3}, {r32(0.1), r32(0.2), r32(0.3)}, {1, 1, 1}, {2, 0, 0}}, Faces: [][3]int{{0, 2, 3}, {1, 3, 2}}}, // collide after rounding
		{Verts: []vec3{{1, 2, 3}, {1, 2, 3}, {4, 5, 6}, {7, 8, 9}}, Faces: [][3]int{{0, 2, 3}, {1, 3, 2}, {0, 0, 2}, {1, 1, 1}}},      // duplicated pool entries, degenerate faces
	}
}

func edgeMeshAt(apis []string) (int, func(i int) meshCase) {
	ms := edgeMeshes()
	chunks := []int{0, 1, 7}
	n := len(ms) * len(apis) * len(chunks)
	return n, func(i int) meshCase {
		c := ms[i%len(ms)]
		i /= len(ms)
		c.API = apis[i%len(apis)]
		i /= len(apis)
		c.Chunk = chunks[i%len(chunks)]
		c.ColorSeed = uint32(i*7 + 3)
		c.Palette = 2
		c.Style = uint32(i*13 + 5)
		return c
	}
}
